(** FleetLostBProofs: the rounds after the replacement of a lost member has been scheduled.

    Part 1: the leader's decision for a view entry in which every member is fresh, waiting (a joiner that has not
    reported), or lost ([lostp_entry]): nothing to restore; a waiting member: join-CREATE; no waiting member and the
    lost member failed: ADD if the entry has the defined number of members, DELETE if it has one more; otherwise
    nothing. *)
From stdpp Require Import gmap list numbers sorting.
From Coq Require Import ZifyN ZifyNat ZifyBool Lia.
From Drummer.Model Require Import DB Sched Fleet FleetRun MailboxSpec FleetRounds.
From Drummer.Proofs Require Import DBProofs DBViewProofs DBTimeProofs SchedProofs SchedTotal SchedEligibleProofs MailboxProofs FleetProofs FleetLiveProofs FleetHealProofs FleetMendProofs FleetMendAProofs FleetMendBProofs FleetLostProofs.
Local Open Scope N_scope.
Notation hist_of := Fleet.hist_of.

Section LostP.
Variable L : N → N → Prop.
Variable P : params.
Hypothesis Ldec : ∀ s rid, L s rid ∨ ¬ L s rid.

(* the state in which the leader schedules: every record of a view is fresh (its member reported at t), waiting (never
   reported), or the record of a lost member (reported in the past; the persisted log its NodeHost announced does not
   list it) *)
Record PReady (st : fstate) (t : N) : Prop := mkPReady {
  pr_inv : LoopInv st;
  pr_def : ∀ s, is_Some (d_view (f_db st) !! s) → ∃ sd, d_shards (f_db st) !! s = Some sd ∧ sd_app sd ≠ 0;
  pr_t : t ≠ 0 ∧ d_tick (f_db st) - t ≤ p_ttl P;
  pr_class : ∀ s c rid n, d_view (f_db st) !! s = Some c → s_reps c !! rid = Some n →
    r_tick n = t ∨ (r_tick n = 0 ∧ r_first n ≠ 0) ∨
    (L s rid ∧ r_tick n ≠ 0 ∧ ∀ hh, d_hosts (f_db st) !! r_addr n = Some hh → (s, rid) ∉ h_plog hh);
  pr_one : ∀ s r1 r2, L s r1 → L s r2 → r1 = r2;
  pr_onewait : ∀ s c r1 r2 n1 n2, d_view (f_db st) !! s = Some c → s_reps c !! r1 = Some n1 → s_reps c !! r2 = Some n2 →
    r_tick n1 = 0 → r_tick n2 = 0 → r1 = r2;
  pr_size : ∀ s rid, L s rid → (3 ≤ shard_size (f_db st) s)%nat }.

Lemma lostp_entry st t c :
  PReady st t → c ∈ entries (ctx_of_db (f_db st)) →
  let C := ctx_of_db (f_db st) in
  ∃ h sd, f_hist st !! s_id c = Some h ∧ d_view (f_db st) !! s_id c = Some c ∧ c_defs C !! s_id c = Some sd ∧ sd_app sd ≠ 0 ∧
    has_restore P C c = false ∧
    (∀ n, n ∈ sr_failed P C c → L (s_id c) (r_id n) ∧ r_tick n ≠ 0) ∧
    (∀ n, n ∈ sr_wait P C c → r_tick n = 0) ∧
    (sr_wait P C c ≠ [] → repair_action P C c = ACreate sd) ∧
    (sr_wait P C c = [] → sr_failed P C c = [] → repair_action P C c = ANone) ∧
    (sr_wait P C c = [] → sr_failed P C c ≠ [] →
       (size (s_reps c) = shard_size (f_db st) (s_id c) → repair_action P C c = AAdd) ∧
       (size (s_reps c) ≠ shard_size (f_db st) (s_id c) → repair_action P C c = ADelete)).
Proof.
  intros HR Hc C. pose proof (pr_inv _ _ HR) as HI. destruct (pr_t _ _ HR) as [Ht0 Hgap].
  destruct (view_entry_facts (f_db st) (f_hist st) c (li_view _ _ _ _ _ HI) Hc) as (h & Hh & Hvc & Hent & Hids).
  destruct (pr_def _ _ HR (s_id c)) as (sd & Hsd & Happ); [by eexists|].
  exists h, sd. split; [done|]. split; [done|]. split; [done|]. split; [done|].
  assert (Hrec : ∀ n, n ∈ mvals (s_reps c) → s_reps c !! r_id n = Some n).
  { intros n Hn. apply mvals_elem in Hn as [rid Hn]. destruct (Hids rid n Hn) as [-> _]. done. }
  (* the size of the entry *)
  assert (Hsize : (shard_size (f_db st) (s_id c) ≤ size (s_reps c) ∧ size (s_reps c) ≤ shard_size (f_db st) (s_id c) + 1)%nat).
  { apply entry_at_Some in Hent. destruct (hist_wf_mem_ok _ _ (li_hist _ _ _ _ _ HI _ _ Hh) _ Hent) as [Hb _]. cbn [snd] in Hb.
    rewrite map_size_fmap in Hb. done. }
  assert (Hnow : now C = d_tick (f_db st)) by done.
  (* classification of the records *)
  assert (Hfail : ∀ n, n ∈ sr_failed P C c → L (s_id c) (r_id n) ∧ r_tick n ≠ 0 ∧
            ∀ hh, d_hosts (f_db st) !! r_addr n = Some hh → (s_id c, r_id n) ∉ h_plog hh).
  { intros n Hn. apply elem_sr_failed in Hn as [Hn Hf]. pose proof (Hrec n Hn) as Hk.
    destruct (pr_class _ _ HR _ _ _ _ Hvc Hk) as [Htk|[[Hz Hfi]|?]]; [| |done]; exfalso.
    - unfold replica_failed in Hf. rewrite Htk in Hf. assert ((t =? 0) = false) as Hz by (by apply N.eqb_neq). rewrite Hz in Hf.
      unfold entity_failed in Hf. apply N.ltb_lt in Hf. unfold C, ctx_of_db in Hf. cbn [c_tick] in Hf. lia.
    - unfold replica_failed in Hf. rewrite Hz in Hf. cbn in Hf. by apply N.eqb_eq in Hf. }
  assert (Hwt : ∀ n, n ∈ sr_wait P C c → r_tick n = 0).
  { intros n Hn. apply elem_sr_wait in Hn as [_ Hw]. unfold replica_waiting in Hw. apply andb_true_iff in Hw as [Hz _]. by apply N.eqb_eq in Hz. }
  assert (Hrest : restorable P C c = []).
  { apply elem_of_nil_inv. intros n Hn. apply elem_restorable in Hn as [Hn Hr]. destruct (Hfail n Hn) as (_ & _ & Hnolog).
    apply elem_sr_failed in Hn as [Hn _]. pose proof (Hrec n Hn) as Hk.
    unfold restorable_rep in Hr. unfold C, ctx_of_db in Hr. cbn [c_hosts] in Hr. destruct (d_hosts (f_db st) !! r_addr n) as [hh|] eqn:Ehh; [|done].
    apply andb_true_iff in Hr as [_ Hlog]. unfold host_has_log in Hlog. apply bool_decide_eq_true in Hlog.
    destruct (Hids _ _ Hk) as [_ Hsh]. rewrite Hsh in Hlog. by apply (Hnolog hh). }
  assert (Hhr : has_restore P C c = false).
  { unfold has_restore, restore_set. rewrite Hrest. destruct (need_restore P C c); [|done]. by case_bool_decide. }
  assert (Hnr : is_restored P C c = false).
  { apply not_true_is_false. intros Hr. unfold is_restored in Hr. apply existsb_exists in Hr as (i & Hi & Heq).
    apply N.eqb_eq in Heq. subst i. apply elem_of_list_In in Hi. unfold restored_ids in Hi.
    apply elem_of_list_fmap in Hi as (c2 & Hid & Hc2). apply elem_of_list_filter in Hc2 as [Hr2 Hc2].
    assert (c2 = c) as -> by (apply (entry_inj C (loopinv_ctx_wf st HI)); done). congruence. }
  assert (Hnd : NoDup (mvals (s_reps c))) by (apply mvals_nodup; intros k n Hn; by destruct (Hids k n Hn)).
  assert (Hf1 : (n_failed P C c ≤ 1)%nat).
  { unfold n_failed, sr_failed, failed_replicas. apply length_filter_le1; [done|]. intros x y Hx Hy Fx Fy.
    destruct (Hfail x ltac:(by apply elem_sr_failed)) as (Lx & _). destruct (Hfail y ltac:(by apply elem_sr_failed)) as (Ly & _).
    pose proof (pr_one _ _ HR _ _ _ Lx Ly) as Heq. pose proof (Hrec x Hx) as Hkx. pose proof (Hrec y Hy) as Hky. rewrite Heq in Hkx. congruence. }
  assert (Hw1 : (n_wait P C c ≤ 1)%nat).
  { unfold n_wait, sr_wait, waiting_replicas. apply length_filter_le1; [done|]. intros x y Hx Hy Wx Wy.
    pose proof (Hwt x ltac:(by apply elem_sr_wait)) as Zx. pose proof (Hwt y ltac:(by apply elem_sr_wait)) as Zy.
    pose proof (pr_onewait _ _ HR _ _ _ _ _ _ Hvc (Hrec x Hx) (Hrec y Hy) Zx Zy) as Heq. pose proof (Hrec x Hx) as Hkx. pose proof (Hrec y Hy) as Hky. rewrite Heq in Hkx. congruence. }
  pose proof (sr_partition P C c) as Hp.
  split; [done|]. split; [intros n Hn; destruct (Hfail n Hn) as (? & ? & _); done|]. split; [done|].
  assert (Hdefs : c_defs C !! s_id c = Some sd) by done.
  assert (Hexp : length (sd_members sd) = shard_size (f_db st) (s_id c)) by (unfold shard_size; by rewrite Hsd).
  split; [|split].
  - (* a waiting member: join-CREATE *)
    intros Hw. assert (Hw0 : n_wait P C c = 1%nat) by (unfold n_wait in *; destruct (sr_wait P C c); [done|cbn [length] in *; lia]).
    unfold repair_action. assert (in_repair P C c = true) as ->.
    { unfold in_repair. rewrite Hw0. by rewrite andb_false_r. }
    rewrite Hnr. cbn [negb orb]. rewrite Hdefs.
    assert (delete_required P C c (length (sd_members sd)) = false) as ->.
    { unfold delete_required. apply andb_false_iff. right. apply bool_decide_eq_false. rewrite Hexp. lia. }
    assert (create_required P C c = true) as ->; [|done]. unfold create_required. apply bool_decide_eq_true. lia.
  - intros Hw Hf. unfold repair_action. assert (in_repair P C c = false) as ->; [|done].
    unfold in_repair, n_failed, n_wait. rewrite Hf, Hw. done.
  - intros Hw Hf. assert (Hw0 : n_wait P C c = 0%nat) by (unfold n_wait; by rewrite Hw).
    assert (Hone : n_failed P C c = 1%nat) by (unfold n_failed in *; destruct (sr_failed P C c); [done|cbn [length] in *; lia]).
    rewrite Hw0, Hone in Hp.
    destruct (sr_failed P C c) as [|nf l0] eqn:Efl; [done|]. destruct (Hfail nf ltac:(left)) as (Hlf & _).
    pose proof (pr_size _ _ HR _ _ Hlf) as H3.
    assert (Hav : sr_available P C c = true).
    { unfold sr_available. apply bool_decide_eq_true. rewrite sr_quorum_eq. unfold quorum_of.
      pose proof (Nat.div_lt_upper_bound (size (s_reps c)) 2 (size (s_reps c) - 1) ltac:(lia) ltac:(lia)). lia. }
    assert (Hrep : in_repair P C c = true) by (unfold in_repair; rewrite Hone; done).
    assert (Hcr : create_required P C c = false) by (unfold create_required; rewrite Hw0; done).
    split.
    + intros Hsz. unfold repair_action. rewrite Hrep, Hnr. cbn [negb orb]. rewrite Hdefs.
      assert (delete_required P C c (length (sd_members sd)) = false) as ->.
      { unfold delete_required. rewrite Hav, Hone. cbn [andb]. apply andb_false_iff. right. apply bool_decide_eq_false. rewrite Hexp. lia. }
      rewrite Hcr. assert (add_required P C c = true) as ->; [|done]. unfold add_required. rewrite Hav, Hone, Hw0. done.
    + intros Hsz. unfold repair_action. rewrite Hrep, Hnr. cbn [negb orb]. rewrite Hdefs.
      assert (delete_required P C c (length (sd_members sd)) = true) as ->; [|done].
      unfold delete_required. rewrite Hav, Hone. cbn [andb]. apply bool_decide_eq_true. rewrite Hexp. lia.
Qed.
End LostP.

(** * Part 2: executing requests - what stays *)
(* every replica stays, a running one stays running - unless the request is the KILL of a running replica, or a
   DELETE with a current fence whose target has data on the executing NodeHost *)
Lemma exec_req_mono h x q x' :
  exec_req h true x q = Some x' →
  (is_kill q = true → ∀ y ms fh lr, q_members q = y :: ms → x.1 !! h = Some fh → fh_reps fh !! (q_shard q, y) = Some lr → lr_running lr = false) →
  (is_delete q = true → q_ccid q ≠ cur_version (hist_of x.2 (q_shard q)) ∨
     ∀ y ms fh, q_members q = y :: ms → x.1 !! h = Some fh → fh_reps fh !! (q_shard q, y) = None) →
  ∀ a fh k lr, x.1 !! a = Some fh → fh_reps fh !! k = Some lr →
    ∃ fh' lr', x'.1 !! a = Some fh' ∧ fh_reps fh' !! k = Some lr' ∧ (lr_running lr = true → lr_running lr' = true).
Proof.
  intros E Hkill Hdel a fh k lr Ha Hk.
  assert (Hsame : ∃ fh' lr', x.1 !! a = Some fh' ∧ fh_reps fh' !! k = Some lr' ∧ (lr_running lr = true → lr_running lr' = true)) by (by exists fh, lr).
  assert (Hset : ∀ fh0 reps' (hist' : gmap N (list hentry)), x.1 !! h = Some fh0 →
            (a = h → ∃ lr', reps' !! k = Some lr' ∧ (lr_running lr = true → lr_running lr' = true)) →
            ∃ fh' lr', (set_reps x.1 h reps', hist').1 !! a = Some fh' ∧ fh_reps fh' !! k = Some lr' ∧ (lr_running lr = true → lr_running lr' = true)).
  { intros fh0 reps' hist' Hfh0 Hk'. cbn [fst]. rewrite set_reps_lookup, Hfh0. destruct (decide (a = h)) as [->|Hne]; [|by exists fh, lr].
    destruct (Hk' eq_refl) as (lr' & Hlr' & Hrun). eexists _, lr'. split; [done|]. done. }
  unfold exec_req in E. destruct (x.1 !! h) as [fh0|] eqn:Hfh0; [|injection E as <-; exact Hsame].
  assert (Hins : ∀ k0 lr1, a = h → (k = k0 → lr_running lr1 = true) →
            ∃ lr', <[k0 := lr1]> (fh_reps fh0) !! k = Some lr' ∧ (lr_running lr = true → lr_running lr' = true)).
  { intros k0 lr1 -> Hr1. assert (fh0 = fh) as -> by congruence. destruct (decide (k = k0)) as [->|Hne].
    - rewrite lookup_insert. exists lr1. split; [done|]. intros _. by apply Hr1.
    - rewrite lookup_insert_ne by done. by exists lr. }
  assert (Hll : ∀ s M v, a = h → ∃ lr', learn_local (fh_reps fh0) s M v !! k = Some lr' ∧ (lr_running lr = true → lr_running lr' = true)).
  { intros s M v ->. assert (fh0 = fh) as -> by congruence. unfold learn_local. rewrite map_lookup_imap, Hk. cbn.
    destruct (bool_decide (k.1 = s) && lr_running lr && is_member M k.2); eexists; (split; [done|]); done. }
  destruct (q_type q) eqn:Ety.
  - destruct (q_join q), (q_restore q); try done.
    + destruct (fh_reps fh0 !! (q_shard q, q_inst q)) as [lr1|] eqn:Ek; injection E as <-.
      * unfold start_existing. destruct (_ || _); [exact Hsame|]. apply (Hset fh0); [done|]. intros Hah. by apply Hins.
      * destruct (busy _ _); [exact Hsame|]. apply (Hset fh0); [done|]. intros Hah. by apply Hins.
    + destruct (fh_reps fh0 !! (q_shard q, q_inst q)) as [lr1|] eqn:Ek; injection E as <-; [|exact Hsame].
      unfold start_existing. destruct (_ || _); [exact Hsame|]. apply (Hset fh0); [done|]. intros Hah. by apply Hins.
    + destruct (fh_reps fh0 !! (q_shard q, q_inst q)) as [lr1|] eqn:Ek; [done|]. injection E as <-.
      destruct (busy _ _); [exact Hsame|]. apply (Hset fh0); [done|]. intros Hah. by apply Hins.
  - destruct (q_members q) as [|rid ms] eqn:Em; [done|]. injection E as <-.
    destruct (hist_of x.2 (q_shard q)) as [|e hs] eqn:Eh; [exact Hsame|].
    destruct (cc_ready true x.1 (fh_reps fh0) (q_shard q) e.1 e.2 (q_ccid q) && is_member e.2 rid) eqn:Ecc; [|exact Hsame].
    apply andb_true_iff in Ecc as [Ecc _]. unfold cc_ready in Ecc. apply andb_true_iff in Ecc as [Ecc _]. apply andb_true_iff in Ecc as [_ Hfen]. apply N.eqb_eq in Hfen.
    destruct (Hdel ltac:(unfold is_delete; by rewrite Ety)) as [Hst|Habs]; [cbn [cur_version] in Hst; done|].
    apply (Hset fh0); [done|]. intros Hah. destruct (Hll (q_shard q) e.2 (e.1 + 1) Hah) as (lr' & Hlr' & Hrr). exists lr'. split; [|done].
    rewrite lookup_delete_ne; [done|]. intros <-. subst a. assert (fh0 = fh) as -> by congruence. rewrite (Habs rid ms fh eq_refl eq_refl) in Hk. done.
  - destruct (q_members q) as [|rid ms]; [done|]. destruct (q_addrs q) as [|t ts]; [done|]. injection E as <-.
    destruct (hist_of x.2 (q_shard q)) as [|e hs]; [exact Hsame|]. destruct (_ && _); [|exact Hsame].
    apply (Hset fh0); [done|]. intros Hah. by apply Hll.
  - destruct (q_members q) as [|rid ms] eqn:Em; [done|]. injection E as <-.
    destruct (fh_reps fh0 !! (q_shard q, rid)) as [lr1|] eqn:Ek; [|exact Hsame]. destruct (lr_running lr1) eqn:Er1; [|exact Hsame].
    rewrite (Hkill ltac:(unfold is_kill; by rewrite Ety) rid ms fh0 lr1 eq_refl eq_refl Ek) in Er1. done.
Qed.

(** * Part 3: the round in which the ADD for the lost member is applied *)
Lemma length_filter_but_one {A} (Pr : A → Prop) `{∀ x, Decision (Pr x)} (l : list A) :
  NoDup l → (∀ x y, x ∈ l → y ∈ l → ¬ Pr x → ¬ Pr y → x = y) → (length l - 1 ≤ length (filter Pr l))%nat.
Proof.
  induction l as [|x l IH]; intros Hnd Hone; [cbn; lia|]. apply NoDup_cons in Hnd as [Hnin Hnd]. rewrite filter_cons.
  destruct (decide (Pr x)) as [Hx|Hx].
  - cbn [length]. assert (length l - 1 ≤ length (filter Pr l))%nat by (apply IH; [done|]; intros y z Hy Hz; apply Hone; by right). lia.
  - assert (filter Pr l = l) as ->; [|cbn [length]; lia]. apply filter_all. intros y Hy. destruct (decide (Pr y)) as [?|Hny]; [done|]. exfalso.
    assert (x = y) as -> by (apply Hone; [left|by right|done|done]). done.
Qed.

(* the history after one request: unchanged, or one entry appended by an applied ADD / DELETE *)
Lemma exec_req_hist_cases h ccok x q x' :
  exec_req h ccok x q = Some x' →
  x'.2 = x.2 ∨
  (∃ (e0 : hentry) hs0 rid t ms ts, q_type q = RAdd ∧ q_members q = rid :: ms ∧ q_addrs q = t :: ts ∧ hist_of x.2 (q_shard q) = e0 :: hs0 ∧
      q_ccid q = e0.1 ∧ used_in (e0 :: hs0) rid = false ∧
      x'.2 = <[q_shard q := (e0.1 + 1, <[rid := t]> e0.2) :: e0 :: hs0]> x.2) ∨
  (∃ (e0 : hentry) hs0 rid ms, q_type q = RDelete ∧ q_members q = rid :: ms ∧ hist_of x.2 (q_shard q) = e0 :: hs0 ∧ q_ccid q = e0.1 ∧
      x'.2 = <[q_shard q := (e0.1 + 1, delete rid e0.2) :: e0 :: hs0]> x.2).
Proof.
  unfold exec_req. destruct (x.1 !! h) as [fh|]; [|intros [= <-]; by left].
  destruct (q_type q) eqn:Ety.
  - destruct (q_join q), (q_restore q); try done.
    + destruct (fh_reps fh !! _); intros [= <-]; [unfold start_existing; destruct (_ || _); by left|]. destruct (busy _ _); by left.
    + destruct (fh_reps fh !! _); intros [= <-]; [|by left]. unfold start_existing; destruct (_ || _); by left.
    + destruct (fh_reps fh !! _); [done|]. intros [= <-]. destruct (busy _ _); by left.
  - destruct (q_members q) as [|rid ms]; [done|]. intros [= <-]. destruct (hist_of x.2 (q_shard q)) as [|e0 hs0] eqn:Eh; [by left|].
    destruct (cc_ready ccok x.1 (fh_reps fh) (q_shard q) e0.1 e0.2 (q_ccid q) && is_member e0.2 rid) eqn:Ecc; [|by left].
    right; right. apply andb_true_iff in Ecc as [Ecc _]. unfold cc_ready in Ecc. apply andb_true_iff in Ecc as [Ecc _]. apply andb_true_iff in Ecc as [_ Hf].
    apply N.eqb_eq in Hf. by exists e0, hs0, rid, ms.
  - destruct (q_members q) as [|rid ms]; [done|]. destruct (q_addrs q) as [|t ts]; [done|]. intros [= <-].
    destruct (hist_of x.2 (q_shard q)) as [|e0 hs0] eqn:Eh; [by left|].
    destruct (cc_ready ccok x.1 (fh_reps fh) (q_shard q) e0.1 e0.2 (q_ccid q) && negb (used_in (e0 :: hs0) rid)) eqn:Ecc; [|by left].
    right; left. apply andb_true_iff in Ecc as [Ecc Hu]. apply negb_true_iff in Hu. unfold cc_ready in Ecc. apply andb_true_iff in Ecc as [Ecc _]. apply andb_true_iff in Ecc as [_ Hf].
    apply N.eqb_eq in Hf. by exists e0, hs0, rid, t, ms, ts.
  - destruct (q_members q); [done|]. intros [= <-]. destruct (fh_reps fh !! _) as [lr|]; [|by left]. destruct (lr_running lr); by left.
Qed.

Section StageA.
Variable L : N → N → Prop.
Variable P : params.
Hypothesis Ldec : ∀ s rid, L s rid ∨ ¬ L s rid.

(* replica data exists for current members only *)
Definition cleanx (x : xstate) : Prop := ∀ a fh k, x.1 !! a = Some fh → is_Some (fh_reps fh !! k) → mkey x.2 k.
(* what is pending: CREATE requests are restores, DELETE requests are stale *)
Definition pkinds (s0 : N) (B : N → request → Prop) (hist : gmap N (list hentry)) : Prop :=
  ∀ a q, B a q → (is_create q = true → is_restore q = true) ∧
                 (is_delete q = true → q_ccid q ≠ cur_version (hist_of hist (q_shard q))) ∧
                 (is_add q = true → q_shard q = s0 ∨ q_ccid q ≠ cur_version (hist_of hist (q_shard q))).

Lemma sa_exec_req s0 (B : N → request → Prop) d seen hosts hist h q qs x' :
  LI d hosts hist seen (q :: qs) → MendL L B (mkF d hosts hist seen) → nocreate B (mkF d hosts hist seen) →
  cleanx (hosts, hist) → pkinds s0 B hist → B h q → is_Some (hosts !! h) → exec_req h true (hosts, hist) q = Some x' →
  MendL L B (mkF d x'.1 x'.2 seen) ∧ nocreate B (mkF d x'.1 x'.2 seen) ∧ cleanx x' ∧ pkinds s0 B x'.2 ∧
  (∀ s, s ≠ s0 → x'.2 !! s = hist !! s) ∧
  (∀ a fh k lr, hosts !! a = Some fh → fh_reps fh !! k = Some lr →
     ∃ fh' lr', x'.1 !! a = Some fh' ∧ fh_reps fh' !! k = Some lr' ∧ (lr_running lr = true → lr_running lr' = true)) ∧
  (∀ a fh' k, x'.1 !! a = Some fh' → is_Some (fh_reps fh' !! k) → ∃ fh, hosts !! a = Some fh ∧ is_Some (fh_reps fh !! k)) ∧
  (∀ k, mkey hist k → mkey x'.2 k).
Proof.
  intros HI HP Hnc Hcl Hpk HB Hh E.
  destruct (ml_exec_req L B d seen hosts hist h q qs x' HI HP Hnc HB Hh E) as [HP' Hnc'].
  destruct (Hpk h q HB) as (Hcr & Hdl & Hadl).
  (* the history: unchanged, or an ADD has been applied for the shard of q, which is s0 *)
  assert (Hhist : x'.2 = hist ∨ ∃ (e0 : hentry) hs0 rid t, q_shard q = s0 ∧ hist !! q_shard q = Some (e0 :: hs0) ∧
            x'.2 = <[q_shard q := (e0.1 + 1, <[rid := t]> e0.2) :: e0 :: hs0]> hist).
  { destruct (exec_req_hist_cases h true (hosts, hist) q x' E) as [?|[(e0 & hs0 & rid & t & ms & ts & Ety & _ & _ & Eh & Hf & _ & Hx2)|(e0 & hs0 & rid & ms & Ety & _ & Eh & Hf & _)]]; cbn [snd] in *.
    - by left.
    - right. exists e0, hs0, rid, t. split; [destruct (Hadl ltac:(unfold is_add; by rewrite Ety)) as [?|Hst]; [done|]; rewrite Eh in Hst; done|].
      split; [|done]. unfold hist_of in Eh. destruct (hist !! q_shard q) as [h0|]; cbn in Eh; [by rewrite Eh|done].
    - exfalso. apply Hdl; [unfold is_delete; by rewrite Ety|]. by rewrite Eh. }
  assert (Hmk : ∀ k, mkey hist k → mkey x'.2 k).
  { intros k (h0 & Hh0 & Hm0). destruct Hhist as [->|(e0 & hs0 & rid & t & _ & Hs & ->)]; [by exists h0|].
    destruct (decide (k.1 = q_shard q)) as [Heq|Hne].
    - rewrite Heq in Hh0. assert (h0 = e0 :: hs0) as -> by congruence. exists ((e0.1 + 1, <[rid := t]> e0.2) :: e0 :: hs0). rewrite Heq, lookup_insert. split; [done|].
      cbn in *. destruct Hm0 as [b Hb]. destruct (decide (k.2 = rid)) as [->|?]; [rewrite lookup_insert; by eexists|rewrite lookup_insert_ne by done; by eexists].
    - exists h0. rewrite lookup_insert_ne by done. done. }
  assert (Hnew : ∀ a fh' k, x'.1 !! a = Some fh' → is_Some (fh_reps fh' !! k) → ∃ fh, hosts !! a = Some fh ∧ is_Some (fh_reps fh !! k)).
  { apply (exec_req_nonew h true (hosts, hist) q x' E Hcr). }
  split; [done|]. split; [done|]. split.
  { intros a fh' k Ha Hk. destruct (Hnew a fh' k Ha Hk) as (fh & Hfh & Hk0). apply Hmk. by apply (Hcl a fh k). }
  split.
  { (* the pending requests after the step *)
    intros a0 q0 HB0. destruct (Hpk a0 q0 HB0) as (Hc0 & Hd0 & Ha0). split; [done|].
    destruct Hhist as [->|(e0 & hs0 & rid & t & Hqs0 & Hs & ->)]; [done|].
    (* the fence of a pending change request is at most the version before *)
    assert (Hle : is_change q0 = true → q_shard q0 = q_shard q → q_ccid q0 ≠ cur_version (hist_of hist (q_shard q0)) → q_ccid q0 ≠ e0.1 + 1).
    { intros Hch Heq Hst. destruct (ml_boxes _ _ _ HP a0 q0 HB0) as [[_ [Hqx _]]|[(_ & Hfen & _) _]]; [|done].
      specialize (Hqx Hch (e0 :: hs0)). cbn [f_hist] in Hqx. rewrite Heq in Hqx. specialize (Hqx Hs). cbn in Hqx. lia. }
    split.
    - intros Hd. destruct (decide (q_shard q0 = q_shard q)) as [Heq|Hne].
      + unfold hist_of at 1. rewrite Heq, lookup_insert. cbn [default from_option id cur_version fst]. apply Hle; [unfold is_change; by rewrite Hd, orb_true_r|done|by apply Hd0].
      + unfold hist_of. rewrite lookup_insert_ne by done. by apply Hd0.
    - intros Hia. destruct (Ha0 Hia) as [?|Hst]; [by left|]. destruct (decide (q_shard q0 = q_shard q)) as [Heq|Hne]; [left; congruence|].
      right. unfold hist_of. rewrite lookup_insert_ne by done. exact Hst. }
  split.
  { intros s Hs0. destruct Hhist as [->|(e0 & hs0 & rid & t & Hqs0 & _ & ->)]; [done|]. rewrite lookup_insert_ne; [done|congruence]. }
  split; [|split; [exact Hnew|exact Hmk]].
  (* every replica stays *)
  apply (exec_req_mono h (hosts, hist) q x' E).
  - intros Hk y ms fh lr Hy Hfh Hkk. exfalso.
    destruct (ml_boxes _ _ _ HP h q HB) as [[Hm _]|[(Hch & _) _]]; [|by rewrite (kill_not_change q Hk) in Hch].
    destruct Hm as [[(Hres & _)|[(Hch & _)|(_ & y' & Hy' & Hd)]]|[(Hc & _)|(Hres & _)]].
    + unfold is_restore, is_create in Hres. unfold is_kill in Hk. by destruct (q_type q).
    + by rewrite (kill_not_change q Hk) in Hch.
    + cbn [fst] in Hfh. destruct (Hcl h fh (q_shard q, y) Hfh ltac:(by eexists)) as (h0 & Hh0 & Hm0). cbn [fst snd f_hist] in *.
      rewrite Hy in Hy'. injection Hy' as <-. specialize (Hd h0 Hh0). apply is_member_false in Hd. rewrite Hd in Hm0. by destruct Hm0.
    + unfold is_create in Hc. unfold is_kill in Hk. by destruct (q_type q).
    + unfold is_restore, is_create in Hres. unfold is_kill in Hk. by destruct (q_type q).
  - intros Hd. left. by apply Hdl.
Qed.

(* while the history of shard s0 is h0, every member of s0 that is not lost runs on its NodeHost *)
Definition grun (s0 : N) (h0 : list hentry) (x : xstate) : Prop :=
  hist_of x.2 s0 = h0 → ∀ rid a, cur_members h0 !! rid = Some a → ¬ L s0 rid → member_running x.1 s0 rid a = true.

Lemma grun_quorum s0 (e0 : hentry) hs0 x :
  grun s0 (e0 :: hs0) x → hist_of x.2 s0 = e0 :: hs0 → (∀ r1 r2, L s0 r1 → L s0 r2 → r1 = r2) → (3 ≤ size e0.2)%nat →
  quorum_running x.1 s0 e0.2 = true.
Proof.
  intros Hg Hh Hone H3. unfold quorum_running, n_running. apply bool_decide_eq_true.
  pose proof (length_filter_but_one (λ kv : N * N, member_running x.1 s0 kv.1 kv.2 = true) (map_to_list e0.2) (NoDup_map_to_list _)) as Hl.
  assert (length (map_to_list e0.2) = size e0.2) as Hsz by done. rewrite Hsz in Hl.
  assert (length (map_to_list e0.2) - 1 ≤ length (filter (λ kv : N * N, member_running x.1 s0 kv.1 kv.2 = true) (map_to_list e0.2)))%nat as Hge.
  { rewrite Hsz. apply Hl. intros [r1 a1] [r2 a2] H1 H2 N1 N2. apply elem_of_map_to_list in H1, H2. cbn in N1, N2.
    assert (L1 : L s0 r1) by (destruct (Ldec s0 r1) as [?|Hn]; [done|]; exfalso; apply N1; by apply (Hg Hh r1 a1)).
    assert (L2 : L s0 r2) by (destruct (Ldec s0 r2) as [?|Hn]; [done|]; exfalso; apply N2; by apply (Hg Hh r2 a2)).
    pose proof (Hone r1 r2 L1 L2) as ->. congruence. }
  unfold quorum_of. rewrite Hsz in Hge. pose proof (Nat.div_lt_upper_bound (size e0.2) 2 (size e0.2 - 1) ltac:(lia) ltac:(lia)). lia.
Qed.

Lemma add_applies h x q x' s0 (e0 : hentry) hs0 xx t fh rid lr :
  exec_req h true x q = Some x' → q_type q = RAdd → q_shard q = s0 → q_members q = [xx] → q_addrs q = [t] →
  hist_of x.2 s0 = e0 :: hs0 → q_ccid q = e0.1 → used_in (e0 :: hs0) xx = false →
  x.1 !! h = Some fh → fh_reps fh !! (s0, rid) = Some lr → lr_running lr = true → is_member e0.2 rid = true →
  quorum_running x.1 s0 e0.2 = true →
  hist_of x'.2 s0 = (e0.1 + 1, <[xx := t]> e0.2) :: e0 :: hs0.
Proof.
  intros E Ety Hs Hm Ha Hh Hf Hu Hfh Hk Hr Hmem Hq. unfold exec_req in E. rewrite Hfh, Ety, Hm, Ha, Hs, Hh in E.
  assert (Hcc : cc_ready true x.1 (fh_reps fh) s0 e0.1 e0.2 (q_ccid q) = true).
  { unfold cc_ready. rewrite Hq, Hf, N.eqb_refl. cbn [andb]. rewrite !andb_true_r. apply existsb_exists. exists rid. split; [|done].
    apply elem_of_list_In, running_of_elem. by exists lr. }
  rewrite Hcc, Hu in E. cbn [negb andb] in E. injection E as <-. cbn [snd]. unfold hist_of. by rewrite lookup_insert.
Qed.

(* the ADD that will be applied: fence current, id unused, proposed on the NodeHost of a member that is not lost *)
Definition goodadd (s0 : N) (h0 : list hentry) (h : N) (q : request) : Prop :=
  q_type q = RAdd ∧ q_shard q = s0 ∧
  ∃ xx t (e0 : hentry) hs0, q_members q = [xx] ∧ q_addrs q = [t] ∧ h0 = e0 :: hs0 ∧ q_ccid q = e0.1 ∧ used_in h0 xx = false ∧
    (∃ rid, cur_members h0 !! rid = Some h ∧ ¬ L s0 rid) ∧ (3 ≤ size e0.2)%nat ∧ (∀ r1 r2, L s0 r1 → L s0 r2 → r1 = r2).

(* the invariant of the execution phase *)
Record SAx (B : N → request → Prop) (d : db) (seen : gset N) (s0 : N) (h0 : list hentry) (x : xstate) : Prop := mkSAx {
  sx_ml : MendL L B (mkF d x.1 x.2 seen);
  sx_nc : nocreate B (mkF d x.1 x.2 seen);
  sx_cl : cleanx x;
  sx_pk : pkinds s0 B x.2;
  sx_ext : ∃ l, hist_of x.2 s0 = l ++ h0;
  sx_gr : grun s0 h0 x }.

Lemma sa_exec_one (B : N → request → Prop) d seen s0 h0 h q qs x x' :
  LI d x.1 x.2 seen (q :: qs) → SAx B d seen s0 h0 x → B h q → is_Some (x.1 !! h) → exec_req h true x q = Some x' →
  SAx B d seen s0 h0 x' ∧
  (∀ a fh k lr, x.1 !! a = Some fh → fh_reps fh !! k = Some lr →
     ∃ fh' lr', x'.1 !! a = Some fh' ∧ fh_reps fh' !! k = Some lr' ∧ (lr_running lr = true → lr_running lr' = true)) ∧
  (∀ a fh' k, x'.1 !! a = Some fh' → is_Some (fh_reps fh' !! k) → ∃ fh, x.1 !! a = Some fh ∧ is_Some (fh_reps fh !! k)) ∧
  (length (hist_of x.2 s0) ≤ length (hist_of x'.2 s0))%nat ∧ (∀ s, s ≠ s0 → x'.2 !! s = x.2 !! s) ∧
  (goodadd s0 h0 h q → hist_of x.2 s0 = h0 → (length h0 < length (hist_of x'.2 s0))%nat).
Proof.
  destruct x as [hosts hist]. cbn [fst snd]. intros HI HS HB Hh E.
  destruct (sa_exec_req s0 B d seen hosts hist h q qs x' HI (sx_ml _ _ _ _ _ _ HS) (sx_nc _ _ _ _ _ _ HS) (sx_cl _ _ _ _ _ _ HS) (sx_pk _ _ _ _ _ _ HS) HB Hh E)
    as (HP' & Hnc' & Hcl' & Hpk' & Hoth & Hmono & Hnew & Hmk).
  destruct (exec_req_hist h true (hosts, hist) q x' E s0) as [l1 Hl1]. cbn [snd] in Hl1.
  destruct (sx_ext _ _ _ _ _ _ HS) as [l0 Hl0]. cbn [snd] in Hl0.
  assert (Hlen : (length (hist_of hist s0) ≤ length (hist_of x'.2 s0))%nat) by (rewrite Hl1, app_length; lia).
  split; [split|].
  - exact HP'.
  - exact Hnc'.
  - exact Hcl'.
  - exact Hpk'.
  - exists (l1 ++ l0). by rewrite Hl1, Hl0, app_assoc.
  - intros Hh' rid a Hm HnL.
    assert (Hh0 : hist_of hist s0 = h0).
    { rewrite Hl1, Hl0 in Hh'. apply (f_equal length) in Hh'. rewrite !app_length in Hh'. assert (l1 = []) as -> by (destruct l1; [done|cbn in Hh'; lia]).
      assert (l0 = []) as -> by (destruct l0; [done|cbn in Hh'; lia]). done. }
    pose proof (sx_gr _ _ _ _ _ _ HS Hh0 rid a Hm HnL) as Hr. cbn [fst] in Hr. unfold member_running in Hr |- *.
    destruct (hosts !! a) as [fh|] eqn:Ha; [|done]. apply andb_true_iff in Hr as [_ Hr].
    destruct (fh_reps fh !! (s0, rid)) as [lr|] eqn:Ek; [|done]. destruct (Hmono a fh (s0, rid) lr Ha Ek) as (fh' & lr' & Hfh' & Hk' & Hrr).
    rewrite Hfh', Hk'. destruct (ml_hosts _ _ _ HP' a fh' Hfh') as [-> _]. cbn. by apply Hrr.
  - split; [exact Hmono|]. split; [exact Hnew|]. split; [exact Hlen|]. split; [exact Hoth|].
    intros (Ety & Hs & xx & t & e0 & hs0 & Hmm & Haa & -> & Hf & Hu & (rid & Hrid & HnL) & H3 & Hone) Hh0.
    pose proof (sx_gr _ _ _ _ _ _ HS Hh0 rid h Hrid HnL) as Hr. cbn [fst] in Hr. unfold member_running in Hr.
    destruct (hosts !! h) as [fh|] eqn:Hfh; [|done]. apply andb_true_iff in Hr as [_ Hr].
    destruct (fh_reps fh !! (s0, rid)) as [lr|] eqn:Ek; [|done].
    pose proof (grun_quorum s0 e0 hs0 (hosts, hist) (sx_gr _ _ _ _ _ _ HS) Hh0 Hone H3) as Hq.
    rewrite (add_applies h (hosts, hist) q x' s0 e0 hs0 xx t fh rid lr E Ety Hs Hmm Haa Hh0 Hf Hu Hfh Ek Hr ltac:(apply is_member_true; by eexists) Hq).
    cbn [length]. lia.
Qed.

Lemma sa_exec_all (B : N → request → Prop) d seen s0 h0 h qs : ∀ x x',
  LI d x.1 x.2 seen qs → SAx B d seen s0 h0 x → (∀ q, q ∈ qs → B h q) → is_Some (x.1 !! h) → exec_all h true x qs = Some x' →
  LI d x'.1 x'.2 seen [] ∧ SAx B d seen s0 h0 x' ∧
  (∀ a fh k lr, x.1 !! a = Some fh → fh_reps fh !! k = Some lr →
     ∃ fh' lr', x'.1 !! a = Some fh' ∧ fh_reps fh' !! k = Some lr' ∧ (lr_running lr = true → lr_running lr' = true)) ∧
  (∀ a fh' k, x'.1 !! a = Some fh' → is_Some (fh_reps fh' !! k) → ∃ fh, x.1 !! a = Some fh ∧ is_Some (fh_reps fh !! k)) ∧
  (length (hist_of x.2 s0) ≤ length (hist_of x'.2 s0))%nat ∧ (∀ s, s ≠ s0 → x'.2 !! s = x.2 !! s) ∧
  ((∃ q, q ∈ qs ∧ goodadd s0 h0 h q) → (length h0 < length (hist_of x'.2 s0))%nat).
Proof.
  induction qs as [|q qs IH]; intros x x' HI HS HB Hh E; cbn [exec_all] in E.
  { injection E as <-. split; [done|]. split; [done|]. split; [intros a fh k lr Ha Hk; by exists fh, lr|]. split; [intros a fh' k Ha Hk; by exists fh'|].
    split; [done|]. split; [done|]. intros (q & Hq & _). by apply elem_of_nil in Hq. }
  destruct (exec_req h true x q) as [x1|] eqn:E1; [|done].
  destruct (sa_exec_one B d seen s0 h0 h q qs x x1 HI HS (HB q ltac:(left)) Hh E1) as (HS1 & Hm1 & Hn1 & Hl1 & Ho1 & Hap1).
  assert (HI1 : LI d x1.1 x1.2 seen qs) by (destruct x as [hosts hist]; apply (exec_req_inv _ _ _ _ _ _ _ _ _ HI E1)).
  assert (Hh1 : is_Some (x1.1 !! h)) by (destruct (exec_req_keys h true x q x1 E1) as [Hdom _]; by apply Hdom).
  destruct (IH x1 x' HI1 HS1 ltac:(intros q0 Hq0; apply HB; by right) Hh1 E) as (HI' & HS' & Hm2 & Hn2 & Hl2 & Ho2 & Hap2).
  split; [done|]. split; [done|]. split; [|split; [|split; [lia|split; [intros s Hs; rewrite (Ho2 s Hs); by apply Ho1|]]]].
  - intros a fh k lr Ha Hk. destruct (Hm1 a fh k lr Ha Hk) as (fh1 & lr1 & Hfh1 & Hk1 & Hr1). destruct (Hm2 a fh1 k lr1 Hfh1 Hk1) as (fh2 & lr2 & ? & ? & Hr2).
    exists fh2, lr2. split; [done|]. split; [done|]. intros Hr. by apply Hr2, Hr1.
  - intros a fh' k Ha Hk. destruct (Hn2 a fh' k Ha Hk) as (fh1 & Hfh1 & Hk1). by apply (Hn1 a fh1 k).
  - intros (q0 & Hq0 & Hg). destruct (sx_ext _ _ _ _ _ _ HS) as [l0 Hl0].
    destruct l0 as [|e l0]; [|rewrite Hl0, app_length in Hl1; cbn [length] in Hl1; lia].
    cbn [app] in Hl0. apply elem_of_cons in Hq0 as [->|Hq0]; [specialize (Hap1 Hg Hl0); lia|]. apply Hap2. by exists q0.
Qed.

(* the invariant of the execution phase, on fleet states *)
Definition SAs (s0 : N) (h0 : list hentry) (st : fstate) : Prop :=
  LoopInv st ∧ SAx (nonout st) (f_db st) (f_seen st) s0 h0 (f_hosts st, f_hist st) ∧ out_hosts st.

Lemma sa_exec_event s0 h0 st a st' :
  SAs s0 h0 st → fstep P st (EExec a true) = FOk st' →
  SAs s0 h0 st' ∧ f_db st' = f_db st ∧
  (∀ b fh k lr, f_hosts st !! b = Some fh → fh_reps fh !! k = Some lr →
     ∃ fh' lr', f_hosts st' !! b = Some fh' ∧ fh_reps fh' !! k = Some lr' ∧ (lr_running lr = true → lr_running lr' = true)) ∧
  (∀ b fh' k, f_hosts st' !! b = Some fh' → is_Some (fh_reps fh' !! k) → ∃ fh, f_hosts st !! b = Some fh ∧ is_Some (fh_reps fh !! k)) ∧
  (∀ b, match f_hosts st !! b with
        | Some fh => ∃ fh', f_hosts st' !! b = Some fh' ∧ fh_queue fh' = (if decide (b = a) then [] else fh_queue fh)
        | None => f_hosts st' !! b = None end) ∧
  (length (hist_of (f_hist st) s0) ≤ length (hist_of (f_hist st') s0))%nat ∧ (∀ s, s ≠ s0 → f_hist st' !! s = f_hist st !! s) ∧
  ((∃ fh q, f_hosts st !! a = Some fh ∧ q ∈ fh_queue fh ∧ goodadd s0 h0 a q) → (length h0 < length (hist_of (f_hist st') s0))%nat).
Proof.
  destruct st as [d hosts hist seen]. intros (HI & HS & Hoh). cbn [fstep f_db f_hosts f_hist f_seen] in *.
  destruct (hosts !! a) as [fh|] eqn:Ha; [|done]. destruct (ml_hosts _ _ _ (sx_ml _ _ _ _ _ _ HS) a fh Ha) as [Hup Hout]. cbn [f_hosts] in Hup. rewrite Hup.
  set (hosts0 := <[a := mkFHost true (fh_region fh) (fh_reps fh) [] (fh_out fh)]> hosts).
  destruct (exec_all a true (hosts0, hist) (fh_queue fh)) as [x|] eqn:Ex; [|done]. intros [= <-].
  set (st := mkF d hosts hist seen) in *.
  pose proof (exec_start st a fh HI Ha) as HI0. cbn [f_db f_hosts f_hist f_seen st] in HI0. fold hosts0 in HI0.
  assert (Hsame : ∀ b, match hosts !! b with
        | Some fhb => ∃ fh', hosts0 !! b = Some fh' ∧ fh_reps fh' = fh_reps fhb ∧ fh_up fh' = true ∧ fh_out fh' = None
        | None => hosts0 !! b = None end).
  { intros b. unfold hosts0. destruct (decide (b = a)) as [->|Hne].
    - rewrite Ha, lookup_insert. eexists. split; [done|]. cbn. done.
    - rewrite lookup_insert_ne by done. destruct (hosts !! b) as [fhb|] eqn:Hb; [|done]. exists fhb. split; [done|]. split; [done|].
      apply (ml_hosts _ _ _ (sx_ml _ _ _ _ _ _ HS) b fhb Hb). }
  assert (Hback : ∀ b fh', hosts0 !! b = Some fh' → ∃ fhb, hosts !! b = Some fhb ∧ fh_reps fh' = fh_reps fhb).
  { intros b fh' Hb. specialize (Hsame b). destruct (hosts !! b) as [fhb|]; [|congruence]. destruct Hsame as (fh2 & H2 & Hr & _). exists fhb. split; [done|]. congruence. }
  assert (HS0 : SAx (nonout st) d seen s0 h0 (hosts0, hist)).
  { destruct HS. cbn [fst snd] in *. split; cbn [fst snd]; try done.
    - by apply (ml_same_reps L _ d hosts hosts0 hist seen).
    - intros b fh' k Hb Hk. destruct (Hback b fh' Hb) as (fhb & Hfhb & Hr). rewrite Hr in Hk. by apply (sx_cl0 b fhb k).
    - intros Hh rid b Hm HnL. specialize (sx_gr0 Hh rid b Hm HnL). cbn [fst] in *. unfold member_running in *. specialize (Hsame b).
      destruct (hosts !! b) as [fhb|]; [|done]. destruct Hsame as (fh2 & -> & -> & -> & _). apply andb_true_iff in sx_gr0 as [_ ?]. done. }
  destruct (sa_exec_all (nonout st) d seen s0 h0 a (fh_queue fh) (hosts0, hist) x HI0 HS0) as (HI' & HS' & Hmono & Hnew & Hlen & Hoth & Happ); [| |done|].
  { intros q Hq. right. exists fh. done. }
  { cbn. unfold hosts0. rewrite lookup_insert. by eexists. }
  pose proof (exec_all_frame a true (fh_queue fh) (hosts0, hist) x Ex) as Hfr. cbn [fst] in Hfr.
  assert (Hq : ∀ b, match hosts !! b with
        | Some fhb => ∃ fh', x.1 !! b = Some fh' ∧ fh_queue fh' = (if decide (b = a) then [] else fh_queue fhb)
        | None => x.1 !! b = None end).
  { intros b. specialize (Hfr b). unfold hosts0 in Hfr. destruct (decide (b = a)) as [->|Hne].
    - rewrite lookup_insert in Hfr. rewrite Ha. destruct Hfr as (fh2 & Hfh2 & Hq2 & _). by exists fh2.
    - rewrite lookup_insert_ne in Hfr by done. destruct (hosts !! b) as [fhb|]; [|done]. destruct Hfr as (fh2 & Hfh2 & Hq2 & _). by exists fh2. }
  assert (Hsub : ∀ b q, nonout (mkF d x.1 x.2 seen) b q → nonout st b q).
  { intros b q [Hq0|(fh' & Hb & Hin)]; [by left|]. cbn [f_hosts] in Hb. specialize (Hq b).
    destruct (hosts !! b) as [fhb|] eqn:Hbb; [|congruence]. destruct Hq as (fh2 & Hfh2 & Hq2). assert (fh2 = fh') as -> by congruence.
    rewrite Hq2 in Hin. destruct (decide (b = a)); [by apply elem_of_nil in Hin|]. right. by exists fhb. }
  cbn [fst snd] in *.
  split; [|split; [done|]].
  { split; [exact HI'|]. split.
    - destruct HS'. cbn [fst snd f_db f_seen f_hosts f_hist] in *. split; cbn [fst snd]; try done.
      + by apply (ml_shrink L (nonout st)).
      + by apply (nocreate_shrink (nonout st)).
      + intros b q Hbq. apply (sx_pk0 b q). by apply Hsub.
    - intros b Hb. specialize (Hq b). cbn [f_hosts]. destruct (Hoh b Hb) as [fhb Hfhb]. cbn [st f_hosts] in Hfhb. rewrite Hfhb in Hq.
      destruct Hq as (fh2 & -> & _). by eexists. }
  split.
  { intros b fhb k lr Hb Hk. specialize (Hsame b). rewrite Hb in Hsame. destruct Hsame as (fh0 & Hfh0 & Hr0 & _). rewrite <- Hr0 in Hk. by apply (Hmono b fh0 k lr). }
  split.
  { intros b fh' k Hb Hk. destruct (Hnew b fh' k Hb Hk) as (fh0 & Hfh0 & Hk0). destruct (Hback b fh0 Hfh0) as (fhb & Hfhb & Hr). exists fhb. by rewrite <- Hr. }
  split; [exact Hq|]. split; [exact Hlen|]. split; [exact Hoth|].
  intros (fh1 & q & Hfh1 & Hq1 & Hg). assert (fh1 = fh) as -> by congruence. apply Happ. by exists q.
Qed.

Lemma sa_execs s0 h0 (l : list N) : ∀ st st',
  SAs s0 h0 st → NoDup l → steps P st ((λ a, EExec a true) <$> l) = Some st' →
  SAs s0 h0 st' ∧ f_db st' = f_db st ∧
  (∀ b fh k lr, f_hosts st !! b = Some fh → fh_reps fh !! k = Some lr →
     ∃ fh' lr', f_hosts st' !! b = Some fh' ∧ fh_reps fh' !! k = Some lr' ∧ (lr_running lr = true → lr_running lr' = true)) ∧
  (∀ b fh' k, f_hosts st' !! b = Some fh' → is_Some (fh_reps fh' !! k) → ∃ fh, f_hosts st !! b = Some fh ∧ is_Some (fh_reps fh !! k)) ∧
  (length (hist_of (f_hist st) s0) ≤ length (hist_of (f_hist st') s0))%nat ∧ (∀ s, s ≠ s0 → f_hist st' !! s = f_hist st !! s) ∧
  ((∃ a fh q, a ∈ l ∧ f_hosts st !! a = Some fh ∧ q ∈ fh_queue fh ∧ goodadd s0 h0 a q) → (length h0 < length (hist_of (f_hist st') s0))%nat).
Proof.
  induction l as [|a l IH]; intros st st' HS Hnd Hs.
  { cbn in Hs. injection Hs as <-. split; [done|]. split; [done|]. split; [intros b fh k lr Hb Hk; by exists fh, lr|]. split; [intros b fh' k Hb Hk; by exists fh'|].
    split; [done|]. split; [done|]. intros (a & fh & q & Hin & _). by apply elem_of_nil in Hin. }
  apply NoDup_cons in Hnd as [Hnin Hnd]. rewrite fmap_cons in Hs. cbn [steps] in Hs.
  destruct (fstep P st (EExec a true)) as [st1| |] eqn:E1; [| |done].
  - destruct (sa_exec_event s0 h0 st a st1 HS E1) as (HS1 & Hd1 & Hm1 & Hn1 & Hq1 & Hl1 & Ho1 & Ha1).
    destruct (IH st1 st' HS1 Hnd Hs) as (HS' & Hd' & Hm2 & Hn2 & Hl2 & Ho2 & Ha2).
    split; [done|]. split; [congruence|]. split; [|split; [|split; [lia|split; [intros s Hs0; rewrite (Ho2 s Hs0); by apply Ho1|]]]].
    + intros b fh k lr Hb Hk. destruct (Hm1 b fh k lr Hb Hk) as (fh1 & lr1 & Hfh1 & Hk1 & Hr1). destruct (Hm2 b fh1 k lr1 Hfh1 Hk1) as (fh2 & lr2 & ? & ? & Hr2).
      exists fh2, lr2. split; [done|]. split; [done|]. intros Hr. by apply Hr2, Hr1.
    + intros b fh' k Hb Hk. destruct (Hn2 b fh' k Hb Hk) as (fh1 & Hfh1 & Hk1). by apply (Hn1 b fh1 k).
    + intros (b & fh & q & Hin & Hfh & Hq & Hg). apply elem_of_cons in Hin as [->|Hin].
      * assert (length h0 < length (hist_of (f_hist st1) s0))%nat by (apply Ha1; by exists fh, q). lia.
      * apply Ha2. specialize (Hq1 b). rewrite Hfh in Hq1. destruct Hq1 as (fh1 & Hfh1 & Hqq). rewrite decide_False in Hqq by (intros ->; done).
        exists b, fh1, q. rewrite Hqq. done.
  - (* no such NodeHost *)
    destruct (IH st st' HS Hnd Hs) as (HS' & Hd' & Hm2 & Hn2 & Hl2 & Ho2 & Ha2). split; [done|]. split; [done|]. split; [done|]. split; [done|]. split; [done|]. split; [done|].
    intros (b & fh & q & Hin & Hfh & Hq & Hg). apply Ha2. apply elem_of_cons in Hin as [->|Hin]; [|by exists b, fh, q]. exfalso.
    cbn [fstep] in E1. rewrite Hfh in E1. destruct HS as (_ & HSx & _). destruct (ml_hosts _ _ _ (sx_ml _ _ _ _ _ _ HSx) a fh Hfh) as [Hup _]. cbn [f_hosts] in Hup. rewrite Hup in E1.
    by destruct (exec_all _ _ _ _).
Qed.

(* the report phase delivers what is pending for a NodeHost into its queue *)
Lemma lostb_reports_deliver (plogs : N → bool) (l : list N) : ∀ st st',
  LoopInv st → MendL L (nonout st) st → NoDup l → (∀ a, a ∈ l → is_Some (f_hosts st !! a)) →
  steps P st (l ≫= λ a, [ESnap a (plogs a); EDeliver a false]) = Some st' →
  ∀ a q, a ∈ l → nonout st a q → ∃ fh', f_hosts st' !! a = Some fh' ∧ q ∈ fh_queue fh'.
Proof.
  induction l as [|b l IH]; intros st st' HI HP Hnd Hl Hs a q Hin Hq; [by apply elem_of_nil in Hin|].
  apply NoDup_cons in Hnd as [Hnotin Hnd]. destruct (Hl b) as [fhb Hb]; [left|].
  destruct (lostb_report L P st b fhb (plogs b) HI HP Hb) as (st1 & E1 & [HI1 HP1] & _ & _ & _ & _ & _ & _ & _ & Hrq1 & Hho1 & _).
  rewrite bind_cons, steps_app, E1 in Hs.
  assert (Hl1 : ∀ a', a' ∈ l → is_Some (f_hosts st1 !! a')).
  { intros a' Hin'. rewrite Hho1. destruct (decide (a' = b)) as [->|Hne]; [by rewrite lookup_insert|]. rewrite lookup_insert_ne by done. apply Hl. by right. }
  (* a queue only grows during the report phase *)
  assert (Hkeep : ∀ l0 stx stx', NoDup l0 → LoopInv stx → MendL L (nonout stx) stx → (∀ a', a' ∈ l0 → is_Some (f_hosts stx !! a')) →
            steps P stx (l0 ≫= λ a, [ESnap a (plogs a); EDeliver a false]) = Some stx' →
            ∀ fh0, f_hosts stx !! a = Some fh0 → q ∈ fh_queue fh0 → ∃ fh', f_hosts stx' !! a = Some fh' ∧ q ∈ fh_queue fh').
  { clear. induction l0 as [|c l0 IH0]; intros stx stx' Hnd HIx HPx Hlx Hsx fh0 Hfh0 Hq0; [cbn in Hsx; injection Hsx as <-; by exists fh0|].
    apply NoDup_cons in Hnd as [Hnc Hnd]. destruct (Hlx c) as [fhc Hc]; [left|].
    destruct (lostb_report L P stx c fhc (plogs c) HIx HPx Hc) as (sty & Ey & [HIy HPy] & _ & _ & _ & _ & _ & _ & _ & _ & Hhoy & _).
    rewrite bind_cons, steps_app, Ey in Hsx.
    assert (∃ fh1, f_hosts sty !! a = Some fh1 ∧ q ∈ fh_queue fh1) as (fh1 & Hfh1 & Hq1).
    { rewrite Hhoy. destruct (decide (a = c)) as [->|Hne].
      - rewrite lookup_insert. eexists. split; [done|]. cbn. assert (fhc = fh0) as -> by congruence. apply elem_of_app. by left.
      - rewrite lookup_insert_ne by done. by exists fh0. }
    apply (IH0 sty stx' Hnd HIy HPy) with (fh0 := fh1); [|done|done|done].
    intros a' Hin'. rewrite Hhoy. destruct (decide (a' = c)) as [->|Hne]; [by rewrite lookup_insert|]. rewrite lookup_insert_ne by done. apply Hlx. by right. }
  apply elem_of_cons in Hin as [->|Hin].
  - (* delivered now *)
    assert (∃ fh1, f_hosts st1 !! b = Some fh1 ∧ q ∈ fh_queue fh1) as (fh1 & Hfh1 & Hq1).
    { rewrite Hho1, lookup_insert. eexists. split; [done|]. cbn. apply elem_of_app.
      destruct Hq as [(qs & Hqs & Hi)|(fh0 & Hf0 & Hi)]; [right; by rewrite Hqs|left]. assert (fh0 = fhb) as -> by congruence. done. }
    by apply (Hkeep l st1 st' Hnd HI1 HP1 Hl1 Hs fh1).
  - assert (a ≠ b) by (intros ->; done). apply (IH st1 st' HI1 HP1 Hnd Hl1 Hs a q Hin).
    destruct Hq as [(qs & Hqs & Hi)|(fh0 & Hf0 & Hi)].
    + left. exists qs. rewrite Hrq1. by rewrite lookup_delete_ne.
    + right. exists fh0. rewrite Hho1. by rewrite lookup_insert_ne.
Qed.

(** ** the classes at the two ends of the round *)
Definition pendI (st : fstate) (a : N) (q : request) : Prop :=
  mharmless (f_hist st) a q ∧ (is_create q = true → is_restore q = true ∧ is_Some (f_hosts st !! a)).
Definition pendA (s0 : N) (st : fstate) (a : N) (q : request) : Prop :=
  pendI st a q ∨
  (is_add q = true ∧ q_shard q = s0 ∧ lchange (nonout st) (f_hosts st) (f_hist st) a q ∧ vready (f_db st) q).

(* what C01_lost_round delivers when the lost member (s0, f0) - the only one - is overdue: the replacement ADD is pending,
   proposed on the NodeHost of a healthy member *)
Record StageA (s0 f0 : N) (st : fstate) : Prop := mkStageA {
  sa_k : LostK L st;
  sa_pend : ∀ a q, nonout st a q → pendA s0 st a q;
  sa_single : ∀ s f, L s f → s = s0 ∧ f = f0;
  sa_lost : L s0 f0;
  sa_live : ∃ a q m, nonout st a q ∧ is_add q = true ∧ q_shard q = s0 ∧
              lchange (nonout st) (f_hosts st) (f_hist st) a q ∧ member st s0 m a ∧ ¬ L s0 m }.

Lemma sa_pre s0 f0 st plogs nticks st4 :
  StageA s0 f0 st → (∀ a, plogs a = true) → N.of_nat nticks * p_step P ≤ p_ttl P →
  pre_schedule P plogs nticks st = Some st4 →
  ∃ (e0 : hentry) hs0 x t,
    f_hist st !! s0 = Some (e0 :: hs0) ∧ f_hist st4 !! s0 = Some (((e0.1 + 1, <[x := t]> e0.2) : hentry) :: e0 :: hs0) ∧ e0.2 !! x = None ∧
    (∀ s, s ≠ s0 → f_hist st4 !! s = f_hist st !! s) ∧
    LostX L st4 ∧ PReady L P st4 (d_tick (f_db st)) ∧
    (∀ s h c, f_hist st !! s = Some h → d_view (f_db st4) !! s = Some c → s_cci c = cur_version h ∧ r_addr <$> s_reps c = cur_members h) ∧
    (∀ s c rid n, d_view (f_db st4) !! s = Some c → s_reps c !! rid = Some n → r_tick n ≠ 0) ∧
    d_tick (f_db st4) = d_tick (f_db st) + N.of_nat nticks * p_step P ∧ d_shards (f_db st4) = d_shards (f_db st) ∧
    (∀ s rid a, member st s rid a → ¬ L s rid → member_running (f_hosts st4) s rid a = true) ∧
    (∀ b fh4 k, f_hosts st4 !! b = Some fh4 → is_Some (fh_reps fh4 !! k) → ∃ fh, f_hosts st !! b = Some fh ∧ is_Some (fh_reps fh !! k)) ∧
    (∀ b, is_Some (f_hosts st4 !! b) ↔ is_Some (f_hosts st !! b)) ∧
    (∀ b, is_Some (d_hosts (f_db st4) !! b) → is_Some (f_hosts st !! b)) ∧
    (∀ s f, L s f → mem_tick st4 s f = mem_tick st s f) ∧
    (∀ a q, nonout st4 a q → f_hosts st4 !! a = None ∧ nonout st a q).
Proof.
  intros HA Hpl Httl. pose proof (sa_k _ _ _ HA) as HK. destruct (lo_b _ _ HK) as (HI & HP & Hoh). unfold pre_schedule. set (t := d_tick (f_db st)).
  assert (Hl : ∀ a, a ∈ host_addrs st → is_Some (f_hosts st !! a)) by (intros a; apply host_addrs_elem).
  destruct (lostb_reports L P plogs (host_addrs st) st HI HP (host_addrs_nodup st) Hl) as
    (st1 & E1 & [HI1 HP1] & Ho1a & Ho1b & Hsub1 & Hhi1 & Hse1 & Ht1 & Hsh1 & Hho1 & Hho1' & Hv1 & Hst1 & Hsp1 & Hot1).
  pose proof (lost_reports_facts L P plogs (host_addrs st) st st1 HI HP (lo_cur _ _ HK) (host_addrs_nodup st) Hl E1) as (Htk & Hplog & Hkeys).
  pose proof (lostb_reports_requests L P plogs (host_addrs st) st st1 HI HP (host_addrs_nodup st) Hl E1) as Hrq1.
  pose proof (lostb_reports_deliver plogs (host_addrs st) st st1 HI HP (host_addrs_nodup st) Hl E1) as Hdel1.
  rewrite E1.
  assert (Hdom1 : ∀ a, is_Some (f_hosts st1 !! a) ↔ is_Some (f_hosts st !! a)).
  { intros a. destruct (f_hosts st !! a) as [fh|] eqn:Ha.
    - destruct (Hho1 a fh) as (fh' & -> & _); [apply host_addrs_elem; by eexists|done|]. split; intros _; by eexists.
    - rewrite Hho1', Ha; [done|]. intros Hin0. apply host_addrs_elem in Hin0. rewrite Ha in Hin0. by destruct Hin0. }
  assert (Hcur1 : all_current st1).
  { intros s h c1 Hh1 Hc1. rewrite Hhi1 in Hh1. destruct (ml_members _ _ _ HP s h Hh1) as (c & Hc & _).
    destruct (Hv1 s h c Hh1 Hc) as (c' & Hc' & _ & Hkeep & _). assert (c' = c1) as -> by congruence. apply Hkeep. by apply (lo_cur _ _ HK s). }
  assert (Hreps1 : ∀ a fh1, f_hosts st1 !! a = Some fh1 → ∃ fh, f_hosts st !! a = Some fh ∧ fh_reps fh1 = fh_reps fh).
  { intros a fh1 Ha1. destruct (f_hosts st !! a) as [fh|] eqn:Ha; [|exfalso; assert (is_Some (f_hosts st !! a)) as [? ?] by (apply Hdom1; by eexists); congruence].
    destruct (Hho1 a fh) as (fh' & Hfh' & Hr); [apply host_addrs_elem; by eexists|done|]. exists fh. split; [done|]. congruence. }
  (* the lost shard and the ADD that will be applied *)
  destruct (sa_live _ _ _ HA) as (ap & qa & m & Hqa & Hia & Hsa & Hla & Hmm & HnLm).
  destruct (lo_mem _ _ HK s0 f0 (sa_lost _ _ _ HA)) as (af & h0 & Hh0 & Hmf).
  pose proof (li_hist _ _ _ _ _ HI s0 h0 Hh0) as Hw0. pose proof (hist_wf_nonempty _ _ Hw0) as Hne0.
  destruct h0 as [|e0 hs0]; [done|]. cbn [cur_members snd] in Hmf.
  destruct (lo_size _ _ HK s0 f0 _ (sa_lost _ _ _ HA) Hh0) as [Hsz0 H30]. cbn [cur_members snd] in Hsz0, H30.
  (* the invariant of the execution phase holds after the reports *)
  assert (HS1 : SAs s0 (e0 :: hs0) st1).
  { split; [done|]. split; [|].
    2:{ intros a Ha. apply Hdom1. destruct (decide (a ∈ host_addrs st)) as [Hin0|Hnin]; [by apply host_addrs_elem|].
        apply Hoh. rewrite <- (Ho1b a Hnin). exact Ha. }
    destruct st1 as [d1 hosts1 hist1 seen1]. cbn [f_db f_hosts f_hist f_seen] in *. split; cbn [fst snd].
    - exact HP1.
    - intros s h c v M M' x rest Hh Hc Hb. exfalso. pose proof (Hcur1 s h c Hh Hc) as Hcc. destruct Hb as (-> & Hv & _). cbn in Hcc. lia.
    - intros a fh1 k Ha1 Hk. destruct (Hreps1 a fh1 Ha1) as (fh & Hfh & Hr). rewrite Hr in Hk. destruct Hk as [lr Hk]. destruct k as [s rid].
      destruct (lo_clean _ _ HK a fh s rid lr Hfh Hk) as (b & h & Hh & Hm). exists h. cbn. rewrite Hhi1. split; [done|by eexists].
    - intros a q Hq. pose proof (Hsub1 a q Hq) as Hq0. rewrite Hhi1. destruct (sa_pend _ _ _ HA a q Hq0) as [[Hm Hc]|(Hia0 & Hs0 & Hl0 & _)].
      + split; [intros Hcq; by destruct (Hc Hcq)|]. split.
        * intros Hd. destruct Hm as [[(Hres & _)|[(_ & Hne & _)|(Hk & _)]]|[(Hcr & _)|(Hres & _)]]; try done.
          -- unfold is_restore, is_create in Hres. unfold is_delete in Hd. by destruct (q_type q).
          -- unfold is_kill in Hk. unfold is_delete in Hd. by destruct (q_type q).
          -- unfold is_create in Hcr. unfold is_delete in Hd. by destruct (q_type q).
          -- unfold is_restore, is_create in Hres. unfold is_delete in Hd. by destruct (q_type q).
        * intros Hia0. right. destruct Hm as [[(Hres & _)|[(_ & Hne & _)|(Hk & _)]]|[(Hcr & _)|(Hres & _)]]; try done.
          -- unfold is_restore, is_create in Hres. unfold is_add in Hia0. by destruct (q_type q).
          -- unfold is_kill in Hk. unfold is_add in Hia0. by destruct (q_type q).
          -- unfold is_create in Hcr. unfold is_add in Hia0. by destruct (q_type q).
          -- unfold is_restore, is_create in Hres. unfold is_add in Hia0. by destruct (q_type q).
      + split; [intros Hcq; unfold is_create in Hcq; unfold is_add in Hia0; by destruct (q_type q)|].
        split; [intros Hd; unfold is_delete in Hd; unfold is_add in Hia0; by destruct (q_type q)|]. intros _. by left.
    - exists []. unfold hist_of. rewrite Hhi1, Hh0. done.
    - intros _ rid a Hm HnL. assert (Hmm0 : member st s0 rid a) by (by exists (e0 :: hs0)).
      pose proof (lo_run _ _ HK s0 rid a Hmm0 HnL) as Hr. apply running_runs_on in Hr as (fh & Hfh & Hro).
      destruct (Hho1 a fh) as (fh1 & Hfh1 & Hr1); [apply host_addrs_elem; by eexists|done|].
      unfold member_running. cbn [fst]. rewrite Hfh1. destruct (ml_hosts _ _ _ HP1 a fh1 Hfh1) as [-> _]. cbn. unfold runs_on in Hro. by rewrite Hr1. }
  (* the NodeHosts execute: the ADD is applied *)
  destruct (steps P st1 ((λ a, EExec a true) <$> host_addrs st1)) as [st2|] eqn:E2; [|done].
  destruct (sa_execs s0 (e0 :: hs0) (host_addrs st1) st1 st2 HS1 (host_addrs_nodup st1) E2) as (HS2 & Hd2 & Hm2 & Hn2 & Hlen2 & Hoth2 & Happ2).
  assert (HX1 : LostX L st1).
  { destruct HS1 as (? & HSx & ?). split; [split; [done|split; [exact HP1|done]]|]. pose proof (sx_nc _ _ _ _ _ _ HSx) as Hnc. by destruct st1. }
  destruct (lostx_execs L P (host_addrs st1) st1 st2 HX1 E2) as (HX2 & _ & Hq2).
  pose proof (execs_hist P (host_addrs st1) st1 st2 E2 s0) as [l2 Hl2].
  assert (Happlied : (length (e0 :: hs0) < length (hist_of (f_hist st2) s0))%nat).
  { apply Happ2. assert (Hinp : ap ∈ host_addrs st) by (apply host_addrs_elem; by destruct Hla as (_ & _ & [? _] & _)).
    destruct (Hdel1 ap qa Hinp Hqa) as (fhp & Hfhp & Hqq). exists ap, fhp, qa. split; [apply host_addrs_elem; by eexists|]. split; [done|]. split; [done|].
    (* the request: an ADD with the current fence and an unused id *)
    destruct Hla as (_ & Hfen & _ & _ & Hadd & _). destruct (Hadd Hia) as (xx & tt & Hmem & Haddr & _).
    unfold hist_of in Hfen. rewrite Hsa, Hh0 in Hfen. cbn in Hfen.
    assert (Hbox : in_box (f_db st) (f_hosts st) [] qa) by (destruct Hqa as [(qs & ? & ?)|(fh & ? & ?)]; [left; eauto|right; right; left; eauto]).
    destruct (li_reqs _ _ _ _ _ HI qa Hbox) as [_ Hreq]. unfold is_add in Hia. destruct (q_type qa) eqn:Ety; try done.
    destruct Hreq as (x' & t' & Hx' & _ & _ & Hr). rewrite Hsa in Hr. destruct (Hr _ Hh0) as [_ Hused].
    split; [done|]. split; [done|]. exists xx, tt, e0, hs0. split; [done|]. split; [done|]. split; [done|]. split; [done|]. split.
    { destruct (used_in (e0 :: hs0) xx) eqn:Eu; [|done]. exfalso. rewrite Hmem in Hx'. injection Hx' as <-. specialize (Hused Eu). cbn in Hused. lia. }
    split.
    { destruct Hmm as (hm & Hhm & Hmm). assert (hm = e0 :: hs0) as -> by congruence. by exists m. }
    split; [done|]. intros r1 r2. apply (lo_one _ _ HK). }
  (* Raft catches up; time passes *)
  destruct (steps P st2 (catch_up_events st2)) as [st3|] eqn:E3; [|done].
  destruct (lostx_learns L P st2 st3 HX2 E3) as (HX3 & Hd3 & Hhi3 & Hf3).
  pose proof (steps_pres P (λ stx, LostX L stx ∧ f_hist stx = f_hist st2 ∧
      (∀ b s rid, member_running (f_hosts st2) s rid b = true → member_running (f_hosts stx) s rid b = true) ∧
      (∀ b fh' k, f_hosts stx !! b = Some fh' → is_Some (fh_reps fh' !! k) → ∃ fh, f_hosts st2 !! b = Some fh ∧ is_Some (fh_reps fh !! k)))
      (catch_up_events st2)) as Hex.
  destruct (Hex) with (st := st2) (st' := st3) as (_ & _ & Hrun3 & Hk3); [| |done|].
  { intros stx ev sty Hev (HXx & Hhx & Hrx & Hkx) E. apply catch_up_members in Hev as (a & s & r & v & -> & Hm). rewrite <- Hhx in Hm.
    destruct (lostx_learn L P stx a s r v sty HXx Hm E) as (HXy & _ & Hhy & _).
    destruct HXx as [(HIx & _) _]. destruct (learn_frame P stx a s r v sty HIx Hm E) as (Hr & Hk).
    split; [done|]. split; [congruence|]. split.
    - intros b s1 rid Hrb. apply Hr. by apply Hrx.
    - intros b fh' k Hb Hkk. destruct (Hk b fh' k Hb Hkk) as (fh0 & Hfh0 & Hk0). by apply (Hkx b fh0 k). }
  { split; [done|]. split; [done|]. split; [done|]. intros b fh' k Hb Hkk. by exists fh'. }
  clear Hex.
  destruct (steps P st3 (replicate nticks ETick)) as [st4'|] eqn:E4; [|done]. intros [= ->].
  destruct (lostx_ticks L P nticks st3 st4 HX3 E4) as (HX4 & Hd4 & Hho4 & Hhi4).
  set (T := d_tick (f_db st1) + N.of_nat nticks * p_step P).
  assert (Hdb : f_db st4 = set_tick (f_db st1) T) by (rewrite Hd4, Hd3, Hd2; done).
  assert (Hview4 : d_view (f_db st4) = d_view (f_db st1)) by (by rewrite Hdb).
  assert (Hhist4 : f_hist st4 = f_hist st2) by congruence.
  pose proof HX4 as [(HI4 & HP4 & Hoh4) Hnc4].
  (* exactly one entry has been appended: an ADD *)
  assert (Hh4 : ∃ x tt, f_hist st4 !! s0 = Some (((e0.1 + 1, <[x := tt]> e0.2) : hentry) :: e0 :: hs0) ∧ e0.2 !! x = None).
  { rewrite Hhist4. unfold hist_of in Hl2, Happlied. rewrite Hhi1, Hh0 in Hl2. cbn [default from_option id] in Hl2.
    destruct (f_hist st2 !! s0) as [h2|] eqn:Eh2; cbn [default from_option id] in Hl2, Happlied; [|cbn in Happlied; lia]. subst h2.
    assert (Hh4' : f_hist st4 !! s0 = Some (l2 ++ e0 :: hs0)) by (by rewrite Hhist4).
    pose proof (li_hist _ _ _ _ _ HI4 s0 _ Hh4') as Hw4. pose proof (hist_wf_app_version _ l2 (e0 :: hs0) Hw4 ltac:(done)) as Hver.
    destruct (ml_members _ _ _ HP4 s0 _ Hh4') as (c4 & Hc4 & Hcase4 & _). rewrite Hview4 in Hc4.
    pose proof (Hcur1 s0 (e0 :: hs0) c4 ltac:(by rewrite Hhi1) Hc4) as Hcc. cbn [cur_version] in Hcc, Hver.
    rewrite app_length in Happlied. cbn [length] in Happlied.
    destruct Hcase4 as [Hcc4|(v & M & M' & x & rest & Hhh & Hv & Hkind)]; [rewrite Hcc4 in Hcc; lia|].
    assert (Hl1 : ∃ e, l2 = [e]).
    { rewrite Hhh in Hver. cbn [cur_version fst] in Hver. destruct l2 as [|e [|e2 l3]]; [cbn in Happlied; lia|by exists e|cbn [length] in Hver; lia]. }
    destruct Hl1 as [e ->]. cbn [app] in Hhh. injection Hhh as -> -> ->. cbn [fst snd] in *.
    destruct Hkind as [[HMx [t' ->]]|[[? HMx] ->]].
    - exists x, t'. done.
    - exfalso. destruct (hist_wf_mem_ok _ _ Hw4 (v + 1, delete x M) ltac:(left)) as [[Hlo _] _]. cbn [snd] in Hlo.
      rewrite map_size_delete_Some in Hlo by done. unfold shard_size in Hlo, Hsz0. rewrite Hdb in Hlo. cbn [set_tick d_shards] in Hlo. rewrite Hsh1 in Hlo. lia. }
  destruct Hh4 as (x & tt & Hh4 & Hxn).
  exists e0, hs0, x, tt. split; [done|]. split; [done|]. split; [done|].
  split. { intros s Hs. rewrite Hhist4, (Hoth2 s Hs). by rewrite Hhi1. }
  split; [done|].
  (* the records after the reports *)
  assert (Hmemrec : ∀ s c1 rid n1, d_view (f_db st1) !! s = Some c1 → s_reps c1 !! rid = Some n1 →
            ∃ h, f_hist st !! s = Some h ∧ cur_members h !! rid = Some (r_addr n1)).
  { intros s c1 rid n1 Hc1 Hn1. destruct (ml_viewdef _ _ _ HP1 s) as [_ [h Hh1]]; [by eexists|].
    destruct (calm_view st1 s h c1 HI1 Hh1 Hc1 (Hcur1 s h c1 Hh1 Hc1)) as (HM & _). exists h. rewrite <- Hhi1. split; [done|].
    rewrite <- HM, lookup_fmap, Hn1. done. }
  assert (Hclass : ∀ s c1 rid n1, d_view (f_db st1) !! s = Some c1 → s_reps c1 !! rid = Some n1 →
            ∃ n0, rec_of (d_view (f_db st)) s rid = Some n0 ∧
              ((¬ L s rid ∧ r_tick n1 = t) ∨ (L s rid ∧ r_tick n1 = r_tick n0))).
  { intros s c1 rid n1 Hc1 Hn1. assert (Hrec1 : rec_of (d_view (f_db st1)) s rid = Some n1) by (apply rec_of_Some; eauto).
    destruct (Htk s rid n1 Hrec1) as (n0 & Hn0 & Hcase). exists n0. split; [done|].
    destruct (Hmemrec s c1 rid n1 Hc1 Hn1) as (h & Hh & Hm).
    destruct (Ldec s rid) as [Hl0|Hnl].
    - right. split; [done|]. destruct Hcase as [[(a & fh & _ & Hfh & Hro) _]|[_ ?]]; [|done]. exfalso.
      unfold runs_on in Hro. rewrite (lo_nodata _ _ HK s rid Hl0 a fh Hfh) in Hro. done.
    - left. split; [done|]. destruct Hcase as [[_ ?]|[Hnone _]]; [done|]. exfalso.
      assert (Hmm0 : member st s rid (r_addr n1)) by (by exists h).
      pose proof (lo_run _ _ HK s rid _ Hmm0 Hnl) as Hr. apply running_runs_on in Hr as (fh & Hfh & Hro).
      rewrite (Hnone (r_addr n1) fh) in Hro; [done|apply host_addrs_elem; by eexists|done]. }
  assert (Hpos : 0 < t) by apply (ml_time _ _ _ HP).
  assert (Hstamp4 : ∀ s c rid n, d_view (f_db st4) !! s = Some c → s_reps c !! rid = Some n → r_tick n ≠ 0).
  { intros s c rid n Hc Hn. rewrite Hview4 in Hc. destruct (Hclass s c rid n Hc Hn) as (n0 & Hn0 & [[_ ->]|[_ ->]]); [lia|].
    apply rec_of_Some in Hn0 as (c0 & Hc0 & Hk0). by apply (lo_stamped _ _ HK s c0 rid n0). }
  split.
  { split.
    - exact HI4.
    - intros s Hs. rewrite Hview4 in Hs. destruct (ml_viewdef _ _ _ HP1 s Hs) as [[sd Hsd] _]. destruct (ml_defined _ _ _ HP1 s sd Hsd) as (_ & _ & Happ).
      exists sd. rewrite Hdb. cbn [set_tick d_shards]. done.
    - split; [lia|]. rewrite Hdb. cbn [set_tick d_tick]. unfold T. rewrite Ht1. fold t. lia.
    - intros s c rid n Hc Hn. pose proof (Hstamp4 s c rid n Hc Hn) as Hnz. rewrite Hview4 in Hc.
      destruct (Hclass s c rid n Hc Hn) as (n0 & Hn0 & [[_ ?]|[Hl0 Htkn]]); [by left|]. right; right. split; [done|]. split; [done|].
      intros hh Hhh Hlog. rewrite Hdb in Hhh. cbn [set_tick d_hosts] in Hhh.
      destruct (Hmemrec s c rid n Hc Hn) as (h & Hh & Hm). destruct (ml_members _ _ _ HP s h Hh) as (_ & _ & _ & Hmem).
      destruct (Hmem rid _ Hm) as (_ & _ & fh & Hfh & _).
      destruct (Hplog (r_addr n) fh hh) with (k := (s, rid)) as [lr Hk]; [apply host_addrs_elem; by eexists|apply Hpl|done|done|done|].
      by rewrite (lo_nodata _ _ HK s rid Hl0 _ fh Hfh) in Hk.
    - apply (lo_one _ _ HK).
    - intros s c r1 r2 n1 n2 Hc H1 H2 Hz1. by destruct (Hstamp4 s c r1 n1 Hc H1).
    - intros s rid Hl0. destruct (sa_single _ _ _ HA s rid Hl0) as [-> ->]. unfold shard_size. rewrite Hdb. cbn [set_tick d_shards]. rewrite Hsh1.
      unfold shard_size in Hsz0. lia. }
  split. { intros s h c Hh Hc. rewrite Hview4 in Hc. assert (Hh1 : f_hist st1 !! s = Some h) by (by rewrite Hhi1).
           pose proof (Hcur1 s h c Hh1 Hc) as Hcc. split; [done|]. by destruct (calm_view st1 s h c HI1 Hh1 Hc Hcc) as (HM & _). }
  split; [exact Hstamp4|].
  split. { rewrite Hdb. cbn [set_tick d_tick]. unfold T. by rewrite Ht1. }
  split; [rewrite Hdb; cbn [set_tick d_shards]; exact Hsh1|].
  assert (Hdom4 : ∀ b, is_Some (f_hosts st4 !! b) ↔ is_Some (f_hosts st !! b)).
  { intros b. rewrite Hho4, <- Hdom1. specialize (Hq2 b). specialize (Hf3 b). destruct (f_hosts st1 !! b) as [fh1|].
    - destruct Hq2 as (fh2 & Hfh2 & _). rewrite Hfh2 in Hf3. destruct Hf3 as (fh3 & -> & _). split; intros _; by eexists.
    - rewrite Hq2 in Hf3. rewrite Hf3. done. }
  split.
  { intros s rid a Hm HnL. rewrite Hho4. apply Hrun3.
    pose proof (lo_run _ _ HK s rid a Hm HnL) as Hr. apply running_runs_on in Hr as (fh & Hfh & Hro).
    destruct (Hho1 a fh) as (fh1 & Hfh1 & Hr1); [apply host_addrs_elem; by eexists|done|].
    unfold runs_on in Hro. rewrite <- Hr1 in Hro. destruct (fh_reps fh1 !! (s, rid)) as [lr1|] eqn:Ek1; [|done].
    destruct (Hm2 a fh1 (s, rid) lr1 Hfh1 Ek1) as (fh2 & lr2 & Hfh2 & Hk2 & Hrr). unfold member_running. rewrite Hfh2, Hk2.
    destruct HX2 as [(_ & HP2 & _) _]. destruct (ml_hosts _ _ _ HP2 a fh2 Hfh2) as [-> _]. cbn. by apply Hrr. }
  split.
  { intros b fh4 k Hb Hk. rewrite Hho4 in Hb. destruct (Hk3 b fh4 k Hb Hk) as (fh2 & Hfh2 & Hkk2). destruct (Hn2 b fh2 k Hfh2 Hkk2) as (fh1 & Hfh1 & Hkk1).
    destruct (Hreps1 b fh1 Hfh1) as (fh & Hfh & Hr). exists fh. by rewrite <- Hr. }
  split; [exact Hdom4|]. split.
  { intros b Hb. rewrite Hdb in Hb. cbn [set_tick d_hosts] in Hb. destruct (Hkeys b Hb) as [Hinb|Hold]; [by apply host_addrs_elem|by apply (lo_dbhosts _ _ HK)]. }
  split.
  { intros s f Hlf. unfold mem_tick. rewrite Hview4.
    destruct (rec_of (d_view (f_db st1)) s f) as [n1|] eqn:Hr1.
    - pose proof Hr1 as Hr1'. apply rec_of_Some in Hr1' as (c1 & Hc1 & Hn1). destruct (Hclass s c1 f n1 Hc1 Hn1) as (n0 & Hn0 & [[? _]|[_ Htkn]]); [done|]. by rewrite Hn0.
    - destruct (rec_of (d_view (f_db st)) s f) as [n0|] eqn:Hr0; [|done]. exfalso.
      apply rec_of_Some in Hr0 as (c0 & Hc0 & Hk0). destruct (ml_viewdef _ _ _ HP s) as [_ [h Hh]]; [by eexists|].
      destruct (Hv1 s h c0 Hh Hc0) as (c1 & Hc1 & _ & Hkeep & _).
      destruct (current_same_keys st1 st s h c1 c0 f HI1 HI ltac:(done) ltac:(by rewrite Hhi1) Hc1 Hc0) as [n1 Hn1];
        [apply Hkeep; by apply (lo_cur _ _ HK s)|by apply (lo_cur _ _ HK s)|by eexists|].
      assert (rec_of (d_view (f_db st1)) s f = Some n1) by (apply rec_of_Some; eauto). congruence. }
  (* nothing is pending for a NodeHost *)
  intros a q Hq.
  assert (Hq1 : nonout st1 a q ∧ f_hosts st4 !! a = None).
  { destruct (f_hosts st4 !! a) as [fh4|] eqn:Ha4.
    - exfalso. rewrite Hho4 in Ha4. specialize (Hf3 a). specialize (Hq2 a).
      destruct (f_hosts st2 !! a) as [fh2|] eqn:Ha2; [|congruence]. destruct Hf3 as (fh3 & Hfh3 & Hq3). assert (fh3 = fh4) as -> by congruence.
      destruct (f_hosts st1 !! a) as [fh1|] eqn:Ha1; [|congruence]. destruct Hq2 as (fh2' & Hfh2' & Hqq2). assert (fh2' = fh2) as -> by congruence.
      assert (Hin1' : a ∈ host_addrs st1) by (apply host_addrs_elem; by eexists).
      assert (Hin0 : a ∈ host_addrs st) by (apply host_addrs_elem, Hdom1; by eexists).
      rewrite decide_True in Hqq2 by done.
      destruct Hq as [(qs & Hl0 & _)|(fh & Hl0 & Hinq)].
      + rewrite Hdb in Hl0. cbn [set_tick d_requests] in Hl0. rewrite (Hrq1 a Hin0) in Hl0. done.
      + rewrite Hho4, Hfh3 in Hl0. injection Hl0 as <-. rewrite Hq3, Hqq2 in Hinq. by apply elem_of_nil in Hinq.
    - split; [|done]. destruct Hq as [(qs & Hl0 & Hi0)|(fh & Hl0 & _)]; [|congruence]. left. exists qs. rewrite Hdb in Hl0. done. }
  destruct Hq1 as [Hq1 Hn4]. split; [done|]. by apply Hsub1.
Qed.

(* the state after the round in which the ADD is applied: the membership of s0 has the new member x (which does not run
   yet), Drummer's view of s0 is one version behind, every pending request is a leftover *)
Record StageB (s0 f0 : N) (st : fstate) : Prop := mkStageB {
  sb_b : LostB L st;
  sb_pend : ∀ a q, nonout st a q → pendI st a q;
  sb_single : ∀ s f, L s f → s = s0 ∧ f = f0;
  sb_lost : L s0 f0;
  sb_behind : ∃ (e0 : hentry) (hs0 : list hentry) (x t : N) (c : shard),
      f_hist st !! s0 = Some (((e0.1 + 1, <[x := t]> e0.2) : hentry) :: e0 :: hs0) ∧ e0.2 !! x = None ∧
      d_view (f_db st) !! s0 = Some c ∧ s_cci c = e0.1 ∧ size e0.2 = shard_size (f_db st) s0 ∧ (3 ≤ size e0.2)%nat ∧ is_Some (e0.2 !! f0) ∧
      (∀ a fh, f_hosts st !! a = Some fh → fh_reps fh !! (s0, x) = None);
  sb_cur : ∀ s h c, s ≠ s0 → f_hist st !! s = Some h → d_view (f_db st) !! s = Some c → s_cci c = cur_version h;
  sb_stamped : ∀ s c rid n, d_view (f_db st) !! s = Some c → s_reps c !! rid = Some n → r_tick n ≠ 0;
  sb_nodata : ∀ s rid, L s rid → ∀ a fh, f_hosts st !! a = Some fh → fh_reps fh !! (s, rid) = None;
  sb_run : ∀ s rid a, member st s rid a → ¬ L s rid → stamped (f_db st) s rid → member_running (f_hosts st) s rid a = true;
  sb_clean : ∀ a fh s rid lr, f_hosts st !! a = Some fh → fh_reps fh !! (s, rid) = Some lr → ∃ b, member st s rid b;
  sb_dbhosts : ∀ a, is_Some (d_hosts (f_db st) !! a) → is_Some (f_hosts st !! a) }.

(** ** stage (a): the round in which the replacement ADD is applied *)
Theorem lost_stage_add_applied s0 f0 st st' plogs nticks o :
  StageA s0 f0 st → (∀ a, plogs a = true) → N.of_nat nticks * p_step P < p_ttl P →
  (∀ s, is_Some (f_hist st !! s) → ∃ a, spare st a s) → o ≠ OCrash →
  (∀ st4, pre_schedule P plogs nticks st = Some st4 → fresh_ok st4 (ESchedule o)) →
  healthy_round P plogs nticks o st = Some st' →
  ∃ b, o = OBatch b ∧ StageB s0 f0 st' ∧
    d_tick (f_db st') = d_tick (f_db st) + N.of_nat nticks * p_step P ∧
    (length (hist_of (f_hist st) s0) < length (hist_of (f_hist st') s0))%nat ∧
    mem_tick st' s0 f0 = mem_tick st s0 f0.
Proof.
  intros HA Hpl Httl Hsp Hnc Hfr Hr. pose proof (sa_k _ _ _ HA) as HK. destruct (lo_b _ _ HK) as (HI & HP & Hoh).
  assert (Hne : o ≠ OError).
  { apply (round_no_error P st st' plogs nticks o HI); [|done|done|done]. intros a fh Ha. by destruct (ml_hosts _ _ _ HP a fh Ha). }
  rewrite healthy_round_pre in Hr. destruct (pre_schedule P plogs nticks st) as [st4|] eqn:Epre; [|done].
  destruct (sa_pre s0 f0 st plogs nticks st4 HA Hpl ltac:(lia) Epre) as
    (e0 & hs0 & x & tt & Hh0 & Hh4 & Hxn & Hoth4 & HX4 & HR4 & Hcur4 & Hstamp4 & Htick4 & Hsh4 & Hrun4 & Hkeys4 & Hdom4 & Hdbh4 & Hmt4 & Hnoh4).
  specialize (Hfr st4 eq_refl).
  destruct (fstep P st4 (ESchedule o)) as [st5| |] eqn:E5; try done. injection Hr as <-.
  destruct HX4 as [(HI4 & HP4 & Hoh4) Hnc4].
  cbn [fstep] in E5. destruct (allowed P (ctx_of_db (f_db st4)) o) eqn:Hal; [|done].
  destruct o as [b| |]; [|done|done]. exists b. split; [done|].
  set (C := ctx_of_db (f_db st4)) in *. pose proof (loopinv_ctx_wf st4 HI4) as Hwf. fold C in Hwf.
  set (t := d_tick (f_db st)) in *.
  destruct (lo_size _ _ HK s0 f0 _ (sa_lost _ _ _ HA) Hh0) as [Hsz0 H30]. cbn [cur_members snd] in Hsz0, H30.
  (* what the batch consists of *)
  assert (Hkinds : ∀ q, q ∈ b → is_kill q = true ∨
            (is_add q = true ∧ ∃ c, c ∈ entries C ∧ s_id c = q_shard q ∧ add_req_ok P C c q = true ∧ s_id c = s0)).
  { intros q Hq. destruct (batch_request_cases P C b q Hal Hq) as [Hk|(_ & c & qs & Hc & Hs & Hinq & Hg & _)]; [left; by apply (kills_are_kill C)|].
    destruct (lostp_entry L P Ldec st4 t c HR4 Hc) as (h & sd & Hh & Hvc & _ & _ & Hhr & Hfl & Hw & _ & Hnone & Hadd). fold C in Hhr, Hfl, Hw, Hnone, Hadd.
    assert (Hnw : sr_wait P C c = []).
    { destruct (sr_wait P C c) as [|nw lw] eqn:Ew; [done|]. exfalso. assert (Hnw : nw ∈ sr_wait P C c) by (rewrite Ew; left).
      pose proof (Hw nw ltac:(left)) as Hz. apply elem_sr_wait in Hnw as [Hnw _]. apply elem_of_mvals in Hnw as [rid Hrid]. by apply (Hstamp4 _ c rid nw Hvc). }
    apply group_allowed_inv in Hg as [(Hhr' & _)|(_ & Hcases)]; [congruence|].
    destruct (sr_failed P C c) as [|nf l0] eqn:Ef.
    - rewrite (Hnone Hnw eq_refl) in Hcases. destruct Hcases as [[_ ->]|[(? & _)|[(? & ? & _)|(? & _)]]]; try done. by apply elem_of_nil in Hinq.
    - destruct (Hfl nf ltac:(left)) as [Hlf _]. destruct (sa_single _ _ _ HA _ _ Hlf) as [Hs0 _].
      destruct (Hadd Hnw ltac:(done)) as [Hadd' _]. rewrite Hadd' in Hcases.
      2:{ rewrite Hs0 in Hvc |- *. destruct (Hcur4 s0 _ c Hh0 Hvc) as [_ HM]. cbn [cur_members snd] in HM.
          rewrite <- (map_size_fmap r_addr), HM, Hsz0. unfold shard_size. by rewrite Hsh4. }
      destruct Hcases as [[? _]|[(? & _)|[(? & ? & _)|(_ & q' & -> & Hok)]]]; try done.
      apply elem_of_list_singleton in Hinq as ->. right. pose proof Hok as Hok'. unfold add_req_ok in Hok'. apply bool_decide_eq_true in Hok' as (Ha & _).
      split; [done|]. exists c. done. }
  assert (Hvalid : ∀ q, q ∈ b → valid_req q = true).
  { intros q Hq. apply allowed_batch_inv in Hal as (_ & _ & _ & _ & _ & Hv). rewrite Forall_forall in Hv. by apply Hv. }
  (* the state after the step *)
  assert (E' : fstep P st4 (ESchedule (OBatch b)) = FOk st5) by (cbn [fstep]; fold C; by rewrite Hal).
  pose proof (step_inv P st4 _ st5 HI4 Hfr E') as HI5.
  pose proof (fstep_time_ok P st4 _ st5 E' (ml_timeok _ _ _ HP4)) as Hto5.
  assert (Hst5 : f_hosts st5 = f_hosts st4 ∧ f_hist st5 = f_hist st4 ∧
                 f_db st5 = set_requests (f_db st4) (put_requests (d_requests (f_db st4)) b)).
  { destruct b as [|q0 b0].
    - injection E5 as <-. split; [done|]. split; [done|]. destruct st4 as [d ? ? ?]. cbn. by destruct d.
    - rewrite (schedule_db P st4 (q0 :: b0) HI4 Hal) in E5 by (intros y Hy; destruct Hfr as [_ Hfr]; by apply Hfr).
      injection E5 as <-. done. }
  destruct Hst5 as (Eh & Ehi & Ed).
  assert (Hnew : ∀ q, q ∈ b → nonout st5 (q_raft q) q).
  { intros q Hq. left. exists (for_addr (q_raft q) b). rewrite Ed. cbn [set_requests d_requests]. rewrite put_requests_lookup.
    rewrite bool_decide_eq_true_2 by (unfold mentions; apply elem_of_list_fmap; by exists q). split; [done|]. unfold for_addr. apply elem_of_list_filter. done. }
  assert (Hsplit : ∀ a q, nonout st5 a q → nonout st4 a q ∨ (q ∈ b ∧ q_raft q = a)).
  { intros a q [(qs & Hl0 & Hi0)|(fh & Hl0 & Hi0)]; [|left; right; exists fh; by rewrite <- Eh].
    rewrite Ed in Hl0. cbn [set_requests d_requests] in Hl0. rewrite put_requests_lookup in Hl0. case_bool_decide as Hm; [|left; left; eauto].
    injection Hl0 as <-. unfold for_addr in Hi0. apply elem_of_list_filter in Hi0 as [Hra Hi0]. by right. }
  assert (Hview5 : d_view (f_db st5) = d_view (f_db st4)) by (by rewrite Ed).
  assert (Hhof5 : hist_of (f_hist st5) s0 = ((e0.1 + 1, <[x := tt]> e0.2) : hentry) :: e0 :: hs0) by (unfold hist_of; rewrite Ehi; idtac; by rewrite Hh4).
  (* every pending request is a leftover *)
  assert (Hall : ∀ a q, nonout st5 a q → pendI st5 a q).
  { intros a q Hq. destruct (Hsplit a q Hq) as [Hq4|[Hqb <-]].
    { destruct (Hnoh4 a q Hq4) as [Hno Hq0]. unfold pendI. rewrite Ehi, Eh. split.
      - destruct (ml_boxes _ _ _ HP4 a q Hq4) as [[Hm _]|[Hl0 _]]; [done|]. exfalso. destruct Hl0 as (_ & _ & [[fh Hfh] _] & _). congruence.
      - intros Hcq. exfalso. destruct (sa_pend _ _ _ HA a q Hq0) as [[_ Hc]|(Hia0 & _)].
        + destruct (Hc Hcq) as [_ Hs]. apply Hdom4 in Hs as [fh Hfh]. congruence.
        + unfold is_add in Hia0. unfold is_create in Hcq. by destruct (q_type q). }
    destruct (Hkinds q Hqb) as [Hk|(Hia & c & Hc & Hs & Hok & Hcs0)].
    - split; [|intros Hcq; unfold is_kill in Hk; unfold is_create in Hcq; by destruct (q_type q)].
      assert (Hbox : in_box (f_db st5) (f_hosts st5) [] q) by (destruct (Hnew q Hqb) as [(qs & ? & ?)|(fh & ? & ?)]; [left; eauto|right; right; left; eauto]).
      destruct (li_reqs _ _ _ _ _ HI5 q Hbox) as [_ Hreq]. unfold is_kill in Hk. destruct (q_type q) eqn:Ety; try done.
      destruct Hreq as (y & Hy & Hd). left; right; right. split; [unfold is_kill; by rewrite Ety|]. exists y. split; [done|].
      intros h Hh. by destruct (Hd h Hh).
    - split; [|intros Hcq; unfold is_add in Hia; unfold is_create in Hcq; by destruct (q_type q)].
      destruct (lostp_entry L P Ldec st4 t c HR4 Hc) as (h & sd & Hh & Hvc & _). rewrite Hcs0 in Hvc.
      destruct (Hcur4 s0 _ c Hh0 Hvc) as [Hcc _]. cbn [cur_version] in Hcc.
      unfold add_req_ok in Hok. apply bool_decide_eq_true in Hok as (_ & Hsh & Hfence & Hlen & _ & Hexc & _).
      left; right; left. split; [unfold is_change; by rewrite Hia|]. split.
      { rewrite Hsh, Hcs0, Hhof5, Hfence, Hcc. cbn. lia. }
      split; [intros Hnil; by rewrite Hnil in Hlen|]. intros _.
      apply Exists_exists in Hexc as (nf & _ & Hexc). apply Exists_exists in Hexc as (hh & _ & ->). done. }
  assert (Hmem_up : ∀ s rid a, member st s rid a → member st5 s rid a).
  { intros s rid a (h & Hh & Hm). destruct (decide (s = s0)) as [->|Hs].
    - rewrite Hh0 in Hh. injection Hh as <-. exists (((e0.1 + 1, <[x := tt]> e0.2) : hentry) :: e0 :: hs0). split; [by rewrite Ehi|]. cbn [cur_members snd] in *.
      rewrite lookup_insert_ne; [done|]. intros ->. congruence.
    - exists h. by rewrite Ehi, (Hoth4 s Hs). }
  split; [|split; [rewrite Ed; cbn [set_requests d_tick]; exact Htick4|]].
  2:{ split; [rewrite Hhof5; unfold hist_of; rewrite Hh0; cbn; lia|]. unfold mem_tick. rewrite Hview5. exact (Hmt4 s0 f0 (sa_lost _ _ _ HA)). }
  split.
  - split; [exact HI5|]. split.
    + destruct HP4. split; try rewrite Ed; try rewrite Eh; try rewrite Ehi; cbn [set_requests d_tick d_shards d_view d_kill]; try done.
      all: try (rewrite Ed in Hto5; exact Hto5).
      intros a q Hq. destruct (Hall a q Hq) as [Hm _].
      left. rewrite Ehi in Hm. split; [done|]. rewrite <- Ehi. by apply (nonout_qextra st5 a q).
    + intros a Ha. rewrite Eh. apply Hoh4. rewrite Ed in Ha. exact Ha.
  - exact Hall.
  - apply (sa_single _ _ _ HA).
  - apply (sa_lost _ _ _ HA).
  - destruct (ml_members _ _ _ HP4 s0 _ Hh4) as (c & Hvc & _). exists e0, hs0, x, tt, c. rewrite Ehi, Hview5. split; [done|]. split; [done|]. split; [done|].
    destruct (Hcur4 s0 _ c Hh0 Hvc) as [Hcc _]. split; [done|]. split; [unfold shard_size; rewrite Ed; cbn [set_requests d_shards]; rewrite Hsh4; exact Hsz0|].
    split; [done|]. split; [destruct (lo_mem _ _ HK s0 f0 (sa_lost _ _ _ HA)) as (af & h & Hh & Hm); rewrite Hh0 in Hh; injection Hh as <-; by eexists|].
    intros a fh Hfh. rewrite Eh in Hfh. destruct (fh_reps fh !! (s0, x)) as [lr|] eqn:Ek; [|done]. exfalso.
    destruct (Hkeys4 a fh (s0, x) Hfh ltac:(by eexists)) as (fh0 & Hfh0 & [lr0 Hk0]).
    destruct (lo_clean _ _ HK a fh0 s0 x lr0 Hfh0 Hk0) as (b0 & h & Hh & Hm). rewrite Hh0 in Hh. injection Hh as <-. cbn [cur_members snd] in Hm. congruence.
  - intros s h c Hs Hh Hc. rewrite Ehi, (Hoth4 s Hs) in Hh. rewrite Hview5 in Hc. by destruct (Hcur4 s h c Hh Hc).
  - intros s c rid n Hc Hn. rewrite Hview5 in Hc. by apply (Hstamp4 s c rid n).
  - intros s rid Hl0 a fh Hfh. rewrite Eh in Hfh. destruct (fh_reps fh !! (s, rid)) as [lr|] eqn:Ek; [|done]. exfalso.
    destruct (Hkeys4 a fh (s, rid) Hfh ltac:(by eexists)) as (fh0 & Hfh0 & [lr0 Hk0]). by rewrite (lo_nodata _ _ HK s rid Hl0 a fh0 Hfh0) in Hk0.
  - intros s rid a (h5 & Hh5 & Hm5) HnL (n & Hn & Hnz). rewrite Eh. apply Hrun4; [|done]. rewrite Hview5 in Hn. apply rec_of_Some in Hn as (c & Hc & Hn).
    rewrite Ehi in Hh5. destruct (decide (s = s0)) as [->|Hs].
    + rewrite Hh4 in Hh5. injection Hh5 as <-. cbn [cur_members snd] in Hm5. exists (e0 :: hs0). split; [done|]. cbn [cur_members snd].
      destruct (Hcur4 s0 _ c Hh0 Hc) as [_ HM]. cbn [cur_members snd] in HM.
      assert (Hin : is_Some (e0.2 !! rid)) by (rewrite <- HM, lookup_fmap, Hn; by eexists).
      rewrite lookup_insert_ne in Hm5; [done|]. intros ->. rewrite Hxn in Hin. by destruct Hin.
    + exists h5. by rewrite <- (Hoth4 s Hs).
  - intros a fh s rid lr Hfh Hk. rewrite Eh in Hfh. destruct (Hkeys4 a fh (s, rid) Hfh ltac:(by eexists)) as (fh0 & Hfh0 & [lr0 Hk0]).
    destruct (lo_clean _ _ HK a fh0 s rid lr0 Hfh0 Hk0) as (b0 & Hm0). exists b0. by apply Hmem_up.
  - intros a Ha. rewrite Ed in Ha. cbn [set_requests d_hosts] in Ha. rewrite Eh. by apply Hdom4, Hdbh4.
Qed.
End StageA.

(** * stage (b): the view catches up, the new member is started *)
Section StageB.
Variable L : N → N → Prop.
Variable P : params.
Hypothesis Ldec : ∀ s rid, L s rid ∨ ¬ L s rid.

Lemma keep_rec st st' s h c c' rid :
  LoopInv st → LoopInv st' → f_hist st' = f_hist st → f_hist st !! s = Some h →
  d_view (f_db st) !! s = Some c → d_view (f_db st') !! s = Some c' → (s_cci c' = s_cci c ∨ s_cci c' = cur_version h) →
  is_Some (s_reps c !! rid) → is_Some (cur_members h !! rid) → is_Some (s_reps c' !! rid).
Proof.
  intros HI HI' Hhi Hh Hc Hc' [Hv|Hv] Hk Hm.
  - destruct (li_view _ _ _ _ _ HI s c Hc) as (_ & HH & _). destruct (li_view _ _ _ _ _ HI' s c' Hc') as (_ & HH' & _).
    rewrite Hhi, Hv, HH in HH'. injection HH' as HH'.
    rewrite <- (fmap_is_Some r_addr), <- lookup_fmap, <- HH', lookup_fmap. by apply fmap_is_Some.
  - destruct (calm_view st' s h c' HI' ltac:(by rewrite Hhi) Hc' Hv) as (HM & _).
    rewrite <- (fmap_is_Some r_addr), <- lookup_fmap, HM. done.
Qed.

(* the records after the reports of the NodeHosts in l, whatever the versions of the view entries *)
Lemma reports_recs (plogs : N → bool) (l : list N) : ∀ st st',
  LoopInv st → MendL L (nonout st) st → NoDup l → (∀ a, a ∈ l → is_Some (f_hosts st !! a)) →
  steps P st (l ≫= λ a, [ESnap a (plogs a); EDeliver a false]) = Some st' →
  (∀ s rid n', rec_of (d_view (f_db st')) s rid = Some n' →
     (∃ n, rec_of (d_view (f_db st)) s rid = Some n ∧ r_first n' = r_first n ∧
        (((∃ a fh, a ∈ l ∧ f_hosts st !! a = Some fh ∧ runs_on fh s rid = true) ∧ r_tick n' = d_tick (f_db st)) ∨
         ((∀ a fh, a ∈ l → f_hosts st !! a = Some fh → runs_on fh s rid = false) ∧ r_tick n' = r_tick n))) ∨
     ((rec_of (d_view (f_db st)) s rid = None ∨ ∀ h, f_hist st !! s = Some h → cur_members h !! rid = None) ∧
      r_first n' = d_tick (f_db st) ∧
      ((∀ a fh, a ∈ l → f_hosts st !! a = Some fh → runs_on fh s rid = false) → r_tick n' = 0))) ∧
  (∀ a fh h, a ∈ l → plogs a = true → f_hosts st !! a = Some fh → d_hosts (f_db st') !! a = Some h →
     ∀ k, k ∈ h_plog h → is_Some (fh_reps fh !! k)) ∧
  (∀ b, is_Some (d_hosts (f_db st') !! b) → b ∈ l ∨ is_Some (d_hosts (f_db st) !! b)).
Proof.
  induction l as [|a l IH]; intros st st' HI HP Hnd Hl Hs.
  { cbn in Hs. injection Hs as <-. split; [|split].
    - intros s rid n' Hn'. left. exists n'. split; [done|]. split; [done|]. right. split; [|done]. intros a fh Hin. by apply elem_of_nil in Hin.
    - intros a fh h Hin. by apply elem_of_nil in Hin.
    - intros b Hb. by right. }
  apply NoDup_cons in Hnd as [Hnotin Hnd]. destruct (Hl a) as [fh Ha]; [left|].
  destruct (lostb_report L P st a fh (plogs a) HI HP Ha) as
    (st1 & E1 & [HI1 HP1] & _ & _ & _ & Hhi1 & _ & Ht1 & _ & _ & Hho1 & Hv1 & _ & _ & Hot1 & Htk1 & Hpl1 & Hkb1).
  rewrite bind_cons, steps_app, E1 in Hs.
  assert (Hl1 : ∀ a', a' ∈ l → is_Some (f_hosts st1 !! a')).
  { intros a' Hin'. rewrite Hho1. destruct (decide (a' = a)) as [->|Hne]; [by rewrite lookup_insert|]. rewrite lookup_insert_ne by done. apply Hl. by right. }
  assert (Hreps1 : ∀ a' fh', a' ≠ a → f_hosts st !! a' = Some fh' → f_hosts st1 !! a' = Some fh') by (intros a' fh' Hne Hfh'; rewrite Hho1; by rewrite lookup_insert_ne).
  destruct (IH st1 st' HI1 HP1 Hnd Hl1 Hs) as (Htk2 & Hpl2 & Hkb2).
  split; [|split].
  - intros s rid n2 Hn2.
    (* the runs of the tail, seen from st *)
    assert (Hrun_up : (∃ a' fh', a' ∈ l ∧ f_hosts st1 !! a' = Some fh' ∧ runs_on fh' s rid = true) →
                      ∃ a' fh', a' ∈ a :: l ∧ f_hosts st !! a' = Some fh' ∧ runs_on fh' s rid = true).
    { intros (a' & fh' & Hin' & Hfh' & Hrun'). assert (a' ≠ a) by (intros ->; done). rewrite Hho1, lookup_insert_ne in Hfh' by done.
      exists a', fh'. split; [by right|done]. }
    assert (Hnorun_up : runs_on fh s rid = false → (∀ a' fh', a' ∈ l → f_hosts st1 !! a' = Some fh' → runs_on fh' s rid = false) →
                      ∀ a' fh', a' ∈ a :: l → f_hosts st !! a' = Some fh' → runs_on fh' s rid = false).
    { intros Erun Hnone2 a' fh' Hin' Hfh'. apply elem_of_cons in Hin' as [->|Hin']; [congruence|].
      assert (a' ≠ a) by (intros ->; done). apply (Hnone2 a' fh' Hin'). by apply Hreps1. }
    assert (Hrun_a : runs_on fh s rid = true → ∃ a' fh', a' ∈ a :: l ∧ f_hosts st !! a' = Some fh' ∧ runs_on fh' s rid = true).
    { intros Erun. exists a, fh. split; [left|done]. }
    assert (Hnorun_dn : (∀ a' fh', a' ∈ a :: l → f_hosts st !! a' = Some fh' → runs_on fh' s rid = false) →
                        runs_on fh s rid = false ∧ ∀ a' fh', a' ∈ l → f_hosts st1 !! a' = Some fh' → runs_on fh' s rid = false).
    { intros Hno. split; [apply (Hno a fh); [left|done]|]. intros a' fh' Hin' Hfh'. assert (a' ≠ a) by (intros ->; done).
      rewrite Hho1, lookup_insert_ne in Hfh' by done. apply (Hno a' fh'); [by right|done]. }
    destruct (Htk2 s rid n2 Hn2) as [(n1 & Hn1 & Hf2 & Hcase2)|(Hnone1 & Hf2 & Hcase2)].
    + destruct (Htk1 s rid n1 Hn1) as [(n & Hn & Hf1 & Htk)|(Hnone & Hf1 & Htk)].
      * left. exists n. split; [done|]. split; [congruence|].
        destruct Hcase2 as [[Hr2 Ht2]|[Hnone2 Ht2]]; [left; split; [by apply Hrun_up|congruence]|].
        destruct (runs_on fh s rid) eqn:Erun; [left; split; [by apply Hrun_a|congruence]|right; split; [by apply Hnorun_up|congruence]].
      * right. split; [by left|]. split; [congruence|]. intros Hno. destruct (Hnorun_dn Hno) as [Erun Hno1].
        destruct Hcase2 as [[(a' & fh' & Hin' & Hfh' & Hrun') _]|[_ Ht2]]; [rewrite (Hno1 a' fh' Hin' Hfh') in Hrun'; done|].
        rewrite Erun in Htk. congruence.
    + right. rewrite Ht1 in Hf2. split; [|split; [done|]].
      * rewrite Hhi1 in Hnone1. destruct Hnone1 as [Hnone1|Hnc]; [|by right].
        destruct (rec_of (d_view (f_db st)) s rid) as [n|] eqn:En; [|by left]. right. intros h Hh.
        destruct (cur_members h !! rid) as [am|] eqn:Em; [|done]. exfalso.
        apply rec_of_Some in En as (c & Hc & Hk). destruct (Hv1 s h c Hh Hc) as (c' & Hc' & Hver & _).
        destruct (keep_rec st st1 s h c c' rid HI HI1 Hhi1 Hh Hc Hc' Hver ltac:(by eexists) ltac:(by eexists)) as [n1 Hk1].
        assert (rec_of (d_view (f_db st1)) s rid = Some n1) by (apply rec_of_Some; eauto). congruence.
      * intros Hno. destruct (Hnorun_dn Hno) as [_ Hno1]. by apply Hcase2.
  - intros a' fh' h Hin Hpl Hfh' Hh k Hk. apply elem_of_cons in Hin as [->|Hin].
    + assert (fh' = fh) as -> by congruence.
      (* the later reports keep the record of a *)
      assert (Hkeep : ∀ l0 stx stx', NoDup l0 → a ∉ l0 → LoopInv stx → MendL L (nonout stx) stx → (∀ a', a' ∈ l0 → is_Some (f_hosts stx !! a')) →
                steps P stx (l0 ≫= λ a, [ESnap a (plogs a); EDeliver a false]) = Some stx' →
                ∀ hx, d_hosts (f_db stx) !! a = Some hx → ∃ hx', d_hosts (f_db stx') !! a = Some hx' ∧ h_plog hx' = h_plog hx).
      { clear. induction l0 as [|b l0 IH0]; intros stx stx' Hnd Hna HIx HPx Hlx Hsx hx Hhx; [cbn in Hsx; injection Hsx as <-; by exists hx|].
        apply NoDup_cons in Hnd as [Hnb Hnd]. apply not_elem_of_cons in Hna as [Hab Hna]. destruct (Hlx b) as [fhb Hb]; [left|].
        destruct (lostb_report L P stx b fhb (plogs b) HIx HPx Hb) as (sty & Ey & [HIy HPy] & _ & _ & _ & _ & _ & _ & _ & _ & Hhoy & _ & _ & _ & Hoty & _).
        rewrite bind_cons, steps_app, Ey in Hsx. destruct (Hoty a hx Hab Hhx) as (hy & Hhy & _ & Hply).
        destruct (IH0 sty stx' Hnd Hna HIy HPy) with (hx := hy) as (hx' & Hhx' & Hplx'); [|done|done|].
        - intros a' Hin'. rewrite Hhoy. destruct (decide (a' = b)) as [->|Hne]; [by rewrite lookup_insert|]. rewrite lookup_insert_ne by done. apply Hlx. by right.
        - exists hx'. split; [done|]. congruence. }
      destruct (ml_hosts _ _ _ HP a fh Ha) as [_ _].
      assert (∃ h1, d_hosts (f_db st1) !! a = Some h1) as [h1 Hh1].
      { destruct (d_hosts (f_db st1) !! a) as [h1|] eqn:E; [by eexists|]. exfalso.
        destruct (Hkb2 a ltac:(by eexists)) as [?|[? ?]]; [done|congruence]. }
      destruct (Hkeep l st1 st' Hnd Hnotin HI1 HP1 Hl1 Hs h1 Hh1) as (h' & Hh' & Hpleq). assert (h' = h) as -> by congruence.
      rewrite Hpleq in Hk. by apply (Hpl1 Hpl h1 Hh1 k).
    + assert (a' ≠ a) by (intros ->; done). apply (Hpl2 a' fh' h Hin Hpl); [by apply Hreps1|done|done].
  - intros b Hb. destruct (Hkb2 b Hb) as [?|Hb1]; [left; by right|]. destruct (Hkb1 b Hb1) as [->|?]; [left; left|by right].
Qed.

(** ** the execution phase when a join-CREATE for the new member is pending *)
Lemma exec_all_newj h ccok (s0 x : N) qs : ∀ y y',
  exec_all h ccok y qs = Some y' → Forall (λ q, is_create q = true → is_restore q = true ∨ (q_shard q, q_inst q) = (s0, x)) qs →
  ∀ a fh' k, y'.1 !! a = Some fh' → is_Some (fh_reps fh' !! k) → (∃ fh, y.1 !! a = Some fh ∧ is_Some (fh_reps fh !! k)) ∨ k = (s0, x).
Proof.
  induction qs as [|q qs IH]; intros y y' E Hall a fh' k Ha Hk; cbn [exec_all] in E; [injection E as <-; left; by exists fh'|].
  destruct (exec_req h ccok y q) as [y1|] eqn:E1; [|done]. apply Forall_cons_1 in Hall as [Hq Hall].
  destruct (IH y1 y' E Hall a fh' k Ha Hk) as [(fh1 & Hfh1 & Hk1)|?]; [|by right].
  destruct (exec_req_keys h ccok y q y1 E1) as [_ Hkeys]. destruct (Hkeys a fh1 k Hfh1 Hk1) as [?|[Hc ->]]; [by left|].
  destruct (Hq Hc) as [Hr|?]; [|by right]. left. apply (exec_req_nonew h ccok y q y1 E1 (λ _, Hr) a fh1 _ Hfh1 Hk1).
Qed.

Definition pendJ (s0 x : N) (st : fstate) (a : N) (q : request) : Prop :=
  pendI st a q ∨ (good_join (f_hist st) a q ∧ q_shard q = s0 ∧ q_inst q = x ∧ is_Some (f_hosts st !! a)).
Definition jinert (s0 x : N) (st : fstate) : Prop := ∀ a q, nonout st a q → pendJ s0 x st a q.

Lemma join_exec_event s0 x st a st' :
  LostX L st → jinert s0 x st → fstep P st (EExec a true) = FOk st' →
  f_hist st' = f_hist st ∧
  (∀ b s rid, mkey (f_hist st) (s, rid) → member_running (f_hosts st) s rid b = true → member_running (f_hosts st') s rid b = true) ∧
  (∀ b fh' k, f_hosts st' !! b = Some fh' → is_Some (fh_reps fh' !! k) → (∃ fh, f_hosts st !! b = Some fh ∧ is_Some (fh_reps fh !! k)) ∨ k = (s0, x)) ∧
  jinert s0 x st' ∧
  (∀ q, q ∈ default [] (fh_queue <$> f_hosts st !! a) → good_join (f_hist st) a q → member_running (f_hosts st') (q_shard q) (q_inst q) a = true).
Proof.
  intros HX Hin E. pose proof (lostx_exec L P st a st' HX E) as (_ & Hdb & Hq).
  destruct st as [d hosts hist seen]. destruct HX as [(HI & HP & Hoh) Hnc]. cbn [fstep f_db f_hosts f_hist f_seen] in *.
  destruct (hosts !! a) as [fh|] eqn:Ha; [|done]. destruct (ml_hosts _ _ _ HP a fh Ha) as [Hup Hout]. cbn [f_hosts] in Hup. rewrite Hup in E.
  set (hosts0 := <[a := mkFHost true (fh_region fh) (fh_reps fh) [] (fh_out fh)]> hosts) in *.
  destruct (exec_all a true (hosts0, hist) (fh_queue fh)) as [x1|] eqn:Ex; [|done]. injection E as <-. cbn [f_hist f_hosts f_db] in *.
  set (st := mkF d hosts hist seen) in *.
  pose proof (exec_start st a fh HI Ha) as HI0. cbn [f_db f_hosts f_hist f_seen st] in HI0. fold hosts0 in HI0.
  assert (HP0 : MendL L (nonout st) (mkF d hosts0 hist seen)).
  { apply (ml_same_reps L _ d hosts hosts0 hist seen); [|exact HP]. intros b. unfold hosts0. destruct (decide (b = a)) as [->|Hne].
    - rewrite Ha, lookup_insert. eexists. split; [done|]. cbn. done.
    - rewrite lookup_insert_ne by done. destruct (hosts !! b) as [fhb|] eqn:Hb; [|done]. exists fhb. split; [done|]. split; [done|].
      apply (ml_hosts _ _ _ HP b fhb Hb). }
  pose proof (xb_hm _ _ _ (ml_xb L (nonout st) d hosts0 hist seen _ HI0 HP0)) as HH0. cbn [fst snd] in HH0.
  assert (Hgood : Forall (mharmless hist a) (fh_queue fh)).
  { apply Forall_forall. intros q Hq0. destruct (Hin a q) as [[Hm _]|(Hg & _)]; [right; exists fh; done|done|by right; left]. }
  destruct (mexec_all (shard_size d) hist a (fh_queue fh) (hosts0, hist) (li_hist _ _ _ _ _ HI) eq_refl HH0 Hgood) as (x' & Ex' & Hx2 & _ & Hev & _ & Hjn).
  { cbn. unfold hosts0. rewrite lookup_insert. by eexists. }
  assert (x' = x1) as -> by congruence. cbn [fst snd] in Hev.
  split; [done|]. split; [|split; [|split]].
  - intros b s rid Hmk Hrun. apply (grows_running hist hosts0 x1.1 s rid b Hev Hmk).
    unfold member_running in *. unfold hosts0. destruct (decide (b = a)) as [->|Hne]; [rewrite lookup_insert; rewrite Ha, Hup in Hrun; exact Hrun|by rewrite lookup_insert_ne].
  - intros b fh' k Hb Hk.
    destruct (exec_all_newj a true s0 x (fh_queue fh) (hosts0, hist) x1 Ex) with (a := b) (fh' := fh') (k := k) as [(fh0 & Hfh0 & Hk0)|?]; [|done|done| |by right].
    + apply Forall_forall. intros q Hq0 Hcq. destruct (Hin a q) as [[_ Hc]|(_ & Hs & Hi & _)]; [right; exists fh; done|left; by destruct (Hc Hcq)|right; by rewrite Hs, Hi].
    + left. cbn [fst] in Hfh0. unfold hosts0 in Hfh0. destruct (decide (b = a)) as [->|Hne].
      * rewrite lookup_insert in Hfh0. injection Hfh0 as <-. by exists fh.
      * rewrite lookup_insert_ne in Hfh0 by done. by exists fh0.
  - intros b q Hq0.
    assert (Hsub : nonout st b q).
    { destruct Hq0 as [Hq0|(fh' & Hb & Hinq)]; [by left|].
      cbn [f_hosts] in Hb. specialize (Hq b). cbn [f_hosts] in Hq. destruct (hosts !! b) as [fhb|] eqn:Hbb; [|congruence].
      destruct Hq as (fh2 & Hfh2 & Hq2). assert (fh2 = fh') as -> by congruence. rewrite Hq2 in Hinq.
      destruct (decide (b = a)); [by apply elem_of_nil in Hinq|]. right. by exists fhb. }
    assert (Hdomb : is_Some (hosts !! b) → is_Some (x1.1 !! b)).
    { intros [fhb Hb]. specialize (Hq b). cbn [f_hosts st] in Hq. rewrite Hb in Hq. destruct Hq as (fh2 & -> & _). by eexists. }
    destruct (Hin b q Hsub) as [[Hm Hc]|(Hg & Hs & Hi & Hhost)]; unfold pendJ, pendI; cbn [f_hist f_hosts]; rewrite Hx2.
    + left. split; [done|]. intros Hcq. destruct (Hc Hcq) as [Hr Hb]. split; [done|]. by apply Hdomb.
    + right. split; [done|]. split; [done|]. split; [done|]. by apply Hdomb.
  - intros q Hq0 Hg. apply (Hjn q Hq0 Hg).
Qed.

(* the part of a round before Drummer's tick, from any state of class LostB in which every pending request is a
   leftover or a restore: every view entry becomes current, no membership changes, replicas keep running *)
Lemma inert_pre st plogs nticks st4 :
  LostB L st → inert st → (∀ a, plogs a = true) → pre_schedule P plogs nticks st = Some st4 →
  LostX L st4 ∧ inert st4 ∧ all_current st4 ∧ f_hist st4 = f_hist st ∧
  d_tick (f_db st4) = d_tick (f_db st) + N.of_nat nticks * p_step P ∧ d_shards (f_db st4) = d_shards (f_db st) ∧
  (∀ s rid n', rec_of (d_view (f_db st4)) s rid = Some n' →
     (∃ n, rec_of (d_view (f_db st)) s rid = Some n ∧ r_first n' = r_first n ∧
        (((∃ a fh, f_hosts st !! a = Some fh ∧ runs_on fh s rid = true) ∧ r_tick n' = d_tick (f_db st)) ∨
         ((∀ a fh, f_hosts st !! a = Some fh → runs_on fh s rid = false) ∧ r_tick n' = r_tick n))) ∨
     ((rec_of (d_view (f_db st)) s rid = None ∨ ∀ h, f_hist st !! s = Some h → cur_members h !! rid = None) ∧
      r_first n' = d_tick (f_db st) ∧
      ((∀ a fh, f_hosts st !! a = Some fh → runs_on fh s rid = false) → r_tick n' = 0))) ∧
  (∀ a fh h, f_hosts st !! a = Some fh → d_hosts (f_db st4) !! a = Some h → ∀ k, k ∈ h_plog h → is_Some (fh_reps fh !! k)) ∧
  (∀ b, is_Some (d_hosts (f_db st4) !! b) → is_Some (f_hosts st !! b) ∨ is_Some (d_hosts (f_db st) !! b)) ∧
  (∀ b s rid, mkey (f_hist st) (s, rid) → member_running (f_hosts st) s rid b = true → member_running (f_hosts st4) s rid b = true) ∧
  (∀ b fh4 k, f_hosts st4 !! b = Some fh4 → is_Some (fh_reps fh4 !! k) → ∃ fh, f_hosts st !! b = Some fh ∧ is_Some (fh_reps fh !! k)) ∧
  (∀ b, is_Some (f_hosts st4 !! b) ↔ is_Some (f_hosts st !! b)) ∧
  (∀ a q, nonout st4 a q → f_hosts st4 !! a = None).
Proof.
  intros (HI & HP & Hoh) Hin Hpl. unfold pre_schedule. set (t := d_tick (f_db st)).
  assert (Hl : ∀ a, a ∈ host_addrs st → is_Some (f_hosts st !! a)) by (intros a; apply host_addrs_elem).
  destruct (lostb_reports L P plogs (host_addrs st) st HI HP (host_addrs_nodup st) Hl) as
    (st1 & E1 & [HI1 HP1] & Ho1a & Ho1b & Hsub1 & Hhi1 & Hse1 & Ht1 & Hsh1 & Hho1 & Hho1' & Hv1 & Hst1 & Hsp1 & Hot1).
  pose proof (reports_recs plogs (host_addrs st) st st1 HI HP (host_addrs_nodup st) Hl E1) as (Htk & Hplog & Hkeys).
  pose proof (lostb_reports_requests L P plogs (host_addrs st) st st1 HI HP (host_addrs_nodup st) Hl E1) as Hrq1.
  rewrite E1.
  assert (Hdom1 : ∀ a, is_Some (f_hosts st1 !! a) ↔ is_Some (f_hosts st !! a)).
  { intros a. destruct (f_hosts st !! a) as [fh|] eqn:Ha.
    - destruct (Hho1 a fh) as (fh' & -> & _); [apply host_addrs_elem; by eexists|done|]. split; intros _; by eexists.
    - rewrite Hho1', Ha; [done|]. intros Hin0. apply host_addrs_elem in Hin0. rewrite Ha in Hin0. by destruct Hin0. }
  assert (Hcur1 : all_current st1).
  { intros s h c1 Hh1 Hc1. rewrite Hhi1 in Hh1. destruct (ml_members _ _ _ HP s h Hh1) as (c & Hc & Hcase & _).
    destruct (Hv1 s h c Hh1 Hc) as (c' & Hc' & _ & Hkeep & Hup). assert (c' = c1) as -> by congruence.
    destruct Hcase as [Hcc|(v & M & M' & x & rest & Hb)]; [by apply Hkeep|]. apply Hup.
    destruct (ml_behind _ _ _ HP s h c v M M' x rest Hh1 Hc Hb) as (_ & _ & a & fh & rid & lr & Hfh & Hk & Hrun & Hver).
    exists a, fh, rid, lr. split; [apply host_addrs_elem; by eexists|]. split; [done|]. split; [done|]. split; [done|].
    destruct Hb as (-> & _). by rewrite Hver. }
  assert (HX1 : LostX L st1).
  { split; [split; [done|split; [done|]]|].
    - intros a Ha. apply Hdom1. destruct (decide (a ∈ host_addrs st)) as [Hin0|Hnin]; [by apply host_addrs_elem|].
      apply Hoh. rewrite <- (Ho1b a Hnin). exact Ha.
    - intros s h c v M M' x rest Hh Hc Hb. exfalso. pose proof (Hcur1 s h c Hh Hc) as Hcc. destruct Hb as (-> & Hv & _). cbn in Hcc. lia. }
  assert (Hin1 : inert st1).
  { intros a q Hq. destruct (Hin a q (Hsub1 a q Hq)) as [Hm Hc]. rewrite Hhi1. split; [done|]. intros Hcq. destruct (Hc Hcq) as [? ?]. split; [done|]. by apply Hdom1. }
  (* the NodeHosts execute *)
  destruct (steps P st1 ((λ a, EExec a true) <$> host_addrs st1)) as [st2|] eqn:E2; [|done].
  destruct (lostx_execs L P (host_addrs st1) st1 st2 HX1 E2) as (HX2 & Hd2 & Hq2).
  pose proof (steps_pres P (λ stx, LostX L stx ∧ inert stx ∧ f_hist stx = f_hist st1 ∧
      (∀ b s rid, mkey (f_hist st1) (s, rid) → member_running (f_hosts st1) s rid b = true → member_running (f_hosts stx) s rid b = true) ∧
      (∀ b fh' k, f_hosts stx !! b = Some fh' → is_Some (fh_reps fh' !! k) → ∃ fh, f_hosts st1 !! b = Some fh ∧ is_Some (fh_reps fh !! k)))
      ((λ a, EExec a true) <$> host_addrs st1)) as Hex.
  destruct (Hex) with (st := st1) (st' := st2) as (_ & Hin2 & Hhi2 & Hrun2 & Hk2); [| |done|].
  { intros stx ev sty Hev (HXx & Hinx & Hhx & Hrx & Hkx) E. apply elem_of_list_fmap in Hev as (a & -> & _).
    destruct (lost_exec_event L P stx a sty HXx Hinx E) as (Hh & Hr & Hk & Hi). pose proof (lostx_exec L P stx a sty HXx E) as (HXy & _).
    split; [done|]. split; [done|]. split; [congruence|]. split.
    - intros b s rid Hmk Hrb. apply Hr; [by rewrite Hhx|]. by apply Hrx.
    - intros b fh' k Hb Hkk. destruct (Hk b fh' k Hb Hkk) as (fh0 & Hfh0 & Hk0). by apply (Hkx b fh0 k). }
  { split; [done|]. split; [done|]. split; [done|]. split; [done|]. intros b fh' k Hb Hkk. by exists fh'. }
  clear Hex.
  (* Raft catches up *)
  destruct (steps P st2 (catch_up_events st2)) as [st3|] eqn:E3; [|done].
  destruct (lostx_learns L P st2 st3 HX2 E3) as (HX3 & Hd3 & Hhi3 & Hf3).
  pose proof (steps_pres P (λ stx, LostX L stx ∧ f_hist stx = f_hist st2 ∧
      (∀ b s rid, member_running (f_hosts st2) s rid b = true → member_running (f_hosts stx) s rid b = true) ∧
      (∀ b fh' k, f_hosts stx !! b = Some fh' → is_Some (fh_reps fh' !! k) → ∃ fh, f_hosts st2 !! b = Some fh ∧ is_Some (fh_reps fh !! k)))
      (catch_up_events st2)) as Hex.
  destruct (Hex) with (st := st2) (st' := st3) as (_ & _ & Hrun3 & Hk3); [| |done|].
  { intros stx ev sty Hev (HXx & Hhx & Hrx & Hkx) E. apply catch_up_members in Hev as (a & s & r & v & -> & Hm). rewrite <- Hhx in Hm.
    destruct (lostx_learn L P stx a s r v sty HXx Hm E) as (HXy & _ & Hhy & _).
    destruct HXx as [(HIx & _) _]. destruct (learn_frame P stx a s r v sty HIx Hm E) as (Hr & Hk).
    split; [done|]. split; [congruence|]. split.
    - intros b s0 rid Hrb. apply Hr. by apply Hrx.
    - intros b fh' k Hb Hkk. destruct (Hk b fh' k Hb Hkk) as (fh0 & Hfh0 & Hk0). by apply (Hkx b fh0 k). }
  { split; [done|]. split; [done|]. split; [done|]. intros b fh' k Hb Hkk. by exists fh'. }
  clear Hex.
  (* time passes *)
  destruct (steps P st3 (replicate nticks ETick)) as [st4'|] eqn:E4; [|done]. intros [= ->].
  destruct (lostx_ticks L P nticks st3 st4 HX3 E4) as (HX4 & Hd4 & Hho4 & Hhi4).
  set (T := d_tick (f_db st1) + N.of_nat nticks * p_step P).
  assert (Hdb : f_db st4 = set_tick (f_db st1) T) by (rewrite Hd4, Hd3, Hd2; done).
  assert (Hhist4 : f_hist st4 = f_hist st) by congruence.
  assert (Hdom4 : ∀ b, is_Some (f_hosts st4 !! b) ↔ is_Some (f_hosts st !! b)).
  { intros b. rewrite Hho4, <- Hdom1. specialize (Hq2 b). specialize (Hf3 b). destruct (f_hosts st1 !! b) as [fh1|].
    - destruct Hq2 as (fh2 & Hfh2 & _). rewrite Hfh2 in Hf3. destruct Hf3 as (fh3 & -> & _). split; intros _; by eexists.
    - rewrite Hq2 in Hf3. rewrite Hf3. done. }
  assert (Hview4 : d_view (f_db st4) = d_view (f_db st1)) by (by rewrite Hdb).
  assert (Hkeys4 : ∀ b fh4 k, f_hosts st4 !! b = Some fh4 → is_Some (fh_reps fh4 !! k) → ∃ fh, f_hosts st !! b = Some fh ∧ is_Some (fh_reps fh !! k)).
  { intros b fh4 k Hb Hk. rewrite Hho4 in Hb. destruct (Hk3 b fh4 k Hb Hk) as (fh2 & Hfh2 & Hkk2). destruct (Hk2 b fh2 k Hfh2 Hkk2) as (fh1 & Hfh1 & Hkk1).
    destruct (f_hosts st !! b) as [fh|] eqn:Hfb.
    - destruct (Hho1 b fh) as (fh1' & Hfh1' & Hr1); [apply host_addrs_elem; by eexists|done|]. assert (fh1' = fh1) as -> by congruence. exists fh. by rewrite <- Hr1.
    - exfalso. assert (is_Some (f_hosts st !! b)) as [? ?] by (apply Hdom1; by eexists). congruence. }
  split; [done|].
  assert (Hin4 : inert st4).
  { intros a q Hq. assert (Hq2' : nonout st2 a q).
    { destruct Hq as [(qs & Hl0 & Hi0)|(fh4 & Hl0 & Hi0)].
      - left. exists qs. rewrite Hd4, Hd3 in Hl0. done.
      - right. rewrite Hho4 in Hl0. specialize (Hf3 a). destruct (f_hosts st2 !! a) as [fh2|]; [|congruence]. destruct Hf3 as (fh3 & Hfh3 & Hq3).
        assert (fh3 = fh4) as -> by congruence. exists fh2. split; [done|]. by rewrite <- Hq3. }
    destruct (Hin2 a q Hq2') as [Hm Hc]. rewrite Hhi4, Hhi3. split; [done|]. intros Hcq. destruct (Hc Hcq) as [? [fh2 Hfh2]]. split; [done|].
    rewrite Hho4. specialize (Hf3 a). rewrite Hfh2 in Hf3. destruct Hf3 as (fh3 & -> & _). by eexists. }
  split; [done|].
  split. { intros s h c Hh Hc. rewrite Hview4 in Hc. rewrite Hhi4, Hhi3, Hhi2 in Hh. by apply (Hcur1 s). }
  split; [done|]. split. { rewrite Hdb. cbn [set_tick d_tick]. unfold T. by rewrite Ht1. }
  split; [rewrite Hdb; cbn [set_tick d_shards]; exact Hsh1|].
  split.
  { intros s rid n' Hn'. rewrite Hview4 in Hn'. destruct (Htk s rid n' Hn') as [(n & Hn & Hf & Hcase)|(Hnone & Hf & Hcase)].
    - left. exists n. split; [done|]. split; [done|]. destruct Hcase as [[(a & fh & _ & Hfh & Hro) Htn]|[Hno Htn]].
      + left. split; [by exists a, fh|done].
      + right. split; [|done]. intros a fh Hfh. apply (Hno a fh); [apply host_addrs_elem; by eexists|done].
    - right. split; [done|]. split; [done|]. intros Hno. apply Hcase. intros a fh _ Hfh. by apply (Hno a fh). }
  split.
  { intros a fh h Hfh Hh k Hk. rewrite Hdb in Hh. cbn [set_tick d_hosts] in Hh. apply (Hplog a fh h); [apply host_addrs_elem; by eexists|apply Hpl|done|done|done]. }
  split.
  { intros b Hb. rewrite Hdb in Hb. cbn [set_tick d_hosts] in Hb. destruct (Hkeys b Hb) as [Hinb|Hold]; [left; by apply host_addrs_elem|by right]. }
  split.
  { intros b s rid Hmk Hrb. rewrite Hho4. apply Hrun3, Hrun2; [by rewrite Hhi1|].
    apply running_runs_on in Hrb as (fh & Hfh & Hro).
    destruct (Hho1 b fh) as (fh1 & Hfh1 & Hr1); [apply host_addrs_elem; by eexists|done|].
    unfold member_running. rewrite Hfh1. destruct (ml_hosts _ _ _ HP1 b fh1 Hfh1) as [-> _]. cbn. unfold runs_on in Hro. by rewrite Hr1. }
  split; [exact Hkeys4|]. split; [exact Hdom4|].
  (* nothing is pending for a NodeHost *)
  intros a q Hq. destruct (f_hosts st4 !! a) as [fh4|] eqn:Ha4; [|done]. exfalso.
  rewrite Hho4 in Ha4. specialize (Hf3 a). specialize (Hq2 a).
  destruct (f_hosts st2 !! a) as [fh2|] eqn:Ha2; [|congruence]. destruct Hf3 as (fh3 & Hfh3 & Hq3). assert (fh3 = fh4) as -> by congruence.
  destruct (f_hosts st1 !! a) as [fh1|] eqn:Ha1; [|congruence]. destruct Hq2 as (fh2' & Hfh2' & Hqq2). assert (fh2' = fh2) as -> by congruence.
  assert (Hin1' : a ∈ host_addrs st1) by (apply host_addrs_elem; by eexists).
  assert (Hin0 : a ∈ host_addrs st) by (apply host_addrs_elem, Hdom1; by eexists).
  rewrite decide_True in Hqq2 by done.
  destruct Hq as [(qs & Hl0 & _)|(fh & Hl0 & Hinq)].
  - rewrite Hdb in Hl0. cbn [set_tick d_requests] in Hl0. rewrite (Hrq1 a Hin0) in Hl0. done.
  - rewrite Hho4, Hfh3 in Hl0. injection Hl0 as <-. rewrite Hq3, Hqq2 in Hinq. by apply elem_of_nil in Hinq.
Qed.

Lemma join_execs s0 x (l : list N) : ∀ st st',
  LostX L st → jinert s0 x st → NoDup l → steps P st ((λ a, EExec a true) <$> l) = Some st' →
  jinert s0 x st' ∧ f_hist st' = f_hist st ∧
  (∀ b s rid, mkey (f_hist st) (s, rid) → member_running (f_hosts st) s rid b = true → member_running (f_hosts st') s rid b = true) ∧
  (∀ b fh' k, f_hosts st' !! b = Some fh' → is_Some (fh_reps fh' !! k) → (∃ fh, f_hosts st !! b = Some fh ∧ is_Some (fh_reps fh !! k)) ∨ k = (s0, x)) ∧
  (∀ a q fh, a ∈ l → f_hosts st !! a = Some fh → q ∈ fh_queue fh → good_join (f_hist st) a q →
     member_running (f_hosts st') (q_shard q) (q_inst q) a = true).
Proof.
  induction l as [|a l IH]; intros st st' HX Hin Hnd Hs.
  { cbn in Hs. injection Hs as <-. split; [done|]. split; [done|]. split; [done|]. split; [intros b fh' k Hb Hk; left; by exists fh'|].
    intros a q fh Hi. by apply elem_of_nil in Hi. }
  apply NoDup_cons in Hnd as [Hnin Hnd]. rewrite fmap_cons in Hs. cbn [steps] in Hs.
  destruct (fstep P st (EExec a true)) as [st1| |] eqn:E1; [| |done].
  - destruct (join_exec_event s0 x st a st1 HX Hin E1) as (Hh1 & Hr1 & Hk1 & Hin1 & Hj1).
    destruct (lostx_exec L P st a st1 HX E1) as (HX1 & _ & Hq1).
    destruct (IH st1 st' HX1 Hin1 Hnd Hs) as (Hin' & Hh2 & Hr2 & Hk2 & Hj2).
    split; [done|]. split; [congruence|]. split; [|split].
    + intros b s rid Hmk Hrb. apply Hr2; [by rewrite Hh1|]. by apply Hr1.
    + intros b fh' k Hb Hk. destruct (Hk2 b fh' k Hb Hk) as [(fh1 & Hfh1 & Hkk1)|?]; [|by right]. by apply (Hk1 b fh1 k).
    + intros b q fh Hi Hfh Hq Hg. apply elem_of_cons in Hi as [->|Hi].
      * apply Hr2; [rewrite Hh1; by apply (good_join_mkey _ a q)|]. apply Hj1; [by rewrite Hfh|done].
      * specialize (Hq1 b). rewrite Hfh in Hq1. destruct Hq1 as (fh1 & Hfh1 & Hqq). rewrite decide_False in Hqq by (intros ->; done).
        apply (Hj2 b q fh1 Hi Hfh1); [by rewrite Hqq|by rewrite Hh1].
  - destruct (IH st st' HX Hin Hnd Hs) as (Hin' & Hh2 & Hr2 & Hk2 & Hj2). split; [done|]. split; [done|]. split; [done|]. split; [done|].
    intros b q fh Hi Hfh Hq Hg. apply elem_of_cons in Hi as [->|Hi]; [|by apply (Hj2 b q fh)]. exfalso.
    cbn [fstep] in E1. rewrite Hfh in E1. destruct HX as [(_ & HP & _) _]. destruct (ml_hosts _ _ _ HP a fh Hfh) as [Hup _]. rewrite Hup in E1.
    by destruct (exec_all _ _ _ _).
Qed.

Lemma jinert_pre s0 x st plogs nticks st4 :
  LostB L st → all_current st → jinert s0 x st → (∀ a, plogs a = true) → pre_schedule P plogs nticks st = Some st4 →
  LostX L st4 ∧ jinert s0 x st4 ∧ all_current st4 ∧ f_hist st4 = f_hist st ∧
  d_tick (f_db st4) = d_tick (f_db st) + N.of_nat nticks * p_step P ∧ d_shards (f_db st4) = d_shards (f_db st) ∧
  (∀ s rid n', rec_of (d_view (f_db st4)) s rid = Some n' →
     (∃ n, rec_of (d_view (f_db st)) s rid = Some n ∧ r_first n' = r_first n ∧
        (((∃ a fh, f_hosts st !! a = Some fh ∧ runs_on fh s rid = true) ∧ r_tick n' = d_tick (f_db st)) ∨
         ((∀ a fh, f_hosts st !! a = Some fh → runs_on fh s rid = false) ∧ r_tick n' = r_tick n))) ∨
     ((rec_of (d_view (f_db st)) s rid = None ∨ ∀ h, f_hist st !! s = Some h → cur_members h !! rid = None) ∧
      r_first n' = d_tick (f_db st) ∧
      ((∀ a fh, f_hosts st !! a = Some fh → runs_on fh s rid = false) → r_tick n' = 0))) ∧
  (∀ a fh h, f_hosts st !! a = Some fh → d_hosts (f_db st4) !! a = Some h → ∀ k, k ∈ h_plog h → is_Some (fh_reps fh !! k)) ∧
  (∀ b, is_Some (d_hosts (f_db st4) !! b) → is_Some (f_hosts st !! b) ∨ is_Some (d_hosts (f_db st) !! b)) ∧
  (∀ b s rid, mkey (f_hist st) (s, rid) → member_running (f_hosts st) s rid b = true → member_running (f_hosts st4) s rid b = true) ∧
  (∀ b fh4 k, f_hosts st4 !! b = Some fh4 → is_Some (fh_reps fh4 !! k) → (∃ fh, f_hosts st !! b = Some fh ∧ is_Some (fh_reps fh !! k)) ∨ k = (s0, x)) ∧
  (∀ b, is_Some (f_hosts st4 !! b) ↔ is_Some (f_hosts st !! b)) ∧
  (∀ a q, nonout st4 a q → f_hosts st4 !! a = None).
Proof.
  intros (HI & HP & Hoh) Hcur0 Hin Hpl. unfold pre_schedule. set (t := d_tick (f_db st)).
  assert (Hl : ∀ a, a ∈ host_addrs st → is_Some (f_hosts st !! a)) by (intros a; apply host_addrs_elem).
  destruct (lostb_reports L P plogs (host_addrs st) st HI HP (host_addrs_nodup st) Hl) as
    (st1 & E1 & [HI1 HP1] & Ho1a & Ho1b & Hsub1 & Hhi1 & Hse1 & Ht1 & Hsh1 & Hho1 & Hho1' & Hv1 & Hst1 & Hsp1 & Hot1).
  pose proof (reports_recs plogs (host_addrs st) st st1 HI HP (host_addrs_nodup st) Hl E1) as (Htk & Hplog & Hkeys).
  pose proof (lostb_reports_requests L P plogs (host_addrs st) st st1 HI HP (host_addrs_nodup st) Hl E1) as Hrq1.
  rewrite E1.
  assert (Hdom1 : ∀ a, is_Some (f_hosts st1 !! a) ↔ is_Some (f_hosts st !! a)).
  { intros a. destruct (f_hosts st !! a) as [fh|] eqn:Ha.
    - destruct (Hho1 a fh) as (fh' & -> & _); [apply host_addrs_elem; by eexists|done|]. split; intros _; by eexists.
    - rewrite Hho1', Ha; [done|]. intros Hin0. apply host_addrs_elem in Hin0. rewrite Ha in Hin0. by destruct Hin0. }
  assert (Hcur1 : all_current st1).
  { intros s h c1 Hh1 Hc1. rewrite Hhi1 in Hh1. destruct (ml_members _ _ _ HP s h Hh1) as (c & Hc & Hcase & _).
    destruct (Hv1 s h c Hh1 Hc) as (c' & Hc' & _ & Hkeep & Hup). assert (c' = c1) as -> by congruence.
    destruct Hcase as [Hcc|(v & M & M' & x9 & rest & Hb)]; [by apply Hkeep|]. apply Hup.
    destruct (ml_behind _ _ _ HP s h c v M M' x9 rest Hh1 Hc Hb) as (_ & _ & a & fh & rid & lr & Hfh & Hk & Hrun & Hver).
    exists a, fh, rid, lr. split; [apply host_addrs_elem; by eexists|]. split; [done|]. split; [done|]. split; [done|].
    destruct Hb as (-> & _). by rewrite Hver. }
  assert (HX1 : LostX L st1).
  { split; [split; [done|split; [done|]]|].
    - intros a Ha. apply Hdom1. destruct (decide (a ∈ host_addrs st)) as [Hin0|Hnin]; [by apply host_addrs_elem|].
      apply Hoh. rewrite <- (Ho1b a Hnin). exact Ha.
    - intros s h c v M M' x9 rest Hh Hc Hb. exfalso. pose proof (Hcur1 s h c Hh Hc) as Hcc. destruct Hb as (-> & Hv & _). cbn in Hcc. lia. }
  assert (Hin1 : jinert s0 x st1).
  { intros a q Hq. unfold pendJ, pendI. rewrite Hhi1. destruct (Hin a q (Hsub1 a q Hq)) as [[Hm Hc]|(Hg & Hs & Hi & Hhost)].
    - left. split; [done|]. intros Hcq. destruct (Hc Hcq) as [? ?]. split; [done|]. by apply Hdom1.
    - right. split; [done|]. split; [done|]. split; [done|]. by apply Hdom1. }
  (* the NodeHosts execute *)
  destruct (steps P st1 ((λ a, EExec a true) <$> host_addrs st1)) as [st2|] eqn:E2; [|done].
  destruct (lostx_execs L P (host_addrs st1) st1 st2 HX1 E2) as (HX2 & Hd2 & Hq2).
  destruct (join_execs s0 x (host_addrs st1) st1 st2 HX1 Hin1 (host_addrs_nodup st1) E2) as (Hin2 & Hhi2 & Hrun2 & Hk2 & Hj2).
  (* Raft catches up *)
  destruct (steps P st2 (catch_up_events st2)) as [st3|] eqn:E3; [|done].
  destruct (lostx_learns L P st2 st3 HX2 E3) as (HX3 & Hd3 & Hhi3 & Hf3).
  pose proof (steps_pres P (λ stx, LostX L stx ∧ f_hist stx = f_hist st2 ∧
      (∀ b s rid, member_running (f_hosts st2) s rid b = true → member_running (f_hosts stx) s rid b = true) ∧
      (∀ b fh' k, f_hosts stx !! b = Some fh' → is_Some (fh_reps fh' !! k) → ∃ fh, f_hosts st2 !! b = Some fh ∧ is_Some (fh_reps fh !! k)))
      (catch_up_events st2)) as Hex.
  destruct (Hex) with (st := st2) (st' := st3) as (_ & _ & Hrun3 & Hk3); [| |done|].
  { intros stx ev sty Hev (HXx & Hhx & Hrx & Hkx) E. apply catch_up_members in Hev as (a & s & r & v & -> & Hm). rewrite <- Hhx in Hm.
    destruct (lostx_learn L P stx a s r v sty HXx Hm E) as (HXy & _ & Hhy & _).
    destruct HXx as [(HIx & _) _]. destruct (learn_frame P stx a s r v sty HIx Hm E) as (Hr & Hk).
    split; [done|]. split; [congruence|]. split.
    - intros b s9 rid Hrb. apply Hr. by apply Hrx.
    - intros b fh' k Hb Hkk. destruct (Hk b fh' k Hb Hkk) as (fh0 & Hfh0 & Hk0). by apply (Hkx b fh0 k). }
  { split; [done|]. split; [done|]. split; [done|]. intros b fh' k Hb Hkk. by exists fh'. }
  clear Hex.
  (* time passes *)
  destruct (steps P st3 (replicate nticks ETick)) as [st4'|] eqn:E4; [|done]. intros [= ->].
  destruct (lostx_ticks L P nticks st3 st4 HX3 E4) as (HX4 & Hd4 & Hho4 & Hhi4).
  set (T := d_tick (f_db st1) + N.of_nat nticks * p_step P).
  assert (Hdb : f_db st4 = set_tick (f_db st1) T) by (rewrite Hd4, Hd3, Hd2; done).
  assert (Hhist4 : f_hist st4 = f_hist st) by congruence.
  assert (Hdom4 : ∀ b, is_Some (f_hosts st4 !! b) ↔ is_Some (f_hosts st !! b)).
  { intros b. rewrite Hho4, <- Hdom1. specialize (Hq2 b). specialize (Hf3 b). destruct (f_hosts st1 !! b) as [fh1|].
    - destruct Hq2 as (fh2 & Hfh2 & _). rewrite Hfh2 in Hf3. destruct Hf3 as (fh3 & -> & _). split; intros _; by eexists.
    - rewrite Hq2 in Hf3. rewrite Hf3. done. }
  assert (Hview4 : d_view (f_db st4) = d_view (f_db st1)) by (by rewrite Hdb).
  assert (Hkeys4 : ∀ b fh4 k, f_hosts st4 !! b = Some fh4 → is_Some (fh_reps fh4 !! k) → (∃ fh, f_hosts st !! b = Some fh ∧ is_Some (fh_reps fh !! k)) ∨ k = (s0, x)).
  { intros b fh4 k Hb Hk. rewrite Hho4 in Hb. destruct (Hk3 b fh4 k Hb Hk) as (fh2 & Hfh2 & Hkk2). destruct (Hk2 b fh2 k Hfh2 Hkk2) as [(fh1 & Hfh1 & Hkk1)|?]; [|by right]. left.
    destruct (f_hosts st !! b) as [fh|] eqn:Hfb.
    - destruct (Hho1 b fh) as (fh1' & Hfh1' & Hr1); [apply host_addrs_elem; by eexists|done|]. assert (fh1' = fh1) as -> by congruence. exists fh. by rewrite <- Hr1.
    - exfalso. assert (is_Some (f_hosts st !! b)) as [? ?] by (apply Hdom1; by eexists). congruence. }
  split; [done|].
  assert (Hin4 : jinert s0 x st4).
  { intros a q Hq. assert (Hq2' : nonout st2 a q).
    { destruct Hq as [(qs & Hl0 & Hi0)|(fh4 & Hl0 & Hi0)].
      - left. exists qs. rewrite Hd4, Hd3 in Hl0. done.
      - right. rewrite Hho4 in Hl0. specialize (Hf3 a). destruct (f_hosts st2 !! a) as [fh2|]; [|congruence]. destruct Hf3 as (fh3 & Hfh3 & Hq3).
        assert (fh3 = fh4) as -> by congruence. exists fh2. split; [done|]. by rewrite <- Hq3. }
    assert (Hdom2 : is_Some (f_hosts st2 !! a) → is_Some (f_hosts st4 !! a)).
    { intros [fh2 Hfh2]. rewrite Hho4. specialize (Hf3 a). rewrite Hfh2 in Hf3. destruct Hf3 as (fh3 & -> & _). by eexists. }
    unfold pendJ, pendI. rewrite Hhi4, Hhi3. destruct (Hin2 a q Hq2') as [[Hm Hc]|(Hg & Hs & Hi & Hhost)].
    - left. split; [done|]. intros Hcq. destruct (Hc Hcq) as [? ?]. split; [done|]. by apply Hdom2.
    - right. split; [done|]. split; [done|]. split; [done|]. by apply Hdom2. }
  split; [done|].
  split. { intros s h c Hh Hc. rewrite Hview4 in Hc. rewrite Hhi4, Hhi3, Hhi2 in Hh. by apply (Hcur1 s). }
  split; [done|]. split. { rewrite Hdb. cbn [set_tick d_tick]. unfold T. by rewrite Ht1. }
  split; [rewrite Hdb; cbn [set_tick d_shards]; exact Hsh1|].
  split.
  { intros s rid n' Hn'. rewrite Hview4 in Hn'. destruct (Htk s rid n' Hn') as [(n & Hn & Hf & Hcase)|(Hnone & Hf & Hcase)].
    - left. exists n. split; [done|]. split; [done|]. destruct Hcase as [[(a & fh & _ & Hfh & Hro) Htn]|[Hno Htn]].
      + left. split; [by exists a, fh|done].
      + right. split; [|done]. intros a fh Hfh. apply (Hno a fh); [apply host_addrs_elem; by eexists|done].
    - right. split; [done|]. split; [done|]. intros Hno. apply Hcase. intros a fh _ Hfh. by apply (Hno a fh). }
  split.
  { intros a fh h Hfh Hh k Hk. rewrite Hdb in Hh. cbn [set_tick d_hosts] in Hh. apply (Hplog a fh h); [apply host_addrs_elem; by eexists|apply Hpl|done|done|done]. }
  split.
  { intros b Hb. rewrite Hdb in Hb. cbn [set_tick d_hosts] in Hb. destruct (Hkeys b Hb) as [Hinb|Hold]; [left; by apply host_addrs_elem|by right]. }
  split.
  { intros b s rid Hmk Hrb. rewrite Hho4. apply Hrun3, Hrun2; [by rewrite Hhi1|].
    apply running_runs_on in Hrb as (fh & Hfh & Hro).
    destruct (Hho1 b fh) as (fh1 & Hfh1 & Hr1); [apply host_addrs_elem; by eexists|done|].
    unfold member_running. rewrite Hfh1. destruct (ml_hosts _ _ _ HP1 b fh1 Hfh1) as [-> _]. cbn. unfold runs_on in Hro. by rewrite Hr1. }
  split; [exact Hkeys4|]. split; [exact Hdom4|].
  (* nothing is pending for a NodeHost *)
  intros a q Hq. destruct (f_hosts st4 !! a) as [fh4|] eqn:Ha4; [|done]. exfalso.
  rewrite Hho4 in Ha4. specialize (Hf3 a). specialize (Hq2 a).
  destruct (f_hosts st2 !! a) as [fh2|] eqn:Ha2; [|congruence]. destruct Hf3 as (fh3 & Hfh3 & Hq3). assert (fh3 = fh4) as -> by congruence.
  destruct (f_hosts st1 !! a) as [fh1|] eqn:Ha1; [|congruence]. destruct Hq2 as (fh2' & Hfh2' & Hqq2). assert (fh2' = fh2) as -> by congruence.
  assert (Hin1' : a ∈ host_addrs st1) by (apply host_addrs_elem; by eexists).
  assert (Hin0 : a ∈ host_addrs st) by (apply host_addrs_elem, Hdom1; by eexists).
  rewrite decide_True in Hqq2 by done.
  destruct Hq as [(qs & Hl0 & _)|(fh & Hl0 & Hinq)].
  - rewrite Hdb in Hl0. cbn [set_tick d_requests] in Hl0. rewrite (Hrq1 a Hin0) in Hl0. done.
  - rewrite Hho4, Hfh3 in Hl0. injection Hl0 as <-. rewrite Hq3, Hqq2 in Hinq. by apply elem_of_nil in Hinq.
Qed.

Lemma join_pre s0 x tt st plogs nticks st4 :
  LostB L st → all_current st → jinert s0 x st → (∃ q, nonout st tt q ∧ good_join (f_hist st) tt q ∧ q_shard q = s0 ∧ q_inst q = x) → (∀ a, plogs a = true) → pre_schedule P plogs nticks st = Some st4 →
  LostX L st4 ∧ jinert s0 x st4 ∧ all_current st4 ∧ member_running (f_hosts st4) s0 x tt = true ∧ f_hist st4 = f_hist st ∧
  d_tick (f_db st4) = d_tick (f_db st) + N.of_nat nticks * p_step P ∧ d_shards (f_db st4) = d_shards (f_db st) ∧
  (∀ s rid n', rec_of (d_view (f_db st4)) s rid = Some n' →
     (∃ n, rec_of (d_view (f_db st)) s rid = Some n ∧ r_first n' = r_first n ∧
        (((∃ a fh, f_hosts st !! a = Some fh ∧ runs_on fh s rid = true) ∧ r_tick n' = d_tick (f_db st)) ∨
         ((∀ a fh, f_hosts st !! a = Some fh → runs_on fh s rid = false) ∧ r_tick n' = r_tick n))) ∨
     ((rec_of (d_view (f_db st)) s rid = None ∨ ∀ h, f_hist st !! s = Some h → cur_members h !! rid = None) ∧
      r_first n' = d_tick (f_db st) ∧
      ((∀ a fh, f_hosts st !! a = Some fh → runs_on fh s rid = false) → r_tick n' = 0))) ∧
  (∀ a fh h, f_hosts st !! a = Some fh → d_hosts (f_db st4) !! a = Some h → ∀ k, k ∈ h_plog h → is_Some (fh_reps fh !! k)) ∧
  (∀ b, is_Some (d_hosts (f_db st4) !! b) → is_Some (f_hosts st !! b) ∨ is_Some (d_hosts (f_db st) !! b)) ∧
  (∀ b s rid, mkey (f_hist st) (s, rid) → member_running (f_hosts st) s rid b = true → member_running (f_hosts st4) s rid b = true) ∧
  (∀ b fh4 k, f_hosts st4 !! b = Some fh4 → is_Some (fh_reps fh4 !! k) → (∃ fh, f_hosts st !! b = Some fh ∧ is_Some (fh_reps fh !! k)) ∨ k = (s0, x)) ∧
  (∀ b, is_Some (f_hosts st4 !! b) ↔ is_Some (f_hosts st !! b)) ∧
  (∀ a q, nonout st4 a q → f_hosts st4 !! a = None).
Proof.
  intros (HI & HP & Hoh) Hcur0 Hin (qj & Hqj & Hgj & Hsj & Hij) Hpl. unfold pre_schedule. set (t := d_tick (f_db st)).
  assert (Hl : ∀ a, a ∈ host_addrs st → is_Some (f_hosts st !! a)) by (intros a; apply host_addrs_elem).
  destruct (lostb_reports L P plogs (host_addrs st) st HI HP (host_addrs_nodup st) Hl) as
    (st1 & E1 & [HI1 HP1] & Ho1a & Ho1b & Hsub1 & Hhi1 & Hse1 & Ht1 & Hsh1 & Hho1 & Hho1' & Hv1 & Hst1 & Hsp1 & Hot1).
  pose proof (reports_recs plogs (host_addrs st) st st1 HI HP (host_addrs_nodup st) Hl E1) as (Htk & Hplog & Hkeys).
  pose proof (lostb_reports_requests L P plogs (host_addrs st) st st1 HI HP (host_addrs_nodup st) Hl E1) as Hrq1.
  rewrite E1.
  assert (Hdom1 : ∀ a, is_Some (f_hosts st1 !! a) ↔ is_Some (f_hosts st !! a)).
  { intros a. destruct (f_hosts st !! a) as [fh|] eqn:Ha.
    - destruct (Hho1 a fh) as (fh' & -> & _); [apply host_addrs_elem; by eexists|done|]. split; intros _; by eexists.
    - rewrite Hho1', Ha; [done|]. intros Hin0. apply host_addrs_elem in Hin0. rewrite Ha in Hin0. by destruct Hin0. }
  assert (Hcur1 : all_current st1).
  { intros s h c1 Hh1 Hc1. rewrite Hhi1 in Hh1. destruct (ml_members _ _ _ HP s h Hh1) as (c & Hc & Hcase & _).
    destruct (Hv1 s h c Hh1 Hc) as (c' & Hc' & _ & Hkeep & Hup). assert (c' = c1) as -> by congruence.
    destruct Hcase as [Hcc|(v & M & M' & x9 & rest & Hb)]; [by apply Hkeep|]. apply Hup.
    destruct (ml_behind _ _ _ HP s h c v M M' x9 rest Hh1 Hc Hb) as (_ & _ & a & fh & rid & lr & Hfh & Hk & Hrun & Hver).
    exists a, fh, rid, lr. split; [apply host_addrs_elem; by eexists|]. split; [done|]. split; [done|]. split; [done|].
    destruct Hb as (-> & _). by rewrite Hver. }
  assert (HX1 : LostX L st1).
  { split; [split; [done|split; [done|]]|].
    - intros a Ha. apply Hdom1. destruct (decide (a ∈ host_addrs st)) as [Hin0|Hnin]; [by apply host_addrs_elem|].
      apply Hoh. rewrite <- (Ho1b a Hnin). exact Ha.
    - intros s h c v M M' x9 rest Hh Hc Hb. exfalso. pose proof (Hcur1 s h c Hh Hc) as Hcc. destruct Hb as (-> & Hv & _). cbn in Hcc. lia. }
  assert (Hin1 : jinert s0 x st1).
  { intros a q Hq. unfold pendJ, pendI. rewrite Hhi1. destruct (Hin a q (Hsub1 a q Hq)) as [[Hm Hc]|(Hg & Hs & Hi & Hhost)].
    - left. split; [done|]. intros Hcq. destruct (Hc Hcq) as [? ?]. split; [done|]. by apply Hdom1.
    - right. split; [done|]. split; [done|]. split; [done|]. by apply Hdom1. }
  pose proof (lostb_reports_deliver L P plogs (host_addrs st) st st1 HI HP (host_addrs_nodup st) Hl E1) as Hdel1.
  assert (Htth : is_Some (f_hosts st !! tt)).
  { destruct Hgj as (_ & _ & _ & h & Hh & Hm). destruct (ml_members _ _ _ HP _ h Hh) as (_ & _ & _ & Hmem). destruct (Hmem _ _ Hm) as (_ & _ & fh & Hfh & _). by eexists. }
  (* the NodeHosts execute *)
  destruct (steps P st1 ((λ a, EExec a true) <$> host_addrs st1)) as [st2|] eqn:E2; [|done].
  destruct (lostx_execs L P (host_addrs st1) st1 st2 HX1 E2) as (HX2 & Hd2 & Hq2).
  destruct (join_execs s0 x (host_addrs st1) st1 st2 HX1 Hin1 (host_addrs_nodup st1) E2) as (Hin2 & Hhi2 & Hrun2 & Hk2 & Hj2).
  assert (Hxrun2 : member_running (f_hosts st2) s0 x tt = true).
  { destruct (Hdel1 tt qj ltac:(by apply host_addrs_elem) Hqj) as (fh1 & Hfh1 & Hq1). rewrite <- Hsj, <- Hij.
    apply (Hj2 tt qj fh1); [apply host_addrs_elem; by eexists|done|done|by rewrite Hhi1]. }
  (* Raft catches up *)
  destruct (steps P st2 (catch_up_events st2)) as [st3|] eqn:E3; [|done].
  destruct (lostx_learns L P st2 st3 HX2 E3) as (HX3 & Hd3 & Hhi3 & Hf3).
  pose proof (steps_pres P (λ stx, LostX L stx ∧ f_hist stx = f_hist st2 ∧
      (∀ b s rid, member_running (f_hosts st2) s rid b = true → member_running (f_hosts stx) s rid b = true) ∧
      (∀ b fh' k, f_hosts stx !! b = Some fh' → is_Some (fh_reps fh' !! k) → ∃ fh, f_hosts st2 !! b = Some fh ∧ is_Some (fh_reps fh !! k)))
      (catch_up_events st2)) as Hex.
  destruct (Hex) with (st := st2) (st' := st3) as (_ & _ & Hrun3 & Hk3); [| |done|].
  { intros stx ev sty Hev (HXx & Hhx & Hrx & Hkx) E. apply catch_up_members in Hev as (a & s & r & v & -> & Hm). rewrite <- Hhx in Hm.
    destruct (lostx_learn L P stx a s r v sty HXx Hm E) as (HXy & _ & Hhy & _).
    destruct HXx as [(HIx & _) _]. destruct (learn_frame P stx a s r v sty HIx Hm E) as (Hr & Hk).
    split; [done|]. split; [congruence|]. split.
    - intros b s9 rid Hrb. apply Hr. by apply Hrx.
    - intros b fh' k Hb Hkk. destruct (Hk b fh' k Hb Hkk) as (fh0 & Hfh0 & Hk0). by apply (Hkx b fh0 k). }
  { split; [done|]. split; [done|]. split; [done|]. intros b fh' k Hb Hkk. by exists fh'. }
  clear Hex.
  (* time passes *)
  destruct (steps P st3 (replicate nticks ETick)) as [st4'|] eqn:E4; [|done]. intros [= ->].
  destruct (lostx_ticks L P nticks st3 st4 HX3 E4) as (HX4 & Hd4 & Hho4 & Hhi4).
  set (T := d_tick (f_db st1) + N.of_nat nticks * p_step P).
  assert (Hdb : f_db st4 = set_tick (f_db st1) T) by (rewrite Hd4, Hd3, Hd2; done).
  assert (Hhist4 : f_hist st4 = f_hist st) by congruence.
  assert (Hdom4 : ∀ b, is_Some (f_hosts st4 !! b) ↔ is_Some (f_hosts st !! b)).
  { intros b. rewrite Hho4, <- Hdom1. specialize (Hq2 b). specialize (Hf3 b). destruct (f_hosts st1 !! b) as [fh1|].
    - destruct Hq2 as (fh2 & Hfh2 & _). rewrite Hfh2 in Hf3. destruct Hf3 as (fh3 & -> & _). split; intros _; by eexists.
    - rewrite Hq2 in Hf3. rewrite Hf3. done. }
  assert (Hview4 : d_view (f_db st4) = d_view (f_db st1)) by (by rewrite Hdb).
  assert (Hkeys4 : ∀ b fh4 k, f_hosts st4 !! b = Some fh4 → is_Some (fh_reps fh4 !! k) → (∃ fh, f_hosts st !! b = Some fh ∧ is_Some (fh_reps fh !! k)) ∨ k = (s0, x)).
  { intros b fh4 k Hb Hk. rewrite Hho4 in Hb. destruct (Hk3 b fh4 k Hb Hk) as (fh2 & Hfh2 & Hkk2). destruct (Hk2 b fh2 k Hfh2 Hkk2) as [(fh1 & Hfh1 & Hkk1)|?]; [|by right]. left.
    destruct (f_hosts st !! b) as [fh|] eqn:Hfb.
    - destruct (Hho1 b fh) as (fh1' & Hfh1' & Hr1); [apply host_addrs_elem; by eexists|done|]. assert (fh1' = fh1) as -> by congruence. exists fh. by rewrite <- Hr1.
    - exfalso. assert (is_Some (f_hosts st !! b)) as [? ?] by (apply Hdom1; by eexists). congruence. }
  split; [done|].
  assert (Hin4 : jinert s0 x st4).
  { intros a q Hq. assert (Hq2' : nonout st2 a q).
    { destruct Hq as [(qs & Hl0 & Hi0)|(fh4 & Hl0 & Hi0)].
      - left. exists qs. rewrite Hd4, Hd3 in Hl0. done.
      - right. rewrite Hho4 in Hl0. specialize (Hf3 a). destruct (f_hosts st2 !! a) as [fh2|]; [|congruence]. destruct Hf3 as (fh3 & Hfh3 & Hq3).
        assert (fh3 = fh4) as -> by congruence. exists fh2. split; [done|]. by rewrite <- Hq3. }
    assert (Hdom2 : is_Some (f_hosts st2 !! a) → is_Some (f_hosts st4 !! a)).
    { intros [fh2 Hfh2]. rewrite Hho4. specialize (Hf3 a). rewrite Hfh2 in Hf3. destruct Hf3 as (fh3 & -> & _). by eexists. }
    unfold pendJ, pendI. rewrite Hhi4, Hhi3. destruct (Hin2 a q Hq2') as [[Hm Hc]|(Hg & Hs & Hi & Hhost)].
    - left. split; [done|]. intros Hcq. destruct (Hc Hcq) as [? ?]. split; [done|]. by apply Hdom2.
    - right. split; [done|]. split; [done|]. split; [done|]. by apply Hdom2. }
  split; [done|].
  split. { intros s h c Hh Hc. rewrite Hview4 in Hc. rewrite Hhi4, Hhi3, Hhi2 in Hh. by apply (Hcur1 s). }
  split; [rewrite Hho4; by apply Hrun3|].
  split; [done|]. split. { rewrite Hdb. cbn [set_tick d_tick]. unfold T. by rewrite Ht1. }
  split; [rewrite Hdb; cbn [set_tick d_shards]; exact Hsh1|].
  split.
  { intros s rid n' Hn'. rewrite Hview4 in Hn'. destruct (Htk s rid n' Hn') as [(n & Hn & Hf & Hcase)|(Hnone & Hf & Hcase)].
    - left. exists n. split; [done|]. split; [done|]. destruct Hcase as [[(a & fh & _ & Hfh & Hro) Htn]|[Hno Htn]].
      + left. split; [by exists a, fh|done].
      + right. split; [|done]. intros a fh Hfh. apply (Hno a fh); [apply host_addrs_elem; by eexists|done].
    - right. split; [done|]. split; [done|]. intros Hno. apply Hcase. intros a fh _ Hfh. by apply (Hno a fh). }
  split.
  { intros a fh h Hfh Hh k Hk. rewrite Hdb in Hh. cbn [set_tick d_hosts] in Hh. apply (Hplog a fh h); [apply host_addrs_elem; by eexists|apply Hpl|done|done|done]. }
  split.
  { intros b Hb. rewrite Hdb in Hb. cbn [set_tick d_hosts] in Hb. destruct (Hkeys b Hb) as [Hinb|Hold]; [left; by apply host_addrs_elem|by right]. }
  split.
  { intros b s rid Hmk Hrb. rewrite Hho4. apply Hrun3, Hrun2; [by rewrite Hhi1|].
    apply running_runs_on in Hrb as (fh & Hfh & Hro).
    destruct (Hho1 b fh) as (fh1 & Hfh1 & Hr1); [apply host_addrs_elem; by eexists|done|].
    unfold member_running. rewrite Hfh1. destruct (ml_hosts _ _ _ HP1 b fh1 Hfh1) as [-> _]. cbn. unfold runs_on in Hro. by rewrite Hr1. }
  split; [exact Hkeys4|]. split; [exact Hdom4|].
  (* nothing is pending for a NodeHost *)
  intros a q Hq. destruct (f_hosts st4 !! a) as [fh4|] eqn:Ha4; [|done]. exfalso.
  rewrite Hho4 in Ha4. specialize (Hf3 a). specialize (Hq2 a).
  destruct (f_hosts st2 !! a) as [fh2|] eqn:Ha2; [|congruence]. destruct Hf3 as (fh3 & Hfh3 & Hq3). assert (fh3 = fh4) as -> by congruence.
  destruct (f_hosts st1 !! a) as [fh1|] eqn:Ha1; [|congruence]. destruct Hq2 as (fh2' & Hfh2' & Hqq2). assert (fh2' = fh2) as -> by congruence.
  assert (Hin1' : a ∈ host_addrs st1) by (apply host_addrs_elem; by eexists).
  assert (Hin0 : a ∈ host_addrs st) by (apply host_addrs_elem, Hdom1; by eexists).
  rewrite decide_True in Hqq2 by done.
  destruct Hq as [(qs & Hl0 & _)|(fh & Hl0 & Hinq)].
  - rewrite Hdb in Hl0. cbn [set_tick d_requests] in Hl0. rewrite (Hrq1 a Hin0) in Hl0. done.
  - rewrite Hho4, Hfh3 in Hl0. injection Hl0 as <-. rewrite Hq3, Hqq2 in Hinq. by apply elem_of_nil in Hinq.
Qed.



(* the state after the round in which the view catches up: the new member x of s0 (on NodeHost t) is shown as waiting,
   its join-CREATE is pending for t; x has no data yet *)

Record StageC (s0 f0 x t : N) (st : fstate) : Prop := mkStageC {
  sc_b : LostB L st;
  sc_cur : all_current st;
  sc_pend : ∀ a q, nonout st a q → pendJ s0 x st a q;
  sc_join : ∃ q, nonout st t q ∧ good_join (f_hist st) t q ∧ q_shard q = s0 ∧ q_inst q = x;
  sc_single : ∀ s f, L s f → s = s0 ∧ f = f0;
  sc_lost : L s0 f0;
  sc_mem : ∃ (v : N) (M : gmap N N) (hs0 : list hentry),
      f_hist st !! s0 = Some (((v + 1, <[x := t]> M) : hentry) :: (v, M) :: hs0) ∧ M !! x = None ∧
      size M = shard_size (f_db st) s0 ∧ (3 ≤ size M)%nat ∧ is_Some (M !! f0);
  sc_wait : ∃ c n, d_view (f_db st) !! s0 = Some c ∧ s_reps c !! x = Some n ∧ r_tick n = 0 ∧ r_first n ≠ 0;
  sc_stamped : ∀ s c rid n, d_view (f_db st) !! s = Some c → s_reps c !! rid = Some n → (s, rid) ≠ (s0, x) → r_tick n ≠ 0;
  sc_xnodata : ∀ a fh, f_hosts st !! a = Some fh → fh_reps fh !! (s0, x) = None;
  sc_nodata : ∀ s rid, L s rid → ∀ a fh, f_hosts st !! a = Some fh → fh_reps fh !! (s, rid) = None;
  sc_run : ∀ s rid a, member st s rid a → ¬ L s rid → stamped (f_db st) s rid → member_running (f_hosts st) s rid a = true;
  sc_clean : ∀ a fh s rid lr, f_hosts st !! a = Some fh → fh_reps fh !! (s, rid) = Some lr → ∃ b, member st s rid b;
  sc_dbhosts : ∀ a, is_Some (d_hosts (f_db st) !! a) → is_Some (f_hosts st !! a) }.

Theorem lost_stage_join s0 f0 st st' plogs nticks o :
  StageB L s0 f0 st → (∀ a, plogs a = true) → N.of_nat nticks * p_step P < p_ttl P →
  o ≠ OCrash →
  (∀ st4, pre_schedule P plogs nticks st = Some st4 → fresh_ok st4 (ESchedule o)) →
  healthy_round P plogs nticks o st = Some st' →
  ∃ b x t, o = OBatch b ∧ StageC s0 f0 x t st' ∧ f_hist st' = f_hist st ∧
    d_tick (f_db st') = d_tick (f_db st) + N.of_nat nticks * p_step P ∧ mem_tick st' s0 f0 = mem_tick st s0 f0.
Proof.
  intros HB Hpl Httl Hnc Hfr Hr. pose proof (sb_b _ _ _ _ HB) as HLB. pose proof HLB as (HI & HP & Hoh).
  assert (Hin : inert st) by (intros a q Hq; exact (sb_pend _ _ _ _ HB a q Hq)).
  rewrite healthy_round_pre in Hr. destruct (pre_schedule P plogs nticks st) as [st4|] eqn:Epre; [|done].
  destruct (inert_pre st plogs nticks st4 HLB Hin Hpl Epre) as
    (HX4 & Hin4 & Hcur4 & Hhi4 & Htick4 & Hsh4 & Hrec4 & Hplog4 & Hdbk4 & Hrun4 & Hkeys4 & Hdom4 & Hnoh4).
  specialize (Hfr st4 eq_refl).
  destruct (fstep P st4 (ESchedule o)) as [st5| |] eqn:E5; try done. injection Hr as <-.
  destruct HX4 as [(HI4 & HP4 & Hoh4) Hnc4].
  cbn [fstep] in E5. destruct (allowed P (ctx_of_db (f_db st4)) o) eqn:Hal; [|done].
  set (C := ctx_of_db (f_db st4)) in *. pose proof (loopinv_ctx_wf st4 HI4) as Hwf. fold C in Hwf.
  set (t := d_tick (f_db st)) in *.
  destruct (sb_behind _ _ _ _ HB) as (e0 & hs0 & x & tt & c0 & Hh0 & Hxn & Hc0 & Hcc0 & Hsz0 & H30 & Hf0in & Hxnd).
  destruct e0 as [v M]. cbn [fst snd] in *.
  set (h0 := ((v + 1, <[x := tt]> M) : hentry) :: (v, M) :: hs0) in *.
  assert (Hbeh : behind h0 c0 v M (<[x := tt]> M) x hs0) by (split; [done|]; split; [done|]; left; split; [done|by exists tt]).
  destruct (ml_behind _ _ _ HP s0 h0 c0 v M _ x hs0 Hh0 Hc0 Hbeh) as (_ & Hxnorun & _).
  assert (HM0 : r_addr <$> s_reps c0 = M).
  { destruct (li_view _ _ _ _ _ HI s0 c0 Hc0) as (_ & HH & _). unfold Hf, hist_of in HH. rewrite Hh0, Hcc0 in HH. unfold h0 in HH. cbn [entry_at fst snd default from_option id] in HH.
    assert ((v + 1 =? v) = false) as Hvf by (apply N.eqb_neq; lia). rewrite Hvf, N.eqb_refl in HH. by injection HH. }
  assert (Hxno : ∀ a fh, f_hosts st !! a = Some fh → runs_on fh s0 x = false).
  { intros a fh Hfh. unfold runs_on. destruct (fh_reps fh !! (s0, x)) as [lr|] eqn:Ek; [|done]. by apply (Hxnorun Hxn a fh lr). }
  assert (Hpos : 0 < t) by apply (ml_time _ _ _ HP).
  (* the keys of the view after the reports *)
  assert (Hkeys : ∀ s c rid n, d_view (f_db st4) !! s = Some c → s_reps c !! rid = Some n →
            ∃ h, f_hist st !! s = Some h ∧ cur_members h !! rid = Some (r_addr n) ∧ r_id n = rid).
  { intros s c rid n Hc Hn. destruct (ml_viewdef _ _ _ HP4 s) as [_ [h Hh]]; [by eexists|].
    destruct (calm_view st4 s h c HI4 Hh Hc (Hcur4 s h c Hh Hc)) as (HM & _ & Hids). exists h. rewrite <- Hhi4. split; [done|].
    split; [rewrite <- HM, lookup_fmap, Hn; done|by destruct (Hids rid n Hn)]. }
  assert (KF : ∀ s rid n', rec_of (d_view (f_db st4)) s rid = Some n' → rec_of (d_view (f_db st)) s rid = None → s = s0 ∧ rid = x).
  { intros s rid n' Hn' Hnone. apply rec_of_Some in Hn' as (c4 & Hc4 & Hn4). destruct (Hkeys s c4 rid n' Hc4 Hn4) as (h & Hh & Hm & _).
    destruct (decide (s = s0)) as [->|Hs].
    - split; [done|]. rewrite Hh0 in Hh. injection Hh as <-. unfold h0 in Hm. cbn [cur_members snd] in Hm.
      destruct (decide (rid = x)) as [->|Hx]; [done|]. exfalso. rewrite lookup_insert_ne in Hm by done.
      rewrite <- HM0, lookup_fmap in Hm. destruct (s_reps c0 !! rid) as [n0|] eqn:En0; [|done].
      assert (rec_of (d_view (f_db st)) s0 rid = Some n0) by (apply rec_of_Some; eauto). congruence.
    - exfalso. destruct (ml_members _ _ _ HP s h Hh) as (c & Hc & _).
      destruct (calm_view st s h c HI Hh Hc (sb_cur _ _ _ _ HB s h c Hs Hh Hc)) as (HM & _).
      rewrite <- HM, lookup_fmap in Hm. destruct (s_reps c !! rid) as [n0|] eqn:En0; [|done].
      assert (rec_of (d_view (f_db st)) s rid = Some n0) by (apply rec_of_Some; eauto). congruence. }
  (* the classes of the records *)
  assert (Hcl : ∀ s c rid n, d_view (f_db st4) !! s = Some c → s_reps c !! rid = Some n →
            r_tick n = t ∨ (s = s0 ∧ rid = x ∧ r_tick n = 0 ∧ r_first n = t) ∨
            (L s rid ∧ r_tick n ≠ 0 ∧ ∀ hh, d_hosts (f_db st4) !! r_addr n = Some hh → (s, rid) ∉ h_plog hh)).
  { intros s c rid n Hc Hn. assert (Hrec : rec_of (d_view (f_db st4)) s rid = Some n) by (apply rec_of_Some; eauto).
    destruct (Hkeys s c rid n Hc Hn) as (h & Hh & Hm & _).
    destruct (Hrec4 s rid n Hrec) as [(n0 & Hn0 & Hf & [[_ Htn]|[Hno Htn]])|(Hnone & Hf & Htn)].
    - by left.
    - right; right. pose proof Hn0 as Hn0'. apply rec_of_Some in Hn0' as (c1 & Hc1 & Hk1).
      pose proof (sb_stamped _ _ _ _ HB s c1 rid n0 Hc1 Hk1) as Hnz.
      assert (Hl0 : L s rid).
      { destruct (Ldec s rid) as [?|HnL]; [done|]. exfalso.
        assert (Hmm : member st s rid (r_addr n)) by (by exists h).
        pose proof (sb_run _ _ _ _ HB s rid _ Hmm HnL ltac:(by exists n0)) as Hrr. apply running_runs_on in Hrr as (fh & Hfh & Hro).
        rewrite (Hno _ fh Hfh) in Hro. done. }
      split; [done|]. split; [congruence|]. intros hh Hhh Hlog.
      destruct (ml_members _ _ _ HP s h Hh) as (_ & _ & _ & Hmem). destruct (Hmem rid _ Hm) as (_ & _ & fh & Hfh & _).
      destruct (Hplog4 _ fh hh Hfh Hhh (s, rid) Hlog) as [lr Hk]. by rewrite (sb_nodata _ _ _ _ HB s rid Hl0 _ fh Hfh) in Hk.
    - destruct Hnone as [Hnone|Hnc0]; [|rewrite (Hnc0 h Hh) in Hm; done].
      destruct (KF s rid n Hrec Hnone) as [-> ->]. right; left. split; [done|]. split; [done|]. split; [|done]. apply Htn. exact Hxno. }
  assert (HR4 : PReady L P st4 t).
  { split.
    - exact HI4.
    - intros s Hs. destruct (ml_viewdef _ _ _ HP4 s Hs) as [[sd Hsd] _]. destruct (ml_defined _ _ _ HP4 s sd Hsd) as (_ & _ & Happ). by exists sd.
    - split; [lia|]. rewrite Htick4. fold t. lia.
    - intros s c rid n Hc Hn. destruct (Hcl s c rid n Hc Hn) as [?|[(_ & _ & ? & Hft)|?]]; [by left|right; left; split; [done|lia]|by right; right].
    - intros s r1 r2 H1 H2. destruct (sb_single _ _ _ _ HB _ _ H1) as [_ ->]. by destruct (sb_single _ _ _ _ HB _ _ H2) as [_ ->].
    - intros s c r1 r2 n1 n2 Hc H1 H2 Hz1 Hz2.
      destruct (Hcl s c r1 n1 Hc H1) as [?|[(_ & -> & _)|(_ & ? & _)]]; [lia| |done].
      destruct (Hcl s c r2 n2 Hc H2) as [?|[(_ & -> & _)|(_ & ? & _)]]; [lia|done|done].
    - intros s rid Hl0. destruct (sb_single _ _ _ _ HB _ _ Hl0) as [-> _]. unfold shard_size. rewrite Hsh4. unfold shard_size in Hsz0. lia. }
  (* the record of x *)
  assert (Hh04 : f_hist st4 !! s0 = Some h0) by (by rewrite Hhi4).
  destruct (ml_members _ _ _ HP4 s0 h0 Hh04) as (c4 & Hc4 & _ & Hmem4).
  destruct (calm_view st4 s0 h0 c4 HI4 Hh04 Hc4 (Hcur4 s0 h0 c4 Hh04 Hc4)) as (HM4 & Hid4 & Hids4).
  assert (is_Some (s_reps c4 !! x)) as [nx Hnx].
  { rewrite <- (fmap_is_Some r_addr), <- lookup_fmap, HM4. unfold h0. cbn [cur_members snd]. rewrite lookup_insert. by eexists. }
  assert (Hnxa : r_addr nx = tt).
  { assert ((r_addr <$> s_reps c4) !! x = Some (r_addr nx)) as Hq by (by rewrite lookup_fmap, Hnx). rewrite HM4 in Hq. unfold h0 in Hq. cbn [cur_members snd] in Hq.
    rewrite lookup_insert in Hq. by injection Hq. }
  assert (Hnxw : r_tick nx = 0 ∧ r_first nx = t).
  { destruct (Hcl s0 c4 x nx Hc4 Hnx) as [Ht|[(_ & _ & ? & ?)|(Hl0 & _)]]; [|done|].
    - exfalso. assert (Hrec : rec_of (d_view (f_db st4)) s0 x = Some nx) by (apply rec_of_Some; eauto).
      assert (Hnone : rec_of (d_view (f_db st)) s0 x = None).
      { destruct (rec_of (d_view (f_db st)) s0 x) as [n0|] eqn:En; [|done]. apply rec_of_Some in En as (c1 & Hc1 & Hk1). assert (c1 = c0) as -> by congruence.
        assert (is_Some (M !! x)) as [? ?] by (rewrite <- HM0, lookup_fmap, Hk1; by eexists). congruence. }
      destruct (Hrec4 s0 x nx Hrec) as [(n0 & Hn0 & _)|(_ & _ & Htn)]; [congruence|]. rewrite (Htn Hxno) in Ht. lia.
    - exfalso. destruct (sb_single _ _ _ _ HB _ _ Hl0) as [_ ->]. destruct Hf0in as [? ?]. congruence. }
  destruct Hnxw as [Hnx0 Hnxf].
  assert (Hmt4 : mem_tick st4 s0 f0 = mem_tick st s0 f0).
  { assert (is_Some (s_reps c4 !! f0)) as [nf Hnf].
    { rewrite <- (fmap_is_Some r_addr), <- lookup_fmap, HM4. unfold h0. cbn [cur_members snd]. rewrite lookup_insert_ne; [done|]. intros ->. destruct Hf0in; congruence. }
    assert (Hrecf : rec_of (d_view (f_db st4)) s0 f0 = Some nf) by (apply rec_of_Some; eauto).
    unfold mem_tick. rewrite Hrecf.
    destruct (Hrec4 s0 f0 nf Hrecf) as [(n1 & Hn1 & _ & [[(a & fh & Hfh & Hro) _]|[_ Htn]])|([Hnone|Hnc0] & _ & Htn)].
    - exfalso. unfold runs_on in Hro. by rewrite (sb_nodata _ _ _ _ HB s0 f0 (sb_lost _ _ _ _ HB) a fh Hfh) in Hro.
    - by rewrite Hn1.
    - rewrite Hnone. apply Htn. intros a fh Hfh. unfold runs_on. by rewrite (sb_nodata _ _ _ _ HB s0 f0 (sb_lost _ _ _ _ HB) a fh Hfh).
    - exfalso. specialize (Hnc0 h0 Hh0). unfold h0 in Hnc0. cbn [cur_members snd] in Hnc0.
      rewrite lookup_insert_ne in Hnc0; [destruct Hf0in; congruence|]. intros ->. destruct Hf0in; congruence. }
  assert (Hc4e : c4 ∈ entries C) by (unfold entries, C, ctx_of_db; cbn [c_view]; apply elem_of_mvals; by exists s0).
  assert (Hnxwait : nx ∈ sr_wait P C c4).
  { apply elem_sr_wait. split; [apply elem_of_mvals; by exists x|]. unfold replica_waiting, replica_failed. rewrite Hnx0. cbn.
    apply negb_true_iff, N.eqb_neq. lia. }
  assert (Hnoadd : ∀ c, c ∈ entries C → repair_action P C c ≠ AAdd).
  { intros c Hc. destruct (lostp_entry L P Ldec st4 t c HR4 Hc) as (h & sd & Hh & Hvc & _ & _ & _ & Hfl & _ & Hcr & Hnone & _). fold C in Hfl, Hcr, Hnone.
    destruct (sr_wait P C c) as [|nw lw] eqn:Ew; [|by rewrite (Hcr ltac:(done))].
    destruct (sr_failed P C c) as [|nf1 l0] eqn:Ef; [by rewrite (Hnone eq_refl eq_refl)|]. exfalso.
    destruct (Hfl nf1 ltac:(left)) as [Hlf _]. destruct (sb_single _ _ _ _ HB _ _ Hlf) as [Hs0 _].
    rewrite Hs0 in Hvc. assert (c = c4) as -> by congruence.
    assert (Hnxw' : nx ∈ sr_wait P C c4).
    { apply elem_sr_wait. split; [apply elem_of_mvals; by exists x|]. unfold replica_waiting, replica_failed. rewrite Hnx0. cbn.
      apply negb_true_iff, N.eqb_neq. first [done|lia]. }
    rewrite Ew in Hnxw'. by apply elem_of_nil in Hnxw'. }
  destruct o as [b| |]; [|exfalso; apply error_cause in Hal as (c & n & Hc & Ha & _); exact (Hnoadd c Hc Ha)|done].
  exists b, x, tt. split; [done|].
  (* what the batch consists of *)
  assert (Hkinds : ∀ q, q ∈ b → is_kill q = true ∨
            (good_join (f_hist st4) (q_raft q) q ∧ q_shard q = s0 ∧ q_inst q = x ∧ q_raft q = tt)).
  { intros q Hq. destruct (batch_request_cases P C b q Hal Hq) as [Hk|(_ & c & qs & Hc & Hs & Hinq & Hg & _)]; [left; by apply (kills_are_kill C)|].
    destruct (lostp_entry L P Ldec st4 t c HR4 Hc) as (h & sd & Hh & Hvc & _ & _ & Hhr & Hfl & Hw & Hcr & Hnone & Hadd). fold C in Hhr, Hfl, Hw, Hcr, Hnone, Hadd.
    apply group_allowed_inv in Hg as [(Hhr' & _)|(_ & Hcases)]; [congruence|].
    destruct (sr_wait P C c) as [|nw lw] eqn:Ew.
    - destruct (sr_failed P C c) as [|nf l0] eqn:Ef.
      + rewrite (Hnone eq_refl eq_refl) in Hcases. destruct Hcases as [[_ ->]|[(? & _)|[(? & ? & _)|(? & _)]]]; try done. by apply elem_of_nil in Hinq.
      + exfalso. destruct (Hfl nf ltac:(left)) as [Hlf _]. destruct (sb_single _ _ _ _ HB _ _ Hlf) as [Hs0 _].
        rewrite Hs0 in Hvc. assert (c = c4) as -> by congruence. rewrite Ew in Hnxwait. by apply elem_of_nil in Hnxwait.
    - rewrite (Hcr ltac:(done)) in Hcases. destruct Hcases as [[? _]|[(? & _)|[(sd' & _ & q' & -> & Hok)|(? & _)]]]; try done.
      apply elem_of_list_singleton in Hinq as ->. right. unfold join_req_ok in Hok. apply bool_decide_eq_true in Hok as [Hshape Hex].
      destruct Hshape as (Hcrq & Hsh & _ & _ & _ & _ & Hj & Hre & _). apply Exists_exists in Hex as (n & Hn & Hi & Hra).
      rewrite Ew in Hn. pose proof (Hw n Hn) as Hz. rewrite <- Ew in Hn. apply elem_sr_wait in Hn as [Hn _]. apply elem_of_mvals in Hn as [rid Hrid].
      destruct (Hkeys _ c rid n Hvc Hrid) as (h' & Hh' & Hm' & Hrid').
      destruct (Hcl _ c rid n Hvc Hrid) as [?|[(Hs0 & -> & _)|(_ & ? & _)]]; [lia| |done].
      rewrite Hs0, Hh0 in Hh'. injection Hh' as <-. unfold h0 in Hm'. cbn [cur_members snd] in Hm'. rewrite lookup_insert in Hm'. injection Hm' as Hm'.
      split; [|rewrite Hsh, Hi, Hra; done].
      split; [done|]. split; [done|]. split; [done|]. exists h0. rewrite Hsh, Hs0, Hi, Hrid', Hra, <- Hm'. split; [done|]. unfold h0. cbn [cur_members snd]. by rewrite lookup_insert. }
  (* the join request is in the batch *)
  assert (Hjoin : ∃ q, q ∈ b ∧ good_join (f_hist st4) tt q ∧ q_shard q = s0 ∧ q_inst q = x ∧ q_raft q = tt).
  { destruct (lostp_entry L P Ldec st4 t c4 HR4 Hc4e) as (h & sd & _ & _ & _ & _ & Hhr & _ & _ & Hcr & _). fold C in Hhr, Hcr.
    destruct (sched_join_complete P C b c4 sd Hal Hc4e Hhr) as (q & Hq & Hsq & Hok); [apply Hcr; intros Hnil; rewrite Hnil in Hnxwait; by apply elem_of_nil in Hnxwait|].
    exists q. split; [done|]. destruct (Hkinds q Hq) as [Hk|(Hg & ? & ? & Hra)].
    - exfalso. unfold join_req_ok in Hok. apply bool_decide_eq_true in Hok as [(Hcrq & _) _]. unfold is_kill in Hk. unfold is_create in Hcrq. by destruct (q_type q).
    - rewrite Hra in Hg. done. }
  assert (E' : fstep P st4 (ESchedule (OBatch b)) = FOk st5) by (cbn [fstep]; fold C; by rewrite Hal).
  pose proof (step_inv P st4 _ st5 HI4 Hfr E') as HI5.
  pose proof (fstep_time_ok P st4 _ st5 E' (ml_timeok _ _ _ HP4)) as Hto5.
  assert (Hst5 : f_hosts st5 = f_hosts st4 ∧ f_hist st5 = f_hist st4 ∧
                 f_db st5 = set_requests (f_db st4) (put_requests (d_requests (f_db st4)) b)).
  { destruct b as [|q0 b0].
    - injection E5 as <-. split; [done|]. split; [done|]. destruct st4 as [d ? ? ?]. cbn. by destruct d.
    - rewrite (schedule_db P st4 (q0 :: b0) HI4 Hal) in E5 by (intros y Hy; destruct Hfr as [_ Hfr]; by apply Hfr).
      injection E5 as <-. done. }
  destruct Hst5 as (Eh & Ehi & Ed).
  assert (Hnew : ∀ q, q ∈ b → nonout st5 (q_raft q) q).
  { intros q Hq. left. exists (for_addr (q_raft q) b). rewrite Ed. cbn [set_requests d_requests]. rewrite put_requests_lookup.
    rewrite bool_decide_eq_true_2 by (unfold mentions; apply elem_of_list_fmap; by exists q). split; [done|]. unfold for_addr. apply elem_of_list_filter. done. }
  assert (Hsplit : ∀ a q, nonout st5 a q → nonout st4 a q ∨ (q ∈ b ∧ q_raft q = a)).
  { intros a q [(qs & Hl0 & Hi0)|(fh & Hl0 & Hi0)]; [|left; right; exists fh; by rewrite <- Eh].
    rewrite Ed in Hl0. cbn [set_requests d_requests] in Hl0. rewrite put_requests_lookup in Hl0. case_bool_decide as Hm; [|left; left; eauto].
    injection Hl0 as <-. unfold for_addr in Hi0. apply elem_of_list_filter in Hi0 as [Hra Hi0]. by right. }
  assert (Hview5 : d_view (f_db st5) = d_view (f_db st4)) by (by rewrite Ed).
  assert (Htthost : is_Some (f_hosts st5 !! tt)).
  { rewrite Eh. destruct (Hmem4 x tt) as (_ & _ & fh & Hfh & _); [unfold h0; cbn [cur_members snd]; by rewrite lookup_insert|by eexists]. }
  assert (Hall : ∀ a q, nonout st5 a q → pendJ s0 x st5 a q).
  { intros a q Hq. destruct (Hsplit a q Hq) as [Hq4|[Hqb <-]].
    { left. unfold pendI. rewrite Ehi, Eh. by apply Hin4. }
    destruct (Hkinds q Hqb) as [Hk|(Hg & Hs & Hi & Hra)].
    - left. split; [|intros Hcq; unfold is_kill in Hk; unfold is_create in Hcq; by destruct (q_type q)].
      assert (Hbox : in_box (f_db st5) (f_hosts st5) [] q) by (destruct (Hnew q Hqb) as [(qs & ? & ?)|(fh & ? & ?)]; [left; eauto|right; right; left; eauto]).
      destruct (li_reqs _ _ _ _ _ HI5 q Hbox) as [_ Hreq]. unfold is_kill in Hk. destruct (q_type q) eqn:Ety; try done.
      destruct Hreq as (y & Hy & Hd). left; right; right. split; [unfold is_kill; by rewrite Ety|]. exists y. split; [done|].
      intros h Hh. by destruct (Hd h Hh).
    - right. rewrite Ehi. split; [done|]. split; [done|]. split; [done|]. by rewrite Hra. }
  split; [|split; [congruence|split; [rewrite Ed; cbn [set_requests d_tick]; exact Htick4|unfold mem_tick; rewrite Hview5; exact Hmt4]]].
  assert (Hmem_eq : ∀ s rid a, member st5 s rid a ↔ member st s rid a).
  { intros s rid a. unfold member. by rewrite Ehi, Hhi4. }
  split.
  - split; [exact HI5|]. split.
    + destruct HP4. split; try rewrite Ed; try rewrite Eh; try rewrite Ehi; cbn [set_requests d_tick d_shards d_view d_kill]; try done.
      all: try (rewrite Ed in Hto5; exact Hto5).
      intros a q Hq. left. split; [|rewrite <- Ehi; by apply (nonout_qextra st5 a q)].
      destruct (Hall a q Hq) as [[Hm _]|(Hg & _)]; [by rewrite Ehi in Hm|]. right; left. by rewrite Ehi in Hg.
    + intros a Ha. rewrite Eh. apply Hoh4. rewrite Ed in Ha. exact Ha.
  - intros s h c Hh Hc. rewrite Ehi in Hh. rewrite Hview5 in Hc. by apply (Hcur4 s).
  - exact Hall.
  - destruct Hjoin as (q & Hq & Hg & Hs & Hi & Hra). exists q. rewrite Ehi. split; [rewrite <- Hra; by apply Hnew|done].
  - apply (sb_single _ _ _ _ HB).
  - apply (sb_lost _ _ _ _ HB).
  - exists v, M, hs0. rewrite Ehi, Hhi4. split; [done|]. split; [done|]. split; [|done].
    unfold shard_size. rewrite Ed. cbn [set_requests d_shards]. rewrite Hsh4. exact Hsz0.
  - exists c4, nx. rewrite Hview5. split; [done|]. split; [done|]. split; [done|]. lia.
  - intros s c rid n Hc Hn Hne0. rewrite Hview5 in Hc. destruct (Hcl s c rid n Hc Hn) as [?|[(-> & -> & _)|(_ & ? & _)]]; [lia|done|done].
  - intros a fh Hfh. rewrite Eh in Hfh. destruct (fh_reps fh !! (s0, x)) as [lr|] eqn:Ek; [|done]. exfalso.
    destruct (Hkeys4 a fh (s0, x) Hfh ltac:(by eexists)) as (fh0 & Hfh0 & [lr0 Hk0]).
    by rewrite (Hxnd a fh0 Hfh0) in Hk0.
  - intros s rid Hl0 a fh Hfh. rewrite Eh in Hfh. destruct (fh_reps fh !! (s, rid)) as [lr|] eqn:Ek; [|done]. exfalso.
    destruct (Hkeys4 a fh (s, rid) Hfh ltac:(by eexists)) as (fh0 & Hfh0 & [lr0 Hk0]). by rewrite (sb_nodata _ _ _ _ HB s rid Hl0 a fh0 Hfh0) in Hk0.
  - intros s rid a Hm HnL (n & Hn & Hnz). rewrite Eh. apply Hmem_eq in Hm. rewrite Hview5 in Hn. pose proof Hn as Hn'. apply rec_of_Some in Hn' as (c & Hc & Hk).
    destruct (rec_of (d_view (f_db st)) s rid) as [n0|] eqn:En0.
    + apply rec_of_Some in En0 as (c1 & Hc1 & Hk1). apply Hrun4; [destruct Hm as (h & Hh & Hma); exists h; split; [done|by eexists]|].
      apply (sb_run _ _ _ _ HB s rid a Hm HnL). exists n0. split; [apply rec_of_Some; eauto|]. by apply (sb_stamped _ _ _ _ HB s c1 rid n0).
    + exfalso. destruct (KF s rid n Hn En0) as [-> ->]. assert (c = c4) as -> by congruence. assert (n = nx) as -> by congruence. done.
  - intros a fh s rid lr Hfh Hk. rewrite Eh in Hfh. destruct (Hkeys4 a fh (s, rid) Hfh ltac:(by eexists)) as (fh0 & Hfh0 & [lr0 Hk0]).
    destruct (sb_clean _ _ _ _ HB a fh0 s rid lr0 Hfh0 Hk0) as (b0 & Hm0). exists b0. by apply Hmem_eq.
  - intros a Ha. rewrite Ed in Ha. cbn [set_requests d_hosts] in Ha. rewrite Eh. apply Hdom4. destruct (Hdbk4 a Ha) as [?|?]; [done|by apply (sb_dbhosts _ _ _ _ HB)].
Qed.

(* the state after the round in which the join-CREATE is executed: as StageC, but x runs on t (and has not reported yet) *)
Record StageD (s0 f0 x t : N) (st : fstate) : Prop := mkStageD {
  sd_b : LostB L st;
  sd_cur : all_current st;
  sd_pend : ∀ a q, nonout st a q → pendJ s0 x st a q;
  sd_single : ∀ s f, L s f → s = s0 ∧ f = f0;
  sd_lost : L s0 f0;
  sd_mem : ∃ (v : N) (M : gmap N N) (hs0 : list hentry),
      f_hist st !! s0 = Some (((v + 1, <[x := t]> M) : hentry) :: (v, M) :: hs0) ∧ M !! x = None ∧
      size M = shard_size (f_db st) s0 ∧ (3 ≤ size M)%nat ∧ is_Some (M !! f0);
  sd_wait : ∃ c n, d_view (f_db st) !! s0 = Some c ∧ s_reps c !! x = Some n ∧ r_tick n = 0 ∧ r_first n ≠ 0;
  sd_stamped : ∀ s c rid n, d_view (f_db st) !! s = Some c → s_reps c !! rid = Some n → (s, rid) ≠ (s0, x) → r_tick n ≠ 0;
  sd_xrun : member_running (f_hosts st) s0 x t = true;
  sd_nodata : ∀ s rid, L s rid → ∀ a fh, f_hosts st !! a = Some fh → fh_reps fh !! (s, rid) = None;
  sd_run : ∀ s rid a, member st s rid a → ¬ L s rid → stamped (f_db st) s rid → member_running (f_hosts st) s rid a = true;
  sd_clean : ∀ a fh s rid lr, f_hosts st !! a = Some fh → fh_reps fh !! (s, rid) = Some lr → ∃ b, member st s rid b;
  sd_dbhosts : ∀ a, is_Some (d_hosts (f_db st) !! a) → is_Some (f_hosts st !! a) }.

Theorem lost_stage_join_started s0 f0 x tt st st' plogs nticks o :
  StageC s0 f0 x tt st → (∀ a, plogs a = true) → N.of_nat nticks * p_step P < p_ttl P →
  o ≠ OCrash →
  (∀ st4, pre_schedule P plogs nticks st = Some st4 → fresh_ok st4 (ESchedule o)) →
  healthy_round P plogs nticks o st = Some st' →
  ∃ b, o = OBatch b ∧ StageD s0 f0 x tt st' ∧ f_hist st' = f_hist st ∧
    d_tick (f_db st') = d_tick (f_db st) + N.of_nat nticks * p_step P ∧ mem_tick st' s0 f0 = mem_tick st s0 f0.
Proof.
  intros HB Hpl Httl Hnc Hfr Hr. pose proof (sc_b _ _ _ _ _ HB) as HLB. pose proof HLB as (HI & HP & Hoh).
  assert (Hin : jinert s0 x st) by (intros a q Hq; exact (sc_pend _ _ _ _ _ HB a q Hq)).
  rewrite healthy_round_pre in Hr. destruct (pre_schedule P plogs nticks st) as [st4|] eqn:Epre; [|done].
  destruct (join_pre s0 x tt st plogs nticks st4 HLB (sc_cur _ _ _ _ _ HB) Hin (sc_join _ _ _ _ _ HB) Hpl Epre) as
    (HX4 & Hin4 & Hcur4 & Hxrun4 & Hhi4 & Htick4 & Hsh4 & Hrec4 & Hplog4 & Hdbk4 & Hrun4 & Hkeys4 & Hdom4 & Hnoh4).
  specialize (Hfr st4 eq_refl).
  destruct (fstep P st4 (ESchedule o)) as [st5| |] eqn:E5; try done. injection Hr as <-.
  destruct HX4 as [(HI4 & HP4 & Hoh4) Hnc4].
  cbn [fstep] in E5. destruct (allowed P (ctx_of_db (f_db st4)) o) eqn:Hal; [|done].
  set (C := ctx_of_db (f_db st4)) in *. pose proof (loopinv_ctx_wf st4 HI4) as Hwf. fold C in Hwf.
  set (t := d_tick (f_db st)) in *.
  destruct (sc_mem _ _ _ _ _ HB) as (v & M & hs0 & Hh0 & Hxn & Hsz0 & H30 & Hf0in).
  destruct (sc_wait _ _ _ _ _ HB) as (c0 & n0 & Hc0 & Hn0 & Hn0t & Hn0f).
  set (h0 := ((v + 1, <[x := tt]> M) : hentry) :: (v, M) :: hs0) in *.
  assert (Hxno : ∀ a fh, f_hosts st !! a = Some fh → runs_on fh s0 x = false).
  { intros a fh Hfh. unfold runs_on. by rewrite (sc_xnodata _ _ _ _ _ HB a fh Hfh). }
  assert (Hpos : 0 < t) by apply (ml_time _ _ _ HP).
  (* the keys of the view after the reports *)
  assert (Hkeys : ∀ s c rid n, d_view (f_db st4) !! s = Some c → s_reps c !! rid = Some n →
            ∃ h, f_hist st !! s = Some h ∧ cur_members h !! rid = Some (r_addr n) ∧ r_id n = rid).
  { intros s c rid n Hc Hn. destruct (ml_viewdef _ _ _ HP4 s) as [_ [h Hh]]; [by eexists|].
    destruct (calm_view st4 s h c HI4 Hh Hc (Hcur4 s h c Hh Hc)) as (HM & _ & Hids). exists h. rewrite <- Hhi4. split; [done|].
    split; [rewrite <- HM, lookup_fmap, Hn; done|by destruct (Hids rid n Hn)]. }
  assert (KF : ∀ s rid n', rec_of (d_view (f_db st4)) s rid = Some n' → is_Some (rec_of (d_view (f_db st)) s rid)).
  { intros s rid n' Hn'. apply rec_of_Some in Hn' as (c4 & Hc4 & Hn4). destruct (Hkeys s c4 rid n' Hc4 Hn4) as (h & Hh & _).
    destruct (ml_members _ _ _ HP s h Hh) as (c & Hc & _).
    destruct (current_same_keys st st4 s h c c4 rid HI HI4 Hhi4 Hh Hc Hc4) as [n1 Hn1];
      [by apply (sc_cur _ _ _ _ _ HB s)|apply (Hcur4 s); [by rewrite Hhi4|done]|by eexists|].
    exists n1. apply rec_of_Some. eauto. }
  (* the classes of the records *)
  assert (Hcl : ∀ s c rid n, d_view (f_db st4) !! s = Some c → s_reps c !! rid = Some n →
            r_tick n = t ∨ (s = s0 ∧ rid = x ∧ r_tick n = 0 ∧ r_first n ≠ 0) ∨
            (L s rid ∧ r_tick n ≠ 0 ∧ ∀ hh, d_hosts (f_db st4) !! r_addr n = Some hh → (s, rid) ∉ h_plog hh)).
  { intros s c rid n Hc Hn. assert (Hrec : rec_of (d_view (f_db st4)) s rid = Some n) by (apply rec_of_Some; eauto).
    destruct (Hkeys s c rid n Hc Hn) as (h & Hh & Hm & _).
    destruct (Hrec4 s rid n Hrec) as [(n1 & Hn1 & Hf & [[_ Htn]|[Hno Htn]])|(Hnone & Hf & Htn)].
    - by left.
    - pose proof Hn1 as Hn1'. apply rec_of_Some in Hn1' as (c1 & Hc1 & Hk1).
      destruct (decide ((s, rid) = (s0, x))) as [Heq|Hneq].
      { injection Heq as -> ->. right; left. assert (c1 = c0) as -> by congruence. assert (n1 = n0) as -> by congruence.
        split; [done|]. split; [done|]. split; [congruence|congruence]. }
      right; right. pose proof (sc_stamped _ _ _ _ _ HB s c1 rid n1 Hc1 Hk1 Hneq) as Hnz.
      assert (Hl0 : L s rid).
      { destruct (Ldec s rid) as [?|HnL]; [done|]. exfalso.
        assert (Hmm : member st s rid (r_addr n)) by (by exists h).
        pose proof (sc_run _ _ _ _ _ HB s rid _ Hmm HnL ltac:(by exists n1)) as Hrr. apply running_runs_on in Hrr as (fh & Hfh & Hro).
        rewrite (Hno _ fh Hfh) in Hro. done. }
      split; [done|]. split; [congruence|]. intros hh Hhh Hlog.
      destruct (ml_members _ _ _ HP s h Hh) as (_ & _ & _ & Hmem). destruct (Hmem rid _ Hm) as (_ & _ & fh & Hfh & _).
      destruct (Hplog4 _ fh hh Hfh Hhh (s, rid) Hlog) as [lr Hk]. by rewrite (sc_nodata _ _ _ _ _ HB s rid Hl0 _ fh Hfh) in Hk.
    - exfalso. destruct Hnone as [Hnone|Hnc0]; [|rewrite (Hnc0 h Hh) in Hm; done].
      destruct (KF s rid n Hrec) as [? ?]. congruence. }
  assert (HR4 : PReady L P st4 t).
  { split.
    - exact HI4.
    - intros s Hs. destruct (ml_viewdef _ _ _ HP4 s Hs) as [[sd Hsd] _]. destruct (ml_defined _ _ _ HP4 s sd Hsd) as (_ & _ & Happ). by exists sd.
    - split; [lia|]. rewrite Htick4. fold t. lia.
    - intros s c rid n Hc Hn. destruct (Hcl s c rid n Hc Hn) as [?|[(_ & _ & ? & Hft)|?]]; [by left|right; left; done|by right; right].
    - intros s r1 r2 H1 H2. destruct (sc_single _ _ _ _ _ HB _ _ H1) as [_ ->]. by destruct (sc_single _ _ _ _ _ HB _ _ H2) as [_ ->].
    - intros s c r1 r2 n1 n2 Hc H1 H2 Hz1 Hz2.
      destruct (Hcl s c r1 n1 Hc H1) as [?|[(_ & -> & _)|(_ & ? & _)]]; [lia| |done].
      destruct (Hcl s c r2 n2 Hc H2) as [?|[(_ & -> & _)|(_ & ? & _)]]; [lia|done|done].
    - intros s rid Hl0. destruct (sc_single _ _ _ _ _ HB _ _ Hl0) as [-> _]. unfold shard_size. rewrite Hsh4. unfold shard_size in Hsz0. lia. }
  (* the record of x *)
  assert (Hh04 : f_hist st4 !! s0 = Some h0) by (by rewrite Hhi4).
  destruct (ml_members _ _ _ HP4 s0 h0 Hh04) as (c4 & Hc4 & _ & Hmem4).
  destruct (calm_view st4 s0 h0 c4 HI4 Hh04 Hc4 (Hcur4 s0 h0 c4 Hh04 Hc4)) as (HM4 & Hid4 & Hids4).
  assert (is_Some (s_reps c4 !! x)) as [nx Hnx].
  { rewrite <- (fmap_is_Some r_addr), <- lookup_fmap, HM4. unfold h0. cbn [cur_members snd]. rewrite lookup_insert. by eexists. }
  assert (Hnxw : r_tick nx = 0 ∧ r_first nx ≠ 0).
  { assert (Hrec : rec_of (d_view (f_db st4)) s0 x = Some nx) by (apply rec_of_Some; eauto).
    assert (Hrec0 : rec_of (d_view (f_db st)) s0 x = Some n0) by (apply rec_of_Some; eauto).
    destruct (Hrec4 s0 x nx Hrec) as [(n1 & Hn1 & Hf & [[(a & fh & Hfh & Hro) _]|[_ Htn]])|([Hnone|Hnc0] & _)].
    - rewrite (Hxno a fh Hfh) in Hro. done.
    - assert (n1 = n0) as -> by congruence. split; congruence.
    - congruence.
    - specialize (Hnc0 h0 Hh0). unfold h0 in Hnc0. cbn [cur_members snd] in Hnc0. by rewrite lookup_insert in Hnc0. }
  destruct Hnxw as [Hnx0 Hnxf].
  assert (Hmt4 : mem_tick st4 s0 f0 = mem_tick st s0 f0).
  { assert (is_Some (s_reps c4 !! f0)) as [nf Hnf].
    { rewrite <- (fmap_is_Some r_addr), <- lookup_fmap, HM4. unfold h0. cbn [cur_members snd]. rewrite lookup_insert_ne; [done|]. intros ->. destruct Hf0in; congruence. }
    assert (Hrecf : rec_of (d_view (f_db st4)) s0 f0 = Some nf) by (apply rec_of_Some; eauto).
    unfold mem_tick. rewrite Hrecf.
    destruct (Hrec4 s0 f0 nf Hrecf) as [(n1 & Hn1 & _ & [[(a & fh & Hfh & Hro) _]|[_ Htn]])|([Hnone|Hnc0] & _ & Htn)].
    - exfalso. unfold runs_on in Hro. by rewrite (sc_nodata _ _ _ _ _ HB s0 f0 (sc_lost _ _ _ _ _ HB) a fh Hfh) in Hro.
    - by rewrite Hn1.
    - rewrite Hnone. apply Htn. intros a fh Hfh. unfold runs_on. by rewrite (sc_nodata _ _ _ _ _ HB s0 f0 (sc_lost _ _ _ _ _ HB) a fh Hfh).
    - exfalso. specialize (Hnc0 h0 Hh0). unfold h0 in Hnc0. cbn [cur_members snd] in Hnc0.
      rewrite lookup_insert_ne in Hnc0; [destruct Hf0in; congruence|]. intros ->. destruct Hf0in; congruence. }
  assert (Hnoadd : ∀ c, c ∈ entries C → repair_action P C c ≠ AAdd).
  { intros c Hc. destruct (lostp_entry L P Ldec st4 t c HR4 Hc) as (h & sd & Hh & Hvc & _ & _ & _ & Hfl & _ & Hcr & Hnone & _). fold C in Hfl, Hcr, Hnone.
    destruct (sr_wait P C c) as [|nw lw] eqn:Ew; [|by rewrite (Hcr ltac:(done))].
    destruct (sr_failed P C c) as [|nf1 l0] eqn:Ef; [by rewrite (Hnone eq_refl eq_refl)|]. exfalso.
    destruct (Hfl nf1 ltac:(left)) as [Hlf _]. destruct (sc_single _ _ _ _ _ HB _ _ Hlf) as [Hs0 _].
    rewrite Hs0 in Hvc. assert (c = c4) as -> by congruence.
    assert (Hnxw' : nx ∈ sr_wait P C c4).
    { apply elem_sr_wait. split; [apply elem_of_mvals; by exists x|]. unfold replica_waiting, replica_failed. rewrite Hnx0. cbn.
      apply negb_true_iff, N.eqb_neq. first [done|lia]. }
    rewrite Ew in Hnxw'. by apply elem_of_nil in Hnxw'. }
  destruct o as [b| |]; [|exfalso; apply error_cause in Hal as (c & n & Hc & Ha & _); exact (Hnoadd c Hc Ha)|done].
  exists b. split; [done|].
  (* what the batch consists of *)
  assert (Hkinds : ∀ q, q ∈ b → is_kill q = true ∨
            (good_join (f_hist st4) (q_raft q) q ∧ q_shard q = s0 ∧ q_inst q = x ∧ q_raft q = tt)).
  { intros q Hq. destruct (batch_request_cases P C b q Hal Hq) as [Hk|(_ & c & qs & Hc & Hs & Hinq & Hg & _)]; [left; by apply (kills_are_kill C)|].
    destruct (lostp_entry L P Ldec st4 t c HR4 Hc) as (h & sd & Hh & Hvc & _ & _ & Hhr & Hfl & Hw & Hcr & Hnone & Hadd). fold C in Hhr, Hfl, Hw, Hcr, Hnone, Hadd.
    apply group_allowed_inv in Hg as [(Hhr' & _)|(_ & Hcases)]; [congruence|].
    destruct (sr_wait P C c) as [|nw lw] eqn:Ew.
    - destruct (sr_failed P C c) as [|nf l0] eqn:Ef.
      + rewrite (Hnone eq_refl eq_refl) in Hcases. destruct Hcases as [[_ ->]|[(? & _)|[(? & ? & _)|(? & _)]]]; try done. by apply elem_of_nil in Hinq.
      + exfalso. destruct (Hfl nf ltac:(left)) as [Hlf _]. destruct (sc_single _ _ _ _ _ HB _ _ Hlf) as [Hs0 _].
        rewrite Hs0 in Hvc. assert (c = c4) as -> by congruence.
        assert (Hnxwait : nx ∈ sr_wait P C c4).
        { apply elem_sr_wait. split; [apply elem_of_mvals; by exists x|]. unfold replica_waiting, replica_failed. rewrite Hnx0. cbn.
          by apply negb_true_iff, N.eqb_neq. }
        rewrite Ew in Hnxwait. by apply elem_of_nil in Hnxwait.
    - rewrite (Hcr ltac:(done)) in Hcases. destruct Hcases as [[? _]|[(? & _)|[(sd' & _ & q' & -> & Hok)|(? & _)]]]; try done.
      apply elem_of_list_singleton in Hinq as ->. right. unfold join_req_ok in Hok. apply bool_decide_eq_true in Hok as [Hshape Hex].
      destruct Hshape as (Hcrq & Hsh & _ & _ & _ & _ & Hj & Hre & _). apply Exists_exists in Hex as (n & Hn & Hi & Hra).
      rewrite Ew in Hn. pose proof (Hw n Hn) as Hz. rewrite <- Ew in Hn. apply elem_sr_wait in Hn as [Hn _]. apply elem_of_mvals in Hn as [rid Hrid].
      destruct (Hkeys _ c rid n Hvc Hrid) as (h' & Hh' & Hm' & Hrid').
      destruct (Hcl _ c rid n Hvc Hrid) as [?|[(Hs0 & -> & _)|(_ & ? & _)]]; [lia| |done].
      rewrite Hs0, Hh0 in Hh'. injection Hh' as <-. unfold h0 in Hm'. cbn [cur_members snd] in Hm'. rewrite lookup_insert in Hm'. injection Hm' as Hm'.
      split; [|rewrite Hsh, Hi, Hra; done].
      split; [done|]. split; [done|]. split; [done|]. exists h0. rewrite Hsh, Hs0, Hi, Hrid', Hra, <- Hm'. split; [done|]. unfold h0. cbn [cur_members snd]. by rewrite lookup_insert. }
  assert (E' : fstep P st4 (ESchedule (OBatch b)) = FOk st5) by (cbn [fstep]; fold C; by rewrite Hal).
  pose proof (step_inv P st4 _ st5 HI4 Hfr E') as HI5.
  pose proof (fstep_time_ok P st4 _ st5 E' (ml_timeok _ _ _ HP4)) as Hto5.
  assert (Hst5 : f_hosts st5 = f_hosts st4 ∧ f_hist st5 = f_hist st4 ∧
                 f_db st5 = set_requests (f_db st4) (put_requests (d_requests (f_db st4)) b)).
  { destruct b as [|q0 b0].
    - injection E5 as <-. split; [done|]. split; [done|]. destruct st4 as [d ? ? ?]. cbn. by destruct d.
    - rewrite (schedule_db P st4 (q0 :: b0) HI4 Hal) in E5 by (intros y Hy; destruct Hfr as [_ Hfr]; by apply Hfr).
      injection E5 as <-. done. }
  destruct Hst5 as (Eh & Ehi & Ed).
  assert (Hnew : ∀ q, q ∈ b → nonout st5 (q_raft q) q).
  { intros q Hq. left. exists (for_addr (q_raft q) b). rewrite Ed. cbn [set_requests d_requests]. rewrite put_requests_lookup.
    rewrite bool_decide_eq_true_2 by (unfold mentions; apply elem_of_list_fmap; by exists q). split; [done|]. unfold for_addr. apply elem_of_list_filter. done. }
  assert (Hsplit : ∀ a q, nonout st5 a q → nonout st4 a q ∨ (q ∈ b ∧ q_raft q = a)).
  { intros a q [(qs & Hl0 & Hi0)|(fh & Hl0 & Hi0)]; [|left; right; exists fh; by rewrite <- Eh].
    rewrite Ed in Hl0. cbn [set_requests d_requests] in Hl0. rewrite put_requests_lookup in Hl0. case_bool_decide as Hm; [|left; left; eauto].
    injection Hl0 as <-. unfold for_addr in Hi0. apply elem_of_list_filter in Hi0 as [Hra Hi0]. by right. }
  assert (Hview5 : d_view (f_db st5) = d_view (f_db st4)) by (by rewrite Ed).
  assert (Htthost : is_Some (f_hosts st5 !! tt)).
  { rewrite Eh. destruct (Hmem4 x tt) as (_ & _ & fh & Hfh & _); [unfold h0; cbn [cur_members snd]; by rewrite lookup_insert|by eexists]. }
  assert (Hall : ∀ a q, nonout st5 a q → pendJ s0 x st5 a q).
  { intros a q Hq. destruct (Hsplit a q Hq) as [Hq4|[Hqb <-]].
    { pose proof (Hin4 a q Hq4) as Hp. unfold pendJ, pendI in *. by rewrite Ehi, Eh. }
    destruct (Hkinds q Hqb) as [Hk|(Hg & Hs & Hi & Hra)].
    - left. split; [|intros Hcq; unfold is_kill in Hk; unfold is_create in Hcq; by destruct (q_type q)].
      assert (Hbox : in_box (f_db st5) (f_hosts st5) [] q) by (destruct (Hnew q Hqb) as [(qs & ? & ?)|(fh & ? & ?)]; [left; eauto|right; right; left; eauto]).
      destruct (li_reqs _ _ _ _ _ HI5 q Hbox) as [_ Hreq]. unfold is_kill in Hk. destruct (q_type q) eqn:Ety; try done.
      destruct Hreq as (y & Hy & Hd). left; right; right. split; [unfold is_kill; by rewrite Ety|]. exists y. split; [done|].
      intros h Hh. by destruct (Hd h Hh).
    - right. rewrite Ehi. split; [done|]. split; [done|]. split; [done|]. by rewrite Hra. }
  split; [|split; [congruence|split; [rewrite Ed; cbn [set_requests d_tick]; exact Htick4|unfold mem_tick; rewrite Hview5; exact Hmt4]]].
  assert (Hmem_eq : ∀ s rid a, member st5 s rid a ↔ member st s rid a).
  { intros s rid a. unfold member. by rewrite Ehi, Hhi4. }
  split.
  - split; [exact HI5|]. split.
    + destruct HP4. split; try rewrite Ed; try rewrite Eh; try rewrite Ehi; cbn [set_requests d_tick d_shards d_view d_kill]; try done.
      all: try (rewrite Ed in Hto5; exact Hto5).
      intros a q Hq. left. split; [|rewrite <- Ehi; by apply (nonout_qextra st5 a q)].
      destruct (Hall a q Hq) as [[Hm _]|(Hg & _)]; [by rewrite Ehi in Hm|]. right; left. by rewrite Ehi in Hg.
    + intros a Ha. rewrite Eh. apply Hoh4. rewrite Ed in Ha. exact Ha.
  - intros s h c Hh Hc. rewrite Ehi in Hh. rewrite Hview5 in Hc. by apply (Hcur4 s).
  - exact Hall.
  - apply (sc_single _ _ _ _ _ HB).
  - apply (sc_lost _ _ _ _ _ HB).
  - exists v, M, hs0. rewrite Ehi, Hhi4. split; [done|]. split; [done|]. split; [|done].
    unfold shard_size. rewrite Ed. cbn [set_requests d_shards]. rewrite Hsh4. exact Hsz0.
  - exists c4, nx. rewrite Hview5. done.
  - intros s c rid n Hc Hn Hne0. rewrite Hview5 in Hc. destruct (Hcl s c rid n Hc Hn) as [?|[(-> & -> & _)|(_ & ? & _)]]; [lia|done|done].
  - by rewrite Eh.
  - intros s rid Hl0 a fh Hfh. rewrite Eh in Hfh. destruct (fh_reps fh !! (s, rid)) as [lr|] eqn:Ek; [|done]. exfalso.
    destruct (Hkeys4 a fh (s, rid) Hfh ltac:(by eexists)) as [(fh0 & Hfh0 & [lr0 Hk0])|Heq].
    + by rewrite (sc_nodata _ _ _ _ _ HB s rid Hl0 a fh0 Hfh0) in Hk0.
    + injection Heq as -> ->. destruct (sc_single _ _ _ _ _ HB _ _ Hl0) as [_ ->]. destruct Hf0in as [? ?]. congruence.
  - intros s rid a Hm HnL (n & Hn & Hnz). rewrite Eh. apply Hmem_eq in Hm. rewrite Hview5 in Hn.
    destruct (KF s rid n Hn) as [n1 Hn1]. pose proof Hn1 as Hn1'. apply rec_of_Some in Hn1' as (c1 & Hc1 & Hk1).
    destruct (decide ((s, rid) = (s0, x))) as [Heq|Hneq].
    { exfalso. injection Heq as -> ->. apply rec_of_Some in Hn as (c & Hc & Hk). assert (c = c4) as -> by congruence. assert (n = nx) as -> by congruence. done. }
    apply Hrun4; [destruct Hm as (h & Hh & Hma); exists h; split; [done|by eexists]|].
    apply (sc_run _ _ _ _ _ HB s rid a Hm HnL). exists n1. split; [done|]. by apply (sc_stamped _ _ _ _ _ HB s c1 rid n1).
  - intros a fh s rid lr Hfh Hk. rewrite Eh in Hfh. destruct (Hkeys4 a fh (s, rid) Hfh ltac:(by eexists)) as [(fh0 & Hfh0 & [lr0 Hk0])|Heq].
    + destruct (sc_clean _ _ _ _ _ HB a fh0 s rid lr0 Hfh0 Hk0) as (b0 & Hm0). exists b0. by apply Hmem_eq.
    + injection Heq as -> ->. exists tt, h0. rewrite Ehi. split; [done|]. unfold h0. cbn [cur_members snd]. by rewrite lookup_insert.
  - intros a Ha. rewrite Ed in Ha. cbn [set_requests d_hosts] in Ha. rewrite Eh. apply Hdom4. destruct (Hdbk4 a Ha) as [?|?]; [done|by apply (sc_dbhosts _ _ _ _ _ HB)].
Qed.

(* the state after the round in which the new member has reported: the view shows one member more than the shard
   definition asks for, one of them (the lost one) failed - the DELETE of the lost member is pending, live *)
Definition pendD (s0 f0 : N) (st : fstate) (a : N) (q : request) : Prop :=
  pendI st a q ∨
  (is_delete q = true ∧ q_shard q = s0 ∧ q_members q = [f0] ∧ lchange (nonout st) (f_hosts st) (f_hist st) a q ∧ vready (f_db st) q).

Record StageE (s0 f0 x t : N) (st : fstate) : Prop := mkStageE {
  se_b : LostB L st;
  se_cur : all_current st;
  se_pend : ∀ a q, nonout st a q → pendD s0 f0 st a q;
  se_live : ∃ a q m, nonout st a q ∧ is_delete q = true ∧ q_shard q = s0 ∧ q_members q = [f0] ∧
              lchange (nonout st) (f_hosts st) (f_hist st) a q ∧ member st s0 m a ∧ ¬ L s0 m;
  se_single : ∀ s f, L s f → s = s0 ∧ f = f0;
  se_lost : L s0 f0;
  se_mem : ∃ (v : N) (M : gmap N N) (hs0 : list hentry),
      f_hist st !! s0 = Some (((v + 1, <[x := t]> M) : hentry) :: (v, M) :: hs0) ∧ M !! x = None ∧
      size M = shard_size (f_db st) s0 ∧ (3 ≤ size M)%nat ∧ is_Some (M !! f0);
  se_stamped : ∀ s c rid n, d_view (f_db st) !! s = Some c → s_reps c !! rid = Some n → r_tick n ≠ 0;
  se_nodata : ∀ s rid, L s rid → ∀ a fh, f_hosts st !! a = Some fh → fh_reps fh !! (s, rid) = None;
  se_run : ∀ s rid a, member st s rid a → ¬ L s rid → member_running (f_hosts st) s rid a = true;
  se_clean : ∀ a fh s rid lr, f_hosts st !! a = Some fh → fh_reps fh !! (s, rid) = Some lr → ∃ b, member st s rid b;
  se_dbhosts : ∀ a, is_Some (d_hosts (f_db st) !! a) → is_Some (f_hosts st !! a) }.

Theorem lost_stage_delete s0 f0 x tt st st' plogs nticks o :
  StageD s0 f0 x tt st → (∀ a, plogs a = true) → N.of_nat nticks * p_step P < p_ttl P →
  o ≠ OCrash →
  (∀ st4, pre_schedule P plogs nticks st = Some st4 → fresh_ok st4 (ESchedule o)) →
  p_ttl P < d_tick (f_db st) - mem_tick st s0 f0 →
  healthy_round P plogs nticks o st = Some st' →
  ∃ b, o = OBatch b ∧ StageE s0 f0 x tt st' ∧ f_hist st' = f_hist st ∧
    d_tick (f_db st') = d_tick (f_db st) + N.of_nat nticks * p_step P.
Proof.
  intros HB Hpl Httl Hnc Hfr Hover Hr. pose proof (sd_b _ _ _ _ _ HB) as HLB. pose proof HLB as (HI & HP & Hoh).
  assert (Hin : jinert s0 x st) by (intros a q Hq; exact (sd_pend _ _ _ _ _ HB a q Hq)).
  rewrite healthy_round_pre in Hr. destruct (pre_schedule P plogs nticks st) as [st4|] eqn:Epre; [|done].
  destruct (jinert_pre s0 x st plogs nticks st4 HLB (sd_cur _ _ _ _ _ HB) Hin Hpl Epre) as
    (HX4 & Hin4 & Hcur4 & Hhi4 & Htick4 & Hsh4 & Hrec4 & Hplog4 & Hdbk4 & Hrun4 & Hkeys4 & Hdom4 & Hnoh4).
  specialize (Hfr st4 eq_refl).
  destruct (fstep P st4 (ESchedule o)) as [st5| |] eqn:E5; try done. injection Hr as <-.
  destruct HX4 as [(HI4 & HP4 & Hoh4) Hnc4].
  cbn [fstep] in E5. destruct (allowed P (ctx_of_db (f_db st4)) o) eqn:Hal; [|done].
  set (C := ctx_of_db (f_db st4)) in *. pose proof (loopinv_ctx_wf st4 HI4) as Hwf. fold C in Hwf.
  set (t := d_tick (f_db st)) in *.
  destruct (sd_mem _ _ _ _ _ HB) as (v & M & hs0 & Hh0 & Hxn & Hsz0 & H30 & Hf0in).
  destruct (sd_wait _ _ _ _ _ HB) as (c0 & n0 & Hc0 & Hn0 & Hn0t & Hn0f).
  set (h0 := ((v + 1, <[x := tt]> M) : hentry) :: (v, M) :: hs0) in *.
  pose proof (sd_xrun _ _ _ _ _ HB) as Hxr. apply running_runs_on in Hxr as (fhx & Hfhx & Hrox).
  assert (Hpos : 0 < t) by apply (ml_time _ _ _ HP).
  (* the keys of the view after the reports *)
  assert (Hkeys : ∀ s c rid n, d_view (f_db st4) !! s = Some c → s_reps c !! rid = Some n →
            ∃ h, f_hist st !! s = Some h ∧ cur_members h !! rid = Some (r_addr n) ∧ r_id n = rid).
  { intros s c rid n Hc Hn. destruct (ml_viewdef _ _ _ HP4 s) as [_ [h Hh]]; [by eexists|].
    destruct (calm_view st4 s h c HI4 Hh Hc (Hcur4 s h c Hh Hc)) as (HM & _ & Hids). exists h. rewrite <- Hhi4. split; [done|].
    split; [rewrite <- HM, lookup_fmap, Hn; done|by destruct (Hids rid n Hn)]. }
  assert (KF : ∀ s rid n', rec_of (d_view (f_db st4)) s rid = Some n' → is_Some (rec_of (d_view (f_db st)) s rid)).
  { intros s rid n' Hn'. apply rec_of_Some in Hn' as (c4 & Hc4 & Hn4). destruct (Hkeys s c4 rid n' Hc4 Hn4) as (h & Hh & _).
    destruct (ml_members _ _ _ HP s h Hh) as (c & Hc & _).
    destruct (current_same_keys st st4 s h c c4 rid HI HI4 Hhi4 Hh Hc Hc4) as [n1 Hn1];
      [by apply (sd_cur _ _ _ _ _ HB s)|apply (Hcur4 s); [by rewrite Hhi4|done]|by eexists|].
    exists n1. apply rec_of_Some. eauto. }
  (* the classes of the records *)
  assert (Hcl : ∀ s c rid n, d_view (f_db st4) !! s = Some c → s_reps c !! rid = Some n →
            r_tick n = t ∨
            (L s rid ∧ r_tick n ≠ 0 ∧ (∀ hh, d_hosts (f_db st4) !! r_addr n = Some hh → (s, rid) ∉ h_plog hh) ∧ r_tick n = mem_tick st s rid)).
  { intros s c rid n Hc Hn. assert (Hrec : rec_of (d_view (f_db st4)) s rid = Some n) by (apply rec_of_Some; eauto).
    destruct (Hkeys s c rid n Hc Hn) as (h & Hh & Hm & _).
    destruct (Hrec4 s rid n Hrec) as [(n1 & Hn1 & Hf & [[_ Htn]|[Hno Htn]])|(Hnone & Hf & Htn)].
    - by left.
    - pose proof Hn1 as Hn1'. apply rec_of_Some in Hn1' as (c1 & Hc1 & Hk1).
      destruct (decide ((s, rid) = (s0, x))) as [Heq|Hneq].
      { exfalso. injection Heq as -> ->. rewrite (Hno tt fhx Hfhx) in Hrox. done. }
      right. pose proof (sd_stamped _ _ _ _ _ HB s c1 rid n1 Hc1 Hk1 Hneq) as Hnz.
      assert (Hl0 : L s rid).
      { destruct (Ldec s rid) as [?|HnL]; [done|]. exfalso.
        assert (Hmm : member st s rid (r_addr n)) by (by exists h).
        pose proof (sd_run _ _ _ _ _ HB s rid _ Hmm HnL ltac:(by exists n1)) as Hrr. apply running_runs_on in Hrr as (fh & Hfh & Hro).
        rewrite (Hno _ fh Hfh) in Hro. done. }
      split; [done|]. split; [congruence|]. split; [|unfold mem_tick; by rewrite Hn1]. intros hh Hhh Hlog.
      destruct (ml_members _ _ _ HP s h Hh) as (_ & _ & _ & Hmem). destruct (Hmem rid _ Hm) as (_ & _ & fh & Hfh & _).
      destruct (Hplog4 _ fh hh Hfh Hhh (s, rid) Hlog) as [lr Hk]. by rewrite (sd_nodata _ _ _ _ _ HB s rid Hl0 _ fh Hfh) in Hk.
    - exfalso. destruct Hnone as [Hnone|Hnc0]; [|rewrite (Hnc0 h Hh) in Hm; done].
      destruct (KF s rid n Hrec) as [? ?]. congruence. }
  assert (Hstamp4 : ∀ s c rid n, d_view (f_db st4) !! s = Some c → s_reps c !! rid = Some n → r_tick n ≠ 0).
  { intros s c rid n Hc Hn. destruct (Hcl s c rid n Hc Hn) as [?|(_ & ? & _)]; [lia|done]. }
  assert (HR4 : PReady L P st4 t).
  { split.
    - exact HI4.
    - intros s Hs. destruct (ml_viewdef _ _ _ HP4 s Hs) as [[sd Hsd] _]. destruct (ml_defined _ _ _ HP4 s sd Hsd) as (_ & _ & Happ). by exists sd.
    - split; [lia|]. rewrite Htick4. fold t. lia.
    - intros s c rid n Hc Hn. destruct (Hcl s c rid n Hc Hn) as [?|(? & ? & ? & _)]; [by left|by right; right].
    - intros s r1 r2 H1 H2. destruct (sd_single _ _ _ _ _ HB _ _ H1) as [_ ->]. by destruct (sd_single _ _ _ _ _ HB _ _ H2) as [_ ->].
    - intros s c r1 r2 n1 n2 Hc H1 H2 Hz1 Hz2.
      destruct (Hcl s c r1 n1 Hc H1) as [?|(_ & ? & _)]; [lia|done].
    - intros s rid Hl0. destruct (sd_single _ _ _ _ _ HB _ _ Hl0) as [-> _]. unfold shard_size. rewrite Hsh4. unfold shard_size in Hsz0. lia. }
  (* the entry of s0 *)
  assert (Hh04 : f_hist st4 !! s0 = Some h0) by (by rewrite Hhi4).
  destruct (ml_members _ _ _ HP4 s0 h0 Hh04) as (c4 & Hc4 & _ & Hmem4).
  destruct (calm_view st4 s0 h0 c4 HI4 Hh04 Hc4 (Hcur4 s0 h0 c4 Hh04 Hc4)) as (HM4 & Hid4 & Hids4).
  assert (Hc4e : c4 ∈ entries C) by (unfold entries, C, ctx_of_db; cbn [c_view]; apply elem_of_mvals; by exists s0).
  assert (Hf0m : <[x := tt]> M !! f0 = M !! f0) by (apply lookup_insert_ne; intros ->; destruct Hf0in; congruence).
  assert (is_Some (s_reps c4 !! f0)) as [nf Hnf].
  { rewrite <- (fmap_is_Some r_addr), <- lookup_fmap, HM4. unfold h0. cbn [cur_members snd]. by rewrite Hf0m. }
  assert (Hnw : ∀ c, c ∈ entries C → sr_wait P C c = []).
  { intros c Hc. destruct (lostp_entry L P Ldec st4 t c HR4 Hc) as (h & sd & Hh & Hvc & _ & _ & _ & _ & Hw & _). fold C in Hw.
    destruct (sr_wait P C c) as [|nw lw] eqn:Ew; [done|]. exfalso.
    pose proof (Hw nw ltac:(left)) as Hz. assert (Hnw : nw ∈ sr_wait P C c) by (rewrite Ew; left).
    apply elem_sr_wait in Hnw as [Hnw _]. apply elem_of_mvals in Hnw as [rid Hrid]. by apply (Hstamp4 _ c rid nw Hvc). }
  assert (Hnffail : nf ∈ sr_failed P C c4).
  { apply elem_sr_failed. split; [apply elem_of_mvals; by exists f0|].
    destruct (Hcl s0 c4 f0 nf Hc4 Hnf) as [Ht|(_ & Hnz & _ & Hmt)].
    - exfalso. assert (Hrec : rec_of (d_view (f_db st4)) s0 f0 = Some nf) by (apply rec_of_Some; eauto).
      destruct (Hrec4 s0 f0 nf Hrec) as [(n1 & Hn1 & _ & [[(a & fh & Hfh & Hro) _]|[_ Htn]])|([Hnone|Hnc0] & _)].
      + unfold runs_on in Hro. by rewrite (sd_nodata _ _ _ _ _ HB s0 f0 (sd_lost _ _ _ _ _ HB) a fh Hfh) in Hro.
      + unfold mem_tick in Hover. rewrite Hn1 in Hover. lia.
      + destruct (KF s0 f0 nf Hrec) as [? ?]. congruence.
      + specialize (Hnc0 h0 Hh0). unfold h0 in Hnc0. cbn [cur_members snd] in Hnc0. rewrite Hf0m in Hnc0. destruct Hf0in. congruence.
    - unfold replica_failed. assert ((r_tick nf =? 0) = false) as -> by (by apply N.eqb_neq).
      unfold entity_failed. apply N.ltb_lt. unfold C, ctx_of_db. cbn [c_tick]. rewrite Htick4, Hmt. fold t. lia. }
  assert (Hact4 : has_restore P C c4 = false ∧ repair_action P C c4 = ADelete).
  { destruct (lostp_entry L P Ldec st4 t c4 HR4 Hc4e) as (h & sd & _ & _ & _ & _ & Hhr & _ & _ & _ & _ & Hadd). fold C in Hhr, Hadd. split; [done|].
    destruct (Hadd (Hnw c4 Hc4e)) as [_ Hdel]; [intros Hnil; rewrite Hnil in Hnffail; by apply elem_of_nil in Hnffail|]. apply Hdel.
    rewrite Hid4, <- (map_size_fmap r_addr), HM4. unfold h0. cbn [cur_members snd]. rewrite map_size_insert_None by done.
    unfold shard_size. rewrite Hsh4. unfold shard_size in Hsz0. lia. }
  destruct Hact4 as [Hhr4 Hact4].
  assert (Hnoadd : ∀ c, c ∈ entries C → repair_action P C c ≠ AAdd).
  { intros c Hc. destruct (lostp_entry L P Ldec st4 t c HR4 Hc) as (h & sd & Hh & Hvc & _ & _ & _ & Hfl & _ & _ & Hnone & _). fold C in Hfl, Hnone.
    destruct (sr_failed P C c) as [|nf1 l0] eqn:Ef; [by rewrite (Hnone (Hnw c Hc) eq_refl)|].
    destruct (Hfl nf1 ltac:(left)) as [Hlf _]. destruct (sd_single _ _ _ _ _ HB _ _ Hlf) as [Hs0 _].
    rewrite Hs0 in Hvc. assert (c = c4) as -> by congruence. by rewrite Hact4. }
  destruct o as [b| |]; [|exfalso; apply error_cause in Hal as (c & n & Hc & Ha & _); exact (Hnoadd c Hc Ha)|done].
  exists b. split; [done|].
  (* what the batch consists of *)
  assert (Hkinds : ∀ q, q ∈ b → is_kill q = true ∨ (is_delete q = true ∧ q_shard q = s0 ∧ delete_req_ok P C c4 q = true)).
  { intros q Hq. destruct (batch_request_cases P C b q Hal Hq) as [Hk|(_ & c & qs & Hc & Hs & Hinq & Hg & _)]; [left; by apply (kills_are_kill C)|].
    destruct (lostp_entry L P Ldec st4 t c HR4 Hc) as (h & sd & Hh & Hvc & _ & _ & Hhr & Hfl & _ & _ & Hnone & _). fold C in Hhr, Hfl, Hnone.
    apply group_allowed_inv in Hg as [(Hhr' & _)|(_ & Hcases)]; [congruence|].
    destruct (sr_failed P C c) as [|nf1 l0] eqn:Ef.
    - rewrite (Hnone (Hnw c Hc) eq_refl) in Hcases. destruct Hcases as [[_ ->]|[(? & _)|[(? & ? & _)|(? & _)]]]; try done. by apply elem_of_nil in Hinq.
    - destruct (Hfl nf1 ltac:(left)) as [Hlf _]. destruct (sd_single _ _ _ _ _ HB _ _ Hlf) as [Hs0 _].
      rewrite Hs0 in Hvc. assert (c = c4) as -> by congruence. rewrite Hact4 in Hcases.
      destruct Hcases as [[? _]|[(_ & q' & -> & Hok)|[(? & ? & _)|(? & _)]]]; try done.
      apply elem_of_list_singleton in Hinq as ->. right. pose proof Hok as Hok'. unfold delete_req_ok in Hok'. apply bool_decide_eq_true in Hok' as (Hd & Hsh & _).
      split; [done|]. split; [by rewrite Hsh|done]. }
  assert (Hvalid : ∀ q, q ∈ b → valid_req q = true).
  { intros q Hq. apply allowed_batch_inv in Hal as (_ & _ & _ & _ & _ & Hv). rewrite Forall_forall in Hv. by apply Hv. }
  assert (E' : fstep P st4 (ESchedule (OBatch b)) = FOk st5) by (cbn [fstep]; fold C; by rewrite Hal).
  pose proof (step_inv P st4 _ st5 HI4 Hfr E') as HI5.
  pose proof (fstep_time_ok P st4 _ st5 E' (ml_timeok _ _ _ HP4)) as Hto5.
  assert (Hst5 : f_hosts st5 = f_hosts st4 ∧ f_hist st5 = f_hist st4 ∧
                 f_db st5 = set_requests (f_db st4) (put_requests (d_requests (f_db st4)) b)).
  { destruct b as [|q0 b0].
    - injection E5 as <-. split; [done|]. split; [done|]. destruct st4 as [d ? ? ?]. cbn. by destruct d.
    - rewrite (schedule_db P st4 (q0 :: b0) HI4 Hal) in E5 by (intros y Hy; destruct Hfr as [_ Hfr]; by apply Hfr).
      injection E5 as <-. done. }
  destruct Hst5 as (Eh & Ehi & Ed).
  assert (Hnew : ∀ q, q ∈ b → nonout st5 (q_raft q) q).
  { intros q Hq. left. exists (for_addr (q_raft q) b). rewrite Ed. cbn [set_requests d_requests]. rewrite put_requests_lookup.
    rewrite bool_decide_eq_true_2 by (unfold mentions; apply elem_of_list_fmap; by exists q). split; [done|]. unfold for_addr. apply elem_of_list_filter. done. }
  assert (Hsplit : ∀ a q, nonout st5 a q → nonout st4 a q ∨ (q ∈ b ∧ q_raft q = a)).
  { intros a q [(qs & Hl0 & Hi0)|(fh & Hl0 & Hi0)]; [|left; right; exists fh; by rewrite <- Eh].
    rewrite Ed in Hl0. cbn [set_requests d_requests] in Hl0. rewrite put_requests_lookup in Hl0. case_bool_decide as Hm; [|left; left; eauto].
    injection Hl0 as <-. unfold for_addr in Hi0. apply elem_of_list_filter in Hi0 as [Hra Hi0]. by right. }
  assert (Hview5 : d_view (f_db st5) = d_view (f_db st4)) by (by rewrite Ed).
  assert (Hmem_eq : ∀ s rid a, member st5 s rid a ↔ member st s rid a).
  { intros s rid a. unfold member. by rewrite Ehi, Hhi4. }
  assert (Hnocreate : ∀ a q, nonout st5 a q → is_create q = false).
  { intros a q Hq. destruct (Hsplit a q Hq) as [Hq4|[Hqb _]].
    - destruct (is_create q) eqn:Ec; [|done]. exfalso. pose proof (Hnoh4 a q Hq4) as Hno.
      destruct (Hin4 a q Hq4) as [[_ Hc]|(_ & _ & _ & [fh Hfh])]; [|congruence]. destruct (Hc Ec) as [_ [fh Hfh]]. congruence.
    - destruct (Hkinds q Hqb) as [Hk|[Hd _]]; [unfold is_kill in Hk|unfold is_delete in Hd]; unfold is_create; by destruct (q_type q). }
  (* the DELETE is a live change request *)
  assert (Hdel2 : ∀ q, q ∈ b → is_delete q = true →
            lchange (nonout st5) (f_hosts st5) (f_hist st5) (q_raft q) q ∧ vready (f_db st5) q ∧ q_members q = [f0] ∧
            ∃ m, member st5 s0 m (q_raft q) ∧ ¬ L s0 m).
  { intros q Hqb Hd0. destruct (Hkinds q Hqb) as [Hk|(Hd & Hs & Hok)]; [unfold is_kill in Hk; unfold is_delete in Hd0; by destruct (q_type q)|].
    unfold delete_req_ok in Hok. apply bool_decide_eq_true in Hok as (_ & Hsh & Hfence & Hexf & Hexok & _).
    apply Exists_exists in Hexf as (nf1 & Hnf1 & Hmem1). apply Exists_exists in Hexok as (m & Hm & Hra).
    destruct (lostp_entry L P Ldec st4 t c4 HR4 Hc4e) as (_ & _ & _ & _ & _ & _ & _ & Hfl & _). fold C in Hfl.
    destruct (Hfl nf1 Hnf1) as [Hl1 _]. rewrite Hid4 in Hl1. destruct (sd_single _ _ _ _ _ HB _ _ Hl1) as [_ Hid1]. rewrite Hid1 in Hmem1.
    apply elem_sr_ok in Hm as [Hm Hmok]. apply elem_of_mvals in Hm as [rm Hrm].
    assert (Hmm : cur_members h0 !! rm = Some (r_addr m)) by (rewrite <- HM4, lookup_fmap, Hrm; done).
    assert (Hrmf : rm ≠ f0).
    { intros ->. assert (m = nf) as -> by congruence. apply elem_sr_failed in Hnffail as [_ Hff].
      unfold replica_ok in Hmok. rewrite Hff in Hmok. done. }
    pose proof (Hvalid q Hqb) as Hv. unfold valid_req in Hv. unfold is_delete in Hd. destruct (q_type q) eqn:Ety; try done.
    rewrite Hmem1 in Hv. apply andb_true_iff in Hv as [_ Hv5]. apply andb_true_iff in Hv5 as [Hy0 Hs0']. apply negb_true_iff, N.eqb_neq in Hy0, Hs0'.
    assert (Hhof : hist_of (f_hist st5) (q_shard q) = h0) by (unfold hist_of; by rewrite Ehi, Hs, Hh04).
    split; [|split; [|split]].
    - split; [unfold is_change, is_add, is_delete; by rewrite Ety|]. split; [rewrite Hhof, Hfence; by apply (Hcur4 s0)|]. split.
      { split; [|done]. destruct (Hmem4 rm _ Hmm) as (_ & _ & fh & Hfh & _). rewrite Eh, Hra. by eexists. }
      split; [intros a' q' Hq' Hcq'; by rewrite (Hnocreate a' q' Hq') in Hcq'|]. split.
      + intros Ha. unfold is_add in Ha. by rewrite Ety in Ha.
      + intros _. exists f0. split; [done|]. split; [done|]. split; [done|]. rewrite Hhof, Hra. intros Hf0a.
        apply Hrmf. pose proof (li_hist _ _ _ _ _ HI4 s0 h0 Hh04) as Hw4.
        destruct (hist_wf_mem_ok _ _ Hw4 (cur_version h0, cur_members h0) ltac:(left)) as [_ Hinj]. cbn [snd] in Hinj. by apply (Hinj rm f0 (r_addr m)).
    - exists c4. rewrite Hview5, Hs. split; [done|]. split; [done|]. intros rid n Hn. by apply (Hstamp4 s0 c4 rid n).
    - done.
    - exists rm. split; [exists h0; rewrite Ehi, Hra; done|]. intros Hlm. by destruct (sd_single _ _ _ _ _ HB _ _ Hlm) as [_ ?]. }
  assert (Hall : ∀ a q, nonout st5 a q → pendD s0 f0 st5 a q).
  { intros a q Hq. destruct (Hsplit a q Hq) as [Hq4|[Hqb <-]].
    { left. unfold pendI. rewrite Ehi, Eh. split.
      - destruct (Hin4 a q Hq4) as [[Hm _]|(Hg & _)]; [done|by right; left].
      - intros Hcq. rewrite (Hnocreate a q Hq) in Hcq. done. }
    destruct (Hkinds q Hqb) as [Hk|(Hd & Hs & Hok)].
    - left. split; [|intros Hcq; unfold is_kill in Hk; unfold is_create in Hcq; by destruct (q_type q)].
      assert (Hbox : in_box (f_db st5) (f_hosts st5) [] q) by (destruct (Hnew q Hqb) as [(qs & ? & ?)|(fh & ? & ?)]; [left; eauto|right; right; left; eauto]).
      destruct (li_reqs _ _ _ _ _ HI5 q Hbox) as [_ Hreq]. unfold is_kill in Hk. destruct (q_type q) eqn:Ety; try done.
      destruct Hreq as (y & Hy & Hdd). left; right; right. split; [unfold is_kill; by rewrite Ety|]. exists y. split; [done|].
      intros h Hh. by destruct (Hdd h Hh).
    - right. destruct (Hdel2 q Hqb Hd) as (? & ? & ? & _). done. }
  split; [|split; [congruence|rewrite Ed; cbn [set_requests d_tick]; exact Htick4]].
  split.
  - split; [exact HI5|]. split.
    + destruct HP4. split; try rewrite Ed; try rewrite Eh; try rewrite Ehi; cbn [set_requests d_tick d_shards d_view d_kill]; try done.
      all: try (rewrite Ed in Hto5; exact Hto5).
      intros a q Hq. destruct (Hall a q Hq) as [[Hm _]|(_ & _ & _ & Hl0 & Hv)].
      * left. rewrite Ehi in Hm. split; [done|]. rewrite <- Ehi. by apply (nonout_qextra st5 a q).
      * right. rewrite Eh, Ehi in Hl0. rewrite Ed in Hv. done.
    + intros a Ha. rewrite Eh. apply Hoh4. rewrite Ed in Ha. exact Ha.
  - intros s h c Hh Hc. rewrite Ehi in Hh. rewrite Hview5 in Hc. by apply (Hcur4 s).
  - exact Hall.
  - destruct (sched_delete_complete P C b c4 Hal Hc4e Hhr4 Hact4) as (q & Hq & Hsq & Hok).
    assert (Hd : is_delete q = true) by (unfold delete_req_ok in Hok; by apply bool_decide_eq_true in Hok as (? & _)).
    destruct (Hdel2 q Hq Hd) as (Hl0 & _ & Hmq & m & Hmm & HnLm).
    exists (q_raft q), q, m. split; [by apply Hnew|]. split; [done|]. split; [by rewrite Hsq|]. done.
  - apply (sd_single _ _ _ _ _ HB).
  - apply (sd_lost _ _ _ _ _ HB).
  - exists v, M, hs0. rewrite Ehi, Hhi4. split; [done|]. split; [done|]. split; [|done].
    unfold shard_size. rewrite Ed. cbn [set_requests d_shards]. rewrite Hsh4. exact Hsz0.
  - intros s c rid n Hc Hn. rewrite Hview5 in Hc. by apply (Hstamp4 s c rid n).
  - intros s rid Hl0 a fh Hfh. rewrite Eh in Hfh. destruct (fh_reps fh !! (s, rid)) as [lr|] eqn:Ek; [|done]. exfalso.
    destruct (Hkeys4 a fh (s, rid) Hfh ltac:(by eexists)) as [(fh0 & Hfh0 & [lr0 Hk0])|Heq].
    + by rewrite (sd_nodata _ _ _ _ _ HB s rid Hl0 a fh0 Hfh0) in Hk0.
    + injection Heq as -> ->. destruct (sd_single _ _ _ _ _ HB _ _ Hl0) as [_ ->]. destruct Hf0in as [? ?]. congruence.
  - intros s rid a Hm HnL. rewrite Eh. apply Hmem_eq in Hm.
    apply Hrun4; [destruct Hm as (h & Hh & Hma); exists h; split; [done|by eexists]|].
    destruct (decide ((s, rid) = (s0, x))) as [Heq|Hneq].
    { injection Heq as -> ->. destruct Hm as (h & Hh & Hma). rewrite Hh0 in Hh. injection Hh as <-. unfold h0 in Hma. cbn [cur_members snd] in Hma.
      rewrite lookup_insert in Hma. injection Hma as <-. apply (sd_xrun _ _ _ _ _ HB). }
    apply (sd_run _ _ _ _ _ HB s rid a Hm HnL).
    destruct Hm as (h & Hh & Hma). destruct (ml_members _ _ _ HP s h Hh) as (c & Hc & _).
    destruct (calm_view st s h c HI Hh Hc (sd_cur _ _ _ _ _ HB s h c Hh Hc)) as (HM & _).
    assert (is_Some (s_reps c !! rid)) as [n1 Hn1] by (rewrite <- (fmap_is_Some r_addr), <- lookup_fmap, HM, Hma; by eexists).
    exists n1. split; [apply rec_of_Some; eauto|]. by apply (sd_stamped _ _ _ _ _ HB s c rid n1).
  - intros a fh s rid lr Hfh Hk. rewrite Eh in Hfh. destruct (Hkeys4 a fh (s, rid) Hfh ltac:(by eexists)) as [(fh0 & Hfh0 & [lr0 Hk0])|Heq].
    + destruct (sd_clean _ _ _ _ _ HB a fh0 s rid lr0 Hfh0 Hk0) as (b0 & Hm0). exists b0. by apply Hmem_eq.
    + injection Heq as -> ->. exists tt, h0. rewrite Ehi. split; [done|]. unfold h0. cbn [cur_members snd]. by rewrite lookup_insert.
  - intros a Ha. rewrite Ed in Ha. cbn [set_requests d_hosts] in Ha. rewrite Eh. apply Hdom4. destruct (Hdbk4 a Ha) as [?|?]; [done|by apply (sd_dbhosts _ _ _ _ _ HB)].
Qed.



End StageB.

(** * stage (d): the DELETE of the lost member is applied *)
Section StageDel.
Variable L : N → N → Prop.
Variable P : params.
Hypothesis Ldec : ∀ s rid, L s rid ∨ ¬ L s rid.

(* what is pending: CREATE requests are restores, ADD requests are stale, DELETE requests are stale or remove f0 from s0 *)
Definition pkindsD (s0 f0 : N) (B : N → request → Prop) (hist : gmap N (list hentry)) : Prop :=
  ∀ a q, B a q → (is_create q = true → is_restore q = true) ∧
                 (is_add q = true → q_ccid q ≠ cur_version (hist_of hist (q_shard q))) ∧
                 (is_delete q = true → (q_shard q = s0 ∧ ∃ ms, q_members q = f0 :: ms) ∨ q_ccid q ≠ cur_version (hist_of hist (q_shard q))).

Lemma sd_exec_req s0 f0 (B : N → request → Prop) d seen hosts hist h q qs x' :
  LI d hosts hist seen (q :: qs) → MendL L B (mkF d hosts hist seen) → nocreate B (mkF d hosts hist seen) →
  cleanx (hosts, hist) → pkindsD s0 f0 B hist → (∀ a fh, hosts !! a = Some fh → fh_reps fh !! (s0, f0) = None) →
  B h q → is_Some (hosts !! h) → exec_req h true (hosts, hist) q = Some x' →
  MendL L B (mkF d x'.1 x'.2 seen) ∧ nocreate B (mkF d x'.1 x'.2 seen) ∧ cleanx x' ∧ pkindsD s0 f0 B x'.2 ∧
  (∀ s, s ≠ s0 → x'.2 !! s = hist !! s) ∧
  (∀ a fh k lr, hosts !! a = Some fh → fh_reps fh !! k = Some lr →
     ∃ fh' lr', x'.1 !! a = Some fh' ∧ fh_reps fh' !! k = Some lr' ∧ (lr_running lr = true → lr_running lr' = true)) ∧
  (∀ a fh' k, x'.1 !! a = Some fh' → is_Some (fh_reps fh' !! k) → ∃ fh, hosts !! a = Some fh ∧ is_Some (fh_reps fh !! k)) ∧
  (hist_of x'.2 s0 = hist_of hist s0 ∨
   ∃ (e0 : hentry) (hs0 : list hentry), hist_of hist s0 = e0 :: hs0 ∧ hist_of x'.2 s0 = ((e0.1 + 1, delete f0 e0.2) : hentry) :: e0 :: hs0).
Proof.
  intros HI HP Hnc Hcl Hpk Hnd HB Hh E.
  destruct (ml_exec_req L B d seen hosts hist h q qs x' HI HP Hnc HB Hh E) as [HP' Hnc'].
  destruct (Hpk h q HB) as (Hcr & Hadl & Hdl).
  (* the history: unchanged, or the DELETE of f0 has been applied for s0 *)
  assert (Hhist : x'.2 = hist ∨ ∃ (e0 : hentry) hs0, q_shard q = s0 ∧ hist !! s0 = Some (e0 :: hs0) ∧
            x'.2 = <[s0 := (e0.1 + 1, delete f0 e0.2) :: e0 :: hs0]> hist).
  { destruct (exec_req_hist_cases h true (hosts, hist) q x' E) as [?|[(e0 & hs0 & rid & t & ms & ts & Ety & _ & _ & Eh & Hf & _ & Hx2)|(e0 & hs0 & rid & ms & Ety & Hmm & Eh & Hf & Hx2)]]; cbn [snd] in *.
    - by left.
    - exfalso. apply Hadl; [unfold is_add; by rewrite Ety|]. by rewrite Eh.
    - right. destruct (Hdl ltac:(unfold is_delete; by rewrite Ety)) as [(Hs & ms' & Hmm')|Hst]; [|rewrite Eh in Hst; done].
      rewrite Hmm in Hmm'. injection Hmm' as -> _. exists e0, hs0. split; [done|]. rewrite Hs in Eh, Hx2. split; [|done].
      unfold hist_of in Eh. destruct (hist !! s0) as [h0|]; cbn in Eh; [by rewrite Eh|done]. }
  assert (Hnew : ∀ a fh' k, x'.1 !! a = Some fh' → is_Some (fh_reps fh' !! k) → ∃ fh, hosts !! a = Some fh ∧ is_Some (fh_reps fh !! k)).
  { apply (exec_req_nonew h true (hosts, hist) q x' E Hcr). }
  split; [done|]. split; [done|]. split.
  { intros a fh' k Ha Hk. destruct (Hnew a fh' k Ha Hk) as (fh & Hfh & Hk0). destruct (Hcl a fh k Hfh Hk0) as (h0 & Hh0 & Hm0). cbn [snd] in Hh0.
    destruct Hhist as [->|(e0 & hs0 & _ & Hs & ->)]; [by exists h0|].
    destruct (decide (k.1 = s0)) as [Heq|Hne].
    - rewrite Heq in Hh0. assert (h0 = e0 :: hs0) as -> by congruence. exists ((e0.1 + 1, delete f0 e0.2) :: e0 :: hs0). cbn [snd]. rewrite Heq, lookup_insert. split; [done|].
      cbn [cur_members snd] in *. rewrite lookup_delete_ne; [done|]. intros Hf0. destruct k as [k1 k2]. cbn in Heq, Hf0. subst k1 k2.
      rewrite (Hnd a fh Hfh) in Hk0. by destruct Hk0.
    - exists h0. cbn [snd]. rewrite lookup_insert_ne by done. done. }
  split.
  { (* the pending requests after the step *)
    intros a0 q0 HB0. destruct (Hpk a0 q0 HB0) as (Hc0 & Ha0 & Hd0). split; [done|].
    destruct Hhist as [->|(e0 & hs0 & Hqs0 & Hs & ->)]; [done|].
    assert (Hle : is_change q0 = true → q_shard q0 = s0 → q_ccid q0 ≠ cur_version (hist_of hist (q_shard q0)) → q_ccid q0 ≠ e0.1 + 1).
    { intros Hch Heq Hst. destruct (ml_boxes _ _ _ HP a0 q0 HB0) as [[_ [Hqx _]]|[(_ & Hfen & _) _]]; [|done].
      specialize (Hqx Hch (e0 :: hs0)). cbn [f_hist] in Hqx. rewrite Heq in Hqx. specialize (Hqx Hs). cbn in Hqx. lia. }
    split.
    - intros Hia. destruct (decide (q_shard q0 = s0)) as [Heq|Hne].
      + unfold hist_of at 1. rewrite Heq, lookup_insert. cbn [default from_option id cur_version fst]. apply Hle; [unfold is_change; by rewrite Hia|done|by apply Ha0].
      + unfold hist_of. rewrite lookup_insert_ne by done. by apply Ha0.
    - intros Hd. destruct (Hd0 Hd) as [?|Hst]; [by left|]. destruct (decide (q_shard q0 = s0)) as [Heq|Hne].
      + right. unfold hist_of at 1. rewrite Heq, lookup_insert. cbn [default from_option id cur_version fst]. apply Hle; [unfold is_change; by rewrite Hd, orb_true_r|done|done].
      + right. unfold hist_of. rewrite lookup_insert_ne by done. exact Hst. }
  split.
  { intros s Hs0. destruct Hhist as [->|(e0 & hs0 & Hqs0 & _ & ->)]; [done|]. rewrite lookup_insert_ne; [done|congruence]. }
  split; [|split; [exact Hnew|]].
  2:{ destruct Hhist as [->|(e0 & hs0 & _ & Hs & ->)]; [by left|]. right. exists e0, hs0. unfold hist_of. rewrite Hs, lookup_insert. done. }
  (* every replica stays *)
  apply (exec_req_mono h (hosts, hist) q x' E).
  - intros Hk y ms fh lr Hy Hfh Hkk. exfalso.
    destruct (ml_boxes _ _ _ HP h q HB) as [[Hm _]|[(Hch & _) _]]; [|by rewrite (kill_not_change q Hk) in Hch].
    destruct Hm as [[(Hres & _)|[(Hch & _)|(_ & y' & Hy' & Hd)]]|[(Hc & _)|(Hres & _)]].
    + unfold is_restore, is_create in Hres. unfold is_kill in Hk. by destruct (q_type q).
    + by rewrite (kill_not_change q Hk) in Hch.
    + cbn [fst] in Hfh. destruct (Hcl h fh (q_shard q, y) Hfh ltac:(by eexists)) as (h0 & Hh0 & Hm0). cbn [fst snd f_hist] in *.
      rewrite Hy in Hy'. injection Hy' as <-. specialize (Hd h0 Hh0). apply is_member_false in Hd. rewrite Hd in Hm0. by destruct Hm0.
    + unfold is_create in Hc. unfold is_kill in Hk. by destruct (q_type q).
    + unfold is_restore, is_create in Hres. unfold is_kill in Hk. by destruct (q_type q).
  - intros Hd. destruct (Hdl Hd) as [(Hs & ms' & Hmm')|Hst]; [|by left]. right. intros y ms fh Hy Hfh. cbn [fst] in Hfh.
    rewrite Hmm' in Hy. injection Hy as <- _. rewrite Hs. by apply (Hnd h fh).
Qed.

Lemma del_applies h x q x' s0 (e0 : hentry) hs0 y ms fh rid lr :
  exec_req h true x q = Some x' → q_type q = RDelete → q_shard q = s0 → q_members q = y :: ms →
  hist_of x.2 s0 = e0 :: hs0 → q_ccid q = e0.1 → is_member e0.2 y = true →
  x.1 !! h = Some fh → fh_reps fh !! (s0, rid) = Some lr → lr_running lr = true → is_member e0.2 rid = true →
  quorum_running x.1 s0 e0.2 = true →
  hist_of x'.2 s0 = (e0.1 + 1, delete y e0.2) :: e0 :: hs0.
Proof.
  intros E Ety Hs Hm Hh Hf Hu Hfh Hk Hr Hmem Hq. unfold exec_req in E. rewrite Hfh, Ety, Hm, Hs, Hh in E.
  assert (Hcc : cc_ready true x.1 (fh_reps fh) s0 e0.1 e0.2 (q_ccid q) = true).
  { unfold cc_ready. rewrite Hq, Hf, N.eqb_refl. cbn [andb]. rewrite !andb_true_r. apply existsb_exists. exists rid. split; [|done].
    apply elem_of_list_In, running_of_elem. by exists lr. }
  rewrite Hcc, Hu in E. cbn [negb andb] in E. injection E as <-. cbn [snd]. unfold hist_of. by rewrite lookup_insert.
Qed.

(* the history of s0 is extended, and the first new entry - if any - records the removal of f0 *)
Definition dchain (f0 : N) (h h' : list hentry) : Prop :=
  h' = h ∨ ∃ (e0 : hentry) (hs0 l : list hentry), h = e0 :: hs0 ∧ h' = l ++ ((e0.1 + 1, delete f0 e0.2) : hentry) :: e0 :: hs0.
Lemma dchain_refl f0 h : dchain f0 h h.
Proof. by left. Qed.
Lemma dchain_trans f0 h1 h2 h3 : dchain f0 h1 h2 → dchain f0 h2 h3 → dchain f0 h1 h3.
Proof.
  intros [->|(e0 & hs0 & l & -> & ->)] H23; [done|]. destruct H23 as [->|(e1 & hs1 & l1 & He & ->)]; [right; by exists e0, hs0, l|].
  right. exists e0, hs0, (l1 ++ ((e1.1 + 1, delete f0 e1.2) : hentry) :: l). rewrite <- app_assoc. cbn [app]. by rewrite <- He.
Qed.
Lemma dchain_one f0 (h h' : list hentry) :
  (h' = h ∨ ∃ (e0 : hentry) (hs0 : list hentry), h = e0 :: hs0 ∧ h' = ((e0.1 + 1, delete f0 e0.2) : hentry) :: e0 :: hs0) → dchain f0 h h'.
Proof. intros [->|(e0 & hs0 & -> & ->)]; [by left|]. right. by exists e0, hs0, []. Qed.

(* the DELETE that will be applied: fence current, f0 a member, proposed on the NodeHost of a member that is not lost *)
Definition gooddel (s0 f0 : N) (h0 : list hentry) (h : N) (q : request) : Prop :=
  q_type q = RDelete ∧ q_shard q = s0 ∧
  ∃ ms (e0 : hentry) hs0, q_members q = f0 :: ms ∧ h0 = e0 :: hs0 ∧ q_ccid q = e0.1 ∧ is_Some (e0.2 !! f0) ∧
    (∃ rid, cur_members h0 !! rid = Some h ∧ ¬ L s0 rid) ∧ (3 ≤ size e0.2)%nat ∧ (∀ r1 r2, L s0 r1 → L s0 r2 → r1 = r2).

Record SDx (B : N → request → Prop) (d : db) (seen : gset N) (s0 f0 : N) (h0 : list hentry) (x : xstate) : Prop := mkSDx {
  dx_ml : MendL L B (mkF d x.1 x.2 seen);
  dx_nc : nocreate B (mkF d x.1 x.2 seen);
  dx_cl : cleanx x;
  dx_pk : pkindsD s0 f0 B x.2;
  dx_ext : ∃ l, hist_of x.2 s0 = l ++ h0;
  dx_gr : grun L s0 h0 x;
  dx_nd : ∀ a fh, x.1 !! a = Some fh → fh_reps fh !! (s0, f0) = None }.

Lemma sd_exec_one (B : N → request → Prop) d seen s0 f0 h0 h q qs x x' :
  LI d x.1 x.2 seen (q :: qs) → SDx B d seen s0 f0 h0 x → B h q → is_Some (x.1 !! h) → exec_req h true x q = Some x' →
  SDx B d seen s0 f0 h0 x' ∧
  (∀ a fh k lr, x.1 !! a = Some fh → fh_reps fh !! k = Some lr →
     ∃ fh' lr', x'.1 !! a = Some fh' ∧ fh_reps fh' !! k = Some lr' ∧ (lr_running lr = true → lr_running lr' = true)) ∧
  (∀ a fh' k, x'.1 !! a = Some fh' → is_Some (fh_reps fh' !! k) → ∃ fh, x.1 !! a = Some fh ∧ is_Some (fh_reps fh !! k)) ∧
  (length (hist_of x.2 s0) ≤ length (hist_of x'.2 s0))%nat ∧ (∀ s, s ≠ s0 → x'.2 !! s = x.2 !! s) ∧
  (gooddel s0 f0 h0 h q → hist_of x.2 s0 = h0 → (length h0 < length (hist_of x'.2 s0))%nat) ∧
  dchain f0 (hist_of x.2 s0) (hist_of x'.2 s0).
Proof.
  destruct x as [hosts hist]. cbn [fst snd]. intros HI HS HB Hh E.
  destruct (sd_exec_req s0 f0 B d seen hosts hist h q qs x' HI (dx_ml _ _ _ _ _ _ _ HS) (dx_nc _ _ _ _ _ _ _ HS) (dx_cl _ _ _ _ _ _ _ HS) (dx_pk _ _ _ _ _ _ _ HS) (dx_nd _ _ _ _ _ _ _ HS) HB Hh E)
    as (HP' & Hnc' & Hcl' & Hpk' & Hoth & Hmono & Hnew & Hd1).
  destruct (exec_req_hist h true (hosts, hist) q x' E s0) as [l1 Hl1]. cbn [snd] in Hl1.
  destruct (dx_ext _ _ _ _ _ _ _ HS) as [l0 Hl0]. cbn [snd] in Hl0.
  assert (Hlen : (length (hist_of hist s0) ≤ length (hist_of x'.2 s0))%nat) by (rewrite Hl1, app_length; lia).
  split; [split|].
  - exact HP'.
  - exact Hnc'.
  - exact Hcl'.
  - exact Hpk'.
  - exists (l1 ++ l0). by rewrite Hl1, Hl0, app_assoc.
  - intros Hh' rid a Hm HnL.
    assert (Hh0 : hist_of hist s0 = h0).
    { rewrite Hl1, Hl0 in Hh'. apply (f_equal length) in Hh'. rewrite !app_length in Hh'. assert (l1 = []) as -> by (destruct l1; [done|cbn in Hh'; lia]).
      assert (l0 = []) as -> by (destruct l0; [done|cbn in Hh'; lia]). done. }
    pose proof (dx_gr _ _ _ _ _ _ _ HS Hh0 rid a Hm HnL) as Hr. cbn [fst] in Hr. unfold member_running in Hr |- *.
    destruct (hosts !! a) as [fh|] eqn:Ha; [|done]. apply andb_true_iff in Hr as [_ Hr].
    destruct (fh_reps fh !! (s0, rid)) as [lr|] eqn:Ek; [|done]. destruct (Hmono a fh (s0, rid) lr Ha Ek) as (fh' & lr' & Hfh' & Hk' & Hrr).
    rewrite Hfh', Hk'. destruct (ml_hosts _ _ _ HP' a fh' Hfh') as [-> _]. cbn. by apply Hrr.
  - intros a fh' Hfh'. destruct (fh_reps fh' !! (s0, f0)) as [lr|] eqn:Ek; [|done]. exfalso.
    destruct (Hnew a fh' (s0, f0) Hfh' ltac:(by eexists)) as (fh & Hfh & [lr0 Hk0]). by rewrite (dx_nd _ _ _ _ _ _ _ HS a fh Hfh) in Hk0.
  - split; [exact Hmono|]. split; [exact Hnew|]. split; [exact Hlen|]. split; [exact Hoth|]. split; [|by apply dchain_one].
    intros (Ety & Hs & ms & e0 & hs0 & Hmm & -> & Hf & Hu & (rid & Hrid & HnL) & H3 & Hone) Hh0.
    pose proof (dx_gr _ _ _ _ _ _ _ HS Hh0 rid h Hrid HnL) as Hr. cbn [fst] in Hr. unfold member_running in Hr.
    destruct (hosts !! h) as [fh|] eqn:Hfh; [|done]. apply andb_true_iff in Hr as [_ Hr].
    destruct (fh_reps fh !! (s0, rid)) as [lr|] eqn:Ek; [|done].
    pose proof (grun_quorum L Ldec s0 e0 hs0 (hosts, hist) (dx_gr _ _ _ _ _ _ _ HS) Hh0 Hone H3) as Hq.
    rewrite (del_applies h (hosts, hist) q x' s0 e0 hs0 f0 ms fh rid lr E Ety Hs Hmm Hh0 Hf ltac:(apply is_member_true; exact Hu) Hfh Ek Hr ltac:(apply is_member_true; by eexists) Hq).
    cbn [length]. lia.
Qed.

Lemma sd_exec_all (B : N → request → Prop) d seen s0 f0 h0 h qs : ∀ x x',
  LI d x.1 x.2 seen qs → SDx B d seen s0 f0 h0 x → (∀ q, q ∈ qs → B h q) → is_Some (x.1 !! h) → exec_all h true x qs = Some x' →
  LI d x'.1 x'.2 seen [] ∧ SDx B d seen s0 f0 h0 x' ∧
  (∀ a fh k lr, x.1 !! a = Some fh → fh_reps fh !! k = Some lr →
     ∃ fh' lr', x'.1 !! a = Some fh' ∧ fh_reps fh' !! k = Some lr' ∧ (lr_running lr = true → lr_running lr' = true)) ∧
  (∀ a fh' k, x'.1 !! a = Some fh' → is_Some (fh_reps fh' !! k) → ∃ fh, x.1 !! a = Some fh ∧ is_Some (fh_reps fh !! k)) ∧
  (length (hist_of x.2 s0) ≤ length (hist_of x'.2 s0))%nat ∧ (∀ s, s ≠ s0 → x'.2 !! s = x.2 !! s) ∧
  ((∃ q, q ∈ qs ∧ gooddel s0 f0 h0 h q) → (length h0 < length (hist_of x'.2 s0))%nat) ∧
  dchain f0 (hist_of x.2 s0) (hist_of x'.2 s0).
Proof.
  induction qs as [|q qs IH]; intros x x' HI HS HB Hh E; cbn [exec_all] in E.
  { injection E as <-. split; [done|]. split; [done|]. split; [intros a fh k lr Ha Hk; by exists fh, lr|]. split; [intros a fh' k Ha Hk; by exists fh'|].
    split; [done|]. split; [done|]. split; [|apply dchain_refl]. intros (q & Hq & _). by apply elem_of_nil in Hq. }
  destruct (exec_req h true x q) as [x1|] eqn:E1; [|done].
  destruct (sd_exec_one B d seen s0 f0 h0 h q qs x x1 HI HS (HB q ltac:(left)) Hh E1) as (HS1 & Hm1 & Hn1 & Hl1 & Ho1 & Hap1 & Hdc1).
  assert (HI1 : LI d x1.1 x1.2 seen qs) by (destruct x as [hosts hist]; apply (exec_req_inv _ _ _ _ _ _ _ _ _ HI E1)).
  assert (Hh1 : is_Some (x1.1 !! h)) by (destruct (exec_req_keys h true x q x1 E1) as [Hdom _]; by apply Hdom).
  destruct (IH x1 x' HI1 HS1 ltac:(intros q0 Hq0; apply HB; by right) Hh1 E) as (HI' & HS' & Hm2 & Hn2 & Hl2 & Ho2 & Hap2 & Hdc2).
  split; [done|]. split; [done|]. split; [|split; [|split; [lia|split; [intros s Hs; rewrite (Ho2 s Hs); by apply Ho1|]]]].
  - intros a fh k lr Ha Hk. destruct (Hm1 a fh k lr Ha Hk) as (fh1 & lr1 & Hfh1 & Hk1 & Hr1). destruct (Hm2 a fh1 k lr1 Hfh1 Hk1) as (fh2 & lr2 & ? & ? & Hr2).
    exists fh2, lr2. split; [done|]. split; [done|]. intros Hr. by apply Hr2, Hr1.
  - intros a fh' k Ha Hk. destruct (Hn2 a fh' k Ha Hk) as (fh1 & Hfh1 & Hk1). by apply (Hn1 a fh1 k).
  - split; [|by apply (dchain_trans f0 _ _ _ Hdc1 Hdc2)]. intros (q0 & Hq0 & Hg). destruct (dx_ext _ _ _ _ _ _ _ HS) as [l0 Hl0].
    destruct l0 as [|e l0]; [|rewrite Hl0, app_length in Hl1; cbn [length] in Hl1; lia].
    cbn [app] in Hl0. apply elem_of_cons in Hq0 as [->|Hq0]; [specialize (Hap1 Hg Hl0); lia|]. apply Hap2. by exists q0.
Qed.

(* the invariant of the execution phase, on fleet states *)
Definition SDs (s0 f0 : N) (h0 : list hentry) (st : fstate) : Prop :=
  LoopInv st ∧ SDx (nonout st) (f_db st) (f_seen st) s0 f0 h0 (f_hosts st, f_hist st) ∧ out_hosts st.

Lemma sd_exec_event s0 f0 h0 st a st' :
  SDs s0 f0 h0 st → fstep P st (EExec a true) = FOk st' →
  SDs s0 f0 h0 st' ∧ f_db st' = f_db st ∧
  (∀ b fh k lr, f_hosts st !! b = Some fh → fh_reps fh !! k = Some lr →
     ∃ fh' lr', f_hosts st' !! b = Some fh' ∧ fh_reps fh' !! k = Some lr' ∧ (lr_running lr = true → lr_running lr' = true)) ∧
  (∀ b fh' k, f_hosts st' !! b = Some fh' → is_Some (fh_reps fh' !! k) → ∃ fh, f_hosts st !! b = Some fh ∧ is_Some (fh_reps fh !! k)) ∧
  (∀ b, match f_hosts st !! b with
        | Some fh => ∃ fh', f_hosts st' !! b = Some fh' ∧ fh_queue fh' = (if decide (b = a) then [] else fh_queue fh)
        | None => f_hosts st' !! b = None end) ∧
  (length (hist_of (f_hist st) s0) ≤ length (hist_of (f_hist st') s0))%nat ∧ (∀ s, s ≠ s0 → f_hist st' !! s = f_hist st !! s) ∧
  ((∃ fh q, f_hosts st !! a = Some fh ∧ q ∈ fh_queue fh ∧ gooddel s0 f0 h0 a q) → (length h0 < length (hist_of (f_hist st') s0))%nat) ∧
  dchain f0 (hist_of (f_hist st) s0) (hist_of (f_hist st') s0).
Proof.
  destruct st as [d hosts hist seen]. intros (HI & HS & Hoh). cbn [fstep f_db f_hosts f_hist f_seen] in *.
  destruct (hosts !! a) as [fh|] eqn:Ha; [|done]. destruct (ml_hosts _ _ _ (dx_ml _ _ _ _ _ _ _ HS) a fh Ha) as [Hup Hout]. cbn [f_hosts] in Hup. rewrite Hup.
  set (hosts0 := <[a := mkFHost true (fh_region fh) (fh_reps fh) [] (fh_out fh)]> hosts).
  destruct (exec_all a true (hosts0, hist) (fh_queue fh)) as [x|] eqn:Ex; [|done]. intros [= <-].
  set (st := mkF d hosts hist seen) in *.
  pose proof (exec_start st a fh HI Ha) as HI0. cbn [f_db f_hosts f_hist f_seen st] in HI0. fold hosts0 in HI0.
  assert (Hsame : ∀ b, match hosts !! b with
        | Some fhb => ∃ fh', hosts0 !! b = Some fh' ∧ fh_reps fh' = fh_reps fhb ∧ fh_up fh' = true ∧ fh_out fh' = None
        | None => hosts0 !! b = None end).
  { intros b. unfold hosts0. destruct (decide (b = a)) as [->|Hne].
    - rewrite Ha, lookup_insert. eexists. split; [done|]. cbn. done.
    - rewrite lookup_insert_ne by done. destruct (hosts !! b) as [fhb|] eqn:Hb; [|done]. exists fhb. split; [done|]. split; [done|].
      apply (ml_hosts _ _ _ (dx_ml _ _ _ _ _ _ _ HS) b fhb Hb). }
  assert (Hback : ∀ b fh', hosts0 !! b = Some fh' → ∃ fhb, hosts !! b = Some fhb ∧ fh_reps fh' = fh_reps fhb).
  { intros b fh' Hb. specialize (Hsame b). destruct (hosts !! b) as [fhb|]; [|congruence]. destruct Hsame as (fh2 & H2 & Hr & _). exists fhb. split; [done|]. congruence. }
  assert (HS0 : SDx (nonout st) d seen s0 f0 h0 (hosts0, hist)).
  { destruct HS. cbn [fst snd] in *. split; cbn [fst snd]; try done.
    - by apply (ml_same_reps L _ d hosts hosts0 hist seen).
    - intros b fh' k Hb Hk. destruct (Hback b fh' Hb) as (fhb & Hfhb & Hr). rewrite Hr in Hk. by apply (dx_cl0 b fhb k).
    - intros Hh rid b Hm HnL. specialize (dx_gr0 Hh rid b Hm HnL). cbn [fst] in *. unfold member_running in *. specialize (Hsame b).
      destruct (hosts !! b) as [fhb|]; [|done]. destruct Hsame as (fh2 & -> & -> & -> & _). apply andb_true_iff in dx_gr0 as [_ ?]. done.
    - intros b fh' Hb. destruct (Hback b fh' Hb) as (fhb & Hfhb & Hr). rewrite Hr. by apply (dx_nd0 b fhb). }
  destruct (sd_exec_all (nonout st) d seen s0 f0 h0 a (fh_queue fh) (hosts0, hist) x HI0 HS0) as (HI' & HS' & Hmono & Hnew & Hlen & Hoth & Happ & Hdc); [| |done|].
  { intros q Hq. right. exists fh. done. }
  { cbn. unfold hosts0. rewrite lookup_insert. by eexists. }
  pose proof (exec_all_frame a true (fh_queue fh) (hosts0, hist) x Ex) as Hfr. cbn [fst] in Hfr.
  assert (Hq : ∀ b, match hosts !! b with
        | Some fhb => ∃ fh', x.1 !! b = Some fh' ∧ fh_queue fh' = (if decide (b = a) then [] else fh_queue fhb)
        | None => x.1 !! b = None end).
  { intros b. specialize (Hfr b). unfold hosts0 in Hfr. destruct (decide (b = a)) as [->|Hne].
    - rewrite lookup_insert in Hfr. rewrite Ha. destruct Hfr as (fh2 & Hfh2 & Hq2 & _). by exists fh2.
    - rewrite lookup_insert_ne in Hfr by done. destruct (hosts !! b) as [fhb|]; [|done]. destruct Hfr as (fh2 & Hfh2 & Hq2 & _). by exists fh2. }
  assert (Hsub : ∀ b q, nonout (mkF d x.1 x.2 seen) b q → nonout st b q).
  { intros b q [Hq0|(fh' & Hb & Hin)]; [by left|]. cbn [f_hosts] in Hb. specialize (Hq b).
    destruct (hosts !! b) as [fhb|] eqn:Hbb; [|congruence]. destruct Hq as (fh2 & Hfh2 & Hq2). assert (fh2 = fh') as -> by congruence.
    rewrite Hq2 in Hin. destruct (decide (b = a)); [by apply elem_of_nil in Hin|]. right. by exists fhb. }
  cbn [fst snd] in *.
  split; [|split; [done|]].
  { split; [exact HI'|]. split.
    - destruct HS'. cbn [fst snd f_db f_seen f_hosts f_hist] in *. split; cbn [fst snd]; try done.
      + by apply (ml_shrink L (nonout st)).
      + by apply (nocreate_shrink (nonout st)).
      + intros b q Hbq. apply (dx_pk0 b q). by apply Hsub.
    - intros b Hb. specialize (Hq b). cbn [f_hosts]. destruct (Hoh b Hb) as [fhb Hfhb]. cbn [st f_hosts] in Hfhb. rewrite Hfhb in Hq.
      destruct Hq as (fh2 & -> & _). by eexists. }
  split.
  { intros b fhb k lr Hb Hk. specialize (Hsame b). rewrite Hb in Hsame. destruct Hsame as (fh0 & Hfh0 & Hr0 & _). rewrite <- Hr0 in Hk. by apply (Hmono b fh0 k lr). }
  split.
  { intros b fh' k Hb Hk. destruct (Hnew b fh' k Hb Hk) as (fh0 & Hfh0 & Hk0). destruct (Hback b fh0 Hfh0) as (fhb & Hfhb & Hr). exists fhb. by rewrite <- Hr. }
  split; [exact Hq|]. split; [exact Hlen|]. split; [exact Hoth|]. split; [|exact Hdc].
  intros (fh1 & q & Hfh1 & Hq1 & Hg). assert (fh1 = fh) as -> by congruence. apply Happ. by exists q.
Qed.

Lemma sd_execs s0 f0 h0 (l : list N) : ∀ st st',
  SDs s0 f0 h0 st → NoDup l → steps P st ((λ a, EExec a true) <$> l) = Some st' →
  SDs s0 f0 h0 st' ∧ f_db st' = f_db st ∧
  (∀ b fh k lr, f_hosts st !! b = Some fh → fh_reps fh !! k = Some lr →
     ∃ fh' lr', f_hosts st' !! b = Some fh' ∧ fh_reps fh' !! k = Some lr' ∧ (lr_running lr = true → lr_running lr' = true)) ∧
  (∀ b fh' k, f_hosts st' !! b = Some fh' → is_Some (fh_reps fh' !! k) → ∃ fh, f_hosts st !! b = Some fh ∧ is_Some (fh_reps fh !! k)) ∧
  (length (hist_of (f_hist st) s0) ≤ length (hist_of (f_hist st') s0))%nat ∧ (∀ s, s ≠ s0 → f_hist st' !! s = f_hist st !! s) ∧
  ((∃ a fh q, a ∈ l ∧ f_hosts st !! a = Some fh ∧ q ∈ fh_queue fh ∧ gooddel s0 f0 h0 a q) → (length h0 < length (hist_of (f_hist st') s0))%nat) ∧
  dchain f0 (hist_of (f_hist st) s0) (hist_of (f_hist st') s0).
Proof.
  induction l as [|a l IH]; intros st st' HS Hnd Hs.
  { cbn in Hs. injection Hs as <-. split; [done|]. split; [done|]. split; [intros b fh k lr Hb Hk; by exists fh, lr|]. split; [intros b fh' k Hb Hk; by exists fh'|].
    split; [done|]. split; [done|]. split; [|apply dchain_refl]. intros (a & fh & q & Hin & _). by apply elem_of_nil in Hin. }
  apply NoDup_cons in Hnd as [Hnin Hnd]. rewrite fmap_cons in Hs. cbn [steps] in Hs.
  destruct (fstep P st (EExec a true)) as [st1| |] eqn:E1; [| |done].
  - destruct (sd_exec_event s0 f0 h0 st a st1 HS E1) as (HS1 & Hd1 & Hm1 & Hn1 & Hq1 & Hl1 & Ho1 & Ha1 & Hc1).
    destruct (IH st1 st' HS1 Hnd Hs) as (HS' & Hd' & Hm2 & Hn2 & Hl2 & Ho2 & Ha2 & Hc2).
    split; [done|]. split; [congruence|]. split; [|split; [|split; [lia|split; [intros s Hs0; rewrite (Ho2 s Hs0); by apply Ho1|]]]].
    + intros b fh k lr Hb Hk. destruct (Hm1 b fh k lr Hb Hk) as (fh1 & lr1 & Hfh1 & Hk1 & Hr1). destruct (Hm2 b fh1 k lr1 Hfh1 Hk1) as (fh2 & lr2 & ? & ? & Hr2).
      exists fh2, lr2. split; [done|]. split; [done|]. intros Hr. by apply Hr2, Hr1.
    + intros b fh' k Hb Hk. destruct (Hn2 b fh' k Hb Hk) as (fh1 & Hfh1 & Hk1). by apply (Hn1 b fh1 k).
    + split; [|by apply (dchain_trans f0 _ _ _ Hc1 Hc2)]. intros (b & fh & q & Hin & Hfh & Hq & Hg). apply elem_of_cons in Hin as [->|Hin].
      * assert (length h0 < length (hist_of (f_hist st1) s0))%nat by (apply Ha1; by exists fh, q). lia.
      * apply Ha2. specialize (Hq1 b). rewrite Hfh in Hq1. destruct Hq1 as (fh1 & Hfh1 & Hqq). rewrite decide_False in Hqq by (intros ->; done).
        exists b, fh1, q. rewrite Hqq. done.
  - (* no such NodeHost *)
    destruct (IH st st' HS Hnd Hs) as (HS' & Hd' & Hm2 & Hn2 & Hl2 & Ho2 & Ha2 & Hc2). split; [done|]. split; [done|]. split; [done|]. split; [done|]. split; [done|]. split; [done|]. split; [|done].
    intros (b & fh & q & Hin & Hfh & Hq & Hg). apply Ha2. apply elem_of_cons in Hin as [->|Hin]; [|by exists b, fh, q]. exfalso.
    cbn [fstep] in E1. rewrite Hfh in E1. destruct HS as (_ & HSx & _). destruct (ml_hosts _ _ _ (dx_ml _ _ _ _ _ _ _ HSx) a fh Hfh) as [Hup _]. cbn [f_hosts] in Hup. rewrite Hup in E1.
    by destruct (exec_all _ _ _ _).
Qed.

Lemma sd_pre s0 f0 x tt st plogs nticks st4 :
  StageE L s0 f0 x tt st → (∀ a, plogs a = true) → N.of_nat nticks * p_step P ≤ p_ttl P →
  pre_schedule P plogs nticks st = Some st4 →
  ∃ (e0 : hentry) (hs1 : list hentry),
    f_hist st !! s0 = Some (e0 :: hs1) ∧ f_hist st4 !! s0 = Some (((e0.1 + 1, delete f0 e0.2) : hentry) :: e0 :: hs1) ∧ is_Some (e0.2 !! f0) ∧
    (∀ s, s ≠ s0 → f_hist st4 !! s = f_hist st !! s) ∧
    LostX L st4 ∧ PReady L P st4 (d_tick (f_db st)) ∧
    (∀ s h c, f_hist st !! s = Some h → d_view (f_db st4) !! s = Some c → s_cci c = cur_version h ∧ r_addr <$> s_reps c = cur_members h) ∧
    (∀ s c rid n, d_view (f_db st4) !! s = Some c → s_reps c !! rid = Some n → r_tick n ≠ 0) ∧
    d_tick (f_db st4) = d_tick (f_db st) + N.of_nat nticks * p_step P ∧ d_shards (f_db st4) = d_shards (f_db st) ∧
    (∀ s rid a, member st s rid a → ¬ L s rid → member_running (f_hosts st4) s rid a = true) ∧
    (∀ b fh4 k, f_hosts st4 !! b = Some fh4 → is_Some (fh_reps fh4 !! k) → ∃ fh, f_hosts st !! b = Some fh ∧ is_Some (fh_reps fh !! k)) ∧
    (∀ b, is_Some (f_hosts st4 !! b) ↔ is_Some (f_hosts st !! b)) ∧
    (∀ b, is_Some (d_hosts (f_db st4) !! b) → is_Some (f_hosts st !! b)) ∧
    (∀ a q, nonout st4 a q → f_hosts st4 !! a = None ∧ nonout st a q).
Proof.
  intros HA Hpl Httl. destruct (se_b _ _ _ _ _ _ HA) as (HI & HP & Hoh). unfold pre_schedule. set (t := d_tick (f_db st)).
  assert (Hone : ∀ s r1 r2, L s r1 → L s r2 → r1 = r2).
  { intros s r1 r2 H1 H2. destruct (se_single _ _ _ _ _ _ HA _ _ H1) as [_ ->]. by destruct (se_single _ _ _ _ _ _ HA _ _ H2) as [_ ->]. }
  assert (Hl : ∀ a, a ∈ host_addrs st → is_Some (f_hosts st !! a)) by (intros a; apply host_addrs_elem).
  destruct (lostb_reports L P plogs (host_addrs st) st HI HP (host_addrs_nodup st) Hl) as
    (st1 & E1 & [HI1 HP1] & Ho1a & Ho1b & Hsub1 & Hhi1 & Hse1 & Ht1 & Hsh1 & Hho1 & Hho1' & Hv1 & Hst1 & Hsp1 & Hot1).
  pose proof (lost_reports_facts L P plogs (host_addrs st) st st1 HI HP (se_cur _ _ _ _ _ _ HA) (host_addrs_nodup st) Hl E1) as (Htk & Hplog & Hkeys).
  pose proof (lostb_reports_requests L P plogs (host_addrs st) st st1 HI HP (host_addrs_nodup st) Hl E1) as Hrq1.
  pose proof (lostb_reports_deliver L P plogs (host_addrs st) st st1 HI HP (host_addrs_nodup st) Hl E1) as Hdel1.
  rewrite E1.
  assert (Hdom1 : ∀ a, is_Some (f_hosts st1 !! a) ↔ is_Some (f_hosts st !! a)).
  { intros a. destruct (f_hosts st !! a) as [fh|] eqn:Ha.
    - destruct (Hho1 a fh) as (fh' & -> & _); [apply host_addrs_elem; by eexists|done|]. split; intros _; by eexists.
    - rewrite Hho1', Ha; [done|]. intros Hin0. apply host_addrs_elem in Hin0. rewrite Ha in Hin0. by destruct Hin0. }
  assert (Hcur1 : all_current st1).
  { intros s h c1 Hh1 Hc1. rewrite Hhi1 in Hh1. destruct (ml_members _ _ _ HP s h Hh1) as (c & Hc & _).
    destruct (Hv1 s h c Hh1 Hc) as (c' & Hc' & _ & Hkeep & _). assert (c' = c1) as -> by congruence. apply Hkeep. by apply (se_cur _ _ _ _ _ _ HA s). }
  assert (Hreps1 : ∀ a fh1, f_hosts st1 !! a = Some fh1 → ∃ fh, f_hosts st !! a = Some fh ∧ fh_reps fh1 = fh_reps fh).
  { intros a fh1 Ha1. destruct (f_hosts st !! a) as [fh|] eqn:Ha; [|exfalso; assert (is_Some (f_hosts st !! a)) as [? ?] by (apply Hdom1; by eexists); congruence].
    destruct (Hho1 a fh) as (fh' & Hfh' & Hr); [apply host_addrs_elem; by eexists|done|]. exists fh. split; [done|]. congruence. }
  (* the lost shard and the ADD that will be applied *)
  destruct (se_live _ _ _ _ _ _ HA) as (ap & qa & m & Hqa & Hia & Hsa & Hmq & Hla & Hmm & HnLm).
  destruct (se_mem _ _ _ _ _ _ HA) as (v & M & hs0 & Hh0 & Hxn & HszM & H3M & Hf0in).
  set (e0 := ((v + 1, <[x := tt]> M) : hentry)) in *. set (hs1 := ((v, M) : hentry) :: hs0) in *.
  change (f_hist st !! s0 = Some (e0 :: hs1)) in Hh0.
  pose proof (li_hist _ _ _ _ _ HI s0 _ Hh0) as Hw0.
  assert (Hf0e : is_Some (e0.2 !! f0)) by (unfold e0; cbn [snd]; rewrite lookup_insert_ne; [done|intros ->; destruct Hf0in; congruence]).
  assert (Hsze : size e0.2 = S (size M)) by (unfold e0; cbn [snd]; by apply map_size_insert_None).
  (* the invariant of the execution phase holds after the reports *)
  assert (HS1 : SDs s0 f0 (e0 :: hs1) st1).
  { split; [done|]. split; [|].
    2:{ intros a Ha. apply Hdom1. destruct (decide (a ∈ host_addrs st)) as [Hin0|Hnin]; [by apply host_addrs_elem|].
        apply Hoh. rewrite <- (Ho1b a Hnin). exact Ha. }
    destruct st1 as [d1 hosts1 hist1 seen1]. cbn [f_db f_hosts f_hist f_seen] in *. split; cbn [fst snd].
    - exact HP1.
    - intros s h c v9 M9 M9' x9 rest Hh Hc Hb. exfalso. pose proof (Hcur1 s h c Hh Hc) as Hcc. destruct Hb as (-> & Hv & _). cbn in Hcc. lia.
    - intros a fh1 k Ha1 Hk. destruct (Hreps1 a fh1 Ha1) as (fh & Hfh & Hr). rewrite Hr in Hk. destruct Hk as [lr Hk]. destruct k as [s rid].
      destruct (se_clean _ _ _ _ _ _ HA a fh s rid lr Hfh Hk) as (b & h & Hh & Hm). exists h. cbn. rewrite Hhi1. split; [done|by eexists].
    - intros a q Hq. pose proof (Hsub1 a q Hq) as Hq0. rewrite Hhi1. destruct (se_pend _ _ _ _ _ _ HA a q Hq0) as [[Hm Hc]|(Hid0 & Hs0 & Hmq0 & Hl0 & _)].
      + split; [intros Hcq; by destruct (Hc Hcq)|]. split.
        * intros Hia0. destruct Hm as [[(Hres & _)|[(_ & Hne & _)|(Hk & _)]]|[(Hcr & _)|(Hres & _)]]; try done.
          -- unfold is_restore, is_create in Hres. unfold is_add in Hia0. by destruct (q_type q).
          -- unfold is_kill in Hk. unfold is_add in Hia0. by destruct (q_type q).
          -- unfold is_create in Hcr. unfold is_add in Hia0. by destruct (q_type q).
          -- unfold is_restore, is_create in Hres. unfold is_add in Hia0. by destruct (q_type q).
        * intros Hd. right. destruct Hm as [[(Hres & _)|[(_ & Hne & _)|(Hk & _)]]|[(Hcr & _)|(Hres & _)]]; try done.
          -- unfold is_restore, is_create in Hres. unfold is_delete in Hd. by destruct (q_type q).
          -- unfold is_kill in Hk. unfold is_delete in Hd. by destruct (q_type q).
          -- unfold is_create in Hcr. unfold is_delete in Hd. by destruct (q_type q).
          -- unfold is_restore, is_create in Hres. unfold is_delete in Hd. by destruct (q_type q).
      + split; [intros Hcq; unfold is_create in Hcq; unfold is_delete in Hid0; by destruct (q_type q)|].
        split; [intros Ha0; unfold is_add in Ha0; unfold is_delete in Hid0; by destruct (q_type q)|]. intros _. left. split; [done|]. by exists [].
    - exists []. unfold hist_of. rewrite Hhi1, Hh0. done.
    - intros _ rid a Hm HnL. assert (Hmm0 : member st s0 rid a) by (by exists (e0 :: hs1)).
      pose proof (se_run _ _ _ _ _ _ HA s0 rid a Hmm0 HnL) as Hr. apply running_runs_on in Hr as (fh & Hfh & Hro).
      destruct (Hho1 a fh) as (fh1 & Hfh1 & Hr1); [apply host_addrs_elem; by eexists|done|].
      unfold member_running. cbn [fst]. rewrite Hfh1. destruct (ml_hosts _ _ _ HP1 a fh1 Hfh1) as [-> _]. cbn. unfold runs_on in Hro. by rewrite Hr1.
    - intros a fh1 Ha1. destruct (Hreps1 a fh1 Ha1) as (fh & Hfh & Hr). rewrite Hr. by apply (se_nodata _ _ _ _ _ _ HA s0 f0 (se_lost _ _ _ _ _ _ HA) a fh). }
  (* the NodeHosts execute: the ADD is applied *)
  destruct (steps P st1 ((λ a, EExec a true) <$> host_addrs st1)) as [st2|] eqn:E2; [|done].
  destruct (sd_execs s0 f0 (e0 :: hs1) (host_addrs st1) st1 st2 HS1 (host_addrs_nodup st1) E2) as (HS2 & Hd2 & Hm2 & Hn2 & Hlen2 & Hoth2 & Happ2 & Hdc2).
  assert (HX1 : LostX L st1).
  { destruct HS1 as (? & HSx & ?). split; [split; [done|split; [exact HP1|done]]|]. pose proof (dx_nc _ _ _ _ _ _ _ HSx) as Hnc. by destruct st1. }
  destruct (lostx_execs L P (host_addrs st1) st1 st2 HX1 E2) as (HX2 & _ & Hq2).
  pose proof (execs_hist P (host_addrs st1) st1 st2 E2 s0) as [l2 Hl2].
  assert (Happlied : (length (e0 :: hs1) < length (hist_of (f_hist st2) s0))%nat).
  { apply Happ2. assert (Hinp : ap ∈ host_addrs st) by (apply host_addrs_elem; by destruct Hla as (_ & _ & [? _] & _)).
    destruct (Hdel1 ap qa Hinp Hqa) as (fhp & Hfhp & Hqq). exists ap, fhp, qa. split; [apply host_addrs_elem; by eexists|]. split; [done|]. split; [done|].
    (* the request: a DELETE of f0 with the current fence *)
    destruct Hla as (_ & Hfen & _). unfold hist_of in Hfen. rewrite Hsa, Hh0 in Hfen. cbn in Hfen.
    unfold is_delete in Hia. destruct (q_type qa) eqn:Ety; try done.
    split; [done|]. split; [done|]. exists [], e0, hs1. split; [done|]. split; [done|]. split; [done|]. split; [done|]. split.
    { destruct Hmm as (hm & Hhm & Hmm). assert (hm = e0 :: hs1) as -> by congruence. by exists m. }
    split; [lia|]. apply Hone. }
  (* Raft catches up; time passes *)
  destruct (steps P st2 (catch_up_events st2)) as [st3|] eqn:E3; [|done].
  destruct (lostx_learns L P st2 st3 HX2 E3) as (HX3 & Hd3 & Hhi3 & Hf3).
  pose proof (steps_pres P (λ stx, LostX L stx ∧ f_hist stx = f_hist st2 ∧
      (∀ b s rid, member_running (f_hosts st2) s rid b = true → member_running (f_hosts stx) s rid b = true) ∧
      (∀ b fh' k, f_hosts stx !! b = Some fh' → is_Some (fh_reps fh' !! k) → ∃ fh, f_hosts st2 !! b = Some fh ∧ is_Some (fh_reps fh !! k)))
      (catch_up_events st2)) as Hex.
  destruct (Hex) with (st := st2) (st' := st3) as (_ & _ & Hrun3 & Hk3); [| |done|].
  { intros stx ev sty Hev (HXx & Hhx & Hrx & Hkx) E. apply catch_up_members in Hev as (a & s & r & v9 & -> & Hm). rewrite <- Hhx in Hm.
    destruct (lostx_learn L P stx a s r v9 sty HXx Hm E) as (HXy & _ & Hhy & _).
    destruct HXx as [(HIx & _) _]. destruct (learn_frame P stx a s r v9 sty HIx Hm E) as (Hr & Hk).
    split; [done|]. split; [congruence|]. split.
    - intros b s1 rid Hrb. apply Hr. by apply Hrx.
    - intros b fh' k Hb Hkk. destruct (Hk b fh' k Hb Hkk) as (fh0 & Hfh0 & Hk0). by apply (Hkx b fh0 k). }
  { split; [done|]. split; [done|]. split; [done|]. intros b fh' k Hb Hkk. by exists fh'. }
  clear Hex.
  destruct (steps P st3 (replicate nticks ETick)) as [st4'|] eqn:E4; [|done]. intros [= ->].
  destruct (lostx_ticks L P nticks st3 st4 HX3 E4) as (HX4 & Hd4 & Hho4 & Hhi4).
  set (T := d_tick (f_db st1) + N.of_nat nticks * p_step P).
  assert (Hdb : f_db st4 = set_tick (f_db st1) T) by (rewrite Hd4, Hd3, Hd2; done).
  assert (Hview4 : d_view (f_db st4) = d_view (f_db st1)) by (by rewrite Hdb).
  assert (Hhist4 : f_hist st4 = f_hist st2) by congruence.
  pose proof HX4 as [(HI4 & HP4 & Hoh4) Hnc4].
  (* exactly one entry has been appended: the removal of f0 *)
  assert (Hh4 : f_hist st4 !! s0 = Some (((e0.1 + 1, delete f0 e0.2) : hentry) :: e0 :: hs1)).
  { rewrite Hhist4. unfold hist_of in Hl2, Happlied, Hdc2. rewrite Hhi1, Hh0 in Hl2, Hdc2. cbn [default from_option id] in Hl2, Hdc2.
    destruct (f_hist st2 !! s0) as [h2|] eqn:Eh2; cbn [default from_option id] in Hl2, Happlied, Hdc2; [|cbn in Happlied; lia]. subst h2.
    assert (Hh4' : f_hist st4 !! s0 = Some (l2 ++ e0 :: hs1)) by (by rewrite Hhist4).
    pose proof (li_hist _ _ _ _ _ HI4 s0 _ Hh4') as Hw4. pose proof (hist_wf_app_version _ l2 (e0 :: hs1) Hw4 ltac:(done)) as Hver.
    destruct (ml_members _ _ _ HP4 s0 _ Hh4') as (c4 & Hc4 & Hcase4 & _). rewrite Hview4 in Hc4.
    pose proof (Hcur1 s0 (e0 :: hs1) c4 ltac:(by rewrite Hhi1) Hc4) as Hcc. cbn [cur_version] in Hcc, Hver.
    rewrite app_length in Happlied. cbn [length] in Happlied.
    destruct Hcase4 as [Hcc4|(v' & M1 & M1' & x' & rest & Hhh & Hv & Hkind)]; [rewrite Hcc4 in Hcc; lia|].
    assert (Hl1 : ∃ e, l2 = [e]).
    { rewrite Hhh in Hver. cbn [cur_version fst] in Hver. destruct l2 as [|e [|e2 l3]]; [cbn in Happlied; lia|by exists e|cbn [length] in Hver; lia]. }
    destruct Hl1 as [e ->]. f_equal.
    destruct Hdc2 as [Heq|(e1 & hs2 & l & Heq1 & Heq2)].
    - apply (f_equal length) in Heq. cbn in Heq. lia.
    - injection Heq1 as <- <-. destruct l as [|e' l]; [cbn [app] in Heq2; by injection Heq2 as ->|].
      apply (f_equal length) in Heq2. rewrite !app_length in Heq2. cbn [length] in Heq2. lia. }
  exists e0, hs1. split; [done|]. split; [done|]. split; [done|].
  split. { intros s Hs. rewrite Hhist4, (Hoth2 s Hs). by rewrite Hhi1. }
  split; [done|].
  (* the records after the reports *)
  assert (Hmemrec : ∀ s c1 rid n1, d_view (f_db st1) !! s = Some c1 → s_reps c1 !! rid = Some n1 →
            ∃ h, f_hist st !! s = Some h ∧ cur_members h !! rid = Some (r_addr n1)).
  { intros s c1 rid n1 Hc1 Hn1. destruct (ml_viewdef _ _ _ HP1 s) as [_ [h Hh1]]; [by eexists|].
    destruct (calm_view st1 s h c1 HI1 Hh1 Hc1 (Hcur1 s h c1 Hh1 Hc1)) as (HM & _). exists h. rewrite <- Hhi1. split; [done|].
    rewrite <- HM, lookup_fmap, Hn1. done. }
  assert (Hclass : ∀ s c1 rid n1, d_view (f_db st1) !! s = Some c1 → s_reps c1 !! rid = Some n1 →
            ∃ n0, rec_of (d_view (f_db st)) s rid = Some n0 ∧
              ((¬ L s rid ∧ r_tick n1 = t) ∨ (L s rid ∧ r_tick n1 = r_tick n0))).
  { intros s c1 rid n1 Hc1 Hn1. assert (Hrec1 : rec_of (d_view (f_db st1)) s rid = Some n1) by (apply rec_of_Some; eauto).
    destruct (Htk s rid n1 Hrec1) as (n0 & Hn0 & Hcase). exists n0. split; [done|].
    destruct (Hmemrec s c1 rid n1 Hc1 Hn1) as (h & Hh & Hm).
    destruct (Ldec s rid) as [Hl0|Hnl].
    - right. split; [done|]. destruct Hcase as [[(a & fh & _ & Hfh & Hro) _]|[_ ?]]; [|done]. exfalso.
      unfold runs_on in Hro. rewrite (se_nodata _ _ _ _ _ _ HA s rid Hl0 a fh Hfh) in Hro. done.
    - left. split; [done|]. destruct Hcase as [[_ ?]|[Hnone _]]; [done|]. exfalso.
      assert (Hmm0 : member st s rid (r_addr n1)) by (by exists h).
      pose proof (se_run _ _ _ _ _ _ HA s rid _ Hmm0 Hnl) as Hr. apply running_runs_on in Hr as (fh & Hfh & Hro).
      rewrite (Hnone (r_addr n1) fh) in Hro; [done|apply host_addrs_elem; by eexists|done]. }
  assert (Hpos : 0 < t) by apply (ml_time _ _ _ HP).
  assert (Hstamp4 : ∀ s c rid n, d_view (f_db st4) !! s = Some c → s_reps c !! rid = Some n → r_tick n ≠ 0).
  { intros s c rid n Hc Hn. rewrite Hview4 in Hc. destruct (Hclass s c rid n Hc Hn) as (n0 & Hn0 & [[_ ->]|[_ ->]]); [lia|].
    apply rec_of_Some in Hn0 as (c0 & Hc0 & Hk0). by apply (se_stamped _ _ _ _ _ _ HA s c0 rid n0). }
  split.
  { split.
    - exact HI4.
    - intros s Hs. rewrite Hview4 in Hs. destruct (ml_viewdef _ _ _ HP1 s Hs) as [[sd Hsd] _]. destruct (ml_defined _ _ _ HP1 s sd Hsd) as (_ & _ & Happ).
      exists sd. rewrite Hdb. cbn [set_tick d_shards]. done.
    - split; [lia|]. rewrite Hdb. cbn [set_tick d_tick]. unfold T. rewrite Ht1. fold t. lia.
    - intros s c rid n Hc Hn. pose proof (Hstamp4 s c rid n Hc Hn) as Hnz. rewrite Hview4 in Hc.
      destruct (Hclass s c rid n Hc Hn) as (n0 & Hn0 & [[_ ?]|[Hl0 Htkn]]); [by left|]. right; right. split; [done|]. split; [done|].
      intros hh Hhh Hlog. rewrite Hdb in Hhh. cbn [set_tick d_hosts] in Hhh.
      destruct (Hmemrec s c rid n Hc Hn) as (h & Hh & Hm). destruct (ml_members _ _ _ HP s h Hh) as (_ & _ & _ & Hmem).
      destruct (Hmem rid _ Hm) as (_ & _ & fh & Hfh & _).
      destruct (Hplog (r_addr n) fh hh) with (k := (s, rid)) as [lr Hk]; [apply host_addrs_elem; by eexists|apply Hpl|done|done|done|].
      by rewrite (se_nodata _ _ _ _ _ _ HA s rid Hl0 _ fh Hfh) in Hk.
    - exact Hone.
    - intros s c r1 r2 n1 n2 Hc H1 H2 Hz1. by destruct (Hstamp4 s c r1 n1 Hc H1).
    - intros s rid Hl0. destruct (se_single _ _ _ _ _ _ HA s rid Hl0) as [-> ->]. unfold shard_size. rewrite Hdb. cbn [set_tick d_shards]. rewrite Hsh1.
      unfold shard_size in HszM. lia. }
  split. { intros s h c Hh Hc. rewrite Hview4 in Hc. assert (Hh1 : f_hist st1 !! s = Some h) by (by rewrite Hhi1).
           pose proof (Hcur1 s h c Hh1 Hc) as Hcc. split; [done|]. by destruct (calm_view st1 s h c HI1 Hh1 Hc Hcc) as (HM & _). }
  split; [exact Hstamp4|].
  split. { rewrite Hdb. cbn [set_tick d_tick]. unfold T. by rewrite Ht1. }
  split; [rewrite Hdb; cbn [set_tick d_shards]; exact Hsh1|].
  assert (Hdom4 : ∀ b, is_Some (f_hosts st4 !! b) ↔ is_Some (f_hosts st !! b)).
  { intros b. rewrite Hho4, <- Hdom1. specialize (Hq2 b). specialize (Hf3 b). destruct (f_hosts st1 !! b) as [fh1|].
    - destruct Hq2 as (fh2 & Hfh2 & _). rewrite Hfh2 in Hf3. destruct Hf3 as (fh3 & -> & _). split; intros _; by eexists.
    - rewrite Hq2 in Hf3. rewrite Hf3. done. }
  split.
  { intros s rid a Hm HnL. rewrite Hho4. apply Hrun3.
    pose proof (se_run _ _ _ _ _ _ HA s rid a Hm HnL) as Hr. apply running_runs_on in Hr as (fh & Hfh & Hro).
    destruct (Hho1 a fh) as (fh1 & Hfh1 & Hr1); [apply host_addrs_elem; by eexists|done|].
    unfold runs_on in Hro. rewrite <- Hr1 in Hro. destruct (fh_reps fh1 !! (s, rid)) as [lr1|] eqn:Ek1; [|done].
    destruct (Hm2 a fh1 (s, rid) lr1 Hfh1 Ek1) as (fh2 & lr2 & Hfh2 & Hk2 & Hrr). unfold member_running. rewrite Hfh2, Hk2.
    destruct HX2 as [(_ & HP2 & _) _]. destruct (ml_hosts _ _ _ HP2 a fh2 Hfh2) as [-> _]. cbn. by apply Hrr. }
  split.
  { intros b fh4 k Hb Hk. rewrite Hho4 in Hb. destruct (Hk3 b fh4 k Hb Hk) as (fh2 & Hfh2 & Hkk2). destruct (Hn2 b fh2 k Hfh2 Hkk2) as (fh1 & Hfh1 & Hkk1).
    destruct (Hreps1 b fh1 Hfh1) as (fh & Hfh & Hr). exists fh. by rewrite <- Hr. }
  split; [exact Hdom4|]. split.
  { intros b Hb. rewrite Hdb in Hb. cbn [set_tick d_hosts] in Hb. destruct (Hkeys b Hb) as [Hinb|Hold]; [by apply host_addrs_elem|by apply (se_dbhosts _ _ _ _ _ _ HA)]. }
  (* nothing is pending for a NodeHost *)
  intros a q Hq.
  assert (Hq1 : nonout st1 a q ∧ f_hosts st4 !! a = None).
  { destruct (f_hosts st4 !! a) as [fh4|] eqn:Ha4.
    - exfalso. rewrite Hho4 in Ha4. specialize (Hf3 a). specialize (Hq2 a).
      destruct (f_hosts st2 !! a) as [fh2|] eqn:Ha2; [|congruence]. destruct Hf3 as (fh3 & Hfh3 & Hq3). assert (fh3 = fh4) as -> by congruence.
      destruct (f_hosts st1 !! a) as [fh1|] eqn:Ha1; [|congruence]. destruct Hq2 as (fh2' & Hfh2' & Hqq2). assert (fh2' = fh2) as -> by congruence.
      assert (Hin1' : a ∈ host_addrs st1) by (apply host_addrs_elem; by eexists).
      assert (Hin0 : a ∈ host_addrs st) by (apply host_addrs_elem, Hdom1; by eexists).
      rewrite decide_True in Hqq2 by done.
      destruct Hq as [(qs & Hl0 & _)|(fh & Hl0 & Hinq)].
      + rewrite Hdb in Hl0. cbn [set_tick d_requests] in Hl0. rewrite (Hrq1 a Hin0) in Hl0. done.
      + rewrite Hho4, Hfh3 in Hl0. injection Hl0 as <-. rewrite Hq3, Hqq2 in Hinq. by apply elem_of_nil in Hinq.
    - split; [|done]. destruct Hq as [(qs & Hl0 & Hi0)|(fh & Hl0 & _)]; [|congruence]. left. exists qs. rewrite Hdb in Hl0. done. }
  destruct Hq1 as [Hq1 Hn4]. split; [done|]. by apply Hsub1.
Qed.


Lemma mendl_mendp (B : N → request → Prop) st :
  MendL L B st → (∀ s h rid a, f_hist st !! s = Some h → cur_members h !! rid = Some a → ¬ L s rid) → MendP B st.
Proof.
  intros HP Hno. destruct HP. split; try done.
  intros s h Hh. destruct (ml_members s h Hh) as (c & Hc & Hcase & Hmem). exists c. split; [done|]. split; [done|].
  intros rid a Hm. destruct (Hmem rid a Hm) as (? & ? & fh & Hfh & Hdata). split; [done|]. split; [done|]. exists fh. split; [done|].
  intros Hst. destruct (Hdata Hst) as [?|Hl0]; [done|]. by destruct (Hno s h rid a Hh Hm).
Qed.

(** ** stage (d): the round in which the DELETE of the lost member is applied *)
Theorem lost_stage_delete_applied s0 f0 x tt st st' plogs nticks o :
  StageE L s0 f0 x tt st → (∀ a, plogs a = true) → N.of_nat nticks * p_step P < p_ttl P →
  o ≠ OCrash →
  (∀ st4, pre_schedule P plogs nticks st = Some st4 → fresh_ok st4 (ESchedule o)) →
  healthy_round P plogs nticks o st = Some st' →
  ∃ b, o = OBatch b ∧ MendB st' ∧ (∀ a q, nonout st' a q → mharmless (f_hist st') a q) ∧
    (∀ s h rid a, f_hist st' !! s = Some h → cur_members h !! rid = Some a → ¬ L s rid) ∧
    (∃ (e0 : hentry) (hs1 : list hentry), f_hist st !! s0 = Some (e0 :: hs1) ∧
       f_hist st' !! s0 = Some (((e0.1 + 1, delete f0 e0.2) : hentry) :: e0 :: hs1) ∧ is_Some (e0.2 !! f0)) ∧
    (∀ s, s ≠ s0 → f_hist st' !! s = f_hist st !! s) ∧
    d_tick (f_db st') = d_tick (f_db st) + N.of_nat nticks * p_step P.
Proof.
  intros HA Hpl Httl Hnc Hfr Hr. destruct (se_b _ _ _ _ _ _ HA) as (HI & HP & Hoh).
  rewrite healthy_round_pre in Hr. destruct (pre_schedule P plogs nticks st) as [st4|] eqn:Epre; [|done].
  destruct (sd_pre s0 f0 x tt st plogs nticks st4 HA Hpl ltac:(lia) Epre) as
    (e0 & hs1 & Hh0 & Hh4 & Hf0e & Hoth4 & HX4 & HR4 & Hcur4 & Hstamp4 & Htick4 & Hsh4 & Hrun4 & Hkeys4 & Hdom4 & Hdbh4 & Hnoh4).
  specialize (Hfr st4 eq_refl).
  destruct (fstep P st4 (ESchedule o)) as [st5| |] eqn:E5; try done. injection Hr as <-.
  destruct HX4 as [(HI4 & HP4 & Hoh4) Hnc4].
  cbn [fstep] in E5. destruct (allowed P (ctx_of_db (f_db st4)) o) eqn:Hal; [|done].
  set (C := ctx_of_db (f_db st4)) in *. pose proof (loopinv_ctx_wf st4 HI4) as Hwf. fold C in Hwf.
  set (t := d_tick (f_db st)) in *.
  (* the size of the membership Drummer sees *)
  destruct (se_mem _ _ _ _ _ _ HA) as (v & M & hs0 & Hh0' & Hxn & HszM & H3M & Hf0in).
  assert (Hsze : size e0.2 = S (size M)).
  { rewrite Hh0 in Hh0'. injection Hh0' as -> _. cbn [snd]. by apply map_size_insert_None. }
  assert (Hnoadd : ∀ c, c ∈ entries C → repair_action P C c ≠ AAdd).
  { intros c Hc. destruct (lostp_entry L P Ldec st4 t c HR4 Hc) as (h & sd & Hh & Hvc & _ & _ & _ & Hfl & Hw & _ & Hnone & Hadd). fold C in Hfl, Hw, Hnone, Hadd.
    assert (Hnw : sr_wait P C c = []).
    { destruct (sr_wait P C c) as [|nw lw] eqn:Ew; [done|]. exfalso. assert (Hnw : nw ∈ sr_wait P C c) by (rewrite Ew; left).
      pose proof (Hw nw ltac:(left)) as Hz. apply elem_sr_wait in Hnw as [Hnw _]. apply elem_of_mvals in Hnw as [rid Hrid]. by apply (Hstamp4 _ c rid nw Hvc). }
    destruct (sr_failed P C c) as [|nf l0] eqn:Ef; [by rewrite (Hnone Hnw eq_refl)|].
    destruct (Hfl nf ltac:(left)) as [Hlf _]. destruct (se_single _ _ _ _ _ _ HA _ _ Hlf) as [Hs0 _].
    destruct (Hadd Hnw ltac:(done)) as [_ Hdel']. rewrite Hdel'; [done|].
    rewrite Hs0 in Hvc |- *. destruct (Hcur4 s0 _ c Hh0 Hvc) as [_ HM]. cbn [cur_members snd] in HM.
    rewrite <- (map_size_fmap r_addr), HM, Hsze. unfold shard_size. rewrite Hsh4. unfold shard_size in HszM. lia. }
  destruct o as [b| |]; [|exfalso; apply error_cause in Hal as (c & n & Hc & Ha & _); exact (Hnoadd c Hc Ha)|done].
  exists b. split; [done|].
  (* what the batch consists of *)
  assert (Hkinds : ∀ q, q ∈ b → is_kill q = true ∨
            (is_delete q = true ∧ ∃ c, c ∈ entries C ∧ s_id c = q_shard q ∧ delete_req_ok P C c q = true ∧ s_id c = s0)).
  { intros q Hq. destruct (batch_request_cases P C b q Hal Hq) as [Hk|(_ & c & qs & Hc & Hs & Hinq & Hg & _)]; [left; by apply (kills_are_kill C)|].
    destruct (lostp_entry L P Ldec st4 t c HR4 Hc) as (h & sd & Hh & Hvc & _ & _ & Hhr & Hfl & Hw & _ & Hnone & Hadd). fold C in Hhr, Hfl, Hw, Hnone, Hadd.
    assert (Hnw : sr_wait P C c = []).
    { destruct (sr_wait P C c) as [|nw lw] eqn:Ew; [done|]. exfalso. assert (Hnw : nw ∈ sr_wait P C c) by (rewrite Ew; left).
      pose proof (Hw nw ltac:(left)) as Hz. apply elem_sr_wait in Hnw as [Hnw _]. apply elem_of_mvals in Hnw as [rid Hrid]. by apply (Hstamp4 _ c rid nw Hvc). }
    apply group_allowed_inv in Hg as [(Hhr' & _)|(_ & Hcases)]; [congruence|].
    destruct (sr_failed P C c) as [|nf l0] eqn:Ef.
    - rewrite (Hnone Hnw eq_refl) in Hcases. destruct Hcases as [[_ ->]|[(? & _)|[(? & ? & _)|(? & _)]]]; try done. by apply elem_of_nil in Hinq.
    - destruct (Hfl nf ltac:(left)) as [Hlf _]. destruct (se_single _ _ _ _ _ _ HA _ _ Hlf) as [Hs0 _].
      destruct (Hadd Hnw ltac:(done)) as [_ Hdel']. rewrite Hdel' in Hcases.
      2:{ rewrite Hs0 in Hvc |- *. destruct (Hcur4 s0 _ c Hh0 Hvc) as [_ HM]. cbn [cur_members snd] in HM.
          rewrite <- (map_size_fmap r_addr), HM, Hsze. unfold shard_size. rewrite Hsh4. unfold shard_size in HszM. lia. }
      destruct Hcases as [[? _]|[(_ & q' & -> & Hok)|[(? & ? & _)|(? & _)]]]; try done.
      apply elem_of_list_singleton in Hinq as ->. right. pose proof Hok as Hok'. unfold delete_req_ok in Hok'. apply bool_decide_eq_true in Hok' as (Hd & _).
      split; [done|]. exists c. done. }
  assert (Hvalid : ∀ q, q ∈ b → valid_req q = true).
  { intros q Hq. apply allowed_batch_inv in Hal as (_ & _ & _ & _ & _ & Hv). rewrite Forall_forall in Hv. by apply Hv. }
  (* the state after the step *)
  assert (E' : fstep P st4 (ESchedule (OBatch b)) = FOk st5) by (cbn [fstep]; fold C; by rewrite Hal).
  pose proof (step_inv P st4 _ st5 HI4 Hfr E') as HI5.
  pose proof (fstep_time_ok P st4 _ st5 E' (ml_timeok _ _ _ HP4)) as Hto5.
  assert (Hst5 : f_hosts st5 = f_hosts st4 ∧ f_hist st5 = f_hist st4 ∧
                 f_db st5 = set_requests (f_db st4) (put_requests (d_requests (f_db st4)) b)).
  { destruct b as [|q0 b0].
    - injection E5 as <-. split; [done|]. split; [done|]. destruct st4 as [d ? ? ?]. cbn. by destruct d.
    - rewrite (schedule_db P st4 (q0 :: b0) HI4 Hal) in E5 by (intros y Hy; destruct Hfr as [_ Hfr]; by apply Hfr).
      injection E5 as <-. done. }
  destruct Hst5 as (Eh & Ehi & Ed).
  assert (Hnew : ∀ q, q ∈ b → nonout st5 (q_raft q) q).
  { intros q Hq. left. exists (for_addr (q_raft q) b). rewrite Ed. cbn [set_requests d_requests]. rewrite put_requests_lookup.
    rewrite bool_decide_eq_true_2 by (unfold mentions; apply elem_of_list_fmap; by exists q). split; [done|]. unfold for_addr. apply elem_of_list_filter. done. }
  assert (Hsplit : ∀ a q, nonout st5 a q → nonout st4 a q ∨ (q ∈ b ∧ q_raft q = a)).
  { intros a q [(qs & Hl0 & Hi0)|(fh & Hl0 & Hi0)]; [|left; right; exists fh; by rewrite <- Eh].
    rewrite Ed in Hl0. cbn [set_requests d_requests] in Hl0. rewrite put_requests_lookup in Hl0. case_bool_decide as Hm; [|left; left; eauto].
    injection Hl0 as <-. unfold for_addr in Hi0. apply elem_of_list_filter in Hi0 as [Hra Hi0]. by right. }
  assert (Hview5 : d_view (f_db st5) = d_view (f_db st4)) by (by rewrite Ed).
  assert (Hhof5 : hist_of (f_hist st5) s0 = ((e0.1 + 1, delete f0 e0.2) : hentry) :: e0 :: hs1) by (unfold hist_of; by rewrite Ehi, Hh4).
  (* every pending request is a leftover *)
  assert (Hall : ∀ a q, nonout st5 a q → mharmless (f_hist st5) a q).
  { intros a q Hq. destruct (Hsplit a q Hq) as [Hq4|[Hqb <-]].
    { destruct (Hnoh4 a q Hq4) as [Hno Hq0]. rewrite Ehi.
      destruct (ml_boxes _ _ _ HP4 a q Hq4) as [[Hm _]|[Hl0 _]]; [done|]. exfalso. destruct Hl0 as (_ & _ & [[fh Hfh] _] & _). congruence. }
    destruct (Hkinds q Hqb) as [Hk|(Hid & c & Hc & Hs & Hok & Hcs0)].
    - assert (Hbox : in_box (f_db st5) (f_hosts st5) [] q) by (destruct (Hnew q Hqb) as [(qs & ? & ?)|(fh & ? & ?)]; [left; eauto|right; right; left; eauto]).
      destruct (li_reqs _ _ _ _ _ HI5 q Hbox) as [_ Hreq]. unfold is_kill in Hk. destruct (q_type q) eqn:Ety; try done.
      destruct Hreq as (y & Hy & Hd). left; right; right. split; [unfold is_kill; by rewrite Ety|]. exists y. split; [done|].
      intros h Hh. by destruct (Hd h Hh).
    - destruct (lostp_entry L P Ldec st4 t c HR4 Hc) as (h & sd & Hh & Hvc & _). rewrite Hcs0 in Hvc.
      destruct (Hcur4 s0 _ c Hh0 Hvc) as [Hcc _]. cbn [cur_version] in Hcc.
      unfold delete_req_ok in Hok. apply bool_decide_eq_true in Hok as (_ & Hsh & Hfence & Hexf & _).
      left; right; left. split; [unfold is_change; by rewrite Hid, orb_true_r|]. split.
      { rewrite Hsh, Hcs0, Hhof5, Hfence, Hcc. cbn. lia. }
      split; [apply Exists_exists in Hexf as (nf & _ & ->); done|]. intros Hia. unfold is_add in Hia. unfold is_delete in Hid. by destruct (q_type q). }
  assert (Hnol : ∀ s h rid a, f_hist st5 !! s = Some h → cur_members h !! rid = Some a → ¬ L s rid).
  { intros s h rid a Hh Hm Hl0. destruct (se_single _ _ _ _ _ _ HA _ _ Hl0) as [-> ->]. rewrite Ehi, Hh4 in Hh. injection Hh as <-.
    cbn [cur_members snd] in Hm. by rewrite lookup_delete in Hm. }
  assert (HP5 : MendL L (nonout st5) st5).
  { destruct HP4. split; try rewrite Ed; try rewrite Eh; try rewrite Ehi; cbn [set_requests d_tick d_shards d_view d_kill]; try done.
    all: try (rewrite Ed in Hto5; exact Hto5).
    intros a q Hq. pose proof (Hall a q Hq) as Hm.
    left. rewrite Ehi in Hm. split; [done|]. rewrite <- Ehi. by apply (nonout_qextra st5 a q). }
  split.
  { split; [exact HI5|]. split; [by apply mendl_mendp|]. intros a Ha. rewrite Eh. apply Hoh4. rewrite Ed in Ha. exact Ha. }
  split; [exact Hall|]. split; [exact Hnol|]. split.
  { exists e0, hs1. rewrite Ehi. done. }
  split; [intros s Hs; rewrite Ehi; by apply Hoth4|]. rewrite Ed. cbn [set_requests d_tick]. exact Htick4.
Qed.


(** * the bridge from the committed prefix (C01_lost_round) to stage (a): who proposes the replacement ADD *)
Lemma lost_round_proposer st st' plogs nticks o :
  Lost L st → (∀ a, plogs a = true) → N.of_nat nticks * p_step P < p_ttl P →
  (∀ s, is_Some (f_hist st !! s) → ∃ a, spare st a s) → o ≠ OCrash →
  (∀ st4, pre_schedule P plogs nticks st = Some st4 → fresh_ok st4 (ESchedule o)) →
  healthy_round P plogs nticks o st = Some st' →
  ∀ a q, nonout st' a q → is_add q = true → q_ccid q = cur_version (hist_of (f_hist st') (q_shard q)) →
  ∃ m, member st' (q_shard q) m a ∧ ¬ L (q_shard q) m.
Proof.
  intros HL Hpl Httl Hsp Hnc Hfr Hr ax qx Hqx Hiax Hfencex. pose proof HL as [HK Hin]. destruct (lo_b _ _ HK) as (HI & HP & Hoh).
  assert (Hne : o ≠ OError).
  { apply (round_no_error P st st' plogs nticks o HI); [|done|done|done]. intros a fh Ha. by destruct (ml_hosts _ _ _ HP a fh Ha). }
  rewrite healthy_round_pre in Hr. destruct (pre_schedule P plogs nticks st) as [st4|] eqn:Epre; [|done].
  destruct (lost_pre L P Ldec st plogs nticks st4 HL Hpl ltac:(lia) Epre) as
    (HX4 & Hin4 & HR4 & Hhi4 & Htick4 & Hsh4 & Hmt4 & Hrun4 & Hkeys4 & Hdom4 & Hdbh4 & Hnoh4).
  specialize (Hfr st4 eq_refl).
  destruct (fstep P st4 (ESchedule o)) as [st5| |] eqn:E5; try done. injection Hr as <-.
  destruct HX4 as [(HI4 & HP4 & Hoh4) Hnc4].
  cbn [fstep] in E5. destruct (allowed P (ctx_of_db (f_db st4)) o) eqn:Hal; [|done].
  destruct o as [b| |]; [|done|done].
  set (C := ctx_of_db (f_db st4)) in *. pose proof (loopinv_ctx_wf st4 HI4) as Hwf. fold C in Hwf.
  set (t := d_tick (f_db st)) in *.
  (* what the batch consists of *)
  assert (Hkinds : ∀ q, q ∈ b → is_kill q = true ∨
            (is_add q = true ∧ ∃ c, c ∈ entries C ∧ s_id c = q_shard q ∧ add_req_ok P C c q = true ∧ sr_failed P C c ≠ [])).
  { intros q Hq. destruct (batch_request_cases P C b q Hal Hq) as [Hk|(_ & c & qs & Hc & Hs & Hinq & Hg & _)]; [left; by apply (kills_are_kill C)|].
    destruct (lost_entry L P st4 t c HR4 Hc) as (h & _ & _ & _ & _ & Hhr & _ & Hnone & Hadd). fold C in Hhr, Hnone, Hadd.
    apply group_allowed_inv in Hg as [(Hhr' & _)|(_ & Hcases)]; [congruence|].
    destruct (sr_failed P C c) as [|nf l0] eqn:Ef.
    - rewrite (Hnone eq_refl) in Hcases. destruct Hcases as [[_ ->]|[(? & _)|[(? & ? & _)|(? & _)]]]; try done. by apply elem_of_nil in Hinq.
    - rewrite (Hadd ltac:(done)) in Hcases. destruct Hcases as [[? _]|[(? & _)|[(? & ? & _)|(_ & q' & -> & Hok)]]]; try done.
      apply elem_of_list_singleton in Hinq as ->. right. pose proof Hok as Hok'. unfold add_req_ok in Hok'. apply bool_decide_eq_true in Hok' as (Ha & _).
      split; [done|]. exists c. rewrite Ef. done. }
  assert (Hvalid : ∀ q, q ∈ b → valid_req q = true).
  { intros q Hq. apply allowed_batch_inv in Hal as (_ & _ & _ & _ & _ & Hv). rewrite Forall_forall in Hv. by apply Hv. }
  (* the state after the step *)
  assert (E' : fstep P st4 (ESchedule (OBatch b)) = FOk st5) by (cbn [fstep]; fold C; by rewrite Hal).
  pose proof (step_inv P st4 _ st5 HI4 Hfr E') as HI5.
  pose proof (fstep_time_ok P st4 _ st5 E' (ml_timeok _ _ _ HP4)) as Hto5.
  assert (Hst5 : f_hosts st5 = f_hosts st4 ∧ f_hist st5 = f_hist st4 ∧
                 f_db st5 = set_requests (f_db st4) (put_requests (d_requests (f_db st4)) b)).
  { destruct b as [|q0 b0].
    - injection E5 as <-. split; [done|]. split; [done|]. destruct st4 as [d ? ? ?]. cbn. by destruct d.
    - rewrite (schedule_db P st4 (q0 :: b0) HI4 Hal) in E5 by (intros x Hx; destruct Hfr as [_ Hfr]; by apply Hfr).
      injection E5 as <-. done. }
  destruct Hst5 as (Eh & Ehi & Ed).
  assert (Hnew : ∀ q, q ∈ b → nonout st5 (q_raft q) q).
  { intros q Hq. left. exists (for_addr (q_raft q) b). rewrite Ed. cbn [set_requests d_requests]. rewrite put_requests_lookup.
    rewrite bool_decide_eq_true_2 by (unfold mentions; apply elem_of_list_fmap; by exists q). split; [done|]. unfold for_addr. apply elem_of_list_filter. done. }
  assert (Hsplit : ∀ a q, nonout st5 a q → nonout st4 a q ∨ (q ∈ b ∧ q_raft q = a)).
  { intros a q [(qs & Hl0 & Hi0)|(fh & Hl0 & Hi0)]; [|left; right; exists fh; by rewrite <- Eh].
    rewrite Ed in Hl0. cbn [set_requests d_requests] in Hl0. rewrite put_requests_lookup in Hl0. case_bool_decide as Hm; [|left; left; eauto].
    injection Hl0 as <-. unfold for_addr in Hi0. apply elem_of_list_filter in Hi0 as [Hra Hi0]. by right. }
  destruct (Hsplit ax qx Hqx) as [Hq4|[Hqb <-]].
  { exfalso. destruct (Hin4 ax qx Hq4) as [Hm _]. rewrite Ehi in Hfencex.
    destruct Hm as [[(Hres & _)|[(_ & Hne0 & _)|(Hk & _)]]|[(Hcr & _)|(Hres & _)]]; try done.
    - unfold is_restore, is_create in Hres. unfold is_add in Hiax. by destruct (q_type qx).
    - unfold is_kill in Hk. unfold is_add in Hiax. by destruct (q_type qx).
    - unfold is_create in Hcr. unfold is_add in Hiax. by destruct (q_type qx).
    - unfold is_restore, is_create in Hres. unfold is_add in Hiax. by destruct (q_type qx). }
  destruct (Hkinds qx Hqb) as [Hk|(_ & c & Hc & Hs & Hok & Hfne)]; [unfold is_kill in Hk; unfold is_add in Hiax; by destruct (q_type qx)|].
  destruct (lost_entry L P st4 t c HR4 Hc) as (h & Hh & Hvc & Hcc & Hwait & Hhr & Hfl & _ & _). fold C in Hwait, Hhr, Hfl.
  destruct (calm_view st4 _ h c HI4 Hh Hvc Hcc) as (HM & _ & Hids).
  unfold add_req_ok in Hok. apply bool_decide_eq_true in Hok as (_ & Hsh & _ & _ & Hexok & _).
  apply Exists_exists in Hexok as (m & Hm & Hra). apply elem_sr_ok in Hm as [Hm Hmok]. apply elem_of_mvals in Hm as [rid Hm].
  assert (Hmm : cur_members h !! rid = Some (r_addr m)) by (rewrite <- HM, lookup_fmap, Hm; done).
  exists rid. split; [exists h; rewrite Ehi, Hsh, Hra; done|]. rewrite Hsh. intros Hlm.
  destruct (sr_failed P C c) as [|nf l0] eqn:Ef; [done|]. assert (Hnf : nf ∈ sr_failed P C c) by (rewrite Ef; left).
  pose proof (Hfl nf ltac:(left)) as Hlf. apply elem_sr_failed in Hnf as [Hnfm Hnff]. apply elem_of_mvals in Hnfm as [rf Hrf].
  destruct (Hids rf nf Hrf) as [Hidf _]. rewrite Hidf in Hlf. pose proof (lo_one _ _ HK _ _ _ Hlm Hlf) as ->.
  assert (m = nf) as -> by congruence. unfold replica_ok in Hmok. rewrite Hnff in Hmok. done.
Qed.


(* the round in which the failure of the (single) lost member is detected ends in the class of stage (a) *)
Theorem lost_round_stagea s0 f0 st st' plogs nticks o :
  Lost L st → (∀ s f, L s f → s = s0 ∧ f = f0) → L s0 f0 →
  (∀ a, plogs a = true) → N.of_nat nticks * p_step P < p_ttl P →
  (∀ s, is_Some (f_hist st !! s) → ∃ a, spare st a s) → o ≠ OCrash →
  (∀ st4, pre_schedule P plogs nticks st = Some st4 → fresh_ok st4 (ESchedule o)) →
  p_ttl P < d_tick (f_db st) + N.of_nat nticks * p_step P - mem_tick st s0 f0 →
  healthy_round P plogs nticks o st = Some st' →
  StageA L s0 f0 st' ∧ f_hist st' = f_hist st ∧
  d_tick (f_db st') = d_tick (f_db st) + N.of_nat nticks * p_step P ∧ mem_tick st' s0 f0 = mem_tick st s0 f0.
Proof.
  intros HL Hsingle Hl0 Hpl Httl Hsp Hnc Hfr Hover Hr.
  destruct (lost_round L P Ldec st st' plogs nticks o HL Hpl Httl Hsp Hnc Hfr Hr) as (b & _ & HK1 & Hhi1 & Htk1 & Hmt & Hall & Hcomp).
  split; [|split; [done|split; [done|by apply Hmt]]].
  destruct (Hcomp s0 f0 Hl0) as (a & q & Hq & Hia & Hs & Hlc & Hv); [rewrite Htk1; exact Hover|].
  split.
  - exact HK1.
  - intros a' q' Hq'. destruct (Hall a' q' Hq') as [?|(Hia' & Hl' & Hv' & f & Hlf & _)]; [by left|]. right.
    destruct (Hsingle _ _ Hlf) as [? _]. done.
  - exact Hsingle.
  - exact Hl0.
  - exists a, q. pose proof Hlc as (_ & Hfen & _).
    destruct (lost_round_proposer st st' plogs nticks o HL Hpl Httl Hsp Hnc Hfr Hr a q Hq Hia Hfen) as (m & Hm & HnL).
    exists m. rewrite Hs in Hm, HnL. done.
Qed.


(** * the chain: from a Lost state with a single lost member to Mend *)
(* the hypotheses of the chain, per round of a run: the outcome is not OCrash, the ids drawn are fresh, and - as long
   as the membership history of s0 has its initial length n0, i.e. until the replacement ADD is applied - every shard
   has a spare NodeHost *)
Fixpoint lost_hyps2 (plogs : N → bool) (nticks : nat) (s0 : N) (n0 : nat) (os : list outcome) (st : fstate) : Prop :=
  match os with
  | [] => True
  | o :: os' =>
    o ≠ OCrash ∧ (length (hist_of (f_hist st) s0) = n0 → ∀ s, is_Some (f_hist st !! s) → ∃ a, spare st a s) ∧
    (∀ st4, pre_schedule P plogs nticks st = Some st4 → fresh_ok st4 (ESchedule o)) ∧
    match healthy_round P plogs nticks o st with Some st' => lost_hyps2 plogs nticks s0 n0 os' st' | None => True end
  end.

Lemma lost_hyps_hyps2 plogs nticks s0 n0 os : ∀ st, lost_hyps P plogs nticks os st → lost_hyps2 plogs nticks s0 n0 os st.
Proof.
  induction os as [|o os IH]; intros st H; [done|]. cbn [lost_hyps lost_hyps2] in *. destruct H as (? & ? & ? & H).
  split; [done|]. split; [done|]. split; [done|]. destruct (healthy_round P plogs nticks o st); [by apply IH|done].
Qed.
Lemma lost_detected_stagea plogs nticks s0 f0 n0 :
  (∀ a, plogs a = true) → N.of_nat nticks * p_step P < p_ttl P →
  ∀ os st st', os ≠ [] → Lost L st → (∀ s f, L s f → s = s0 ∧ f = f0) → L s0 f0 →
  length (hist_of (f_hist st) s0) = n0 → lost_hyps2 plogs nticks s0 n0 os st →
  p_ttl P < d_tick (f_db st) - mem_tick st s0 f0 + N.of_nat (length os) * (N.of_nat nticks * p_step P) →
  healthy_rounds P plogs nticks os st = Some st' →
  ∃ os1 os2 st2, os = os1 ++ os2 ∧ StageA L s0 f0 st2 ∧ p_ttl P < d_tick (f_db st2) - mem_tick st2 s0 f0 ∧
    length (hist_of (f_hist st2) s0) = n0 ∧ lost_hyps2 plogs nticks s0 n0 os2 st2 ∧ healthy_rounds P plogs nticks os2 st2 = Some st' ∧
    (length os1 = 1%nat ∨
     N.of_nat (length os1 - 1) * (N.of_nat nticks * p_step P) + (d_tick (f_db st) - mem_tick st s0 f0) ≤ p_ttl P).
Proof.
  intros Hpl Httl. set (delta := N.of_nat nticks * p_step P) in *.
  induction os as [|o os IH]; intros st st' Hne HL Hsingle Hl0 Hn0 Hhyp Hbound Hr; [done|].
  cbn [lost_hyps2] in Hhyp. destruct Hhyp as (Hnc & Hsp & Hfr & Hhyp'). specialize (Hsp Hn0).
  cbn [healthy_rounds] in Hr. destruct (healthy_round P plogs nticks o st) as [st1|] eqn:E1; [|done].
  pose proof (lost_mem_tick_le L Ldec st s0 f0 HL) as Hle0.
  destruct (decide (p_ttl P < d_tick (f_db st) + delta - mem_tick st s0 f0)) as [Hfail|Hwait].
  - destruct (lost_round_stagea s0 f0 st st1 plogs nticks o HL Hsingle Hl0 Hpl Httl Hsp Hnc Hfr Hfail E1) as (HA & Hhi & Htk & Hmt).
    exists [o], os, st1. split; [done|]. split; [done|]. split; [rewrite Htk, Hmt; fold delta; lia|]. split; [by rewrite Hhi|]. split; [done|]. split; [done|]. by left.
  - assert (Hyoung : ∀ s f, L s f → d_tick (f_db st) + delta - mem_tick st s f ≤ p_ttl P).
    { intros s f Hlf. destruct (Hsingle s f Hlf) as [-> ->]. lia. }
    destruct (lost_round_wait L P Ldec st st1 plogs nticks o HL Hpl Httl Hsp Hnc Hfr E1 Hyoung) as (HL1 & Hhi1 & Htk1 & Hmt1).
    destruct os as [|o2 os2]; [cbn [length] in Hbound; lia|].
    destruct (IH st1 st' ltac:(done) HL1 Hsingle Hl0 ltac:(by rewrite Hhi1) Hhyp') as (os1 & os3 & st2 & Hos & HA & Hov & Hn2 & Hh2 & Hr2 & Hb); [|done|].
    { rewrite (Hmt1 s0 f0 Hl0), Htk1. fold delta. cbn [length] in Hbound |- *. lia. }
    exists (o :: os1), os3, st2. split; [by rewrite Hos|]. split; [done|]. split; [done|]. split; [done|]. split; [done|]. split; [done|].
    right. cbn [length]. rewrite Nat.sub_succ, Nat.sub_0_r. rewrite (Hmt1 s0 f0 Hl0), Htk1 in Hb. fold delta in Hb.
    destruct Hb as [->|Hb]; [change (N.of_nat 1) with 1; lia|]. destruct (length os1) as [|k]; [cbn [Nat.sub] in Hb; change (N.of_nat 0) with 0 in *; lia|].
    cbn [Nat.sub] in Hb. rewrite Nat.sub_0_r in Hb. rewrite Nat2N.inj_succ. nia.
Qed.

Theorem lost_heal_single_failure plogs nticks s0 f0 os st st' :
  Lost L st → (∀ s f, L s f → s = s0 ∧ f = f0) → L s0 f0 →
  (∀ a, plogs a = true) → N.of_nat nticks * p_step P < p_ttl P → (0 < nticks)%nat → 0 < p_step P →
  lost_hyps2 plogs nticks s0 (length (hist_of (f_hist st) s0)) (take (detect_rounds P nticks + 5) os) st →
  (2 * detect_rounds P nticks + 10 ≤ length os)%nat →
  healthy_rounds P plogs nticks os st = Some st' →
  Mend st' ∧ healed P st' = true.
Proof.
  intros HL Hsingle Hl0 Hpl Httl Hnt Hstep Hhyp Hlen Hr. set (delta := N.of_nat nticks * p_step P) in *.
  assert (Hdelta : 0 < delta) by (unfold delta; nia).
  assert (Hdet : N.of_nat (detect_rounds P nticks) = N.succ (p_ttl P / delta)).
  { unfold detect_rounds. fold delta. rewrite Nat2N.inj_succ, N2Nat.id. done. }
  set (K := (detect_rounds P nticks + 5)%nat) in *.
  rewrite <- (take_drop K os), rounds_app in Hr.
  destruct (healthy_rounds P plogs nticks (take K os) st) as [stK|] eqn:EK; [|done].
  assert (HlenK : length (take K os) = K) by (rewrite take_length; lia).
  destruct (lost_detected_stagea plogs nticks s0 f0 (length (hist_of (f_hist st) s0)) Hpl Httl (take K os) st stK) as (os1 & os2 & st2 & Hos & HA & Hov & Hn2 & Hh2 & Hr2 & Hb); try done.
  { intros Hnil. rewrite Hnil in HlenK. cbn in HlenK. lia. }
  { fold delta. rewrite HlenK. pose proof (N.mul_succ_div_gt (p_ttl P) delta ltac:(lia)) as Hgt.
    assert (N.succ (p_ttl P / delta) ≤ N.of_nat K) by lia. nia. }
  assert (Hl1 : (length os1 ≤ detect_rounds P nticks)%nat).
  { destruct Hb as [->|Hb]; [unfold detect_rounds; lia|]. fold delta in Hb.
    assert (N.of_nat (length os1 - 1) ≤ p_ttl P / delta) by (apply N.div_le_lower_bound; [lia|nia]). lia. }
  rewrite Hos, app_length in HlenK.
  destruct os2 as [|oa [|ob [|oc [|od [|oe os3]]]]]; cbn [length] in HlenK; try lia.
  assert (Hle : N.of_nat nticks * p_step P ≤ p_ttl P) by (fold delta; lia).
  cbn [lost_hyps2] in Hh2. cbn [healthy_rounds] in Hr2.
  destruct Hh2 as (Hnca & Hspa & Hfra & Hh2). specialize (Hspa Hn2).
  destruct (healthy_round P plogs nticks oa st2) as [sta|] eqn:Ea; [|done].
  destruct (lost_stage_add_applied L P Ldec s0 f0 st2 sta plogs nticks oa HA Hpl Httl Hspa Hnca Hfra Ea) as (ba & _ & HB & Htka & _ & Hmta).
  destruct Hh2 as (Hncb & _ & Hfrb & Hh2).
  destruct (healthy_round P plogs nticks ob sta) as [stb|] eqn:Eb; [|done].
  destruct (lost_stage_join L P Ldec s0 f0 sta stb plogs nticks ob HB Hpl Httl Hncb Hfrb Eb) as (bb & x & t & _ & HC & _ & Htkb & Hmtb).
  destruct Hh2 as (Hncc & _ & Hfrc & Hh2).
  destruct (healthy_round P plogs nticks oc stb) as [stc|] eqn:Ec; [|done].
  destruct (lost_stage_join_started L P Ldec s0 f0 x t stb stc plogs nticks oc HC Hpl Httl Hncc Hfrc Ec) as (bc & _ & HD & _ & Htkc & Hmtc).
  destruct Hh2 as (Hncd & _ & Hfrd & Hh2).
  destruct (healthy_round P plogs nticks od stc) as [std|] eqn:Ed; [|done].
  assert (Hovd : p_ttl P < d_tick (f_db stc) - mem_tick stc s0 f0) by (rewrite Hmtc, Hmtb, Hmta, Htkc, Htkb, Htka; fold delta; lia).
  destruct (lost_stage_delete L P Ldec s0 f0 x t stc std plogs nticks od HD Hpl Httl Hncd Hfrd Hovd Ed) as (bd & _ & HE & _ & Htkd).
  destruct Hh2 as (Hnce & _ & Hfre & Hh2).
  destruct (healthy_round P plogs nticks oe std) as [ste|] eqn:Ee; [|done].
  destruct (lost_stage_delete_applied s0 f0 x t std ste plogs nticks oe HE Hpl Httl Hnce Hfre Ee) as (be & _ & HMB & Hinert & _).
  (* the rest of the run, from a state of MendB in which every pending request is a leftover *)
  assert (Hrest : healthy_rounds P plogs nticks (os3 ++ drop K os) ste = Some st') by (by rewrite rounds_app, Hr2).
  assert (Hlrest : (detect_rounds P nticks + 5 ≤ length (os3 ++ drop K os))%nat) by (rewrite app_length, drop_length; lia).
  destruct (os3 ++ drop K os) as [|og rest]; [cbn in Hlrest; lia|]. cbn [healthy_rounds] in Hrest. cbn [length] in Hlrest.
  destruct (healthy_round P plogs nticks og ste) as [stg|] eqn:Eg; [|done].
  destruct (mendb_inert_round P ste stg plogs nticks og HMB Hinert Hpl Hle Eg) as (bg & _ & _ & HMg).
  apply (mend_heal_ge P plogs nticks Hpl Hle rest stg st' HMg Hnt Hstep); [lia|done].
Qed.

End StageDel.

(** * the hypotheses of the chain are decidable on a concrete run *)
Fixpoint lost_hyps2b (P : params) (plogs : N → bool) (nticks : nat) (s0 : N) (n0 : nat) (os : list outcome) (st : fstate) : bool :=
  match os with
  | [] => true
  | o :: os' =>
    match o with OCrash => false | _ => true end
    && (negb (length (hist_of (f_hist st) s0) =? n0)%nat
        || forallb (λ sh : N * list hentry, existsb (λ ah : N * fhost, spareb st ah.1 sh.1) (map_to_list (f_hosts st))) (map_to_list (f_hist st)))
    && match pre_schedule P plogs nticks st with Some st4 => fresh_okb st4 (ESchedule o) | None => true end
    && match healthy_round P plogs nticks o st with Some st' => lost_hyps2b P plogs nticks s0 n0 os' st' | None => true end
  end.

Lemma lost_hyps2b_sound P plogs nticks s0 n0 os : ∀ st, lost_hyps2b P plogs nticks s0 n0 os st = true → lost_hyps2 P plogs nticks s0 n0 os st.
Proof.
  induction os as [|o os IH]; intros st H; cbn [lost_hyps2]; [done|]. cbn [lost_hyps2b] in H.
  apply andb_true_iff in H as [H Hrec]. apply andb_true_iff in H as [H Hfr]. apply andb_true_iff in H as [Hnc Hsp].
  split; [by destruct o|]. split; [|split].
  - intros Hn0 s [h Hh]. apply orb_true_iff in Hsp as [Hsp|Hsp]; [apply negb_true_iff, Nat.eqb_neq in Hsp; done|].
    pose proof (forallb_map_to_list _ _ Hsp s h Hh) as Hx. cbn [fst] in Hx. apply existsb_exists in Hx as ([a fh] & _ & Hx).
    exists a. by apply spareb_sound.
  - intros st4 E. rewrite E in Hfr. by apply fresh_okb_sound.
  - destruct (healthy_round P plogs nticks o st); [by apply IH|done].
Qed.

