(** C15, several outstanding snapshot contexts / images per machine (the slot system [sstep] of KVSM.v): every
    replica is the replay of its update history, every outstanding context and every image stands for the replay
    of the history captured at ITS prepare point.  Same refinement record as the single-slot system. *)
From Drummer.Model Require Import Base KVCodec KVSM.
From Drummer.Proofs Require Import KVSMProofs.

Lemma set2_hit {A} (f : N -> N -> A) r sl x r' sl' :
  (r' =? r) && (sl' =? sl) = true -> set2 f r sl x r' sl' = x /\ r' = r /\ sl' = sl.
Proof.
  intros H. unfold set2. rewrite H. apply andb_prop in H. destruct H as [H1 H2].
  apply N.eqb_eq in H1. apply N.eqb_eq in H2. auto.
Qed.

Lemma set2_miss {A} (f : N -> N -> A) r sl x r' sl' :
  (r' =? r) && (sl' =? sl) = false -> set2 f r sl x r' sl' = f r' sl'.
Proof. intros H. unfold set2. rewrite H. reflexivity. Qed.

Section SlotGeneric.
Variable M : machine.
Variable sm : N.
Variable eok : entry -> Prop.
Variable kok : bytes -> Prop.
Hypothesis RF : refines M sm eok kok.

Definition cx_ok (x : sst M) (g : sgh) : Prop :=
  forall r sl c, s_cx M x r sl = Some c ->
    exists h s, h_cx g r sl = Some h /\ replay M h = Some s /\ c = m_prepare M s.
Definition sn_ok (x : sst M) (g : sgh) : Prop :=
  forall r sl img, s_sn M x r sl = Some img ->
    exists h s cur, h_sn g r sl = Some h /\ replay M h = Some s /\ img = m_save M cur (m_prepare M s).
Definition sinv (x : sst M) (g : sgh) : Prop :=
  (forall r, replay M (h_st g r) = Some (s_st M x r)) /\ cx_ok x g /\ sn_ok x g.

Definition sgok (g : sgh) : Prop :=
  (forall r, Forall eok (h_st g r)) /\
  (forall r sl h, h_cx g r sl = Some h -> Forall eok h) /\
  (forall r sl h, h_sn g r sl = Some h -> Forall eok h).

Lemma sgok_step g o : sgok g -> Forall eok (sop_entries o) -> sgok (sgstep (m_has_prepare M) g o).
Proof.
  intros (G1 & G2 & G3) HE.
  destruct o as [r ents|r k|r|r sl|r sl|r src sl|r|r]; cbn [sgstep sop_entries] in *;
    try (split; [exact G1|split; [exact G2|exact G3]]).
  - (* update *)
    split; [|split; [exact G2|exact G3]]. cbn [h_st]. intros r'. unfold set1.
    destruct (r' =? r); [|apply G1]. apply Forall_app. split; [apply G1|exact HE].
  - (* prepare *)
    split; [exact G1|split; [|exact G3]]. cbn [h_cx]. intros r' sl' h Hh.
    destruct ((r' =? r) && (sl' =? sl)) eqn:E.
    + destruct (set2_hit (h_cx g) r sl (Some (h_st g r)) r' sl' E) as (Hs & _ & _). rewrite Hs in Hh.
      inversion Hh; subst h. apply G1.
    + rewrite (set2_miss _ _ _ _ _ _ E) in Hh. eapply G2; exact Hh.
  - (* save *)
    assert (HC : forall h0, (if m_has_prepare M then h_cx g r sl else Some (h_st g r)) = Some h0 -> Forall eok h0).
    { intros h0 H0. destruct (m_has_prepare M); [eapply G2; exact H0|inversion H0; subst h0; apply G1]. }
    destruct (if m_has_prepare M then h_cx g r sl else Some (h_st g r)) as [h0|];
      [|split; [exact G1|split; [exact G2|exact G3]]].
    split; [exact G1|split]; cbn [h_cx h_sn].
    + intros r' sl' h Hh. destruct ((r' =? r) && (sl' =? sl)) eqn:E.
      * destruct (set2_hit (h_cx g) r sl None r' sl' E) as (Hs & _ & _). rewrite Hs in Hh. discriminate.
      * rewrite (set2_miss _ _ _ _ _ _ E) in Hh. eapply G2; exact Hh.
    + intros r' sl' h Hh. destruct ((r' =? r) && (sl' =? sl)) eqn:E.
      * destruct (set2_hit (h_sn g) r sl (Some h0) r' sl' E) as (Hs & _ & _). rewrite Hs in Hh.
        inversion Hh; subst h. apply HC. reflexivity.
      * rewrite (set2_miss _ _ _ _ _ _ E) in Hh. eapply G3; exact Hh.
  - (* recover *)
    destruct (h_sn g src sl) as [h0|] eqn:E0; [|split; [exact G1|split; [exact G2|exact G3]]].
    split; [|split; [|exact G3]]; cbn [h_st h_cx].
    + intros r'. unfold set1. destruct (r' =? r); [eapply G3; exact E0|apply G1].
    + intros r' sl' h Hh. unfold clr in Hh. destruct (r' =? r); [discriminate|eapply G2; exact Hh].
  - (* reopen *)
    split; [exact G1|split; [|exact G3]]. cbn [h_cx]. intros r' sl' h Hh. unfold clr in Hh.
    destruct (r' =? r); [discriminate|eapply G2; exact Hh].
Qed.

Lemma sinv_step x g o x' mo :
  sinv x g -> sgok g -> sstep M x o = Some (x', mo) -> sinv x' (sgstep (m_has_prepare M) g o).
Proof.
  intros (I1 & I2 & I3) (G1 & G2 & G3) HS.
  destruct o as [r ents|r k|r|r sl|r sl|r src sl|r|r]; cbn [sstep sgstep] in *.
  - (* update *)
    destruct (m_update M (s_st M x r) ents) as [st'|] eqn:E; [|discriminate]. inversion HS; subst x' mo. clear HS.
    split; [|split; [exact I2|exact I3]]. cbn [s_st h_st]. intros r'. unfold set1.
    destruct (r' =? r); [|apply I1]. eapply (rf_fuse _ _ _ _ RF); [apply I1|exact E].
  - inversion HS; subst. split; [exact I1|split; [exact I2|exact I3]].
  - (* sync *)
    destruct (m_sync M (s_st M x r)) as [st'|] eqn:E; [|discriminate]. inversion HS; subst x' mo. clear HS.
    apply (rf_sync _ _ _ _ RF) in E. subst st'.
    split; [|split; [exact I2|exact I3]]. cbn [s_st]. intros r'. unfold set1.
    destruct (r' =? r) eqn:ER; [|apply I1]. apply N.eqb_eq in ER. subst r'. apply I1.
  - (* prepare *)
    destruct (m_has_prepare M); [|discriminate]. inversion HS; subst x' mo. clear HS.
    split; [exact I1|split; [|exact I3]]. intros r' sl' c Hc. cbn [s_cx h_cx] in *.
    destruct ((r' =? r) && (sl' =? sl)) eqn:E.
    + destruct (set2_hit (s_cx M x) r sl (Some (m_prepare M (s_st M x r))) r' sl' E) as (Hs & _ & _).
      destruct (set2_hit (h_cx g) r sl (Some (h_st g r)) r' sl' E) as (Hg & _ & _).
      rewrite Hs in Hc. inversion Hc; subst c. rewrite Hg.
      exists (h_st g r), (s_st M x r). repeat split. apply I1.
    + rewrite (set2_miss _ _ _ _ _ _ E) in Hc. rewrite (set2_miss _ _ _ _ _ _ E). apply I2. exact Hc.
  - (* save *)
    assert (HC : forall c, (if m_has_prepare M then s_cx M x r sl else Some (m_prepare M (s_st M x r))) = Some c ->
                 exists h s, (if m_has_prepare M then h_cx g r sl else Some (h_st g r)) = Some h /\
                             replay M h = Some s /\ c = m_prepare M s).
    { intros c Hc. destruct (m_has_prepare M); [apply I2; exact Hc|].
      inversion Hc; subst c. exists (h_st g r), (s_st M x r). repeat split. apply I1. }
    destruct (if m_has_prepare M then s_cx M x r sl else Some (m_prepare M (s_st M x r))) as [c|]; [|discriminate].
    inversion HS; subst x' mo. clear HS.
    destruct (HC c eq_refl) as (h0 & s0 & Hh0 & Hr0 & Hc0). rewrite Hh0.
    split; [exact I1|split]; cbn [s_cx s_sn h_cx h_sn].
    + intros r' sl' c' Hc'. cbn [s_cx h_cx] in *. destruct ((r' =? r) && (sl' =? sl)) eqn:E.
      * destruct (set2_hit (s_cx M x) r sl None r' sl' E) as (Hs & _ & _). rewrite Hs in Hc'. discriminate.
      * rewrite (set2_miss _ _ _ _ _ _ E) in Hc'. rewrite (set2_miss _ _ _ _ _ _ E). apply I2. exact Hc'.
    + intros r' sl' img Hi. cbn [s_sn h_sn] in *. destruct ((r' =? r) && (sl' =? sl)) eqn:E.
      * destruct (set2_hit (s_sn M x) r sl (Some (m_save M (s_st M x r) c)) r' sl' E) as (Hs & _ & _).
        destruct (set2_hit (h_sn g) r sl (Some h0) r' sl' E) as (Hg & _ & _).
        rewrite Hs in Hi. inversion Hi; subst img. rewrite Hg.
        exists h0, s0, (s_st M x r). subst c. repeat split. exact Hr0.
      * rewrite (set2_miss _ _ _ _ _ _ E) in Hi. rewrite (set2_miss _ _ _ _ _ _ E). apply I3. exact Hi.
  - (* recover *)
    destruct (s_sn M x src sl) as [img|] eqn:E; [|discriminate].
    destruct (m_recover M (s_st M x r) img) as [st'|] eqn:E2; [|discriminate]. inversion HS; subst x' mo. clear HS.
    destruct (I3 src sl img E) as (h0 & s0 & cur & Hg & Hr & Hi). rewrite Hg.
    split; [|split; [|exact I3]]; cbn [s_st s_cx h_st h_cx].
    + intros r'. unfold set1. destruct (r' =? r); [|apply I1].
      subst img. rewrite (rf_snap _ _ _ _ RF h0 s0 cur _ st' Hr (G3 _ _ _ Hg) E2). exact Hr.
    + intros r' sl' c Hc. cbn [s_cx h_cx] in *. unfold clr in *. destruct (r' =? r); [discriminate|apply I2; exact Hc].
  - (* reopen *)
    destruct (m_reopen M (s_st M x r)) as [[st' i]|] eqn:E; [|discriminate]. inversion HS; subst x' mo. clear HS.
    destruct (rf_reopen _ _ _ _ RF _ _ _ _ (I1 r) E) as [-> _].
    split; [|split; [|exact I3]]; cbn [s_st s_cx h_cx].
    + intros r'. unfold set1. destruct (r' =? r) eqn:ER; [|apply I1]. apply N.eqb_eq in ER. subst r'. apply I1.
    + intros r' sl' c Hc. cbn [s_cx h_cx] in *. unfold clr in *. destruct (r' =? r); [discriminate|apply I2; exact Hc].
  - inversion HS; subst. split; [exact I1|split; [exact I2|exact I3]].
Qed.

Lemma srun_inv ops : forall x g x',
  sinv x g -> sgok g -> Forall eok (sscript_entries ops) -> srun_from M x ops = Some x' ->
  sinv x' (fold_left (sgstep (m_has_prepare M)) ops g) /\ sgok (fold_left (sgstep (m_has_prepare M)) ops g).
Proof.
  induction ops as [|o ops IH]; intros x g x' HI HG HF HR; cbn [srun_from fold_left] in *.
  - inversion HR; subst. split; assumption.
  - destruct (sstep M x o) as [[x1 mo]|] eqn:E; [|discriminate].
    unfold sscript_entries in HF. cbn [flat_map] in HF. apply Forall_app in HF. destruct HF as [HF1 HF2].
    eapply IH; [eapply sinv_step; eassumption|apply sgok_step; assumption|exact HF2|exact HR].
Qed.

Lemma sinv0 : sinv (sst0 M) sgh0.
Proof. split; [intros r; reflexivity|]. split; intros r sl y Hy; discriminate. Qed.

Lemma sgok0 : sgok sgh0.
Proof. split; [intros r; constructor|]. split; intros r sl h Hh; discriminate. Qed.

Theorem slots_generic : slots_spec M sm (fun ops => Forall eok (sscript_entries ops)) kok.
Proof.
  intros ops x HR HP. unfold srun in HR.
  destruct (srun_inv ops _ _ _ sinv0 sgok0 HP HR) as [(I1 & I2 & I3) (G1 & G2 & G3)].
  fold (shist_sys (m_has_prepare M) ops) in *. split.
  - intros r k Hk. apply (rf_lookup _ _ _ _ RF); [apply I1|exact Hk].
  - intros src sl img Hi. destruct (I3 src sl img Hi) as (h & s0 & cur & Hg & Hr & ->).
    exists h, s0. split; [exact Hg|]. split; [exact Hr|].
    intros t s' HRec. eapply (rf_snap _ _ _ _ RF); [exact Hr|eapply G3; exact Hg|exact HRec].
Qed.
End SlotGeneric.

Lemma json_slots c sm : slots_spec (json_machine c sm) sm (utf8_sscript sm) any_key.
Proof.
  intros ops x HR HP. apply (slots_generic _ _ _ _ (json_refines c sm) ops x HR).
  apply forallb_Forall. exact HP.
Qed.

Lemma disk_slots sm : slots_spec (disk_m sm) sm any_sscript user_key.
Proof.
  intros ops x HR _. apply (slots_generic _ _ _ _ (disk_refines sm) ops x HR).
  apply Forall_forall. intros; exact I.
Qed.
