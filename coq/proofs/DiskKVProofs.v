(** DiskKVProofs: crash-consistency of the DiskKVModel protocol (property C16).

    ASSUMPTION (pebble is not modelled, DESIGN.md C16): a store directory is an abstract store
    ([CrashFS.store]).  Opening an existing durable store directory yields the state of its last synced
    batch ([st_disk]; the empty store for a directory in which no batch was synced, however far its
    creation by pebble.Open got); a synced batch is atomic (after a crash it is there entirely or not at
    all: [fs_batch] replaces [st_disk] in one step).  pebble's WAL / manifest recovery is exercised by the
    correspondence check on the strict MemFS, not proved.

    Structure (DESIGN.md H.3):
      - [WF]       invariant at API-call boundaries (volatile and durable view, process, name supplies);
      - [dur_ok]   what must hold of the durable view at EVERY intermediate point so that a crash leads
                   back to [WF] ([crash_wf]);
      - [plan_good] per API call: every prefix of its step list satisfies [dur_ok] and denotes either the
                   logical state before or after the call; the complete list re-establishes [WF] and denotes
                   the state after the call; no call panics;
      - [event_step] / [run_inv]: induction over arbitrary event lists (calls and crashed calls, among them
                   crashed Opens = crashes during recovery). *)
From Coq Require Import ZifyN ZifyNat ZifyBool.
From Drummer.Model Require Import Base CrashFS DiskKVModel.

(* ------------------------------------------------------------------ generic helpers *)
Lemma fupd_eq {A} (f : N -> A) k v : fupd f k v k = v.
Proof. unfold fupd. now rewrite N.eqb_refl. Qed.

Lemma fupd_neq {A} (f : N -> A) k v x : x <> k -> fupd f k v x = f x.
Proof. intros Hne. unfold fupd. destruct (N.eqb_spec x k) as [He|_]; [contradiction|reflexivity]. Qed.

Lemma memN_false_lt (d : N) (l : list N) : Forall (fun x => x < d) l -> memN d l = false.
Proof.
  induction 1 as [|x l Hx _ IH]; [reflexivity|].
  unfold memN in *. cbn [existsb]. rewrite IH.
  destruct (N.eqb_spec d x) as [He|_]; [lia|reflexivity].
Qed.

Lemma memN_In (d : N) (l : list N) : In d l -> memN d l = true.
Proof.
  intros Hin. unfold memN. apply existsb_exists. exists d. split; [exact Hin|apply N.eqb_refl].
Qed.

Lemma Forall_lt_succ (n : N) (l : list N) : Forall (fun x => x < n) l -> Forall (fun x => x < n + 1) l.
Proof. intros H. eapply Forall_impl; [|exact H]. cbn beta. intros a Ha. lia. Qed.

Lemma exec_app (a b : list step) (s : fs) : exec (a ++ b) s = exec b (exec a s).
Proof. unfold exec. apply fold_left_app. Qed.

(** a predicate holds after every prefix of a step list *)
Fixpoint all_prefixes (Q : fs -> Prop) (l : list step) (s : fs) : Prop :=
  Q s /\ match l with
         | [] => True
         | st :: l' => all_prefixes Q l' (exec_step st s)
         end.

Lemma all_prefixes_firstn (Q : fs -> Prop) (l : list step) :
  forall s, all_prefixes Q l s -> forall k, Q (exec (firstn k l) s).
Proof.
  induction l as [|st l IH]; intros s Hall k.
  - destruct k; cbn; apply Hall.
  - destruct k as [|k]; [cbn; apply Hall|].
    cbn [firstn]. change (exec (st :: firstn k l) s) with (exec (firstn k l) (exec_step st s)).
    apply IH. apply Hall.
Qed.

Lemma all_prefixes_head (Q : fs -> Prop) l s : all_prefixes Q l s -> Q s.
Proof. destruct l; cbn; tauto. Qed.

Lemma all_prefixes_app (Q : fs -> Prop) (a b : list step) :
  forall s, all_prefixes Q a s -> all_prefixes Q b (exec a s) -> all_prefixes Q (a ++ b) s.
Proof.
  induction a as [|st a IH]; intros s Ha Hb.
  - cbn in *. exact Hb.
  - cbn [app all_prefixes]. split; [apply Ha|].
    apply IH; [apply Ha|exact Hb].
Qed.

(** steps that preserve a predicate keep it along the whole list *)
Lemma all_prefixes_preserved (Q : fs -> Prop) (l : list step) :
  (forall st m, In st l -> Q m -> Q (exec_step st m)) ->
  forall s, Q s -> all_prefixes Q l s /\ Q (exec l s).
Proof.
  induction l as [|st l IH]; intros Hpres s Hs.
  - cbn. tauto.
  - assert (Hs' : Q (exec_step st s)) by (apply Hpres; [now left|exact Hs]).
    destruct (IH (fun st' m Hin => Hpres st' m (or_intror Hin)) _ Hs') as [Hall Hend].
    split; [cbn [all_prefixes]; split; assumption|exact Hend].
Qed.

Lemma all_prefixes_impl (Q Q' : fs -> Prop) l :
  (forall m, Q m -> Q' m) -> forall s, all_prefixes Q l s -> all_prefixes Q' l s.
Proof.
  intros Himp. induction l as [|st l IH]; intros s H; cbn in *.
  - split; [apply Himp; apply H|exact I].
  - split; [apply Himp; apply H|apply IH; apply H].
Qed.

Section Proofs.
Variable ck : N -> N.

Notation ptr := (ptr_bytes ck).

Lemma decode_ptr_bytes d : decode_ptr ck (ptr d) = RdOk d.
Proof. unfold decode_ptr, ptr_bytes. now rewrite N.eqb_refl. Qed.

Definition up (p : proc) : bool := match p_db p with Some _ => true | None => false end.

Definition ino_ok (s : fs) (v : dview) : Prop :=
  (forall i, v_cur v = Some i -> i < f_next s) /\ (forall i, v_upd v = Some i -> i < f_next s).
Definition dbs_ok (fresh : N) (v : dview) : Prop := Forall (fun d => d < fresh) (v_dbs v).

(** invariant at API-call boundaries *)
Record WF (y : sys) : Prop := mkWF {
  wA1 : fst (f_rootT (s_fs y)) = snd (f_rootT (s_fs y));
  wA2 : fst (f_TN (s_fs y)) = snd (f_TN (s_fs y));
  wA3 : fst (f_TN (s_fs y)) = true -> fst (f_rootT (s_fs y)) = true;
  wB : exists_N (s_fs y) = false -> f_vol (s_fs y) = view0 /\ f_dur (s_fs y) = view0;
  wC : v_cur (f_vol (s_fs y)) = v_cur (f_dur (s_fs y));
  wD : forall i, v_cur (f_vol (s_fs y)) = Some i ->
       exists d, i_data (f_ino (s_fs y) i) = ptr d /\ i_synced (f_ino (s_fs y) i) = ptr d /\
                 In d (v_dbs (f_vol (s_fs y))) /\ In d (v_dbs (f_dur (s_fs y)));
  wE : forall d, st_mem (f_st (s_fs y) d) = st_disk (f_st (s_fs y) d);
  wF1 : ino_ok (s_fs y) (f_vol (s_fs y));
  wF2 : ino_ok (s_fs y) (f_dur (s_fs y));
  wF3 : dbs_ok (s_fresh y) (f_vol (s_fs y));
  wF4 : dbs_ok (s_fresh y) (f_dur (s_fs y));
  wG : forall d, p_db (s_proc y) = Some d ->
       exists_N (s_fs y) = true /\
       exists i, v_cur (f_vol (s_fs y)) = Some i /\ i_data (f_ino (s_fs y) i) = ptr d /\
                 p_last (s_proc y) = fst (st_mem (f_st (s_fs y) d))
}.

(** what every intermediate state must satisfy *)
Definition dur_ok (fresh : N) (m : fs) : Prop :=
  dur_wf ck m /\ ino_ok m (f_dur m) /\ dbs_ok fresh (f_dur m).

Lemma wf0 : WF sys0.
Proof.
  constructor; cbn.
  - reflexivity.
  - reflexivity.
  - intros H; discriminate H.
  - intros _. split; reflexivity.
  - reflexivity.
  - intros i H. discriminate H.
  - reflexivity.
  - split; intros i H; discriminate H.
  - split; intros i H; discriminate H.
  - constructor.
  - constructor.
  - intros d H. discriminate H.
Qed.

Lemma dur_state_crash m : dur_state ck (fs_crash m) = dur_state ck m.
Proof.
  unfold dur_state, dur_ptr, durable_N, fs_crash. cbn.
  destruct (snd (f_rootT m)), (snd (f_TN m)); cbn; reflexivity.
Qed.

Lemma dur_ptr_crash m : dur_ptr ck (fs_crash m) = dur_ptr ck m.
Proof.
  unfold dur_ptr, durable_N, fs_crash. cbn.
  destruct (snd (f_rootT m)), (snd (f_TN m)); cbn; reflexivity.
Qed.

Lemma crash_wf fresh m : dur_ok fresh m -> WF (mkSys (fs_crash m) proc0 fresh).
Proof.
  intros (Hwf & Hino & Hdbs).
  unfold dur_wf, durable_N in Hwf.
  constructor; cbn.
  - reflexivity.
  - reflexivity.
  - intros H. apply andb_prop in H. apply H.
  - unfold exists_N. cbn. intros H.
    destruct (snd (f_rootT m)), (snd (f_TN m)); cbn in *; try discriminate H; split; reflexivity.
  - reflexivity.
  - intros i Hi.
    destruct (snd (f_rootT m)), (snd (f_TN m)); cbn in *; try discriminate Hi.
    destruct (Hwf eq_refl i Hi) as (d & Hs & Hin).
    exists d. repeat split; assumption.
  - reflexivity.
  - destruct (snd (f_rootT m) && snd (f_TN m)); [exact Hino|].
    split; intros i H; discriminate H.
  - destruct (snd (f_rootT m) && snd (f_TN m)); [exact Hino|].
    split; intros i H; discriminate H.
  - destruct (snd (f_rootT m) && snd (f_TN m)); [exact Hdbs|constructor].
  - destruct (snd (f_rootT m) && snd (f_TN m)); [exact Hdbs|constructor].
  - intros d H. discriminate H.
Qed.

Lemma crash_dur_wf m : dur_wf ck m -> dur_wf ck (fs_crash m).
Proof.
  unfold dur_wf, durable_N, fs_crash. cbn. intros Hwf Hn i Hi.
  destruct (snd (f_rootT m)), (snd (f_TN m)); cbn in *; try discriminate Hn.
  exact (Hwf eq_refl i Hi).
Qed.

(** a boundary state's durable view is fine, and denotes the volatile pointer's store *)
Lemma wf_dur_ok y : WF y -> dur_ok (s_fresh y) (s_fs y).
Proof.
  intros H. split; [|split; [apply (wF2 _ H)|apply (wF4 _ H)]].
  intros Hn i Hi. rewrite <- (wC _ H) in Hi.
  destruct (wD _ H i Hi) as (d & _ & Hs & _ & Hin). exists d. split; assumption.
Qed.

Lemma dur_ok_succ fresh m : dur_ok fresh m -> dur_ok (fresh + 1) m.
Proof.
  intros (a & b & c). split; [exact a|split; [exact b|]].
  unfold dbs_ok in *. apply Forall_lt_succ. exact c.
Qed.

Lemma wf_durable_N y : WF y -> durable_N (s_fs y) = exists_N (s_fs y).
Proof. intros H. unfold durable_N, exists_N. now rewrite (wA1 _ H), (wA2 _ H). Qed.

Lemma wf_up_dur_state y d :
  WF y -> p_db (s_proc y) = Some d ->
  dur_state ck (s_fs y) = st_mem (f_st (s_fs y) d) /\ fst (dur_state ck (s_fs y)) = p_last (s_proc y) /\
  read_ptr ck (s_fs y) = RdOk d /\ In d (v_dbs (f_vol (s_fs y))) /\ In d (v_dbs (f_dur (s_fs y))).
Proof.
  intros H Hd.
  destruct (wG _ H d Hd) as (HN & i & Hi & Hdat & Hlast).
  destruct (wD _ H i Hi) as (d' & Hdat' & Hsyn & Hin1 & Hin2).
  assert (d' = d) as ->.
  { rewrite Hdat in Hdat'. unfold ptr_bytes in Hdat'. now inversion Hdat'. }
  unfold dur_state, dur_ptr. rewrite (wf_durable_N _ H), HN, <- (wC _ H), Hi, Hsyn, decode_ptr_bytes.
  rewrite <- (wE _ H d).
  repeat split; try assumption.
  - now rewrite Hlast.
  - unfold read_ptr, fs_read. cbn. rewrite Hi, Hdat. apply decode_ptr_bytes.
Qed.

Lemma wf_fresh_succ s p f : WF (mkSys s p f) -> WF (mkSys s p (f + 1)).
Proof.
  intros H. destruct H as [a1 a2 a3 b c d e f1 f2 f3 f4 g]. cbn in *.
  constructor; cbn; try assumption.
  - apply Forall_lt_succ, f3.
  - apply Forall_lt_succ, f4.
Qed.

Definition mid_ok (fresh : N) (L0 L1 : kvstate) (m : fs) : Prop :=
  dur_ok fresh m /\ (dur_state ck m = L0 \/ dur_state ck m = L1).

(** the per-call obligation *)
Definition plan_good (y : sys) (o : op) : Prop :=
  let pl := plan ck o (s_fs y) (s_proc y) (s_fresh y) in
  let x0 := (dur_state ck (s_fs y), up (s_proc y)) in
  let x1 := spec_op o x0 in
  all_prefixes (mid_ok (s_fresh y + 1) (fst x0) (fst x1)) (fst pl) (s_fs y) /\
  exists p', snd pl = Some p' /\
     WF (mkSys (exec (fst pl) (s_fs y)) p' (s_fresh y + 1)) /\
     dur_state ck (exec (fst pl) (s_fs y)) = fst x1 /\ up p' = snd x1.

Lemma mid_ok_start y L1 : WF y -> mid_ok (s_fresh y + 1) (dur_state ck (s_fs y)) L1 (s_fs y).
Proof. intros H. split; [apply dur_ok_succ, wf_dur_ok, H|now left]. Qed.

(** calls that do nothing *)
Lemma plan_good_noop y o :
  WF y -> plan ck o (s_fs y) (s_proc y) (s_fresh y) = ([], Some (s_proc y)) ->
  spec_op o (dur_state ck (s_fs y), up (s_proc y)) = (dur_state ck (s_fs y), up (s_proc y)) ->
  plan_good y o.
Proof.
  intros H Hpl Hsp. unfold plan_good. rewrite Hpl, Hsp. cbn.
  split; [split; [apply mid_ok_start, H|exact I]|].
  exists (s_proc y). split; [reflexivity|]. split; [|split; reflexivity].
  destruct y as [s p f]. apply wf_fresh_succ, H.
Qed.

Lemma plan_good_skip y o : WF y -> in_contract o (s_proc y) = false -> plan_good y o.
Proof.
  intros H Hc. apply plan_good_noop; [exact H| |].
  - unfold plan. now rewrite Hc.
  - unfold in_contract, up in *. destruct o, (p_db (s_proc y)); cbn in *; congruence.
Qed.

Lemma plan_good_update y b : WF y -> plan_good y (OUpdate b).
Proof.
  intros H. destruct (in_contract (OUpdate b) (s_proc y)) eqn:Hc; [|now apply plan_good_skip].
  unfold in_contract in Hc. destruct (p_db (s_proc y)) as [d|] eqn:Hd; [clear Hc|discriminate Hc].
  destruct (wf_up_dur_state y d H Hd) as (Hst & Hlast & Hrd & Hin1 & Hin2).
  assert (Hptr : dur_ptr ck (s_fs y) = RdOk d).
  { destruct (wG _ H d Hd) as (HN & i & Hi & Hdat & _).
    destruct (wD _ H i Hi) as (d' & Hdat' & Hsyn & _).
    unfold dur_ptr. rewrite (wf_durable_N _ H), HN, <- (wC _ H), Hi, Hsyn.
    rewrite Hdat in Hdat'. rewrite <- Hdat'. apply decode_ptr_bytes. }
  unfold plan_good, plan, in_contract, plan_update, up. rewrite Hd. cbn [fst snd spec_op].
  set (x := (p_last (s_proc y) + nlen b, apply_batch b (snd (st_mem (f_st (s_fs y) d))))).
  assert (Hx : (fst (dur_state ck (s_fs y)) + nlen b, apply_batch b (snd (dur_state ck (s_fs y)))) = x).
  { unfold x. now rewrite Hlast, Hst. }
  rewrite Hx.
  assert (Hds : dur_state ck (fs_batch d true x (s_fs y)) = x).
  { unfold dur_state. change (dur_ptr ck (fs_batch d true x (s_fs y))) with (dur_ptr ck (s_fs y)).
    rewrite Hptr. cbn. now rewrite fupd_eq. }
  assert (Hdo : dur_ok (s_fresh y + 1) (fs_batch d true x (s_fs y))).
  { apply dur_ok_succ. exact (wf_dur_ok y H). }
  split.
  - cbn [all_prefixes exec_step]. split; [apply mid_ok_start, H|].
    split; [|exact I]. split; [exact Hdo|now right].
  - eexists. split; [reflexivity|]. split; [|split; [exact Hds|reflexivity]].
    change (exec [SStBatch d true x] (s_fs y)) with (fs_batch d true x (s_fs y)).
    destruct y as [s p f]. apply wf_fresh_succ.
    destruct H as [a1 a2 a3 b0 c d0 e f1 f2 f3 f4 g]. cbn in *.
    constructor; cbn; try assumption.
    + intros d1. unfold fupd. destruct (d1 =? d); [reflexivity|apply e].
    + intros d1 Hd1. injection Hd1 as <-. destruct (g d Hd) as (HN & i & Hi & Hdat & _).
      split; [exact HN|]. exists i. repeat split; try assumption. now rewrite fupd_eq.
Qed.

Lemma plan_good_sync y : WF y -> plan_good y OSync.
Proof.
  intros H. destruct (in_contract OSync (s_proc y)) eqn:Hc; [|now apply plan_good_skip].
  unfold in_contract in Hc. destruct (p_db (s_proc y)) as [d|] eqn:Hd; [clear Hc|discriminate Hc].
  destruct (wf_up_dur_state y d H Hd) as (Hst & Hlast & Hrd & Hin1 & Hin2).
  assert (Hptr : dur_ptr ck (s_fs y) = RdOk d).
  { destruct (wG _ H d Hd) as (HN & i & Hi & Hdat & _).
    destruct (wD _ H i Hi) as (d' & Hdat' & Hsyn & _).
    unfold dur_ptr. rewrite (wf_durable_N _ H), HN, <- (wC _ H), Hi, Hsyn.
    rewrite Hdat in Hdat'. rewrite <- Hdat'. apply decode_ptr_bytes. }
  unfold plan_good, plan, in_contract, plan_sync, up. rewrite Hd. cbn [fst snd spec_op].
  set (x := st_mem (f_st (s_fs y) d)).
  assert (Hds : dur_state ck (fs_batch d true x (s_fs y)) = dur_state ck (s_fs y)).
  { rewrite Hst. unfold dur_state. change (dur_ptr ck (fs_batch d true x (s_fs y))) with (dur_ptr ck (s_fs y)).
    rewrite Hptr. cbn. now rewrite fupd_eq. }
  assert (Hdo : dur_ok (s_fresh y + 1) (fs_batch d true x (s_fs y))).
  { apply dur_ok_succ. exact (wf_dur_ok y H). }
  split.
  - cbn [all_prefixes exec_step]. split; [apply mid_ok_start, H|].
    split; [|exact I]. split; [exact Hdo|now right].
  - exists (s_proc y). split; [reflexivity|]. split; [|split; [exact Hds|unfold up; now rewrite Hd]].
    change (exec [SStBatch d true x] (s_fs y)) with (fs_batch d true x (s_fs y)).
    destruct y as [s p f]. apply wf_fresh_succ.
    destruct H as [a1 a2 a3 b0 c d0 e f1 f2 f3 f4 g]. cbn in *.
    constructor; cbn; try assumption.
    + intros d1. unfold fupd. destruct (d1 =? d); [reflexivity|apply e].
    + intros d1 Hd1. destruct (g d1 Hd1) as (HN & i & Hi & Hdat & Hl).
      split; [exact HN|]. exists i. repeat split; try assumption.
      rewrite Hd in Hd1. injection Hd1 as <-. now rewrite fupd_eq.
Qed.

Lemma plan_good_close y : WF y -> plan_good y OClose.
Proof.
  intros H. destruct (in_contract OClose (s_proc y)) eqn:Hc; [|now apply plan_good_skip].
  unfold in_contract in Hc. destruct (p_db (s_proc y)) as [d|] eqn:Hd; [clear Hc|discriminate Hc].
  unfold plan_good, plan, in_contract, plan_close, up. rewrite Hd. cbn [fst snd spec_op].
  split.
  - cbn [all_prefixes exec_step]. split; [apply mid_ok_start, H|].
    split; [apply mid_ok_start, H|exact I].
  - exists proc0. split; [reflexivity|]. split; [|split; reflexivity].
    change (exec [SStClose d] (s_fs y)) with (s_fs y).
    destruct y as [s p f]. apply wf_fresh_succ.
    destruct H as [a1 a2 a3 b0 c d0 e f1 f2 f3 f4 g]. cbn in *.
    constructor; cbn; try assumption.
    intros d1 Hd1. discriminate Hd1.
Qed.

(* ------------------------------------------------------------------ explicit states *)
Local Arguments fupd : simpl never.
Local Arguments N.add : simpl never.
Local Arguments N.eqb : simpl never.

Ltac fup := repeat first [rewrite fupd_eq | rewrite fupd_neq by lia].

(** durable view without a pointer: denotes the empty store *)
Lemma mid_ok_nocur fr L1 m :
  v_cur (f_dur m) = None -> ino_ok m (f_dur m) -> dbs_ok fr (f_dur m) -> mid_ok fr kv_init L1 m.
Proof.
  intros Hc Hi Hd. split.
  - split; [|split; assumption]. intros _ i Hi'. rewrite Hc in Hi'. discriminate Hi'.
  - left. unfold dur_state, dur_ptr. rewrite Hc. destruct (durable_N m); reflexivity.
Qed.

Lemma dur_state_nocur m : v_cur (f_dur m) = None -> dur_state ck m = kv_init.
Proof. intros Hc. unfold dur_state, dur_ptr. rewrite Hc. destruct (durable_N m); reflexivity. Qed.

(** durable view with a pointer *)
Lemma mid_ok_cur fr L0 L1 m i d :
  v_cur (f_dur m) = Some i -> i_synced (f_ino m i) = ptr d -> In d (v_dbs (f_dur m)) ->
  ino_ok m (f_dur m) -> dbs_ok fr (f_dur m) -> durable_N m = true ->
  (st_disk (f_st m d) = L0 \/ st_disk (f_st m d) = L1) ->
  mid_ok fr L0 L1 m.
Proof.
  intros Hc Hs Hin Hi Hd HN Hst. split.
  - split; [|split; assumption]. intros _ i' Hi'. rewrite Hc in Hi'. injection Hi' as <-.
    exists d. split; assumption.
  - unfold dur_state, dur_ptr. rewrite HN, Hc, Hs, decode_ptr_bytes. exact Hst.
Qed.

Lemma dur_state_cur m i d :
  durable_N m = true -> v_cur (f_dur m) = Some i -> i_synced (f_ino m i) = ptr d ->
  dur_state ck m = st_disk (f_st m d).
Proof. intros HN Hc Hs. unfold dur_state, dur_ptr. now rewrite HN, Hc, Hs, decode_ptr_bytes. Qed.

(** states that differ in the volatile entries of the node directory only *)
Definition same_dur (s m : fs) : Prop :=
  f_rootT m = f_rootT s /\ f_TN m = f_TN s /\ f_dur m = f_dur s /\ f_ino m = f_ino s /\
  f_next m = f_next s /\ f_st m = f_st s.

Lemma same_dur_refl s : same_dur s s.
Proof. repeat split. Qed.

Lemma same_dur_mid fr L0 L1 s m : same_dur s m -> mid_ok fr L0 L1 s -> mid_ok fr L0 L1 m.
Proof.
  destruct s as [rT tN vol dur ino nxt st], m as [rT' tN' vol' dur' ino' nxt' st'].
  unfold same_dur. cbn. intros (-> & -> & -> & -> & -> & ->) H. exact H.
Qed.

Lemma same_dur_state s m : same_dur s m -> dur_state ck m = dur_state ck s.
Proof.
  destruct s as [rT tN vol dur ino nxt st], m as [rT' tN' vol' dur' ino' nxt' st'].
  unfold same_dur. cbn. intros (-> & -> & -> & -> & -> & ->). reflexivity.
Qed.

Definition norm (s : fs) : fs :=
  mkFS (true, true) (true, true) (f_vol s) (f_dur s) (f_ino s) (f_next s) (f_st s).

(** computation on explicit file-system records *)
Ltac cfs :=
  cbv beta iota zeta delta
    [plan_node_dir exists_T exists_N durable_N norm exec fold_left all_prefixes exec_step
     fs_sync_T fs_mkdirN fs_mkdirT fs_sync_root fs_sync_N fs_create fs_write fs_fsync fs_rename
     fs_remove_file fs_remove_db fs_batch set_vol set_ino set_st v_file v_set_file v_set_dbs
     f_rootT f_TN fst snd andb negb f_vol f_dur f_ino f_next f_st v_cur v_upd v_dbs
     save_ptr replace_ptr view0].

Ltac splits := repeat match goal with |- _ /\ _ => split end.

(** ---- createNodeDataDir *)
Lemma node_dir_ok y :
  WF y ->
  all_prefixes (mid_ok (s_fresh y + 1) (dur_state ck (s_fs y)) (dur_state ck (s_fs y)))
               (plan_node_dir (s_fs y)) (s_fs y) /\
  exec (plan_node_dir (s_fs y)) (s_fs y) = norm (s_fs y) /\
  dur_state ck (norm (s_fs y)) = dur_state ck (s_fs y) /\
  (exists_N (s_fs y) = false -> f_vol (s_fs y) = view0 /\ f_dur (s_fs y) = view0).
Proof.
  intros H. pose proof (mid_ok_start y (dur_state ck (s_fs y)) H) as H0.
  pose proof (wB _ H) as HB.
  destruct H as [a1 a2 a3 _ _ _ _ _ _ _ _ _].
  destruct y as [[[a b] [c d] vol dur ino nxt st] p fr]. cbn in *. subst b d.
  destruct a, c; try (specialize (a3 eq_refl); discriminate a3).
  - (* node directory exists *)
    cfs. cbn [app]. cfs.
    split; [split; [exact H0|split; [exact H0|exact I]]|].
    split; [reflexivity|split; [reflexivity|intros Hf; discriminate Hf]].
  - (* T exists, N does not *)
    destruct (HB eq_refl) as [-> ->]. clear H0 HB.
    cfs. cbn [app]. cfs. rewrite !dur_state_nocur by reflexivity.
    split.
    + splits; try exact I; (apply mid_ok_nocur; [reflexivity|split; intros i Hi; discriminate Hi|constructor]).
    + split; [reflexivity|split; [reflexivity|intros _; split; reflexivity]].
  - (* neither exists *)
    destruct (HB eq_refl) as [-> ->]. clear H0 HB.
    cfs. cbn [app]. cfs. rewrite !dur_state_nocur by reflexivity.
    split.
    + splits; try exact I; (apply mid_ok_nocur; [reflexivity|split; intros i Hi; discriminate Hi|constructor]).
    + split; [reflexivity|split; [reflexivity|intros _; split; reflexivity]].
Qed.

(** obligations about inode numbers and directory names on explicit views *)
Ltac ino_tac :=
  split; intros ?i ?Hi; cbn in *;
  first [ discriminate
        | match goal with H : Some _ = Some _ |- _ => injection H as <-; lia end
        | match goal with Hb : forall j, ?o = Some j -> j < _, H : ?o = Some _ |- _ => specialize (Hb _ H); lia end ].

(** ---- first Open: create the store directory, make it durable, publish the pointer, open the store *)
Lemma first_run_ok (vu du : option N) (vd dd : list N) ino nxt st f fr L1 :
  (forall i, vu = Some i -> i < nxt) -> (forall i, du = Some i -> i < nxt) ->
  Forall (fun d => d < f) vd -> Forall (fun d => d < f) dd -> f < fr ->
  let s1 := mkFS (true, true) (true, true) (mkView None vu vd) (mkView None du dd) ino nxt st in
  let steps := [SMkdirDb f; SSyncN] ++ save_ptr ck f ++ replace_ptr ++ [SStOpen f] in
  all_prefixes (mid_ok fr kv_init L1) steps s1 /\
  exists ino',
    exec steps s1 = mkFS (true, true) (true, true) (mkView (Some nxt) None (f :: vd))
                         (mkView (Some nxt) None (f :: vd)) ino' (nxt + 1) (fupd st f store0) /\
    i_data (ino' nxt) = ptr f /\ i_synced (ino' nxt) = ptr f.
Proof.
  intros Hvu Hdu Hvd Hdd Hf s1 steps.
  assert (Hmem : memN f vd = false) by (apply memN_false_lt; exact Hvd).
  assert (Hdd' : Forall (fun d => d < fr) dd) by (eapply Forall_impl; [|exact Hdd]; cbn beta; intros; lia).
  assert (Hvd' : Forall (fun d => d < fr) (f :: vd)).
  { constructor; [exact Hf|]. eapply Forall_impl; [|exact Hvd]. cbn beta; intros; lia. }
  assert (E1 : exec_step (SMkdirDb f) s1 =
               mkFS (true, true) (true, true) (mkView None vu (f :: vd)) (mkView None du dd) ino nxt (fupd st f store0)).
  { unfold s1. cbn [exec_step]. unfold fs_mkdir_db. cbn [f_vol v_dbs]. rewrite Hmem. reflexivity. }
  unfold steps. cbv [save_ptr replace_ptr]. cbn [app].
  split.
  - cbn [all_prefixes]. rewrite E1. unfold s1. cfs.
    splits; try exact I.
    all: try (apply mid_ok_nocur; [reflexivity|ino_tac|cbn; assumption]).
    all: apply (mid_ok_cur fr kv_init L1 _ nxt f);
      [reflexivity|cbn; fup; reflexivity|left; reflexivity|ino_tac|cbn; assumption|reflexivity
      |left; cbn; fup; reflexivity].
  - unfold exec. cbn [fold_left]. rewrite E1. cfs.
    eexists. split; [reflexivity|]. cbn. fup. cbn. fup. split; reflexivity.
Qed.


Lemma all_prefixes_last (Q : fs -> Prop) l s : all_prefixes Q l s -> Q (exec l s).
Proof. intros H. rewrite <- (firstn_all l). now apply all_prefixes_firstn. Qed.

Lemma in_stale x d l : In x (filter (fun x => negb (x =? d)) l) -> In x l /\ x <> d.
Proof.
  intros Hin. apply filter_In in Hin. destruct Hin as [Hin Hne]. split; [exact Hin|].
  apply negb_true_iff in Hne. now apply N.eqb_neq.
Qed.

(** cleanupNodeDataDir + createDB on the directory named by the pointer: volatile entries only *)
Definition clean_inv (fr : N) (s : fs) (i d : N) (m : fs) : Prop :=
  same_dur s m /\ v_cur (f_vol m) = Some i /\ In d (v_dbs (f_vol m)) /\
  ino_ok m (f_vol m) /\ dbs_ok fr (f_vol m).

Lemma clean_step fr s i d st m :
  In st ([SRemoveF FUpd] ++ map SRemoveDb (filter (fun x => negb (x =? d)) (v_dbs (f_vol s))) ++ [SStOpen d]) ->
  clean_inv fr s i d m -> clean_inv fr s i d (exec_step st m).
Proof.
  intros Hin (Hsd & Hc & Hd & Hi & Hdb).
  cbn [app] in Hin. destruct Hin as [<-|Hin].
  - (* remove current.updating *)
    destruct m as [rT tN [vc vu vd] dur ino nxt sto]. cbn in *.
    split; [exact Hsd|]. split; [exact Hc|]. split; [exact Hd|]. split; [|exact Hdb].
    destruct Hi as [Hi1 _]. split; [exact Hi1|]. intros j Hj. discriminate Hj.
  - apply in_app_or in Hin. destruct Hin as [Hin|[<-|[]]].
    + apply in_map_iff in Hin. destruct Hin as (x & <- & Hx). apply in_stale in Hx. destruct Hx as [_ Hne].
      destruct m as [rT tN [vc vu vd] dur ino nxt sto]. cbn in *.
      split; [exact Hsd|]. split; [exact Hc|]. split; [|split; [exact Hi|]].
      * apply filter_In. split; [exact Hd|]. apply negb_true_iff. apply N.eqb_neq. congruence.
      * unfold dbs_ok in *. cbn in *. apply Forall_forall. intros z Hz. apply filter_In in Hz.
        rewrite Forall_forall in Hdb. apply Hdb. apply Hz.
    + cbn [exec_step]. repeat split; assumption.
Qed.

Lemma plan_good_open y : WF y -> plan_good y OOpen.
Proof.
  intros H. destruct (in_contract OOpen (s_proc y)) eqn:Hc; [|now apply plan_good_skip].
  unfold in_contract in Hc. destruct (p_db (s_proc y)) as [d0|] eqn:Hd; [discriminate Hc|clear Hc].
  destruct (node_dir_ok y H) as (Hpre & Hex & Hdn & HB).
  pose proof (all_prefixes_last _ _ _ Hpre) as Hnorm. rewrite Hex in Hnorm.
  unfold plan_good, plan, in_contract, up. rewrite Hd. cbn [fst snd spec_op].
  unfold plan_open.
  destruct (negb (exists_N (s_fs y)) || match v_cur (f_vol (s_fs y)) with None => true | Some _ => false end) eqn:Hnew.
  - (* new run *)
    assert (Hvc : v_cur (f_vol (s_fs y)) = None).
    { destruct (exists_N (s_fs y)) eqn:HN.
      - cbn in Hnew. destruct (v_cur (f_vol (s_fs y))); [discriminate Hnew|reflexivity].
      - destruct (HB eq_refl) as [-> _]. reflexivity. }
    assert (Hdc : v_cur (f_dur (s_fs y)) = None) by (rewrite <- (wC _ H); exact Hvc).
    assert (Hk : dur_state ck (s_fs y) = kv_init) by (apply dur_state_nocur; exact Hdc).
    rewrite Hk in *. cbn [fst snd].
    destruct H as [a1 a2 a3 b c d e [f1a f1b] [f2a f2b] f3 f4 g].
    destruct y as [[rT tN [vc vu vd] [dc du dd] ino nxt st] p fr]. cbn in *. subst vc dc.
    destruct (first_run_ok vu du vd dd ino nxt st fr (fr + 1) kv_init f1b f2b f3 f4 ltac:(lia))
      as (Hall & ino' & Hfin & Hdat & Hsyn).
    unfold norm in *. cbn [f_vol f_dur f_ino f_next f_st] in *.
    split.
    + apply all_prefixes_app; [exact Hpre|]. rewrite Hex. exact Hall.
    + eexists. split; [reflexivity|]. rewrite exec_app, Hex, Hfin.
      split; [|split; [|reflexivity]].
      * constructor; cbn.
        -- reflexivity.
        -- reflexivity.
        -- reflexivity.
        -- intros Hf. discriminate Hf.
        -- reflexivity.
        -- intros i Hi. injection Hi as <-. exists fr. repeat split; try assumption; now left.
        -- intros d1. unfold fupd. destruct (d1 =? fr); [reflexivity|apply e].
        -- ino_tac.
        -- ino_tac.
        -- constructor; [lia|]. apply Forall_lt_succ. exact f3.
        -- constructor; [lia|]. apply Forall_lt_succ. exact f3.
        -- intros d1 Hd1. injection Hd1 as <-. split; [reflexivity|]. exists nxt.
           split; [reflexivity|]. split; [exact Hdat|]. now rewrite fupd_eq.
      * rewrite (dur_state_cur _ nxt fr); [cbn; now rewrite fupd_eq|reflexivity|reflexivity|exact Hsyn].
  - (* the pointer exists: clean up, open the store it names *)
    apply orb_false_iff in Hnew. destruct Hnew as [HN Hvc]. apply negb_false_iff in HN.
    destruct (v_cur (f_vol (s_fs y))) as [i|] eqn:Hi; [clear Hvc|discriminate Hvc].
    destruct (wD _ H i Hi) as (d & Hdat & Hsyn & Hin1 & Hin2).
    assert (Hrd : read_ptr ck (s_fs y) = RdOk d).
    { unfold read_ptr, fs_read. cbn [v_file]. rewrite Hi, Hdat. apply decode_ptr_bytes. }
    rewrite Hrd, (memN_In _ _ Hin1). cbn [fst snd].
    assert (Hns : norm (s_fs y) = s_fs y).
    { pose proof (wA1 _ H) as a1. pose proof (wA2 _ H) as a2. unfold exists_N in HN.
      destruct (s_fs y) as [[a b] [c e] vol dur ino nxt st]. cbn in *. subst b e.
      apply andb_prop in HN. destruct HN as [-> ->]. reflexivity. }
    rewrite Hns in *.
    set (rest := [SRemoveF FUpd] ++ map SRemoveDb (filter (fun x => negb (x =? d)) (v_dbs (f_vol (s_fs y)))) ++ [SStOpen d]).
    assert (Hci : clean_inv (s_fresh y + 1) (s_fs y) i d (s_fs y)).
    { split; [apply same_dur_refl|]. split; [exact Hi|]. split; [exact Hin1|].
      split; [apply (wF1 _ H)|]. apply Forall_lt_succ. apply (wF3 _ H). }
    destruct (all_prefixes_preserved (clean_inv (s_fresh y + 1) (s_fs y) i d) rest
                (fun st m Hin Hm => clean_step _ _ _ _ st m Hin Hm) _ Hci) as [Hall Hend].
    replace (plan_node_dir (s_fs y) ++ [SRemoveF FUpd] ++
             map SRemoveDb (filter (fun x => negb (x =? d)) (v_dbs (f_vol (s_fs y))))) ++ [SStOpen d])
      with (plan_node_dir (s_fs y) ++ rest) by (unfold rest; now rewrite <- !app_assoc).
    split.
    + apply all_prefixes_app; [exact Hpre|]. rewrite Hex.
      eapply all_prefixes_impl; [|exact Hall]. intros m Hm. eapply same_dur_mid; [apply Hm|exact Hnorm].
    + eexists. split; [reflexivity|]. rewrite exec_app, Hex.
      destruct Hend as (Hsd & Hc' & Hd' & Hi' & Hdb').
      rewrite (same_dur_state _ _ Hsd).
      split; [|split; reflexivity].
      destruct Hsd as (s1 & s2 & s3 & s4 & s5 & s6).
      destruct H as [a1 a2 a3 b c d1 e f1 f2 f3 f4 g].
      constructor; cbn [s_fs s_proc s_fresh p_db p_last].
      * now rewrite s1.
      * now rewrite s2.
      * now rewrite s1, s2.
      * unfold exists_N in *. rewrite s1, s2. intros Hf. rewrite Hf in HN. discriminate HN.
      * rewrite Hc', s3, <- c. exact Hi.
      * intros i' Hi'. rewrite Hc' in Hi'. injection Hi' as <-. exists d. rewrite s4, s3. repeat split; assumption.
      * intros d2. rewrite s6. apply e.
      * exact Hi'.
      * unfold ino_ok in *. rewrite s3, s5. exact f2.
      * exact Hdb'.
      * rewrite s3. apply Forall_lt_succ. exact f4.
      * intros d2 Hd2. injection Hd2 as <-. split; [unfold exists_N in *; now rewrite s1, s2|].
        exists i. rewrite s4, s6. repeat split; assumption.
Qed.

End Proofs.
