(** DiskKVProofs: crash-consistency of the DiskKVModel protocol (property C16).

    ASSUMPTION (pebble is not modelled, DESIGN.md C16): a store directory is an abstract store
    ([CrashFS.store]).  Opening an existing durable store directory yields the state of its last synced
    batch ([st_disk]; the empty store for a directory in which no batch was synced, however far its
    creation by pebble.Open got); a synced batch is atomic (after a crash it is there entirely or not at
    all: [fs_batch] replaces [st_disk] in one step).  pebble's WAL / manifest recovery is exercised by the
    correspondence check on the strict MemFS, not proved.

    Structure (DESIGN.md H.3):
      - [WF]       invariant at API-call boundaries (volatile and durable view, process, name supplies);
      - [dur_ok]   what must hold of the durable view at EVERY intermediate point so that a crash leads
                   back to [WF] ([crash_wf]);
      - [plan_good] per API call: every prefix of its step list satisfies [dur_ok] and denotes either the
                   logical state before or after the call; the complete list re-establishes [WF] and denotes
                   the state after the call; no call panics;
      - [event_step] / [run_inv]: induction over arbitrary event lists (calls and crashed calls, among them
                   crashed Opens = crashes during recovery). *)
From Coq Require Import ZifyN ZifyNat ZifyBool.
From Drummer.Model Require Import Base CrashFS DiskKVModel.

(* ------------------------------------------------------------------ generic helpers *)
Lemma fupd_eq {A} (f : N -> A) k v : fupd f k v k = v.
Proof. unfold fupd. now rewrite N.eqb_refl. Qed.

Lemma fupd_neq {A} (f : N -> A) k v x : x <> k -> fupd f k v x = f x.
Proof. intros Hne. unfold fupd. destruct (N.eqb_spec x k) as [He|_]; [contradiction|reflexivity]. Qed.

Lemma memN_false_lt (d : N) (l : list N) : Forall (fun x => x < d) l -> memN d l = false.
Proof.
  induction 1 as [|x l Hx _ IH]; [reflexivity|].
  unfold memN in *. cbn [existsb]. rewrite IH.
  destruct (N.eqb_spec d x) as [He|_]; [lia|reflexivity].
Qed.

Lemma memN_In (d : N) (l : list N) : In d l -> memN d l = true.
Proof.
  intros Hin. unfold memN. apply existsb_exists. exists d. split; [exact Hin|apply N.eqb_refl].
Qed.

Lemma Forall_lt_succ (n : N) (l : list N) : Forall (fun x => x < n) l -> Forall (fun x => x < n + 1) l.
Proof. intros H. eapply Forall_impl; [|exact H]. cbn beta. intros a Ha. lia. Qed.

Lemma exec_app (a b : list step) (s : fs) : exec (a ++ b) s = exec b (exec a s).
Proof. unfold exec. apply fold_left_app. Qed.

(** a predicate holds after every prefix of a step list *)
Fixpoint all_prefixes (Q : fs -> Prop) (l : list step) (s : fs) : Prop :=
  Q s /\ match l with
         | [] => True
         | st :: l' => all_prefixes Q l' (exec_step st s)
         end.

Lemma all_prefixes_firstn (Q : fs -> Prop) (l : list step) :
  forall s, all_prefixes Q l s -> forall k, Q (exec (firstn k l) s).
Proof.
  induction l as [|st l IH]; intros s Hall k.
  - destruct k; cbn; apply Hall.
  - destruct k as [|k]; [cbn; apply Hall|].
    cbn [firstn]. change (exec (st :: firstn k l) s) with (exec (firstn k l) (exec_step st s)).
    apply IH. apply Hall.
Qed.

Lemma all_prefixes_head (Q : fs -> Prop) l s : all_prefixes Q l s -> Q s.
Proof. destruct l; cbn; tauto. Qed.

Lemma all_prefixes_app (Q : fs -> Prop) (a b : list step) :
  forall s, all_prefixes Q a s -> all_prefixes Q b (exec a s) -> all_prefixes Q (a ++ b) s.
Proof.
  induction a as [|st a IH]; intros s Ha Hb.
  - cbn in *. exact Hb.
  - cbn [app all_prefixes]. split; [apply Ha|].
    apply IH; [apply Ha|exact Hb].
Qed.

(** steps that preserve a predicate keep it along the whole list *)
Lemma all_prefixes_preserved (Q : fs -> Prop) (l : list step) :
  (forall st m, In st l -> Q m -> Q (exec_step st m)) ->
  forall s, Q s -> all_prefixes Q l s /\ Q (exec l s).
Proof.
  induction l as [|st l IH]; intros Hpres s Hs.
  - cbn. tauto.
  - assert (Hs' : Q (exec_step st s)) by (apply Hpres; [now left|exact Hs]).
    destruct (IH (fun st' m Hin => Hpres st' m (or_intror Hin)) _ Hs') as [Hall Hend].
    split; [cbn [all_prefixes]; split; assumption|exact Hend].
Qed.

Lemma all_prefixes_impl (Q Q' : fs -> Prop) l :
  (forall m, Q m -> Q' m) -> forall s, all_prefixes Q l s -> all_prefixes Q' l s.
Proof.
  intros Himp. induction l as [|st l IH]; intros s H; cbn in *.
  - split; [apply Himp; apply H|exact I].
  - split; [apply Himp; apply H|apply IH; apply H].
Qed.

Section Proofs.
Variable ck : N -> N.

Notation ptr := (ptr_bytes ck).

Lemma decode_ptr_bytes d : decode_ptr ck (ptr d) = RdOk d.
Proof. unfold decode_ptr, ptr_bytes. now rewrite N.eqb_refl. Qed.

Definition up (p : proc) : bool := match p_db p with Some _ => true | None => false end.

Definition ino_ok (s : fs) (v : dview) : Prop :=
  (forall i, v_cur v = Some i -> i < f_next s) /\ (forall i, v_upd v = Some i -> i < f_next s).
Definition dbs_ok (fresh : N) (v : dview) : Prop := Forall (fun d => d < fresh) (v_dbs v).

(** invariant at API-call boundaries *)
Record WF (y : sys) : Prop := mkWF {
  wA1 : fst (f_rootT (s_fs y)) = snd (f_rootT (s_fs y));
  wA2 : fst (f_TN (s_fs y)) = snd (f_TN (s_fs y));
  wA3 : fst (f_TN (s_fs y)) = true -> fst (f_rootT (s_fs y)) = true;
  wB : exists_N (s_fs y) = false -> f_vol (s_fs y) = view0 /\ f_dur (s_fs y) = view0;
  wC : v_cur (f_vol (s_fs y)) = v_cur (f_dur (s_fs y));
  wD : forall i, v_cur (f_vol (s_fs y)) = Some i ->
       exists d, i_data (f_ino (s_fs y) i) = ptr d /\ i_synced (f_ino (s_fs y) i) = ptr d /\
                 In d (v_dbs (f_vol (s_fs y))) /\ In d (v_dbs (f_dur (s_fs y)));
  wE : forall d, st_mem (f_st (s_fs y) d) = st_disk (f_st (s_fs y) d);
  wF1 : ino_ok (s_fs y) (f_vol (s_fs y));
  wF2 : ino_ok (s_fs y) (f_dur (s_fs y));
  wF3 : dbs_ok (s_fresh y) (f_vol (s_fs y));
  wF4 : dbs_ok (s_fresh y) (f_dur (s_fs y));
  wG : forall d, p_db (s_proc y) = Some d ->
       exists_N (s_fs y) = true /\
       exists i, v_cur (f_vol (s_fs y)) = Some i /\ i_data (f_ino (s_fs y) i) = ptr d /\
                 p_last (s_proc y) = fst (st_mem (f_st (s_fs y) d))
}.

(** what every intermediate state must satisfy *)
Definition dur_ok (fresh : N) (m : fs) : Prop :=
  dur_wf ck m /\ ino_ok m (f_dur m) /\ dbs_ok fresh (f_dur m).

Lemma wf0 : WF sys0.
Proof.
  constructor; cbn.
  - reflexivity.
  - reflexivity.
  - intros H; discriminate H.
  - intros _. split; reflexivity.
  - reflexivity.
  - intros i H. discriminate H.
  - reflexivity.
  - split; intros i H; discriminate H.
  - split; intros i H; discriminate H.
  - constructor.
  - constructor.
  - intros d H. discriminate H.
Qed.

Lemma dur_state_crash m : dur_state ck (fs_crash m) = dur_state ck m.
Proof.
  unfold dur_state, dur_ptr, durable_N, fs_crash. cbn.
  destruct (snd (f_rootT m)), (snd (f_TN m)); cbn; reflexivity.
Qed.

Lemma dur_ptr_crash m : dur_ptr ck (fs_crash m) = dur_ptr ck m.
Proof.
  unfold dur_ptr, durable_N, fs_crash. cbn.
  destruct (snd (f_rootT m)), (snd (f_TN m)); cbn; reflexivity.
Qed.

Lemma crash_wf fresh m : dur_ok fresh m -> WF (mkSys (fs_crash m) proc0 fresh).
Proof.
  intros (Hwf & Hino & Hdbs).
  unfold dur_wf, durable_N in Hwf.
  constructor; cbn.
  - reflexivity.
  - reflexivity.
  - intros H. apply andb_prop in H. apply H.
  - unfold exists_N. cbn. intros H.
    destruct (snd (f_rootT m)), (snd (f_TN m)); cbn in *; try discriminate H; split; reflexivity.
  - reflexivity.
  - intros i Hi.
    destruct (snd (f_rootT m)), (snd (f_TN m)); cbn in *; try discriminate Hi.
    destruct (Hwf eq_refl i Hi) as (d & Hs & Hin).
    exists d. repeat split; assumption.
  - reflexivity.
  - destruct (snd (f_rootT m) && snd (f_TN m)); [exact Hino|].
    split; intros i H; discriminate H.
  - destruct (snd (f_rootT m) && snd (f_TN m)); [exact Hino|].
    split; intros i H; discriminate H.
  - destruct (snd (f_rootT m) && snd (f_TN m)); [exact Hdbs|constructor].
  - destruct (snd (f_rootT m) && snd (f_TN m)); [exact Hdbs|constructor].
  - intros d H. discriminate H.
Qed.

Lemma crash_dur_wf m : dur_wf ck m -> dur_wf ck (fs_crash m).
Proof.
  unfold dur_wf, durable_N, fs_crash. cbn. intros Hwf Hn i Hi.
  destruct (snd (f_rootT m)), (snd (f_TN m)); cbn in *; try discriminate Hn.
  exact (Hwf eq_refl i Hi).
Qed.

(** a boundary state's durable view is fine, and denotes the volatile pointer's store *)
Lemma wf_dur_ok y : WF y -> dur_ok (s_fresh y) (s_fs y).
Proof.
  intros H. split; [|split; [apply (wF2 _ H)|apply (wF4 _ H)]].
  intros Hn i Hi. rewrite <- (wC _ H) in Hi.
  destruct (wD _ H i Hi) as (d & _ & Hs & _ & Hin). exists d. split; assumption.
Qed.

Lemma dur_ok_succ fresh m : dur_ok fresh m -> dur_ok (fresh + 1) m.
Proof.
  intros (a & b & c). split; [exact a|split; [exact b|]].
  unfold dbs_ok in *. apply Forall_lt_succ. exact c.
Qed.

Lemma wf_durable_N y : WF y -> durable_N (s_fs y) = exists_N (s_fs y).
Proof. intros H. unfold durable_N, exists_N. now rewrite (wA1 _ H), (wA2 _ H). Qed.

Lemma wf_up_dur_state y d :
  WF y -> p_db (s_proc y) = Some d ->
  dur_state ck (s_fs y) = st_mem (f_st (s_fs y) d) /\ fst (dur_state ck (s_fs y)) = p_last (s_proc y) /\
  read_ptr ck (s_fs y) = RdOk d /\ In d (v_dbs (f_vol (s_fs y))) /\ In d (v_dbs (f_dur (s_fs y))).
Proof.
  intros H Hd.
  destruct (wG _ H d Hd) as (HN & i & Hi & Hdat & Hlast).
  destruct (wD _ H i Hi) as (d' & Hdat' & Hsyn & Hin1 & Hin2).
  assert (d' = d) as ->.
  { rewrite Hdat in Hdat'. unfold ptr_bytes in Hdat'. now inversion Hdat'. }
  unfold dur_state, dur_ptr. rewrite (wf_durable_N _ H), HN, <- (wC _ H), Hi, Hsyn, decode_ptr_bytes.
  rewrite <- (wE _ H d).
  repeat split; try assumption.
  - now rewrite Hlast.
  - unfold read_ptr, fs_read. cbn. rewrite Hi, Hdat. apply decode_ptr_bytes.
Qed.

Lemma wf_fresh_succ s p f : WF (mkSys s p f) -> WF (mkSys s p (f + 1)).
Proof.
  intros H. destruct H as [a1 a2 a3 b c d e f1 f2 f3 f4 g]. cbn in *.
  constructor; cbn; try assumption.
  - apply Forall_lt_succ, f3.
  - apply Forall_lt_succ, f4.
Qed.

Definition mid_ok (fresh : N) (L0 L1 : kvstate) (m : fs) : Prop :=
  dur_ok fresh m /\ (dur_state ck m = L0 \/ dur_state ck m = L1).

(** the per-call obligation *)
Definition plan_good (y : sys) (o : op) : Prop :=
  let pl := plan ck o (s_fs y) (s_proc y) (s_fresh y) in
  let x0 := (dur_state ck (s_fs y), up (s_proc y)) in
  let x1 := spec_op o x0 in
  all_prefixes (mid_ok (s_fresh y + 1) (fst x0) (fst x1)) (fst pl) (s_fs y) /\
  exists p', snd pl = Some p' /\
     WF (mkSys (exec (fst pl) (s_fs y)) p' (s_fresh y + 1)) /\
     dur_state ck (exec (fst pl) (s_fs y)) = fst x1 /\ up p' = snd x1.

Lemma mid_ok_start y L1 : WF y -> mid_ok (s_fresh y + 1) (dur_state ck (s_fs y)) L1 (s_fs y).
Proof. intros H. split; [apply dur_ok_succ, wf_dur_ok, H|now left]. Qed.

(** calls that do nothing *)
Lemma plan_good_noop y o :
  WF y -> plan ck o (s_fs y) (s_proc y) (s_fresh y) = ([], Some (s_proc y)) ->
  spec_op o (dur_state ck (s_fs y), up (s_proc y)) = (dur_state ck (s_fs y), up (s_proc y)) ->
  plan_good y o.
Proof.
  intros H Hpl Hsp. unfold plan_good. rewrite Hpl, Hsp. cbn.
  split; [split; [apply mid_ok_start, H|exact I]|].
  exists (s_proc y). split; [reflexivity|]. split; [|split; reflexivity].
  destruct y as [s p f]. apply wf_fresh_succ, H.
Qed.

Lemma plan_good_skip y o : WF y -> in_contract o (s_proc y) = false -> plan_good y o.
Proof.
  intros H Hc. apply plan_good_noop; [exact H| |].
  - unfold plan. now rewrite Hc.
  - unfold in_contract, up in *. destruct o, (p_db (s_proc y)); cbn in *; congruence.
Qed.

Lemma plan_good_update y gp b : WF y -> plan_good y (OUpdate gp b).
Proof.
  intros H. destruct (in_contract (OUpdate gp b) (s_proc y)) eqn:Hc; [|now apply plan_good_skip].
  unfold in_contract in Hc. destruct (p_db (s_proc y)) as [d|] eqn:Hd; [clear Hc|discriminate Hc].
  destruct (wf_up_dur_state y d H Hd) as (Hst & Hlast & Hrd & Hin1 & Hin2).
  assert (Hptr : dur_ptr ck (s_fs y) = RdOk d).
  { destruct (wG _ H d Hd) as (HN & i & Hi & Hdat & _).
    destruct (wD _ H i Hi) as (d' & Hdat' & Hsyn & _).
    unfold dur_ptr. rewrite (wf_durable_N _ H), HN, <- (wC _ H), Hi, Hsyn.
    rewrite Hdat in Hdat'. rewrite <- Hdat'. apply decode_ptr_bytes. }
  unfold plan_good, plan, in_contract, plan_update, up. rewrite Hd. cbn [fst snd spec_op].
  set (x := (p_last (s_proc y) + gp + nlen b, apply_batch b (snd (st_mem (f_st (s_fs y) d))))).
  assert (Hx : (fst (dur_state ck (s_fs y)) + gp + nlen b, apply_batch b (snd (dur_state ck (s_fs y)))) = x).
  { unfold x. now rewrite Hlast, Hst. }
  rewrite Hx.
  assert (Hds : dur_state ck (fs_batch d true x (s_fs y)) = x).
  { unfold dur_state. change (dur_ptr ck (fs_batch d true x (s_fs y))) with (dur_ptr ck (s_fs y)).
    rewrite Hptr. cbn. now rewrite fupd_eq. }
  assert (Hdo : dur_ok (s_fresh y + 1) (fs_batch d true x (s_fs y))).
  { apply dur_ok_succ. exact (wf_dur_ok y H). }
  split.
  - cbn [all_prefixes exec_step]. split; [apply mid_ok_start, H|].
    split; [|exact I]. split; [exact Hdo|now right].
  - eexists. split; [reflexivity|]. split; [|split; [exact Hds|reflexivity]].
    change (exec [SStBatch d true x] (s_fs y)) with (fs_batch d true x (s_fs y)).
    destruct y as [s p f]. apply wf_fresh_succ.
    destruct H as [a1 a2 a3 b0 c d0 e f1 f2 f3 f4 g]. cbn in *.
    constructor; cbn; try assumption.
    + intros d1. unfold fupd. destruct (d1 =? d); [reflexivity|apply e].
    + intros d1 Hd1. injection Hd1 as <-. destruct (g d Hd) as (HN & i & Hi & Hdat & _).
      split; [exact HN|]. exists i. repeat split; try assumption. now rewrite fupd_eq.
Qed.

Lemma plan_good_sync y : WF y -> plan_good y OSync.
Proof.
  intros H. destruct (in_contract OSync (s_proc y)) eqn:Hc; [|now apply plan_good_skip].
  unfold in_contract in Hc. destruct (p_db (s_proc y)) as [d|] eqn:Hd; [clear Hc|discriminate Hc].
  destruct (wf_up_dur_state y d H Hd) as (Hst & Hlast & Hrd & Hin1 & Hin2).
  assert (Hptr : dur_ptr ck (s_fs y) = RdOk d).
  { destruct (wG _ H d Hd) as (HN & i & Hi & Hdat & _).
    destruct (wD _ H i Hi) as (d' & Hdat' & Hsyn & _).
    unfold dur_ptr. rewrite (wf_durable_N _ H), HN, <- (wC _ H), Hi, Hsyn.
    rewrite Hdat in Hdat'. rewrite <- Hdat'. apply decode_ptr_bytes. }
  unfold plan_good, plan, in_contract, plan_sync, up. rewrite Hd. cbn [fst snd spec_op].
  set (x := st_mem (f_st (s_fs y) d)).
  assert (Hds : dur_state ck (fs_batch d true x (s_fs y)) = dur_state ck (s_fs y)).
  { rewrite Hst. unfold dur_state. change (dur_ptr ck (fs_batch d true x (s_fs y))) with (dur_ptr ck (s_fs y)).
    rewrite Hptr. cbn. now rewrite fupd_eq. }
  assert (Hdo : dur_ok (s_fresh y + 1) (fs_batch d true x (s_fs y))).
  { apply dur_ok_succ. exact (wf_dur_ok y H). }
  split.
  - cbn [all_prefixes exec_step]. split; [apply mid_ok_start, H|].
    split; [|exact I]. split; [exact Hdo|now right].
  - exists (s_proc y). split; [reflexivity|]. split; [|split; [exact Hds|unfold up; now rewrite Hd]].
    change (exec [SStBatch d true x] (s_fs y)) with (fs_batch d true x (s_fs y)).
    destruct y as [s p f]. apply wf_fresh_succ.
    destruct H as [a1 a2 a3 b0 c d0 e f1 f2 f3 f4 g]. cbn in *.
    constructor; cbn; try assumption.
    + intros d1. unfold fupd. destruct (d1 =? d); [reflexivity|apply e].
    + intros d1 Hd1. destruct (g d1 Hd1) as (HN & i & Hi & Hdat & Hl).
      split; [exact HN|]. exists i. repeat split; try assumption.
      rewrite Hd in Hd1. injection Hd1 as <-. now rewrite fupd_eq.
Qed.

Lemma plan_good_close y : WF y -> plan_good y OClose.
Proof.
  intros H. destruct (in_contract OClose (s_proc y)) eqn:Hc; [|now apply plan_good_skip].
  unfold in_contract in Hc. destruct (p_db (s_proc y)) as [d|] eqn:Hd; [clear Hc|discriminate Hc].
  unfold plan_good, plan, in_contract, plan_close, up. rewrite Hd. cbn [fst snd spec_op].
  split.
  - cbn [all_prefixes exec_step]. split; [apply mid_ok_start, H|].
    split; [apply mid_ok_start, H|exact I].
  - exists proc0. split; [reflexivity|]. split; [|split; reflexivity].
    change (exec [SStClose d] (s_fs y)) with (s_fs y).
    destruct y as [s p f]. apply wf_fresh_succ.
    destruct H as [a1 a2 a3 b0 c d0 e f1 f2 f3 f4 g]. cbn in *.
    constructor; cbn; try assumption.
    intros d1 Hd1. discriminate Hd1.
Qed.

(* ------------------------------------------------------------------ explicit states *)
Local Arguments fupd : simpl never.
Local Arguments N.add : simpl never.
Local Arguments N.eqb : simpl never.

Ltac fup := repeat first [rewrite fupd_eq | rewrite fupd_neq by lia].

(** durable view without a pointer: denotes the empty store *)
Lemma mid_ok_nocur fr L1 m :
  v_cur (f_dur m) = None -> ino_ok m (f_dur m) -> dbs_ok fr (f_dur m) -> mid_ok fr kv_init L1 m.
Proof.
  intros Hc Hi Hd. split.
  - split; [|split; assumption]. intros _ i Hi'. rewrite Hc in Hi'. discriminate Hi'.
  - left. unfold dur_state, dur_ptr. rewrite Hc. destruct (durable_N m); reflexivity.
Qed.

Lemma dur_state_nocur m : v_cur (f_dur m) = None -> dur_state ck m = kv_init.
Proof. intros Hc. unfold dur_state, dur_ptr. rewrite Hc. destruct (durable_N m); reflexivity. Qed.

(** durable view with a pointer *)
Lemma mid_ok_cur fr L0 L1 m i d :
  v_cur (f_dur m) = Some i -> i_synced (f_ino m i) = ptr d -> In d (v_dbs (f_dur m)) ->
  ino_ok m (f_dur m) -> dbs_ok fr (f_dur m) -> durable_N m = true ->
  (st_disk (f_st m d) = L0 \/ st_disk (f_st m d) = L1) ->
  mid_ok fr L0 L1 m.
Proof.
  intros Hc Hs Hin Hi Hd HN Hst. split.
  - split; [|split; assumption]. intros _ i' Hi'. rewrite Hc in Hi'. injection Hi' as <-.
    exists d. split; assumption.
  - unfold dur_state, dur_ptr. rewrite HN, Hc, Hs, decode_ptr_bytes. exact Hst.
Qed.

Lemma dur_state_cur m i d :
  durable_N m = true -> v_cur (f_dur m) = Some i -> i_synced (f_ino m i) = ptr d ->
  dur_state ck m = st_disk (f_st m d).
Proof. intros HN Hc Hs. unfold dur_state, dur_ptr. now rewrite HN, Hc, Hs, decode_ptr_bytes. Qed.

(** states that differ in the volatile entries of the node directory only *)
Definition same_dur (s m : fs) : Prop :=
  f_rootT m = f_rootT s /\ f_TN m = f_TN s /\ f_dur m = f_dur s /\ f_ino m = f_ino s /\
  f_next m = f_next s /\ f_st m = f_st s.

Lemma same_dur_refl s : same_dur s s.
Proof. repeat split. Qed.

Lemma same_dur_mid fr L0 L1 s m : same_dur s m -> mid_ok fr L0 L1 s -> mid_ok fr L0 L1 m.
Proof.
  destruct s as [rT tN vol dur ino nxt st], m as [rT' tN' vol' dur' ino' nxt' st'].
  unfold same_dur. cbn. intros (-> & -> & -> & -> & -> & ->) H. exact H.
Qed.

Lemma same_dur_state s m : same_dur s m -> dur_state ck m = dur_state ck s.
Proof.
  destruct s as [rT tN vol dur ino nxt st], m as [rT' tN' vol' dur' ino' nxt' st'].
  unfold same_dur. cbn. intros (-> & -> & -> & -> & -> & ->). reflexivity.
Qed.

Definition norm (s : fs) : fs :=
  mkFS (true, true) (true, true) (f_vol s) (f_dur s) (f_ino s) (f_next s) (f_st s).

(** computation on explicit file-system records *)
Ltac cfs :=
  cbv beta iota zeta delta
    [plan_node_dir exists_T exists_N durable_N norm exec fold_left all_prefixes exec_step
     fs_sync_T fs_mkdirN fs_mkdirT fs_sync_root fs_sync_N fs_create fs_write fs_fsync fs_rename
     fs_remove_file fs_remove_db fs_batch set_vol set_ino set_st v_file v_set_file v_set_dbs
     f_rootT f_TN fst snd andb negb f_vol f_dur f_ino f_next f_st v_cur v_upd v_dbs
     save_ptr replace_ptr view0].

Ltac splits := repeat match goal with |- _ /\ _ => split end.

(** ---- createNodeDataDir *)
Lemma node_dir_ok y :
  WF y ->
  all_prefixes (mid_ok (s_fresh y + 1) (dur_state ck (s_fs y)) (dur_state ck (s_fs y)))
               (plan_node_dir (s_fs y)) (s_fs y) /\
  exec (plan_node_dir (s_fs y)) (s_fs y) = norm (s_fs y) /\
  dur_state ck (norm (s_fs y)) = dur_state ck (s_fs y) /\
  (exists_N (s_fs y) = false -> f_vol (s_fs y) = view0 /\ f_dur (s_fs y) = view0).
Proof.
  intros H. pose proof (mid_ok_start y (dur_state ck (s_fs y)) H) as H0.
  pose proof (wB _ H) as HB.
  destruct H as [a1 a2 a3 _ _ _ _ _ _ _ _ _].
  destruct y as [[[a b] [c d] vol dur ino nxt st] p fr]. cbn in *. subst b d.
  destruct a, c; try (specialize (a3 eq_refl); discriminate a3).
  - (* node directory exists *)
    unfold plan_node_dir, exists_T, exists_N. cbn [f_rootT f_TN fst snd andb app]. cfs.
    split; [split; [exact H0|split; [exact H0|exact I]]|].
    split; [reflexivity|split; [reflexivity|intros Hf; discriminate Hf]].
  - (* T exists, N does not *)
    destruct (HB eq_refl) as [-> ->]. clear H0 HB.
    unfold plan_node_dir, exists_T, exists_N. cbn [f_rootT f_TN fst snd andb app]. cfs. rewrite !dur_state_nocur by reflexivity.
    split.
    + splits; try exact I; (apply mid_ok_nocur; [reflexivity|split; intros i Hi; discriminate Hi|constructor]).
    + split; [reflexivity|split; [reflexivity|intros _; split; reflexivity]].
  - (* neither exists *)
    destruct (HB eq_refl) as [-> ->]. clear H0 HB.
    unfold plan_node_dir, exists_T, exists_N. cbn [f_rootT f_TN fst snd andb app]. cfs. rewrite !dur_state_nocur by reflexivity.
    split.
    + splits; try exact I; (apply mid_ok_nocur; [reflexivity|split; intros i Hi; discriminate Hi|constructor]).
    + split; [reflexivity|split; [reflexivity|intros _; split; reflexivity]].
Qed.

(** obligations about inode numbers and directory names on explicit views *)
Ltac ino_tac :=
  split;
  (let j := fresh "j" in let Hj := fresh "Hj" in
   intros j Hj; cbn in Hj; cbn [f_next];
   first [ discriminate Hj
         | injection Hj as <-; lia
         | match goal with Hb : forall j', ?o = Some j' -> j' < _ |- _ => specialize (Hb _ Hj); lia end ]).

(** ---- first Open: create the store directory, make it durable, publish the pointer, open the store *)
Lemma first_run_ok (vu du : option N) (vd dd : list N) ino nxt st f fr L1 :
  (forall i, vu = Some i -> i < nxt) -> (forall i, du = Some i -> i < nxt) ->
  Forall (fun d => d < f) vd -> Forall (fun d => d < f) dd -> f < fr ->
  let s1 := mkFS (true, true) (true, true) (mkView None vu vd) (mkView None du dd) ino nxt st in
  let steps := [SMkdirDb f; SSyncN] ++ save_ptr ck f ++ replace_ptr ++ [SStOpen f] in
  all_prefixes (mid_ok fr kv_init L1) steps s1 /\
  exists ino',
    exec steps s1 = mkFS (true, true) (true, true) (mkView (Some nxt) None (f :: vd))
                         (mkView (Some nxt) None (f :: vd)) ino' (nxt + 1) (fupd st f store0) /\
    i_data (ino' nxt) = ptr f /\ i_synced (ino' nxt) = ptr f.
Proof.
  intros Hvu Hdu Hvd Hdd Hf s1 steps.
  assert (Hmem : memN f vd = false) by (apply memN_false_lt; exact Hvd).
  assert (Hdd' : Forall (fun d => d < fr) dd) by (eapply Forall_impl; [|exact Hdd]; cbn beta; intros; lia).
  assert (Hvd' : Forall (fun d => d < fr) (f :: vd)).
  { constructor; [exact Hf|]. eapply Forall_impl; [|exact Hvd]. cbn beta; intros; lia. }
  assert (E1 : exec_step (SMkdirDb f) s1 =
               mkFS (true, true) (true, true) (mkView None vu (f :: vd)) (mkView None du dd) ino nxt (fupd st f store0)).
  { unfold s1. cbn [exec_step]. unfold fs_mkdir_db. cbn [f_vol v_dbs]. rewrite Hmem. reflexivity. }
  unfold steps. cbv [save_ptr replace_ptr]. cbn [app].
  split.
  - cbn [all_prefixes]. rewrite E1. unfold s1. cfs.
    splits; try exact I.
    all: try (apply mid_ok_nocur; [reflexivity|ino_tac|cbn; assumption]).
    all: apply (mid_ok_cur fr kv_init L1 _ nxt f);
      [reflexivity|cbn; fup; reflexivity|left; reflexivity|ino_tac|cbn; assumption|reflexivity
      |left; cbn; fup; reflexivity].
  - unfold exec. cbn [fold_left]. rewrite E1. cfs.
    eexists. split; [reflexivity|]. cbn. fup. cbn. fup. split; reflexivity.
Qed.


Lemma all_prefixes_last (Q : fs -> Prop) l s : all_prefixes Q l s -> Q (exec l s).
Proof. intros H. rewrite <- (firstn_all l). now apply all_prefixes_firstn. Qed.

Lemma in_stale x d l : In x (filter (fun x => negb (x =? d)) l) -> In x l /\ x <> d.
Proof.
  intros Hin. apply filter_In in Hin. destruct Hin as [Hin Hne]. split; [exact Hin|].
  apply negb_true_iff in Hne. now apply N.eqb_neq.
Qed.

(** cleanupNodeDataDir + createDB on the directory named by the pointer: volatile entries only *)
Definition clean_inv (fr : N) (s : fs) (i d : N) (m : fs) : Prop :=
  same_dur s m /\ v_cur (f_vol m) = Some i /\ In d (v_dbs (f_vol m)) /\
  ino_ok m (f_vol m) /\ dbs_ok fr (f_vol m).

Lemma clean_step fr s i d st m :
  In st ([SRemoveF FUpd] ++ map SRemoveDb (filter (fun x => negb (x =? d)) (v_dbs (f_vol s))) ++ [SStOpen d]) ->
  clean_inv fr s i d m -> clean_inv fr s i d (exec_step st m).
Proof.
  intros Hin (Hsd & Hc & Hd & Hi & Hdb).
  cbn [app] in Hin. destruct Hin as [<-|Hin].
  - (* remove current.updating *)
    destruct m as [rT tN [vc vu vd] dur ino nxt sto]. cbn in *.
    split; [exact Hsd|]. split; [exact Hc|]. split; [exact Hd|]. split; [|exact Hdb].
    destruct Hi as [Hi1 _]. split; [exact Hi1|]. intros j Hj. discriminate Hj.
  - apply in_app_or in Hin. destruct Hin as [Hin|[<-|[]]].
    + apply in_map_iff in Hin. destruct Hin as (x & <- & Hx). apply in_stale in Hx. destruct Hx as [_ Hne].
      destruct m as [rT tN [vc vu vd] dur ino nxt sto]. cbn in *.
      split; [exact Hsd|]. split; [exact Hc|]. split; [|split; [exact Hi|]].
      * apply filter_In. split; [exact Hd|]. apply negb_true_iff. apply N.eqb_neq. congruence.
      * unfold dbs_ok in *. cbn in *. apply Forall_forall. intros z Hz. apply filter_In in Hz.
        rewrite Forall_forall in Hdb. apply Hdb. apply Hz.
    + cbn [exec_step]. exact (conj Hsd (conj Hc (conj Hd (conj Hi Hdb)))).
Qed.

Lemma plan_good_open y : WF y -> plan_good y OOpen.
Proof.
  intros H. destruct (in_contract OOpen (s_proc y)) eqn:Hc; [|now apply plan_good_skip].
  unfold in_contract in Hc. destruct (p_db (s_proc y)) as [d0|] eqn:Hd; [discriminate Hc|clear Hc].
  destruct (node_dir_ok y H) as (Hpre & Hex & Hdn & HB).
  pose proof (all_prefixes_last _ _ _ Hpre) as Hnorm. rewrite Hex in Hnorm.
  unfold plan_good, plan, in_contract, up. rewrite Hd. cbn [fst snd spec_op].
  unfold plan_open.
  destruct (negb (exists_N (s_fs y)) || match v_cur (f_vol (s_fs y)) with None => true | Some _ => false end) eqn:Hnew.
  - (* new run *)
    assert (Hvc : v_cur (f_vol (s_fs y)) = None).
    { destruct (exists_N (s_fs y)) eqn:HN.
      - cbn in Hnew. destruct (v_cur (f_vol (s_fs y))); [discriminate Hnew|reflexivity].
      - destruct (HB eq_refl) as [-> _]. reflexivity. }
    assert (Hdc : v_cur (f_dur (s_fs y)) = None) by (rewrite <- (wC _ H); exact Hvc).
    assert (Hk : dur_state ck (s_fs y) = kv_init) by (apply dur_state_nocur; exact Hdc).
    rewrite Hk in *. cbn [fst snd].
    destruct H as [a1 a2 a3 b c d e [f1a f1b] [f2a f2b] f3 f4 g].
    destruct y as [[rT tN [vc vu vd] [dc du dd] ino nxt st] p fr]. cbn in *. subst vc dc.
    destruct (first_run_ok vu du vd dd ino nxt st fr (fr + 1) kv_init f1b f2b f3 f4 ltac:(lia))
      as (Hall & ino' & Hfin & Hdat & Hsyn).
    unfold save_ptr, replace_ptr in Hall, Hfin. cbn [app] in Hall, Hfin.
    unfold norm in *. cbn [f_vol f_dur f_ino f_next f_st] in *.
    split.
    + apply all_prefixes_app; [exact Hpre|]. rewrite Hex. exact Hall.
    + eexists. split; [reflexivity|]. rewrite exec_app, Hex, Hfin.
      split; [|split; [|reflexivity]].
      * constructor; cbn.
        -- reflexivity.
        -- reflexivity.
        -- reflexivity.
        -- intros Hf. discriminate Hf.
        -- reflexivity.
        -- intros i Hi. injection Hi as <-. exists fr. repeat split; try assumption; now left.
        -- intros d1. unfold fupd. destruct (d1 =? fr); [reflexivity|apply e].
        -- split; intros j Hj; cbn in Hj; [injection Hj as <-; cbn; lia|discriminate Hj].
        -- split; intros j Hj; cbn in Hj; [injection Hj as <-; cbn; lia|discriminate Hj].
        -- constructor; [lia|]. apply Forall_lt_succ. exact f3.
        -- constructor; [lia|]. apply Forall_lt_succ. exact f3.
        -- intros d1 Hd1. injection Hd1 as <-. split; [reflexivity|]. exists nxt.
           split; [reflexivity|]. split; [exact Hdat|]. now rewrite fupd_eq.
      * rewrite (dur_state_cur _ nxt fr); [cbn; now rewrite fupd_eq|reflexivity|reflexivity|exact Hsyn].
  - (* the pointer exists: clean up, open the store it names *)
    apply orb_false_iff in Hnew. destruct Hnew as [HN Hvc]. apply negb_false_iff in HN.
    destruct (v_cur (f_vol (s_fs y))) as [i|] eqn:Hi; [clear Hvc|discriminate Hvc].
    destruct (wD _ H i Hi) as (d & Hdat & Hsyn & Hin1 & Hin2).
    assert (Hrd : read_ptr ck (s_fs y) = RdOk d).
    { unfold read_ptr, fs_read. cbn [v_file]. rewrite Hi, Hdat. apply decode_ptr_bytes. }
    rewrite Hrd, (memN_In _ _ Hin1). cbn [fst snd].
    assert (Hns : norm (s_fs y) = s_fs y).
    { pose proof (wA1 _ H) as a1. pose proof (wA2 _ H) as a2. unfold exists_N in HN.
      destruct (s_fs y) as [[a b] [c e] vol dur ino nxt st]. cbn in *. subst b e.
      apply andb_prop in HN. destruct HN as [-> ->]. reflexivity. }
    rewrite Hns in *.
    set (rest := [SRemoveF FUpd] ++ map SRemoveDb (filter (fun x => negb (x =? d)) (v_dbs (f_vol (s_fs y)))) ++ [SStOpen d]).
    assert (Hci : clean_inv (s_fresh y + 1) (s_fs y) i d (s_fs y)).
    { split; [apply same_dur_refl|]. split; [exact Hi|]. split; [exact Hin1|].
      split; [apply (wF1 _ H)|]. apply Forall_lt_succ. apply (wF3 _ H). }
    destruct (all_prefixes_preserved (clean_inv (s_fresh y + 1) (s_fs y) i d) rest
                (fun st m Hin Hm => clean_step _ _ _ _ st m Hin Hm) _ Hci) as [Hall Hend].
    replace ((plan_node_dir (s_fs y) ++ [SRemoveF FUpd] ++
             map SRemoveDb (filter (fun x => negb (x =? d)) (v_dbs (f_vol (s_fs y))))) ++ [SStOpen d])
      with (plan_node_dir (s_fs y) ++ rest) by (unfold rest; now rewrite <- !app_assoc).
    split.
    + apply all_prefixes_app; [exact Hpre|]. rewrite Hex.
      eapply all_prefixes_impl; [|exact Hall]. intros m Hm. eapply same_dur_mid; [apply Hm|exact Hnorm].
    + eexists. split; [reflexivity|]. rewrite exec_app, Hex.
      destruct Hend as (Hsd & Hc' & Hd' & Hi' & Hdb').
      rewrite (same_dur_state _ _ Hsd).
      split; [|split; reflexivity].
      destruct Hsd as (s1 & s2 & s3 & s4 & s5 & s6).
      destruct H as [a1 a2 a3 b c d1 e f1 f2 f3 f4 g].
      constructor; cbn [s_fs s_proc s_fresh p_db p_last].
      * now rewrite s1.
      * now rewrite s2.
      * now rewrite s1, s2.
      * unfold exists_N in *. rewrite s1, s2. intros Hf. rewrite Hf in HN. discriminate HN.
      * rewrite Hc', s3, <- c. symmetry. exact Hi.
      * intros i2 Hi2. rewrite Hc' in Hi2. injection Hi2 as <-. exists d. rewrite s4, s3. repeat split; assumption.
      * intros d2. rewrite s6. apply e.
      * exact Hi'.
      * unfold ino_ok in *. rewrite s3, s5. exact f2.
      * exact Hdb'.
      * rewrite s3. apply Forall_lt_succ. exact f4.
      * intros d2 Hd2. injection Hd2 as <-. split; [unfold exists_N in *; now rewrite s1, s2|].
        exists i. rewrite s4, s6. repeat split; assumption.
Qed.


(** ---- RecoverFromSnapshot: build the new store, make it durable, switch the pointer, remove the old store *)
Lemma recover_ok (vu du : option N) (vd dd : list N) ino nxt st i cur f fr x :
  i < nxt -> (forall j, vu = Some j -> j < nxt) -> (forall j, du = Some j -> j < nxt) ->
  Forall (fun d => d < f) vd -> Forall (fun d => d < f) dd -> f < fr ->
  i_synced (ino i) = ptr cur -> In cur vd -> In cur dd ->
  let s1 := mkFS (true, true) (true, true) (mkView (Some i) vu vd) (mkView (Some i) du dd) ino nxt st in
  let steps := [SMkdirDb f; SSyncN; SStOpen f; SStBatch f true x] ++ save_ptr ck f ++ replace_ptr ++
               [SStClose cur; SRemoveDb cur; SSyncN] in
  all_prefixes (mid_ok fr (st_disk (st cur)) x) steps s1 /\
  exists ino' vd',
    exec steps s1 = mkFS (true, true) (true, true) (mkView (Some nxt) None vd') (mkView (Some nxt) None vd')
                         ino' (nxt + 1) (fupd (fupd st f store0) f (mkStore x x)) /\
    i_data (ino' nxt) = ptr f /\ i_synced (ino' nxt) = ptr f /\ In f vd' /\ Forall (fun d => d < fr) vd'.
Proof.
  intros Hi Hvu Hdu Hvd Hdd Hf Hsyn Hin1 Hin2 s1 steps.
  assert (Hmem : memN f vd = false) by (apply memN_false_lt; exact Hvd).
  assert (Hcf : cur < f) by (rewrite Forall_forall in Hvd; apply Hvd; exact Hin1).
  assert (Hdd' : Forall (fun d => d < fr) dd) by (eapply Forall_impl; [|exact Hdd]; cbn beta; intros; lia).
  assert (Hvd' : Forall (fun d => d < fr) (f :: vd)).
  { constructor; [exact Hf|]. eapply Forall_impl; [|exact Hvd]. cbn beta; intros; lia. }
  assert (Hflt : Forall (fun d => d < fr) (filter (fun x => negb (x =? cur)) (f :: vd))).
  { apply Forall_forall. intros z Hz. apply filter_In in Hz. rewrite Forall_forall in Hvd'. apply Hvd', Hz. }
  assert (Hinf : In f (filter (fun x => negb (x =? cur)) (f :: vd))).
  { apply filter_In. split; [now left|]. apply negb_true_iff, N.eqb_neq. lia. }
  assert (E1 : exec_step (SMkdirDb f) s1 =
               mkFS (true, true) (true, true) (mkView (Some i) vu (f :: vd)) (mkView (Some i) du dd) ino nxt (fupd st f store0)).
  { unfold s1. cbn [exec_step]. unfold fs_mkdir_db. cbn [f_vol v_dbs]. rewrite Hmem. reflexivity. }
  unfold steps. cbv [save_ptr replace_ptr]. cbn [app].
  split.
  - cbn [all_prefixes]. rewrite E1. unfold s1. cfs.
    splits; try exact I.
    all: first
      [ apply (mid_ok_cur fr _ _ _ i cur);
        [reflexivity|cbn; fup; exact Hsyn|cbn; auto using in_cons|ino_tac|cbn; assumption|reflexivity
        |left; cbn; fup; reflexivity]
      | apply (mid_ok_cur fr _ _ _ nxt f);
        [reflexivity|cbn; fup; reflexivity|cbn; first [now left|exact Hinf]|ino_tac|cbn; assumption|reflexivity
        |right; cbn; fup; reflexivity] ].
  - unfold exec. cbn [fold_left]. rewrite E1. cfs.
    eexists. eexists. split; [reflexivity|]. cbn. fup. cbn. fup.
    split; [reflexivity|]. split; [reflexivity|]. split; [exact Hinf|exact Hflt].
Qed.


Lemma plan_good_recover y dlt c : WF y -> plan_good y (ORecover dlt c).
Proof.
  intros H. destruct (in_contract (ORecover dlt c) (s_proc y)) eqn:Hc; [|now apply plan_good_skip].
  unfold in_contract in Hc. destruct (p_db (s_proc y)) as [cur|] eqn:Hd; [clear Hc|discriminate Hc].
  destruct (wf_up_dur_state y cur H Hd) as (Hst & Hlast & Hrd & Hin1 & Hin2).
  destruct (wG _ H cur Hd) as (HN & i & Hi & Hdat & Hpl).
  destruct (wD _ H i Hi) as (d' & Hdat' & Hsyn & _).
  assert (d' = cur) as ->.
  { rewrite Hdat in Hdat'. unfold ptr_bytes in Hdat'. now inversion Hdat'. }
  unfold plan_good, plan, in_contract, plan_recover, up. rewrite Hd, Hrd. cbn [fst snd spec_op].
  rewrite Hlast.
  assert (Hst' : dur_state ck (s_fs y) = st_disk (f_st (s_fs y) cur)) by (rewrite Hst; apply (wE _ H)).
  rewrite Hst'. clear Hst Hst' Hlast Hrd Hdat' Hpl.
  pose proof (wC _ H) as Hc.
  destruct H as [a1 a2 a3 b _ _ e [f1a f1b] [f2a f2b] f3 f4 _].
  destruct y as [[[rT1 rT2] [tN1 tN2] [vc vu vd] [dc du dd] ino nxt st] [pdb pl] fr].
  unfold exists_N in HN.
  cbn [s_fs s_proc s_fresh p_db p_last f_rootT f_TN f_vol f_dur f_ino f_next f_st v_cur v_upd v_dbs fst snd] in *.
  subst rT2 tN2 pdb vc dc.
  apply andb_prop in HN. destruct HN as [-> ->].
  destruct (recover_ok vu du vd dd ino nxt st i cur fr (fr + 1) (pl + dlt, c)
              (f1a i eq_refl) f1b f2b f3 f4 ltac:(lia) Hsyn Hin1 Hin2)
    as (Hall & ino' & vd' & Hfin & Hdat' & Hsyn' & Hinf & Hflt).
  split; [exact Hall|].
  eexists. split; [reflexivity|]. rewrite Hfin.
  split; [|split; [|reflexivity]].
  - constructor; cbn.
    + reflexivity.
    + reflexivity.
    + reflexivity.
    + intros Hf. discriminate Hf.
    + reflexivity.
    + intros i' Hi'. injection Hi' as <-. exists fr. repeat split; assumption.
    + intros d1. unfold fupd. destruct (d1 =? fr); [reflexivity|apply e].
    + split; intros j Hj; cbn in Hj; [injection Hj as <-; cbn; lia|discriminate Hj].
    + split; intros j Hj; cbn in Hj; [injection Hj as <-; cbn; lia|discriminate Hj].
    + exact Hflt.
    + exact Hflt.
    + intros d1 Hd1. injection Hd1 as <-. split; [reflexivity|]. exists nxt.
      split; [reflexivity|]. split; [exact Hdat'|]. now rewrite fupd_eq.
  - rewrite (dur_state_cur _ nxt fr); [cbn; now rewrite fupd_eq|reflexivity|reflexivity|exact Hsyn'].
Qed.


(* ------------------------------------------------------------------ events *)
Lemma plan_good_all y o : WF y -> plan_good y o.
Proof.
  intros H. destruct o as [|gp b| |dlt c|].
  - now apply plan_good_open.
  - now apply plan_good_update.
  - now apply plan_good_sync.
  - now apply plan_good_recover.
  - now apply plan_good_close.
Qed.

(** the logical state a system state denotes: what the durable view holds, is the machine open *)
Definition denote (y : sys) : sstate := (dur_state ck (s_fs y), up (s_proc y)).

Lemma crash_event_fs o k y :
  s_fs (fst (do_event ck (EvCrash o k) y)) = fs_crash (mid_state ck o k y) /\
  s_proc (fst (do_event ck (EvCrash o k) y)) = proc0 /\
  s_fresh (fst (do_event ck (EvCrash o k) y)) = s_fresh y + 1.
Proof.
  unfold do_event, mid_state, steps_of.
  destruct (plan ck o (s_fs y) (s_proc y) (s_fresh y)) as [steps r]. cbn. repeat split.
Qed.

Lemma mid_state_ok y o k :
  WF y ->
  mid_ok (s_fresh y + 1) (fst (denote y)) (fst (spec_op o (denote y))) (mid_state ck o k y).
Proof.
  intros H. destruct (plan_good_all y o H) as [Hall _].
  unfold mid_state, steps_of. apply all_prefixes_firstn. exact Hall.
Qed.

Lemma event_step y e :
  WF y ->
  WF (fst (do_event ck e y)) /\
  spec_step e (denote y) (denote (fst (do_event ck e y))) /\
  snd (do_event ck e y) <> RPanic.
Proof.
  intros H. destruct e as [o|o k].
  - destruct (plan_good_all y o H) as [_ (p' & Hp & Hwf & Hds & Hup)].
    unfold do_event. destruct (plan ck o (s_fs y) (s_proc y) (s_fresh y)) as [steps r] eqn:Hpl.
    cbn [fst snd] in *. subst r. cbn [fst snd].
    split; [exact Hwf|]. split.
    + unfold denote at 2. cbn [s_fs s_proc]. rewrite Hds, Hup.
      replace (fst (spec_op o (dur_state ck (s_fs y), up (s_proc y))), snd (spec_op o (dur_state ck (s_fs y), up (s_proc y))))
        with (spec_op o (denote y)) by (unfold denote; now destruct (spec_op o (dur_state ck (s_fs y), up (s_proc y)))).
      constructor.
    + unfold op_result. destruct (in_contract o (s_proc y)); discriminate.
  - pose proof (mid_state_ok y o k H) as [Hdo Hst].
    destruct (crash_event_fs o k y) as (E1 & E2 & E3).
    split; [|split].
    + destruct (fst (do_event ck (EvCrash o k) y)) as [s' p' f']. cbn in E1, E2, E3. subst s' p' f'.
      apply crash_wf. exact Hdo.
    + unfold denote at 2. rewrite E1, E2, dur_state_crash. cbn [up proc0 p_db].
      destruct Hst as [-> | ->]; constructor.
    + unfold do_event. destruct (plan ck o (s_fs y) (s_proc y) (s_fresh y)). cbn. discriminate.
Qed.

Lemma run_snoc evs e y : run ck (evs ++ [e]) y = fst (do_event ck e (run ck evs y)).
Proof. unfold run. now rewrite fold_left_app. Qed.

Lemma run_app a b y : run ck (a ++ b) y = run ck b (run ck a y).
Proof. unfold run. apply fold_left_app. Qed.

Lemma spec_op_mono o x : fst (fst x) <= fst (fst (spec_op o x)).
Proof. destruct x as [[i m] u]. destruct o, u; cbn [spec_op fst snd]; lia. Qed.

Lemma spec_step_mono e x x' : spec_step e x x' -> fst (fst x) <= fst (fst x').
Proof.
  intros Hs. destruct Hs as [o x|o k x|o k x]; cbn [fst].
  - apply spec_op_mono.
  - lia.
  - apply spec_op_mono.
Qed.

Lemma run_wf evs : forall y, WF y -> WF (run ck evs y) /\ fst (dur_state ck (s_fs y)) <= fst (dur_state ck (s_fs (run ck evs y))).
Proof.
  induction evs as [|e evs IH]; intros y H.
  - cbn. split; [exact H|lia].
  - change (run ck (e :: evs) y) with (run ck evs (fst (do_event ck e y))).
    destruct (event_step y e H) as (Hwf & Hsp & _).
    destruct (IH _ Hwf) as [Hwf' Hle]. split; [exact Hwf'|].
    apply spec_step_mono in Hsp. unfold denote in Hsp. cbn [fst] in Hsp. lia.
Qed.

Lemma denote0 : denote sys0 = (kv_init, false).
Proof. reflexivity. Qed.

Lemma run_spec evs : spec_reach evs (denote (run ck evs sys0)) /\ WF (run ck evs sys0).
Proof.
  induction evs as [|e evs IH] using rev_ind.
  - unfold run. cbn [fold_left]. split; [rewrite denote0; constructor|apply wf0].
  - destruct IH as [Hsp Hwf]. rewrite run_snoc.
    destruct (event_step _ e Hwf) as (Hwf' & Hst & _).
    split; [|exact Hwf']. eapply sr_snoc; [exact Hsp|exact Hst].
Qed.

(** ---- the explicit history *)
Definition hden (h : hist) : sstate := (hist_state h, h_up h).

Lemma hist_op_den o h : hden (hist_op o h) = spec_op o (hden h).
Proof.
  unfold hden, hist_op, spec_op, hist_state. destruct h as [snap ups u]. cbn [h_snap h_ups h_up].
  destruct o as [|gp b| |dlt c|], u; cbn [h_snap h_ups h_up log_state fold_left]; try reflexivity.
  unfold log_state. rewrite fold_left_app. reflexivity.
Qed.

Lemma spec_hist evs x : spec_reach evs x -> exists h, hist_reach evs h /\ hden h = x.
Proof.
  induction 1 as [|evs e x x' _ IH Hst].
  - exists hist0. split; [constructor|reflexivity].
  - destruct IH as (h & Hr & Hden). destruct Hst as [o x|o k x|o k x]; subst x.
    + exists (hist_op o h). split; [eapply hr_snoc; [exact Hr|apply hs_op]|apply hist_op_den].
    + exists (hist_down h). split; [eapply hr_snoc; [exact Hr|apply hs_crash_not]|reflexivity].
    + exists (hist_down (hist_op o h)). split; [eapply hr_snoc; [exact Hr|apply hs_crash_done]|].
      rewrite <- hist_op_den. reflexivity.
Qed.

(** ---- Open on a machine that is down *)
Lemma open_ok y :
  WF y -> p_db (s_proc y) = None ->
  exists y', do_event ck (EvOp OOpen) y = (y', ROk (fst (dur_state ck (s_fs y)))) /\
             open_state y' = Some (dur_state ck (s_fs y)) /\
             acked_index y' = Some (fst (dur_state ck (s_fs y))).
Proof.
  intros H Hd.
  destruct (plan_good_all y OOpen H) as [_ (p' & Hp & Hwf & Hds & Hup)].
  unfold do_event. destruct (plan ck OOpen (s_fs y) (s_proc y) (s_fresh y)) as [steps r] eqn:Hpl.
  cbn [fst snd] in *. subst r.
  eexists. split; [|split].
  - f_equal. unfold op_result, in_contract. rewrite Hd.
    unfold up in Hup. rewrite Hd in Hup. cbn [spec_op snd] in Hup.
    destruct (p_db p') as [d|] eqn:Hd'; [|discriminate Hup].
    destruct (wf_up_dur_state _ d Hwf Hd') as (_ & Hlast & _). cbn [s_fs s_proc] in Hlast.
    rewrite <- Hlast, Hds. unfold up. rewrite Hd. reflexivity.
  - unfold open_state. cbn [s_proc s_fs].
    unfold up in Hup. rewrite Hd in Hup. cbn [spec_op snd] in Hup.
    destruct (p_db p') as [d|] eqn:Hd'; [|discriminate Hup].
    destruct (wf_up_dur_state _ d Hwf Hd') as (Hst & _). cbn [s_fs s_proc] in Hst.
    rewrite <- Hst, Hds. unfold up. rewrite Hd. reflexivity.
  - unfold acked_index. cbn [s_proc].
    unfold up in Hup. rewrite Hd in Hup. cbn [spec_op snd] in Hup.
    destruct (p_db p') as [d|] eqn:Hd'; [|discriminate Hup].
    destruct (wf_up_dur_state _ d Hwf Hd') as (_ & Hlast & _). cbn [s_fs s_proc] in Hlast.
    rewrite <- Hlast, Hds. unfold up. rewrite Hd. reflexivity.
Qed.

(* ------------------------------------------------------------------ the property *)

(** C16_recovery_inv.  After ANY history of calls and crashed calls (among them crashed Opens, i.e. crashes
    during recovery from a crash, to any depth), and after ANY prefix of the steps of the next call, the
    durable view is well formed (the durable pointer, if any, is intact and names a durable store directory),
    stays so across the crash, and denotes a state that the history explains: every call that returned has
    happened, every crashed call has happened entirely or not at all. *)
Theorem recovery_inv evs o k :
  let m := mid_state ck o k (run ck evs sys0) in
  dur_wf ck m /\ dur_wf ck (fs_crash m) /\
  exists h, hist_reach (evs ++ [EvCrash o k]) h /\ h_up h = false /\
            dur_state ck m = hist_state h /\ dur_state ck (fs_crash m) = hist_state h.
Proof.
  intros m. destruct (run_spec evs) as [_ Hwf].
  pose proof (mid_state_ok _ o k Hwf) as [[Hdw _] _]. fold m in Hdw.
  split; [exact Hdw|]. split; [apply crash_dur_wf; exact Hdw|].
  destruct (run_spec (evs ++ [EvCrash o k])) as [Hsp _].
  destruct (spec_hist _ _ Hsp) as (h & Hr & Hden).
  exists h. split; [exact Hr|].
  rewrite run_snoc in Hden. unfold denote in Hden.
  destruct (crash_event_fs o k (run ck evs sys0)) as (E1 & E2 & _).
  rewrite E1, E2 in Hden. fold m in Hden. unfold hden in Hden.
  injection Hden as Hs Hu. rewrite dur_state_crash in Hs |- *.
  split; [exact Hu|]. split; symmetry; exact Hs.
Qed.

(** C16_reopen, general form: whenever the machine is down (after a crash at any point, or after Close),
    Open succeeds and reports the index of a state explained by the history; Lookup then sees exactly
    the last installed snapshot plus the updates after it. *)
Theorem open_any evs :
  p_db (s_proc (run ck evs sys0)) = None ->
  exists h y', hist_reach evs h /\
    do_event ck (EvOp OOpen) (run ck evs sys0) = (y', ROk (fst (hist_state h))) /\
    open_state y' = Some (hist_state h).
Proof.
  intros Hd. destruct (run_spec evs) as [Hsp Hwf].
  destruct (spec_hist _ _ Hsp) as (h & Hr & Hden).
  destruct (open_ok _ Hwf Hd) as (y' & Hev & Hop & _).
  unfold hden, denote in Hden. injection Hden as Hs _.
  exists h, y'. rewrite Hs. repeat split; assumption.
Qed.

Theorem reopen_after_crash evs o k :
  exists h y', hist_reach (evs ++ [EvCrash o k]) h /\
    do_event ck (EvOp OOpen) (run ck (evs ++ [EvCrash o k]) sys0) = (y', ROk (fst (hist_state h))) /\
    open_state y' = Some (hist_state h).
Proof.
  apply open_any. rewrite run_snoc.
  destruct (crash_event_fs o k (run ck evs sys0)) as (_ & E2 & _). now rewrite E2.
Qed.

(** C16_call_atomic: a call interrupted by a crash at any point has happened entirely or not at all, relative
    to the state [L0] the running machine showed (index, contents as seen by Lookup) when the call started:
    the reopened machine reports and shows exactly [L0], or exactly what the call makes of [L0].  For Update
    this is the atomicity of the call: all its entries, in their order, together with the new index - or
    nothing; never a part of them, never one of them ahead of the index. *)
Theorem call_atomic evs o k L0 :
  open_state (run ck evs sys0) = Some L0 ->
  exists L y', (L = L0 \/ L = fst (spec_op o (L0, true))) /\
    do_event ck (EvOp OOpen) (run ck (evs ++ [EvCrash o k]) sys0) = (y', ROk (fst L)) /\
    open_state y' = Some L.
Proof.
  intros Ho. destruct (run_spec evs) as [_ Hwf]. rewrite run_snoc.
  set (y := run ck evs sys0) in *.
  unfold open_state in Ho. destruct (p_db (s_proc y)) as [d|] eqn:Hd; [|discriminate Ho].
  injection Ho as Ho.
  destruct (wf_up_dur_state y d Hwf Hd) as (Hst & _).
  pose proof (mid_state_ok y o k Hwf) as [Hdo Hor].
  assert (Hup : up (s_proc y) = true) by (unfold up; now rewrite Hd).
  unfold denote in Hor. rewrite Hup, Hst, Ho in Hor. cbn [fst] in Hor.
  destruct (crash_event_fs o k y) as (E1 & E2 & E3).
  assert (Hwf' : WF (fst (do_event ck (EvCrash o k) y))).
  { destruct (fst (do_event ck (EvCrash o k) y)) as [s' p' f']. cbn in E1, E2, E3. subst s' p' f'.
    apply crash_wf. exact Hdo. }
  assert (Hdown : p_db (s_proc (fst (do_event ck (EvCrash o k) y))) = None) by now rewrite E2.
  destruct (open_ok _ Hwf' Hdown) as (y' & Hev & Hop & _).
  rewrite E1, dur_state_crash in Hev, Hop.
  exists (dur_state ck (mid_state ck o k y)), y'. split; [exact Hor|]. split; [exact Hev|exact Hop].
Qed.

Theorem no_panic evs o : snd (do_event ck (EvOp o) (run ck evs sys0)) <> RPanic.
Proof. destruct (run_spec evs) as [_ Hwf]. apply (event_step _ (EvOp o) Hwf). Qed.

(** C16_acked: an index acknowledged at any time (the machine was open and its last returned call left
    lastApplied = a) is never lost, whatever happens afterwards, crashes included. *)
Theorem acked evs1 evs2 a o k :
  acked_index (run ck evs1 sys0) = Some a ->
  exists i y', do_event ck (EvOp OOpen) (run ck (evs1 ++ evs2 ++ [EvCrash o k]) sys0) = (y', ROk i) /\ a <= i.
Proof.
  intros Ha. destruct (run_spec evs1) as [_ Hwf1].
  unfold acked_index in Ha. destruct (p_db (s_proc (run ck evs1 sys0))) as [d|] eqn:Hd; [|discriminate Ha].
  injection Ha as <-.
  destruct (wf_up_dur_state _ d Hwf1 Hd) as (_ & Hlast & _).
  rewrite run_app.
  destruct (run_wf (evs2 ++ [EvCrash o k]) _ Hwf1) as [Hwf2 Hle].
  assert (Hdown : p_db (s_proc (run ck (evs2 ++ [EvCrash o k]) (run ck evs1 sys0))) = None).
  { rewrite run_snoc. destruct (crash_event_fs o k (run ck evs2 (run ck evs1 sys0))) as (_ & E2 & _). now rewrite E2. }
  destruct (open_ok _ Hwf2 Hdown) as (y' & Hev & _).
  eexists. exists y'. split; [exact Hev|]. lia.
Qed.

(** what [acked_index] is: the index reported by the call that returned last *)
Theorem ack_is_result evs o i :
  o <> OClose -> in_contract o (s_proc (run ck evs sys0)) = true ->
  snd (do_event ck (EvOp o) (run ck evs sys0)) = ROk i ->
  acked_index (run ck (evs ++ [EvOp o]) sys0) = Some i.
Proof.
  intros Hnc Hc Hres. destruct (run_spec evs) as [_ Hwf]. rewrite run_snoc.
  set (y := run ck evs sys0) in *.
  destruct (plan_good_all y o Hwf) as [_ (p' & Hp & _ & _ & Hup)].
  unfold do_event in *. destruct (plan ck o (s_fs y) (s_proc y) (s_fresh y)) as [steps r].
  cbn [fst snd] in *. subst r. unfold op_result in Hres. rewrite Hc in Hres. injection Hres as <-.
  unfold acked_index. cbn [s_proc].
  assert (Hu : up p' = true).
  { rewrite Hup. unfold in_contract in Hc. unfold up.
    destruct o, (p_db (s_proc y)); cbn in *; try reflexivity; try discriminate Hc. contradiction. }
  unfold up in Hu. destruct (p_db p'); [reflexivity|discriminate Hu].
Qed.

End Proofs.
