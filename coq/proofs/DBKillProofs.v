(** C11 (replicated half): which kill entries a report creates, and when they disappear. *)
From stdpp Require Import gmap list numbers.
From Drummer.Model Require Import DB.
From Drummer.Proofs Require Import DBProofs.
Local Open Scope N_scope.

(* stray w.r.t. a view: the shard is in the view with a STRICTLY newer version and the replica is not a member *)
Definition stray (view : gmap N shard) (ci : shard_info) : Prop :=
  exists ec, view !! si_shard ci = Some ec /\ si_cci ci < s_cci ec /\ s_reps ec !! si_replica ci = None.

Lemma kill_required_spec ec ci :
  kill_required ec ci = true <-> si_cci ci < s_cci ec /\ s_reps ec !! si_replica ci = None.
Proof.
  unfold kill_required. destruct (s_cci ec <=? si_cci ci) eqn:E.
  - apply N.leb_le in E. split; [done|]. intros [? _]. lia.
  - apply N.leb_gt in E. destruct (s_reps ec !! si_replica ci); split; try done. intros [_ ?]. done.
Qed.

(* one entry: either the to-kill list is unchanged, or the entry is appended and it is a stray of the view
   as it is right after processing the entry *)
Lemma update_entry_kill tick view tk ci view' tk' :
  update_entry tick (view, tk) ci = Some (view', tk') ->
  tk' = tk \/ (tk' = tk ++ [ci] /\ stray view' ci).
Proof.
  unfold update_entry.
  assert (match view !! si_shard ci with
            | Some ec => if negb (bool_decide (size (s_reps ec) = 0%nat)) && (0 <? s_cci ec) && kill_required ec ci
                         then Some (view, tk ++ [ci]) else Some (view, tk)
            | None => Some (view, tk)
            end = Some (view', tk') -> view' = view /\ (tk' = tk \/ (tk' = tk ++ [ci] /\ stray view ci))) as Hpartial.
  { destruct (view !! si_shard ci) as [ec|] eqn:Ev.
    - destruct (negb _ && _ && kill_required ec ci) eqn:Ek; intros [= <- <-]; [|auto].
      split; [done|]. right. split; [done|]. apply andb_true_iff in Ek as [_ Ek].
      apply kill_required_spec in Ek as [? ?]. exists ec. done.
    - intros [= <- <-]. auto. }
  destruct (si_pending ci).
  { intros H. apply Hpartial in H as [-> H]. exact H. }
  destruct (negb (si_incomplete ci)).
  - destruct (view !! si_shard ci) as [ec|] eqn:Ev.
    + destruct (sync_shard ec ci tick) as [[ec' rejected]|]; [|done].
      destruct (rejected && kill_required ec' ci) eqn:Ek; intros [= <- <-]; [|auto].
      right. split; [done|]. apply andb_true_iff in Ek as [_ Ek]. apply kill_required_spec in Ek as [? ?].
      exists ec'. rewrite lookup_insert. done.
    + intros [= <- <-]. auto.
  - intros H. apply Hpartial in H as [-> H]. exact H.
Qed.

(* all entries of a report: every to-kill entry is an entry of the report that was a stray at its turn *)
Lemma update_entries_kill tick cis : forall view tk view' tk',
  update_entries tick (view, tk) cis = Some (view', tk') ->
  exists new, tk' = tk ++ new /\
    Forall (λ ci, ci ∈ cis /\ exists v, stray v ci) new.
Proof.
  induction cis as [|ci cis IH]; intros view tk view' tk' H; cbn [update_entries] in H.
  - injection H as <- <-. exists []. rewrite app_nil_r. split; [done|constructor].
  - destruct (update_entry tick (view, tk) ci) as [[v1 tk1]|] eqn:E; [|done].
    apply IH in H as (new & -> & Hall).
    assert (Forall (λ c, c ∈ ci :: cis /\ (exists v, stray v c)) new) as Hall'.
    { eapply list.Forall_impl; [exact Hall|]. intros c [? ?]. split; [by right|done]. }
    apply update_entry_kill in E as [->|[-> Hs]].
    + exists new. done.
    + exists (ci :: new). rewrite <- app_assoc. split; [done|]. constructor; [|exact Hall'].
      split; [by left|]. by exists v1.
Qed.

(* the replicated kill list after a report *)
Lemma view_update_kill view kill r tick view' kill' :
  view_update view kill r tick = Some (view', kill') ->
  exists new, kill' = filter (λ k, k_addr k ≠ rp_addr r) kill ++ ((λ ci, mkKill (si_shard ci) (si_replica ci) (rp_addr r)) <$> new) /\
    Forall (λ ci, ci ∈ rp_infos r /\ exists v, stray v ci) new.
Proof.
  unfold view_update. destruct (update_entries tick (view, []) (rp_infos r)) as [[v1 tk]|] eqn:E; [|done].
  intros [= <- <-]. apply update_entries_kill in E as (new & -> & Hall). exists new. done.
Qed.

(* a report without entries (or whose entries are all non-stray) leaves no kill entry for its address *)
Lemma no_entries_no_kill tick view tk : update_entries tick (view, tk) [] = Some (view, tk).
Proof. reflexivity. Qed.

(** the kill list of the DB across a report command *)
Lemma report_kill_list P d r d' v :
  db_step P d (CReport r) = SOk d' v ->
  exists new, d_kill d' = filter (λ k, k_addr k ≠ rp_addr r) (d_kill d) ++
                          ((λ ci, mkKill (si_shard ci) (si_replica ci) (rp_addr r)) <$> new) /\
    Forall (λ ci, ci ∈ rp_infos r /\ exists view, stray view ci) new.
Proof.
  unfold db_step. destruct (d_failed d); [done|]. unfold apply_report.
  destruct (view_update _ _ _ _) as [[view' kill']|] eqn:E; [|done]. intros [= <- _].
  apply view_update_kill in E as (new & -> & Hall). exists new.
  unfold report_result, on_updated_shard_info, pickup. cbn.
  split; [|exact Hall].
  repeat match goal with |- context [if ?b then _ else _] => destruct b end;
  repeat match goal with |- context [match ?x with Some _ => _ | None => _ end] => destruct x end; reflexivity.
Qed.

(* only reports change the kill list *)
Lemma other_cmds_keep_kill P d c d' :
  next P d c = Some d' -> (forall r, c <> CReport r) -> d_kill d' = d_kill d.
Proof.
  intros Hn Hc. destruct (next_cases P d c d' Hn) as [[_ ->]|[_ H]]; [done|].
  destruct c as [|kv|t sd|r|qs|].
  - subst. unfold tick_result. by destruct (_ && _).
  - destruct H as (v & H). apply kv_update_frame in H. by destruct H as (_ & _ & _ & _ & _ & -> & _).
  - destruct H as (v & H). apply try_create_shard_spec in H as (_ & _ & _ & [(_ & _ & ->)|[(_ & _ & _ & ->)|(_ & _ & _ & ->)]]); reflexivity.
  - exfalso. by eapply Hc.
  - destruct H as (v & H).
    destruct (requests_cases P d qs) as [[_ E]|[_ [(_ & _ & E)|[(_ & _ & E)|(_ & E)]]]]; rewrite E in H; try done; by injection H as <- _.
  - done.
Qed.

(** consequences at the level of single kill entries *)
Lemma kill_entry_of_reporter P d r d' v k :
  db_step P d (CReport r) = SOk d' v -> k ∈ d_kill d' -> k_addr k = rp_addr r ->
  exists ci, ci ∈ rp_infos r /\ si_shard ci = k_shard k /\ si_replica ci = k_replica k /\ exists view, stray view ci.
Proof.
  intros Hs Hk Ha. apply report_kill_list in Hs as (new & Hd & Hall). rewrite Hd in Hk.
  apply elem_of_app in Hk as [Hk|Hk].
  - apply elem_of_list_filter in Hk as [Hne _]. done.
  - apply elem_of_list_fmap in Hk as (ci & -> & Hci). rewrite list.Forall_forall in Hall.
    destruct (Hall ci Hci) as [Hin Hst]. exists ci. done.
Qed.

Lemma kill_entry_of_other P d r d' v k :
  db_step P d (CReport r) = SOk d' v -> k ∈ d_kill d' -> k_addr k <> rp_addr r -> k ∈ d_kill d.
Proof.
  intros Hs Hk Ha. apply report_kill_list in Hs as (new & Hd & _). rewrite Hd in Hk.
  apply elem_of_app in Hk as [Hk|Hk].
  - by apply elem_of_list_filter in Hk as [_ ?].
  - apply elem_of_list_fmap in Hk as (ci & -> & _). done.
Qed.

(* a replica that the reporter no longer lists has no kill entry for that reporter after the report *)
Lemma not_reported_not_killed P d r d' v s n :
  db_step P d (CReport r) = SOk d' v ->
  (forall ci, ci ∈ rp_infos r -> ~ (si_shard ci = s /\ si_replica ci = n)) ->
  mkKill s n (rp_addr r) ∉ d_kill d'.
Proof.
  intros Hs Hno Hk. destruct (kill_entry_of_reporter P d r d' v _ Hs Hk eq_refl) as (ci & Hin & H1 & H2 & _).
  by apply (Hno ci Hin).
Qed.

(* a report that lists nothing clears every entry of the reporter *)
Lemma empty_report_clears P d r d' v :
  db_step P d (CReport r) = SOk d' v -> rp_infos r = [] -> d_kill d' = filter (λ k, k_addr k ≠ rp_addr r) (d_kill d).
Proof.
  intros Hs He. apply report_kill_list in Hs as (new & -> & Hall). rewrite He in Hall.
  destruct new as [|ci new]; [by rewrite app_nil_r|]. inversion Hall as [|? ? [Hin _] _]; subst. by apply elem_of_nil in Hin.
Qed.

(* tk only grows *)
Lemma update_entries_mono tick cis : forall view tk view' tk',
  update_entries tick (view, tk) cis = Some (view', tk') -> exists new, tk' = tk ++ new.
Proof. intros view tk view' tk' H. apply update_entries_kill in H as (new & -> & _). by exists new. Qed.

(* persistence: a stray listed FIRST in a report (so that the view it is judged against is the DB's view) whose
   shard record is non-empty with a positive version is (re-)entered in the kill list by that report *)
Lemma stray_head_persistent P d r0 ci rest d' v :
  rp_infos r0 = ci :: rest -> db_step P d (CReport r0) = SOk d' v ->
  (exists ec, d_view d !! si_shard ci = Some ec /\ si_cci ci < s_cci ec /\ s_reps ec !! si_replica ci = None /\
              size (s_reps ec) ≠ 0%nat) ->
  mkKill (si_shard ci) (si_replica ci) (rp_addr r0) ∈ d_kill d'.
Proof.
  intros Hr Hs (ec & Hv & Hlt & Hnm & Hsz).
  unfold db_step in Hs. destruct (d_failed d); [done|]. unfold apply_report in Hs.
  destruct (view_update _ _ _ _) as [[view' kill']|] eqn:E; [|done]. injection Hs as <- _.
  assert (mkKill (si_shard ci) (si_replica ci) (rp_addr r0) ∈ kill') as Hin.
  { unfold view_update in E. cbn [stamp rp_infos rp_addr] in E. rewrite Hr in E. cbn [update_entries] in E.
    destruct (update_entry (d_tick d) (d_view d, []) ci) as [[v1 tk1]|] eqn:E1; [|done].
    assert (tk1 = [ci]) as ->.
    { unfold update_entry in E1. rewrite Hv in E1.
      assert (kill_required ec ci = true) as Hk by (apply kill_required_spec; done).
      assert (0 <? s_cci ec = true) as Hpos by (apply N.ltb_lt; lia).
      assert (negb (bool_decide (size (s_reps ec) = 0%nat)) = true) as Hne by (rewrite bool_decide_eq_false_2; done).
      destruct (si_pending ci).
      { rewrite Hne, Hpos, Hk in E1. cbn in E1. by injection E1 as _ <-. }
      destruct (negb (si_incomplete ci)).
      - unfold sync_shard in E1. assert (si_cci ci <? s_cci ec = true) as Hl by (apply N.ltb_lt; done). rewrite Hl in E1.
        cbn [andb] in E1. rewrite Hk in E1. by injection E1 as _ <-.
      - rewrite Hne, Hpos, Hk in E1. cbn in E1. by injection E1 as _ <-. }
    destruct (update_entries (d_tick d) (v1, [ci]) rest) as [[v2 tk2]|] eqn:E2; [|done].
    apply update_entries_mono in E2 as (new & ->). injection E as _ <-.
    apply elem_of_app. right. cbn. left. }
  unfold report_result, on_updated_shard_info, pickup. cbn.
  repeat match goal with |- context [if ?b then _ else _] => destruct b end;
  repeat match goal with |- context [match ?x with Some _ => _ | None => _ end] => destruct x end; exact Hin.
Qed.

(** * Exact characterisation for reports that list every shard at most once
      (a NodeHost runs at most one replica per shard, so real reports have this shape) *)
Definition kill_cond (view : gmap N shard) (ci : shard_info) : bool :=
  match view !! si_shard ci with
  | None => false
  | Some ec =>
    if si_pending ci || si_incomplete ci
    then negb (bool_decide (size (s_reps ec) = 0%nat)) && (0 <? s_cci ec) && kill_required ec ci
    else kill_required ec ci
  end.

Lemma kill_cond_stray view ci : kill_cond view ci = true -> stray view ci.
Proof.
  unfold kill_cond, stray. destruct (view !! si_shard ci) as [ec|]; [|done]. intros H. exists ec. split; [done|].
  apply kill_required_spec. destruct (si_pending ci || si_incomplete ci); [|done].
  by apply andb_true_iff in H as [_ H].
Qed.

Lemma update_entry_exact tick view tk ci view' tk' :
  update_entry tick (view, tk) ci = Some (view', tk') ->
  tk' = tk ++ (if kill_cond view ci then [ci] else []) /\ (forall s, s <> si_shard ci -> view' !! s = view !! s).
Proof.
  unfold update_entry, kill_cond.
  destruct (si_pending ci) eqn:Hp; cbn [orb].
  { destruct (view !! si_shard ci) as [ec|]; [|intros [= <- <-]; by rewrite app_nil_r].
    destruct (negb _ && _ && kill_required ec ci); intros [= <- <-]; [done|by rewrite app_nil_r]. }
  destruct (si_incomplete ci) eqn:Hi; cbn [negb].
  { destruct (view !! si_shard ci) as [ec|]; [|intros [= <- <-]; by rewrite app_nil_r].
    destruct (negb _ && _ && kill_required ec ci); intros [= <- <-]; [done|by rewrite app_nil_r]. }
  destruct (view !! si_shard ci) as [ec|] eqn:Ev.
  - unfold sync_shard. destruct (si_cci ci <? s_cci ec) eqn:Hlt.
    + cbn [andb]. destruct (kill_required ec ci); intros [= <- <-]; (split; [done || by rewrite app_nil_r|]);
        intros s Hs; by rewrite lookup_insert_ne.
    + assert (forall c' (b : bool), s_cci c' = si_cci ci -> (if b && kill_required c' ci then Some (<[si_shard ci:=c']> view, tk ++ [ci])
                 else Some (<[si_shard ci:=c']> view, tk)) = Some (view', tk') ->
               tk' = tk ++ (if kill_required ec ci then [ci] else []) /\ (forall s, s <> si_shard ci -> view' !! s = view !! s)) as Hgen.
      { intros c' b Hc' H. assert (kill_required c' ci = false) as Hk.
        { unfold kill_required. rewrite Hc'. by rewrite N.leb_refl. }
        assert (kill_required ec ci = false) as Hk2.
        { unfold kill_required. apply N.ltb_ge in Hlt. by rewrite (proj2 (N.leb_le _ _) Hlt). }
        rewrite Hk, andb_false_r in H. injection H as <- <-. rewrite Hk2, app_nil_r. split; [done|].
        intros s Hs. by rewrite lookup_insert_ne. }
      destruct ((s_cci ec =? si_cci ci) && _); [done|].
      destruct (negb (bool_decide (map_Forall _ _))); [done|].
      destruct (bool_decide (NoDup _)); [|done]. apply (Hgen _ false). reflexivity.
  - intros [= <- <-]. rewrite app_nil_r. split; [done|]. intros s Hs. by rewrite lookup_insert_ne.
Qed.

Lemma kill_cond_ext view view' ci : view' !! si_shard ci = view !! si_shard ci -> kill_cond view' ci = kill_cond view ci.
Proof. unfold kill_cond. by intros ->. Qed.

Lemma filter_ext_in {A} (P1 P2 : A -> Prop) `{!∀ x, Decision (P1 x), !∀ x, Decision (P2 x)} (l : list A) :
  Forall (λ x, P1 x <-> P2 x) l -> filter P1 l = filter P2 l.
Proof.
  induction l as [|x l IH]; intros HF; [done|]. inversion HF as [|? ? Hx Hl]; subst.
  rewrite !filter_cons. rewrite (IH Hl). destruct (decide (P1 x)) as [H1|H1]; destruct (decide (P2 x)) as [H2|H2]; try done; tauto.
Qed.

Lemma update_entries_exact tick cis : forall view tk view' tk',
  NoDup (si_shard <$> cis) ->
  update_entries tick (view, tk) cis = Some (view', tk') ->
  tk' = tk ++ filter (λ ci, kill_cond view ci = true) cis.
Proof.
  induction cis as [|ci cis IH]; intros view tk view' tk' Hnd H; cbn [update_entries] in H.
  - injection H as <- <-. by rewrite app_nil_r.
  - destruct (update_entry tick (view, tk) ci) as [[v1 tk1]|] eqn:E; [|done].
    apply update_entry_exact in E as [-> Hsame]. cbn [fmap list_fmap] in Hnd. apply list.NoDup_cons in Hnd as [Hnotin Hnd].
    rewrite (IH _ _ _ _ Hnd H). rewrite <- app_assoc. f_equal.
    rewrite filter_cons.
    assert (filter (λ c, kill_cond v1 c = true) cis = filter (λ c, kill_cond view c = true) cis) as ->.
    { apply filter_ext_in. apply list.Forall_forall. intros c Hc.
      rewrite (kill_cond_ext view v1 c); [done|]. apply Hsame. intros Heq. apply Hnotin. rewrite <- Heq.
      apply elem_of_list_fmap. by exists c. }
    destruct (kill_cond view ci); [rewrite decide_True by done|rewrite decide_False by done]; done.
Qed.

Lemma report_kill_list_exact P d r d' v :
  NoDup (si_shard <$> rp_infos r) ->
  db_step P d (CReport r) = SOk d' v ->
  d_kill d' = filter (λ k, k_addr k ≠ rp_addr r) (d_kill d) ++
              ((λ ci, mkKill (si_shard ci) (si_replica ci) (rp_addr r)) <$> filter (λ ci, kill_cond (d_view d) ci = true) (rp_infos r)).
Proof.
  intros Hnd. unfold db_step. destruct (d_failed d); [done|]. unfold apply_report.
  destruct (view_update _ _ _ _) as [[view' kill']|] eqn:E; [|done]. intros [= <- _].
  unfold view_update in E. cbn [stamp rp_infos rp_addr] in E.
  destruct (update_entries (d_tick d) (d_view d, []) (rp_infos r)) as [[v1 tk]|] eqn:E1; [|done].
  apply (update_entries_exact _ _ _ _ _ _ Hnd) in E1. cbn [app] in E1. subst tk. injection E as _ <-.
  unfold report_result, on_updated_shard_info, pickup. cbn.
  repeat match goal with |- context [if ?b then _ else _] => destruct b end;
  repeat match goal with |- context [match ?x with Some _ => _ | None => _ end] => destruct x end; reflexivity.
Qed.
