(** A run of the recorder against an atomic register (RecorderAtomic.v) is recorded as a
    linearizable history (C07_accepts_linearizable).

    The linearization is built along the run: an operation is placed in the total order at the
    instant it takes effect at the register (a failed read that never took effect: when its
    failure is recorded; whatever is still open at the end: at the end). *)
From Coq Require Import ZArith Permutation.
From Drummer.Model Require Import Base Register WGL Jepsen Recorder RecorderAtomic.
From Drummer.Proofs Require Import RegisterProofs WGLProofs JepsenProofs RecorderProofs.
From Coq Require Import ZifyN ZifyNat ZifyBool.
Open Scope N_scope.

(** * Histories that grow at their end *)

Lemma ob_snoc {A} (x y z : A) l :
  occurs_before x y (l ++ [z]) <-> occurs_before x y l \/ (y = z /\ In x l).
Proof.
  induction l as [|a l IH]; cbn [app].
  - split.
    + intros H. apply ob_cons in H. destruct H as [[_ []]|H]. destruct (ob_nil _ _ H).
    + intros [H|[_ []]]. destruct (ob_nil _ _ H).
  - rewrite !ob_cons, IH. split.
    + intros [[E Hin]|[H|[E Hin]]].
      * apply in_app_or in Hin. destruct Hin as [Hin|[E'|[]]].
        -- left. left. split; assumption.
        -- right. split; [symmetry; exact E'|left; exact E].
      * left. right. exact H.
      * right. split; [exact E|right; exact Hin].
    + intros [[[E Hin]|H]|[E [E'|Hin]]].
      * left. split; [exact E|apply in_or_app; left; exact Hin].
      * right. left. exact H.
      * left. split; [exact E'|apply in_or_app; right; left; symmetry; exact E].
      * right. right. split; assumption.
Qed.

Lemma ob_app_l {A} (x y : A) l t : occurs_before x y l -> occurs_before x y (l ++ t).
Proof.
  intros [l1 [l2 [l3 E]]]. subst l. exists l1, l2, (l3 ++ t).
  rewrite <- !app_assoc. cbn [app]. rewrite <- !app_assoc. reflexivity.
Qed.

Lemma ob_app_both {A} (x y : A) l t : In x l -> In y t -> occurs_before x y (l ++ t).
Proof.
  intros Hx Hy. apply in_split in Hx. destruct Hx as [l1 [l2 E]]. apply in_split in Hy. destruct Hy as [t1 [t2 E']].
  subst l t. exists l1, (l2 ++ t1), t2. rewrite <- !app_assoc. cbn [app]. reflexivity.
Qed.

(** [y] does not occur in the appended part *)
Lemma ob_app_notin {A} (x y : A) l t : ~ In y t -> occurs_before x y (l ++ t) -> occurs_before x y l.
Proof.
  revert l. induction t as [|z t IH]; intros l Hn H.
  - rewrite app_nil_r in H. exact H.
  - change (l ++ z :: t) with (l ++ [z] ++ t) in H. rewrite app_assoc in H.
    apply IH in H; [|intro Hin; apply Hn; right; exact Hin].
    apply ob_snoc in H. destruct H as [H|[E _]]; [exact H|]. exfalso. apply Hn. left. symmetry. exact E.
Qed.

Lemma call_of_app : forall a b id,
  call_of (a ++ b) id = match call_of a id with Some i => Some i | None => call_of b id end.
Proof.
  induction a as [|e a IH]; intros b id; cbn [app call_of]; [reflexivity|].
  destruct e as [id' i|id' o]; [destruct (id' =? id); [reflexivity|apply IH]|apply IH].
Qed.

Lemma ret_of_app : forall a b id,
  ret_of (a ++ b) id = match ret_of a id with Some o => Some o | None => ret_of b id end.
Proof.
  induction a as [|e a IH]; intros b id; cbn [app ret_of]; [reflexivity|].
  destruct e as [id' i|id' o]; [apply IH|destruct (id' =? id); [reflexivity|apply IH]].
Qed.

Lemma call_of_In : forall h id, In id (call_ids h) <-> exists i, call_of h id = Some i.
Proof.
  induction h as [|e h IH]; intros id; cbn [call_ids call_of].
  - split; [intros []|intros [i H]; discriminate H].
  - destruct e as [id' i'|id' o'].
    + cbn [In]. destruct (N.eqb_spec id' id) as [E|E].
      * split; [intros _; exists i'; reflexivity|intros _; left; exact E].
      * rewrite <- IH. split; [intros [H|H]; [contradiction|exact H]|intros H; right; exact H].
    + apply IH.
Qed.

Lemma ret_of_Some_In : forall h id o, ret_of h id = Some o -> In id (ret_ids h).
Proof.
  induction h as [|e h IH]; intros id o H; cbn [ret_of ret_ids] in *; [discriminate H|].
  destruct e as [id' i'|id' o'].
  - exact (IH _ _ H).
  - destruct (N.eqb_spec id' id) as [E|E]; [left; exact E|right; exact (IH _ _ H)].
Qed.

Lemma ret_of_None : forall h id, ~ In id (ret_ids h) -> ret_of h id = None.
Proof.
  intros h id H. destruct (ret_of h id) as [o|] eqn:E; [|reflexivity].
  exfalso. apply H. exact (ret_of_Some_In _ _ _ E).
Qed.

Lemma precedes_ret : forall h a b, precedes h a b -> In a (ret_ids h).
Proof.
  intros h a b [o [i H]]. apply ob_In in H. destruct H as [H _]. apply In_ret_ids. exists o. exact H.
Qed.

Lemma precedes_snoc_call : forall h id i a b,
  precedes (h ++ [Call id i]) a b -> precedes h a b \/ (b = id /\ In a (ret_ids h)).
Proof.
  intros h id i a b [o [i' H]]. apply ob_snoc in H. destruct H as [H|[E Hin]].
  - left. exists o, i'. exact H.
  - right. injection E as E _. split; [exact E|]. apply In_ret_ids. exists o. exact Hin.
Qed.

Lemma precedes_snoc_ret : forall h id o a b, precedes (h ++ [Ret id o]) a b -> precedes h a b.
Proof.
  intros h id o a b [o' [i' H]]. apply ob_snoc in H. destruct H as [H|[E _]]; [|discriminate E].
  exists o', i'. exact H.
Qed.

(** * Replaying a total order with explicitly given inputs and outputs *)

Fixpoint lin_run (cf : N -> option input) (outs : N -> output) (st : Z) (sigma : list N) : option Z :=
  match sigma with
  | [] => Some st
  | id :: rest =>
    match cf id with
    | Some i => if fst (Register.step st i (outs id)) then lin_run cf outs (snd (Register.step st i (outs id))) rest else None
    | None => None
    end
  end.

Lemma lin_run_app : forall cf outs a b st,
  lin_run cf outs st (a ++ b) = match lin_run cf outs st a with Some st' => lin_run cf outs st' b | None => None end.
Proof.
  induction a as [|id a IH]; intros b st; cbn [app lin_run]; [reflexivity|].
  destruct (cf id) as [i|]; [|reflexivity]. destruct (fst (Register.step st i (outs id))); [apply IH|reflexivity].
Qed.

(** the new state does not depend on the output; an unknown outcome is always accepted *)
Lemma step_snd : forall st i o o', snd (Register.step st i o) = snd (Register.step st i o').
Proof. intros st i o o'. destruct i; reflexivity. Qed.

Lemma step_unknown : forall st i o, o_unknown o = true -> fst (Register.step st i o) = true.
Proof.
  intros st i o H. destruct i; cbn [Register.step fst]; [|reflexivity|]; rewrite H; apply orb_true_r.
Qed.

Lemma lin_run_ext : forall cf cf' outs outs' sigma st st',
  (forall id, In id sigma -> cf' id = cf id /\ (outs' id = outs id \/ o_unknown (outs' id) = true)) ->
  lin_run cf outs st sigma = Some st' -> lin_run cf' outs' st sigma = Some st'.
Proof.
  induction sigma as [|id sigma IH]; intros st st' Hx H; cbn [lin_run] in *; [exact H|].
  destruct (Hx id (or_introl eq_refl)) as [Hc Ho]. rewrite Hc.
  destruct (cf id) as [i|]; [|discriminate H].
  destruct (fst (Register.step st i (outs id))) eqn:Hok; [|discriminate H].
  assert (Hok' : fst (Register.step st i (outs' id)) = true).
  { destruct Ho as [Ho|Ho]; [rewrite Ho; exact Hok|exact (step_unknown _ _ _ Ho)]. }
  rewrite Hok', (step_snd st i (outs' id) (outs id)).
  apply IH; [|exact H]. intros id' Hin. apply Hx. right. exact Hin.
Qed.

Lemma lin_run_unknown : forall cf outs sigma st,
  (forall id, In id sigma -> (exists i, cf id = Some i) /\ o_unknown (outs id) = true) ->
  exists st', lin_run cf outs st sigma = Some st'.
Proof.
  induction sigma as [|id sigma IH]; intros st Hx; cbn [lin_run]; [exists st; reflexivity|].
  destruct (Hx id (or_introl eq_refl)) as [[i Hc] Ho]. rewrite Hc, (step_unknown _ _ _ Ho).
  apply IH. intros id' Hin. apply Hx. right. exact Hin.
Qed.

Lemma lin_run_accepts : forall h outs sigma st st',
  (forall id, In id sigma -> ret_of h id = Some (outs id)) ->
  lin_run (call_of h) outs st sigma = Some st' -> accepts h st sigma = true.
Proof.
  induction sigma as [|id sigma IH]; intros st st' Hx H; cbn [lin_run accepts] in *; [reflexivity|].
  rewrite (Hx id (or_introl eq_refl)). destruct (call_of h id) as [i|]; [|discriminate H].
  destruct (Register.step st i (outs id)) as [ok st1] eqn:Hs. cbn [fst snd] in H.
  destruct ok; [|discriminate H]. cbn [andb].
  apply (IH st1 st'); [|exact H]. intros id' Hin. apply Hx. right. exact Hin.
Qed.

(** * The parser's map of pending operations *)

Lemma pm_del_notin : forall (pm : pmap) p, ~ In p (map fst pm) -> pm_del pm p = pm.
Proof.
  induction pm as [|[q id] pm IH]; intros p H; cbn [pm_del filter fst]; [reflexivity|].
  cbn [map fst In] in H. destruct (N.eqb_spec q p) as [E|E]; [exfalso; apply H; left; exact E|].
  cbn [negb]. f_equal. apply IH. intro Hin. apply H. right. exact Hin.
Qed.

Lemma in_pm_del : forall (pm : pmap) p q id, In (q, id) (pm_del pm p) <-> In (q, id) pm /\ q <> p.
Proof.
  intros pm p q id. unfold pm_del. rewrite filter_In. cbn [fst].
  split; intros [H1 H2]; (split; [exact H1|]); destruct (N.eqb_spec q p); try congruence; try reflexivity; discriminate H2.
Qed.

Lemma in_fst : forall (pm : pmap) q id, In (q, id) pm -> In q (map fst pm).
Proof. intros pm q id H. apply in_map_iff. exists (q, id). split; [reflexivity|exact H]. Qed.
Lemma in_snd : forall (pm : pmap) q id, In (q, id) pm -> In id (map snd pm).
Proof. intros pm q id H. apply in_map_iff. exists (q, id). split; [reflexivity|exact H]. Qed.

Lemma keys_fun : forall (pm : pmap) q a b, NoDup (map fst pm) -> In (q, a) pm -> In (q, b) pm -> a = b.
Proof.
  induction pm as [|[k v] pm IH]; intros q a b Hnd Ha Hb; [destruct Ha|].
  cbn [map fst] in Hnd. inversion Hnd as [|x l Hnin Hnd']; subst.
  destruct Ha as [Ha|Ha]; destruct Hb as [Hb|Hb].
  - congruence.
  - injection Ha as E1 E2; subst. exfalso. apply Hnin. exact (in_fst _ _ _ Hb).
  - injection Hb as E1 E2; subst. exfalso. apply Hnin. exact (in_fst _ _ _ Ha).
  - exact (IH q a b Hnd' Ha Hb).
Qed.

Lemma vals_inj : forall (pm : pmap) a b id, NoDup (map snd pm) -> In (a, id) pm -> In (b, id) pm -> a = b.
Proof.
  induction pm as [|[k v] pm IH]; intros a b id Hnd Ha Hb; [destruct Ha|].
  cbn [map snd] in Hnd. inversion Hnd as [|x l Hnin Hnd']; subst.
  destruct Ha as [Ha|Ha]; destruct Hb as [Hb|Hb].
  - congruence.
  - injection Ha as E1 E2; subst. exfalso. apply Hnin. exact (in_snd _ _ _ Hb).
  - injection Hb as E1 E2; subst. exfalso. apply Hnin. exact (in_snd _ _ _ Ha).
  - exact (IH a b id Hnd' Ha Hb).
Qed.

Lemma pm_get_in : forall (pm : pmap) p id, NoDup (map fst pm) -> In (p, id) pm -> pm_get pm p = id.
Proof.
  intros pm p id Hnd Hin. unfold pm_get.
  destruct (find (fun kv => fst kv =? p) pm) as [[k v]|] eqn:Hf.
  - apply find_some in Hf. destruct Hf as [Hf1 Hf2]. cbn [fst snd] in *.
    apply N.eqb_eq in Hf2. subst k. exact (keys_fun pm p v id Hnd Hf1 Hin).
  - exfalso. pose proof (find_none _ _ Hf (p, id) Hin) as Hn. cbn [fst] in Hn. rewrite N.eqb_refl in Hn. discriminate Hn.
Qed.

Lemma nodup_map_filter : forall {A B} (f : A -> B) (g : A -> bool) l, NoDup (map f l) -> NoDup (map f (filter g l)).
Proof.
  intros A B f g l. induction l as [|x l IH]; intros H; cbn [filter map]; [constructor|].
  cbn [map] in H. inversion H as [|y l' Hnin Hnd]; subst.
  destruct (g x); [|exact (IH Hnd)]. cbn [map]. constructor; [|exact (IH Hnd)].
  intro Hin. apply Hnin. apply in_map_iff in Hin. destruct Hin as [z [Ez Hz]].
  apply in_map_iff. exists z. split; [exact Ez|]. apply filter_In in Hz. exact (proj1 Hz).
Qed.

Lemma snd_pm_del : forall (pm : pmap) p id id', NoDup (map fst pm) -> NoDup (map snd pm) -> In (p, id) pm ->
  (In id' (map snd (pm_del pm p)) <-> In id' (map snd pm) /\ id' <> id).
Proof.
  intros pm p id id' Hk Hv Hin. split.
  - intros H. apply in_map_iff in H. destruct H as [[q v] [E H]]. cbn [snd] in E. subst v.
    apply in_pm_del in H. destruct H as [H Hq]. split; [exact (in_snd _ _ _ H)|].
    intro E. subst id'. apply Hq. exact (vals_inj pm q p id Hv H Hin).
  - intros [H Hne]. apply in_map_iff in H. destruct H as [[q v] [E H]]. cbn [snd] in E. subst v.
    apply in_map_iff. exists (q, id'). split; [reflexivity|]. apply in_pm_del. split; [exact H|].
    intro E. subst q. apply Hne. exact (keys_fun pm p id' id Hk H Hin).
Qed.

(** * The invariant of the history / linearization pair

    [main]: the checker events of the history so far; [pm]: process -> operation still pending;
    [next]: next operation id; [sigma]: the operations linearized so far, in order; [outs]: the
    output each linearized operation is committed to; [st]: the register after [sigma]. *)

Record HI (main : history) (pm : pmap) (next : N) (sigma : list N) (outs : N -> output) (st : Z) : Prop := mkHI {
  hi_c1 : NoDup (call_ids main);
  hi_c2 : forall id, In id (call_ids main) -> id < next;
  hi_c3 : NoDup (ret_ids main);
  hi_c4 : NoDup (map fst pm);
  hi_c4' : NoDup (map snd pm);
  hi_c5 : forall id, In id (call_ids main) <-> (In id (ret_ids main) \/ In id (map snd pm));
  hi_c6 : forall id, In id (ret_ids main) -> ~ In id (map snd pm);
  hi_c7 : forall h1 id o h2, main = h1 ++ Ret id o :: h2 -> In id (call_ids h1);
  hi_l1 : NoDup sigma;
  hi_l1' : forall id, In id sigma -> In id (call_ids main);
  hi_l2 : forall id, In id (ret_ids main) -> In id sigma;
  hi_l3 : forall a b, precedes main a b -> In b sigma -> before sigma a b;
  hi_l4 : lin_run (call_of main) outs nil_state sigma = Some st;
  hi_l5 : forall id o, ret_of main id = Some o -> o = outs id \/ o_unknown o = true
}.

Lemma hi_init : HI [] [] 0 [] (fun _ => out_unknown) nil_state.
Proof.
  constructor; cbn [call_ids ret_ids map lin_run ret_of In].
  - constructor.
  - intros id [].
  - constructor.
  - constructor.
  - constructor.
  - intros id. split; [intros []|intros [[]|[]]].
  - intros id [].
  - intros h1 id o h2 H. destruct h1; discriminate H.
  - constructor.
  - intros id [].
  - intros id [].
  - intros a b [o [i H]]. destruct (ob_nil _ _ H).
  - reflexivity.
  - intros id o H. discriminate H.
Qed.

Lemma nodup_snoc : forall {A} (l : list A) x, NoDup l -> ~ In x l -> NoDup (l ++ [x]).
Proof.
  intros A l x Hnd Hn. apply (Permutation_NoDup (l := x :: l)); [apply Permutation_cons_append|].
  constructor; assumption.
Qed.

Lemma snoc_split : forall {A} (l : list A) x h1 y h2, l ++ [x] = h1 ++ y :: h2 ->
  (h2 = [] /\ l = h1 /\ x = y) \/ (exists h2', h2 = h2' ++ [x] /\ l = h1 ++ y :: h2').
Proof.
  intros A l x h1 y h2 H. destruct h2 as [|z h2].
  - left. apply app_inj_tail in H. destruct H as [H1 H2]. auto.
  - right. assert (Hne : z :: h2 <> []) by discriminate.
    destruct (exists_last Hne) as [h2' [w E]]. rewrite E in *.
    change (h1 ++ y :: h2' ++ [w]) with (h1 ++ (y :: h2') ++ [w]) in H. rewrite app_assoc in H.
    apply app_inj_tail in H. destruct H as [H1 H2]. subst w. exists h2'. split; [reflexivity|exact H1].
Qed.

Lemma call_of_snoc_ret : forall h id o id', call_of (h ++ [Ret id o]) id' = call_of h id'.
Proof. intros h id o id'. rewrite call_of_app. cbn [call_of]. destruct (call_of h id'); reflexivity. Qed.

Lemma ret_of_snoc_call : forall h id i id', ret_of (h ++ [Call id i]) id' = ret_of h id'.
Proof. intros h id i id'. rewrite ret_of_app. cbn [ret_of]. destruct (ret_of h id'); reflexivity. Qed.

(** a new operation is invoked *)
Lemma hi_call : forall main pm next sigma outs st p i,
  HI main pm next sigma outs st -> ~ In p (map fst pm) ->
  HI (main ++ [Call next i]) ((p, next) :: pm) (next + 1) sigma outs st.
Proof.
  intros main pm next sigma outs st p i H Hp.
  destruct H as [C1 C2 C3 C4 C4' C5 C6 C7 L1 L1' L2 L3 L4 L5].
  assert (Hnext : ~ In next (call_ids main)).
  { intro Hin. apply C2 in Hin. lia. }
  assert (Hnext' : ~ In next (map snd pm)).
  { intro Hin. apply Hnext. apply C5. right. exact Hin. }
  constructor.
  - rewrite call_ids_app. cbn [call_ids]. apply nodup_snoc; assumption.
  - intros id Hin. rewrite call_ids_app in Hin. cbn [call_ids] in Hin. apply in_app_or in Hin.
    destruct Hin as [Hin|[E|[]]]; [apply C2 in Hin|]; lia.
  - rewrite ret_ids_app. cbn [ret_ids]. rewrite app_nil_r. assumption.
  - cbn [map fst]. constructor; assumption.
  - cbn [map snd]. constructor; assumption.
  - intros id. rewrite call_ids_app, ret_ids_app. cbn [call_ids ret_ids map snd]. rewrite app_nil_r, in_app_iff, C5.
    cbn [In]. tauto.
  - intros id Hin. rewrite ret_ids_app in Hin. cbn [ret_ids] in Hin. rewrite app_nil_r in Hin.
    cbn [map snd In]. intros [E|Hin']; [|exact (C6 id Hin Hin')].
    subst id. apply Hnext. apply C5. left. exact Hin.
  - intros h1 id o h2 E. apply snoc_split in E. destruct E as [[_ [_ E]]|[h2' [_ E]]]; [discriminate E|].
    exact (C7 _ _ _ _ E).
  - assumption.
  - intros id Hin. rewrite call_ids_app. apply in_or_app. left. apply L1'. exact Hin.
  - intros id Hin. rewrite ret_ids_app in Hin. cbn [ret_ids] in Hin. rewrite app_nil_r in Hin. apply L2. exact Hin.
  - intros a b Hpr Hb. apply precedes_snoc_call in Hpr. destruct Hpr as [Hpr|[E _]]; [exact (L3 a b Hpr Hb)|].
    subst b. exfalso. apply Hnext. apply L1'. exact Hb.
  - apply (lin_run_ext (call_of main) _ outs); [|assumption].
    intros id Hin. split; [|left; reflexivity]. rewrite call_of_app.
    apply L1', call_of_In in Hin. destruct Hin as [i' Hi]. rewrite Hi. reflexivity.
  - intros id o Hr. rewrite ret_of_snoc_call in Hr. exact (L5 id o Hr).
Qed.

(** the pending operation [id] of process [p] returns *)
Lemma hi_ret : forall main pm next sigma outs st p id o,
  HI main pm next sigma outs st -> In (p, id) pm -> In id sigma -> (o = outs id \/ o_unknown o = true) ->
  HI (main ++ [Ret id o]) (pm_del pm p) next sigma outs st.
Proof.
  intros main pm next sigma outs st p id o H Hin Hsig Ho.
  destruct H as [C1 C2 C3 C4 C4' C5 C6 C7 L1 L1' L2 L3 L4 L5].
  assert (Hcall : In id (call_ids main)) by (apply C5; right; exact (in_snd _ _ _ Hin)).
  assert (Hnr : ~ In id (ret_ids main)).
  { intro Hr. exact (C6 id Hr (in_snd _ _ _ Hin)). }
  constructor.
  - rewrite call_ids_app. cbn [call_ids]. rewrite app_nil_r. assumption.
  - intros id' Hin'. rewrite call_ids_app in Hin'. cbn [call_ids] in Hin'. rewrite app_nil_r in Hin'. exact (C2 id' Hin').
  - rewrite ret_ids_app. cbn [ret_ids]. apply nodup_snoc; assumption.
  - apply nodup_map_filter. assumption.
  - apply nodup_map_filter. assumption.
  - intros id'. rewrite call_ids_app, ret_ids_app. cbn [call_ids ret_ids]. rewrite app_nil_r, in_app_iff.
    rewrite (snd_pm_del pm p id id' C4 C4' Hin), C5. cbn [In].
    destruct (N.eq_dec id' id) as [E|E]; [subst id'|].
    + split; [intros _; left; right; left; reflexivity|intros _; right; exact (in_snd _ _ _ Hin)].
    + assert (E' : id <> id') by congruence. tauto.
  - intros id' Hin'. rewrite ret_ids_app in Hin'. cbn [ret_ids] in Hin'. apply in_app_or in Hin'.
    rewrite (snd_pm_del pm p id id' C4 C4' Hin). intros [H1 H2].
    destruct Hin' as [Hin'|[E|[]]]; [exact (C6 id' Hin' H1)|]. apply H2. symmetry. exact E.
  - intros h1 id' o' h2 E. apply snoc_split in E. destruct E as [[_ [E1 E2]]|[h2' [_ E]]].
    + injection E2 as E2 _. subst h1 id'. exact Hcall.
    + exact (C7 _ _ _ _ E).
  - assumption.
  - intros id' Hin'. rewrite call_ids_app. apply in_or_app. left. apply L1'. exact Hin'.
  - intros id' Hin'. rewrite ret_ids_app in Hin'. cbn [ret_ids] in Hin'. apply in_app_or in Hin'.
    destruct Hin' as [Hin'|[E|[]]]; [exact (L2 id' Hin')|]. subst id'. exact Hsig.
  - intros a b Hpr Hb. apply precedes_snoc_ret in Hpr. exact (L3 a b Hpr Hb).
  - apply (lin_run_ext (call_of main) _ outs); [|assumption].
    intros id' Hin'. split; [apply call_of_snoc_ret|left; reflexivity].
  - intros id' o' Hr. rewrite ret_of_app in Hr. destruct (ret_of main id') as [x|] eqn:Hx.
    + injection Hr as Hr. subst x. exact (L5 id' o' Hx).
    + cbn [ret_of] in Hr. destruct (N.eqb_spec id id') as [E|E]; [|discriminate Hr].
      injection Hr as Hr. subst id' o'. exact Ho.
Qed.

(** operation [id] takes effect now: it is appended to the total order *)
Lemma hi_lin : forall main pm next sigma outs st id i o st',
  HI main pm next sigma outs st -> ~ In id sigma -> call_of main id = Some i ->
  fst (Register.step st i o) = true -> snd (Register.step st i o) = st' ->
  HI main pm next (sigma ++ [id]) (oupd outs id o) st'.
Proof.
  intros main pm next sigma outs st id i o st' H Hns Hc Hok Hst.
  destruct H as [C1 C2 C3 C4 C4' C5 C6 C7 L1 L1' L2 L3 L4 L5].
  assert (Hcall : In id (call_ids main)) by (apply call_of_In; exists i; exact Hc).
  assert (Houts : forall id', In id' sigma -> oupd outs id o id' = outs id').
  { intros id' Hin'. unfold oupd. destruct (N.eqb_spec id' id) as [E|E]; [subst id'; contradiction|reflexivity]. }
  constructor; try assumption.
  - apply nodup_snoc; assumption.
  - intros id' Hin'. apply in_app_or in Hin'. destruct Hin' as [Hin'|[E|[]]]; [exact (L1' id' Hin')|subst id'; exact Hcall].
  - intros id' Hin'. apply in_or_app. left. exact (L2 id' Hin').
  - intros a b Hpr Hb. apply in_app_or in Hb. destruct Hb as [Hb|[E|[]]].
    + apply ob_app_l. exact (L3 a b Hpr Hb).
    + subst b. apply ob_app_both; [|left; reflexivity]. apply L2. exact (precedes_ret _ _ _ Hpr).
  - rewrite lin_run_app.
    rewrite (lin_run_ext (call_of main) (call_of main) outs (oupd outs id o) sigma nil_state st); [|
      intros id' Hin'; split; [reflexivity|left; exact (Houts id' Hin')] | exact L4].
    cbn [lin_run]. rewrite Hc. unfold oupd at 1 2. rewrite N.eqb_refl, Hok, Hst. reflexivity.
  - intros id' o' Hr. rewrite (Houts id'); [exact (L5 id' o' Hr)|]. apply L2. exact (ret_of_Some_In _ _ _ Hr).
Qed.

(** * At the end: what is still open is closed with an unknown outcome and linearized last *)

Lemma call_ids_unknown_rets : forall t, call_ids (unknown_rets t) = [].
Proof. induction t as [|x t IH]; cbn [unknown_rets map call_ids]; [reflexivity|exact IH]. Qed.

Lemma ret_ids_unknown_rets : forall t, ret_ids (unknown_rets t) = t.
Proof. induction t as [|x t IH]; cbn [unknown_rets map ret_ids]; [reflexivity|]. f_equal. exact IH. Qed.

Lemma in_unknown_rets : forall t e, In e (unknown_rets t) -> exists id, e = Ret id out_unknown /\ In id t.
Proof.
  intros t e H. unfold unknown_rets in H. apply in_map_iff in H. destruct H as [id [E H]]. exists id. split; [symmetry; exact E|exact H].
Qed.

Lemma ret_of_unknown_rets : forall t id o, ret_of (unknown_rets t) id = Some o -> o = out_unknown.
Proof.
  induction t as [|x t IH]; intros id o H; cbn [unknown_rets map ret_of] in H; [discriminate H|].
  destruct (x =? id); [injection H as H; symmetry; exact H|exact (IH id o H)].
Qed.

Lemma nodup_app : forall {A} (a b : list A), NoDup a -> NoDup b -> (forall x, In x a -> ~ In x b) -> NoDup (a ++ b).
Proof.
  intros A a b Ha Hb Hd. induction Ha as [|x a Hx Ha IH]; cbn [app]; [exact Hb|].
  constructor.
  - intro Hin. apply in_app_or in Hin. destruct Hin as [Hin|Hin]; [exact (Hx Hin)|]. exact (Hd x (or_introl eq_refl) Hin).
  - apply IH. intros y Hy. apply Hd. right. exact Hy.
Qed.

Lemma precedes_app_rets : forall main t a b, precedes (main ++ unknown_rets t) a b -> precedes main a b.
Proof.
  intros main t a b [o [i H]]. exists o, i. apply (ob_app_notin _ _ main (unknown_rets t)); [|exact H].
  intro Hin. apply in_unknown_rets in Hin. destruct Hin as [id [E _]]. discriminate E.
Qed.

Lemma hi_final : forall main pm next sigma outs st tail,
  HI main pm next sigma outs st -> Permutation tail (map snd pm) ->
  wf (main ++ unknown_rets tail) /\ linearizable (main ++ unknown_rets tail).
Proof.
  intros main pm next sigma outs st tail H Hperm.
  destruct H as [C1 C2 C3 C4 C4' C5 C6 C7 L1 L1' L2 L3 L4 L5].
  assert (Htnd : NoDup tail) by (apply (Permutation_NoDup (Permutation_sym Hperm)); exact C4').
  assert (Htin : forall id, In id tail <-> In id (map snd pm)).
  { intros id. split; [apply Permutation_in; exact Hperm|apply Permutation_in, Permutation_sym; exact Hperm]. }
  set (h := main ++ unknown_rets tail).
  assert (Ecalls : call_ids h = call_ids main).
  { unfold h. rewrite call_ids_app, call_ids_unknown_rets. apply app_nil_r. }
  assert (Erets : ret_ids h = ret_ids main ++ tail).
  { unfold h. rewrite ret_ids_app, ret_ids_unknown_rets. reflexivity. }
  assert (Hcr : forall id, In id (call_ids main) -> In id (ret_ids h)).
  { intros id Hin. rewrite Erets. apply in_or_app. apply C5 in Hin. destruct Hin as [Hin|Hin]; [left; exact Hin|right; apply Htin; exact Hin]. }
  assert (Hwf : wf h).
  { unfold wf. rewrite Ecalls. split; [exact C1|]. split; [|split].
    - rewrite Erets. apply nodup_app; [exact C3|exact Htnd|].
      intros id Hin Hin'. apply Htin in Hin'. exact (C6 id Hin Hin').
    - exact Hcr.
    - intros h1 id o h2 E. unfold h in E. apply app_eq_app in E. destruct E as [l [[E1 E2]|[E1 E2]]].
      + destruct l as [|x l].
        * rewrite app_nil_r in E1. subst h1. cbn [app] in E2.
          apply C5. right. apply Htin.
          assert (Hin : In (Ret id o) (unknown_rets tail)) by (rewrite <- E2; left; reflexivity).
          apply in_unknown_rets in Hin. destruct Hin as [id' [E Hin]]. injection E as E _. subst id'. exact Hin.
        * cbn [app] in E2. injection E2 as E2 _. subst x. exact (C7 _ _ _ _ E1).
      + subst h1. rewrite call_ids_app. apply in_or_app. left. apply C5. right. apply Htin.
        assert (Hin : In (Ret id o) (unknown_rets tail)) by (rewrite E2; apply in_elt).
        apply in_unknown_rets in Hin. destruct Hin as [id' [E Hin]]. injection E as E _. subst id'. exact Hin. }
  split; [exact Hwf|].
  set (rest := filter (fun id => negb (mem_id id sigma)) tail).
  set (outs' := fun id => match ret_of h id with Some o => o | None => out_unknown end).
  assert (Hrest : forall id, In id rest <-> In id tail /\ ~ In id sigma).
  { intros id. unfold rest. rewrite filter_In. split; intros [H1 H2]; (split; [exact H1|]).
    - intro Hs. apply mem_id_In in Hs. rewrite Hs in H2. discriminate H2.
    - destruct (mem_id id sigma) eqn:Hm; [|reflexivity]. apply mem_id_In in Hm. contradiction. }
  assert (Hall : forall id, In id (sigma ++ rest) <-> In id (call_ids main)).
  { intros id. rewrite in_app_iff, Hrest. split.
    - intros [Hs|[Ht _]]; [exact (L1' id Hs)|]. apply C5. right. apply Htin. exact Ht.
    - intros Hc. destruct (in_dec N.eq_dec id sigma) as [Hs|Hs]; [left; exact Hs|]. right. split; [|exact Hs].
      apply C5 in Hc. destruct Hc as [Hc|Hc]; [exfalso; exact (Hs (L2 id Hc))|apply Htin; exact Hc]. }
  assert (Hunk : forall id, ret_of main id = None -> o_unknown (outs' id) = true).
  { intros id Hn. unfold outs', h. rewrite ret_of_app, Hn.
    destruct (ret_of (unknown_rets tail) id) as [o|] eqn:Ho; [|reflexivity].
    rewrite (ret_of_unknown_rets _ _ _ Ho). reflexivity. }
  assert (Hcall : forall id, In id (call_ids main) -> call_of h id = call_of main id).
  { intros id Hin. unfold h. rewrite call_of_app. apply call_of_In in Hin. destruct Hin as [i Hi]. rewrite Hi. reflexivity. }
  assert (Hrun1 : lin_run (call_of h) outs' nil_state sigma = Some st).
  { apply (lin_run_ext (call_of main) _ outs); [|exact L4].
    intros id Hin. split; [exact (Hcall id (L1' id Hin))|].
    destruct (ret_of main id) as [o|] eqn:Ho.
    - unfold outs', h. rewrite ret_of_app, Ho. destruct (L5 id o Ho) as [E|E]; [left; exact E|right; exact E].
    - right. exact (Hunk id Ho). }
  assert (Hrun2 : exists st', lin_run (call_of h) outs' st rest = Some st').
  { apply lin_run_unknown. intros id Hin. apply Hrest in Hin. destruct Hin as [Ht Hs].
    assert (Hc : In id (call_ids main)) by (apply C5; right; apply Htin; exact Ht).
    split.
    - rewrite (Hcall id Hc). apply call_of_In. exact Hc.
    - apply Hunk. apply ret_of_None. intro Hr. exact (Hs (L2 id Hr)). }
  destruct Hrun2 as [st' Hrun2].
  exists (sigma ++ rest). unfold linearization. split; [|split].
  - apply NoDup_Permutation.
    + apply nodup_app; [exact L1|apply NoDup_filter; exact Htnd|]. intros id Hs Hr. apply Hrest in Hr. exact (proj2 Hr Hs).
    + rewrite Ecalls. exact C1.
    + intros id. rewrite Ecalls. apply Hall.
  - intros a b Hpr. apply precedes_app_rets in Hpr.
    assert (Ha : In a sigma) by (apply L2; exact (precedes_ret _ _ _ Hpr)).
    destruct (in_dec N.eq_dec b sigma) as [Hb|Hb].
    + apply ob_app_l. exact (L3 a b Hpr Hb).
    + apply ob_app_both; [exact Ha|]. apply Hrest. split; [|exact Hb].
      destruct Hpr as [o [i Hob]]. apply ob_In in Hob. destruct Hob as [_ Hob].
      assert (Hc : In b (call_ids main)) by (apply In_call_ids; exists i; exact Hob).
      apply C5 in Hc. destruct Hc as [Hc|Hc]; [exfalso; exact (Hb (L2 b Hc))|apply Htin; exact Hc].
  - apply (lin_run_accepts h outs' (sigma ++ rest) nil_state st').
    + intros id Hin. apply Hall in Hin. apply Hcr in Hin. apply ret_of_In in Hin. destruct Hin as [o Ho].
      unfold outs'. rewrite Ho. reflexivity.
    + rewrite lin_run_app, Hrun1. exact Hrun2.
Qed.

(** * The recorder against the atomic register *)

Definition hstate (es : list Jepsen.event) : pstate := fold_left pstep (map event_kind es) ps_init.

Lemma hstate_snoc : forall es e, hstate (es ++ [e]) = pstep (hstate es) (event_kind e).
Proof. intros es e. unfold hstate. rewrite map_app, fold_left_app. reflexivity. Qed.

Lemma expected_main_hstate : forall es, expected_main es = rev (ps_rev (hstate es)).
Proof.
  intros es. unfold expected_main, hstate. destruct (fold_pstep_expected es ps_init) as [H1 _].
  cbn [ps_init ps_next ps_map ps_rev] in H1. rewrite H1, app_nil_r, rev_involutive. reflexivity.
Qed.

Lemma expected_open_hstate : forall es, expected_open es = map snd (ps_map (hstate es)).
Proof.
  intros es. unfold expected_open, hstate. destruct (fold_pstep_expected es ps_init) as [_ H2].
  cbn [ps_init ps_next ps_map ps_rev] in H2. rewrite H2. reflexivity.
Qed.

Definition toZ (r : N) : Z := if r =? nilv then nil_state else Z.of_N r.
Definition input_of (o : op) : input := match o with OpRead => Read | OpWrite v => Write (Z.of_N v) end.
Definition out_of (o : op) (x : N) : output := match o with OpRead => out_read (ev_value x) | OpWrite _ => out_plain end.
Definition early (c : cpc) : bool := match c with CNone | CSpawned _ | CInRpc _ => true | _ => false end.
Definition op_lt (o : op) (b : N) : Prop := match o with OpWrite v => v < b | OpRead => True end.

(** what is known about process [p]: [c] its program counter, [ep] the state of its history
    monitor, [eff]/[late] its slots in the service *)
Definition pa (c : cpc) (val : N) (ep : estate) (main : history) (pm : pmap) (sigma : list N)
  (outs : N -> output) (eff late : option N) (p : N) : Prop :=
  match ep with
  | EReady => ~ In p (map fst pm) /\ eff = None /\ late = None
  | EPending o =>
    exists id, In (p, id) pm /\ call_of main id = Some (input_of o) /\ op_lt o val /\
      (forall x, eff = Some x -> In id sigma /\ outs id = out_of o x) /\
      (eff = None -> ~ In id sigma) /\
      (forall v, late = Some v -> o = OpWrite v /\ eff = None /\ (c = CReturned o RErr \/ c = CStopSet o)) /\
      (forall o' v, c = CReturned o' (ROk v) -> match o' with OpRead => eff = Some v | OpWrite _ => eff <> None end)
  | EDead =>
    forall v, late = Some v ->
      exists id, In (p, id) pm /\ call_of main id = Some (Write (Z.of_N v)) /\ ~ In id sigma /\ v < val
  end.

(** allowed changes of the program counter of a process whose history monitor does not move *)
Definition pc_rel (c c' : cpc) : Prop :=
  (early c' = true -> early c = true) /\
  (forall o, c = CReturned o RErr \/ c = CStopSet o -> c' = CReturned o RErr \/ c' = CStopSet o) /\
  (forall o v, c' = CReturned o (ROk v) -> c = CReturned o (ROk v)).

Lemma pc_rel_refl : forall c, pc_rel c c.
Proof. intros c. split; [tauto|]. split; [intros o H; exact H|intros o v H; exact H]. Qed.

Lemma pa_pc : forall c c' val val' ep main pm sigma outs eff late p,
  pa c val ep main pm sigma outs eff late p -> (pc_rel c c' \/ forall o, ep <> EPending o) -> val <= val' ->
  pa c' val' ep main pm sigma outs eff late p.
Proof.
  intros c c' val val' ep main pm sigma outs eff late p H HR Hv. destruct ep as [|o|]; cbn [pa] in *.
  - exact H.
  - destruct HR as [[R1 [R2 R3]]|HR]; [|exfalso; exact (HR o eq_refl)].
    destruct H as [id [H1 [H2 [H3 [H4 [H5 [H6 H7]]]]]]]. exists id.
    split; [exact H1|]. split; [exact H2|]. split; [destruct o; cbn [op_lt] in *; [exact I|lia]|].
    split; [exact H4|]. split; [exact H5|]. split.
    + intros v Hl. destruct (H6 v Hl) as [A [B C]]. split; [exact A|]. split; [exact B|]. exact (R2 o C).
    + intros o' v Hc. exact (H7 o' v (R3 o' v Hc)).
  - intros v Hl. destruct (H v Hl) as [id [H1 [H2 [H3 H4]]]]. exists id. repeat split; try assumption. lia.
Qed.

(** another process invoked an operation *)
Lemma pa_frame_call : forall c val ep main pm next sigma outs st eff late q p i,
  HI main pm next sigma outs st -> q <> p ->
  pa c val ep main pm sigma outs eff late q ->
  pa c val ep (main ++ [Call next i]) ((p, next) :: pm) sigma outs eff late q.
Proof.
  intros c val ep main pm next sigma outs st eff late q p i HI Hq H.
  assert (Hc : forall id x, call_of main id = Some x -> call_of (main ++ [Call next i]) id = Some x).
  { intros id x Hx. rewrite call_of_app, Hx. reflexivity. }
  destruct ep as [|o|]; cbn [pa] in *.
  - destruct H as [H1 H2]. split; [|exact H2]. cbn [map fst In]. intros [E|Hin]; [apply Hq; symmetry; exact E|exact (H1 Hin)].
  - destruct H as [id [H1 [H2 H3]]]. exists id. split; [right; exact H1|]. split; [exact (Hc _ _ H2)|exact H3].
  - intros v Hl. destruct (H v Hl) as [id [H1 [H2 H3]]]. exists id. split; [right; exact H1|]. split; [exact (Hc _ _ H2)|exact H3].
Qed.

(** another process completed an operation *)
Lemma pa_frame_ret : forall c val ep main pm sigma outs eff late q p id o,
  q <> p ->
  pa c val ep main pm sigma outs eff late q ->
  pa c val ep (main ++ [Ret id o]) (pm_del pm p) sigma outs eff late q.
Proof.
  intros c val ep main pm sigma outs eff late q p id o Hq H.
  destruct ep as [|o'|]; cbn [pa] in *.
  - destruct H as [H1 H2]. split; [|exact H2]. intro Hin. apply H1. apply in_map_iff in Hin.
    destruct Hin as [[k v] [E Hin]]. cbn [fst] in E. subst k. apply in_pm_del in Hin. exact (in_fst _ _ _ (proj1 Hin)).
  - destruct H as [id' [H1 [H2 H3]]]. exists id'. split; [apply in_pm_del; split; assumption|].
    split; [rewrite call_of_snoc_ret; exact H2|exact H3].
  - intros v Hl. destruct (H v Hl) as [id' [H1 [H2 H3]]]. exists id'. split; [apply in_pm_del; split; assumption|].
    split; [rewrite call_of_snoc_ret; exact H2|exact H3].
Qed.

(** the operation [id] of another process [p] was linearized *)
Lemma pa_frame_lin : forall c val ep main pm next sigma outs st eff late q p id o,
  HI main pm next sigma outs st -> q <> p -> In (p, id) pm ->
  pa c val ep main pm sigma outs eff late q ->
  pa c val ep main pm (sigma ++ [id]) (oupd outs id o) eff late q.
Proof.
  intros c val ep main pm next sigma outs st eff late q p id o HI Hq Hin H.
  assert (Hne : forall id', In (q, id') pm -> id' <> id).
  { intros id' Hin' E. subst id'. apply Hq. exact (vals_inj pm q p id (hi_c4' _ _ _ _ _ _ HI) Hin' Hin). }
  assert (Hns : forall id', In (q, id') pm -> ~ In id' sigma -> ~ In id' (sigma ++ [id])).
  { intros id' Hin' Hn Hx. apply in_app_or in Hx. destruct Hx as [Hx|[E|[]]]; [exact (Hn Hx)|].
    exact (Hne id' Hin' (eq_sym E)). }
  destruct ep as [|o'|]; cbn [pa] in *.
  - exact H.
  - destruct H as [id' [H1 [H2 [H3 [H4 [H5 [H6 H7]]]]]]]. exists id'.
    split; [exact H1|]. split; [exact H2|]. split; [exact H3|]. split; [|split; [|split]].
    + intros x Hx. destruct (H4 x Hx) as [A B]. split; [apply in_or_app; left; exact A|].
      unfold oupd. destruct (N.eqb_spec id' id) as [E|E]; [exfalso; exact (Hne id' H1 E)|exact B].
    + intros He. exact (Hns id' H1 (H5 He)).
    + exact H6.
    + exact H7.
  - intros v Hl. destruct (H v Hl) as [id' [H1 [H2 [H3 H4]]]]. exists id'.
    split; [exact H1|]. split; [exact H2|]. split; [exact (Hns id' H1 H3)|exact H4].
Qed.

Record AInv (a : astate) (m : mon) (em : emon) (sigma : list N) (outs : N -> output) : Prop := mkAInv {
  ai_inv : Inv (a_s a) m em;
  ai_hi : HI (rev (ps_rev (hstate (events (a_s a))))) (ps_map (hstate (events (a_s a))))
             (ps_next (hstate (events (a_s a)))) sigma outs (toZ (a_reg a));
  ai_pa : forall p, pa (pc (procs (a_s a) p)) (value (a_s a)) (em_of em p)
             (rev (ps_rev (hstate (events (a_s a))))) (ps_map (hstate (events (a_s a))))
             sigma outs (a_eff a p) (a_late a p) p
}.

Lemma ainv_init : forall n, AInv (ainit n) mon_init emon_init [] (fun _ => out_unknown).
Proof.
  intros n. constructor.
  - apply inv_init.
  - exact hi_init.
  - intros p. cbn. split; [tauto|split; reflexivity].
Qed.

(** ** facts read off the recorder's invariant *)

Lemma pinv_facts : forall s m em p, Inv s m em ->
  match pc (procs s p) with
  | CSpawned o | CInRpc o | CStopSet o | CReturned o _ => em_of em p = EPending o
  | CRecorded => em_of em p = EReady \/ em_of em p = EDead
  | CNone => True
  end.
Proof.
  intros s m em p HI. pose proof (inv_procs _ _ _ HI p) as Hp.
  destruct (pc (procs s p)) eqn:Hpc; try exact I;
    (assert (Hne : pc (procs s p) <> CNone) by (rewrite Hpc; discriminate));
    rewrite (sched_for_pc s m em p HI Hne) in Hp; cbn [pinv] in Hp; rewrite Hpc in Hp.
  - tauto.
  - tauto.
  - tauto.
  - tauto.
  - destruct Hp as [_ [[_ [_ H]]|[_ [_ H]]]]; [left|right]; exact H.
Qed.

Lemma sched_picked : forall s m em p o, Inv s m em -> sched s = SPicked p o ->
  pc (procs s p) = CNone /\ em_of em p = EReady /\ op_lt o (value s).
Proof.
  intros s m em p o HI Hsc. pose proof (inv_procs _ _ _ HI p) as Hp. rewrite Hsc in Hp.
  cbn [sched_for] in Hp. rewrite N.eqb_refl in Hp. cbn [pinv] in Hp.
  destruct Hp as [H1 [_ [_ [_ [H2 H3]]]]]. split; [exact H1|]. split; [exact H2|].
  destruct o; cbn [op_lt]; [exact I|tauto].
Qed.

Lemma inv_em_same : forall s m em s' m' em', Inv s m em -> Inv s' m' em' -> revents s' = revents s -> em' = em.
Proof.
  intros s m em s' m' em' H H' E. pose proof (inv_emon _ _ _ H) as A. pose proof (inv_emon _ _ _ H') as B.
  rewrite E in B. congruence.
Qed.

Lemma inv_em_step : forall s m em s' m' em' e, Inv s m em -> Inv s' m' em' -> revents s' = e :: revents s ->
  emon_step em e = Some em'.
Proof.
  intros s m em s' m' em' e H H' E. pose proof (inv_emon _ _ _ H) as A. pose proof (inv_emon _ _ _ H') as B.
  rewrite E in B. cbn [rev] in B. rewrite emon_run_snoc, A in B. exact B.
Qed.

(** ** steps that touch neither the history nor the service *)

Definition silent (l : label) : Prop :=
  match l with LPick _ _ | LSetBusy | LSpawn | LRpcStart _ | LSetStopped _ | LSetIdle _ => True | _ => False end.

Lemma pc_upd : forall s p x q, pc (upd (procs s) p x q) = if q =? p then pc x else pc (procs s q).
Proof. intros s p x q. unfold upd. destruct (q =? p); reflexivity. Qed.

Lemma silent_shape : forall s l s', Recorder.step s l = Some s' -> silent l ->
  revents s' = revents s /\ value s <= value s' /\
  forall q, pc_rel (pc (procs s q)) (pc (procs s' q)) \/ pc (procs s q) = CRecorded.
Proof.
  intros s l s' Hs Hl. destruct l as [p w| | | |p|p r|p|p|p]; try contradiction; cbn [Recorder.step] in Hs.
  - destruct (sched s); try discriminate Hs. destruct (_ && _); [|discriminate Hs].
    destruct w; injection Hs as Hs; subst s'; cbn; (split; [reflexivity|]); (split; [lia|]); intros q; left; apply pc_rel_refl.
  - destruct (sched s) as [|p o|p o|p o]; try discriminate Hs. injection Hs as Hs; subst s'. cbn.
    split; [reflexivity|]. split; [lia|]. intros q. left. rewrite pc_upd. cbn [pc].
    destruct (N.eqb_spec q p) as [->|_]; apply pc_rel_refl.
  - destruct (sched s) as [|p o|p o|p o]; try discriminate Hs.
    destruct (pc (procs s p)) eqn:Hpc; try discriminate Hs. injection Hs as Hs; subst s'. cbn.
    split; [reflexivity|]. split; [lia|]. intros q. left. rewrite pc_upd. cbn [pc].
    destruct (N.eqb_spec q p) as [->|_]; [|apply pc_rel_refl]. rewrite Hpc.
    split; [reflexivity|]. split; [intros o' [H|H]; discriminate H|intros o' v H; discriminate H].
  - destruct (pc (procs s p)) eqn:Hpc; try discriminate Hs. injection Hs as Hs; subst s'. cbn.
    split; [reflexivity|]. split; [lia|]. intros q. left. rewrite pc_upd. cbn [pc].
    destruct (N.eqb_spec q p) as [->|_]; [|apply pc_rel_refl]. rewrite Hpc.
    split; [reflexivity|]. split; [intros o' [H|H]; discriminate H|intros o' v H; discriminate H].
  - destruct (pc (procs s p)) as [|o|o|o r|o|] eqn:Hpc; try discriminate Hs. destruct r; [discriminate Hs|].
    injection Hs as Hs; subst s'. cbn.
    split; [reflexivity|]. split; [lia|]. intros q. left. rewrite pc_upd. cbn [pc].
    destruct (N.eqb_spec q p) as [->|_]; [|apply pc_rel_refl]. rewrite Hpc.
    split; [intros H; discriminate H|]. split; [|intros o' v H; discriminate H].
    intros o' [H|H]; [injection H as H; subst o'; right; reflexivity|discriminate H].
  - destruct (pc (procs s p)) eqn:Hpc; try discriminate Hs. injection Hs as Hs; subst s'. cbn.
    split; [reflexivity|]. split; [lia|]. intros q. rewrite pc_upd. cbn [pc].
    destruct (N.eqb_spec q p) as [->|_]; [right; exact Hpc|left; apply pc_rel_refl].
Qed.

Lemma astep_silent : forall a l a', astep a (AL l) = Some a' -> silent l ->
  exists s', Recorder.step (a_s a) l = Some s' /\ a' = mkA s' (a_reg a) (a_eff a) (a_late a).
Proof.
  intros a l a' Ha Hl. cbn [astep] in Ha. destruct (Recorder.step (a_s a) l) as [s'|]; [|discriminate Ha].
  exists s'. split; [reflexivity|].
  destruct l; try contradiction; injection Ha as Ha; symmetry; exact Ha.
Qed.

Lemma ainv_silent : forall a m em sigma outs l a', AInv a m em sigma outs -> astep a (AL l) = Some a' -> silent l ->
  exists m', AInv a' m' em sigma outs.
Proof.
  intros a m em sigma outs l a' HA Ha Hl. destruct HA as [HI HH HP].
  destruct (astep_silent _ _ _ Ha Hl) as [s' [Hs E]]. subst a'.
  destruct (step_inv _ _ _ _ _ HI Hs) as [m' [em' HI']].
  destruct (silent_shape _ _ _ Hs Hl) as [Hev [Hval Hpc]].
  assert (Eem : em' = em) by exact (inv_em_same _ _ _ _ _ _ HI HI' Hev). subst em'.
  assert (Eev : events s' = events (a_s a)) by (unfold events; rewrite Hev; reflexivity).
  exists m'. constructor; cbn [a_s a_reg a_eff a_late]; rewrite ?Eev.
  - exact HI'.
  - exact HH.
  - intros p. apply (pa_pc (pc (procs (a_s a) p)) _ (value (a_s a))); [exact (HP p)| |exact Hval].
    destruct (Hpc p) as [H|H]; [left; exact H|right].
    pose proof (pinv_facts _ _ _ p HI) as Hf. rewrite H in Hf. intros o E. destruct Hf as [Hf|Hf]; congruence.
Qed.

(** ** an invocation is recorded *)

Lemma sched_recorded : forall s m em p o, Inv s m em -> sched s = SRecorded p o -> em_of em p = EPending o.
Proof.
  intros s m em p o HI Hsc. pose proof (inv_procs _ _ _ HI p) as Hp. rewrite Hsc in Hp.
  cbn [sched_for] in Hp. rewrite N.eqb_refl in Hp. cbn [pinv] in Hp. tauto.
Qed.

Lemma pstep_invoke : forall H p o, pstep H (event_kind (invoke_event p o)) = p_call H p (input_of o).
Proof. intros H p o. destruct o; reflexivity. Qed.

Lemma ainv_recinvoke : forall a m em sigma outs a', AInv a m em sigma outs -> astep a (AL LRecInvoke) = Some a' ->
  exists m' em', AInv a' m' em' sigma outs.
Proof.
  intros a m em sigma outs a' HA Ha. destruct HA as [HI HH HP].
  cbn [astep] in Ha. destruct (Recorder.step (a_s a) LRecInvoke) as [s'|] eqn:Hs; [|discriminate Ha].
  injection Ha as Ha; subst a'.
  destruct (step_inv _ _ _ _ _ HI Hs) as [m' [em' HI']]. exists m', em'.
  cbn [Recorder.step] in Hs. destruct (sched (a_s a)) as [|p o|p o|p o] eqn:Hsc; try discriminate Hs.
  injection Hs as Hs.
  destruct (sched_picked _ _ _ _ _ HI Hsc) as [Hpc [Hready Hlt]].
  assert (Hrev : revents s' = invoke_event p o :: revents (a_s a)) by (subst s'; reflexivity).
  assert (Hsc' : sched s' = SRecorded p o) by (subst s'; reflexivity).
  assert (Hprocs : procs s' = procs (a_s a)) by (subst s'; reflexivity).
  assert (Hvalue : value s' = value (a_s a)) by (subst s'; reflexivity).
  pose proof (inv_em_step _ _ _ _ _ _ _ HI HI' Hrev) as Hstep.
  destruct (emon_step_cases _ _ _ Hstep) as [Hoth _].
  assert (Eid : e_id (invoke_event p o) = p) by (destruct o; reflexivity). rewrite Eid in Hoth.
  pose proof (sched_recorded _ _ _ _ _ HI' Hsc') as Hpend.
  pose proof (HP p) as Hp. rewrite Hready in Hp. cbn [pa] in Hp. destruct Hp as [Hnk [Heff Hlate]].
  set (H := hstate (events (a_s a))) in *.
  assert (EH : hstate (events s') =
               mkPS (Call (ps_next H) (input_of o) :: ps_rev H) (ps_next H + 1) ((p, ps_next H) :: ps_map H)).
  { unfold events. rewrite Hrev. cbn [rev]. rewrite hstate_snoc, pstep_invoke. unfold p_call, pm_set.
    fold (events (a_s a)). fold H. rewrite (pm_del_notin _ _ Hnk). reflexivity. }
  constructor; cbn [a_s a_reg a_eff a_late]; rewrite ?EH; cbn [ps_rev ps_next ps_map rev].
  - exact HI'.
  - apply hi_call; assumption.
  - intros q. rewrite Hprocs, Hvalue. destruct (N.eq_dec q p) as [->|Hq].
    + rewrite Hpend. cbn [pa]. exists (ps_next H).
      assert (Hnn : ~ In (ps_next H) (call_ids (rev (ps_rev H)))).
      { intro Hin. apply (hi_c2 _ _ _ _ _ _ HH) in Hin. lia. }
      split; [left; reflexivity|]. split.
      { rewrite call_of_app. destruct (call_of (rev (ps_rev H)) (ps_next H)) as [x|] eqn:Hx.
        - exfalso. apply Hnn. apply call_of_In. exists x. exact Hx.
        - cbn [call_of]. rewrite N.eqb_refl. reflexivity. }
      split; [exact Hlt|]. split; [intros x Hx; congruence|]. split.
      { intros _ Hin. apply Hnn. exact (hi_l1' _ _ _ _ _ _ HH _ Hin). }
      split; [intros v Hv; congruence|]. intros o' v Hc. rewrite Hpc in Hc. discriminate Hc.
    + rewrite (Hoth q Hq). apply (pa_frame_call _ _ _ _ _ _ _ _ (toZ (a_reg a))); [exact HH|exact Hq|exact (HP q)].
Qed.

(** ** an operation takes effect at the register *)

Lemma oupd_same : forall {A} (f : N -> A) p x, oupd f p x p = x.
Proof. intros A f p x. unfold oupd. rewrite N.eqb_refl. reflexivity. Qed.
Lemma oupd_other : forall {A} (f : N -> A) p x q, q <> p -> oupd f p x q = f q.
Proof. intros A f p x q H. unfold oupd. apply N.eqb_neq in H. rewrite H. reflexivity. Qed.

Lemma ainv_lin : forall a m em sigma outs p id i o reg' eff' late',
  AInv a m em sigma outs ->
  In (p, id) (ps_map (hstate (events (a_s a)))) -> ~ In id sigma ->
  call_of (rev (ps_rev (hstate (events (a_s a))))) id = Some i ->
  fst (Register.step (toZ (a_reg a)) i o) = true -> snd (Register.step (toZ (a_reg a)) i o) = toZ reg' ->
  (forall q, q <> p -> eff' q = a_eff a q /\ late' q = a_late a q) ->
  pa (pc (procs (a_s a) p)) (value (a_s a)) (em_of em p)
     (rev (ps_rev (hstate (events (a_s a))))) (ps_map (hstate (events (a_s a))))
     (sigma ++ [id]) (oupd outs id o) (eff' p) (late' p) p ->
  AInv (mkA (a_s a) reg' eff' late') m em (sigma ++ [id]) (oupd outs id o).
Proof.
  intros a m em sigma outs p id i o reg' eff' late' HA Hin Hns Hc Hok Hst Hoth Hp.
  destruct HA as [HI HH HP]. constructor; cbn [a_s a_reg a_eff a_late].
  - exact HI.
  - exact (hi_lin _ _ _ _ _ _ _ _ _ _ HH Hns Hc Hok Hst).
  - intros q. destruct (N.eq_dec q p) as [->|Hq]; [exact Hp|].
    destruct (Hoth q Hq) as [E1 E2]. rewrite E1, E2.
    exact (pa_frame_lin _ _ _ _ _ _ _ _ _ _ _ _ _ _ _ HH Hq Hin (HP q)).
Qed.

Lemma read_step_ok : forall r, fst (Register.step (toZ r) Read (out_read (ev_value r))) = true.
Proof.
  intros r. unfold toZ, ev_value. destruct (r =? nilv); cbn [Register.step out_read o_exists o_value o_unknown fst negb andb orb].
  - reflexivity.
  - rewrite Z.eqb_refl. reflexivity.
Qed.

Lemma toZ_written : forall v b, v < b -> b <= nilv -> Z.of_N v = toZ v.
Proof. intros v b H1 H2. unfold toZ. replace (v =? nilv) with false by lia. reflexivity. Qed.

Lemma ainv_effect : forall a m em sigma outs p a', AInv a m em sigma outs -> value (a_s a) <= nilv ->
  astep a (AEffect p) = Some a' -> exists sigma' outs', AInv a' m em sigma' outs'.
Proof.
  intros a m em sigma outs p a' HA Hb Ha. pose proof HA as [HI HH HP].
  cbn [astep] in Ha. destruct (pc (procs (a_s a) p)) as [|o|o|o r|o|] eqn:Hpc; try discriminate Ha.
  pose proof (pinv_facts _ _ _ p HI) as Hem. rewrite Hpc in Hem.
  pose proof (HP p) as Hp. rewrite Hem, Hpc in Hp. cbn [pa] in Hp.
  destruct Hp as [id [H1 [H2 [H3 [H4 [H5 [H6 H7]]]]]]].
  destruct (a_eff a p) as [x|] eqn:Heff; [destruct o; discriminate Ha|].
  assert (Hlate : a_late a p = None).
  { destruct (a_late a p) as [v|]; [|reflexivity]. destruct (H6 v eq_refl) as [_ [_ [C|C]]]; discriminate C. }
  specialize (H5 eq_refl).
  destruct o as [|v]; injection Ha as Ha; subst a'.
  - exists (sigma ++ [id]), (oupd outs id (out_read (ev_value (a_reg a)))).
    apply (ainv_lin a m em sigma outs p id Read); try assumption.
    + apply read_step_ok.
    + reflexivity.
    + intros q Hq. split; [apply oupd_other; exact Hq|reflexivity].
    + rewrite Hem, Hpc, oupd_same, Hlate. cbn [pa]. exists id.
      split; [exact H1|]. split; [exact H2|]. split; [exact H3|]. split.
      { intros x Hx. injection Hx as Hx. subst x. split; [apply in_or_app; right; left; reflexivity|apply oupd_same]. }
      split; [intros C; discriminate C|]. split; [intros v C; discriminate C|intros o' v C; discriminate C].
  - exists (sigma ++ [id]), (oupd outs id out_plain). cbn [op_lt] in H3.
    apply (ainv_lin a m em sigma outs p id (Write (Z.of_N v))); try assumption.
    + reflexivity.
    + cbn [Register.step snd]. exact (toZ_written v _ H3 Hb).
    + intros q Hq. split; [apply oupd_other; exact Hq|reflexivity].
    + rewrite Hem, Hpc, oupd_same, Hlate. cbn [pa]. exists id.
      split; [exact H1|]. split; [exact H2|]. split; [exact H3|]. split.
      { intros x Hx. split; [apply in_or_app; right; left; reflexivity|apply oupd_same]. }
      split; [intros C; discriminate C|]. split; [intros v' C; discriminate C|intros o' v' C; discriminate C].
Qed.

Lemma ainv_late : forall a m em sigma outs p a', AInv a m em sigma outs -> value (a_s a) <= nilv ->
  astep a (ALate p) = Some a' -> exists sigma' outs', AInv a' m em sigma' outs'.
Proof.
  intros a m em sigma outs p a' HA Hb Ha. pose proof HA as [HI HH HP].
  cbn [astep] in Ha. destruct (a_late a p) as [v|] eqn:Hlate; [|discriminate Ha].
  destruct (a_eff a p) as [x|] eqn:Heff; [discriminate Ha|]. injection Ha as Ha; subst a'.
  pose proof (HP p) as Hp. rewrite Hlate, Heff in Hp.
  assert (Hid : exists id, In (p, id) (ps_map (hstate (events (a_s a)))) /\
                  call_of (rev (ps_rev (hstate (events (a_s a))))) id = Some (Write (Z.of_N v)) /\
                  ~ In id sigma /\ v < value (a_s a)).
  { destruct (em_of em p) as [|o|]; cbn [pa] in Hp.
    - destruct Hp as [_ [_ C]]. discriminate C.
    - destruct Hp as [id [H1 [H2 [H3 [H4 [H5 [H6 H7]]]]]]]. destruct (H6 v eq_refl) as [Eo _]. subst o.
      exists id. split; [exact H1|]. split; [exact H2|]. split; [exact (H5 eq_refl)|exact H3].
    - exact (Hp v eq_refl). }
  destruct Hid as [id [H1 [H2 [H3 H4]]]].
  exists (sigma ++ [id]), (oupd outs id out_plain).
  apply (ainv_lin a m em sigma outs p id (Write (Z.of_N v))); try assumption.
  - reflexivity.
  - cbn [Register.step snd]. exact (toZ_written v _ H4 Hb).
  - intros q Hq. split; apply oupd_other; exact Hq.
  - rewrite !oupd_same. destruct (em_of em p) as [|o|]; cbn [pa] in *.
    + destruct Hp as [_ [_ C]]. discriminate C.
    + destruct Hp as [id' [G1 [G2 [G3 [G4 [G5 [G6 G7]]]]]]]. destruct (G6 v eq_refl) as [Eo [_ Hc]]. subst o.
      assert (Eid : id' = id) by exact (keys_fun _ _ _ _ (hi_c4 _ _ _ _ _ _ HH) G1 H1). subst id'.
      exists id. split; [exact G1|]. split; [exact G2|]. split; [exact G3|]. split.
      { intros x Hx. split; [apply in_or_app; right; left; reflexivity|apply oupd_same]. }
      split; [intros C; discriminate C|]. split; [intros v' C; discriminate C|].
      intros o' v' C. destruct Hc as [Hc|Hc]; rewrite Hc in C; discriminate C.
    + intros v' C. discriminate C.
Qed.

(** ** an rpc returns *)

Lemma ainv_rpcreturn : forall a m em sigma outs p r a', AInv a m em sigma outs ->
  astep a (AL (LRpcReturn p r)) = Some a' -> exists m', AInv a' m' em sigma outs.
Proof.
  intros a m em sigma outs p r a' HA Ha. pose proof HA as [HI HH HP].
  cbn [astep] in Ha. destruct (Recorder.step (a_s a) (LRpcReturn p r)) as [s'|] eqn:Hs; [|discriminate Ha].
  destruct (step_inv _ _ _ _ _ HI Hs) as [m' [em' HI']].
  cbn [Recorder.step] in Hs. destruct (pc (procs (a_s a) p)) as [|o|o|o r0|o|] eqn:Hpc; try discriminate Hs.
  injection Hs as Hs.
  assert (Hrev : revents s' = revents (a_s a)) by (subst s'; reflexivity).
  assert (Hvalue : value s' = value (a_s a)) by (subst s'; reflexivity).
  assert (Hpcs : forall q, pc (procs s' q) = if q =? p then CReturned o r else pc (procs (a_s a) q)).
  { intros q. subst s'. cbn [observe set_procs procs]. rewrite pc_upd. reflexivity. }
  assert (Eem : em' = em) by exact (inv_em_same _ _ _ _ _ _ HI HI' Hrev). subst em'.
  assert (Eev : events s' = events (a_s a)) by (unfold events; rewrite Hrev; reflexivity).
  pose proof (pinv_facts _ _ _ p HI) as Hem. rewrite Hpc in Hem.
  pose proof (HP p) as Hp. rewrite Hem, Hpc in Hp. cbn [pa] in Hp.
  destruct Hp as [id [H1 [H2 [H3 [H4 [H5 [H6 H7]]]]]]].
  assert (Hlate : a_late a p = None).
  { destruct (a_late a p) as [v|]; [|reflexivity]. destruct (H6 v eq_refl) as [_ [_ [C|C]]]; discriminate C. }
  exists m'.
  (* everything but the slot of p *)
  assert (Hgen : forall late', (forall q, q <> p -> late' q = a_late a q) ->
            pa (CReturned o r) (value (a_s a)) (EPending o) (rev (ps_rev (hstate (events (a_s a)))))
               (ps_map (hstate (events (a_s a)))) sigma outs (a_eff a p) (late' p) p ->
            AInv (mkA s' (a_reg a) (a_eff a) late') m' em sigma outs).
  { intros late' Hl Hp'. constructor; cbn [a_s a_reg a_eff a_late]; rewrite ?Eev, ?Hvalue.
    - exact HI'.
    - exact HH.
    - intros q. rewrite Hpcs. destruct (N.eqb_spec q p) as [->|Hq].
      + rewrite Hem. exact Hp'.
      + rewrite (Hl q Hq). exact (HP q). }
  destruct r as [v|].
  - (* ok *)
    destruct o as [|w]; destruct (a_eff a p) as [x|] eqn:Heff; try discriminate Ha.
    + destruct (N.eqb_spec v x) as [E|E]; [|discriminate Ha]. subst x. injection Ha as Ha; subst a'.
      apply (Hgen (a_late a)); [reflexivity|]. rewrite Hlate. cbn [pa]. exists id.
      split; [exact H1|]. split; [exact H2|]. split; [exact H3|]. split; [exact H4|]. split; [exact H5|].
      split; [intros v' C; discriminate C|]. intros o' v' C. injection C as C1 C2. subst o' v'. reflexivity.
    + injection Ha as Ha; subst a'.
      apply (Hgen (a_late a)); [reflexivity|]. rewrite Hlate. cbn [pa]. exists id.
      split; [exact H1|]. split; [exact H2|]. split; [exact H3|]. split; [exact H4|]. split; [exact H5|].
      split; [intros v' C; discriminate C|]. intros o' v' C. injection C as C1 C2. subst o' v'. discriminate.
  - (* error *)
    assert (Hdflt : AInv (mkA s' (a_reg a) (a_eff a) (a_late a)) m' em sigma outs).
    { apply (Hgen (a_late a)); [reflexivity|]. rewrite Hlate. cbn [pa]. exists id.
      split; [exact H1|]. split; [exact H2|]. split; [exact H3|]. split; [exact H4|]. split; [exact H5|].
      split; [intros v' C; discriminate C|intros o' v' C; discriminate C]. }
    destruct o as [|w]; [injection Ha as Ha; subst a'; exact Hdflt|].
    destruct (a_eff a p) as [x|] eqn:Heff; injection Ha as Ha; subst a'; [exact Hdflt|].
    apply (Hgen (oupd (a_late a) p (Some w))); [intros q Hq; apply oupd_other; exact Hq|].
    rewrite oupd_same. cbn [pa]. exists id.
    split; [exact H1|]. split; [exact H2|]. split; [exact H3|]. split; [exact H4|]. split; [exact H5|].
    split; [|intros o' v' C; discriminate C].
    intros v' C. injection C as C. subst v'. split; [reflexivity|]. split; [reflexivity|left; reflexivity].
Qed.

(** ** a completion or a failure is recorded *)

Lemma ainv_ret_gen : forall a em sigma' outs' s' m' em' p id out,
  Inv s' m' em' ->
  HI (rev (ps_rev (hstate (events (a_s a))))) (ps_map (hstate (events (a_s a))))
     (ps_next (hstate (events (a_s a)))) sigma' outs' (toZ (a_reg a)) ->
  In (p, id) (ps_map (hstate (events (a_s a)))) -> In id sigma' -> (out = outs' id \/ o_unknown out = true) ->
  hstate (events s') = mkPS (Ret id out :: ps_rev (hstate (events (a_s a)))) (ps_next (hstate (events (a_s a))))
                            (pm_del (ps_map (hstate (events (a_s a)))) p) ->
  value s' = value (a_s a) ->
  (forall q, q <> p -> pc (procs s' q) = pc (procs (a_s a) q) /\ em_of em' q = em_of em q) ->
  (forall q, q <> p -> pa (pc (procs (a_s a) q)) (value (a_s a)) (em_of em q)
                          (rev (ps_rev (hstate (events (a_s a))))) (ps_map (hstate (events (a_s a))))
                          sigma' outs' (a_eff a q) (a_late a q) q) ->
  (em_of em' p = EReady \/ em_of em' p = EDead) -> a_late a p = None ->
  AInv (mkA s' (a_reg a) (oupd (a_eff a) p None) (a_late a)) m' em' sigma' outs'.
Proof.
  intros a em sigma' outs' s' m' em' p id out HI' HH Hin Hsig Hout EH Hvalue Hoth HPq Hem' Hlate.
  constructor; cbn [a_s a_reg a_eff a_late]; rewrite ?EH; cbn [ps_rev ps_next ps_map rev].
  - exact HI'.
  - exact (hi_ret _ _ _ _ _ _ _ _ _ HH Hin Hsig Hout).
  - intros q. rewrite Hvalue. destruct (N.eq_dec q p) as [->|Hq].
    + rewrite oupd_same, Hlate. destruct Hem' as [E|E]; rewrite E; cbn [pa].
      * split; [|split; reflexivity]. intro Hk. apply in_map_iff in Hk. destruct Hk as [[k v] [E' Hk]].
        cbn [fst] in E'. subst k. apply in_pm_del in Hk. destruct Hk as [_ Hk]. apply Hk. reflexivity.
      * intros v C. discriminate C.
    + destruct (Hoth q Hq) as [E1 E2]. rewrite E1, E2, (oupd_other _ _ _ _ Hq).
      apply pa_frame_ret; [exact Hq|exact (HPq q Hq)].
Qed.

Lemma ainv_recdone : forall a m em sigma outs p a', AInv a m em sigma outs ->
  astep a (AL (LRecDone p)) = Some a' -> exists m' em' sigma' outs', AInv a' m' em' sigma' outs'.
Proof.
  intros a m em sigma outs p a' HA Ha. pose proof HA as [HI HH HP].
  cbn [astep] in Ha. destruct (Recorder.step (a_s a) (LRecDone p)) as [s'|] eqn:Hs; [|discriminate Ha].
  injection Ha as Ha; subst a'.
  destruct (step_inv _ _ _ _ _ HI Hs) as [m' [em' HI']]. exists m', em'.
  cbn [Recorder.step] in Hs.
  assert (Hshape : exists o r, (pc (procs (a_s a) p) = CReturned o r /\ (r = RErr -> False) \/
                                pc (procs (a_s a) p) = CStopSet o /\ r = RErr) /\
            s' = record (set_procs (a_s a) (upd (procs (a_s a)) p
                           (mkProc (idle (procs (a_s a) p)) (stopped (procs (a_s a) p)) CRecorded))) (done_event p o r)).
  { destruct (pc (procs (a_s a) p)) as [|o|o|o r|o|] eqn:Hpc; try discriminate Hs.
    - destruct r as [v|]; [|discriminate Hs]. injection Hs as Hs. exists o, (ROk v). split; [left; split; [reflexivity|discriminate]|symmetry; exact Hs].
    - injection Hs as Hs. exists o, RErr. split; [right; split; reflexivity|symmetry; exact Hs]. }
  clear Hs. destruct Hshape as [o [r [Hpc Es']]].
  assert (Hrev : revents s' = done_event p o r :: revents (a_s a)) by (subst s'; reflexivity).
  assert (Hvalue : value s' = value (a_s a)) by (subst s'; reflexivity).
  assert (Hpcs : forall q, q <> p -> pc (procs s' q) = pc (procs (a_s a) q)).
  { intros q Hq. subst s'. cbn [record set_procs procs]. rewrite pc_upd. apply N.eqb_neq in Hq. rewrite Hq. reflexivity. }
  pose proof (inv_em_step _ _ _ _ _ _ _ HI HI' Hrev) as Hstep.
  destruct (emon_step_cases _ _ _ Hstep) as [Hoth [_ Hres]].
  assert (Eid : e_id (done_event p o r) = p) by (destruct o, r; reflexivity). rewrite Eid in Hoth, Hres.
  assert (Hoth' : forall q, q <> p -> pc (procs s' q) = pc (procs (a_s a) q) /\ em_of em' q = em_of em q).
  { intros q Hq. split; [exact (Hpcs q Hq)|exact (Hoth q Hq)]. }
  assert (Hem : em_of em p = EPending o).
  { pose proof (pinv_facts _ _ _ p HI) as Hf. destruct Hpc as [[Hpc _]|[Hpc _]]; rewrite Hpc in Hf; exact Hf. }
  pose proof (HP p) as Hp. rewrite Hem in Hp. cbn [pa] in Hp.
  destruct Hp as [id [H1 [H2 [H3 [H4 [H5 [H6 H7]]]]]]].
  set (H := hstate (events (a_s a))) in *.
  assert (Hget : pm_get (ps_map H) p = id) by exact (pm_get_in _ _ _ (hi_c4 _ _ _ _ _ _ HH) H1).
  assert (EH0 : hstate (events s') = pstep H (event_kind (done_event p o r))).
  { unfold events. rewrite Hrev. cbn [rev]. rewrite hstate_snoc. reflexivity. }
  assert (Hem' : em_of em' p = EReady \/ em_of em' p = EDead).
  { destruct r; destruct o; cbn [done_event e_res] in Hres; tauto. }
  destruct r as [v|].
  - (* completed *)
    destruct Hpc as [[Hpc _]|[_ C]]; [|discriminate C].
    assert (Hlate : a_late a p = None).
    { destruct (a_late a p) as [v'|]; [|reflexivity]. destruct (H6 v' eq_refl) as [_ [_ [C|C]]]; rewrite Hpc in C; discriminate C. }
    specialize (H7 o v Hpc). exists sigma, outs.
    destruct o as [|w].
    + destruct (H4 v H7) as [Hs Ho].
      apply (ainv_ret_gen a em sigma outs s' m' em' p id (out_read (ev_value v))); try assumption.
      * left. symmetry. exact Ho.
      * rewrite EH0. cbn [done_event event_kind e_type e_res e_id e_val pstep]. unfold p_ret. fold H. rewrite Hget. reflexivity.
      * intros q _. exact (HP q).
    + destruct (a_eff a p) as [x|] eqn:Heff; [|exfalso; apply H7; reflexivity].
      destruct (H4 x eq_refl) as [Hs Ho].
      apply (ainv_ret_gen a em sigma outs s' m' em' p id out_plain); try assumption.
      * left. symmetry. exact Ho.
      * rewrite EH0. cbn [done_event event_kind e_type e_res e_id e_val pstep]. unfold p_ret. fold H. rewrite Hget. reflexivity.
      * intros q _. exact (HP q).
  - (* failed *)
    destruct o as [|w].
    + (* read: closed with an unknown outcome; linearized now if it never took effect *)
      assert (Hlate : a_late a p = None).
      { destruct (a_late a p) as [v'|]; [|reflexivity]. destruct (H6 v' eq_refl) as [C _]. discriminate C. }
      assert (EH : hstate (events s') = mkPS (Ret id out_unknown :: ps_rev H) (ps_next H) (pm_del (ps_map H) p)).
      { rewrite EH0. cbn [done_event event_kind e_type e_res e_id e_val pstep]. unfold p_ret. fold H. rewrite Hget. reflexivity. }
      destruct (a_eff a p) as [x|] eqn:Heff.
      * destruct (H4 x eq_refl) as [Hs _]. exists sigma, outs.
        apply (ainv_ret_gen a em sigma outs s' m' em' p id out_unknown); try assumption.
        -- right. reflexivity.
        -- intros q _. exact (HP q).
      * specialize (H5 eq_refl). exists (sigma ++ [id]), (oupd outs id out_unknown).
        apply (ainv_ret_gen a em (sigma ++ [id]) (oupd outs id out_unknown) s' m' em' p id out_unknown); try assumption.
        -- apply (hi_lin _ _ _ _ _ _ id Read out_unknown (toZ (a_reg a)) HH H5 H2); [apply step_unknown; reflexivity|reflexivity].
        -- apply in_or_app. right. left. reflexivity.
        -- right. reflexivity.
        -- intros q Hq. exact (pa_frame_lin _ _ _ _ _ _ _ _ _ _ _ _ _ _ out_unknown HH Hq H1 (HP q)).
    + (* write: the line is not understood by the parser, the operation stays open *)
      exists sigma, outs.
      assert (EH : hstate (events s') = H).
      { rewrite EH0. reflexivity. }
      assert (Hdead : em_of em' p = EDead) by (cbn [done_event e_res] in Hres; tauto).
      constructor; cbn [a_s a_reg a_eff a_late]; rewrite ?EH, ?Hvalue.
      * exact HI'.
      * exact HH.
      * intros q. destruct (N.eq_dec q p) as [->|Hq].
        -- rewrite Hdead, oupd_same. cbn [pa]. intros v Hl. destruct (H6 v Hl) as [Eo [Heff _]].
           injection Eo as Eo. subst w. exists id. split; [exact H1|]. split; [exact H2|]. split; [exact (H5 Heff)|exact H3].
        -- destruct (Hoth' q Hq) as [E1 E2]. rewrite E1, E2, (oupd_other _ _ _ _ Hq). exact (HP q).
Qed.

(** * Every run *)

Lemma step_value_mono : forall s l s', Recorder.step s l = Some s' -> value s <= value s'.
Proof.
  intros s l s' Hs. destruct l as [p w| | | |p|p r|p|p|p]; cbn [Recorder.step] in Hs.
  - destruct (sched s); try discriminate Hs. destruct (_ && _); [|discriminate Hs].
    destruct w; injection Hs as Hs; subst s'; cbn; lia.
  - destruct (sched s); try discriminate Hs. injection Hs as Hs; subst s'; cbn; lia.
  - destruct (sched s); try discriminate Hs. injection Hs as Hs; subst s'; cbn; lia.
  - destruct (sched s) as [|p o|p o|p o]; try discriminate Hs. destruct (pc (procs s p)); try discriminate Hs.
    injection Hs as Hs; subst s'; cbn; lia.
  - destruct (pc (procs s p)); try discriminate Hs. injection Hs as Hs; subst s'; cbn; lia.
  - destruct (pc (procs s p)); try discriminate Hs. injection Hs as Hs; subst s'; cbn; lia.
  - destruct (pc (procs s p)) as [|o|o|o r|o|]; try discriminate Hs. destruct r; try discriminate Hs.
    injection Hs as Hs; subst s'; cbn; lia.
  - destruct (pc (procs s p)) as [|o|o|o r|o|]; try discriminate Hs; [destruct r; try discriminate Hs|];
      injection Hs as Hs; subst s'; cbn; lia.
  - destruct (pc (procs s p)); try discriminate Hs. injection Hs as Hs; subst s'; cbn; lia.
Qed.

(** the recorder component of a step of the composed system *)
Lemma astep_proj : forall a l a', astep a l = Some a' ->
  a_s a' = a_s a \/ exists l0, Recorder.step (a_s a) l0 = Some (a_s a').
Proof.
  intros a l a' Ha. destruct l as [l|p|p]; cbn [astep] in Ha.
  - right. exists l. destruct (Recorder.step (a_s a) l) as [s'|]; [|discriminate Ha].
    destruct l as [p w| | | |p|p r|p|p|p]; try (injection Ha as Ha; subst a'; reflexivity).
    destruct r as [v|].
    + destruct (pc (procs (a_s a) p)) as [|o|o|o r|o|]; try discriminate Ha.
      destruct o; destruct (a_eff a p); try discriminate Ha.
      * destruct (v =? n); [|discriminate Ha]. injection Ha as Ha; subst a'; reflexivity.
      * injection Ha as Ha; subst a'; reflexivity.
    + destruct (pc (procs (a_s a) p)) as [|o|o|o r|o|]; try (injection Ha as Ha; subst a'; reflexivity).
      destruct o; [injection Ha as Ha; subst a'; reflexivity|].
      destruct (a_eff a p); injection Ha as Ha; subst a'; reflexivity.
  - left. destruct (pc (procs (a_s a) p)) as [|o|o|o r|o|]; try discriminate Ha.
    destruct o; destruct (a_eff a p); try discriminate Ha; injection Ha as Ha; subst a'; reflexivity.
  - left. destruct (a_late a p); [|discriminate Ha]. destruct (a_eff a p); [discriminate Ha|].
    injection Ha as Ha; subst a'; reflexivity.
Qed.

Lemma astep_value_mono : forall a l a', astep a l = Some a' -> value (a_s a) <= value (a_s a').
Proof.
  intros a l a' Ha. destruct (astep_proj _ _ _ Ha) as [E|[l0 Hs]]; [rewrite E; lia|exact (step_value_mono _ _ _ Hs)].
Qed.

Lemma arun_value_mono : forall ls a a', arun a ls = Some a' -> value (a_s a) <= value (a_s a').
Proof.
  induction ls as [|l ls IH]; intros a a' H; cbn [arun] in H.
  - injection H as H; subst a'. lia.
  - destruct (astep a l) as [a1|] eqn:Ha; [|discriminate H].
    pose proof (astep_value_mono _ _ _ Ha). pose proof (IH _ _ H). lia.
Qed.

Lemma run_app : forall l1 l2 s, run s (l1 ++ l2) = match run s l1 with Some s1 => run s1 l2 | None => None end.
Proof.
  induction l1 as [|l l1 IH]; intros l2 s; cbn [app run]; [reflexivity|].
  destruct (Recorder.step s l); [apply IH|reflexivity].
Qed.

Lemma arun_proj : forall n ls a a', reachable n (a_s a) -> arun a ls = Some a' -> reachable n (a_s a').
Proof.
  intros n. induction ls as [|l ls IH]; intros a a' Hr H; cbn [arun] in H.
  - injection H as H; subst a'. exact Hr.
  - destruct (astep a l) as [a1|] eqn:Ha; [|discriminate H]. apply (IH a1 a'); [|exact H].
    destruct (astep_proj _ _ _ Ha) as [E|[l0 Hs]]; [rewrite E; exact Hr|].
    destruct Hr as [ls0 Hr]. exists (ls0 ++ [l0]). rewrite run_app, Hr. cbn [run]. rewrite Hs. reflexivity.
Qed.

(** the recorder part of a run against the atomic register is a run of the recorder *)
Theorem arun_reachable : forall n ls a, arun (ainit n) ls = Some a -> reachable n (a_s a).
Proof. intros n ls a H. apply (arun_proj n ls (ainit n) a); [exists []; reflexivity|exact H]. Qed.

Lemma astep_ainv : forall a m em sigma outs l a', AInv a m em sigma outs -> value (a_s a) <= nilv ->
  astep a l = Some a' -> exists m' em' sigma' outs', AInv a' m' em' sigma' outs'.
Proof.
  intros a m em sigma outs l a' HA Hb Ha. destruct l as [l|p|p].
  - destruct l as [p w| | | |p|p r|p|p|p].
    + destruct (ainv_silent _ _ _ _ _ _ _ HA Ha I) as [m' H]. exists m', em, sigma, outs. exact H.
    + destruct (ainv_recinvoke _ _ _ _ _ _ HA Ha) as [m' [em' H]]. exists m', em', sigma, outs. exact H.
    + destruct (ainv_silent _ _ _ _ _ _ _ HA Ha I) as [m' H]. exists m', em, sigma, outs. exact H.
    + destruct (ainv_silent _ _ _ _ _ _ _ HA Ha I) as [m' H]. exists m', em, sigma, outs. exact H.
    + destruct (ainv_silent _ _ _ _ _ _ _ HA Ha I) as [m' H]. exists m', em, sigma, outs. exact H.
    + destruct (ainv_rpcreturn _ _ _ _ _ _ _ _ HA Ha) as [m' H]. exists m', em, sigma, outs. exact H.
    + destruct (ainv_silent _ _ _ _ _ _ _ HA Ha I) as [m' H]. exists m', em, sigma, outs. exact H.
    + exact (ainv_recdone _ _ _ _ _ _ _ HA Ha).
    + destruct (ainv_silent _ _ _ _ _ _ _ HA Ha I) as [m' H]. exists m', em, sigma, outs. exact H.
  - destruct (ainv_effect _ _ _ _ _ _ _ HA Hb Ha) as [sigma' [outs' H]]. exists m, em, sigma', outs'. exact H.
  - destruct (ainv_late _ _ _ _ _ _ _ HA Hb Ha) as [sigma' [outs' H]]. exists m, em, sigma', outs'. exact H.
Qed.

Lemma arun_ainv : forall ls a m em sigma outs a', AInv a m em sigma outs -> arun a ls = Some a' ->
  value (a_s a') <= nilv -> exists m' em' sigma' outs', AInv a' m' em' sigma' outs'.
Proof.
  induction ls as [|l ls IH]; intros a m em sigma outs a' HA H Hb; cbn [arun] in H.
  - injection H as H; subst a'. exists m, em, sigma, outs. exact HA.
  - destruct (astep a l) as [a1|] eqn:Ha; [|discriminate H].
    assert (Hb0 : value (a_s a) <= nilv).
    { pose proof (astep_value_mono _ _ _ Ha). pose proof (arun_value_mono _ _ _ H). lia. }
    destruct (astep_ainv _ _ _ _ _ _ _ HA Hb0 Ha) as [m1 [em1 [sigma1 [outs1 HA1]]]].
    exact (IH _ _ _ _ _ _ HA1 H Hb).
Qed.

(** Every history the parser may return for the recorded events of a run against an atomic
    register is complete, linearizable, and accepted by the checker. *)
Theorem atomic_linearizable : forall n ls a, arun (ainit n) ls = Some a -> value (a_s a) <= nilv ->
  forall h, history_allowed (events (a_s a)) h -> wf h /\ linearizable h /\ check h = true.
Proof.
  intros n ls a Hr Hb h [tail [Hperm Eh]].
  destruct (arun_ainv ls _ _ _ _ _ _ (ainv_init n) Hr Hb) as [m [em [sigma [outs HA]]]].
  rewrite expected_open_hstate in Hperm. rewrite expected_main_hstate in Eh. subst h.
  destruct (hi_final _ _ _ _ _ _ tail (ai_hi _ _ _ _ _ HA) Hperm) as [Hwf Hlin].
  split; [exact Hwf|]. split; [exact Hlin|]. exact (check_complete _ Hwf Hlin).
Qed.

Theorem atomic_log_accepted : forall n ls a, arun (ainit n) ls = Some a -> value (a_s a) <= nilv ->
  Forall (fun e => printable e = true) (events (a_s a)) ->
  forall h, parse_allowed (format_log (events (a_s a))) h -> wf h /\ linearizable h /\ check h = true.
Proof.
  intros n ls a Hr Hb Hp h Hh. apply (atomic_linearizable n ls a Hr Hb).
  apply (roundtrip_allowed _ Hp). exact Hh.
Qed.

(** * Range of the recorded numbers: process ids below the number of processes, values below the
      write counter (or nil) — hence every line is printable when both fit Go's int *)

Definition vb (b x : N) : Prop := x = nilv \/ x < b.
Definition cpc_ok (b : N) (c : cpc) : Prop :=
  match c with
  | CNone | CRecorded => True
  | CSpawned o | CInRpc o | CStopSet o => op_lt o b
  | CReturned o r => op_lt o b /\ match o, r with OpRead, ROk v => vb b v | _, _ => True end
  end.
Definition ev_ok (n b : N) (e : Jepsen.event) : Prop :=
  e_id e < n /\
  match e_type e, e_res e with
  | TRead, RCompleted => vb b (e_val e)
  | TWrite, RInvoked | TWrite, RCompleted => e_val e < b
  | _, _ => True
  end.
Definition sched_ok (n b : N) (sc : spc) : Prop :=
  match sc with SIdle => True | SPicked p o | SRecorded p o | SBusy p o => p < n /\ op_lt o b end.

Record BInv (n : N) (a : astate) : Prop := mkBInv {
  b_n : nprocs (a_s a) = n;
  b_ev : Forall (ev_ok n (value (a_s a))) (revents (a_s a));
  b_reg : vb (value (a_s a)) (a_reg a);
  b_eff : forall p x, a_eff a p = Some x -> vb (value (a_s a)) x;
  b_late : forall p v, a_late a p = Some v -> v < value (a_s a);
  b_sched : sched_ok n (value (a_s a)) (sched (a_s a));
  b_pc : forall p, cpc_ok (value (a_s a)) (pc (procs (a_s a) p)) /\ (pc (procs (a_s a) p) <> CNone -> p < n)
}.

Lemma op_lt_mono : forall o b b', b <= b' -> op_lt o b -> op_lt o b'.
Proof. intros o b b' H. destruct o; cbn [op_lt]; [tauto|lia]. Qed.
Lemma vb_mono : forall b b' x, b <= b' -> vb b x -> vb b' x.
Proof. intros b b' x H [E|E]; [left; exact E|right; lia]. Qed.
Lemma cpc_ok_mono : forall b b' c, b <= b' -> cpc_ok b c -> cpc_ok b' c.
Proof.
  intros b b' c H. destruct c as [|o|o|o r|o|]; cbn [cpc_ok]; try tauto; try apply op_lt_mono; try exact H.
  intros [H1 H2]. split; [exact (op_lt_mono _ _ _ H H1)|]. destruct o; [|exact I]. destruct r; [exact (vb_mono _ _ _ H H2)|exact I].
Qed.
Lemma ev_ok_mono : forall n b b' e, b <= b' -> ev_ok n b e -> ev_ok n b' e.
Proof.
  intros n b b' e H [H1 H2]. split; [exact H1|]. destruct (e_type e), (e_res e); try exact I; try lia.
  exact (vb_mono _ _ _ H H2).
Qed.

Lemma binv_init : forall n, BInv n (ainit n).
Proof.
  intros n. constructor; cbn [ainit a_s a_reg a_eff a_late init nprocs revents value sched procs pc].
  - reflexivity.
  - constructor.
  - left. reflexivity.
  - intros p x H. discriminate H.
  - intros p v H. discriminate H.
  - exact I.
  - intros p. split; [exact I|intros H; exfalso; apply H; reflexivity].
Qed.

Lemma binv_step : forall n a l a', BInv n a -> astep a l = Some a' -> BInv n a'.
Proof.
  intros n a l a' HB Ha. destruct HB as [Bn Bev Breg Beff Blate Bsched Bpc].
  destruct l as [l|p|p]; cbn [astep] in Ha.
  - destruct (Recorder.step (a_s a) l) as [s'|] eqn:Hs; [|discriminate Ha].
    destruct l as [p w| | | |p|p r|p|p|p]; cbn [Recorder.step] in Hs.
    + (* pick *)
      injection Ha as Ha; subst a'.
      destruct (sched (a_s a)) eqn:Hsc; try discriminate Hs.
      destruct ((p <? nprocs (a_s a)) && idle (procs (a_s a) p) && negb (stopped (procs (a_s a) p))) eqn:Hc; [|discriminate Hs].
      assert (Hp : p < n) by lia.
      destruct w; injection Hs as Hs; subst s'; constructor; cbn [a_s a_reg a_eff a_late set_value set_sched nprocs revents value sched procs];
        try assumption.
      * eapply Forall_impl; [|exact Bev]. intros e He. apply (ev_ok_mono _ (value (a_s a))); [lia|exact He].
      * apply (vb_mono (value (a_s a))); [lia|exact Breg].
      * intros q x Hx. apply (vb_mono (value (a_s a))); [lia|exact (Beff q x Hx)].
      * intros q v Hv. pose proof (Blate q v Hv). lia.
      * cbn [sched_ok op_lt]. lia.
      * intros q. destruct (Bpc q) as [H1 H2]. split; [apply (cpc_ok_mono (value (a_s a))); [lia|exact H1]|exact H2].
      * cbn [sched_ok op_lt]. tauto.
    + (* record invoke *)
      injection Ha as Ha; subst a'.
      destruct (sched (a_s a)) as [|p o|p o|p o] eqn:Hsc; try discriminate Hs. injection Hs as Hs; subst s'.
      cbn [sched_ok] in Bsched. destruct Bsched as [Hp Ho].
      constructor; cbn [a_s a_reg a_eff a_late set_sched record nprocs revents value sched procs]; try assumption.
      * constructor; [|exact Bev]. destruct o; cbn [invoke_event]; split; cbn [e_id e_type e_res e_val]; try exact Hp; try exact I. exact Ho.
      * cbn [sched_ok]. tauto.
    + (* set busy *)
      injection Ha as Ha; subst a'.
      destruct (sched (a_s a)) as [|p o|p o|p o] eqn:Hsc; try discriminate Hs. injection Hs as Hs; subst s'.
      constructor; cbn [a_s a_reg a_eff a_late set_sched set_procs nprocs revents value sched procs]; try assumption.
      intros q. rewrite pc_upd. cbn [pc]. destruct (N.eqb_spec q p) as [->|_]; exact (Bpc _).
    + (* spawn *)
      injection Ha as Ha; subst a'.
      destruct (sched (a_s a)) as [|p o|p o|p o] eqn:Hsc; try discriminate Hs.
      destruct (pc (procs (a_s a) p)); try discriminate Hs. injection Hs as Hs; subst s'.
      cbn [sched_ok] in Bsched. destruct Bsched as [Hp Ho].
      constructor; cbn [a_s a_reg a_eff a_late set_sched set_procs nprocs revents value sched procs]; try assumption.
      * exact I.
      * intros q. rewrite pc_upd. cbn [pc]. destruct (N.eqb_spec q p) as [->|_]; [|exact (Bpc _)].
        cbn [cpc_ok]. split; [exact Ho|intros _; exact Hp].
    + (* rpc start *)
      injection Ha as Ha; subst a'.
      destruct (pc (procs (a_s a) p)) as [|o|o|o r|o|] eqn:Hpc; try discriminate Hs. injection Hs as Hs; subst s'.
      destruct (Bpc p) as [H1 H2]. rewrite Hpc in H1, H2.
      constructor; cbn [a_s a_reg a_eff a_late observe set_procs nprocs revents value sched procs]; try assumption.
      intros q. rewrite pc_upd. cbn [pc]. destruct (N.eqb_spec q p) as [->|_]; [|exact (Bpc _)].
      split; [exact H1|intros _; apply H2; discriminate].
    + (* rpc return *)
      destruct (pc (procs (a_s a) p)) as [|o|o|o r0|o|] eqn:Hpc; try discriminate Hs. injection Hs as Hs; subst s'.
      destruct (Bpc p) as [H1 H2]. rewrite Hpc in H1, H2. cbn [cpc_ok] in H1.
      assert (Hgen : forall late', (forall q v, late' q = Some v -> v < value (a_s a)) ->
                match o, r with OpRead, ROk v => vb (value (a_s a)) v | _, _ => True end ->
                BInv n (mkA (observe (set_procs (a_s a) (upd (procs (a_s a)) p
                         (mkProc (idle (procs (a_s a) p)) (stopped (procs (a_s a) p)) (CReturned o r)))) (ORet p r))
                        (a_reg a) (a_eff a) late')).
      { intros late' Hl Hv. constructor; cbn [a_s a_reg a_eff a_late observe set_procs nprocs revents value sched procs]; try assumption.
        intros q. rewrite pc_upd. cbn [pc]. destruct (N.eqb_spec q p) as [->|_]; [|exact (Bpc _)].
        cbn [cpc_ok]. split; [split; [exact H1|exact Hv]|intros _; apply H2; discriminate]. }
      destruct r as [v|].
      * destruct o as [|w]; destruct (a_eff a p) as [x|] eqn:Heff; try discriminate Ha.
        -- destruct (N.eqb_spec v x) as [E|E]; [|discriminate Ha]. subst x. injection Ha as Ha; subst a'.
           apply Hgen; [exact Blate|exact (Beff p v Heff)].
        -- injection Ha as Ha; subst a'. apply Hgen; [exact Blate|exact I].
      * destruct o as [|w]; [injection Ha as Ha; subst a'; apply Hgen; [exact Blate|exact I]|].
        destruct (a_eff a p) as [x|]; injection Ha as Ha; subst a'; (apply Hgen; [|exact I]); [exact Blate|].
        intros q v Hv. unfold oupd in Hv. destruct (q =? p); [injection Hv as Hv; subst v; exact H1|exact (Blate q v Hv)].
    + (* set stopped *)
      injection Ha as Ha; subst a'.
      destruct (pc (procs (a_s a) p)) as [|o|o|o r|o|] eqn:Hpc; try discriminate Hs. destruct r; [discriminate Hs|].
      injection Hs as Hs; subst s'.
      destruct (Bpc p) as [H1 H2]. rewrite Hpc in H1, H2. cbn [cpc_ok] in H1.
      constructor; cbn [a_s a_reg a_eff a_late set_procs nprocs revents value sched procs]; try assumption.
      intros q. rewrite pc_upd. cbn [pc]. destruct (N.eqb_spec q p) as [->|_]; [|exact (Bpc _)].
      cbn [cpc_ok]. split; [tauto|intros _; apply H2; discriminate].
    + (* record done *)
      injection Ha as Ha; subst a'.
      destruct (Bpc p) as [H1 H2].
      assert (Hgen : forall e, ev_ok n (value (a_s a)) e ->
                BInv n (mkA (record (set_procs (a_s a) (upd (procs (a_s a)) p
                         (mkProc (idle (procs (a_s a) p)) (stopped (procs (a_s a) p)) CRecorded))) e)
                        (a_reg a) (oupd (a_eff a) p None) (a_late a))).
      { intros e He. constructor; cbn [a_s a_reg a_eff a_late record set_procs nprocs revents value sched procs]; try assumption.
        - constructor; assumption.
        - intros q x Hx. unfold oupd in Hx. destruct (q =? p); [discriminate Hx|exact (Beff q x Hx)].
        - intros q. rewrite pc_upd. cbn [pc]. destruct (N.eqb_spec q p) as [->|_]; [|exact (Bpc _)].
          cbn [cpc_ok]. split; [exact I|intros _; apply H2]. destruct (pc (procs (a_s a) p)); try discriminate; discriminate Hs. }
      destruct (pc (procs (a_s a) p)) as [|o|o|o r|o|] eqn:Hpc; try discriminate Hs.
      * destruct r as [v|]; [|discriminate Hs]. injection Hs as Hs; subst s'. apply Hgen.
        cbn [cpc_ok] in H1. destruct H1 as [G1 G2].
        destruct o; cbn [done_event]; split; cbn [e_id e_type e_res e_val]; try (apply H2; discriminate); assumption.
      * injection Hs as Hs; subst s'. apply Hgen.
        destruct o; cbn [done_event]; split; cbn [e_id e_type e_res e_val]; try (apply H2; discriminate); exact I.
    + (* set idle *)
      injection Ha as Ha; subst a'.
      destruct (pc (procs (a_s a) p)) as [|o|o|o r|o|] eqn:Hpc; try discriminate Hs. injection Hs as Hs; subst s'.
      constructor; cbn [a_s a_reg a_eff a_late set_procs nprocs revents value sched procs]; try assumption.
      intros q. rewrite pc_upd. cbn [pc]. destruct (N.eqb_spec q p) as [->|_]; [|exact (Bpc _)].
      cbn [cpc_ok]. split; [exact I|intros C; exfalso; apply C; reflexivity].
  - (* effect *)
    destruct (Bpc p) as [H1 _].
    destruct (pc (procs (a_s a) p)) as [|o|o|o r|o|] eqn:Hpc; try discriminate Ha. cbn [cpc_ok] in H1.
    destruct o as [|v]; destruct (a_eff a p) eqn:Heff; try discriminate Ha; injection Ha as Ha; subst a';
      constructor; cbn [a_s a_reg a_eff a_late]; try assumption.
    + intros q x Hx. unfold oupd in Hx. destruct (q =? p); [injection Hx as Hx; subst x; exact Breg|exact (Beff q x Hx)].
    + right. exact H1.
    + intros q x Hx. unfold oupd in Hx. destruct (q =? p); [injection Hx as Hx; subst x; right; exact H1|exact (Beff q x Hx)].
  - (* late *)
    destruct (a_late a p) as [v|] eqn:Hl; [|discriminate Ha]. destruct (a_eff a p) eqn:Heff; [discriminate Ha|].
    injection Ha as Ha; subst a'. pose proof (Blate p v Hl) as Hv.
    constructor; cbn [a_s a_reg a_eff a_late]; try assumption.
    + right. exact Hv.
    + intros q x Hx. unfold oupd in Hx. destruct (q =? p); [injection Hx as Hx; subst x; right; exact Hv|exact (Beff q x Hx)].
    + intros q x Hx. unfold oupd in Hx. destruct (q =? p); [discriminate Hx|exact (Blate q x Hx)].
Qed.

Lemma binv_run : forall n ls a a', BInv n a -> arun a ls = Some a' -> BInv n a'.
Proof.
  intros n. induction ls as [|l ls IH]; intros a a' HB H; cbn [arun] in H.
  - injection H as H; subst a'. exact HB.
  - destruct (astep a l) as [a1|] eqn:Ha; [|discriminate H]. exact (IH _ _ (binv_step _ _ _ _ HB Ha) H).
Qed.

Lemma ev_ok_printable : forall n b e, n <= max_int + 1 -> b <= max_int + 1 -> ev_ok n b e -> printable e = true.
Proof.
  intros n b e Hn Hb [H1 H2]. unfold printable. unfold vb in H2.
  destruct (e_type e), (e_res e); lia.
Qed.

(** with at most 2^63 processes and fewer than 2^63 writes every recorded line is printable *)
Theorem atomic_printable : forall n ls a, arun (ainit n) ls = Some a ->
  n <= max_int + 1 -> value (a_s a) <= max_int + 1 -> Forall (fun e => printable e = true) (events (a_s a)).
Proof.
  intros n ls a Hr Hn Hb. pose proof (binv_run n ls _ _ (binv_init n) Hr) as HB.
  unfold events. apply Forall_rev. eapply Forall_impl; [|exact (b_ev _ _ HB)].
  intros e He. exact (ev_ok_printable _ _ _ Hn Hb He).
Qed.

(** The statement of C07_accepts_linearizable: at most 2^63 processes (ids fit Go's int), fewer
    than 2^63 writes (values fit Go's int). *)
Theorem atomic_run_accepted : forall n ls a, arun (ainit n) ls = Some a ->
  n <= max_int + 1 -> value (a_s a) <= max_int + 1 ->
  forall h, parse_allowed (format_log (events (a_s a))) h -> wf h /\ linearizable h /\ check h = true.
Proof.
  intros n ls a Hr Hn Hb. apply (atomic_log_accepted n ls a Hr).
  - unfold max_int, nilv in *. lia.
  - exact (atomic_printable n ls a Hr Hn Hb).
Qed.

(** * Every well-formed event list (atomic service or not) describes a complete history: each
      operation has exactly one call and exactly one later return *)

Record HC (main : history) (pm : pmap) (next : N) : Prop := mkHC {
  hc_c1 : NoDup (call_ids main);
  hc_c2 : forall id, In id (call_ids main) -> id < next;
  hc_c3 : NoDup (ret_ids main);
  hc_c4 : NoDup (map fst pm);
  hc_c4' : NoDup (map snd pm);
  hc_c5 : forall id, In id (call_ids main) <-> (In id (ret_ids main) \/ In id (map snd pm));
  hc_c6 : forall id, In id (ret_ids main) -> ~ In id (map snd pm);
  hc_c7 : forall h1 id o h2, main = h1 ++ Ret id o :: h2 -> In id (call_ids h1)
}.

Lemma hc_call : forall main pm next p i, HC main pm next -> ~ In p (map fst pm) ->
  HC (main ++ [Call next i]) ((p, next) :: pm) (next + 1).
Proof.
  intros main pm next p i H Hp. destruct H as [C1 C2 C3 C4 C4' C5 C6 C7].
  assert (Hnext : ~ In next (call_ids main)).
  { intro Hin. apply C2 in Hin. lia. }
  assert (Hnext' : ~ In next (map snd pm)).
  { intro Hin. apply Hnext. apply C5. right. exact Hin. }
  constructor.
  - rewrite call_ids_app. cbn [call_ids]. apply nodup_snoc; assumption.
  - intros id Hin. rewrite call_ids_app in Hin. cbn [call_ids] in Hin. apply in_app_or in Hin.
    destruct Hin as [Hin|[E|[]]]; [apply C2 in Hin|]; lia.
  - rewrite ret_ids_app. cbn [ret_ids]. rewrite app_nil_r. assumption.
  - cbn [map fst]. constructor; assumption.
  - cbn [map snd]. constructor; assumption.
  - intros id. rewrite call_ids_app, ret_ids_app. cbn [call_ids ret_ids map snd]. rewrite app_nil_r, in_app_iff, C5.
    cbn [In]. tauto.
  - intros id Hin. rewrite ret_ids_app in Hin. cbn [ret_ids] in Hin. rewrite app_nil_r in Hin.
    cbn [map snd In]. intros [E|Hin']; [|exact (C6 id Hin Hin')].
    subst id. apply Hnext. apply C5. left. exact Hin.
  - intros h1 id o h2 E. apply snoc_split in E. destruct E as [[_ [_ E]]|[h2' [_ E]]]; [discriminate E|].
    exact (C7 _ _ _ _ E).
Qed.

Lemma hc_ret : forall main pm next p id o, HC main pm next -> In (p, id) pm ->
  HC (main ++ [Ret id o]) (pm_del pm p) next.
Proof.
  intros main pm next p id o H Hin. destruct H as [C1 C2 C3 C4 C4' C5 C6 C7].
  assert (Hcall : In id (call_ids main)) by (apply C5; right; exact (in_snd _ _ _ Hin)).
  assert (Hnr : ~ In id (ret_ids main)).
  { intro Hr. exact (C6 id Hr (in_snd _ _ _ Hin)). }
  constructor.
  - rewrite call_ids_app. cbn [call_ids]. rewrite app_nil_r. assumption.
  - intros id' Hin'. rewrite call_ids_app in Hin'. cbn [call_ids] in Hin'. rewrite app_nil_r in Hin'. exact (C2 id' Hin').
  - rewrite ret_ids_app. cbn [ret_ids]. apply nodup_snoc; assumption.
  - apply nodup_map_filter. assumption.
  - apply nodup_map_filter. assumption.
  - intros id'. rewrite call_ids_app, ret_ids_app. cbn [call_ids ret_ids]. rewrite app_nil_r, in_app_iff.
    rewrite (snd_pm_del pm p id id' C4 C4' Hin), C5. cbn [In].
    destruct (N.eq_dec id' id) as [E|E]; [subst id'|].
    + split; [intros _; left; right; left; reflexivity|intros _; right; exact (in_snd _ _ _ Hin)].
    + assert (E' : id <> id') by congruence. tauto.
  - intros id' Hin'. rewrite ret_ids_app in Hin'. cbn [ret_ids] in Hin'. apply in_app_or in Hin'.
    rewrite (snd_pm_del pm p id id' C4 C4' Hin). intros [H1 H2].
    destruct Hin' as [Hin'|[E|[]]]; [exact (C6 id' Hin' H1)|]. apply H2. symmetry. exact E.
  - intros h1 id' o' h2 E. apply snoc_split in E. destruct E as [[_ [E1 E2]]|[h2' [_ E]]].
    + injection E2 as E2 _. subst h1 id'. exact Hcall.
    + exact (C7 _ _ _ _ E).
Qed.

Lemma hc_final : forall main pm next tail, HC main pm next -> Permutation tail (map snd pm) ->
  wf (main ++ unknown_rets tail).
Proof.
  intros main pm next tail H Hperm. destruct H as [C1 C2 C3 C4 C4' C5 C6 C7].
  assert (Htnd : NoDup tail) by (apply (Permutation_NoDup (Permutation_sym Hperm)); exact C4').
  assert (Htin : forall id, In id tail <-> In id (map snd pm)).
  { intros id. split; [apply Permutation_in; exact Hperm|apply Permutation_in, Permutation_sym; exact Hperm]. }
  unfold wf. rewrite call_ids_app, call_ids_unknown_rets, app_nil_r, ret_ids_app, ret_ids_unknown_rets.
  split; [exact C1|]. split; [|split].
  - apply nodup_app; [exact C3|exact Htnd|]. intros id Hin Hin'. apply Htin in Hin'. exact (C6 id Hin Hin').
  - intros id Hin. apply in_or_app. apply C5 in Hin. destruct Hin as [Hin|Hin]; [left; exact Hin|right; apply Htin; exact Hin].
  - intros h1 id o h2 E. apply app_eq_app in E. destruct E as [l [[E1 E2]|[E1 E2]]].
    + destruct l as [|x l].
      * rewrite app_nil_r in E1. subst h1. cbn [app] in E2. apply C5. right. apply Htin.
        assert (Hin : In (Ret id o) (unknown_rets tail)) by (rewrite <- E2; left; reflexivity).
        apply in_unknown_rets in Hin. destruct Hin as [id' [E Hin]]. injection E as E _. subst id'. exact Hin.
      * cbn [app] in E2. injection E2 as E2 _. subst x. exact (C7 _ _ _ _ E1).
    + subst h1. rewrite call_ids_app. apply in_or_app. left. apply C5. right. apply Htin.
      assert (Hin : In (Ret id o) (unknown_rets tail)) by (rewrite E2; apply in_elt).
      apply in_unknown_rets in Hin. destruct Hin as [id' [E Hin]]. injection E as E _. subst id'. exact Hin.
Qed.

(** history monitor vs. the parser's map: a process has an entry iff its operation is pending
    (a process that failed keeps whatever it had) *)
Definition keys_ok (em : emon) (pm : pmap) : Prop :=
  forall p, match em_of em p with
            | EReady => ~ In p (map fst pm)
            | EPending _ => In p (map fst pm)
            | EDead => True
            end.

Lemma in_keys_del : forall (pm : pmap) p q, In q (map fst (pm_del pm p)) <-> In q (map fst pm) /\ q <> p.
Proof.
  intros pm p q. split.
  - intros H. apply in_map_iff in H. destruct H as [[k v] [E H]]. cbn [fst] in E. subst k.
    apply in_pm_del in H. destruct H as [H Hq]. split; [exact (in_fst _ _ _ H)|exact Hq].
  - intros [H Hq]. apply in_map_iff in H. destruct H as [[k v] [E H]]. cbn [fst] in E. subst k.
    apply in_map_iff. exists (q, v). split; [reflexivity|]. apply in_pm_del. split; assumption.
Qed.

Lemma hc_events : forall es em, emon_run emon_init es = Some em ->
  HC (rev (ps_rev (hstate es))) (ps_map (hstate es)) (ps_next (hstate es)) /\ keys_ok em (ps_map (hstate es)).
Proof.
  intros es. induction es as [|e es IH] using rev_ind; intros em Hrun.
  - cbn in Hrun. injection Hrun as Hrun; subst em. split.
    + constructor; cbn [hstate fold_left map ps_init ps_rev ps_map ps_next rev call_ids ret_ids fst snd In].
      * constructor.
      * intros id [].
      * constructor.
      * constructor.
      * constructor.
      * intros id. split; [intros []|intros [[]|[]]].
      * intros id [].
      * intros h1 id o h2 H. destruct h1; discriminate H.
    + intros p. cbn. intros [].
  - rewrite emon_run_snoc in Hrun. destruct (emon_run emon_init es) as [em0|] eqn:H0; [|discriminate Hrun].
    destruct (IH em0 eq_refl) as [HCo HK]. clear IH.
    destruct (emon_step_cases _ _ _ Hrun) as [Hoth [_ Hres]]. cbv zeta in Hoth, Hres.
    rewrite hstate_snoc. set (H := hstate es) in *. set (p := e_id e) in *.
    assert (Hret : forall out, (exists o, em_of em0 p = EPending o) -> em_of em p = EReady \/ em_of em p = EDead ->
              HC (rev (ps_rev (p_ret H p out))) (ps_map (p_ret H p out)) (ps_next (p_ret H p out)) /\
              keys_ok em (ps_map (p_ret H p out))).
    { intros out [o Ho] Hem. pose proof (HK p) as Hk. rewrite Ho in Hk.
      apply in_map_iff in Hk. destruct Hk as [[k id] [E Hin]]. cbn [fst] in E. subst k.
      unfold p_ret. cbn [ps_rev ps_next ps_map rev]. rewrite (pm_get_in _ _ _ (hc_c4 _ _ _ HCo) Hin). split.
      - exact (hc_ret _ _ _ _ _ out HCo Hin).
      - intros q. destruct (N.eq_dec q p) as [->|Hq].
        + destruct Hem as [E|E]; rewrite E; [|exact I]. rewrite in_keys_del. tauto.
        + rewrite (Hoth q Hq). pose proof (HK q) as Hkq. destruct (em_of em0 q); [| |exact I].
          * rewrite in_keys_del. tauto.
          * rewrite in_keys_del. tauto. }
    destruct e as [t r i v]. cbn [e_id e_res] in *. unfold event_kind. cbn [e_type e_res e_id e_val].
    destruct r.
    + (* invoked *)
      destruct Hres as [Hready [o Hpend]].
      pose proof (HK p) as Hk. rewrite Hready in Hk.
      assert (Hgoal : forall inp, HC (rev (ps_rev (p_call H p inp))) (ps_map (p_call H p inp)) (ps_next (p_call H p inp)) /\
                                  keys_ok em (ps_map (p_call H p inp))).
      { intros inp. unfold p_call, pm_set. cbn [ps_rev ps_next ps_map rev]. rewrite (pm_del_notin _ _ Hk). split.
        - exact (hc_call _ _ _ _ inp HCo Hk).
        - intros q. cbn [map fst In]. destruct (N.eq_dec q p) as [->|Hq].
          + rewrite Hpend. left. reflexivity.
          + rewrite (Hoth q Hq). pose proof (HK q) as Hkq. destruct (em_of em0 q); [|right; exact Hkq|exact I].
            intros [E|Hin]; [apply Hq; symmetry; exact E|exact (Hkq Hin)]. }
      destruct t; cbn [pstep]; apply Hgoal.
    + (* completed *)
      destruct Hres as [Hp Hr]. destruct t; cbn [pstep]; apply Hret; auto.
    + (* failed *)
      destruct Hres as [Hp Hr]. destruct t; cbn [pstep].
      * apply Hret; auto.
      * split; [exact HCo|]. intros q. destruct (N.eq_dec q p) as [->|Hq]; [rewrite Hr; exact I|].
        rewrite (Hoth q Hq). exact (HK q).
Qed.

Theorem wf_events_complete : forall es, wf_events es = true ->
  forall h, history_allowed es h -> wf h.
Proof.
  intros es Hwf h [tail [Hperm Eh]]. unfold wf_events in Hwf.
  destruct (emon_run emon_init es) as [em|] eqn:Hrun; [|discriminate Hwf].
  destruct (hc_events es em Hrun) as [HCo _].
  rewrite expected_open_hstate in Hperm. rewrite expected_main_hstate in Eh. subst h.
  exact (hc_final _ _ _ _ HCo Hperm).
Qed.
