(** FleetLiveProofs: the liveness side of the closed loop that IS proved - the healed, clean state
    is a fixpoint of the healthy round: from a [Steady] state (every current member running on a live
    host and knowing the current membership, Drummer's view at the current version, no stray
    replica, nothing in any mailbox / queue / kill list) one [healthy_round]
      - leaves the state Steady,
      - makes every shard healed (available in Drummer's view, members running, size >= defined),
      - and the ONLY outcome the scheduler can produce is the empty batch: no request at all
        (C11 quiescence in the closed loop). *)
From stdpp Require Import gmap list numbers sorting.
From Coq Require Import ZifyN ZifyNat ZifyBool Lia.
From Drummer.Model Require Import DB Sched Fleet FleetRun.
From Drummer.Proofs Require Import DBProofs DBViewProofs DBTimeProofs FleetProofs.
Local Open Scope N_scope.
Notation hist_of := Fleet.hist_of.

Record Steady (st : fstate) : Prop := mkSteady {
  sy_inv : LoopInv st;
  sy_defined : ∀ s sd, d_shards (f_db st) !! s = Some sd → is_Some (f_hist st !! s) ∧ sd_members sd ≠ [];
  sy_hosts : ∀ a fh, f_hosts st !! a = Some fh → fh_up fh = true ∧ fh_queue fh = [] ∧ fh_out fh = None;
  sy_boxes : d_requests (f_db st) = ∅ ∧ d_outgoing (f_db st) = ∅ ∧ d_kill (f_db st) = [];
  sy_members : ∀ s h, f_hist st !! s = Some h →
    ∃ c, d_view (f_db st) !! s = Some c ∧ s_cci c = cur_version h ∧
         ∀ rid a, cur_members h !! rid = Some a →
           ∃ fh lr, f_hosts st !! a = Some fh ∧ fh_reps fh !! (s, rid) = Some lr ∧
                    lr_running lr = true ∧ lr_ver lr = cur_version h;
  sy_nostray : ∀ a fh s rid lr, f_hosts st !! a = Some fh → fh_reps fh !! (s, rid) = Some lr → lr_running lr = true →
    ∃ h, f_hist st !! s = Some h ∧ cur_members h !! rid = Some a ∧ lr_ver lr = cur_version h;
  sy_time : 0 < d_tick (f_db st) }.

(* the member's record in Drummer's view carries the report time t *)
Definition stamped_at (d : db) (s rid t : N) : Prop :=
  ∃ c n, d_view d !! s = Some c ∧ s_reps c !! rid = Some n ∧ r_tick n = t.

(* the hosts in R have reported in this round *)
Definition reported (st : fstate) (R : N → Prop) (t : N) : Prop :=
  ∀ a fh s rid lr, R a → f_hosts st !! a = Some fh → fh_reps fh !! (s, rid) = Some lr → lr_running lr = true →
    stamped_at (f_db st) s rid t.

Lemma steps_app P st evs1 evs2 :
  steps P st (evs1 ++ evs2) = match steps P st evs1 with Some st1 => steps P st1 evs2 | None => None end.
Proof.
  revert st. induction evs1 as [|ev evs1 IH]; intros st; cbn [steps app]; [done|].
  destruct (fstep P st ev); [apply IH|apply IH|done].
Qed.

Lemma steps_disabled P st evs : (∀ ev, ev ∈ evs → fstep P st ev = FDisabled) → steps P st evs = Some st.
Proof.
  induction evs as [|ev evs IH]; intros Hall; cbn [steps]; [done|].
  rewrite (Hall ev) by left. apply IH. intros ev' Hin. apply Hall. by right.
Qed.

Lemma filter_all {A} (Pr : A → Prop) `{∀ x, Decision (Pr x)} (l : list A) : (∀ x, x ∈ l → Pr x) → filter Pr l = l.
Proof.
  induction l as [|x l IH]; intros Hall; [done|]. rewrite filter_cons, decide_True by (apply Hall; left).
  f_equal. apply IH. intros y Hy. apply Hall. by right.
Qed.

Lemma cur_entry_at st s h :
  LoopInv st → f_hist st !! s = Some h →
  entry_at h (cur_version h) = Some (cur_members h) ∧ (cur_version h, cur_members h) ∈ h.
Proof.
  intros HI Hh. pose proof (li_hist _ _ _ _ _ HI _ _ Hh) as Hw.
  assert (Hin : (cur_version h, cur_members h) ∈ h) by (apply cur_in; intros ->; by apply hist_wf_nonempty in Hw).
  split; [|done]. by apply (hist_wf_entry_at _ _ Hw).
Qed.

Section Live.
Variable P : params.

(** ** one host reports *)
Lemma report_result_quiet d r view' kill' :
  d_deadline d = 0 → d_requests d = ∅ → d_outgoing d = ∅ →
  d_requests (report_result d r view' kill') = ∅ ∧ d_outgoing (report_result d r view' kill') = ∅.
Proof.
  intros Hd Hr Ho. unfold report_result, on_updated_shard_info, pickup. cbn. rewrite Hr, lookup_empty. cbn. rewrite Hd. cbn.
  split; [done|]. rewrite Ho. apply delete_empty.
Qed.

(* the report of a host in a steady state carries no membership: every entry is incomplete *)
Lemma steady_report_incomplete st a fh plog ci :
  Steady st → f_hosts st !! a = Some fh → ci ∈ rp_infos (host_report (f_db st) (f_hist st) a fh plog) → complete ci = false.
Proof.
  intros HS Ha Hci. unfold host_report in Hci. cbn [rp_infos] in Hci.
  apply elem_of_list_fmap in Hci as ([[s rid] lr] & -> & Hin). apply elem_of_list_filter in Hin as [Hrun Hin].
  apply sorted_reps_elem in Hin. cbn in Hrun, Hin.
  destruct (sy_nostray _ HS _ _ _ _ _ Ha Hin Hrun) as (h & Hh & Hm & Hver).
  destruct (sy_members _ HS _ _ Hh) as (c & Hc & Hcci & _).
  unfold rep_info, complete. cbn [fst snd]. destruct (lr_ver lr =? 0); [done|].
  unfold view_vers. rewrite lookup_fmap, Hc. cbn. rewrite Hcci, Hver, N.leb_refl. cbn. done.
Qed.

Lemma steady_report_names st a fh plog s rid :
  f_hosts st !! a = Some fh →
  report_names s rid (host_report (f_db st) (f_hist st) a fh plog) = true ↔
  ∃ lr, fh_reps fh !! (s, rid) = Some lr ∧ lr_running lr = true.
Proof.
  intros Ha. unfold report_names, host_report. cbn [rp_infos]. rewrite existsb_exists. split.
  - intros (ci & Hci & Hn). apply elem_of_list_In in Hci. apply elem_of_list_fmap in Hci as ([[s0 rid0] lr] & -> & Hin).
    apply elem_of_list_filter in Hin as [Hrun Hin]. apply sorted_reps_elem in Hin. cbn in Hrun, Hin.
    unfold entry_names, rep_info in Hn. cbn [fst snd] in Hn.
    assert (s0 = s ∧ rid0 = rid) as [-> ->].
    { destruct (lr_ver lr =? 0); cbn in Hn; apply andb_true_iff in Hn as [H1 H2]; apply N.eqb_eq in H1, H2; done. }
    by exists lr.
  - intros (lr & Hk & Hrun). exists (rep_info (view_vers (f_db st)) (f_hist st) (s, rid) lr). split.
    + apply elem_of_list_In, elem_of_list_fmap. exists ((s, rid), lr). split; [done|].
      apply elem_of_list_filter. split; [done|]. unfold sorted_reps. rewrite merge_sort_Permutation. by apply elem_of_map_to_list.
    + unfold entry_names, rep_info. cbn [fst snd]. destruct (lr_ver lr =? 0); cbn; by rewrite !N.eqb_refl.
Qed.

Lemma n_complete_zero s cis : (∀ ci, ci ∈ cis → complete ci = false) → n_complete s cis = 0%nat.
Proof.
  intros Hall. unfold n_complete. apply length_zero_iff_nil, elem_of_nil_inv. intros ci Hin.
  apply elem_of_list_filter in Hin as [Hc Hin]. specialize (Hall ci Hin). unfold complete in Hall. unfold complete_for in Hc.
  apply andb_true_iff in Hc as [Hc H3]. apply andb_true_iff in Hc as [_ H2]. rewrite H2, H3 in Hall. done.
Qed.

Lemma snap_deliver st R t a fh plog :
  Steady st → reported st R t → t = d_tick (f_db st) → f_hosts st !! a = Some fh →
  ∃ st', steps P st [ESnap a plog; EDeliver a false] = Some st' ∧ Steady st' ∧
         reported st' (λ x, R x ∨ x = a) t ∧ d_tick (f_db st') = d_tick (f_db st) ∧
         f_hosts st' = f_hosts st ∧ f_hist st' = f_hist st.
Proof.
  intros HS HR Ht Ha. destruct (sy_hosts _ HS _ _ Ha) as (Hup & Hq & Hout).
  pose proof (sy_inv _ HS) as HI.
  set (r := host_report (f_db st) (f_hist st) a fh plog).
  set (fh1 := mkFHost true (fh_region fh) (fh_reps fh) (fh_queue fh) (Some r)).
  set (st1 := set_host st a fh1).
  assert (E1 : fstep P st (ESnap a plog) = FOk st1) by (cbn [fstep]; by rewrite Ha, Hup).
  pose proof (step_inv P st (ESnap a plog) st1 HI I E1) as HI1.
  assert (Ha1 : f_hosts st1 !! a = Some fh1) by (unfold st1, set_host; cbn; by rewrite lookup_insert).
  pose proof (step_deliver_no_panic P st1 a false HI1) as Hnp.
  cbn [fstep] in Hnp. rewrite Ha1 in Hnp. cbn [fh_up fh1 fh_out] in Hnp.
  destruct (db_step P (f_db st1) (CReport r)) as [d' v| |] eqn:Es; try done. clear Hnp.
  set (fh2 := mkFHost true (fh_region fh1) (fh_reps fh1) (fh_queue fh1 ++ lookup_requests d' a) None).
  set (st2 := mkF d' (<[a := fh2]> (f_hosts st1)) (f_hist st1) (f_seen st1)).
  assert (E2 : fstep P st1 (EDeliver a false) = FOk st2).
  { cbn [fstep]. rewrite Ha1. cbn [fh_up fh1 fh_out]. by rewrite Es. }
  pose proof (step_inv P st1 (EDeliver a false) st2 HI1 I E2) as HI2.
  (* the DB side *)
  change (f_db st1) with (f_db st) in Es.
  assert (Hn : next P (f_db st) (CReport r) = Some d') by (unfold next; by rewrite Es).
  pose proof Hn as Hn'. apply next_cases in Hn' as [[Hf' _]|[_ (view' & kill' & Hvu & Ed')]];
    [rewrite (li_failed _ _ _ _ _ HI) in Hf'; done|].
  destruct (sy_boxes _ HS) as (Hrq & Hog & Hkl).
  destruct (report_result_all (f_db st) (stamp (f_db st) r) view' kill' (li_deadline _ _ _ _ _ HI)) as (F1 & F2 & F3 & F4 & F5 & F6 & _ & _).
  destruct (report_result_quiet (f_db st) (stamp (f_db st) r) view' kill' (li_deadline _ _ _ _ _ HI) Hrq Hog) as [Hrq' Hog'].
  rewrite <- Ed' in F1, F2, F3, F4, F5, F6, Hrq', Hog'.
  assert (Hinc : ∀ ci, ci ∈ rp_infos r → complete ci = false) by (intros ci; by apply steady_report_incomplete).
  assert (Hcore : ∀ s, shard_core <$> d_view d' !! s = shard_core <$> d_view (f_db st) !! s).
  { intros s. eapply step_inert_partial; [exact Hn|]. intros ci Hin _. by apply Hinc. }
  assert (Htick : d_tick d' = d_tick (f_db st)).
  { rewrite Ed'. by destruct (report_result_fields (f_db st) (stamp (f_db st) r) view' kill') as (Et & _). }
  assert (Hreply : lookup_requests d' a = []) by (unfold lookup_requests; by rewrite Hog', lookup_empty).
  assert (Hhosts2 : <[a := fh2]> (f_hosts st1) = f_hosts st).
  { unfold st1, set_host. cbn [f_hosts]. rewrite insert_insert. apply insert_id.
    unfold fh2, fh1. cbn. rewrite Hreply, app_nil_r. destruct fh as [u rg rp qu ou]. cbn in *. congruence. }
  (* the kill list stays empty *)
  assert (Hkill' : kill' = []).
  { unfold view_update in Hvu.
    destruct (update_entries (d_tick (f_db st)) (d_view (f_db st), []) (rp_infos (stamp (f_db st) r))) as [[view1 tokill]|] eqn:Eu; [|done].
    injection Hvu as _ <-. rewrite Hkl. cbn [filter app].
    assert (tokill = []) as ->; [|done]. apply elem_of_nil_inv. intros ci Hci.
    assert (Hrok : Forall (DBViewProofs.entry_ok (Hf (f_hist st))) (rp_infos (stamp (f_db st) r))).
    { apply Forall_forall. intros ci' Hin' Hc'. cbn [stamp rp_infos] in Hin'. rewrite (Hinc ci' Hin') in Hc'. done. }
    destruct (update_entries_tokill (Hf (f_hist st)) _ _ _ _ _ _ (li_view _ _ _ _ _ HI) Hrok Eu ci Hci)
      as [Hnil|(Hin & vm & ec & Hvi & Hvm & Hl & Hkr)]; [by apply elem_of_nil in Hnil|].
    cbn [stamp rp_infos] in Hin. unfold r, host_report in Hin. cbn [rp_infos] in Hin.
    apply elem_of_list_fmap in Hin as ([[s rid] lr] & -> & Hin). apply elem_of_list_filter in Hin as [Hrun Hin].
    apply sorted_reps_elem in Hin. cbn in Hrun, Hin. cbn [fst snd] in Hl, Hkr.
    destruct (sy_nostray _ HS _ _ _ _ _ Ha Hin Hrun) as (h & Hh & Hm & Hver).
    assert (Hs : si_shard (rep_info (view_vers (f_db st)) (f_hist st) (s, rid) lr) = s) by (unfold rep_info; by destruct (lr_ver lr =? 0)).
    rewrite Hs in Hl. destruct (Hvi _ _ Hl) as (_ & HH & _). unfold Hf, hist_of in HH. rewrite Hh in HH. cbn in HH.
    apply entry_at_Some in HH. pose proof (hist_wf_le _ _ (li_hist _ _ _ _ _ HI _ _ Hh) _ HH) as Hle. cbn in Hle.
    unfold kill_required in Hkr.
    assert (Hcci : si_cci (rep_info (view_vers (f_db st)) (f_hist st) (s, rid) lr) = lr_ver lr ∨ lr_ver lr = 0).
    { unfold rep_info. destruct (lr_ver lr =? 0) eqn:E0; [right; by apply N.eqb_eq|by left]. }
    destruct Hcci as [Hcci|Hz].
    - rewrite Hcci, Hver in Hkr. apply N.leb_le in Hle. by rewrite Hle in Hkr.
    - (* the current version is 0: the view's version is 0 as well *)
      rewrite Hz in Hver. assert (s_cci ec = 0) by lia.
      assert (Hz' : si_cci (rep_info (view_vers (f_db st)) (f_hist st) (s, rid) lr) = 0).
      { unfold rep_info. rewrite Hz. done. }
      rewrite Hz', H in Hkr. done. }
  assert (Hsame : st2 = mkF d' (f_hosts st) (f_hist st) (f_seen st)).
  { unfold st2. rewrite Hhosts2. done. }
  exists st2. split.
  { cbn [steps]. rewrite E1, E2. done. }
  rewrite Hsame in *. clear Hsame.
  assert (Hcci : ∀ s c, d_view (f_db st) !! s = Some c → ∃ c', d_view d' !! s = Some c' ∧ s_cci c' = s_cci c ∧ dom (s_reps c') = dom (s_reps c)).
  { intros s c Hc. specialize (Hcore s). rewrite Hc in Hcore. destruct (d_view d' !! s) as [c'|]; [|done].
    cbn in Hcore. injection Hcore as H1 H2 H3. exists c'. split; [done|]. split; [done|].
    apply set_eq. intros k. rewrite !elem_of_dom. rewrite <- !(fmap_is_Some rep_core), <- !lookup_fmap, H3. done. }
  split; [|split; [|split; [|split]]]; cbn [f_db f_hosts f_hist f_seen]; try done.
  - (* Steady *)
    split; cbn [f_db f_hosts f_hist f_seen].
    + exact HI2.
    + rewrite F3. apply (sy_defined _ HS).
    + apply (sy_hosts _ HS).
    + rewrite Hrq', Hog', F5, Hkill'. done.
    + intros s h Hh. destruct (sy_members _ HS s h Hh) as (c & Hc & Hcc & Hmem).
      destruct (Hcci s c Hc) as (c' & Hc' & Hcc' & _). exists c'. split; [done|]. split; [congruence|done].
    + apply (sy_nostray _ HS).
    + rewrite Htick. apply (sy_time _ HS).
  - (* reported *)
    intros a0 fh0 s rid lr HRa Ha0 Hk Hrun. cbn [f_db f_hosts] in *.
    destruct (sy_nostray _ HS _ _ _ _ _ Ha0 Hk Hrun) as (h & Hh & Hm & Hver).
    destruct (sy_members _ HS s h Hh) as (c & Hc & Hcc & _).
    destruct (Hcci s c Hc) as (c' & Hc' & _ & Hdom).
    assert (is_Some (s_reps c' !! rid)) as [n' Hn'].
    { apply elem_of_dom. rewrite Hdom. apply elem_of_dom.
      destruct (li_view _ _ _ _ _ HI s c Hc) as (_ & HH & _). unfold Hf, hist_of in HH. rewrite Hh in HH. cbn in HH.
      destruct (cur_entry_at _ _ _ HI Hh) as [Hcur Hcurin].
      rewrite Hcc, Hcur in HH. injection HH as HH. rewrite <- (fmap_is_Some r_addr), <- lookup_fmap, <- HH. by eexists. }
    exists c', n'. split; [done|]. split; [done|].
    assert (Hrec : rec_of (d_view d') s rid = Some n') by (apply rec_of_Some; eauto).
    destruct (step_times P (f_db st) (CReport r) d' s rid n' Hn Hrec) as [(n0 & Hn0 & _ & Htk)|(r0 & Er0 & _ & Hor & _)].
    + rewrite (li_failed _ _ _ _ _ HI) in Htk. cbn [negb andb names_cmd] in Htk.
      destruct (report_names s rid r) eqn:Ern; [by rewrite Htk, Ht|].
      rewrite Htk. destruct HRa as [HRa| ->].
      * destruct (HR _ _ _ _ _ HRa Ha0 Hk Hrun) as (c0 & n00 & Hc0 & Hn00 & Ht0).
        apply rec_of_Some in Hn0 as (c1 & Hc1 & Hn1). congruence.
      * exfalso. assert (fh0 = fh) as -> by congruence.
        assert (report_names s rid r = true); [|congruence]. apply (steady_report_names st a fh plog s rid Ha). eauto.
    + exfalso. injection Er0 as <-. destruct Hor as [Hnone|Hmulti].
      * assert (is_Some (rec_of (d_view (f_db st)) s rid)) as [? ?]; [|congruence].
        destruct (li_view _ _ _ _ _ HI s c Hc) as (_ & HH & _). unfold Hf, hist_of in HH. rewrite Hh in HH. cbn in HH.
        destruct (cur_entry_at _ _ _ HI Hh) as [Hcur Hcurin].
        rewrite Hcc, Hcur in HH. injection HH as HH.
        assert (is_Some (s_reps c !! rid)) as [n0 Hn0].
        { rewrite <- (fmap_is_Some r_addr), <- lookup_fmap, <- HH. by eexists. }
        exists n0. apply rec_of_Some. eauto.
      * unfold multi_entry in Hmulti. rewrite (n_complete_zero s (rp_infos r) Hinc) in Hmulti. lia.
Qed.

(** ** all hosts report *)
Lemma all_report st t (plogs : N → bool) (l : list N) : ∀ R,
  Steady st → reported st R t → t = d_tick (f_db st) → (∀ a, a ∈ l → is_Some (f_hosts st !! a)) →
  ∃ st', steps P st (l ≫= λ a, [ESnap a (plogs a); EDeliver a false]) = Some st' ∧ Steady st' ∧
         reported st' (λ x, R x ∨ x ∈ l) t ∧ d_tick (f_db st') = d_tick (f_db st) ∧
         f_hosts st' = f_hosts st ∧ f_hist st' = f_hist st.
Proof.
  revert st. induction l as [|a l IH]; intros st R HS HR Ht Hl.
  - exists st. cbn. split; [done|]. split; [done|]. split; [|done].
    intros a fh s rid lr [HRa|Hin]; [by apply HR|by apply elem_of_nil in Hin].
  - destruct (Hl a) as [fh Ha]; [left|].
    destruct (snap_deliver st R t a fh (plogs a) HS HR Ht Ha) as (st1 & E1 & HS1 & HR1 & Ht1 & Hh1 & Hhi1).
    destruct (IH st1 (λ x, R x ∨ x = a) HS1 HR1) as (st2 & E2 & HS2 & HR2 & Ht2 & Hh2 & Hhi2).
    { congruence. }
    { intros a' Hin. rewrite Hh1. apply Hl. by right. }
    exists st2. split.
    { rewrite bind_cons, steps_app, E1. exact E2. }
    split; [done|]. split; [|split; [congruence|split; congruence]].
    intros a' fh' s rid lr HRa. apply HR2. destruct HRa as [HRa|Hin]; [left; by left|].
    apply elem_of_cons in Hin as [-> |Hin]; [left; by right|by right].
Qed.

(** ** executions, catch-up: nothing to do *)
Lemma steady_exec st a : Steady st → is_Some (f_hosts st !! a) → fstep P st (EExec a true) = FOk st.
Proof.
  intros HS [fh Ha]. destruct (sy_hosts _ HS _ _ Ha) as (Hup & Hq & Hout).
  cbn [fstep]. rewrite Ha, Hup, Hq. cbn [exec_all fst snd].
  f_equal. destruct st as [d hosts hist seen]. cbn in *. f_equal. apply insert_id.
  destruct fh as [u rg rp qu ou]. cbn in *. congruence.
Qed.

Lemma steady_execs st l : Steady st → (∀ a, a ∈ l → is_Some (f_hosts st !! a)) →
  steps P st ((λ a, EExec a true) <$> l) = Some st.
Proof.
  intros HS. induction l as [|a l IH]; intros Hl; cbn [fmap list_fmap steps]; [done|].
  rewrite (steady_exec st a HS) by (apply Hl; left). apply IH. intros a' Hin. apply Hl. by right.
Qed.

Lemma steady_catch_up st : Steady st → steps P st (catch_up_events st) = Some st.
Proof.
  intros HS. apply steps_disabled. intros ev Hev. unfold catch_up_events in Hev.
  apply elem_of_list_bind in Hev as (a & Hev & _). destruct (f_hosts st !! a) as [fh|] eqn:Ha; [|by apply elem_of_nil in Hev].
  apply elem_of_list_bind in Hev as ([[s rid] lr] & Hev & Hin). cbn [fst snd] in Hev.
  destruct (_ && _); [|by apply elem_of_nil in Hev]. apply elem_of_list_singleton in Hev as ->.
  apply sorted_reps_elem in Hin. cbn in Hin. cbn [fstep]. rewrite Ha, Hin.
  destruct (sy_hosts _ HS _ _ Ha) as (Hup & _). rewrite Hup. cbn [andb].
  destruct (lr_running lr) eqn:Hrun; [|done]. cbn [andb].
  destruct (sy_nostray _ HS _ _ _ _ _ Ha Hin Hrun) as (h & Hh & _ & Hver).
  unfold hist_of. rewrite Hh. cbn. rewrite Hver, N.ltb_irrefl. done.
Qed.

(** ** time passes *)
Definition stamped_all (st : fstate) (t : N) : Prop :=
  ∀ s c rid n, d_view (f_db st) !! s = Some c → s_reps c !! rid = Some n → r_tick n = t.

Lemma steady_tick st t :
  Steady st → stamped_all st t →
  ∃ st', fstep P st ETick = FOk st' ∧ Steady st' ∧ stamped_all st' t ∧ d_tick (f_db st') = d_tick (f_db st) + p_step P ∧
         f_hosts st' = f_hosts st ∧ f_hist st' = f_hist st.
Proof.
  intros HS Hst. pose proof (sy_inv _ HS) as HI.
  pose proof (step_tick_no_panic P st HI) as Hnp. destruct (fstep P st ETick) as [st'| |] eqn:E; [| |done].
  2:{ cbn [fstep] in E. by destruct (db_step P (f_db st) CTick). }
  pose proof (step_tick P st st' HI E) as HI'.
  cbn [fstep] in E. unfold db_step in E. rewrite (li_failed _ _ _ _ _ HI) in E. unfold apply_tick in E.
  cbn [d_deadline set_tick] in E. rewrite (li_deadline _ _ _ _ _ HI) in E. cbn [N.ltb andb] in E. injection E as <-.
  eexists. split; [done|]. unfold set_db. cbn [f_db f_hosts f_hist f_seen d_tick set_tick].
  split; [|done]. destruct HS. split; cbn [f_db f_hosts f_hist f_seen]; try done. cbn. lia.
Qed.

Lemma steady_ticks st t n :
  Steady st → stamped_all st t →
  ∃ st', steps P st (replicate n ETick) = Some st' ∧ Steady st' ∧ stamped_all st' t ∧
         d_tick (f_db st') = d_tick (f_db st) + N.of_nat n * p_step P ∧ f_hosts st' = f_hosts st ∧ f_hist st' = f_hist st.
Proof.
  revert st. induction n as [|n IH]; intros st HS Hst; cbn [replicate steps].
  - exists st. split; [done|]. split; [done|]. split; [done|]. split; [lia|done].
  - destruct (steady_tick st t HS Hst) as (st1 & E1 & HS1 & Hst1 & Ht1 & Hh1 & Hhi1). rewrite E1.
    destruct (IH st1 HS1 Hst1) as (st2 & E2 & HS2 & Hst2 & Ht2 & Hh2 & Hhi2).
    exists st2. split; [done|]. split; [done|]. split; [done|]. split; [lia|]. split; congruence.
Qed.

(** ** the round *)
Lemma host_addrs_elem st a : a ∈ host_addrs st ↔ is_Some (f_hosts st !! a).
Proof.
  unfold host_addrs. rewrite merge_sort_Permutation. rewrite elem_of_list_fmap. split.
  - intros ([a' fh] & -> & Hin). apply elem_of_map_to_list in Hin. by eexists.
  - intros [fh Ha]. exists (a, fh). split; [done|]. by apply elem_of_map_to_list.
Qed.

Lemma steady_view_members st s c rid n :
  Steady st → d_view (f_db st) !! s = Some c → s_reps c !! rid = Some n →
  ∃ h a fh lr, f_hist st !! s = Some h ∧ f_hosts st !! a = Some fh ∧ fh_reps fh !! (s, rid) = Some lr ∧ lr_running lr = true.
Proof.
  intros HS Hc Hn. pose proof (sy_inv _ HS) as HI.
  destruct (li_view _ _ _ _ _ HI s c Hc) as (_ & HH & _). unfold Hf, hist_of in HH.
  destruct (f_hist st !! s) as [h|] eqn:Hh; [|done]. cbn in HH.
  destruct (sy_members _ HS s h Hh) as (c' & Hc' & Hcc & Hmem). assert (c' = c) as -> by congruence.
  destruct (cur_entry_at _ _ _ HI Hh) as [Hcur Hcurin].
  rewrite Hcc, Hcur in HH. injection HH as HH.
  assert (cur_members h !! rid = Some (r_addr n)) as Hm by (by rewrite HH, lookup_fmap, Hn).
  destruct (Hmem _ _ Hm) as (fh & lr & Ha & Hk & Hrun & _). exists h, (r_addr n), fh, lr. done.
Qed.

Theorem steady_round st st' plogs nticks o :
  Steady st → (0 < nticks)%nat → N.of_nat nticks * p_step P ≤ p_ttl P →
  healthy_round P plogs nticks o st = Some st' →
  o = OBatch [] ∧ Steady st' ∧ healed P st' = true.
Proof.
  intros HS Hnt Httl. unfold healthy_round.
  set (t := d_tick (f_db st)).
  assert (HR0 : reported st (λ _, False) t) by (intros ? ? ? ? ? []).
  destruct (all_report st t plogs (host_addrs st) (λ _, False) HS HR0 eq_refl) as (st1 & E1 & HS1 & HR1 & Ht1 & Hh1 & Hhi1).
  { intros a. apply host_addrs_elem. }
  rewrite E1.
  rewrite (steady_execs st1 (host_addrs st1) HS1) by (intros a; apply host_addrs_elem).
  rewrite (steady_catch_up st1 HS1).
  assert (Hst1 : stamped_all st1 t).
  { intros s c rid n Hc Hn. destruct (steady_view_members st1 s c rid n HS1 Hc Hn) as (h & a & fh & lr & Hh & Ha & Hk & Hrun).
    destruct (HR1 a fh s rid lr) as (c0 & n0 & Hc0 & Hn0 & Ht0); try done.
    - right. apply host_addrs_elem. rewrite <- Hh1. by eexists.
    - congruence. }
  destruct (steady_ticks st1 t nticks HS1 Hst1) as (st4 & E4 & HS4 & Hst4 & Ht4 & Hh4 & Hhi4). rewrite E4.
  destruct (fstep P st4 (ESchedule o)) as [st5| |] eqn:E5; try done. intros [= <-].
  assert (Hgap : d_tick (f_db st4) - t ≤ p_ttl P ∧ t ≠ 0).
  { rewrite Ht4, Ht1. pose proof (sy_time _ HS). unfold t. split; lia. }
  assert (Hclass : ∀ s c rid n, d_view (f_db st4) !! s = Some c → s_reps c !! rid = Some n →
            replica_failed P n (d_tick (f_db st4)) = false ∧ replica_waiting P n (d_tick (f_db st4)) = false).
  { intros s c rid n Hc Hn. specialize (Hst4 s c rid n Hc Hn). destruct Hgap as [Hg Hnz].
    unfold replica_waiting, replica_failed, entity_failed. rewrite Hst4.
    assert ((t =? 0) = false) as -> by (by apply N.eqb_neq). cbn [andb]. split; [|done]. apply N.ltb_ge. lia. }
  assert (Hhealthy : view_healthy P (ctx_of_db (f_db st4))).
  { split; [by destruct (sy_boxes _ HS4) as (_ & _ & ?)|].
    intros c Hc. unfold entries, ctx_of_db in Hc. cbn [c_view] in Hc. apply mvals_elem in Hc as [s Hs].
    unfold n_failed, n_wait, sr_failed, sr_wait, failed_replicas, waiting_replicas, now. cbn [c_tick ctx_of_db].
    split; apply length_zero_iff_nil, elem_of_nil_inv; intros n Hin; apply elem_of_list_filter in Hin as [Hcl Hin];
      apply mvals_elem in Hin as [rid Hn]; destruct (Hclass s c rid n Hs Hn) as [H1 H2]; congruence. }
  destruct (quiescent_step P st4 o st5 Hhealthy E5) as [-> ->].
  split; [done|]. split; [done|].
  (* healed *)
  pose proof (sy_inv _ HS4) as HI4.
  unfold healed. apply forallb_forall. intros [s sd] Hin. apply elem_of_list_In, elem_of_map_to_list in Hin. cbn [fst].
  destruct (sy_defined _ HS4 s sd Hin) as ([h Hh] & Hne).
  destruct (sy_members _ HS4 s h Hh) as (c & Hc & Hcc & Hmem).
  destruct (li_view _ _ _ _ _ HI4 s c Hc) as (_ & HH & _). unfold Hf, hist_of in HH. rewrite Hh in HH. cbn in HH.
  destruct (cur_entry_at _ _ _ HI4 Hh) as [Hcur Hcurin].
  rewrite Hcc, Hcur in HH. injection HH as HH.
  destruct (hist_wf_mem_ok _ _ (li_hist _ _ _ _ _ HI4 _ _ Hh) (cur_version h, cur_members h) Hcurin) as [[Hlo _] _].
  cbn [snd] in Hlo. unfold shard_size in Hlo. rewrite Hin in Hlo.
  unfold shard_healed. unfold hist_of. rewrite Hh. cbn [default].
  apply andb_true_iff. split; [apply andb_true_iff; split|].
  - unfold to_shard_state. rewrite Hc. cbn [ss_unavailable]. apply negb_true_iff, negb_false_iff.
    unfold shard_available. apply bool_decide_eq_true.
    assert (Hok : ok_replicas P c (d_tick (f_db st4)) = mvals (s_reps c)).
    { unfold ok_replicas. apply filter_all. intros n Hn. apply mvals_elem in Hn as [rid Hn].
      destruct (Hclass s c rid n Hc Hn) as [H1 H2]. unfold replica_ok. by rewrite H1, H2. }
    rewrite Hok. unfold mvals. rewrite fmap_length. change (length (map_to_list (s_reps c))) with (size (s_reps c)).
    assert (Hsz : size (s_reps c) = size (cur_members h)) by (by rewrite HH, map_size_fmap).
    assert (0 < length (sd_members sd))%nat by (destruct (sd_members sd); [done|cbn; lia]).
    unfold quorum_of. rewrite Hsz. pose proof (Nat.div_lt (size (cur_members h)) 2 ltac:(lia) ltac:(lia)). lia.
  - apply bool_decide_eq_true. unfold shard_size. by rewrite Hin.
  - apply forallb_forall. intros [rid a] Hra. apply elem_of_list_In, elem_of_map_to_list in Hra. cbn [fst snd].
    destruct (Hmem _ _ Hra) as (fh & lr & Ha & Hk & Hrun & _). unfold member_running. rewrite Ha, Hk, Hrun.
    destruct (sy_hosts _ HS4 _ _ Ha) as (Hup & _). by rewrite Hup.
Qed.
End Live.

(** ** the decidable part of [Steady] (FleetRun.steady_restb, evaluated on the final state of replayed runs) *)
Lemma steady_restb_sound st : LoopInv st → steady_restb st = true → Steady st.
Proof.
  intros HI H. unfold steady_restb in H.
  repeat (apply andb_true_iff in H as [H ?]).
  rename H0 into Htime, H1 into Hstray, H2 into Hmem, H3 into Hkill, H4 into Hout, H5 into Hreq, H6 into Hhosts.
  apply bool_decide_eq_true in Hkill, Hout, Hreq. apply N.ltb_lt in Htime.
  split; try done.
  - intros s sd Hs. pose proof (forallb_map_to_list _ _ H s sd Hs) as Hx. cbn [fst snd] in Hx.
    apply andb_true_iff in Hx as [Hx1 Hx2]. apply bool_decide_eq_true in Hx1. apply negb_true_iff, bool_decide_eq_false in Hx2. done.
  - intros a fh Ha. pose proof (forallb_map_to_list _ _ Hhosts a fh Ha) as Hx. cbn [fst snd] in Hx.
    repeat (apply andb_true_iff in Hx as [Hx ?]). apply bool_decide_eq_true in H0, H1. done.
  - intros s h Hh. pose proof (forallb_map_to_list _ _ Hmem s h Hh) as Hx. cbn [fst snd] in Hx.
    destruct (d_view (f_db st) !! s) as [c|]; [|done]. apply andb_true_iff in Hx as [Hx1 Hx2]. apply N.eqb_eq in Hx1.
    exists c. split; [done|]. split; [done|]. intros rid a Hra.
    pose proof (forallb_map_to_list _ _ Hx2 rid a Hra) as Hy. cbn [fst snd] in Hy.
    destruct (f_hosts st !! a) as [fh|] eqn:Ea; [|done]. destruct (fh_reps fh !! (s, rid)) as [lr|] eqn:Ek; [|done].
    apply andb_true_iff in Hy as [Hy1 Hy2]. apply N.eqb_eq in Hy2. exists fh, lr. done.
  - intros a fh s rid lr Ha Hk Hrun. pose proof (forallb_map_to_list _ _ Hstray a fh Ha) as Hx. cbn [fst snd] in Hx.
    pose proof (forallb_map_to_list _ _ Hx (s, rid) lr Hk) as Hy. cbn [fst snd] in Hy. rewrite Hrun in Hy. cbn in Hy.
    destruct (f_hist st !! s) as [h|] eqn:Eh; [|done]. apply andb_true_iff in Hy as [Hy1 Hy2].
    apply bool_decide_eq_true in Hy1. apply N.eqb_eq in Hy2. exists h. done.
Qed.
