(** FleetMendProofs: healing for a class strictly larger than FleetHealProofs.Calm - the membership-change
    pipeline, except for the rounds in which a change is applied.

    [Mend]: as Calm (invariant, all NodeHosts up, Drummer's view at the current membership version), EXCEPT that
    - a shard may have a JOINER: a current member that Drummer's view shows as "waiting to be started" (added by a
      completed ADD, never reported).  The joiner may not exist on its NodeHost yet (stage "view current, joiner
      not yet created"), or exist and run without having reported (stage "joiner created, not yet reported");
      join-CREATE requests for it may sit in the mailboxes of its NodeHost.  At most one joiner per shard;
    - STRAY replicas may run: replicas of removed members that have not learned of their removal ([stray_ok]: the
      replica knows less than the current membership version and no current member of the shard lives on its
      NodeHost), and the kill list may be non-empty (stage "stray replica of the removed member still running / in
      the kill list");
    - the mailboxes may hold, next to Calm's harmless leftovers (restores for current members, ADD / DELETE with a
      stale fence, KILLs of non-members), restore requests for REMOVED members ([stale_restore]: executed, they
      restart the removed replica, which is then a stray) and KILL requests for strays.
    The other members are as in Calm: stopped or running, lagging or not (restores in progress), the shard may
    carry one surplus member.

    Proved, for EVERY outcome the scheduler model allows, all shards at once:
      [mend_round]   one healthy round keeps the fleet in Mend; the scheduler can only answer with a batch of
                     restore, join-CREATE and KILL requests (no ADD, no DELETE, no error, no panic); running
                     members keep running;
      [mend_progress] a rank strictly decreases in every healthy round while the fleet is not healed;
      [mend_heal]    after detect_rounds + 4 healthy rounds the fleet is healed ([mend_heal_ge]: and stays so);
      [calm_mend]    Calm ⊆ Mend.
    Stages of the pipeline NOT covered here: Drummer's view behind the current membership (ADD or DELETE
    applied, not yet reported: FleetMendAProofs.v); ADD / DELETE requests with a CURRENT fence still in a
    mailbox, i.e. the round in which a change is applied (open). *)
From stdpp Require Import gmap list numbers sorting.
From Coq Require Import ZifyN ZifyNat ZifyBool Lia.
From Drummer.Model Require Import DB Sched Fleet FleetRun MailboxSpec FleetRounds.
From Drummer.Proofs Require Import DBProofs DBViewProofs DBTimeProofs SchedProofs SchedTotal MailboxProofs FleetProofs FleetLiveProofs FleetHealProofs.
Local Open Scope N_scope.
Notation hist_of := Fleet.hist_of.

(** * the class of states *)
(* a join-CREATE for a current member, addressed to the member's NodeHost [a] *)
Definition good_join (hist : gmap N (list hentry)) (a : N) (q : request) : Prop :=
  is_create q = true ∧ q_join q = true ∧ q_restore q = false ∧
  ∃ h, hist !! q_shard q = Some h ∧ cur_members h !! q_inst q = Some a.

(* a restore request for a member that has been removed since, addressed to a NodeHost [a] on which no current member
   of the shard lives: if the replica's data is still there the replica is restarted (it has not learned of its
   removal) and runs until Drummer has it killed *)
Definition stale_restore (hist : gmap N (list hentry)) (a : N) (q : request) : Prop :=
  is_restore q = true ∧ q_join q = false ∧
  ∃ h, hist !! q_shard q = Some h ∧ cur_members h !! q_inst q = None ∧ (∀ r', cur_members h !! r' ≠ Some a) ∧
       q_shard q ≠ 0 ∧ q_inst q ≠ 0 ∧ a ≠ 0.

Definition mharmless (hist : gmap N (list hentry)) (a : N) (q : request) : Prop :=
  harmless hist q ∨ good_join hist a q ∨ stale_restore hist a q.

(* request q waits for NodeHost a: in Requests[a], Outgoing[a] or a's queue *)
Definition boxed_at (st : fstate) (a : N) (q : request) : Prop :=
  (∃ qs, d_requests (f_db st) !! a = Some qs ∧ q ∈ qs) ∨ (∃ qs, d_outgoing (f_db st) !! a = Some qs ∧ q ∈ qs) ∨
  (∃ fh, f_hosts st !! a = Some fh ∧ q ∈ fh_queue fh).

(* a running replica that is not a current member (the replica of a removed member): it knows less than the current
   membership version - so Drummer asks for its KILL whenever it reports -, and no current member of the shard lives on
   its NodeHost *)
Definition stray_ok (hist : gmap N (list hentry)) (a s rid : N) (lr : lrep) : Prop :=
  ∃ h, hist !! s = Some h ∧ cur_members h !! rid = None ∧ lr_ver lr < cur_version h ∧
       (∀ r', cur_members h !! r' ≠ Some a) ∧ s ≠ 0 ∧ rid ≠ 0 ∧ a ≠ 0.

(* the member has reported at least once *)
Definition stamped (d : db) (s rid : N) : Prop := ∃ n, rec_of (d_view d) s rid = Some n ∧ r_tick n ≠ 0.

Record Mend (st : fstate) : Prop := mkMend {
  md_inv : LoopInv st;
  md_timeok : time_ok (f_db st);
  md_time : 0 < d_tick (f_db st);
  md_defined : ∀ s sd, d_shards (f_db st) !! s = Some sd → is_Some (f_hist st !! s) ∧ sd_members sd ≠ [] ∧ sd_app sd ≠ 0;
  md_viewdef : ∀ s, is_Some (d_view (f_db st) !! s) → is_Some (d_shards (f_db st) !! s) ∧ is_Some (f_hist st !! s);
  md_hosts : ∀ a fh, f_hosts st !! a = Some fh → fh_up fh = true ∧ fh_out fh = None;
  md_kill : ∀ k, k ∈ d_kill (f_db st) → k_shard k ≠ 0 ∧ k_replica k ≠ 0 ∧ k_addr k ≠ 0;
  md_boxes : ∀ a q, boxed_at st a q → mharmless (f_hist st) a q;
  md_members : ∀ s h, f_hist st !! s = Some h →
    ∃ c, d_view (f_db st) !! s = Some c ∧ s_cci c = cur_version h ∧
         ∀ rid a, cur_members h !! rid = Some a →
           rid ≠ 0 ∧ a ≠ 0 ∧ ∃ fh, f_hosts st !! a = Some fh ∧ (stamped (f_db st) s rid → is_Some (fh_reps fh !! (s, rid)));
  md_waiting : ∀ s c rid n, d_view (f_db st) !! s = Some c → s_reps c !! rid = Some n → r_tick n = 0 → r_first n ≠ 0;
  md_onejoin : ∀ s c r1 r2 n1 n2, d_view (f_db st) !! s = Some c → s_reps c !! r1 = Some n1 → s_reps c !! r2 = Some n2 →
    r_tick n1 = 0 → r_tick n2 = 0 → r1 = r2;
  md_home : ∀ a fh s rid lr h a', f_hosts st !! a = Some fh → fh_reps fh !! (s, rid) = Some lr →
    f_hist st !! s = Some h → cur_members h !! rid = Some a' → a' = a;
  md_nostray : ∀ a fh s rid lr, f_hosts st !! a = Some fh → fh_reps fh !! (s, rid) = Some lr → lr_running lr = true →
    (∃ h, f_hist st !! s = Some h ∧ is_Some (cur_members h !! rid)) ∨ stray_ok (f_hist st) a s rid lr }.

Lemma boxed_at_boxed st a q : boxed_at st a q → boxed st q.
Proof. intros [(qs & ? & ?)|[(qs & ? & ?)|(fh & ? & ?)]]; [left|right; left|right; right; left]; eauto. Qed.

Theorem calm_mend st : Calm st → Mend st.
Proof.
  intros HC. split.
  - apply (cm_inv _ HC).
  - apply (cm_timeok _ HC).
  - apply (cm_time _ HC).
  - apply (cm_defined _ HC).
  - apply (cm_viewdef _ HC).
  - apply (cm_hosts _ HC).
  - intros k Hk. rewrite (cm_kill _ HC) in Hk. by apply elem_of_nil in Hk.
  - intros a q Hq. left. apply (cm_boxes _ HC). by eapply boxed_at_boxed.
  - intros s h Hh. destruct (cm_members _ HC s h Hh) as (c & Hc & Hcc & Hmem). exists c. split; [done|]. split; [done|].
    intros rid a Hm. destruct (Hmem rid a Hm) as (H1 & H2 & fh & lr & Hfh & Hk). split; [done|]. split; [done|].
    exists fh. split; [done|]. intros _. by eexists.
  - intros s c rid n Hc Hn Hz. by destruct (cm_stamped _ HC s c rid n Hc Hn).
  - intros s c r1 r2 n1 n2 Hc H1 H2 Hz. by destruct (cm_stamped _ HC s c r1 n1 Hc H1).
  - apply (cm_home _ HC).
  - intros a fh s rid lr Ha Hk Hr. left. by apply (cm_nostray _ HC a fh s rid lr).
Qed.

(* the host side *)
Record HMend (hist : gmap N (list hentry)) (hosts : gmap N fhost) : Prop := mkHMend {
  hm_up : ∀ a fh, hosts !! a = Some fh → fh_up fh = true ∧ fh_out fh = None;
  hm_hosts : ∀ s h rid a, hist !! s = Some h → cur_members h !! rid = Some a → is_Some (hosts !! a);
  hm_home : ∀ a fh s rid lr h a', hosts !! a = Some fh → fh_reps fh !! (s, rid) = Some lr →
    hist !! s = Some h → cur_members h !! rid = Some a' → a' = a;
  hm_nostray : ∀ a fh s rid lr, hosts !! a = Some fh → fh_reps fh !! (s, rid) = Some lr → lr_running lr = true →
    (∃ h, hist !! s = Some h ∧ is_Some (cur_members h !! rid)) ∨ stray_ok hist a s rid lr;
  hm_old : ∀ a fh s rid lr h, hosts !! a = Some fh → fh_reps fh !! (s, rid) = Some lr → hist !! s = Some h →
    cur_members h !! rid = None → lr_ver lr < cur_version h ∨ removed_at h rid (lr_ver lr) = true }.

(* the replica of a non-member knows less than the current membership version, or that it was removed *)
Lemma old_rep st a fh s rid lr h :
  LoopInv st → f_hosts st !! a = Some fh → fh_reps fh !! (s, rid) = Some lr → f_hist st !! s = Some h →
  cur_members h !! rid = None → lr_ver lr < cur_version h ∨ removed_at h rid (lr_ver lr) = true.
Proof.
  intros HI Ha Hk Hh Hnm. pose proof (rep_ver_le st a fh s rid lr h HI Ha Hk Hh) as Hle.
  destruct (decide (lr_ver lr < cur_version h)) as [?|Hge]; [by left|right]. assert (Heq : lr_ver lr = cur_version h) by lia.
  destruct (cur_entry_at _ _ _ HI Hh) as [Hcur _]. pose proof (li_hist _ _ _ _ _ HI _ _ Hh) as Hw.
  destruct (li_reps _ _ _ _ _ HI a fh (s, rid) lr Ha Hk) as (h' & c & Hh' & Hc & _ & (v0 & M0 & Hv0 & Hm0 & Hle0)).
  cbn [fst snd] in Hh', Hc, Hm0. assert (h' = h) as -> by congruence.
  destruct (li_view _ _ _ _ _ HI s c Hc) as (_ & HH & _). unfold Hf, Fleet.hist_of in HH. rewrite Hh in HH. cbn in HH.
  pose proof (hist_wf_le _ _ Hw _ (entry_at_Some _ _ _ HH)) as Hcle. cbn [fst] in Hcle.
  unfold removed_at. rewrite Heq, Hcur. apply andb_true_iff. split; [apply negb_true_iff; by apply is_member_false|].
  apply existsb_exists. exists (v0, M0). split; [apply elem_of_list_In; by apply entry_at_Some|]. cbn [fst snd].
  apply andb_true_iff. split; [|done]. apply N.ltb_lt.
  destruct (decide (v0 = cur_version h)) as [->|?]; [|lia]. rewrite Hcur in Hv0. injection Hv0 as <-.
  apply is_member_true in Hm0 as [? Hm0]. congruence.
Qed.

Lemma mend_hmend st : Mend st → HMend (f_hist st) (f_hosts st).
Proof.
  intros HM. split.
  - apply (md_hosts _ HM).
  - intros s h rid a Hh Hm. destruct (md_members _ HM s h Hh) as (c & _ & _ & Hmem). destruct (Hmem rid a Hm) as (_ & _ & fh & Hfh & _). by eexists.
  - apply (md_home _ HM).
  - apply (md_nostray _ HM).
  - intros a fh s rid lr h. apply old_rep. apply (md_inv _ HM).
Qed.

(* the key of a current member *)
Definition mkey (hist : gmap N (list hentry)) (k : N * N) : Prop := ∃ h0, hist !! k.1 = Some h0 ∧ is_Some (cur_members h0 !! k.2).

(* the data of current members only appears *)
Definition data_mono (hist : gmap N (list hentry)) (hosts hosts' : gmap N fhost) : Prop :=
  ∀ a fh k, hosts !! a = Some fh → is_Some (fh_reps fh !! k) → mkey hist k → ∃ fh', hosts' !! a = Some fh' ∧ is_Some (fh_reps fh' !! k).

Lemma data_mono_refl hist hosts : data_mono hist hosts hosts.
Proof. intros a fh k Ha Hk _. by exists fh. Qed.
Lemma data_mono_trans hist h1 h2 h3 : data_mono hist h1 h2 → data_mono hist h2 h3 → data_mono hist h1 h3.
Proof. intros H12 H23 a fh k Ha Hk Hm. destruct (H12 a fh k Ha Hk Hm) as (fh2 & Ha2 & Hk2). by apply (H23 a fh2 k). Qed.
Lemma same_data_mono hist hosts hosts' : same_data hosts hosts' → data_mono hist hosts hosts'.
Proof.
  intros Hs a fh k Ha Hk _. specialize (Hs a). rewrite Ha in Hs. destruct Hs as (fh' & Ha' & Hkeys). exists fh'. split; [done|]. by apply Hkeys.
Qed.

(* the hosts change, the DB and the histories do not *)
Lemma mend_change_hosts st st' :
  Mend st → LoopInv st' → f_db st' = f_db st → f_hist st' = f_hist st → HMend (f_hist st) (f_hosts st') →
  data_mono (f_hist st) (f_hosts st) (f_hosts st') →
  (∀ a q, boxed_at st' a q → boxed_at st a q) → Mend st'.
Proof.
  intros HM HI Ed Eh HH Hdm Hbox. split; try rewrite Ed; try rewrite Eh.
  - exact HI.
  - apply (md_timeok _ HM).
  - apply (md_time _ HM).
  - apply (md_defined _ HM).
  - apply (md_viewdef _ HM).
  - apply (hm_up _ _ HH).
  - apply (md_kill _ HM).
  - intros a q Hq. apply (md_boxes _ HM), Hbox, Hq.
  - intros s h Hh. destruct (md_members _ HM s h Hh) as (c & Hc & Hcc & Hmem). exists c. split; [done|]. split; [done|].
    intros rid a Hm. destruct (Hmem rid a Hm) as (H1 & H2 & fh & Hfh & Hdata). split; [done|]. split; [done|].
    destruct (hm_hosts _ _ HH s h rid a Hh Hm) as [fh' Hfh']. exists fh'. split; [done|]. intros Hst.
    destruct (Hdm a fh (s, rid) Hfh (Hdata Hst)) as (fh2 & Hfh2 & Hk2); [exists h; split; [done|by eexists]|]. congruence.
  - apply (md_waiting _ HM).
  - apply (md_onejoin _ HM).
  - apply (hm_home _ _ HH).
  - apply (hm_nostray _ _ HH).
Qed.

(** * executing requests *)
(* replicas are started, created, or learn; nothing else changes on the hosts *)
Definition grows (hist : gmap N (list hentry)) (hosts hosts' : gmap N fhost) : Prop :=
  ∀ a, match hosts !! a with
       | Some fh => ∃ fh', hosts' !! a = Some fh' ∧ fh_up fh' = fh_up fh ∧ fh_queue fh' = fh_queue fh ∧ fh_out fh' = fh_out fh ∧
           ∀ k lr, fh_reps fh !! k = Some lr →
             (∃ lr', fh_reps fh' !! k = Some lr' ∧ (lr_running lr = true → lr_running lr' = true)) ∨ ¬ mkey hist k
       | None => hosts' !! a = None
       end.

Lemma grows_refl hist hosts : grows hist hosts hosts.
Proof. intros a. destruct (hosts !! a) as [fh|]; [|done]. exists fh. repeat (split; [done|]). intros k lr Hk. left. by exists lr. Qed.

Lemma grows_trans hist h1 h2 h3 : grows hist h1 h2 → grows hist h2 h3 → grows hist h1 h3.
Proof.
  intros H12 H23 a. specialize (H12 a). specialize (H23 a). destruct (h1 !! a) as [fh1|].
  - destruct H12 as (fh2 & E2 & U2 & Q2 & O2 & R2). rewrite E2 in H23. destruct H23 as (fh3 & E3 & U3 & Q3 & O3 & R3).
    exists fh3. split; [done|]. split; [congruence|]. split; [congruence|]. split; [congruence|].
    intros k lr1 Hk1. destruct (R2 k lr1 Hk1) as [(lr2 & K2 & M2)|Hs]; [|by right].
    destruct (R3 k lr2 K2) as [(lr3 & K3 & M3)|Hs]; [|by right]. left. exists lr3. split; [done|]. auto.
  - by rewrite H12 in H23.
Qed.

Lemma grows_running hist hosts hosts' s rid a :
  grows hist hosts hosts' → mkey hist (s, rid) → member_running hosts s rid a = true → member_running hosts' s rid a = true.
Proof.
  intros He Hm. unfold member_running. specialize (He a). destruct (hosts !! a) as [fh|]; [|done].
  destruct He as (fh' & -> & -> & _ & _ & Hr).
  destruct (fh_up fh); [|done]. cbn [andb]. destruct (fh_reps fh !! (s, rid)) as [lr|] eqn:Ek; [|done].
  destruct (Hr _ _ Ek) as [(lr' & -> & Hmm)|Hs]; [exact Hmm|done].
Qed.

Lemma grows_data hist hosts hosts' : grows hist hosts hosts' → data_mono hist hosts hosts'.
Proof.
  intros He a fh k Ha [lr Hk] Hm. specialize (He a). rewrite Ha in He. destruct He as (fh' & E & _ & _ & _ & Hr).
  destruct (Hr k lr Hk) as [(lr' & Hlr' & _)|Hs]; [|done]. exists fh'. split; [done|]. by eexists.
Qed.

(* one host record is replaced by one with more / started replicas *)
Lemma grows_insert hist hosts h fh reps' :
  hosts !! h = Some fh →
  (∀ k lr, fh_reps fh !! k = Some lr → (∃ lr', reps' !! k = Some lr' ∧ (lr_running lr = true → lr_running lr' = true)) ∨ ¬ mkey hist k) →
  grows hist hosts (<[h := mkFHost (fh_up fh) (fh_region fh) reps' (fh_queue fh) (fh_out fh)]> hosts).
Proof.
  intros Hfh Hr a. destruct (decide (a = h)) as [->|Hne].
  - rewrite Hfh, lookup_insert. eexists. repeat (split; [done|]). exact Hr.
  - rewrite lookup_insert_ne by done. destruct (hosts !! a) as [fh0|]; [|done]. exists fh0. repeat (split; [done|]).
    intros k lr Hk. left. by exists lr.
Qed.

(* HMend after one host got a started / new replica of a current member whose address it is *)
Lemma hmend_insert hist hosts h fh reps' :
  HMend hist hosts → hosts !! h = Some fh →
  (∀ k lr', reps' !! k = Some lr' →
     (∃ lr, fh_reps fh !! k = Some lr ∧ lr_ver lr' = lr_ver lr ∧
            (lr_running lr' = true → lr_running lr = true ∨ (∃ h0, hist !! k.1 = Some h0 ∧ is_Some (cur_members h0 !! k.2)) ∨ stray_ok hist h k.1 k.2 lr')) ∨
     (∃ h0, hist !! k.1 = Some h0 ∧ cur_members h0 !! k.2 = Some h)) →
  HMend hist (<[h := mkFHost (fh_up fh) (fh_region fh) reps' (fh_queue fh) (fh_out fh)]> hosts).
Proof.
  intros HH Hfh Hnew. split.
  - intros a0 fh0. destruct (decide (a0 = h)) as [->|Hne].
    + rewrite lookup_insert. intros [= <-]. cbn. apply (hm_up _ _ HH _ _ Hfh).
    + rewrite lookup_insert_ne by done. apply (hm_up _ _ HH).
  - intros s h0 rid a Hh0 Hm. destruct (decide (a = h)) as [->|Hne]; [rewrite lookup_insert; by eexists|].
    rewrite lookup_insert_ne by done. by apply (hm_hosts _ _ HH s h0 rid a).
  - intros a0 fh0 s rid lr h0 a'. destruct (decide (a0 = h)) as [->|Hne].
    + rewrite lookup_insert. intros [= <-] Hk Hh0 Hm. cbn [fh_reps] in Hk.
      destruct (Hnew _ _ Hk) as [(lr0 & Hk0 & _ & _)|(h1 & Hh1 & Hm1)].
      * by apply (hm_home _ _ HH h fh s rid lr0 h0 a').
      * cbn [fst snd] in Hh1, Hm1. congruence.
    + rewrite lookup_insert_ne by done. apply (hm_home _ _ HH).
  - intros a0 fh0 s rid lr. destruct (decide (a0 = h)) as [->|Hne].
    + rewrite lookup_insert. intros [= <-] Hk Hr. cbn [fh_reps] in Hk.
      destruct (Hnew _ _ Hk) as [(lr0 & Hk0 & Hver & Hrun)|(h1 & Hh1 & Hm1)].
      * destruct (Hrun Hr) as [Hr0|[Hmem|Hst]]; [|by left|by right].
        destruct (hm_nostray _ _ HH h fh s rid lr0 Hfh Hk0 Hr0) as [?|(hs & Hhs & Hnm & Hlt & Hrest)]; [by left|].
        right. exists hs. rewrite Hver. done.
      * cbn [fst snd] in Hh1, Hm1. left. exists h1. split; [done|]. by eexists.
    + rewrite lookup_insert_ne by done. apply (hm_nostray _ _ HH).
  - intros a0 fh0 s rid lr h0. destruct (decide (a0 = h)) as [->|Hne].
    + rewrite lookup_insert. intros [= <-] Hk Hh0 Hnm. cbn [fh_reps] in Hk.
      destruct (Hnew _ _ Hk) as [(lr0 & Hk0 & Hver & _)|(h1 & Hh1 & Hm1)].
      * rewrite Hver. by apply (hm_old _ _ HH h fh s rid lr0 h0).
      * cbn [fst snd] in Hh1, Hm1. congruence.
    + rewrite lookup_insert_ne by done. apply (hm_old _ _ HH).
Qed.

(* starting a replica that exists on the host: restore, or join of a replica that was already created *)
Lemma start_member sz hist h x fh s rid lr a :
  hists_wf sz hist → x.2 = hist → HMend hist x.1 → x.1 !! h = Some fh → fh_reps fh !! (s, rid) = Some lr →
  (∃ h0, hist !! s = Some h0 ∧ cur_members h0 !! rid = Some a) →
  let x' := start_existing h x (fh_reps fh) s rid lr in
  x'.2 = hist ∧ HMend hist x'.1 ∧ grows hist x.1 x'.1 ∧ member_running x'.1 s rid h = true.
Proof.
  intros Hwf Hx2 HH Hfh Ek (h0 & Hh0 & Hmem). pose proof (Hwf _ _ Hh0) as Hw.
  assert (Ha : a = h) by (eapply (hm_home _ _ HH h fh s rid lr h0 a); eauto).
  assert (Hrem : removed_at h0 rid (lr_ver lr) = false) by (apply (member_not_removed_wf _ h0 rid _ Hw); by eexists).
  unfold start_existing. unfold hist_of. rewrite Hx2, Hh0. cbn [default from_option id]. rewrite Hrem, orb_false_r.
  destruct (hm_up _ _ HH _ _ Hfh) as [Hup Hout].
  destruct (busy (fh_reps fh) s) eqn:Eb.
  - split; [done|]. split; [done|]. split; [apply grows_refl|].
    apply busy_spec in Eb as (rid' & lr' & Hk' & Hr').
    destruct (hm_nostray _ _ HH h fh s rid' lr' Hfh Hk' Hr') as [(h1 & Hh1 & [a' Hm'])|(h1 & Hh1 & _ & _ & Hno & _)];
      [|assert (h1 = h0) as -> by congruence; subst a; by destruct (Hno rid)].
    assert (h1 = h0) as -> by congruence.
    assert (a' = h) by (eapply (hm_home _ _ HH h fh s rid' lr' h0 a'); eauto). subst a' a.
    assert (Hcur : (cur_version h0, cur_members h0) ∈ h0) by (apply cur_in; intros ->; by apply hist_wf_nonempty in Hw).
    destruct (hist_wf_mem_ok _ _ Hw _ Hcur) as [_ Hinj]. cbn [snd] in Hinj.
    assert (rid' = rid) as -> by (eapply Hinj; eauto).
    unfold member_running. rewrite Hfh, Hup, Ek. cbn. congruence.
  - cbn [fst snd]. unfold set_reps. rewrite Hfh. split; [done|].
    set (reps' := <[(s, rid) := mkLRep true (lr_ver lr)]> (fh_reps fh)).
    split; [|split].
    + apply hmend_insert; [done|done|]. intros k lr' Hk. unfold reps' in Hk. destruct (decide (k = (s, rid))) as [->|Hne].
      * rewrite lookup_insert in Hk. injection Hk as <-. left. exists lr. split; [done|]. split; [done|]. intros _. right; left. exists h0. cbn. split; [done|]. by eexists.
      * rewrite lookup_insert_ne in Hk by done. left. exists lr'. split; [done|]. split; [done|]. by left.
    + apply grows_insert; [done|]. intros k lr0 Hk. left. unfold reps'. destruct (decide (k = (s, rid))) as [->|Hne].
      * rewrite lookup_insert. by eexists.
      * rewrite lookup_insert_ne by done. by exists lr0.
    + unfold member_running. rewrite lookup_insert. cbn [fh_up fh_reps]. unfold reps'. rewrite lookup_insert, Hup. done.
Qed.

(* a restore request for a current member *)
Lemma mexec_restore sz hist h q x :
  hists_wf sz hist → x.2 = hist → HMend hist x.1 → good_restore hist q → is_Some (x.1 !! h) →
  ∃ x', exec_req h true x q = Some x' ∧ x'.2 = hist ∧ HMend hist x'.1 ∧ grows hist x.1 x'.1 ∧
        ∀ fh, x.1 !! h = Some fh → is_Some (fh_reps fh !! (q_shard q, q_inst q)) →
              member_running x'.1 (q_shard q) (q_inst q) h = true.
Proof.
  intros Hwf Hx2 HH (Hres & Hjoin & h0 & a & Hh0 & Hmem) [fh Hfh].
  unfold is_restore, is_create in Hres. apply andb_true_iff in Hres as [Hty Hre].
  unfold exec_req. rewrite Hfh. destruct (q_type q); try done. rewrite Hjoin, Hre.
  destruct (fh_reps fh !! (q_shard q, q_inst q)) as [lr|] eqn:Ek.
  2:{ exists x. split; [done|]. split; [done|]. split; [done|]. split; [apply grows_refl|].
      intros fh' Hfh' [? Hk]. assert (fh' = fh) as -> by congruence. congruence. }
  destruct (start_member sz hist h x fh (q_shard q) (q_inst q) lr a Hwf Hx2 HH Hfh Ek) as (H1 & H2 & H3 & H4); [by exists h0|].
  eexists. split; [done|]. split; [done|]. split; [done|]. split; [done|]. intros _ _ _. exact H4.
Qed.

(* a join-CREATE for a current member on its NodeHost: the replica exists and runs afterwards *)
Lemma mexec_join sz hist h q x :
  hists_wf sz hist → x.2 = hist → HMend hist x.1 → good_join hist h q → is_Some (x.1 !! h) →
  ∃ x', exec_req h true x q = Some x' ∧ x'.2 = hist ∧ HMend hist x'.1 ∧ grows hist x.1 x'.1 ∧
        member_running x'.1 (q_shard q) (q_inst q) h = true.
Proof.
  intros Hwf Hx2 HH (Hcr & Hjoin & Hre & h0 & Hh0 & Hmem) [fh Hfh]. unfold is_create in Hcr.
  unfold exec_req. rewrite Hfh. destruct (q_type q); try done. rewrite Hjoin, Hre.
  set (s := q_shard q) in *. set (rid := q_inst q) in *.
  destruct (fh_reps fh !! (s, rid)) as [lr|] eqn:Ek.
  { destruct (start_member sz hist h x fh s rid lr h Hwf Hx2 HH Hfh Ek) as (H1 & H2 & H3 & H4); [by exists h0|].
    eexists. split; [done|]. done. }
  pose proof (Hwf _ _ Hh0) as Hw. destruct (hm_up _ _ HH _ _ Hfh) as [Hup Hout].
  destruct (busy (fh_reps fh) s) eqn:Eb.
  - (* another replica of the shard runs on this host: impossible, it would be a current member with this address *)
    exfalso. apply busy_spec in Eb as (rid' & lr' & Hk' & Hr').
    destruct (hm_nostray _ _ HH h fh s rid' lr' Hfh Hk' Hr') as [(h1 & Hh1 & [a' Hm'])|(h1 & Hh1 & _ & _ & Hno & _)];
      [|assert (h1 = h0) as -> by congruence; by destruct (Hno rid)].
    assert (h1 = h0) as -> by congruence.
    assert (a' = h) by (eapply (hm_home _ _ HH h fh s rid' lr' h0 a'); eauto). subst a'.
    assert (Hcur : (cur_version h0, cur_members h0) ∈ h0) by (apply cur_in; intros ->; by apply hist_wf_nonempty in Hw).
    destruct (hist_wf_mem_ok _ _ Hw _ Hcur) as [_ Hinj]. cbn [snd] in Hinj.
    assert (rid' = rid) as -> by (eapply Hinj; eauto). congruence.
  - cbn [fst snd]. unfold set_reps. rewrite Hfh. eexists. split; [done|]. cbn [fst snd]. split; [done|].
    set (reps' := <[(s, rid) := mkLRep true 0]> (fh_reps fh)).
    split; [|split].
    + apply hmend_insert; [done|done|]. intros k lr' Hk. unfold reps' in Hk. destruct (decide (k = (s, rid))) as [->|Hne].
      * right. exists h0. done.
      * rewrite lookup_insert_ne in Hk by done. left. exists lr'. split; [done|]. split; [done|]. by left.
    + apply grows_insert; [done|]. intros k lr0 Hk. left. unfold reps'. destruct (decide (k = (s, rid))) as [->|Hne]; [congruence|].
      rewrite lookup_insert_ne by done. by exists lr0.
    + unfold member_running. rewrite lookup_insert. cbn [fh_up fh_reps]. unfold reps'. rewrite lookup_insert, Hup. done.
Qed.

(* the requests of a Mend fleet, executed on NodeHost h *)
Lemma mexec_one sz hist h q x :
  hists_wf sz hist → x.2 = hist → HMend hist x.1 → mharmless hist h q → is_Some (x.1 !! h) →
  ∃ x', exec_req h true x q = Some x' ∧ x'.2 = hist ∧ HMend hist x'.1 ∧ grows hist x.1 x'.1 ∧
        (∀ fh, good_restore hist q → x.1 !! h = Some fh → is_Some (fh_reps fh !! (q_shard q, q_inst q)) →
               member_running x'.1 (q_shard q) (q_inst q) h = true) ∧
        (good_join hist h q → member_running x'.1 (q_shard q) (q_inst q) h = true).
Proof.
  intros Hwf Hx2 HH Hq [fh Hfh]. destruct Hq as [[Hg|[(Hch & Hfence & Hmem & Haddr)|(Hk & y & Hy & Hdead)]]|[Hj|Hst]].
  - destruct (mexec_restore sz hist h q x Hwf Hx2 HH Hg) as (x' & E & H1 & H2 & H3 & H4); [by eexists|].
    exists x'. repeat (split; [done|]). split; [intros fh0 _; apply H4|].
    intros (_ & Hjt & _). destruct Hg as (_ & Hjf & _). congruence.
  - assert (Hnop : exec_req h true x q = Some x).
    { unfold exec_req. rewrite Hfh. unfold is_change, is_add, is_delete in Hch, Haddr.
      destruct (q_type q) eqn:Et; try done.
      - destruct (q_members q) as [|rid ms]; [done|]. f_equal. unfold hist_of in *. rewrite Hx2.
        destruct (default [] (hist !! q_shard q)) as [|e hs]; [done|]. cbn [cur_version] in Hfence.
        unfold cc_ready. assert ((q_ccid q =? e.1) = false) as -> by (by apply N.eqb_neq). by rewrite !andb_false_r.
      - destruct (q_members q) as [|rid ms]; [done|]. destruct (q_addrs q) as [|t ts]; [by destruct Haddr|]. f_equal.
        unfold hist_of in *. rewrite Hx2.
        destruct (default [] (hist !! q_shard q)) as [|e hs]; [done|]. cbn [cur_version] in Hfence.
        unfold cc_ready. assert ((q_ccid q =? e.1) = false) as -> by (by apply N.eqb_neq). by rewrite !andb_false_r. }
    exists x. split; [done|]. split; [done|]. split; [done|]. split; [apply grows_refl|]. split.
    + intros fh0 (Hres & _). unfold is_restore, is_create in Hres. unfold is_change, is_add, is_delete in Hch. by destruct (q_type q).
    + intros (Hcr & _). unfold is_create in Hcr. unfold is_change, is_add, is_delete in Hch. by destruct (q_type q).
  - assert (Hnr : is_restore q = false) by (unfold is_restore, is_create; unfold is_kill in Hk; by destruct (q_type q)).
    assert (Hnj : ¬ good_join hist h q) by (intros (Hcr & _); unfold is_create in Hcr; unfold is_kill in Hk; by destruct (q_type q)).
    assert (Hex : exec_req h true x q = Some x ∨
                  ∃ lr, fh_reps fh !! (q_shard q, y) = Some lr ∧ lr_running lr = true ∧
                        exec_req h true x q = Some (set_reps x.1 h (delete (q_shard q, y) (fh_reps fh)), x.2)).
    { unfold exec_req. rewrite Hfh. unfold is_kill in Hk. destruct (q_type q); try done. rewrite Hy.
      destruct (fh_reps fh !! (q_shard q, y)) as [lr|] eqn:Ek; [|by left]. destruct (lr_running lr) eqn:Er; [|by left].
      right. by exists lr. }
    destruct Hex as [Hnop|(lr & Ek & Er & Hex)].
    { exists x. split; [done|]. split; [done|]. split; [done|]. split; [apply grows_refl|]. split; [intros fh0 (Hres & _); congruence|done]. }
    (* the replica of a removed member is stopped and its data deleted *)
    assert (Hstray : ∀ h0, hist !! q_shard q = Some h0 → cur_members h0 !! y = None).
    { intros h0 Hh0. apply is_member_false. by apply Hdead. }
    eexists. split; [exact Hex|]. cbn [fst snd]. split; [done|]. unfold set_reps. rewrite Hfh.
    split; [|split; [|split; [intros fh0 (Hres & _); congruence|done]]].
    + apply hmend_insert; [done|done|]. intros k lr' Hk'. apply lookup_delete_Some in Hk' as [Hne Hk'].
      left. exists lr'. split; [done|]. split; [done|]. by left.
    + apply grows_insert; [done|]. intros k lr0 Hk0. destruct (decide (k = (q_shard q, y))) as [->|Hne].
      * right. intros (h0 & Hh0 & Hm0). cbn [fst snd] in Hh0, Hm0. rewrite (Hstray h0 Hh0) in Hm0. by destruct Hm0.
      * left. exists lr0. rewrite lookup_delete_ne by done. done.
  - destruct (mexec_join sz hist h q x Hwf Hx2 HH Hj) as (x' & E & H1 & H2 & H3 & H4); [by eexists|].
    exists x'. split; [done|]. split; [done|]. split; [done|]. split; [done|]. split; [|intros _; exact H4].
    intros fh0 (Hres & _). destruct Hj as (_ & _ & Hre & _).
    unfold is_restore in Hres. rewrite Hre in Hres. by rewrite andb_false_r in Hres.
  - (* a restore request for a removed member: nothing, or the replica starts and is a stray *)
    destruct Hst as (Hres & Hjoin & h0 & Hh0 & Hnm & Hno & Hs0 & Hr0 & Ha0).
    assert (Hngr : ¬ good_restore hist q) by (intros (_ & _ & h1 & b & Hh1 & Hm1); congruence).
    assert (Hngj : ¬ good_join hist h q) by (intros (_ & Hjt & _); congruence).
    pose proof Hres as Hres'. unfold is_restore, is_create in Hres'. apply andb_true_iff in Hres' as [Hty Hre].
    unfold exec_req. rewrite Hfh. destruct (q_type q); try done. rewrite Hjoin, Hre.
    destruct (fh_reps fh !! (q_shard q, q_inst q)) as [lr|] eqn:Ek.
    2:{ exists x. split; [done|]. split; [done|]. split; [done|]. split; [apply grows_refl|]. split; [intros fh0 Hg; done|done]. }
    unfold start_existing. unfold hist_of. rewrite Hx2, Hh0. cbn [default from_option id].
    destruct (busy (fh_reps fh) (q_shard q) || removed_at h0 (q_inst q) (lr_ver lr)) eqn:Eb.
    { exists x. split; [done|]. split; [done|]. split; [done|]. split; [apply grows_refl|]. split; [intros fh0 Hg; done|done]. }
    apply orb_false_iff in Eb as [Eb Erem].
    eexists. split; [done|]. cbn [fst snd]. split; [done|]. unfold set_reps. rewrite Hfh.
    split; [|split; [|split; [intros fh0 Hg; done|done]]].
    + apply hmend_insert; [done|done|]. intros k lr' Hk. destruct (decide (k = (q_shard q, q_inst q))) as [->|Hne].
      * rewrite lookup_insert in Hk. injection Hk as <-. left. exists lr. split; [done|]. split; [done|]. intros _. right; right.
        exists h0. cbn [fst snd lr_ver]. split; [done|]. split; [done|]. split; [|done].
        destruct (hm_old _ _ HH h fh _ _ lr h0 Hfh Ek Hh0 Hnm) as [?|Hrm]; [done|congruence].
      * rewrite lookup_insert_ne in Hk by done. left. exists lr'. split; [done|]. split; [done|]. by left.
    + apply grows_insert; [done|]. intros k lr0 Hk. left. destruct (decide (k = (q_shard q, q_inst q))) as [->|Hne].
      * rewrite lookup_insert. by eexists.
      * rewrite lookup_insert_ne by done. by exists lr0.
Qed.

Lemma mharmless_restore hist a q h b :
  mharmless hist a q → is_restore q = true → hist !! q_shard q = Some h → cur_members h !! q_inst q = Some b → good_restore hist q.
Proof.
  intros [[Hg|[(Hch & _)|(Hk & _)]]|[(Hcr & _ & Hre & _)|(_ & _ & h1 & Hh1 & Hnm & _)]] Hres Hh Hm; [done| | | |congruence].
  - unfold is_restore, is_create in Hres. unfold is_change, is_add, is_delete in Hch. by destruct (q_type q).
  - unfold is_restore, is_create in Hres. unfold is_kill in Hk. by destruct (q_type q).
  - unfold is_restore in Hres. rewrite Hre in Hres. by rewrite andb_false_r in Hres.
Qed.

Lemma good_restore_mkey hist q : good_restore hist q → mkey hist (q_shard q, q_inst q).
Proof. intros (_ & _ & h & a & Hh & Hm). exists h. cbn. split; [done|]. by eexists. Qed.

Lemma good_join_mkey hist a q : good_join hist a q → mkey hist (q_shard q, q_inst q).
Proof. intros (_ & _ & _ & h & Hh & Hm). exists h. cbn. split; [done|]. by eexists. Qed.

Lemma mexec_all sz hist h qs : ∀ x,
  hists_wf sz hist → x.2 = hist → HMend hist x.1 → Forall (mharmless hist h) qs → is_Some (x.1 !! h) →
  ∃ x', exec_all h true x qs = Some x' ∧ x'.2 = hist ∧ HMend hist x'.1 ∧ grows hist x.1 x'.1 ∧
        (∀ q fh, q ∈ qs → good_restore hist q → x.1 !! h = Some fh → is_Some (fh_reps fh !! (q_shard q, q_inst q)) →
                 member_running x'.1 (q_shard q) (q_inst q) h = true) ∧
        (∀ q, q ∈ qs → good_join hist h q → member_running x'.1 (q_shard q) (q_inst q) h = true).
Proof.
  induction qs as [|q qs IH]; intros x Hwf Hx2 HH Hgood Hh.
  { exists x. cbn. split; [done|]. split; [done|]. split; [done|]. split; [apply grows_refl|].
    split; [intros q fh Hin; by apply elem_of_nil in Hin|intros q Hin; by apply elem_of_nil in Hin]. }
  pose proof Hgood as Hall. rewrite Forall_forall in Hall.
  apply Forall_cons_1 in Hgood as [Hg Hgood].
  destruct (mexec_one sz hist h q x Hwf Hx2 HH Hg Hh) as (x1 & E1 & Hx1 & HH1 & Hev1 & Heff1 & Hj1).
  assert (Hh1 : is_Some (x1.1 !! h)).
  { destruct Hh as [fh Hfh]. pose proof (Hev1 h) as He. rewrite Hfh in He. destruct He as (fh' & -> & _). by eexists. }
  destruct (IH x1 Hwf Hx1 HH1 Hgood Hh1) as (x2 & E2 & Hx2' & HH2 & Hev2 & Heff2 & Hj2).
  exists x2. cbn [exec_all]. rewrite E1. split; [done|]. split; [done|]. split; [done|].
  split; [by eapply grows_trans|]. split.
  - intros q0 fh Hin Hres Hfh Hk.
    assert (Hmk : mkey hist (q_shard q0, q_inst q0)) by (by apply good_restore_mkey).
    apply elem_of_cons in Hin as [->|Hin].
    + eapply grows_running; [exact Hev2|exact Hmk|]. by eapply Heff1.
    + destruct (grows_data _ _ _ Hev1 h fh _ Hfh Hk Hmk) as (fh1 & Hfh1 & Hk1). by eapply Heff2.
  - intros q0 Hin Hgj. apply elem_of_cons in Hin as [->|Hin].
    + eapply grows_running; [exact Hev2|by eapply good_join_mkey|]. by apply Hj1.
    + by apply Hj2.
Qed.

(** * one host reports, all hosts report *)
Section Mend.
Variable P : params.

(* in a calm state every entry of a report is partial: Drummer already has the current membership *)
Lemma mend_report_incomplete st a fh plog ci :
  Mend st → f_hosts st !! a = Some fh → ci ∈ rp_infos (host_report (f_db st) (f_hist st) a fh plog) → complete ci = false.
Proof.
  intros HC Ha Hci. unfold host_report in Hci. cbn [rp_infos] in Hci.
  apply elem_of_list_fmap in Hci as ([[s rid] lr] & -> & Hin). apply elem_of_list_filter in Hin as [Hrun Hin].
  apply sorted_reps_elem in Hin. cbn in Hrun, Hin.
  assert (∃ h, f_hist st !! s = Some h) as [h Hh].
  { destruct (md_nostray _ HC _ _ _ _ _ Ha Hin Hrun) as [(h & Hh & Hm)|(h & Hh & _)]; by exists h. }
  destruct (md_members _ HC _ _ Hh) as (c & Hc & Hcci & _).
  pose proof (rep_ver_le st a fh s rid lr h (md_inv _ HC) Ha Hin Hh) as Hle.
  unfold rep_info, complete. cbn [fst snd]. destruct (lr_ver lr =? 0); [done|].
  unfold view_vers. rewrite lookup_fmap, Hc. cbn. rewrite Hcci.
  assert ((lr_ver lr <=? cur_version h) = true) as -> by (apply N.leb_le; lia). done.
Qed.

Lemma mend_report st a fh plog :
  Mend st → f_hosts st !! a = Some fh →
  ∃ st', steps P st [ESnap a plog; EDeliver a false] = Some st' ∧ Mend st' ∧
    f_hist st' = f_hist st ∧ f_seen st' = f_seen st ∧
    d_tick (f_db st') = d_tick (f_db st) ∧ d_shards (f_db st') = d_shards (f_db st) ∧
    d_requests (f_db st') = delete a (d_requests (f_db st)) ∧
    f_hosts st' = <[a := mkFHost true (fh_region fh) (fh_reps fh) (fh_queue fh ++ default [] (d_requests (f_db st) !! a)) None]> (f_hosts st) ∧
    (∀ s, shard_core <$> d_view (f_db st') !! s = shard_core <$> d_view (f_db st) !! s) ∧
    (∀ s rid n', rec_of (d_view (f_db st')) s rid = Some n' →
       ∃ n, rec_of (d_view (f_db st)) s rid = Some n ∧ r_first n' = r_first n ∧
            r_tick n' = if runs_on fh s rid then d_tick (f_db st) else r_tick n) ∧
    (∃ h, d_hosts (f_db st') !! a = Some h ∧ h_tick h = d_tick (f_db st) ∧
          (plog = true → ∀ k, is_Some (fh_reps fh !! k) → k ∈ h_plog h)) ∧
    (∀ a' h, a' ≠ a → d_hosts (f_db st) !! a' = Some h →
       ∃ h', d_hosts (f_db st') !! a' = Some h' ∧ h_tick h' = h_tick h ∧ h_plog h' = h_plog h).
Proof.
  intros HC Ha. destruct (md_hosts _ HC _ _ Ha) as (Hup & Hout).
  pose proof (md_inv _ HC) as HI.
  set (r := host_report (f_db st) (f_hist st) a fh plog).
  set (fh1 := mkFHost true (fh_region fh) (fh_reps fh) (fh_queue fh) (Some r)).
  set (st1 := set_host st a fh1).
  assert (E1 : fstep P st (ESnap a plog) = FOk st1) by (cbn [fstep]; by rewrite Ha, Hup).
  pose proof (step_inv P st (ESnap a plog) st1 HI I E1) as HI1.
  assert (Ha1 : f_hosts st1 !! a = Some fh1) by (unfold st1, set_host; cbn; by rewrite lookup_insert).
  pose proof (step_deliver_no_panic P st1 a false HI1) as Hnp.
  cbn [fstep] in Hnp. rewrite Ha1 in Hnp. cbn [fh_up fh1 fh_out] in Hnp.
  destruct (db_step P (f_db st1) (CReport r)) as [d' v| |] eqn:Es; try done. clear Hnp.
  set (fh2 := mkFHost true (fh_region fh1) (fh_reps fh1) (fh_queue fh1 ++ lookup_requests d' a) None).
  set (st2 := mkF d' (<[a := fh2]> (f_hosts st1)) (f_hist st1) (f_seen st1)).
  assert (E2 : fstep P st1 (EDeliver a false) = FOk st2).
  { cbn [fstep]. rewrite Ha1. cbn [fh_up fh1 fh_out]. by rewrite Es. }
  pose proof (step_inv P st1 (EDeliver a false) st2 HI1 I E2) as HI2.
  change (f_db st1) with (f_db st) in Es.
  assert (Hn : next P (f_db st) (CReport r) = Some d') by (unfold next; by rewrite Es).
  pose proof Hn as Hn'. apply next_cases in Hn' as [[Hf' _]|[_ (view' & kill' & Hvu & Ed')]];
    [rewrite (li_failed _ _ _ _ _ HI) in Hf'; done|].
  pose proof (li_deadline _ _ _ _ _ HI) as Hdl.
  destruct (report_result_all (f_db st) (stamp (f_db st) r) view' kill' Hdl) as (F1 & F2 & F3 & F4 & F5 & F6 & F7 & F8).
  destruct (report_result_mail (f_db st) (stamp (f_db st) r) view' kill' Hdl) as [Hreply Hreqs].
  rewrite <- Ed' in F1, F2, F3, F4, F5, F6, F7, F8, Hreply, Hreqs.
  change (rp_addr (stamp (f_db st) r)) with a in Hreply, Hreqs.
  assert (Hinc : ∀ ci, ci ∈ rp_infos r → complete ci = false) by (intros ci; by apply mend_report_incomplete).
  assert (Hcore : ∀ s, shard_core <$> d_view d' !! s = shard_core <$> d_view (f_db st) !! s).
  { intros s. eapply step_inert_partial; [exact Hn|]. intros ci Hin _. by apply Hinc. }
  assert (Htick : d_tick d' = d_tick (f_db st)).
  { rewrite Ed'. by destruct (DBTimeProofs.report_result_fields (f_db st) (stamp (f_db st) r) view' kill') as (Et & _). }
  assert (Hhosts2 : <[a := fh2]> (f_hosts st1) =
            <[a := mkFHost true (fh_region fh) (fh_reps fh) (fh_queue fh ++ default [] (d_requests (f_db st) !! a)) None]> (f_hosts st)).
  { unfold st1, set_host. cbn [f_hosts]. rewrite insert_insert. unfold fh2, fh1. cbn. by rewrite Hreply. }
  assert (Hcci : ∀ s c, d_view (f_db st) !! s = Some c → ∃ c', d_view d' !! s = Some c' ∧ s_cci c' = s_cci c ∧ dom (s_reps c') = dom (s_reps c)).
  { intros s c Hc. specialize (Hcore s). rewrite Hc in Hcore. destruct (d_view d' !! s) as [c'|]; [|done].
    cbn in Hcore. injection Hcore as H1 H2 H3. exists c'. split; [done|]. split; [done|].
    apply set_eq. intros k. rewrite !elem_of_dom. rewrite <- !(fmap_is_Some rep_core), <- !lookup_fmap, H3. done. }
  assert (Hcci' : ∀ s c', d_view d' !! s = Some c' → ∃ c, d_view (f_db st) !! s = Some c ∧ s_cci c' = s_cci c ∧ dom (s_reps c') = dom (s_reps c)).
  { intros s c' Hc'. specialize (Hcore s). rewrite Hc' in Hcore. destruct (d_view (f_db st) !! s) as [c|] eqn:Ec; [|done].
    destruct (Hcci s c Ec) as (c2 & Hc2 & ? & ?). assert (c2 = c') as -> by congruence. by exists c. }
  (* the kill list: only replicas of removed members are added *)
  assert (Hkill' : ∀ k, k ∈ kill' → k_shard k ≠ 0 ∧ k_replica k ≠ 0 ∧ k_addr k ≠ 0).
  { unfold view_update in Hvu.
    destruct (update_entries (d_tick (f_db st)) (d_view (f_db st), []) (rp_infos (stamp (f_db st) r))) as [[view1 tokill]|] eqn:Eu; [|done].
    injection Hvu as _ <-. intros k Hk. apply elem_of_app in Hk as [Hk|Hk].
    { apply elem_of_list_filter in Hk as [_ Hk]. by apply (md_kill _ HC). }
    apply elem_of_list_fmap in Hk as (ci & -> & Hci). cbn [k_shard k_replica k_addr stamp rp_addr].
    assert (Hrok : Forall (DBViewProofs.entry_ok (Hf (f_hist st))) (rp_infos (stamp (f_db st) r))).
    { apply Forall_forall. intros ci' Hin' Hc'. cbn [stamp rp_infos] in Hin'. rewrite (Hinc ci' Hin') in Hc'. done. }
    destruct (update_entries_tokill (Hf (f_hist st)) _ _ _ _ _ _ (li_view _ _ _ _ _ HI) Hrok Eu ci Hci)
      as [Hnil|(Hin & vm & ec & Hvi & Hvm & Hl & Hkr)]; [by apply elem_of_nil in Hnil|].
    cbn [stamp rp_infos] in Hin. unfold r, host_report in Hin. cbn [rp_infos] in Hin.
    apply elem_of_list_fmap in Hin as ([[s rid] lr] & -> & Hin). apply elem_of_list_filter in Hin as [Hrun Hin].
    apply sorted_reps_elem in Hin. cbn in Hrun, Hin. cbn [fst snd] in Hl, Hkr.
    assert (Hs : si_shard (rep_info (view_vers (f_db st)) (f_hist st) (s, rid) lr) = s) by (unfold rep_info; by destruct (lr_ver lr =? 0)).
    assert (Hr : si_replica (rep_info (view_vers (f_db st)) (f_hist st) (s, rid) lr) = rid) by (unfold rep_info; by destruct (lr_ver lr =? 0)).
    cbn [fst snd]. rewrite Hs, Hr.
    destruct (md_nostray _ HC _ _ _ _ _ Ha Hin Hrun) as [(h & Hh & Hm)|(h & Hh & _ & _ & _ & ? & ? & ?)]; [exfalso|done].
    destruct (md_members _ HC _ _ Hh) as (c & Hc & Hcc & _).
    rewrite Hs in Hl. destruct (Hvi _ _ Hl) as (_ & HH & _). unfold Hf, hist_of in HH. rewrite Hh in HH. cbn in HH.
    pose proof (li_hist _ _ _ _ _ HI _ _ Hh) as Hw.
    pose proof (hist_wf_le _ _ Hw _ (entry_at_Some _ _ _ HH)) as Hle. cbn [fst] in Hle.
    assert (Hge : cur_version h ≤ s_cci ec).
    { destruct (Hvm s (s_cci c)) as (v' & Hv' & Hvle); [unfold ver; by rewrite Hc|].
      unfold ver in Hv'. rewrite Hl in Hv'. cbn in Hv'. injection Hv' as <-. lia. }
    assert (Heq : s_cci ec = cur_version h) by lia.
    destruct (cur_entry_at _ _ _ HI Hh) as [Hcur _]. rewrite Heq, Hcur in HH. injection HH as HH.
    unfold kill_required in Hkr. rewrite Hr in Hkr. destruct (s_cci ec <=? _); [done|].
    assert (is_Some (s_reps ec !! rid)) as [n Hn0]; [|by rewrite Hn0 in Hkr].
    rewrite <- (fmap_is_Some r_addr), <- lookup_fmap, <- HH. done. }
  exists st2. split.
  { cbn [steps]. rewrite E1, E2. done. }
  assert (Hst2 : st2 = mkF d' (<[a := mkFHost true (fh_region fh) (fh_reps fh) (fh_queue fh ++ default [] (d_requests (f_db st) !! a)) None]> (f_hosts st))
                        (f_hist st) (f_seen st)).
  { unfold st2. rewrite Hhosts2. done. }
  assert (Hrepsame : ∀ a0 fh0, f_hosts st2 !! a0 = Some fh0 → ∃ fh', f_hosts st !! a0 = Some fh' ∧ fh_reps fh0 = fh_reps fh' ∧ fh_up fh0 = true ∧ fh_out fh0 = None).
  { intros a0 fh0. rewrite Hst2. cbn [f_hosts]. destruct (decide (a0 = a)) as [->|Hne].
    - rewrite lookup_insert. intros [= <-]. exists fh. done.
    - rewrite lookup_insert_ne by done. intros H0. exists fh0. split; [done|]. split; [done|]. by apply (md_hosts _ HC a0). }
  assert (Hticks : ∀ s rid n', rec_of (d_view d') s rid = Some n' →
            ∃ n, rec_of (d_view (f_db st)) s rid = Some n ∧ r_first n' = r_first n ∧
                 r_tick n' = if runs_on fh s rid then d_tick (f_db st) else r_tick n).
  { intros s rid n' Hrec.
    destruct (step_times P (f_db st) (CReport r) d' s rid n' Hn Hrec) as [(n0 & Hn0 & Hfi & Htk)|(r0 & Er0 & _ & Hor & _)].
    - exists n0. split; [done|]. split; [done|]. rewrite (li_failed _ _ _ _ _ HI) in Htk. cbn [negb andb names_cmd] in Htk.
      unfold r in Htk. rewrite (report_names_runs st a fh plog s rid Ha) in Htk. done.
    - exfalso. injection Er0 as <-. destruct Hor as [Hnone|Hmulti].
      + apply rec_of_Some in Hrec as (c' & Hc' & Hn'). destruct (Hcci' s c' Hc') as (c & Hc & _ & Hdom).
        assert (is_Some (s_reps c !! rid)) as [n0 Hn0] by (apply elem_of_dom; rewrite <- Hdom; apply elem_of_dom; by eexists).
        assert (rec_of (d_view (f_db st)) s rid = Some n0) by (apply rec_of_Some; eauto). congruence.
      + unfold multi_entry in Hmulti. rewrite (n_complete_zero s (rp_infos r) Hinc) in Hmulti. lia. }
  split.
  { (* Mend *)
    split.
    - exact HI2.
    - eapply fstep_time_ok; [exact E2|]. eapply fstep_time_ok; [exact E1|]. apply (md_timeok _ HC).
    - cbn [st2 f_db]. rewrite Htick. apply (md_time _ HC).
    - cbn [st2 f_db f_hist]. rewrite F3. apply (md_defined _ HC).
    - cbn [st2 f_db f_hist]. rewrite F3. intros s [c' Hc']. destruct (Hcci' s c' Hc') as (c & Hc & _). apply (md_viewdef _ HC). by eexists.
    - intros a0 fh0 H0. destruct (Hrepsame a0 fh0 H0) as (_ & _ & _ & ? & ?). done.
    - cbn [st2 f_db]. rewrite F5. exact Hkill'.
    - intros b q Hq. rewrite Hst2 in Hq. apply (md_boxes _ HC). unfold boxed_at in Hq |- *. cbn [f_db f_hosts] in Hq.
      destruct Hq as [(qs & Hl & Hin)|[(qs & Hl & Hin)|(fhb & Hb & Hin)]].
      + left. exists qs. split; [by apply F7|done].
      + destruct (F8 _ _ Hl) as [Ho|Ho]; [right; left|left]; eauto.
      + destruct (decide (b = a)) as [->|Hne].
        * rewrite lookup_insert in Hb. injection Hb as <-. cbn [fh_queue] in Hin. apply elem_of_app in Hin as [Hin|Hin].
          -- right; right. eauto.
          -- destruct (d_requests (f_db st) !! a) as [qs|] eqn:Eq; [|by apply elem_of_nil in Hin]. left. eauto.
        * rewrite lookup_insert_ne in Hb by done. right; right. eauto.
    - cbn [st2 f_db f_hist]. intros s h Hh. destruct (md_members _ HC s h Hh) as (c & Hc & Hcc & Hmem).
      destruct (Hcci s c Hc) as (c' & Hc' & Hcc' & _). exists c'. split; [done|]. split; [congruence|].
      intros rid a0 Hm. destruct (Hmem rid a0 Hm) as (Hr0 & Ha0 & fh0 & Hfh0 & Hdata). split; [done|]. split; [done|].
      assert (Hdata' : stamped d' s rid → is_Some (fh_reps fh0 !! (s, rid))).
      { intros (n' & Hrec' & Hnz'). destruct (Hticks s rid n' Hrec') as (n0 & Hn0 & _ & Htk).
        destruct (runs_on fh s rid) eqn:Erun.
        - unfold runs_on in Erun. destruct (fh_reps fh !! (s, rid)) as [lr|] eqn:Ek; [|done].
          assert (a0 = a) as -> by (by apply (md_home _ HC a fh s rid lr h a0)). assert (fh0 = fh) as -> by congruence. by eexists.
        - apply Hdata. exists n0. split; [done|]. congruence. }
      rewrite Hst2. cbn [f_hosts]. destruct (decide (a0 = a)) as [->|Hne].
      + rewrite lookup_insert. assert (fh0 = fh) as -> by congruence. eexists. split; [done|]. exact Hdata'.
      + rewrite lookup_insert_ne by done. eauto.
    - cbn [st2 f_db]. intros s c' rid n' Hc' Hn' Hz. assert (Hrec : rec_of (d_view d') s rid = Some n') by (apply rec_of_Some; eauto).
      destruct (Hticks s rid n' Hrec) as (n0 & Hn0 & Hfi & Htk). rewrite Hfi. rewrite Htk in Hz. destruct (runs_on fh s rid).
      + pose proof (md_time _ HC). lia.
      + apply rec_of_Some in Hn0 as (c0 & Hc0 & Hn0). by apply (md_waiting _ HC s c0 rid n0).
    - cbn [st2 f_db]. intros s c' r1 r2 n1 n2 Hc' H1 H2 Hz1 Hz2.
      assert (Hrec1 : rec_of (d_view d') s r1 = Some n1) by (apply rec_of_Some; eauto).
      assert (Hrec2 : rec_of (d_view d') s r2 = Some n2) by (apply rec_of_Some; eauto).
      destruct (Hticks s r1 n1 Hrec1) as (m1 & Hm1 & _ & Htk1). destruct (Hticks s r2 n2 Hrec2) as (m2 & Hm2 & _ & Htk2).
      pose proof (md_time _ HC) as Hpos.
      assert (r_tick m1 = 0) by (destruct (runs_on fh s r1); lia). assert (r_tick m2 = 0) by (destruct (runs_on fh s r2); lia).
      apply rec_of_Some in Hm1 as (c1 & Hc1 & Hm1). apply rec_of_Some in Hm2 as (c2 & Hc2 & Hm2). assert (c2 = c1) as -> by congruence.
      by apply (md_onejoin _ HC s c1 r1 r2 m1 m2).
    - intros a0 fh0 s rid lr h a' H0 Hk. destruct (Hrepsame a0 fh0 H0) as (fh' & Hfh' & Hreps & _). rewrite Hreps in Hk.
      cbn [st2 f_hist]. by apply (md_home _ HC a0 fh' s rid lr h a').
    - intros a0 fh0 s rid lr H0 Hk. destruct (Hrepsame a0 fh0 H0) as (fh' & Hfh' & Hreps & _). rewrite Hreps in Hk.
      cbn [st2 f_hist]. by apply (md_nostray _ HC a0 fh' s rid lr). }
  split; [done|]. split; [done|]. split; [exact Htick|]. split; [exact F3|]. split; [exact Hreqs|].
  split; [by rewrite Hst2|]. split; [exact Hcore|]. split; [exact Hticks|].
  cbn [st2 f_db]. rewrite F6. unfold sync_shard_info. split.
  - rewrite lookup_fmap. unfold host_update. cbn [rp_addr stamp r host_report rp_region rp_plog_incl rp_plog].
    destruct (d_hosts (f_db st) !! a) as [h0|]; rewrite lookup_insert; cbn; (eexists; split; [done|]); cbn [h_tick h_plog];
      (split; [done|]); intros -> k [lr Hk]; apply elem_of_list_fmap; exists (k, lr); (split; [done|]);
      unfold sorted_reps; rewrite merge_sort_Permutation; by apply elem_of_map_to_list.
  - intros a' h Hne Hh. rewrite lookup_fmap. unfold host_update. cbn [rp_addr stamp r host_report].
    destruct (d_hosts (f_db st) !! a) as [h0|]; rewrite lookup_insert_ne by done; rewrite Hh; cbn; (eexists; split; [done|]); done.
Qed.

(** * all hosts report *)
Definition delivered (st : fstate) (a : N) (fh : fhost) : fhost :=
  mkFHost true (fh_region fh) (fh_reps fh) (fh_queue fh ++ default [] (d_requests (f_db st) !! a)) None.

Lemma mend_reports (plogs : N → bool) (l : list N) : ∀ st,
  Mend st → NoDup l → (∀ a, a ∈ l → is_Some (f_hosts st !! a)) →
  ∃ st', steps P st (l ≫= λ a, [ESnap a (plogs a); EDeliver a false]) = Some st' ∧ Mend st' ∧
    f_hist st' = f_hist st ∧ f_seen st' = f_seen st ∧
    d_tick (f_db st') = d_tick (f_db st) ∧ d_shards (f_db st') = d_shards (f_db st) ∧
    (∀ a, a ∈ l → d_requests (f_db st') !! a = None) ∧
    (∀ a, a ∉ l → d_requests (f_db st') !! a = d_requests (f_db st) !! a) ∧
    (∀ a fh, a ∈ l → f_hosts st !! a = Some fh → f_hosts st' !! a = Some (delivered st a fh)) ∧
    (∀ a, a ∉ l → f_hosts st' !! a = f_hosts st !! a) ∧
    (∀ s, shard_core <$> d_view (f_db st') !! s = shard_core <$> d_view (f_db st) !! s) ∧
    (∀ s rid n', rec_of (d_view (f_db st')) s rid = Some n' →
       ∃ n, rec_of (d_view (f_db st)) s rid = Some n ∧
            (((∃ a fh, a ∈ l ∧ f_hosts st !! a = Some fh ∧ runs_on fh s rid = true) ∧ r_tick n' = d_tick (f_db st)) ∨
             ((∀ a fh, a ∈ l → f_hosts st !! a = Some fh → runs_on fh s rid = false) ∧ r_tick n' = r_tick n))) ∧
    (∀ a fh, a ∈ l → f_hosts st !! a = Some fh →
       ∃ h, d_hosts (f_db st') !! a = Some h ∧ h_tick h = d_tick (f_db st) ∧
            (plogs a = true → ∀ k, is_Some (fh_reps fh !! k) → k ∈ h_plog h)) ∧
    (∀ a h, a ∉ l → d_hosts (f_db st) !! a = Some h →
       ∃ h', d_hosts (f_db st') !! a = Some h' ∧ h_tick h' = h_tick h ∧ h_plog h' = h_plog h).
Proof.
  induction l as [|a l IH]; intros st HC Hnd Hl.
  { exists st. cbn. split; [done|]. split; [done|]. repeat (split; [done|]).
    split; [intros a Hin; by apply elem_of_nil in Hin|]. split; [done|].
    split; [intros a fh Hin; by apply elem_of_nil in Hin|]. split; [done|]. split; [done|].
    split. { intros s rid n' Hrec. exists n'. split; [done|]. right. split; [|done]. intros a fh Hin. by apply elem_of_nil in Hin. }
    split; [intros a fh Hin; by apply elem_of_nil in Hin|]. intros a h _ Hh. by exists h. }
  apply NoDup_cons in Hnd as [Hnotin Hnd].
  destruct (Hl a) as [fh Ha]; [left|].
  destruct (mend_report st a fh (plogs a) HC Ha) as (st1 & E1 & HC1 & Hhi1 & Hse1 & Ht1 & Hsh1 & Hrq1 & Hho1 & Hco1 & Htk1 & Hsp1 & Hot1).
  destruct (IH st1 HC1 Hnd) as (st2 & E2 & HC2 & Hhi2 & Hse2 & Ht2 & Hsh2 & Hq1 & Hq2 & Hh1 & Hh2 & Hco2 & Htk2 & Hsp2 & Hot2).
  { intros a' Hin. rewrite Hho1. destruct (decide (a' = a)) as [->|Hne]; [by rewrite lookup_insert|].
    rewrite lookup_insert_ne by done. apply Hl. by right. }
  assert (Hreps1 : ∀ a' fh', f_hosts st !! a' = Some fh' → ∃ fh1, f_hosts st1 !! a' = Some fh1 ∧ fh_reps fh1 = fh_reps fh').
  { intros a' fh' Hfh'. rewrite Hho1. destruct (decide (a' = a)) as [->|Hne].
    - rewrite lookup_insert. assert (fh' = fh) as -> by congruence. by eexists.
    - rewrite lookup_insert_ne by done. by exists fh'. }
  assert (Hruns1 : ∀ a' fh' fh1 s rid, f_hosts st !! a' = Some fh' → f_hosts st1 !! a' = Some fh1 → runs_on fh1 s rid = runs_on fh' s rid).
  { intros a' fh' fh1 s rid Hfh' Hfh1. destruct (Hreps1 a' fh' Hfh') as (fh1' & Hx & Hr). assert (fh1' = fh1) as -> by congruence.
    unfold runs_on. by rewrite Hr. }
  exists st2. split.
  { rewrite bind_cons, steps_app, E1. exact E2. }
  split; [done|]. split; [congruence|]. split; [congruence|]. split; [congruence|]. split; [congruence|].
  split. { intros a' Hin. apply elem_of_cons in Hin as [->|Hin]; [|by apply Hq1].
           rewrite Hq2 by done. rewrite Hrq1. apply lookup_delete. }
  split. { intros a' Hnin. apply not_elem_of_cons in Hnin as [Hne Hnin]. rewrite Hq2 by done. rewrite Hrq1. by rewrite lookup_delete_ne. }
  split. { intros a' fh' Hin Hfh'. apply elem_of_cons in Hin as [->|Hin].
           - assert (fh' = fh) as -> by congruence. rewrite Hh2 by done. rewrite Hho1, lookup_insert. done.
           - assert (a' ≠ a) as Hne by (intros ->; done).
             rewrite (Hh1 a' fh' Hin) by (rewrite Hho1, lookup_insert_ne; done).
             unfold delivered. rewrite Hrq1, lookup_delete_ne by done. done. }
  split. { intros a' Hnin. apply not_elem_of_cons in Hnin as [Hne Hnin]. rewrite Hh2 by done. rewrite Hho1. by rewrite lookup_insert_ne. }
  split. { intros s. by rewrite Hco2, Hco1. }
  split.
  { intros s rid n2 Hrec2. destruct (Htk2 s rid n2 Hrec2) as (n1 & Hrec1 & Hcase2).
    destruct (Htk1 s rid n1 Hrec1) as (n0 & Hrec0 & _ & Htk0). exists n0. split; [done|].
    destruct Hcase2 as [[(a' & fh1 & Hin & Hfh1 & Hrun) Htick]|[Hnone Htick]].
    - left. split; [|congruence]. assert (a' ≠ a) as Hne by (intros ->; done).
      rewrite Hho1, lookup_insert_ne in Hfh1 by done. exists a', fh1. split; [by right|]. done.
    - destruct (runs_on fh s rid) eqn:Erun.
      + left. split; [|congruence]. exists a, fh. split; [left|]. done.
      + right. split; [|congruence]. intros a' fh' Hin Hfh'. apply elem_of_cons in Hin as [->|Hin]; [congruence|].
        destruct (Hreps1 a' fh' Hfh') as (fh1 & Hfh1 & Hr). rewrite <- (Hruns1 a' fh' fh1 s rid Hfh' Hfh1). by apply (Hnone a'). }
  split.
  { intros a' fh' Hin Hfh'. apply elem_of_cons in Hin as [->|Hin].
    - assert (fh' = fh) as -> by congruence. destruct Hsp1 as (h1 & Hh1' & Htk & Hpl).
      destruct (Hot2 a h1 Hnotin Hh1') as (h2 & Hh2' & Htk' & Hpl'). exists h2. split; [done|]. split; [congruence|]. rewrite Hpl'. done.
    - destruct (Hreps1 a' fh' Hfh') as (fh1 & Hfh1 & Hr).
      destruct (Hsp2 a' fh1 Hin Hfh1) as (h2 & Hh2' & Htk' & Hpl'). exists h2. split; [done|]. split; [congruence|]. by rewrite <- Hr. }
  intros a' h Hnin Hh. apply not_elem_of_cons in Hnin as [Hne Hnin].
  destruct (Hot1 a' h Hne Hh) as (h1 & Hh1' & Htk & Hpl). destruct (Hot2 a' h1 Hnin Hh1') as (h2 & Hh2' & Htk' & Hpl').
  exists h2. split; [done|]. split; congruence.
Qed.


(** * the hosts execute their queues *)
Lemma mend_exec st a fh :
  Mend st → f_hosts st !! a = Some fh →
  ∃ st', fstep P st (EExec a true) = FOk st' ∧ Mend st' ∧
    f_db st' = f_db st ∧ f_hist st' = f_hist st ∧ f_seen st' = f_seen st ∧
    grows (f_hist st) (<[a := unq fh]> (f_hosts st)) (f_hosts st') ∧
    (∀ q, q ∈ fh_queue fh → good_restore (f_hist st) q → is_Some (fh_reps fh !! (q_shard q, q_inst q)) →
          member_running (f_hosts st') (q_shard q) (q_inst q) a = true) ∧
    (∀ q, q ∈ fh_queue fh → good_join (f_hist st) a q → member_running (f_hosts st') (q_shard q) (q_inst q) a = true).
Proof.
  intros HC Ha. pose proof (md_inv _ HC) as HI. destruct (md_hosts _ HC _ _ Ha) as [Hup Hout].
  set (hosts0 := <[a := unq fh]> (f_hosts st)).
  assert (HH0 : HMend (f_hist st) hosts0).
  { pose proof (mend_hmend st HC) as HH. split.
    - intros b fhb. unfold hosts0. destruct (decide (b = a)) as [->|Hne].
      + rewrite lookup_insert. intros [= <-]. done.
      + rewrite lookup_insert_ne by done. apply (hm_up _ _ HH).
    - intros s h rid b Hh Hm. unfold hosts0. destruct (decide (b = a)) as [->|Hne]; [rewrite lookup_insert; by eexists|].
      rewrite lookup_insert_ne by done. by apply (hm_hosts _ _ HH s h rid b).
    - intros b fhb s rid lr h a'. unfold hosts0. destruct (decide (b = a)) as [->|Hne].
      + rewrite lookup_insert. intros [= <-]. cbn [unq fh_reps]. by apply (hm_home _ _ HH a fh).
      + rewrite lookup_insert_ne by done. apply (hm_home _ _ HH).
    - intros b fhb s rid lr. unfold hosts0. destruct (decide (b = a)) as [->|Hne].
      + rewrite lookup_insert. intros [= <-]. cbn [unq fh_reps]. by apply (hm_nostray _ _ HH a fh).
      + rewrite lookup_insert_ne by done. apply (hm_nostray _ _ HH).
    - intros b fhb s rid lr h. unfold hosts0. destruct (decide (b = a)) as [->|Hne].
      + rewrite lookup_insert. intros [= <-]. cbn [unq fh_reps]. by apply (hm_old _ _ HH a fh).
      + rewrite lookup_insert_ne by done. apply (hm_old _ _ HH). }
  assert (Hgood : Forall (mharmless (f_hist st) a) (fh_queue fh)).
  { apply Forall_forall. intros q Hq. apply (md_boxes _ HC). right; right. eauto. }
  destruct (mexec_all (shard_size (f_db st)) (f_hist st) a (fh_queue fh) (hosts0, f_hist st)
              (li_hist _ _ _ _ _ HI) eq_refl HH0 Hgood) as (x' & Ex & Hx2 & HH' & Hev & Heff & Hjoin).
  { cbn [fst]. unfold hosts0. rewrite lookup_insert. by eexists. }
  set (st' := mkF (f_db st) x'.1 x'.2 (f_seen st)).
  assert (E : fstep P st (EExec a true) = FOk st').
  { cbn [fstep]. rewrite Ha, Hup.
    assert (Hunq : mkFHost true (fh_region fh) (fh_reps fh) [] (fh_out fh) = unq fh) by (unfold unq; by rewrite Hup).
    rewrite Hunq. fold hosts0. by rewrite Ex. }
  exists st'. split; [exact E|].
  pose proof (step_inv P st (EExec a true) st' HI I E) as HI'.
  cbn [fst snd] in Hev, Heff, Hjoin, HH'.
  split.
  { apply (mend_change_hosts st st' HC HI'); [done|done|exact HH'| |].
    - intros b fhb k Hb Hk Hm. apply (grows_data _ _ _ Hev b (if decide (b = a) then unq fh else fhb) k); [| |exact Hm].
      + unfold hosts0. destruct (decide (b = a)) as [->|Hne]; [by rewrite lookup_insert|by rewrite lookup_insert_ne].
      + destruct (decide (b = a)) as [->|Hne]; [|done]. assert (fhb = fh) as -> by congruence. done.
    - intros b q [Hq|[Hq|(fhb & Hb & Hin)]]; [by left|by right; left|].
      cbn [st' f_hosts] in Hb. pose proof (Hev b) as Hevb. destruct (hosts0 !! b) as [fh0|] eqn:E0; [|congruence].
      destruct Hevb as (fh1 & Hfh1 & _ & Hq1 & _). assert (fh1 = fhb) as -> by congruence. rewrite Hq1 in Hin.
      unfold hosts0 in E0. destruct (decide (b = a)) as [->|Hne].
      + rewrite lookup_insert in E0. injection E0 as <-. by apply elem_of_nil in Hin.
      + rewrite lookup_insert_ne in E0 by done. right; right. eauto. }
  split; [done|]. split; [done|]. split; [done|]. split; [exact Hev|]. split.
  - intros q Hq Hres Hk. apply (Heff q (unq fh) Hq Hres); [unfold hosts0; by rewrite lookup_insert|exact Hk].
  - intros q Hq Hj. by apply Hjoin.
Qed.

Lemma mend_execs (l : list N) : ∀ st,
  Mend st → NoDup l → (∀ a, a ∈ l → is_Some (f_hosts st !! a)) →
  ∃ st', steps P st ((λ a, EExec a true) <$> l) = Some st' ∧ Mend st' ∧
    f_db st' = f_db st ∧ f_hist st' = f_hist st ∧ f_seen st' = f_seen st ∧
    (∀ a fh', a ∈ l → f_hosts st' !! a = Some fh' → fh_queue fh' = []) ∧
    (∀ a fh, a ∉ l → f_hosts st !! a = Some fh → ∃ fh', f_hosts st' !! a = Some fh' ∧ fh_queue fh' = fh_queue fh) ∧
    data_mono (f_hist st) (f_hosts st) (f_hosts st') ∧
    (∀ a s rid, mkey (f_hist st) (s, rid) → member_running (f_hosts st) s rid a = true → member_running (f_hosts st') s rid a = true) ∧
    (∀ a fh q, a ∈ l → f_hosts st !! a = Some fh → q ∈ fh_queue fh → good_restore (f_hist st) q →
       is_Some (fh_reps fh !! (q_shard q, q_inst q)) →
       member_running (f_hosts st') (q_shard q) (q_inst q) a = true) ∧
    (∀ a fh q, a ∈ l → f_hosts st !! a = Some fh → q ∈ fh_queue fh → good_join (f_hist st) a q →
       member_running (f_hosts st') (q_shard q) (q_inst q) a = true).
Proof.
  induction l as [|a l IH]; intros st HC Hnd Hl.
  { exists st. cbn. split; [done|]. split; [done|]. repeat (split; [done|]).
    split; [intros a fh' Hin; by apply elem_of_nil in Hin|]. split; [intros a fh _ Hfh; by exists fh|].
    split; [apply data_mono_refl|]. split; [done|].
    split; [intros a fh q Hin; by apply elem_of_nil in Hin|intros a fh q Hin; by apply elem_of_nil in Hin]. }
  apply NoDup_cons in Hnd as [Hnotin Hnd]. destruct (Hl a) as [fh Ha]; [left|].
  destruct (mend_exec st a fh HC Ha) as (st1 & E1 & HC1 & Hd1 & Hh1 & Hs1 & Hev1 & Heff1 & Hjoin1).
  assert (Hhost1 : ∀ b fhb, f_hosts st !! b = Some fhb → ∃ fhb1, f_hosts st1 !! b = Some fhb1 ∧
             fh_queue fhb1 = (if decide (b = a) then [] else fh_queue fhb) ∧
             ∀ k, is_Some (fh_reps fhb !! k) → mkey (f_hist st) k → is_Some (fh_reps fhb1 !! k)).
  { intros b fhb Hb. pose proof (Hev1 b) as He. destruct (decide (b = a)) as [->|Hne].
    - rewrite lookup_insert in He. destruct He as (fhb1 & Hx & _ & Hq & _ & Hr). assert (fhb = fh) as -> by congruence.
      exists fhb1. split; [done|]. split; [done|]. intros k [lr Hk] Hmk. cbn [unq fh_reps] in Hr.
      destruct (Hr k lr Hk) as [(lr' & Hlr' & _)|Hs]; [by eexists|done].
    - rewrite lookup_insert_ne, Hb in He by done. destruct He as (fhb1 & Hx & _ & Hq & _ & Hr).
      exists fhb1. split; [done|]. split; [done|]. intros k [lr Hk] Hmk.
      destruct (Hr k lr Hk) as [(lr' & Hlr' & _)|Hs]; [by eexists|done]. }
  assert (Hmono1 : ∀ b s rid, mkey (f_hist st) (s, rid) → member_running (f_hosts st) s rid b = true → member_running (f_hosts st1) s rid b = true).
  { intros b s rid Hmk Hrun. eapply grows_running; [exact Hev1|exact Hmk|]. unfold member_running in *.
    destruct (decide (b = a)) as [->|Hne]; [rewrite lookup_insert; rewrite Ha in Hrun; exact Hrun|by rewrite lookup_insert_ne]. }
  destruct (IH st1 HC1 Hnd) as (st2 & E2 & HC2 & Hd2 & Hh2 & Hs2 & Hq2 & Hnq2 & Hdata2 & Hmono2 & Heff2 & Hjoin2).
  { intros b Hin. destruct (Hl b) as [fhb Hb]; [by right|]. destruct (Hhost1 b fhb Hb) as (fhb1 & -> & _). by eexists. }
  exists st2. split.
  { rewrite fmap_cons, steps_cons, E1. exact E2. }
  split; [done|]. split; [congruence|]. split; [congruence|]. split; [congruence|].
  split.
  { intros b fhb2 Hin Hb2. apply elem_of_cons in Hin as [->|Hin]; [|by eapply Hq2].
    destruct (Hhost1 a fh Ha) as (fh1 & Hfh1 & Hq1 & _). rewrite decide_True in Hq1 by done.
    destruct (Hnq2 a fh1 Hnotin Hfh1) as (fh2 & Hfh2 & Hq2'). assert (fh2 = fhb2) as -> by congruence. congruence. }
  split.
  { intros b fhb Hnin Hb. apply not_elem_of_cons in Hnin as [Hne Hnin].
    destruct (Hhost1 b fhb Hb) as (fhb1 & Hfhb1 & Hq1 & _). rewrite decide_False in Hq1 by done.
    destruct (Hnq2 b fhb1 Hnin Hfhb1) as (fhb2 & Hfhb2 & Hq2'). exists fhb2. split; [done|]. congruence. }
  split.
  { eapply data_mono_trans; [|rewrite <- Hh1; exact Hdata2]. intros b fhb k Hb Hk Hmk. destruct (Hhost1 b fhb Hb) as (fhb1 & Hfhb1 & _ & Hkk).
    exists fhb1. split; [done|]. by apply Hkk. }
  split; [intros b s rid Hmk Hrun; apply Hmono2; [by rewrite Hh1|by apply Hmono1]|]. split.
  - intros b fhb q Hin Hb Hq Hres Hk. pose proof (good_restore_mkey _ _ Hres) as Hmk. apply elem_of_cons in Hin as [->|Hin].
    + assert (fhb = fh) as -> by congruence. apply Hmono2; [by rewrite Hh1|]. by apply Heff1.
    + assert (b ≠ a) as Hne by (intros ->; done).
      destruct (Hhost1 b fhb Hb) as (fhb1 & Hfhb1 & Hq1 & Hk1). rewrite decide_False in Hq1 by done.
      apply (Heff2 b fhb1 q Hin Hfhb1); [by rewrite Hq1|by rewrite Hh1|by apply Hk1].
  - intros b fhb q Hin Hb Hq Hj. apply elem_of_cons in Hin as [->|Hin].
    + assert (fhb = fh) as -> by congruence. apply Hmono2; [rewrite Hh1; by eapply good_join_mkey|]. by apply Hjoin1.
    + assert (b ≠ a) as Hne by (intros ->; done).
      destruct (Hhost1 b fhb Hb) as (fhb1 & Hfhb1 & Hq1 & Hk1). rewrite decide_False in Hq1 by done.
      apply (Hjoin2 b fhb1 q Hin Hfhb1); [by rewrite Hq1|by rewrite Hh1].
Qed.

(** * Raft catches up *)
Lemma mend_learn st a s r v st' :
  Mend st → is_Some (cur_members (hist_of (f_hist st) s) !! r) → fstep P st (ELearn a s r v) = FOk st' →
  Mend st' ∧ f_db st' = f_db st ∧ f_hist st' = f_hist st ∧ f_seen st' = f_seen st ∧ same_run (f_hosts st) (f_hosts st').
Proof.
  intros HC Hmem E. pose proof (md_inv _ HC) as HI. pose proof (step_inv P st (ELearn a s r v) st' HI I E) as HI'.
  cbn [fstep] in E. destruct (f_hosts st !! a) as [fh|] eqn:Ha; [|done].
  destruct (fh_reps fh !! (s, r)) as [lr|] eqn:Ek; [|done].
  destruct (fh_up fh && lr_running lr && (lr_ver lr <? v) && _) eqn:Econd; [|done]. injection E as <-.
  apply andb_true_iff in Econd as [Econd _]. apply andb_true_iff in Econd as [Econd _]. apply andb_true_iff in Econd as [Hup Hrun].
  unfold hist_of in Hmem. destruct (f_hist st !! s) as [h|] eqn:Hh; [|by destruct Hmem]. cbn [default from_option id] in Hmem.
  assert (Hrem : removed_at (hist_of (f_hist st) s) r v = false).
  { unfold hist_of. rewrite Hh. cbn [default from_option id]. by apply (member_not_removed st s h r v HI Hh). }
  rewrite Hrem in HI' |- *. cbn [negb] in HI' |- *.
  set (reps' := <[(s, r) := mkLRep true v]> (fh_reps fh)) in *.
  set (fh' := mkFHost true (fh_region fh) reps' (fh_queue fh) (fh_out fh)) in *.
  assert (Hkeys : ∀ k, match fh_reps fh !! k with
                       | Some lr0 => ∃ lr', reps' !! k = Some lr' ∧ lr_running lr' = lr_running lr0
                       | None => reps' !! k = None end).
  { intros k. unfold reps'. destruct (decide (k = (s, r))) as [->|Hne].
    - rewrite Ek, lookup_insert. eexists. split; [done|]. by rewrite Hrun.
    - rewrite lookup_insert_ne by done. destruct (fh_reps fh !! k) as [lr0|]; [|done]. by exists lr0. }
  assert (Hsame : same_run (f_hosts st) (<[a := fh']> (f_hosts st))).
  { intros b. destruct (decide (b = a)) as [->|Hne].
    - rewrite Ha, lookup_insert. exists fh'. split; [done|]. split; [by rewrite Hup|]. split; [done|]. exact Hkeys.
    - rewrite lookup_insert_ne by done. destruct (f_hosts st !! b) as [fhb|]; [|done]. exists fhb. repeat (split; [done|]).
      intros k. destruct (fh_reps fhb !! k) as [lr0|]; [|done]. by exists lr0. }
  split; [|done].
  pose proof (mend_hmend st HC) as HH.
  apply (mend_change_hosts st _ HC HI'); [done|done| | |].
  2:{ unfold set_host. cbn [f_hosts]. apply same_data_mono, same_run_same_data, Hsame. }
  - unfold set_host. cbn [f_hosts f_hist]. split.
    + intros b fhb. destruct (decide (b = a)) as [->|Hne].
      * rewrite lookup_insert. intros [= <-]. cbn. split; [done|]. by destruct (hm_up _ _ HH _ _ Ha).
      * rewrite lookup_insert_ne by done. apply (hm_up _ _ HH).
    + intros s1 h1 rid1 a1 Hh1 Hm1. destruct (decide (a1 = a)) as [->|Hne]; [rewrite lookup_insert; by eexists|].
      rewrite lookup_insert_ne by done. by apply (hm_hosts _ _ HH s1 h1 rid1 a1).
    + intros b fhb s1 rid1 lr1 h1 a1. destruct (decide (b = a)) as [->|Hne].
      * rewrite lookup_insert. intros [= <-] Hk1. cbn [fh' fh_reps] in Hk1. pose proof (Hkeys (s1, rid1)) as Hx.
        destruct (fh_reps fh !! (s1, rid1)) as [lr2|] eqn:E2; [|congruence]. by apply (hm_home _ _ HH a fh s1 rid1 lr2 h1 a1).
      * rewrite lookup_insert_ne by done. apply (hm_home _ _ HH).
    + intros b fhb s1 rid1 lr1. destruct (decide (b = a)) as [->|Hne].
      * rewrite lookup_insert. intros [= <-] Hk1 Hr1. cbn [fh' fh_reps] in Hk1. unfold reps' in Hk1.
        destruct (decide ((s1, rid1) = (s, r))) as [[= -> ->]|Hne]; [left; by exists h|].
        rewrite lookup_insert_ne in Hk1 by done. by apply (hm_nostray _ _ HH a fh s1 rid1 lr1 Ha Hk1).
      * rewrite lookup_insert_ne by done. apply (hm_nostray _ _ HH).
    + intros b fhb s1 rid1 lr1 h1. destruct (decide (b = a)) as [->|Hne].
      * rewrite lookup_insert. intros [= <-] Hk1 Hh1 Hnm1. cbn [fh' fh_reps] in Hk1. unfold reps' in Hk1.
        destruct (decide ((s1, rid1) = (s, r))) as [[= -> ->]|Hne]; [assert (h1 = h) as -> by congruence; rewrite Hnm1 in Hmem; by destruct Hmem|].
        rewrite lookup_insert_ne in Hk1 by done. by apply (hm_old _ _ HH a fh s1 rid1 lr1 h1).
      * rewrite lookup_insert_ne by done. apply (hm_old _ _ HH).
  - intros b q [Hq|[Hq|(fhb & Hb & Hin)]]; [by left|by right; left|].
    unfold set_host in Hb. cbn [f_hosts] in Hb. right; right. destruct (decide (b = a)) as [->|Hne].
    + rewrite lookup_insert in Hb. injection Hb as <-. cbn in Hin. eauto.
    + rewrite lookup_insert_ne in Hb by done. eauto.
Qed.

Lemma mend_learns (evs : list event) : ∀ st,
  Mend st →
  (∀ ev, ev ∈ evs → ∃ a s r v, ev = ELearn a s r v ∧ is_Some (cur_members (hist_of (f_hist st) s) !! r)) →
  ∃ st', steps P st evs = Some st' ∧ Mend st' ∧ f_db st' = f_db st ∧ f_hist st' = f_hist st ∧ f_seen st' = f_seen st ∧
         same_run (f_hosts st) (f_hosts st').
Proof.
  induction evs as [|ev evs IH]; intros st HC Hall.
  { exists st. cbn. split; [done|]. split; [done|]. repeat (split; [done|]). apply same_run_refl. }
  destruct (Hall ev) as (a & s & r & v & -> & Hm); [left|]. rewrite steps_cons.
  destruct (fstep P st (ELearn a s r v)) as [st1| |] eqn:E1.
  - destruct (mend_learn st a s r v st1 HC Hm E1) as (HC1 & Hd1 & Hh1 & Hs1 & Hsr1).
    destruct (IH st1 HC1) as (st2 & E2 & HC2 & Hd2 & Hh2 & Hs2 & Hsr2).
    { intros ev Hev. rewrite Hh1. apply Hall. by right. }
    exists st2. split; [done|]. split; [done|]. split; [congruence|]. split; [congruence|]. split; [congruence|].
    by eapply same_run_trans.
  - apply IH; [done|]. intros ev Hev. apply Hall. by right.
  - exfalso. by apply (step_no_panic P st (ELearn a s r v) (md_inv _ HC) I).
Qed.

(** * time passes *)
Lemma mend_tick st :
  Mend st → ∃ st', fstep P st ETick = FOk st' ∧ Mend st' ∧
    f_db st' = set_tick (f_db st) (d_tick (f_db st) + p_step P) ∧
    f_hosts st' = f_hosts st ∧ f_hist st' = f_hist st ∧ f_seen st' = f_seen st.
Proof.
  intros HC. pose proof (md_inv _ HC) as HI.
  pose proof (step_tick_no_panic P st HI) as Hnp. destruct (fstep P st ETick) as [st'| |] eqn:E; [| |done].
  2:{ cbn [fstep] in E. by destruct (db_step P (f_db st) CTick). }
  pose proof (step_tick P st st' HI E) as HI'. pose proof (fstep_time_ok P st ETick st' E (md_timeok _ HC)) as Hto.
  cbn [fstep] in E. unfold db_step in E. rewrite (li_failed _ _ _ _ _ HI) in E. unfold apply_tick in E.
  cbn [d_deadline set_tick] in E. rewrite (li_deadline _ _ _ _ _ HI) in E. cbn [N.ltb andb] in E. injection E as <-.
  eexists. split; [done|]. unfold set_db. cbn [f_db f_hosts f_hist f_seen d_tick set_tick].
  split; [|done]. destruct HC. split; cbn [f_db f_hosts f_hist f_seen]; try done. cbn. lia.
Qed.

Lemma mend_ticks n : ∀ st,
  Mend st → ∃ st', steps P st (replicate n ETick) = Some st' ∧ Mend st' ∧
    f_db st' = set_tick (f_db st) (d_tick (f_db st) + N.of_nat n * p_step P) ∧
    f_hosts st' = f_hosts st ∧ f_hist st' = f_hist st ∧ f_seen st' = f_seen st.
Proof.
  induction n as [|n IH]; intros st HC; cbn [replicate steps].
  - exists st. split; [done|]. split; [done|]. split; [|done]. destruct st as [d ? ? ?]. cbn. destruct d. unfold set_tick. cbn. f_equal. lia.
  - destruct (mend_tick st HC) as (st1 & E1 & HC1 & Hd1 & Hh1 & Hhi1 & Hs1). rewrite E1.
    destruct (IH st1 HC1) as (st2 & E2 & HC2 & Hd2 & Hh2 & Hhi2 & Hs2).
    exists st2. split; [done|]. split; [done|]. split; [|split; [congruence|split; congruence]].
    rewrite Hd2, Hd1. unfold set_tick. cbn [d_tick d_deadline d_failed d_shards d_kv d_view d_kill d_hosts d_info d_requests d_outgoing].
    f_equal. rewrite Nat2N.inj_succ, N.mul_succ_l. lia.
Qed.


(** * the leader schedules *)
(* every stamped member's NodeHost has reported at [t], the member's persisted log included, and [t] is at most ttl ago *)
Definition mfresh (st : fstate) (t : N) : Prop :=
  d_tick (f_db st) - t ≤ p_ttl P ∧
  ∀ s h0 rid a, f_hist st !! s = Some h0 → cur_members h0 !! rid = Some a → stamped (f_db st) s rid →
    ∃ h, d_hosts (f_db st) !! a = Some h ∧ h_tick h = t ∧ (s, rid) ∈ h_plog h.

Lemma mready_entry st t c :
  Mend st → mfresh st t → c ∈ entries (ctx_of_db (f_db st)) →
  let C := ctx_of_db (f_db st) in
  ∃ h sd, f_hist st !! s_id c = Some h ∧ d_view (f_db st) !! s_id c = Some c ∧ s_cci c = cur_version h ∧
    c_defs C !! s_id c = Some sd ∧ sd_app sd ≠ 0 ∧
    (∀ n, n ∈ mvals (s_reps c) → r_id n ≠ 0 ∧ r_addr n ≠ 0 ∧ r_shard n = s_id c ∧ cur_members h !! r_id n = Some (r_addr n)) ∧
    restore_set P C c = sr_failed P C c ∧
    (sr_failed P C c ≠ [] ∨ sr_wait P C c = [] → repair_action P C c = ANone) ∧
    (sr_failed P C c = [] → sr_wait P C c ≠ [] → has_restore P C c = false ∧ repair_action P C c = ACreate sd).
Proof.
  intros HC [Hgap Hsp] Hc C. pose proof (md_inv _ HC) as HI.
  destruct (view_entry_facts (f_db st) (f_hist st) c (li_view _ _ _ _ _ HI) Hc) as (h & Hh & Hvc & _ & _).
  destruct (md_members _ HC _ _ Hh) as (c' & Hc' & Hcc & Hmem). assert (c' = c) as -> by congruence.
  destruct (calm_view st _ h c HI Hh Hvc Hcc) as (HMM & _ & Hids).
  destruct (md_viewdef _ HC (s_id c)) as [[sd Hsd] _]; [by eexists|].
  destruct (md_defined _ HC _ _ Hsd) as (_ & _ & Happ).
  assert (Hmv : ∀ n, n ∈ mvals (s_reps c) → r_id n ≠ 0 ∧ r_addr n ≠ 0 ∧ r_shard n = s_id c ∧ cur_members h !! r_id n = Some (r_addr n) ∧
             s_reps c !! r_id n = Some n).
  { intros n Hn. apply mvals_elem in Hn as [rid Hn]. destruct (Hids rid n Hn) as [Hrid Hsh]. rewrite Hrid.
    assert (Hm : cur_members h !! rid = Some (r_addr n)) by (rewrite <- HMM, lookup_fmap, Hn; done).
    destruct (Hmem _ _ Hm) as (? & ? & _). done. }
  (* a failed member has reported once *)
  assert (Hfst : ∀ n, n ∈ sr_failed P C c → r_tick n ≠ 0 ∧ n ∈ mvals (s_reps c)).
  { intros n Hn. apply elem_sr_failed in Hn as [Hn Hf]. split; [|done]. intros Hz.
    destruct (Hmv n Hn) as (_ & _ & _ & _ & Hl). pose proof (md_waiting _ HC _ _ _ _ Hvc Hl Hz) as Hfi.
    unfold replica_failed in Hf. rewrite Hz in Hf. cbn in Hf. by apply N.eqb_eq in Hf. }
  assert (Hrest : restorable P C c = sr_failed P C c).
  { unfold restorable. apply filter_all. intros n Hn. destruct (Hfst n Hn) as [Hnz Hnm].
    destruct (Hmv n Hnm) as (_ & _ & Hsh & Hm & Hl).
    destruct (Hsp _ _ _ _ Hh Hm) as (hs & Hhs & Htk & Hpl).
    { exists n. split; [apply rec_of_Some; eauto|done]. }
    unfold restorable_rep. unfold C, ctx_of_db. cbn [c_hosts c_tick]. rewrite Hhs.
    apply andb_true_iff. split.
    - apply host_available_iff. unfold now. cbn [c_tick]. rewrite Htk. exact Hgap.
    - unfold host_has_log. apply bool_decide_eq_true. rewrite Hsh. exact Hpl. }
  assert (Hrs : restore_set P C c = sr_failed P C c).
  { unfold restore_set. rewrite Hrest. destruct (need_restore P C c) eqn:Enr; [|done].
    case_bool_decide as Hq; [done|]. destruct (sr_failed P C c) as [|n0 l0] eqn:Ef; [done|]. exfalso. apply Hq.
    unfold need_restore in Enr. apply negb_true_iff, orb_false_iff in Enr as [_ Hw]. apply bool_decide_eq_false in Hw.
    rewrite sr_quorum_eq. pose proof (sr_partition P C c) as Hp.
    unfold n_failed, n_ok in Hp. rewrite Ef in Hp. unfold n_ok, quorum_of.
    assert (0 < size (s_reps c))%nat by (cbn [length] in Hp; lia).
    pose proof (Nat.div_lt (size (s_reps c)) 2 ltac:(lia) ltac:(lia)). lia. }
  exists h, sd. split; [done|]. split; [done|]. split; [done|]. split; [done|]. split; [done|].
  split. { intros n Hn. destruct (Hmv n Hn) as (? & ? & ? & ? & _). done. }
  split; [done|]. split.
  - intros Hcase. unfold repair_action. destruct (sr_failed P C c) as [|n0 l0] eqn:Ef.
    + destruct Hcase as [?|Hw]; [done|]. assert (in_repair P C c = false) as ->; [|done].
      unfold in_repair, n_failed, n_wait. rewrite Ef, Hw. done.
    + assert (is_restored P C c = true) as ->; [|by rewrite orb_true_r].
      apply has_restore_restored; [done|]. unfold has_restore. rewrite Hrs. done.
  - intros Ef Hw.
    assert (Hhr : has_restore P C c = false) by (unfold has_restore; by rewrite Hrs, Ef).
    split; [done|].
    assert (Hnr : is_restored P C c = false).
    { apply not_true_is_false. intros Hr. unfold is_restored in Hr. apply existsb_exists in Hr as (i & Hi & Heq).
      apply N.eqb_eq in Heq. subst i. apply elem_of_list_In in Hi. unfold restored_ids in Hi.
      apply elem_of_list_fmap in Hi as (c2 & Hid & Hc2). apply elem_of_list_filter in Hc2 as [Hr2 Hc2].
      assert (c2 = c) as -> by (apply (entry_inj C (loopinv_ctx_wf st HI)); done). congruence. }
    unfold repair_action. rewrite Hnr, orb_false_r.
    assert (in_repair P C c = true) as ->.
    { unfold in_repair, n_failed, n_wait. rewrite Ef. cbn. destruct (sr_wait P C c); [done|]. done. }
    cbn [negb]. unfold C at 1. cbn [ctx_of_db c_defs]. fold C in Hsd. unfold C, ctx_of_db in Hsd. cbn [c_defs] in Hsd. rewrite Hsd.
    unfold delete_required, n_failed. rewrite Ef. cbn [length]. rewrite andb_false_r. cbn.
    unfold create_required, n_wait. destruct (sr_wait P C c); [done|]. done.
Qed.

Lemma mend_allowed st t o :
  Mend st → mfresh st t → allowed P (ctx_of_db (f_db st)) o = true →
  ∃ b, o = OBatch b ∧ add_ids b = [] ∧
    (∀ q, q ∈ b → good_restore (f_hist st) q ∨ good_join (f_hist st) (q_raft q) q ∨ (is_kill q = true ∧ harmless (f_hist st) q)) ∧
    (∀ s c rid n, d_view (f_db st) !! s = Some c → s_reps c !! rid = Some n →
       replica_failed P n (d_tick (f_db st)) = true →
       ∃ q, q ∈ b ∧ is_restore q = true ∧ q_shard q = s ∧ q_inst q = rid ∧ q_raft q = r_addr n) ∧
    (∀ s c rid n, d_view (f_db st) !! s = Some c → s_reps c !! rid = Some n → r_tick n = 0 →
       (∀ rid' n', s_reps c !! rid' = Some n' → replica_failed P n' (d_tick (f_db st)) = false) →
       ∃ q, q ∈ b ∧ good_join (f_hist st) (r_addr n) q ∧ q_shard q = s ∧ q_inst q = rid ∧ q_raft q = r_addr n).
Proof.
  intros HC Hfr Hal. pose proof (md_inv _ HC) as HI. set (C := ctx_of_db (f_db st)) in *.
  assert (Hkills : ∀ q, q ∈ kills C → valid_req q = true ∧ is_kill q = true ∧ harmless (f_hist st) q).
  { intros q Hq. unfold kills, C, ctx_of_db in Hq. cbn [c_kill] in Hq. apply elem_of_list_fmap in Hq as (k & -> & Hk).
    destruct (md_kill _ HC k Hk) as (Hs0 & Hr0 & Ha0). split; [|split; [done|]].
    - unfold valid_req, kill_req. cbn.
      apply N.eqb_neq in Hs0, Hr0, Ha0. by rewrite Hs0, Hr0, Ha0.
    - right; right. split; [done|]. exists (k_replica k). split; [done|]. intros h Hh.
      by destruct (li_kill _ _ _ _ _ HI k Hk h Hh). }
  (* the action of an entry: nothing, or the join-CREATE of its waiting member *)
  assert (Hact : ∀ c, c ∈ entries C → ∃ h sd, f_hist st !! s_id c = Some h ∧ c_defs C !! s_id c = Some sd ∧ sd_app sd ≠ 0 ∧
            (∀ n, n ∈ mvals (s_reps c) → r_id n ≠ 0 ∧ r_addr n ≠ 0 ∧ r_shard n = s_id c ∧ cur_members h !! r_id n = Some (r_addr n)) ∧
            restore_set P C c = sr_failed P C c ∧
            (repair_action P C c = ANone ∨ (has_restore P C c = false ∧ repair_action P C c = ACreate sd))).
  { intros c Hc. destruct (mready_entry st t c HC Hfr Hc) as (h & sd & Hh & _ & _ & Hsd & Happ & Hmv & Hrs & Hnone & Hcreate).
    fold C in Hsd, Hrs, Hnone, Hcreate. exists h, sd. repeat (split; [done|]).
    destruct (sr_failed P C c) as [|n0 l0] eqn:Ef; [|left; apply Hnone; by left].
    destruct (sr_wait P C c) as [|n1 l1] eqn:Ew; [left; apply Hnone; by right|]. right. by apply Hcreate. }
  assert (Hb : ∃ b, o = OBatch b).
  { destruct o as [b| |]; [by exists b| |]; exfalso.
    - apply sched_error_inv in Hal as (c & Hc & He). destruct (Hact c Hc) as (h0 & sd0 & _ & _ & _ & _ & _ & [Ha|[_ Ha]]);
        unfold err_entry in He; by rewrite Ha in He.
    - cbn [allowed] in Hal. apply orb_true_iff in Hal as [Hal|Hal]; [apply orb_true_iff in Hal as [Hal|Hal]|].
      + unfold restore_crash in Hal. apply existsb_exists in Hal as (c & Hc%elem_of_list_In & Hx).
        destruct (Hact c Hc) as (_ & sd & _ & Hsd & _).
        apply andb_true_iff in Hx as [_ Hx]. apply bool_decide_eq_true in Hx. congruence.
      + apply existsb_exists in Hal as (c & Hc%elem_of_list_In & Hx).
        destruct (Hact c Hc) as (h0 & sd0 & _ & _ & _ & _ & _ & [Ha|[_ Ha]]); unfold crash_entry in Hx; by rewrite Ha in Hx.
      + apply andb_true_iff in Hal as [_ Hal]. unfold may_invalid in Hal. apply orb_true_iff in Hal as [Hal|Hal].
        { apply existsb_exists in Hal as (q & Hq%elem_of_list_In & Hx). destruct (Hkills q Hq) as [Hv _]. by rewrite Hv in Hx. }
        apply existsb_exists in Hal as (c & Hc%elem_of_list_In & Hx).
        destruct (Hact c Hc) as (h & sd & _ & Hsd & Happ & Hmv & Hrs & Hcase).
        assert (Hcm : ∀ l, (∀ n, n ∈ l → n ∈ mvals (s_reps c)) → create_may_invalid c (sd_app sd) l = false).
        { intros l Hl. unfold create_may_invalid. apply orb_false_iff. split; [apply orb_false_iff; split|].
          - by apply N.eqb_neq.
          - apply not_true_is_false. intros Hex. apply existsb_exists in Hex as (m & Hm%elem_of_list_In & Hz). unfold members_of in Hm.
            apply elem_of_list_fmap in Hm as (n & -> & Hn). destruct (Hmv n Hn) as (H1 & H2 & _). cbn [fst snd] in Hz.
            apply orb_true_iff in Hz as [Hz|Hz]; apply N.eqb_eq in Hz; done.
          - apply not_true_is_false. intros Hex. apply existsb_exists in Hex as (n & Hn%elem_of_list_In & Hz).
            destruct (Hmv n (Hl n Hn)) as (H1 & H2 & _). apply orb_true_iff in Hz as [Hz|Hz]; apply N.eqb_eq in Hz; done. }
        unfold entry_may_invalid in Hx. rewrite Hsd in Hx. destruct (has_restore P C c) eqn:Ehr.
        * rewrite Hcm in Hx; [done|]. intros n Hn. rewrite Hrs in Hn. by apply elem_sr_failed in Hn as [Hn _].
        * destruct Hcase as [Ha|[_ Ha]]; rewrite Ha in Hx; [done|].
          rewrite Hcm in Hx; [done|]. intros n Hn. by apply elem_sr_wait in Hn as [Hn _]. }
  destruct Hb as [b ->]. exists b. split; [done|].
  assert (Hgood : ∀ q, q ∈ b → good_restore (f_hist st) q ∨ good_join (f_hist st) (q_raft q) q ∨ (is_kill q = true ∧ harmless (f_hist st) q)).
  { intros q Hq. destruct (batch_request_cases P C b q Hal Hq) as [Hk|(_ & c & qs & Hc & Hs & Hin & Hg & _)].
    { right; right. by destruct (Hkills q Hk) as (_ & ? & ?). }
    destruct (Hact c Hc) as (h & sd & Hh & Hsd & _ & Hmv & Hrs & Hcase).
    apply group_allowed_inv in Hg as [(_ & sd' & _ & Hok)|(Hnr & Hcases)].
    - left. destruct (restore_group_inv P C c _ qs q Hok Hin) as ((Hcr & Hsh & _ & _ & _ & _ & Hj & Hre & _) & n & Hn & Hi & _).
      rewrite Hrs in Hn. apply elem_sr_failed in Hn as [Hn _]. destruct (Hmv n Hn) as (_ & _ & _ & Hm).
      split; [unfold is_restore; by rewrite Hcr, Hre|]. split; [done|]. exists h, (r_addr n). rewrite Hsh, Hi. done.
    - right; left. destruct Hcases as [[_ ->]|[(Ha & _)|[(sd' & Ha & q' & -> & Hok)|(Ha & _)]]]; [by apply elem_of_nil in Hin| | |];
        try (destruct Hcase as [Hx|[_ Hx]]; congruence).
      apply elem_of_list_singleton in Hin as ->. unfold join_req_ok in Hok. apply bool_decide_eq_true in Hok as [Hshape Hex].
      destruct Hshape as (Hcr & Hsh & _ & _ & _ & _ & Hj & Hre & _). apply Exists_exists in Hex as (n & Hn & Hi & Hr).
      apply elem_sr_wait in Hn as [Hn _]. destruct (Hmv n Hn) as (_ & _ & _ & Hm).
      split; [done|]. split; [done|]. split; [done|]. exists h. rewrite Hsh, Hi, Hr. done. }
  split.
  { unfold add_ids. assert (filter (λ q, is_add q = true) b = []) as ->; [|done].
    apply elem_of_nil_inv. intros q Hq. apply elem_of_list_filter in Hq as [Hadd Hq]. unfold is_add in Hadd.
    destruct (Hgood q Hq) as [(Hres & _)|[(Hcr & _)|(Hk & _)]].
    - unfold is_restore, is_create in Hres. by destruct (q_type q).
    - unfold is_create in Hcr. by destruct (q_type q).
    - unfold is_kill in Hk. by destruct (q_type q). }
  split; [exact Hgood|]. split.
  - intros s c rid n Hc Hn Hfail.
    assert (Hce : c ∈ entries C) by (unfold entries, C, ctx_of_db; cbn [c_view]; apply mvals_elem; by exists s).
    destruct (Hact c Hce) as (h & sd & Hh & _ & _ & _ & Hrs & _).
    destruct (li_view _ _ _ _ _ HI s c Hc) as (Hid & _ & Hids). destruct (Hids rid n Hn) as [Hrid _].
    assert (Hnf : n ∈ restore_set P C c).
    { rewrite Hrs. apply elem_sr_failed. split; [apply mvals_elem; by exists rid|]. exact Hfail. }
    destruct (sched_restore_complete P C b c n Hal Hce Hnf) as (q & Hq & Hres & Hs & Hi & Hr).
    exists q. split; [done|]. split; [done|]. split; [congruence|]. split; [congruence|done].
  - intros s c rid n Hc Hn Hz Hnofail.
    assert (Hce : c ∈ entries C) by (unfold entries, C, ctx_of_db; cbn [c_view]; apply mvals_elem; by exists s).
    destruct (li_view _ _ _ _ _ HI s c Hc) as (Hid & _ & Hids). destruct (Hids rid n Hn) as [Hrid _].
    destruct (mready_entry st t c HC Hfr Hce) as (h & sd & Hh & _ & _ & Hsd & _ & Hmv & _ & _ & Hcreate). fold C in Hsd, Hcreate.
    assert (Ef : sr_failed P C c = []).
    { apply elem_of_nil_inv. intros n' Hn'. apply elem_sr_failed in Hn' as [Hn' Hf']. apply mvals_elem in Hn' as [rid' Hn'].
      unfold C, ctx_of_db in Hf'. cbn [c_tick] in Hf'. rewrite (Hnofail rid' n' Hn') in Hf'. done. }
    assert (Hnw : n ∈ sr_wait P C c).
    { apply elem_sr_wait. split; [apply mvals_elem; by exists rid|]. unfold replica_waiting. rewrite Hz. cbn.
      unfold C, ctx_of_db. cbn [c_tick]. by rewrite (Hnofail rid n Hn). }
    destruct Hcreate as [Hnr Hcr]; [done|intros Hnil; rewrite Hnil in Hnw; by apply elem_of_nil in Hnw|].
    destruct (sched_join_complete P C b c sd Hal Hce Hnr Hcr) as (q & Hq & Hs & Hok).
    unfold join_req_ok in Hok. apply bool_decide_eq_true in Hok as [Hshape Hex].
    apply Exists_exists in Hex as (n' & Hn' & Hi & Hr). apply elem_sr_wait in Hn' as [Hn' Hw'].
    apply mvals_elem in Hn' as [rid' Hn']. destruct (Hids rid' n' Hn') as [Hrid' _].
    unfold replica_waiting in Hw'. apply andb_true_iff in Hw' as [Hz' _]. apply N.eqb_eq in Hz'.
    assert (rid' = rid) as -> by (by apply (md_onejoin _ HC s c rid' rid n' n)). assert (n' = n) as -> by congruence.
    exists q. split; [done|]. destruct (Hgood q Hq) as [(Hres & Hjf & _)|[Hgj|(Hk & _)]].
    + destruct Hshape as (_ & _ & _ & _ & _ & _ & Hj & _). congruence.
    + rewrite Hr in Hgj. split; [done|]. split; [congruence|]. split; [congruence|done].
    + destruct Hshape as (Hcq & _). unfold is_kill in Hk. unfold is_create in Hcq. by destruct (q_type q).
Qed.

Lemma mend_schedule st t o st' :
  Mend st → mfresh st t → fstep P st (ESchedule o) = FOk st' →
  ∃ b, o = OBatch b ∧ Mend st' ∧
    f_hosts st' = f_hosts st ∧ f_hist st' = f_hist st ∧
    f_db st' = set_requests (f_db st) (put_requests (d_requests (f_db st)) b) ∧
    (∀ q, q ∈ b → good_restore (f_hist st) q ∨ good_join (f_hist st) (q_raft q) q ∨ (is_kill q = true ∧ harmless (f_hist st) q)) ∧
    (∀ s c rid n, d_view (f_db st) !! s = Some c → s_reps c !! rid = Some n →
       replica_failed P n (d_tick (f_db st)) = true →
       ∃ q, q ∈ b ∧ is_restore q = true ∧ q_shard q = s ∧ q_inst q = rid ∧ q_raft q = r_addr n) ∧
    (∀ s c rid n, d_view (f_db st) !! s = Some c → s_reps c !! rid = Some n → r_tick n = 0 →
       (∀ rid' n', s_reps c !! rid' = Some n' → replica_failed P n' (d_tick (f_db st)) = false) →
       ∃ q, q ∈ b ∧ good_join (f_hist st) (r_addr n) q ∧ q_shard q = s ∧ q_inst q = rid ∧ q_raft q = r_addr n).
Proof.
  intros HC Hfr E. pose proof (md_inv _ HC) as HI. set (C := ctx_of_db (f_db st)).
  cbn [fstep] in E. destruct (allowed P (ctx_of_db (f_db st)) o) eqn:Hal; [|done].
  destruct (mend_allowed st t o HC Hfr Hal) as (b & -> & Hadds & Hgood & Hcomplete & Hjoins). fold C in Hal.
  exists b. split; [done|].
  assert (Hfresh : fresh_ok st (ESchedule (OBatch b))).
  { cbn. rewrite Hadds. split; [constructor|]. intros x Hx. by apply elem_of_nil in Hx. }
  assert (E' : fstep P st (ESchedule (OBatch b)) = FOk st') by (cbn [fstep]; fold C; by rewrite Hal).
  pose proof (step_inv P st _ st' HI Hfresh E') as HI'.
  pose proof (fstep_time_ok P st _ st' E' (md_timeok _ HC)) as Hto.
  assert (Hst' : f_hosts st' = f_hosts st ∧ f_hist st' = f_hist st ∧
                 f_db st' = set_requests (f_db st) (put_requests (d_requests (f_db st)) b)).
  { destruct b as [|q0 b0].
    - injection E as <-. split; [done|]. split; [done|]. destruct st as [d ? ? ?]. cbn. by destruct d.
    - rewrite (schedule_db P st (q0 :: b0) HI Hal) in E by (intros x Hx; rewrite Hadds in Hx; by apply elem_of_nil in Hx).
      injection E as <-. done. }
  destruct Hst' as (Eh & Ehi & Ed).
  split.
  { split; try rewrite Ed; try rewrite Eh; try rewrite Ehi; cbn [set_requests d_tick d_shards d_view d_kill].
    - exact HI'.
    - rewrite Ed in Hto. exact Hto.
    - apply (md_time _ HC).
    - apply (md_defined _ HC).
    - apply (md_viewdef _ HC).
    - apply (md_hosts _ HC).
    - apply (md_kill _ HC).
    - intros a q Hq. unfold boxed_at in Hq. rewrite Ed, Eh in Hq.
      destruct Hq as [(qs & Hl & Hin)|[Hq|Hq]].
      + cbn [d_requests set_requests] in Hl. rewrite put_requests_lookup in Hl. case_bool_decide as Hm.
        * injection Hl as <-. unfold for_addr in Hin. apply elem_of_list_filter in Hin as [Hra Hin].
          destruct (Hgood q Hin) as [Hg|[Hg|[_ Hg]]]; [left; by left|right; left; by rewrite <- Hra|by left].
        * apply (md_boxes _ HC). left. eauto.
      + apply (md_boxes _ HC). right; left. exact Hq.
      + apply (md_boxes _ HC). right; right. exact Hq.
    - apply (md_members _ HC).
    - apply (md_waiting _ HC).
    - apply (md_onejoin _ HC).
    - apply (md_home _ HC).
    - apply (md_nostray _ HC). }
  split; [done|]. split; [done|]. split; [done|]. split; [exact Hgood|]. split; [exact Hcomplete|exact Hjoins].
Qed.

(** * one healthy round *)
Lemma mend_running st s rid a fh : Mend st → f_hosts st !! a = Some fh → member_running (f_hosts st) s rid a = runs_on fh s rid.
Proof. intros HC Ha. unfold member_running, runs_on. rewrite Ha. destruct (md_hosts _ HC _ _ Ha) as [-> _]. done. Qed.

Definition jpending (st : fstate) (a s rid : N) : Prop :=
  ∃ qs q, d_requests (f_db st) !! a = Some qs ∧ q ∈ qs ∧ good_join (f_hist st) a q ∧ q_shard q = s ∧ q_inst q = rid.

Lemma mend_round st st' plogs nticks o :
  Mend st → (∀ a, plogs a = true) → N.of_nat nticks * p_step P ≤ p_ttl P →
  healthy_round P plogs nticks o st = Some st' →
  ∃ b, o = OBatch b ∧ add_ids b = [] ∧ Mend st' ∧ f_hist st' = f_hist st ∧
    d_tick (f_db st') = d_tick (f_db st) + N.of_nat nticks * p_step P ∧
    d_shards (f_db st') = d_shards (f_db st) ∧
    (∀ a fh, f_hosts st' !! a = Some fh → fh_queue fh = []) ∧
    data_mono (f_hist st) (f_hosts st) (f_hosts st') ∧
    (∀ a s rid, mkey (f_hist st) (s, rid) → member_running (f_hosts st) s rid a = true → member_running (f_hosts st') s rid a = true) ∧
    (∀ a fh q, f_hosts st !! a = Some fh → (q ∈ fh_queue fh ∨ ∃ qs, d_requests (f_db st) !! a = Some qs ∧ q ∈ qs) →
        good_restore (f_hist st) q →
        is_Some (fh_reps fh !! (q_shard q, q_inst q)) → member_running (f_hosts st') (q_shard q) (q_inst q) a = true) ∧
    (∀ a s rid, jpending st a s rid → member_running (f_hosts st') s rid a = true) ∧
    (∀ s rid n', rec_of (d_view (f_db st')) s rid = Some n' →
       ∃ n, rec_of (d_view (f_db st)) s rid = Some n ∧
         (((∃ a, member_running (f_hosts st) s rid a = true) ∧ r_tick n' = d_tick (f_db st)) ∨
          ((∀ a, member_running (f_hosts st) s rid a = false) ∧ r_tick n' = r_tick n))) ∧
    (∀ s c rid n, d_view (f_db st') !! s = Some c → s_reps c !! rid = Some n →
       replica_failed P n (d_tick (f_db st')) = true →
       ∃ qs q, d_requests (f_db st') !! r_addr n = Some qs ∧ q ∈ qs ∧ is_restore q = true ∧ q_shard q = s ∧ q_inst q = rid) ∧
    (∀ s c rid n, d_view (f_db st') !! s = Some c → s_reps c !! rid = Some n → r_tick n = 0 →
       (∀ rid' n', s_reps c !! rid' = Some n' → replica_failed P n' (d_tick (f_db st')) = false) →
       jpending st' (r_addr n) s rid).
Proof.
  intros HC Hpl Httl. unfold healthy_round. set (t := d_tick (f_db st)).
  destruct (mend_reports plogs (host_addrs st) st HC (host_addrs_nodup st)) as
    (st1 & E1 & HC1 & Hhi1 & Hse1 & Ht1 & Hsh1 & Hrq1 & _ & Hho1 & Hho1' & Hco1 & Htk1 & Hsp1 & _).
  { intros a. apply host_addrs_elem. }
  rewrite E1.
  destruct (mend_execs (host_addrs st1) st1 HC1 (host_addrs_nodup st1)) as
    (st2 & E2 & HC2 & Hd2 & Hhi2 & Hse2 & Hq2 & _ & Hsd2 & Hmono2 & Heff2 & Hjoin2).
  { intros a. apply host_addrs_elem. }
  rewrite E2.
  destruct (mend_learns (catch_up_events st2) st2 HC2 (catch_up_members st2)) as (st3 & E3 & HC3 & Hd3 & Hhi3 & Hse3 & Hsr3).
  rewrite E3.
  destruct (mend_ticks nticks st3 HC3) as (st4 & E4 & HC4 & Hd4 & Hho4 & Hhi4 & Hse4). rewrite E4.
  destruct (fstep P st4 (ESchedule o)) as [st5| |] eqn:E5; try done. intros [= <-].
  assert (Hsd1 : data_mono (f_hist st) (f_hosts st) (f_hosts st1)).
  { intros a fh k Ha Hk _. exists (delivered st a fh). split; [|done]. apply Hho1; [|done]. apply host_addrs_elem. by eexists. }
  assert (Hsd4 : data_mono (f_hist st) (f_hosts st) (f_hosts st4)).
  { rewrite Hho4. eapply data_mono_trans; [exact Hsd1|]. eapply data_mono_trans; [rewrite <- Hhi1; exact Hsd2|]. by apply same_data_mono, same_run_same_data. }
  assert (Hdb4 : d_view (f_db st4) = d_view (f_db st1) ∧ d_hosts (f_db st4) = d_hosts (f_db st1) ∧
                 d_shards (f_db st4) = d_shards (f_db st1) ∧ d_requests (f_db st4) = d_requests (f_db st1) ∧
                 d_tick (f_db st4) = t + N.of_nat nticks * p_step P).
  { rewrite Hd4, Hd3, Hd2. cbn [set_tick d_view d_hosts d_shards d_requests d_tick]. rewrite Ht1. done. }
  destruct Hdb4 as (Ev4 & Eh4 & Es4 & Er4 & Et4).
  assert (Hhist4 : f_hist st4 = f_hist st) by congruence.
  assert (Hfr : mfresh st4 t).
  { split; [rewrite Et4; lia|]. intros s h0 rid a Hh0 Hm (n4 & Hrec4 & Hnz4). rewrite Hhist4 in Hh0.
    rewrite Ev4 in Hrec4. destruct (Htk1 s rid n4 Hrec4) as (n & Hrec & Hcase).
    destruct (md_members _ HC s h0 Hh0) as (c & Hc & Hcc & Hmem). destruct (Hmem rid a Hm) as (_ & _ & fh & Hfh & Hdata).
    assert (Hk : is_Some (fh_reps fh !! (s, rid))).
    { destruct Hcase as [[(a' & fh' & _ & Hfh' & Hrun) _]|[_ Htick]].
      - unfold runs_on in Hrun. destruct (fh_reps fh' !! (s, rid)) as [lr|] eqn:Ek; [|done].
        assert (a = a') as <- by (by apply (md_home _ HC a' fh' s rid lr h0 a)). assert (fh' = fh) as -> by congruence. by eexists.
      - apply Hdata. exists n. split; [done|]. congruence. }
    destruct (Hsp1 a fh) as (h & Hh & Htk & Hplog); [apply host_addrs_elem; by eexists|done|].
    exists h. rewrite Eh4. split; [done|]. split; [done|]. by apply Hplog; [apply Hpl|]. }
  destruct (mend_schedule st4 t o st5 HC4 Hfr E5) as (b & -> & HC5 & Hho5 & Hhi5 & Hd5 & Hgood & Hsched & Hjsched).
  exists b. split; [done|]. split.
  { unfold add_ids. assert (filter (λ q, is_add q = true) b = []) as ->; [|done].
    apply elem_of_nil_inv. intros q Hq. apply elem_of_list_filter in Hq as [Hadd Hq]. unfold is_add in Hadd.
    destruct (Hgood q Hq) as [(Hres & _)|[(Hcr & _)|(Hk & _)]].
    - unfold is_restore, is_create in Hres. by destruct (q_type q).
    - unfold is_create in Hcr. by destruct (q_type q).
    - unfold is_kill in Hk. by destruct (q_type q). }
  split; [done|]. split; [congruence|].
  split; [rewrite Hd5; cbn [set_requests d_tick]; exact Et4|].
  split; [rewrite Hd5; cbn [set_requests d_shards]; congruence|].
  assert (Hrun3 : ∀ s rid a, member_running (f_hosts st5) s rid a = member_running (f_hosts st2) s rid a).
  { intros s rid a. rewrite Hho5, Hho4. by apply same_run_running. }
  split.
  { intros a fh5 Ha5. rewrite Hho5, Hho4 in Ha5. pose proof (Hsr3 a) as Hx.
    destruct (f_hosts st2 !! a) as [fh2|] eqn:Ha2; [|congruence]. destruct Hx as (fh3 & Hfh3 & _ & Hq3 & _).
    assert (fh3 = fh5) as -> by congruence. rewrite Hq3. apply (Hq2 a fh2); [|done]. apply host_addrs_elem.
    destruct (f_hosts st1 !! a) as [fh1|] eqn:Ha1; [by eexists|].
    exfalso. assert (Hnin : a ∉ host_addrs st1) by (intros Hin; apply host_addrs_elem in Hin; rewrite Ha1 in Hin; by destruct Hin).
    (* a host of st2 is a host of st1 *)
    pose proof (md_inv _ HC2) as HI2. clear -Ha1 Ha2 E2 Hnin.
    assert (Hkeep : ∀ l st0 st0', steps P st0 ((λ a, EExec a true) <$> l) = Some st0' → f_hosts st0 !! a = None → f_hosts st0' !! a = None).
    { induction l as [|b l IH]; intros st0 st0' Hs Hn; [cbn in Hs; by injection Hs as <-|].
      rewrite fmap_cons, steps_cons in Hs. destruct (fstep P st0 (EExec b true)) as [stx| |] eqn:Ex; [|by eapply IH|done].
      eapply IH; [exact Hs|]. cbn [fstep] in Ex. destruct (f_hosts st0 !! b) as [fhb|] eqn:Hb; [|done]. destruct (fh_up fhb); [|done].
      destruct (exec_all _ _ _ _) as [x|] eqn:Exa; [|done]. injection Ex as <-. cbn [f_hosts].
      assert (Hne : a ≠ b) by (intros ->; congruence).
      assert (Hgen : ∀ qs x0 x1, exec_all b true x0 qs = Some x1 → x0.1 !! a = None → x1.1 !! a = None).
      { clear -Hne. induction qs as [|q qs IHq]; intros x0 x1 Hx H0; [cbn in Hx; by injection Hx as <-|].
        cbn [exec_all] in Hx. destruct (exec_req b true x0 q) as [xm|] eqn:Eq; [|done]. eapply IHq; [exact Hx|].
        unfold exec_req in Eq. destruct (x0.1 !! b) as [fhb|] eqn:Hb; [|by injection Eq as <-].
        assert (Hsr : ∀ reps', set_reps x0.1 b reps' !! a = None) by (intros reps'; unfold set_reps; rewrite Hb; by rewrite lookup_insert_ne).
        destruct (q_type q).
        - destruct (q_join q), (q_restore q); try done.
          + destruct (fh_reps fhb !! _); injection Eq as <-; [unfold start_existing; destruct (_ || _); cbn; [done|apply Hsr]|].
            destruct (busy _ _); cbn; [done|apply Hsr].
          + destruct (fh_reps fhb !! _); injection Eq as <-; [unfold start_existing; destruct (_ || _); cbn; [done|apply Hsr]|done].
          + destruct (fh_reps fhb !! _); [done|]. injection Eq as <-. destruct (busy _ _); cbn; [done|apply Hsr].
        - destruct (q_members q); [done|]. injection Eq as <-. destruct (hist_of x0.2 (q_shard q)); [done|]. destruct (_ && _); cbn; [apply Hsr|done].
        - destruct (q_members q); [done|]. destruct (q_addrs q); [done|]. injection Eq as <-. destruct (hist_of x0.2 (q_shard q)); [done|].
          destruct (_ && _); cbn; [apply Hsr|done].
        - destruct (q_members q); [done|]. injection Eq as <-. destruct (fh_reps fhb !! _) as [lr|]; [|done]. destruct (lr_running lr); cbn; [apply Hsr|done]. }
      eapply Hgen; [exact Exa|]. cbn. by rewrite lookup_insert_ne. }
    rewrite (Hkeep _ _ _ E2 Ha1) in Ha2. done. }
  split; [by rewrite Hho5|].
  assert (Hrun1 : ∀ s rid a, member_running (f_hosts st1) s rid a = member_running (f_hosts st) s rid a).
  { intros s rid a. unfold member_running. destruct (f_hosts st !! a) as [fh|] eqn:Ha.
    - rewrite (Hho1 a fh) by (try apply host_addrs_elem; by eauto). cbn. by destruct (md_hosts _ HC _ _ Ha) as [-> _].
    - rewrite Hho1', Ha; [done|]. intros Hin. apply host_addrs_elem in Hin. rewrite Ha in Hin. by destruct Hin. }
  split.
  { intros a s rid Hmk Hrun. rewrite Hrun3. apply Hmono2; [by rewrite Hhi1|]. by rewrite Hrun1. }
  split.
  { intros a fh q Ha Hq Hres Hk. rewrite Hrun3.
    assert (Ha1 : f_hosts st1 !! a = Some (delivered st a fh)) by (apply Hho1; [apply host_addrs_elem; by eexists|done]).
    apply (Heff2 a (delivered st a fh) q); [apply host_addrs_elem; by eexists|done| |by rewrite Hhi1|done].
    cbn [delivered fh_queue]. apply elem_of_app. destruct Hq as [Hq|(qs & Hqs & Hq)]; [by left|right]. by rewrite Hqs. }
  split.
  { intros a s rid (qs & q & Hqs & Hq & Hgj & Hs & Hi). subst s rid. rewrite Hrun3.
    pose proof Hgj as (_ & _ & _ & h0 & Hh0 & Hm0). destruct (hm_hosts _ _ (mend_hmend st HC) _ _ _ _ Hh0 Hm0) as [fh Ha].
    assert (Ha1 : f_hosts st1 !! a = Some (delivered st a fh)) by (apply Hho1; [apply host_addrs_elem; by eexists|done]).
    apply (Hjoin2 a (delivered st a fh) q); [apply host_addrs_elem; by eexists|done| |by rewrite Hhi1].
    cbn [delivered fh_queue]. apply elem_of_app. right. by rewrite Hqs. }
  assert (Ev5 : d_view (f_db st5) = d_view (f_db st1)) by (rewrite Hd5; cbn [set_requests d_view]; exact Ev4).
  split.
  { intros s rid n' Hrec. rewrite Ev5 in Hrec. destruct (Htk1 s rid n' Hrec) as (n & Hn & Hcase). exists n. split; [done|].
    destruct Hcase as [[(a & fh & _ & Ha & Hr) Htick]|[Hnone Htick]].
    - left. split; [|done]. exists a. by rewrite (mend_running st s rid a fh HC Ha).
    - right. split; [|done]. intros a. destruct (f_hosts st !! a) as [fh|] eqn:Ha.
      + rewrite (mend_running st s rid a fh HC Ha). apply (Hnone a fh); [|done]. apply host_addrs_elem. by eexists.
      + unfold member_running. by rewrite Ha. }
  assert (Hreq5 : ∀ a q, q ∈ b → q_raft q = a → ∃ qs, d_requests (f_db st5) !! a = Some qs ∧ q ∈ qs).
  { intros a q Hq Hr. exists (for_addr a b). rewrite Hd5. cbn [set_requests d_requests]. rewrite put_requests_lookup.
    rewrite bool_decide_eq_true_2.
    - split; [done|]. unfold for_addr. apply elem_of_list_filter. done.
    - unfold mentions. apply elem_of_list_fmap. by exists q. }
  split.
  - intros s c rid n Hc Hn Hfail.
    assert (Hc4 : d_view (f_db st4) !! s = Some c) by (rewrite Ev4, <- Ev5; done).
    assert (Hfail4 : replica_failed P n (d_tick (f_db st4)) = true) by (rewrite Hd5 in Hfail; exact Hfail).
    destruct (Hsched s c rid n Hc4 Hn Hfail4) as (q & Hq & Hres & Hs & Hi & Hr).
    destruct (Hreq5 (r_addr n) q Hq Hr) as (qs & Hqs & Hin). exists qs, q. done.
  - intros s c rid n Hc Hn Hz Hnofail.
    assert (Hc4 : d_view (f_db st4) !! s = Some c) by (rewrite Ev4, <- Ev5; done).
    assert (Hnf4 : ∀ rid' n', s_reps c !! rid' = Some n' → replica_failed P n' (d_tick (f_db st4)) = false).
    { intros rid' n' Hn'. specialize (Hnofail rid' n' Hn'). rewrite Hd5 in Hnofail. exact Hnofail. }
    destruct (Hjsched s c rid n Hc4 Hn Hz Hnf4) as (q & Hq & Hgj & Hs & Hi & Hr).
    destruct (Hreq5 (r_addr n) q Hq Hr) as (qs & Hqs & Hin). exists qs, q. rewrite Hhi5. done.
Qed.

(** * the members, one by one *)
Lemma mend_member_rec st s rid a :
  Mend st → member st s rid a →
  ∃ c n fh, d_view (f_db st) !! s = Some c ∧ s_reps c !! rid = Some n ∧ r_addr n = a ∧
            f_hosts st !! a = Some fh ∧ (r_tick n ≠ 0 → is_Some (fh_reps fh !! (s, rid))) ∧ (r_tick n = 0 → r_first n ≠ 0).
Proof.
  intros HC (h & Hh & Hm). destruct (md_members _ HC s h Hh) as (c & Hc & Hcc & Hmem).
  destruct (Hmem rid a Hm) as (_ & _ & fh & Hfh & Hdata).
  destruct (calm_view_member st s h c rid (md_inv _ HC) Hh Hc Hcc) as [Hiff Haddr].
  assert (is_Some (s_reps c !! rid)) as [n Hn] by (apply Hiff; by eexists).
  exists c, n, fh. split; [done|]. split; [done|]. split; [specialize (Haddr n Hn); congruence|]. split; [done|]. split.
  - intros Hnz. apply Hdata. exists n. split; [apply rec_of_Some; eauto|done].
  - by apply (md_waiting _ HC s c rid n).
Qed.

Lemma mend_member_elsewhere st s rid a a' :
  Mend st → member st s rid a → member_running (f_hosts st) s rid a' = true → a' = a.
Proof.
  intros HC (h & Hh & Hm) Hrun. unfold member_running in Hrun. destruct (f_hosts st !! a') as [fh|] eqn:Ha'; [|done].
  destruct (fh_reps fh !! (s, rid)) as [lr|] eqn:Hk; [|by rewrite andb_false_r in Hrun].
  symmetry. by apply (md_home _ HC a' fh s rid lr h a).
Qed.

Lemma mem_tick_rec st s rid c n : d_view (f_db st) !! s = Some c → s_reps c !! rid = Some n → mem_tick st s rid = r_tick n.
Proof. intros Hc Hn. unfold mem_tick. assert (Hrec : rec_of (d_view (f_db st)) s rid = Some n) by (apply rec_of_Some; eauto). by rewrite Hrec. Qed.

Lemma mend_round_member st st' plogs nticks o s rid a :
  Mend st → (∀ a, plogs a = true) → N.of_nat nticks * p_step P ≤ p_ttl P →
  healthy_round P plogs nticks o st = Some st' → member st s rid a →
  member st' s rid a ∧
  (member_running (f_hosts st) s rid a = true →
     member_running (f_hosts st') s rid a = true ∧ mem_tick st' s rid = d_tick (f_db st)) ∧
  (member_running (f_hosts st) s rid a = false → mem_tick st' s rid = mem_tick st s rid) ∧
  (pending st a s rid → mem_tick st s rid ≠ 0 → member_running (f_hosts st') s rid a = true) ∧
  (jpending st a s rid → member_running (f_hosts st') s rid a = true) ∧
  (member_running (f_hosts st') s rid a = false → mem_tick st' s rid ≠ 0 →
     p_ttl P < d_tick (f_db st') - mem_tick st' s rid → pending st' a s rid) ∧
  (mem_tick st' s rid = 0 →
     (∀ rid' a', member st' s rid' a' → mem_tick st' s rid' = 0 ∨ d_tick (f_db st') - mem_tick st' s rid' ≤ p_ttl P) →
     jpending st' a s rid).
Proof.
  intros HC Hpl Httl Hround Hmem.
  destruct (mend_round st st' plogs nticks o HC Hpl Httl Hround) as
    (b & _ & _ & HC' & Hhi & Htick & _ & _ & _ & Hmono & Heff & Hjeff & Hticks & Hsched & Hjsched).
  assert (Hmem' : member st' s rid a) by (unfold member; by rewrite Hhi).
  destruct (mend_member_rec st s rid a HC Hmem) as (c & n & fh & Hc & Hn & Hra & Hfh & Hdata & _).
  destruct (mend_member_rec st' s rid a HC' Hmem') as (c' & n' & fh' & Hc' & Hn' & Hra' & Hfh' & _ & Hfirst').
  assert (Hrec : rec_of (d_view (f_db st)) s rid = Some n) by (apply rec_of_Some; eauto).
  assert (Hrec' : rec_of (d_view (f_db st')) s rid = Some n') by (apply rec_of_Some; eauto).
  destruct (Hticks s rid n' Hrec') as (n0 & Hn0 & Hcase). assert (n0 = n) as -> by congruence.
  split; [done|]. split; [|split; [|split; [|split; [|split]]]].
  - intros Hrun. split; [apply Hmono; [|done]; destruct Hmem as (h0 & Hh0 & Hm0); exists h0; cbn; split; [done|by eexists]|]. unfold mem_tick. rewrite Hrec'.
    destruct Hcase as [[_ Ht]|[Hnone _]]; [done|]. rewrite (Hnone a) in Hrun. done.
  - intros Hrun. unfold mem_tick. rewrite Hrec, Hrec'. destruct Hcase as [[[a' Hr'] _]|[_ Ht]]; [|done].
    pose proof (mend_member_elsewhere st s rid a a' HC Hmem Hr') as ->. congruence.
  - intros (qs & q & Hqs & Hq & Hres & Hs & Hi) Hnz. subst s rid.
    assert (Hgr : good_restore (f_hist st) q).
    { destruct Hmem as (h0 & Hh0 & Hm0). apply (mharmless_restore _ a q h0 a); [|done|done|done]. apply (md_boxes _ HC). left. eauto. }
    apply (Heff a fh q Hfh); [right; eauto|done|].
    apply Hdata. unfold mem_tick in Hnz. by rewrite Hrec in Hnz.
  - intros Hj. by apply Hjeff.
  - intros Hrun Hnz Hgap. unfold mem_tick in Hgap, Hnz. rewrite Hrec' in Hgap, Hnz.
    assert (Hfail : replica_failed P n' (d_tick (f_db st')) = true).
    { unfold replica_failed. assert ((r_tick n' =? 0) = false) as -> by (by apply N.eqb_neq).
      unfold entity_failed. apply N.ltb_lt. exact Hgap. }
    destruct (Hsched s c' rid n' Hc' Hn' Hfail) as (qs & q & Hqs & Hq & Hres & Hs & Hi). rewrite Hra' in Hqs.
    exists qs, q. done.
  - intros Hz Hall. unfold mem_tick in Hz. rewrite Hrec' in Hz. rewrite <- Hra'.
    apply (Hjsched s c' rid n' Hc' Hn' Hz). intros rid' n2 Hn2.
    destruct (md_inv _ HC') as [_ _ _ _ Hview _ _ _ _ _ _ _]. destruct Hmem' as (h & Hh & Hm).
    destruct (md_members _ HC' s h Hh) as (c2 & Hc2 & Hcc & _). assert (c2 = c') as -> by congruence.
    destruct (calm_view_member st' s h c' rid' (md_inv _ HC') Hh Hc' Hcc) as [_ Haddr].
    assert (Hm2 : member st' s rid' (r_addr n2)) by (exists h; split; [done|by apply Haddr]).
    specialize (Hall rid' (r_addr n2) Hm2). rewrite (mem_tick_rec st' s rid' c' n2 Hc' Hn2) in Hall.
    unfold replica_failed. destruct (r_tick n2 =? 0) eqn:Ez.
    + apply N.eqb_eq in Ez. apply N.eqb_neq. by apply (md_waiting _ HC' s c' rid' n2).
    + apply N.eqb_neq in Ez. destruct Hall as [?|Hle]; [done|]. unfold entity_failed. apply N.ltb_ge. exact Hle.
Qed.

(** * healed *)
Lemma mend_healed st :
  Mend st →
  (∀ s rid a, member st s rid a →
     member_running (f_hosts st) s rid a = true ∧ mem_tick st s rid ≠ 0 ∧ d_tick (f_db st) - mem_tick st s rid ≤ p_ttl P) →
  healed P st = true.
Proof.
  intros HC Hall. pose proof (md_inv _ HC) as HI.
  unfold healed. apply forallb_forall. intros [s sd] Hin. apply elem_of_list_In, elem_of_map_to_list in Hin. cbn [fst].
  destruct (md_defined _ HC s sd Hin) as ([h Hh] & Hne & _).
  destruct (md_members _ HC s h Hh) as (c & Hc & Hcc & Hmem).
  destruct (calm_view st s h c HI Hh Hc Hcc) as (HH & _ & _).
  destruct (cur_entry_at _ _ _ HI Hh) as [_ Hcurin].
  destruct (hist_wf_mem_ok _ _ (li_hist _ _ _ _ _ HI _ _ Hh) (cur_version h, cur_members h) Hcurin) as [[Hlo _] _].
  cbn [snd] in Hlo. unfold shard_size in Hlo. rewrite Hin in Hlo.
  unfold shard_healed. unfold hist_of. rewrite Hh. cbn [default from_option id].
  apply andb_true_iff. split; [apply andb_true_iff; split|].
  - unfold to_shard_state. rewrite Hc. cbn [ss_unavailable]. apply negb_true_iff, negb_false_iff.
    unfold shard_available. apply bool_decide_eq_true.
    assert (Hok : ok_replicas P c (d_tick (f_db st)) = mvals (s_reps c)).
    { unfold ok_replicas. apply filter_all. intros n Hn. apply mvals_elem in Hn as [rid Hn].
      assert (Hm : member st s rid (r_addr n)).
      { exists h. split; [done|]. rewrite <- HH, lookup_fmap, Hn. done. }
      destruct (Hall s rid (r_addr n) Hm) as (_ & Hnz & Hfresh). rewrite (mem_tick_rec st s rid c n Hc Hn) in Hnz, Hfresh.
      unfold replica_ok, replica_waiting, replica_failed, entity_failed.
      assert ((r_tick n =? 0) = false) as -> by (by apply N.eqb_neq). cbn [andb negb].
      rewrite andb_true_r. apply negb_true_iff, N.ltb_ge. exact Hfresh. }
    rewrite Hok. unfold mvals. rewrite fmap_length. change (length (map_to_list (s_reps c))) with (size (s_reps c)).
    assert (Hsz : size (s_reps c) = size (cur_members h)) by (by rewrite <- HH, map_size_fmap).
    assert (0 < length (sd_members sd))%nat by (destruct (sd_members sd); [done|cbn; lia]).
    unfold quorum_of. rewrite Hsz. pose proof (Nat.div_lt (size (cur_members h)) 2 ltac:(lia) ltac:(lia)). lia.
  - apply bool_decide_eq_true. unfold shard_size. by rewrite Hin.
  - apply forallb_forall. intros [rid a] Hra. apply elem_of_list_In, elem_of_map_to_list in Hra. cbn [fst snd].
    apply (Hall s rid a). by exists h.
Qed.

(** * consecutive healthy rounds *)
Section Rounds.
Variables (plogs : N → bool) (nticks : nat).
Hypothesis Hpl : ∀ a, plogs a = true.
Hypothesis Httl : N.of_nat nticks * p_step P ≤ p_ttl P.
Let delta : N := N.of_nat nticks * p_step P.

Lemma mend_rounds_mend os : ∀ st st', Mend st → healthy_rounds P plogs nticks os st = Some st' → Mend st' ∧ f_hist st' = f_hist st.
Proof.
  induction os as [|o os IH]; intros st st' HC Hr; cbn [healthy_rounds] in Hr; [by injection Hr as <-|].
  destruct (healthy_round P plogs nticks o st) as [st1|] eqn:E1; [|done].
  destruct (mend_round st st1 plogs nticks o HC Hpl Httl E1) as (b & _ & _ & HC1 & Hhi1 & _).
  destruct (IH st1 st' HC1 Hr) as [HC' Hhi']. split; [done|congruence].
Qed.

(* while the failure detector waits: a member that does not run keeps the report time it had *)
Lemma mend_rounds_detect os : ∀ st st' T0,
  Mend st →
  (∀ s rid a, member st s rid a → member_running (f_hosts st) s rid a = false → mem_tick st s rid ≤ T0) →
  healthy_rounds P plogs nticks os st = Some st' →
  Mend st' ∧ f_hist st' = f_hist st ∧ d_tick (f_db st') = d_tick (f_db st) + N.of_nat (length os) * delta ∧
  (∀ s rid a, member st' s rid a → member_running (f_hosts st') s rid a = false → mem_tick st' s rid ≤ T0) ∧
  (os ≠ [] → ∀ s rid a, member st' s rid a → member_running (f_hosts st') s rid a = false → mem_tick st' s rid ≠ 0 →
     p_ttl P < d_tick (f_db st') - mem_tick st' s rid → pending st' a s rid).
Proof.
  induction os as [|o os IH]; intros st st' T0 HC Hold Hr.
  { cbn in Hr. injection Hr as <-. split; [done|]. split; [done|]. split; [cbn; lia|]. split; [done|]. done. }
  cbn [healthy_rounds] in Hr. destruct (healthy_round P plogs nticks o st) as [st1|] eqn:E1; [|done].
  destruct (mend_round st st1 plogs nticks o HC Hpl Httl E1) as (b & _ & _ & HC1 & Hhi1 & Ht1 & _).
  assert (Hold1 : ∀ s rid a, member st1 s rid a → member_running (f_hosts st1) s rid a = false → mem_tick st1 s rid ≤ T0).
  { intros s rid a Hm1 Hrun1. assert (Hm : member st s rid a) by (unfold member in *; by rewrite <- Hhi1).
    destruct (mend_round_member st st1 plogs nticks o s rid a HC Hpl Httl E1 Hm) as (_ & Ha & Hb & _).
    destruct (member_running (f_hosts st) s rid a) eqn:Erun.
    - destruct (Ha eq_refl) as [Hx _]. congruence.
    - rewrite (Hb eq_refl). by apply (Hold s rid a). }
  destruct (IH st1 st' T0 HC1 Hold1 Hr) as (HC' & Hhi' & Ht' & Hold' & Hpend').
  split; [done|]. split; [congruence|]. split.
  { rewrite Ht', Ht1. fold delta. cbn [length]. rewrite Nat2N.inj_succ, N.mul_succ_l. lia. }
  split; [done|]. intros _. destruct os as [|o' os'].
  - cbn in Hr. injection Hr as <-. intros s rid a Hm1 Hrun1 Hnz Hgap.
    assert (Hm : member st s rid a) by (unfold member in *; by rewrite <- Hhi1).
    destruct (mend_round_member st st1 plogs nticks o s rid a HC Hpl Httl E1 Hm) as (_ & _ & _ & _ & _ & Hd & _). by apply Hd.
  - by apply Hpend'.
Qed.

Theorem mend_heal os st st' :
  Mend st → (0 < nticks)%nat → 0 < p_step P →
  length os = (detect_rounds P nticks + 4)%nat →
  healthy_rounds P plogs nticks os st = Some st' →
  Mend st' ∧ healed P st' = true.
Proof.
  intros HC Hnt Hstep Hlen Hr.
  set (K := detect_rounds P nticks) in *.
  assert (Hdpos : 0 < delta) by (unfold delta; lia).
  rewrite <- (take_drop K os), rounds_app in Hr.
  destruct (healthy_rounds P plogs nticks (take K os) st) as [st1|] eqn:E1; [|done].
  assert (Hl1 : length (take K os) = K) by (rewrite take_length; lia).
  destruct (drop K os) as [|o1 [|o2 [|o3 [|o4 [|? ?]]]]] eqn:Ed;
    try (apply (f_equal length) in Ed; rewrite drop_length in Ed; cbn [length] in Ed; lia).
  cbn [healthy_rounds] in Hr.
  destruct (healthy_round P plogs nticks o1 st1) as [st2|] eqn:E2; [|done].
  destruct (healthy_round P plogs nticks o2 st2) as [st3|] eqn:E3; [|done].
  destruct (healthy_round P plogs nticks o3 st3) as [st4|] eqn:E4; [|done].
  destruct (healthy_round P plogs nticks o4 st4) as [st5|] eqn:E5; [|done]. injection Hr as <-.
  (* phase 1: every member that has reported and does not run is declared failed and gets its restore request *)
  destruct (mend_rounds_detect (take K os) st st1 (d_tick (f_db st)) HC) as (HC1 & Hhi1 & Ht1 & Hold1 & Hpend1); [|done|].
  { intros s rid a Hm _. destruct (mend_member_rec st s rid a HC Hm) as (c & n & _ & Hc & Hn & _).
    rewrite (mem_tick_rec st s rid c n Hc Hn). destruct (md_timeok _ HC) as (Hto & _). by destruct (Hto s c rid n Hc Hn). }
  rewrite Hl1 in Ht1.
  assert (HK : p_ttl P < N.of_nat K * delta).
  { unfold K, detect_rounds. fold delta. rewrite Nat2N.inj_succ, N2Nat.id.
    pose proof (N.mul_succ_div_gt (p_ttl P) delta ltac:(lia)). lia. }
  assert (Hall1 : ∀ s rid a, member st1 s rid a → member_running (f_hosts st1) s rid a = false → mem_tick st1 s rid ≠ 0 → pending st1 a s rid).
  { intros s rid a Hm Hrun Hnz. apply Hpend1; [|done|done|done|].
    - intros Hnil. apply (f_equal length) in Hnil. rewrite Hl1 in Hnil. unfold K, detect_rounds in Hnil. cbn in Hnil. lia.
    - pose proof (Hold1 s rid a Hm Hrun). lia. }
  destruct (mend_round st1 st2 plogs nticks o1 HC1 Hpl Httl E2) as (b2 & _ & _ & HC2 & Hhi2 & Ht2 & _).
  destruct (mend_round st2 st3 plogs nticks o2 HC2 Hpl Httl E3) as (b3 & _ & _ & HC3 & Hhi3 & Ht3 & _).
  destruct (mend_round st3 st4 plogs nticks o3 HC3 Hpl Httl E4) as (b4 & _ & _ & HC4 & Hhi4 & Ht4 & _).
  destruct (mend_round st4 st5 plogs nticks o4 HC4 Hpl Httl E5) as (b5 & _ & _ & HC5 & Hhi5 & Ht5 & _).
  assert (Hm21 : ∀ s rid a, member st2 s rid a → member st1 s rid a) by (intros s rid a; unfold member; by rewrite Hhi2).
  assert (Hm32 : ∀ s rid a, member st3 s rid a → member st2 s rid a) by (intros s rid a; unfold member; by rewrite Hhi3).
  assert (Hm43 : ∀ s rid a, member st4 s rid a → member st3 s rid a) by (intros s rid a; unfold member; by rewrite Hhi4).
  assert (Hm54 : ∀ s rid a, member st5 s rid a → member st4 s rid a) by (intros s rid a; unfold member; by rewrite Hhi5).
  (* phase 2: the members that have reported are restarted; a member that does not run after it has never reported *)
  assert (P2 : ∀ s rid a, member st2 s rid a → member_running (f_hosts st2) s rid a = false → mem_tick st2 s rid = 0).
  { intros s rid a Hm2 Hrun2. pose proof (Hm21 _ _ _ Hm2) as Hm.
    destruct (mend_round_member st1 st2 plogs nticks o1 s rid a HC1 Hpl Httl E2 Hm) as (_ & Ha & Hb & Hc & _).
    destruct (member_running (f_hosts st1) s rid a) eqn:Erun; [destruct (Ha eq_refl); congruence|].
    rewrite (Hb eq_refl). destruct (decide (mem_tick st1 s rid = 0)) as [Hz|Hnz]; [done|].
    rewrite (Hc (Hall1 s rid a Hm Erun Hnz) Hnz) in Hrun2. done. }
  (* phase 3: they report; every member is fresh or has never reported; the joiners get their CREATE *)
  assert (P3 : ∀ s rid a, member st3 s rid a →
            (mem_tick st3 s rid = 0 ∨ (member_running (f_hosts st3) s rid a = true ∧ mem_tick st3 s rid = d_tick (f_db st2)))).
  { intros s rid a Hm3. pose proof (Hm32 _ _ _ Hm3) as Hm.
    destruct (mend_round_member st2 st3 plogs nticks o2 s rid a HC2 Hpl Httl E3 Hm) as (_ & Ha & Hb & _).
    destruct (member_running (f_hosts st2) s rid a) eqn:Erun; [right; by apply Ha|].
    left. rewrite (Hb eq_refl). by apply (P2 s rid a). }
  assert (P3j : ∀ s rid a, member st3 s rid a → mem_tick st3 s rid = 0 → jpending st3 a s rid).
  { intros s rid a Hm3 Hz. pose proof (Hm32 _ _ _ Hm3) as Hm.
    destruct (mend_round_member st2 st3 plogs nticks o2 s rid a HC2 Hpl Httl E3 Hm) as (_ & _ & _ & _ & _ & _ & Hf).
    apply Hf; [done|]. intros rid' a' Hm'. destruct (P3 s rid' a' Hm') as [?|[_ Htk]]; [by left|right].
    rewrite Htk, Ht3. fold delta. unfold delta in *. lia. }
  (* phase 4: everybody runs *)
  assert (P4 : ∀ s rid a, member st4 s rid a → member_running (f_hosts st4) s rid a = true).
  { intros s rid a Hm4. pose proof (Hm43 _ _ _ Hm4) as Hm.
    destruct (mend_round_member st3 st4 plogs nticks o3 s rid a HC3 Hpl Httl E4 Hm) as (_ & Ha & _ & _ & Hj & _).
    destruct (P3 s rid a Hm) as [Hz|[Hrun _]]; [|by apply Ha]. apply Hj. by apply P3j. }
  (* phase 5: everybody has reported in time *)
  split; [done|]. apply (mend_healed st5 HC5). intros s rid a Hm5. pose proof (Hm54 _ _ _ Hm5) as Hm.
  destruct (mend_round_member st4 st5 plogs nticks o4 s rid a HC4 Hpl Httl E5 Hm) as (_ & Ha & _).
  destruct (Ha (P4 s rid a Hm)) as [Hrun Htk]. split; [done|]. rewrite Htk, Ht5. fold delta.
  pose proof (md_time _ HC4). unfold delta in *. split; lia.
Qed.

(* ... and it stays healed: any number of healthy rounds >= the bound *)
Theorem mend_heal_ge os st st' :
  Mend st → (0 < nticks)%nat → 0 < p_step P →
  (detect_rounds P nticks + 4 ≤ length os)%nat →
  healthy_rounds P plogs nticks os st = Some st' →
  Mend st' ∧ healed P st' = true.
Proof.
  intros HC Hnt Hstep Hlen Hr. set (k := (length os - (detect_rounds P nticks + 4))%nat).
  rewrite <- (take_drop k os), rounds_app in Hr.
  destruct (healthy_rounds P plogs nticks (take k os) st) as [st1|] eqn:E1; [|done].
  apply (mend_heal (drop k os) st1 st'); [by eapply mend_rounds_mend|done|done| |done].
  rewrite drop_length. unfold k. lia.
Qed.
End Rounds.

(** * the rank *)
Definition jpendingb (st : fstate) (a s rid : N) : bool :=
  existsb (λ q, is_create q && q_join q && negb (q_restore q) && (q_shard q =? s) && (q_inst q =? rid))
          (default [] (d_requests (f_db st) !! a)).

Lemma jpendingb_spec st a s rid : member st s rid a → jpendingb st a s rid = true ↔ jpending st a s rid.
Proof.
  intros (h & Hh & Hm). unfold jpendingb, jpending. rewrite existsb_exists. split.
  - intros (q & Hq & Hx). apply elem_of_list_In in Hq. destruct (d_requests (f_db st) !! a) as [qs|]; [|by apply elem_of_nil in Hq].
    repeat (apply andb_true_iff in Hx as [Hx ?]). apply N.eqb_eq in H, H0. apply negb_true_iff in H1.
    exists qs, q. split; [done|]. split; [done|]. split; [|done]. split; [done|]. split; [done|]. split; [done|].
    exists h. subst s rid. done.
  - intros (qs & q & -> & Hq & (H1 & H2 & H3 & _) & H4 & H5). exists q. split; [by apply elem_of_list_In|].
    rewrite H1, H2, H3, H4, H5, !N.eqb_refl. done.
Qed.

(* per member that has reported: as in FleetHealProofs (0 runs and is reported in time; 1 runs, report overdue; 2 stopped,
   restore scheduled; 3 + the time left until the failure detector fires); per member that never reported (joiner):
   1 runs; 2 its join-CREATE is scheduled; 3 waits for it *)
Definition mrank_member (st : fstate) (m : N * N * N) : nat :=
  let '(s, rid, a) := m in
  let age := d_tick (f_db st) - mem_tick st s rid in
  if mem_tick st s rid =? 0 then
    (if member_running (f_hosts st) s rid a then 1%nat else if jpendingb st a s rid then 2%nat else 3%nat)
  else if member_running (f_hosts st) s rid a then (if p_ttl P <? age then 1%nat else 0%nat)
  else if pendingb st a s rid then 2%nat
  else (3 + N.to_nat (p_ttl P + 1 - age))%nat.

Definition mend_rank (st : fstate) : nat := sum_list_with (mrank_member st) (members_list st).

Lemma mrank_zero st s rid a :
  mrank_member st (s, rid, a) = 0%nat →
  member_running (f_hosts st) s rid a = true ∧ mem_tick st s rid ≠ 0 ∧ d_tick (f_db st) - mem_tick st s rid ≤ p_ttl P.
Proof.
  unfold mrank_member. destruct (mem_tick st s rid =? 0) eqn:Ez.
  - destruct (member_running (f_hosts st) s rid a); [done|]. by destruct (jpendingb st a s rid).
  - apply N.eqb_neq in Ez. destruct (member_running (f_hosts st) s rid a).
    + destruct (p_ttl P <? _) eqn:E; [done|]. apply N.ltb_ge in E. done.
    + destruct (pendingb st a s rid); [done|]. lia.
Qed.

Theorem mend_progress st st' plogs nticks o :
  Mend st → (∀ a, plogs a = true) → (0 < nticks)%nat → 0 < p_step P → N.of_nat nticks * p_step P ≤ p_ttl P →
  healed P st = false → healthy_round P plogs nticks o st = Some st' →
  (mend_rank st' < mend_rank st)%nat.
Proof.
  intros HC Hpl Hnt Hstep Httl Hnh Hround.
  destruct (mend_round st st' plogs nticks o HC Hpl Httl Hround) as (b & _ & _ & HC' & Hhi & Htick & _).
  assert (Hd : 0 < N.of_nat nticks * p_step P) by lia.
  unfold mend_rank. assert (members_list st' = members_list st) as -> by (unfold members_list; by rewrite Hhi).
  assert (Hmt : ∀ s rid a, member st s rid a → mem_tick st s rid ≤ d_tick (f_db st)).
  { intros s rid a Hm. destruct (mend_member_rec st s rid a HC Hm) as (c & n & _ & Hcv & Hn & _).
    rewrite (mem_tick_rec st s rid c n Hcv Hn). destruct (md_timeok _ HC) as (Hto & _). by destruct (Hto s c rid n Hcv Hn). }
  (* every member: the rank does not grow; it drops unless it is 0 or the member is a joiner still waiting for its CREATE *)
  assert (Hstepm : ∀ s rid a, member st s rid a →
            (mrank_member st' (s, rid, a) ≤ mrank_member st (s, rid, a))%nat ∧
            (mrank_member st (s, rid, a) ≠ 0%nat →
               (mrank_member st' (s, rid, a) < mrank_member st (s, rid, a))%nat ∨
               (mem_tick st' s rid = 0 ∧ member_running (f_hosts st') s rid a = false ∧ jpendingb st' a s rid = false))).
  { intros s rid a Hm. pose proof (Hmt s rid a Hm) as Hle.
    destruct (mend_round_member st st' plogs nticks o s rid a HC Hpl Httl Hround Hm) as (Hm' & Ha & Hb & Hc & Hj & Hdd & _).
    unfold mrank_member. destruct (member_running (f_hosts st) s rid a) eqn:Erun.
    - destruct (Ha eq_refl) as [-> ->]. rewrite Htick.
      assert ((d_tick (f_db st) =? 0) = false) as -> by (apply N.eqb_neq; pose proof (md_time _ HC); lia).
      assert ((p_ttl P <? d_tick (f_db st) + N.of_nat nticks * p_step P - d_tick (f_db st)) = false) as -> by (apply N.ltb_ge; lia).
      destruct (mem_tick st s rid =? 0); [split; [lia|intros _; left; lia]|]. destruct (p_ttl P <? _); split; try lia; intros; left; lia.
    - rewrite (Hb eq_refl). destruct (mem_tick st s rid =? 0) eqn:Ez.
      + destruct (jpendingb st a s rid) eqn:Ej.
        * apply (jpendingb_spec st a s rid Hm) in Ej. rewrite (Hj Ej). split; [lia|]. intros _. left. lia.
        * destruct (member_running (f_hosts st') s rid a); [split; [lia|intros _; left; lia]|].
          destruct (jpendingb st' a s rid) eqn:Ej'; [split; [lia|intros _; left; lia]|]. split; [lia|]. intros _. right.
          apply N.eqb_eq in Ez. done.
      + apply N.eqb_neq in Ez. destruct (pendingb st a s rid) eqn:Ep.
        * apply pendingb_spec in Ep. rewrite (Hc Ep Ez). destruct (p_ttl P <? _); split; try lia; intros; left; lia.
        * destruct (member_running (f_hosts st') s rid a) eqn:Erun'; [destruct (p_ttl P <? _); split; try lia; intros; left; lia|].
          destruct (pendingb st' a s rid) eqn:Ep'; [split; [lia|intros; left; lia]|].
          assert (Hng : ¬ (p_ttl P < d_tick (f_db st') - mem_tick st' s rid)).
          { intros Hg. assert (Hp : pending st' a s rid) by (apply Hdd; [done|by rewrite (Hb eq_refl)|exact Hg]). apply pendingb_spec in Hp. congruence. }
          rewrite (Hb eq_refl) in Hng. rewrite Htick in Hng |- *. split; [lia|]. intros _. left. lia. }
  apply sum_list_with_lt.
  - intros [[s rid] a] Hx. apply members_list_elem in Hx. by apply Hstepm.
  - (* some member is not done *)
    destruct (decide (Forall (λ m, mrank_member st m = 0%nat) (members_list st))) as [Hall|Hnall].
    { exfalso. rewrite (mend_healed st HC) in Hnh; [done|]. intros s rid a Hm. apply mrank_zero.
      rewrite Forall_forall in Hall. apply Hall. by apply members_list_elem. }
    apply not_Forall_Exists in Hnall; [|apply _]. apply Exists_exists in Hnall as ([[s rid] a] & Hx & Hnz).
    apply members_list_elem in Hx. destruct (Hstepm s rid a Hx) as [_ Hdec]. destruct (Hdec Hnz) as [Hlt|(Hz' & Hrun' & Hj')].
    { exists (s, rid, a). split; [by apply members_list_elem|done]. }
    (* a joiner still waiting: a member of its shard is declared failed, its rank drops *)
    destruct (mend_round_member st st' plogs nticks o s rid a HC Hpl Httl Hround Hx) as (Hm' & _ & _ & _ & _ & _ & Hf).
    assert (Hex : ∃ rid' a', member st' s rid' a' ∧ mem_tick st' s rid' ≠ 0 ∧ p_ttl P < d_tick (f_db st') - mem_tick st' s rid').
    { destruct (decide (Exists (λ m, m.1.1 = s ∧ mem_tick st' s m.1.2 ≠ 0 ∧ p_ttl P < d_tick (f_db st') - mem_tick st' s m.1.2) (members_list st'))) as [He|Hne].
      - apply Exists_exists in He as ([[s0 rid'] a'] & Hin & Hs0 & H1 & H2). cbn in Hs0, H1, H2. subst s0.
        apply members_list_elem in Hin. by exists rid', a'.
      - exfalso. assert (Hjp : jpending st' a s rid).
        { apply Hf; [done|]. intros rid' a' Hm2. destruct (decide (mem_tick st' s rid' = 0)) as [?|Hnz2]; [by left|right].
          apply N.le_ngt. intros Hgt. apply Hne. apply Exists_exists. exists (s, rid', a'). split; [by apply members_list_elem|done]. }
        apply (jpendingb_spec st' a s rid Hm') in Hjp. congruence. }
    destruct Hex as (rid' & a' & Hm2 & Hnz2 & Hgap2).
    assert (Hm2o : member st s rid' a') by (unfold member in *; by rewrite <- Hhi).
    exists (s, rid', a'). split; [by apply members_list_elem|].
    destruct (Hstepm s rid' a' Hm2o) as [_ Hdec2].
    destruct (mend_round_member st st' plogs nticks o s rid' a' HC Hpl Httl Hround Hm2o) as (_ & Ha2 & Hb2 & _).
    assert (Hnz0 : mrank_member st (s, rid', a') ≠ 0%nat).
    { intros H0. apply mrank_zero in H0 as (Hr0 & _ & _). destruct (Ha2 Hr0) as [_ Htk]. rewrite Htk, Htick in Hgap2. lia. }
    destruct (Hdec2 Hnz0) as [?|(Hz2 & _)]; [done|congruence].
Qed.
End Mend.

(* the part of [mend_round] quoted by props/C01.v *)
Lemma mend_round_short P st st' plogs nticks o :
  Mend st → (∀ a, plogs a = true) → N.of_nat nticks * p_step P ≤ p_ttl P →
  healthy_round P plogs nticks o st = Some st' →
  ∃ b, o = OBatch b ∧ add_ids b = [] ∧ Mend st' ∧ f_hist st' = f_hist st ∧
    (∀ a s rid, member st s rid a → member_running (f_hosts st) s rid a = true → member_running (f_hosts st') s rid a = true).
Proof.
  intros HC Hpl Httl Hr.
  destruct (mend_round P st st' plogs nticks o HC Hpl Httl Hr) as (b & H1 & H2 & H3 & H4 & _ & _ & _ & _ & H5 & _).
  exists b. split; [done|]. split; [done|]. split; [done|]. split; [done|].
  intros a s rid (h0 & Hh0 & Hm0). apply H5. exists h0. cbn. split; [done|]. by eexists.
Qed.
