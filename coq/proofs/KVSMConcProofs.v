(** C15, lookups concurrent with another call: the states a concurrent lookup may observe are justified by the
    replica's update history (corollaries of the sequential theorems of KVSMProofs.v). *)
From Drummer.Model Require Import Base KVCodec KVSM.
From Drummer.Proofs Require Import KVSMProofs.

Lemma run_from_app M a : forall s b,
  run_from M s (a ++ b) = match run_from M s a with Some s' => run_from M s' b | None => None end.
Proof.
  induction a as [|o a IH]; intros s b; cbn [app run_from]; [reflexivity|].
  destruct (step M s o) as [[s' mo]|]; [apply IH|reflexivity].
Qed.

Lemma hist_snoc_update hp ops r p :
  hist hp (ops ++ [OUpdate r p]) r = hist hp ops r ++ p.
Proof.
  unfold hist, hist_sys. rewrite fold_left_app. cbn [fold_left gstep]. unfold set_g.
  rewrite N.eqb_refl. reflexivity.
Qed.

Lemma conc_update_of_lookup M sm pre kok :
  lookup_spec M sm pre kok -> conc_update_spec M sm pre kok.
Proof.
  intros HL ops s r ents i st k HR HU HP Hk.
  rewrite <- (hist_snoc_update (m_has_prepare M) ops r (firstn i ents)).
  pose (s' := set_rep M s r (mkRep M st (r_ctx M (s r)) (r_snap M (s r)))).
  assert (HR' : run M (ops ++ [OUpdate r (firstn i ents)]) = Some s').
  { unfold run in *. rewrite run_from_app, HR. cbn [run_from step]. rewrite HU. reflexivity. }
  pose proof (HL _ _ r k HR' HP Hk) as E.
  unfold s', set_rep in E. rewrite N.eqb_refl in E. cbn [r_st] in E. exact E.
Qed.

Lemma json_conc_update c sm : conc_update_spec (json_machine c sm) sm (utf8_script sm) any_key.
Proof. apply conc_update_of_lookup, json_lookup. Qed.

Lemma disk_conc_update sm : conc_update_spec (disk_m sm) sm any_script user_key.
Proof. apply conc_update_of_lookup, disk_lookup. Qed.

Lemma apply_ents_prefix sm ents : forall m m' i,
  apply_ents sm ents m = Some m' -> exists m'', apply_ents sm (firstn i ents) m = Some m''.
Proof.
  induction ents as [|[ix cmd] rest IH]; intros m m' i H.
  - rewrite firstn_nil. exists m. reflexivity.
  - destruct i as [|i]; [exists m; reflexivity|].
    cbn [firstn apply_ents] in *. destruct (decode_cmd sm cmd) as [[k v]|]; [|discriminate].
    eapply IH; exact H.
Qed.

Lemma json_update_prefix_defined c sm : update_prefix_defined (json_machine c sm).
Proof.
  intros st ents st' i H. cbn [json_machine m_update] in *. unfold j_update in *.
  destruct (apply_ents sm ents (js_store st)) as [m|] eqn:E; [|discriminate].
  destruct (apply_ents_prefix sm ents _ _ i E) as [m'' ->]. eexists; reflexivity.
Qed.
