(** Proofs about the election model (C14). *)
From Drummer.Model Require Import Base Election ElectionSpec.
From Coq Require Import ZifyN ZifyNat ZifyBool Permutation.

(* ================================================================== *)
(** * 1. The record under arbitrary interleavings (operation granularity) *)

Lemma cas_updated r self old tick :
  snd (cas r self old tick) = Updated -> fst (cas r self old tick) = Some (self, tick).
Proof.
  unfold cas. destruct r as [[h t]|]; [|reflexivity].
  destruct ((h =? self) || (h =? old)); cbn [fst snd]; [reflexivity|discriminate].
Qed.

Lemma cas_rejected r self old tick :
  snd (cas r self old tick) = Rejected -> fst (cas r self old tick) = r.
Proof.
  unfold cas. destruct r as [[h t]|]; [|discriminate].
  destruct ((h =? self) || (h =? old)); cbn [fst snd]; [discriminate|reflexivity].
Qed.

(** the CAS rule, exactly *)
Lemma cas_code r self old tick :
  snd (cas r self old tick) = Updated <->
  (r = None \/ holder r = Some self \/ holder r = Some old).
Proof.
  unfold cas, holder. destruct r as [[h t]|]; cbn [snd].
  - destruct (N.eqb_spec h self) as [E1|E1]; destruct (N.eqb_spec h old) as [E2|E2]; cbn [orb snd];
      split; intros H; try reflexivity; try discriminate.
    + subst. right; left; reflexivity.
    + subst. right; left; reflexivity.
    + subst. right; right; reflexivity.
    + destruct H as [H|[H|H]]; [discriminate|inversion H; contradiction|inversion H; contradiction].
  - split; intros _; [left|]; reflexivity.
Qed.

Lemma cas_not_none r self old tick : fst (cas r self old tick) <> None.
Proof.
  unfold cas. destruct r as [[h t]|]; [|discriminate].
  destruct ((h =? self) || (h =? old)); cbn [fst]; discriminate.
Qed.

(** an event is consistent with the record it happened on *)
Definition ev_ok (r : rcd) (e : event) : Prop :=
  match e with
  | ECas _ self old tick before _ res _ => before = r /\ res = snd (cas r self old tick)
  | _ => True
  end.

Fixpoint trace_ok (r : rcd) (tr : list event) : Prop :=
  match tr with
  | [] => True
  | e :: tr' => ev_ok r e /\ trace_ok (ev_apply r e) tr'
  end.

Definition replay_rec (r : rcd) (tr : list event) : rcd := fold_left ev_apply tr r.

Lemma trace_ok_app r a b :
  trace_ok r (a ++ b) <-> trace_ok r a /\ trace_ok (replay_rec r a) b.
Proof.
  revert r. induction a as [|e a IH]; intros r; cbn [app trace_ok replay_rec fold_left].
  - tauto.
  - rewrite IH. unfold replay_rec. tauto.
Qed.

Lemma cas_event_ok who f r self old tick : ev_ok r (cas_event who f r self old tick).
Proof. unfold cas_event, ev_ok. split; reflexivity. Qed.

Lemma cas_event_apply who f r self old tick :
  ev_apply r (cas_event who f r self old tick) = fst (cas_resp f r self old tick).
Proof.
  unfold cas_event, ev_apply, cas_resp. destruct f; cbn [fst].
  - destruct (cas r self old tick); reflexivity.
  - reflexivity.
  - reflexivity.
Qed.

Lemma ostep_spec thr c y :
  match snd (ostep thr c y) with
  | Some e => ev_ok (oc_rec y) e /\ oc_rec (fst (ostep thr c y)) = ev_apply (oc_rec y) e
  | None => oc_rec (fst (ostep thr c y)) = oc_rec y
  end.
Proof.
  destruct c as [i tick|i f]; cbn [ostep].
  - destruct (nth_error (oc_pool y) i) as [[s [p|]]|]; reflexivity.
  - destruct (nth_error (oc_pool y) i) as [[s [p|]]|]; try reflexivity.
    destruct p as [s' pn|k|k|self old tick k|k]; cbn [fst snd oc_rec]; try (split; reflexivity); try reflexivity.
    pose proof (cas_event_apply i f (oc_rec y) self old tick) as HA.
    destruct (cas_resp f (oc_rec y) self old tick) as [r' a]. cbn [fst snd oc_rec] in *.
    split; [apply cas_event_ok|symmetry; exact HA].
Qed.

Lemma otrace_ok thr cs : forall y, trace_ok (oc_rec y) (otrace thr cs y).
Proof.
  induction cs as [|c cs IH]; intros y; cbn [otrace]; [exact I|].
  pose proof (ostep_spec thr c y) as HS.
  destruct (ostep thr c y) as [y' oe]. cbn [fst snd] in HS.
  destruct oe as [e|].
  - destruct HS as [H1 H2]. cbn [trace_ok]. split; [exact H1|]. rewrite <- H2. apply IH.
  - rewrite <- HS. apply IH.
Qed.

Lemma ev_apply_holder r e x :
  ev_ok r e -> holder (ev_apply r e) = Some x -> holder r = Some x \/ stored_by e = Some x.
Proof.
  destruct e as [w a|w ok|w self old tick before applied res rep|w]; cbn [ev_ok ev_apply stored_by]; try (intros _ H; left; exact H).
  intros [_ Hres] H. destruct applied; [|left; exact H].
  destruct res.
  - symmetry in Hres. apply cas_updated in Hres. rewrite Hres in H. cbn [holder] in H.
    right. exact H.
  - symmetry in Hres. apply cas_rejected in Hres. rewrite Hres in H. left; exact H.
Qed.

Lemma replay_holder tr : forall r x,
  trace_ok r tr -> holder (replay_rec r tr) = Some x ->
  holder r = Some x \/ exists e, In e tr /\ stored_by e = Some x.
Proof.
  induction tr as [|e tr IH]; intros r x Hok H; cbn [replay_rec fold_left] in H.
  - left; exact H.
  - cbn [trace_ok] in Hok. destruct Hok as [He Hok].
    destruct (IH _ _ Hok H) as [H1|(e' & Hin & Hs)].
    + destruct (ev_apply_holder _ _ _ He H1) as [H2|H2].
      * left; exact H2.
      * right. exists e. split; [left; reflexivity|exact H2].
    + right. exists e'. split; [right; exact Hin|exact Hs].
Qed.

Lemma ev_apply_not_none r e : r <> None -> ev_apply r e <> None.
Proof.
  intros Hr. destruct e as [w a|w ok|w self old tick before applied res rep|w]; cbn [ev_apply]; try exact Hr.
  destruct applied; [apply cas_not_none|exact Hr].
Qed.

Lemma replay_not_none tr : forall r, r <> None -> replay_rec r tr <> None.
Proof.
  induction tr as [|e tr IH]; intros r Hr; cbn [replay_rec fold_left]; [exact Hr|].
  apply IH. apply ev_apply_not_none. exact Hr.
Qed.


Lemma displaces_inv h e :
  displaces h e ->
  exists w self tick before rep,
    e = ECas w self h tick before true Updated rep /\ holder before = Some h /\ self <> h.
Proof.
  destruct e as [w a|w ok|w self old tick before applied res rep|w]; cbn [displaces]; try contradiction.
  destruct applied; [|contradiction]. destruct res; [|contradiction].
  intros (H1 & H2 & H3). subst old. exists w, self, tick, before, rep. repeat split; assumption.
Qed.

(** trace-level statement: two campaigns against one tenure never both succeed *)
Lemma trace_cas_exclusive r0 h l1 e1 l2 e2 l3 :
  trace_ok r0 (l1 ++ e1 :: l2 ++ e2 :: l3) ->
  displaces h e1 -> displaces h e2 ->
  exists e, In e l2 /\ stored_by e = Some h.
Proof.
  intros Hok D1 D2.
  apply trace_ok_app in Hok. destruct Hok as [_ Hok]. cbn [trace_ok] in Hok. destruct Hok as [He1 Hok].
  apply trace_ok_app in Hok. destruct Hok as [Hl2 Hok]. cbn [trace_ok] in Hok. destruct Hok as [He2 _].
  destruct (displaces_inv _ _ D1) as (w1 & self1 & tick1 & b1 & rep1 & E1 & Hb1 & Hs1).
  destruct (displaces_inv _ _ D2) as (w2 & self2 & tick2 & b2 & rep2 & E2 & Hb2 & Hs2).
  subst e1 e2. cbn [ev_ok] in He1, He2. destruct He1 as [Hbe1 Hr1]. destruct He2 as [Hbe2 _].
  set (r1 := replay_rec r0 l1) in *.
  cbn [ev_apply] in Hl2, Hbe2.
  symmetry in Hr1. apply cas_updated in Hr1. rewrite Hr1 in Hl2, Hbe2.
  subst b2.
  destruct (replay_holder _ _ _ Hl2 Hb2) as [H|H].
  - cbn [holder] in H. inversion H. contradiction.
  - exact H.
Qed.

Theorem cas_exclusive thr cs y h l1 e1 l2 e2 l3 :
  otrace thr cs y = l1 ++ e1 :: l2 ++ e2 :: l3 ->
  displaces h e1 -> displaces h e2 ->
  exists e, In e l2 /\ stored_by e = Some h.
Proof.
  intros Htr. pose proof (otrace_ok thr cs y) as Hok. rewrite Htr in Hok.
  eapply trace_cas_exclusive; eassumption.
Qed.

(** the sharper form: after [self1] took the record, a CAS by somebody else that
    names [h] as old holder is rejected unless [h] or the proposer itself got
    the record back in between *)
Lemma trace_second_rejected r0 l1 e1 l2 l3 self1 w2 self2 h tick2 before2 res2 rep2 :
  trace_ok r0 (l1 ++ e1 :: l2 ++ ECas w2 self2 h tick2 before2 true res2 rep2 :: l3) ->
  stored_by e1 = Some self1 ->
  self2 <> self1 -> h <> self1 ->
  (forall e, In e l2 -> stored_by e <> Some h /\ stored_by e <> Some self2) ->
  res2 = Rejected.
Proof.
  intros Hok S1 Hn1 Hn2 Hl2no.
  apply trace_ok_app in Hok. destruct Hok as [_ Hok]. cbn [trace_ok] in Hok. destruct Hok as [He1 Hok].
  apply trace_ok_app in Hok. destruct Hok as [Hl2 Hok]. cbn [trace_ok] in Hok. destruct Hok as [He2 _].
  cbn [ev_ok] in He2. destruct He2 as [_ Hres2].
  set (r1 := replay_rec r0 l1) in *.
  assert (Hh1 : holder (ev_apply r1 e1) = Some self1).
  { destruct e1 as [w a|w ok|w self old tick before applied res rep|w]; cbn [stored_by] in S1; try discriminate.
    destruct applied; [|discriminate]. destruct res; [|discriminate]. inversion S1; subst self.
    cbn [ev_ok] in He1. destruct He1 as [_ Hr]. symmetry in Hr. apply cas_updated in Hr.
    cbn [ev_apply]. rewrite Hr. reflexivity. }
  set (r1' := ev_apply r1 e1) in *.
  set (r2 := replay_rec r1' l2) in *.
  destruct res2; [|reflexivity]. exfalso.
  symmetry in Hres2. apply cas_code in Hres2.
  assert (Hnn : r2 <> None).
  { apply replay_not_none. intros E. rewrite E in Hh1. discriminate. }
  destruct Hres2 as [H|[H|H]].
  - contradiction.
  - destruct (replay_holder _ _ _ Hl2 H) as [H'|(e & Hin & Hs)].
    + rewrite Hh1 in H'. inversion H'. congruence.
    + destruct (Hl2no e Hin) as [_ Hx]. contradiction.
  - destruct (replay_holder _ _ _ Hl2 H) as [H'|(e & Hin & Hs)].
    + rewrite Hh1 in H'. inversion H'. congruence.
    + destruct (Hl2no e Hin) as [Hx _]. contradiction.
Qed.

Theorem cas_second_rejected thr cs y l1 e1 l2 l3 self1 w2 self2 h tick2 before2 res2 rep2 :
  otrace thr cs y = l1 ++ e1 :: l2 ++ ECas w2 self2 h tick2 before2 true res2 rep2 :: l3 ->
  stored_by e1 = Some self1 ->
  self2 <> self1 -> h <> self1 ->
  (forall e, In e l2 -> stored_by e <> Some h /\ stored_by e <> Some self2) ->
  res2 = Rejected.
Proof.
  intros Htr. pose proof (otrace_ok thr cs y) as Hok. rewrite Htr in Hok.
  eapply trace_second_rejected; eassumption.
Qed.

(** the holder changes only through a stored write, and becomes its author *)
Theorem holder_changes_by_stored_write thr cs y x :
  holder (oc_rec (oexec thr cs y)) = Some x ->
  holder (oc_rec y) = Some x \/ exists e, In e (otrace thr cs y) /\ stored_by e = Some x.
Proof.
  assert (HR : forall cs y, oc_rec (oexec thr cs y) = replay_rec (oc_rec y) (otrace thr cs y)).
  { clear. induction cs as [|c cs IH]; intros y; cbn [oexec otrace]; [reflexivity|].
    pose proof (ostep_spec thr c y) as HS. destruct (ostep thr c y) as [y' oe]. cbn [fst snd] in *.
    rewrite IH. destruct oe as [e|].
    - destruct HS as [_ HS]. cbn [replay_rec fold_left]. rewrite HS. reflexivity.
    - rewrite HS. reflexivity. }
  rewrite HR. apply replay_holder. apply otrace_ok.
Qed.

(* ================================================================== *)
(** * 2. One turn under arbitrary answers: holder-only, step-down       *)

Lemma N_eqb_refl' (a : N) : (a =? a) = true.
Proof. apply N.eqb_refl. Qed.

(** feeding a continuation-style sub-program *)
Lemma feed_get_session s k rs :
  feed (get_session s k) rs =
  if s_sess s then feed (k (Some s)) rs
  else match rs with
       | RSess ok :: rs' => feed (if ok then k (Some (with_sess s true)) else k None) rs'
       | _ => None
       end.
Proof.
  unfold get_session. destruct (s_sess s); [reflexivity|].
  destruct rs as [|[a|[|]|c|] rs']; reflexivity.
Qed.

Lemma feed_reset_session s k rs :
  feed (reset_session s k) rs =
  if s_sess s then match rs with RClose :: rs' => feed (k (with_sess s false)) rs' | _ => None end
  else feed (k s) rs.
Proof.
  unfold reset_session. destruct (s_sess s); [|reflexivity].
  destruct rs as [|[a|ok|c|] rs']; reflexivity.
Qed.

(** all leaves of renewLeadership in terms of the continuations *)
Lemma feed_renew s tick kerr kok rs r :
  feed (renew_leadership s tick kerr kok) rs = Some r ->
  (exists s' rs', s_id s' = s_id s /\ s_cur s' = s_cur s /\ s_role s' = s_role s /\ feed (kerr s') rs' = Some r) \/
  (exists s' rs', s_id s' = s_id s /\ s_role s' = Follower /\ feed (kerr s') rs' = Some r) \/
  (exists s' rs', s_id s' = s_id s /\ s_cur s' = s_cur s /\ s_role s' = s_role s /\ feed (kok s') rs' = Some r) \/
  (exists s' rs', s_id s' = s_id s /\ s_role s' = Follower /\ feed (kok s') rs' = Some r).
Proof.
  unfold renew_leadership. rewrite feed_get_session.
  assert (HC : forall s1 rs, s_id s1 = s_id s -> s_cur s1 = s_cur s -> s_role s1 = s_role s ->
     feed (PCas (s_id s1) 0 tick (fun r0 => match r0 with
        | None => reset_session s1 (fun s2 => kerr (become_follower None s2))
        | Some c => if code_eqb c Updated then kok s1 else kok (become_follower None s1) end)) rs = Some r ->
     (exists s' rs', s_id s' = s_id s /\ s_role s' = Follower /\ feed (kerr s') rs' = Some r) \/
     (exists s' rs', s_id s' = s_id s /\ s_cur s' = s_cur s /\ s_role s' = s_role s /\ feed (kok s') rs' = Some r) \/
     (exists s' rs', s_id s' = s_id s /\ s_role s' = Follower /\ feed (kok s') rs' = Some r)).
  { intros s1 rs1 Hid Hcur Hrole H.
    destruct rs1 as [|[a|ok|c|] rs1]; cbn [feed] in H; try discriminate.
    destruct c as [c|].
    - destruct (code_eqb c Updated).
      + right; left. exists s1, rs1. repeat split; assumption.
      + right; right. exists (become_follower None s1), rs1. repeat split; assumption.
    - rewrite feed_reset_session in H. destruct (s_sess s1).
      + destruct rs1 as [|[a|ok|c|] rs1]; try discriminate.
        left. exists (become_follower None (with_sess s1 false)), rs1. repeat split; assumption.
      + left. exists (become_follower None s1), rs1. repeat split; assumption. }
  destruct (s_sess s).
  - intros H. right. apply (HC s rs); auto.
  - destruct rs as [|[a|ok|c|] rs']; try discriminate.
    destruct ok.
    + intros H. right. apply (HC (with_sess s true) rs'); auto.
    + intros H. left. exists s, rs'. repeat split; auto.
Qed.


Lemma set_leader_info_fields s h t s1 :
  set_leader_info s h t = Some s1 ->
  s_id s1 = s_id s /\ s_role s1 = s_role s /\ s_sess s1 = s_sess s /\
  exists c, s_cur s1 = Some c /\ l_id c = h.
Proof.
  unfold set_leader_info. destruct (s_cur s) as [c|].
  - destruct (N.eqb_spec (l_id c) h) as [E|E]; cbn [andb negb].
    + destruct (l_tick c <? t).
      * intros H; inversion H; subst s1. cbn. repeat split; eauto.
      * destruct (l_tick c =? t); [|discriminate].
        intros H; inversion H; subst s1. cbn. repeat split; eauto.
    + intros H; inversion H; subst s1. cbn. repeat split; eauto.
  - intros H; inversion H; subst s1. cbn. repeat split; eauto.
Qed.

Lemma feed_campaign_leader s tick rs s' pn :
  s_role s = Follower ->
  feed (campaign s tick) rs = Some (s', pn) -> s_role s' = Leader ->
  read_own (s_id s) rs /\ s_id s' = s_id s.
Proof.
  intros Hrole. unfold campaign. rewrite Hrole.
  rewrite feed_get_session.
  assert (HC : forall s1 rs, s_id s1 = s_id s -> s_role s1 = Follower ->
     feed (PCas (s_id s1) (match s_cur s with Some c => l_id c | None => 0 end) tick (fun r =>
              match r with
              | Some Updated =>
                  PRead (fun a =>
                    match a with
                    | None => PDone (reset_follower s1) false
                    | Some (h, _) =>
                        if h =? s_id s1 then PDone (become_leader s1) false
                        else PDone s1 false
                    end)
              | _ => reset_session s1 (fun s2 => PDone (reset_follower s2) false)
              end)) rs = Some (s', pn) -> s_role s' = Leader ->
     read_own (s_id s) rs /\ s_id s' = s_id s).
  { intros s1 rs1 Hid Hr1 H HL.
    destruct rs1 as [|[a|ok|c|] rs1]; cbn [feed] in H; try discriminate.
    destruct c as [[|]|].
    - destruct rs1 as [|[a|ok|c|] rs1]; cbn [feed] in H; try discriminate.
      destruct a as [[h t]|].
      + destruct (N.eqb_spec h (s_id s1)) as [E|E].
        * destruct rs1; cbn [feed] in H; [|discriminate]. inversion H; subst s' pn.
          split; [|exact Hid]. exists t. right. left. rewrite E, Hid. reflexivity.
        * destruct rs1; cbn [feed] in H; [|discriminate]. inversion H; subst s' pn. congruence.
      + destruct rs1; cbn [feed] in H; [|discriminate]. inversion H; subst s' pn. discriminate.
    - rewrite feed_reset_session in H. destruct (s_sess s1).
      + destruct rs1 as [|[a|ok|c|] rs1]; try discriminate.
        destruct rs1; cbn [feed] in H; [|discriminate]. inversion H; subst s' pn. discriminate.
      + destruct rs1; cbn [feed] in H; [|discriminate]. inversion H; subst s' pn. discriminate.
    - rewrite feed_reset_session in H. destruct (s_sess s1).
      + destruct rs1 as [|[a|ok|c|] rs1]; try discriminate.
        destruct rs1; cbn [feed] in H; [|discriminate]. inversion H; subst s' pn. discriminate.
      + destruct rs1; cbn [feed] in H; [|discriminate]. inversion H; subst s' pn. discriminate. }
  destruct (s_sess s).
  - intros H HL. apply (HC s rs); auto.
  - destruct rs as [|[a|ok|c|] rs']; try discriminate.
    destruct ok.
    + intros H HL. destruct (HC (with_sess s true) rs' eq_refl Hrole H HL) as [(t & Hin) Hid].
      split; [|exact Hid]. exists t. right. exact Hin.
    + destruct rs'; cbn [feed]; [|discriminate]. intros H HL. inversion H; subst. congruence.
Qed.

(** every turn starts with a lookup of the record *)
Lemma first_op_is_read thr s tick rs r :
  feed (turn_prog thr s tick) rs = Some r -> exists a rs', rs = RRead a :: rs'.
Proof.
  unfold turn_prog, leader_main, follower_main.
  destruct (s_role s); destruct rs as [|[a|ok|c|] rs']; cbn [feed]; try discriminate; eauto.
Qed.

(** C14 holder-only: a server that is leader at the end of a turn has, in that
    turn, read the record and found its own instance id in it.  (The answers
    [rs] are arbitrary: any interleaving of other servers, any fault.) *)
Theorem holder_only thr s tick rs s' pn :
  feed (turn_prog thr s tick) rs = Some (s', pn) -> s_role s' = Leader ->
  read_own (s_id s) rs /\ s_id s' = s_id s.
Proof.
  unfold turn_prog. destruct (s_role s) eqn:Hrole.
  - unfold follower_main.
    destruct rs as [|[a|ok|c|] rs]; cbn [feed]; try discriminate.
    destruct a as [[h t]|].
    + destruct (N.eqb_spec h 0) as [E0|E0].
      * intros H HL. destruct (feed_campaign_leader _ _ _ _ _ Hrole H HL) as [(t' & Hin) Hid].
        split; [|exact Hid]. exists t'. right. exact Hin.
      * destruct (N.eqb_spec h (s_id s)) as [E1|E1].
        -- intros H HL. split; [exists t; left; subst h; reflexivity|].
           apply feed_renew in H.
           destruct H as [(s2 & rs2 & Hid & _ & _ & H)|[(s2 & rs2 & Hid & _ & H)|[(s2 & rs2 & Hid & _ & _ & H)|(s2 & rs2 & Hid & _ & H)]]];
             destruct rs2; cbn [feed] in H; try discriminate; inversion H; subst s' pn; cbn; exact Hid.
        -- destruct (set_leader_info s h t) as [s1|] eqn:Hsli.
           ++ destruct (set_leader_info_fields _ _ _ _ Hsli) as (Hid1 & Hr1 & _ & _).
              destruct (leader_dead thr s1).
              ** intros H HL. rewrite Hrole in Hr1.
                 destruct (feed_campaign_leader _ _ _ _ _ Hr1 H HL) as [(t' & Hin) Hid].
                 rewrite Hid1 in *. split; [|exact Hid]. exists t'. right. exact Hin.
              ** destruct rs; cbn [feed]; [|discriminate]. intros H HL. inversion H; subst s' pn. congruence.
           ++ destruct rs; cbn [feed]; [|discriminate]. intros H HL. inversion H; subst s' pn. congruence.
    + destruct rs; cbn [feed]; [|discriminate]. intros H HL. inversion H; subst s' pn. discriminate.
  - unfold leader_main.
    destruct rs as [|[a|ok|c|] rs]; cbn [feed]; try discriminate.
    destruct a as [[h t]|].
    + destruct (N.eqb_spec h (s_id s)) as [E1|E1]; cbn [negb].
      * intros H HL. split; [exists t; left; subst h; reflexivity|].
        apply feed_renew in H.
        destruct H as [(s2 & rs2 & Hid & _ & _ & H)|[(s2 & rs2 & Hid & _ & H)|[(s2 & rs2 & Hid & _ & _ & H)|(s2 & rs2 & Hid & _ & H)]]];
          destruct rs2; cbn [feed] in H; try discriminate; inversion H; subst s' pn; exact Hid.
      * destruct rs; cbn [feed]; [|discriminate]. intros H HL. inversion H; subst s' pn. discriminate.
    + destruct rs; cbn [feed]; [|discriminate]. intros H HL. inversion H; subst s' pn. discriminate.
Qed.

(** C14 step-down: a leader whose turn cannot read the record, or reads another
    instance id, ends the turn as follower, immediately (no further operation,
    in particular no write). *)
Theorem step_down thr s tick a rs s' pn :
  s_role s = Leader ->
  feed (turn_prog thr s tick) (RRead a :: rs) = Some (s', pn) ->
  (a = None \/ exists h t, a = Some (h, t) /\ h <> s_id s) ->
  s_role s' = Follower /\ rs = [] /\ pn = false /\ s_id s' = s_id s.
Proof.
  intros Hrole. unfold turn_prog. rewrite Hrole. unfold leader_main. cbn [feed].
  intros H [Ha|(h & t & Ha & Hne)]; subst a.
  - destruct rs; cbn [feed] in H; [|discriminate]. inversion H; subst s' pn. cbn. auto.
  - destruct (N.eqb_spec h (s_id s)) as [E|E]; [contradiction|]. cbn [negb] in H.
    destruct rs; cbn [feed] in H; [|discriminate]. inversion H; subst s' pn. cbn. auto.
Qed.

(** a follower that finds its own id or reads nothing never writes for another id:
    every proposal of a turn carries the server's own instance id and the turn's tick *)
Lemma cas_requests_get_session s k rs x :
  In x (cas_requests (get_session s k) rs) ->
  exists os rs', In x (cas_requests (k os) rs') /\
     match os with Some s1 => s_id s1 = s_id s /\ s_cur s1 = s_cur s /\ s_role s1 = s_role s | None => True end.
Proof.
  unfold get_session. destruct (s_sess s).
  - intros H. exists (Some s), rs. auto.
  - destruct rs as [|[a|ok|c|] rs']; cbn [cas_requests]; try contradiction.
    destruct ok; intros H.
    + exists (Some (with_sess s true)), rs'. auto.
    + exists None, rs'. auto.
Qed.

Lemma cas_requests_reset_session s k rs x :
  In x (cas_requests (reset_session s k) rs) -> exists s2 rs', In x (cas_requests (k s2) rs').
Proof.
  unfold reset_session. destruct (s_sess s).
  - destruct rs as [|[a|ok|c|] rs']; cbn [cas_requests]; try contradiction. eauto.
  - eauto.
Qed.

Lemma cas_requests_done s pn rs : cas_requests (PDone s pn) rs = [].
Proof. destruct rs as [|[a|ok|c|] rs']; reflexivity. Qed.

Lemma cas_requests_renew s tick kerr kok rs x :
  (forall s' rs', cas_requests (kerr s') rs' = []) ->
  (forall s' rs', cas_requests (kok s') rs' = []) ->
  In x (cas_requests (renew_leadership s tick kerr kok) rs) -> x = (s_id s, 0, tick).
Proof.
  intros Herr Hok H. unfold renew_leadership in H.
  apply cas_requests_get_session in H. destruct H as (os & rs' & H & Hos).
  destruct os as [s1|].
  - destruct Hos as (Hid & _ & _).
    destruct rs' as [|[a|ok|c|] rs']; cbn [cas_requests] in H; try contradiction.
    destruct H as [H|H]; [rewrite <- H, Hid; reflexivity|].
    destruct c as [c|].
    + destruct (code_eqb c Updated); rewrite Hok in H; contradiction.
    + apply cas_requests_reset_session in H. destruct H as (s2 & rs2 & H). rewrite Herr in H. contradiction.
  - rewrite Herr in H. contradiction.
Qed.

Lemma cas_requests_campaign s tick rs x :
  In x (cas_requests (campaign s tick) rs) ->
  x = (s_id s, match s_cur s with Some c => l_id c | None => 0 end, tick).
Proof.
  unfold campaign. destruct (s_role s); [|rewrite cas_requests_done; contradiction].
  intros H. apply cas_requests_get_session in H. destruct H as (os & rs' & H & Hos).
  destruct os as [s1|]; [|rewrite cas_requests_done in H; contradiction].
  destruct Hos as (Hid & _ & _).
  destruct rs' as [|[a|ok|c|] rs']; cbn [cas_requests] in H; try contradiction.
  destruct H as [H|H]; [rewrite <- H, Hid; reflexivity|].
  destruct c as [[|]|].
  - destruct rs' as [|[a|ok|c|] rs']; cbn [cas_requests] in H; try contradiction.
    destruct a as [[h t]|]; [destruct (h =? s_id s1)|]; rewrite cas_requests_done in H; contradiction.
  - apply cas_requests_reset_session in H. destruct H as (s2 & rs2 & H). rewrite cas_requests_done in H. contradiction.
  - apply cas_requests_reset_session in H. destruct H as (s2 & rs2 & H). rewrite cas_requests_done in H. contradiction.
Qed.

(** the proposals of a turn: always for the server's own id and the turn's tick;
    a renewal names no old holder; a campaign names the holder just read (or,
    when the lookup answered "no record", the last holder the server knew) *)
Theorem cas_names_read_holder thr s tick a rs self old tk :
  In (self, old, tk) (cas_requests (turn_prog thr s tick) (RRead a :: rs)) ->
  self = s_id s /\ tk = tick /\
  exists h t, a = Some (h, t) /\
    ((h = s_id s /\ old = 0) \/
     (h <> s_id s /\ h <> 0 /\ s_role s = Follower /\ old = h) \/
     (h = 0 /\ s_role s = Follower /\ old = match s_cur s with Some c => l_id c | None => 0 end)).
Proof.
  unfold turn_prog. destruct (s_role s) eqn:Hrole.
  - unfold follower_main. cbn [cas_requests].
    destruct a as [[h t]|]; [|rewrite cas_requests_done; contradiction].
    destruct (N.eqb_spec h 0) as [E0|E0].
    + intros H. apply cas_requests_campaign in H. inversion H; subst self old tk.
      repeat split. exists h, t. split; [reflexivity|]. right; right. auto.
    + destruct (N.eqb_spec h (s_id s)) as [E1|E1].
      * intros H. apply cas_requests_renew in H; try (intros; apply cas_requests_done).
        inversion H; subst self old tk. repeat split. exists h, t. split; [reflexivity|]. left. auto.
      * destruct (set_leader_info s h t) as [s1|] eqn:Hsli; [|rewrite cas_requests_done; contradiction].
        destruct (set_leader_info_fields _ _ _ _ Hsli) as (Hid1 & Hr1 & _ & (c & Hc & Hcid)).
        destruct (leader_dead thr s1); [|rewrite cas_requests_done; contradiction].
        intros H. apply cas_requests_campaign in H. rewrite Hc, Hid1, Hcid in H.
        inversion H; subst self old tk. repeat split. exists h, t. split; [reflexivity|]. right; left. auto.
  - unfold leader_main. cbn [cas_requests].
    destruct a as [[h t]|]; [|rewrite cas_requests_done; contradiction].
    destruct (N.eqb_spec h (s_id s)) as [E1|E1]; cbn [negb]; [|rewrite cas_requests_done; contradiction].
    intros H. apply cas_requests_renew in H; try (intros; apply cas_requests_done).
    inversion H; subst self old tk. repeat split. exists h, t. split; [reflexivity|]. left. auto.
Qed.
