(** Invariants of the DB that the scheduler theorems take as hypotheses on its context:
    [ctx_wf] (map keys agree with the id fields) and [hosts_synced] (the record of a NodeHost
    that runs a member of the view lists that shard - the effect of syncShardInfo running AFTER
    multiNodeHost.update in applyNodeHostInfoUpdate).  Both hold in every reachable DB state. *)
From stdpp Require Import gmap list numbers.
From Drummer.Model Require Import DB Sched.
From Drummer.Proofs Require Import DBProofs SchedProofs.
Local Open Scope N_scope.

Definition view_wf (view : gmap N shard) : Prop := map_Forall shard_wf view.
Definition hosts_keyed (hosts : gmap N hostspec) : Prop := map_Forall (λ a h, h_addr h = a) hosts.

Lemma shard_wf_insert_rep k c j n :
  shard_wf k c -> r_id n = j -> r_shard n = k -> shard_wf k (mkShard (s_id c) (s_cci c) (<[j := n]> (s_reps c))).
Proof.
  intros [Hid Hall] Hj Hk. split; [exact Hid|]. cbn. apply map_Forall_insert_2; [done|exact Hall].
Qed.

Lemma get_shard_wf ci tick : shard_wf (si_shard ci) (get_shard ci tick).
Proof.
  unfold get_shard. set (reps := map_imap _ _).
  assert (map_Forall (λ j n, r_id n = j ∧ r_shard n = si_shard ci) reps) as Hreps.
  { intros j n Hl. unfold reps in Hl. rewrite map_lookup_imap in Hl.
    destruct (si_members ci !! j) as [a|]; cbn in Hl; [|done]. injection Hl as <-. done. }
  destruct (reps !! si_replica ci) as [n|] eqn:E; (split; [reflexivity|]); cbn; [|exact Hreps].
  apply map_Forall_insert_2; [|exact Hreps]. destruct (Hreps _ _ E) as [? ?]. done.
Qed.

Lemma sync_shard_wf k c ci tick c' rej :
  si_shard ci = k -> shard_wf k c -> sync_shard c ci tick = Some (c', rej) -> shard_wf k c'.
Proof.
  intros Hk [Hid Hall]. unfold sync_shard.
  destruct (si_cci ci <? s_cci c); [intros [= <- _]; done|].
  destruct (_ && _); [done|]. destruct (negb (bool_decide (map_Forall _ _))); [done|].
  destruct (bool_decide (NoDup _)); [|done]. intros [= <- _]. split; [exact Hid|]. cbn.
  intros j n Hl. apply lookup_union_Some_raw in Hl as [Hl|[_ Hl]].
  - apply map_filter_lookup_Some in Hl as [Hl _]. exact (Hall _ _ Hl).
  - rewrite map_lookup_imap in Hl. destruct (si_members ci !! j) as [a|]; cbn in Hl; [|done].
    destruct (s_reps c !! j); [done|]. injection Hl as <-. done.
Qed.

Lemma update_entry_wf tick view tk ci view' tk' :
  view_wf view -> update_entry tick (view, tk) ci = Some (view', tk') -> view_wf view'.
Proof.
  intros Hwf. unfold update_entry.
  assert (forall x : option (gmap N shard * list shard_info),
            x = Some (view, tk ++ [ci]) \/ x = Some (view, tk) -> x = Some (view', tk') -> view_wf view') as Hsame.
  { intros x [->| ->] [= <- _]; exact Hwf. }
  assert (match view !! si_shard ci with
          | Some ec => if negb (bool_decide (size (s_reps ec) = 0%nat)) && (0 <? s_cci ec) && kill_required ec ci
                       then Some (view, tk ++ [ci]) else Some (view, tk)
          | None => Some (view, tk)
          end = Some (view', tk') -> view_wf view') as Hpartial.
  { apply Hsame. destruct (view !! si_shard ci) as [ec|]; [destruct (_ && _ && _)|]; auto. }
  destruct (si_pending ci); [exact Hpartial|]. destruct (negb (si_incomplete ci)); [|exact Hpartial].
  destruct (view !! si_shard ci) as [ec|] eqn:Ev.
  - destruct (sync_shard ec ci tick) as [[ec' rej]|] eqn:Es; [|done].
    assert (view_wf (<[si_shard ci := ec']> view)) as Hw.
    { apply map_Forall_insert_2; [|exact Hwf]. eapply sync_shard_wf; [reflexivity|exact (Hwf _ _ Ev)|exact Es]. }
    destruct (rej && kill_required ec' ci); intros [= <- _]; exact Hw.
  - intros [= <- _]. apply map_Forall_insert_2; [apply get_shard_wf|exact Hwf].
Qed.

Lemma update_entries_wf tick cis : forall view tk view' tk',
  view_wf view -> update_entries tick (view, tk) cis = Some (view', tk') -> view_wf view'.
Proof.
  induction cis as [|ci cis IH]; intros view tk view' tk' Hwf H; cbn [update_entries] in H.
  - by injection H as <- _.
  - destruct (update_entry tick (view, tk) ci) as [[v1 tk1]|] eqn:E; [|done].
    eapply IH; [|exact H]. eapply update_entry_wf; eauto.
Qed.

Lemma touch_replica_wf tick view ci : view_wf view -> view_wf (touch_replica tick view ci).
Proof.
  intros Hwf. unfold touch_replica. destruct (view !! si_shard ci) as [ec|] eqn:Ev; [|done].
  destruct (s_reps ec !! si_replica ci) as [n|] eqn:En; [|done].
  apply map_Forall_insert_2; [|exact Hwf]. pose proof (Hwf _ _ Ev) as Hs. destruct (proj2 Hs _ _ En) as [? ?].
  apply shard_wf_insert_rep; done.
Qed.

Lemma leader_entry_wf view ci : view_wf view -> view_wf (leader_entry view ci).
Proof.
  intros Hwf. unfold leader_entry. destruct (view !! si_shard ci) as [c|] eqn:Ev; [|done].
  destruct (si_cci ci <? s_cci c); [done|]. destruct (s_reps c !! si_replica ci) as [n|] eqn:En; [|done].
  pose proof (Hwf _ _ Ev) as Hs. destruct (proj2 Hs _ _ En) as [? ?].
  destruct (negb (si_leader ci) && r_leader n).
  { apply map_Forall_insert_2; [|exact Hwf]. apply shard_wf_insert_rep; done. }
  destruct (si_leader ci && negb (r_leader n)); [|done].
  apply map_Forall_insert_2; [|exact Hwf]. split; [exact (proj1 Hs)|]. cbn.
  apply map_Forall_insert_2; [done|]. intros j m Hl. rewrite lookup_fmap in Hl.
  destruct (s_reps c !! j) as [m0|] eqn:Em; cbn in Hl; [|done]. injection Hl as <-. exact (proj2 Hs _ _ Em).
Qed.

Lemma foldl_wf {B} (f : gmap N shard -> B -> gmap N shard) (l : list B) view :
  (forall v b, view_wf v -> view_wf (f v b)) -> view_wf view -> view_wf (foldl f view l).
Proof. intros Hf. revert view. induction l as [|b l IH]; intros view Hwf; cbn; [done|]. apply IH, Hf, Hwf. Qed.

Lemma view_update_wf view kill r tick view' kill' :
  view_wf view -> view_update view kill r tick = Some (view', kill') -> view_wf view'.
Proof.
  intros Hwf. unfold view_update. destruct (update_entries tick (view, []) (rp_infos r)) as [[v1 tk]|] eqn:E; [|done].
  intros [= <- _]. apply update_entries_wf in E; [|exact Hwf].
  unfold sync_leader_info, update_node_tick.
  apply foldl_wf; [intros; by apply leader_entry_wf|]. apply foldl_wf; [intros; by apply touch_replica_wf|exact E].
Qed.

(** hosts *)
Lemma host_update_keyed hosts r tick : hosts_keyed hosts -> hosts_keyed (host_update hosts r tick).
Proof.
  intros Hk. unfold host_update. destruct (hosts !! rp_addr r) as [h|] eqn:E.
  - apply map_Forall_insert_2; [exact (Hk _ _ E)|exact Hk].
  - apply map_Forall_insert_2; [reflexivity|exact Hk].
Qed.

Lemma sync_shard_info_keyed hosts view : hosts_keyed hosts -> hosts_keyed (sync_shard_info hosts view).
Proof.
  intros Hk a h Hl. unfold sync_shard_info in Hl. rewrite lookup_fmap in Hl.
  destruct (hosts !! a) as [h0|] eqn:E; cbn in Hl; [|done]. injection Hl as <-. exact (Hk _ _ E).
Qed.

Definition synced (view : gmap N shard) (hosts : gmap N hostspec) : Prop :=
  forall s c n h, view !! s = Some c -> n ∈ mvals (s_reps c) -> hosts !! r_addr n = Some h -> s ∈ h_shards h.

Lemma sync_shard_info_synced hosts view : hosts_keyed hosts -> synced view (sync_shard_info hosts view).
Proof.
  intros Hk s c n h Hv Hn Hl. unfold sync_shard_info in Hl. rewrite lookup_fmap in Hl.
  destruct (hosts !! r_addr n) as [h0|] eqn:E; cbn in Hl; [|done]. injection Hl as <-. cbn.
  apply elem_of_union_r. rewrite (Hk _ _ E). unfold shards_on. apply elem_of_dom. exists c.
  apply map_filter_lookup_Some. split; [exact Hv|]. cbn. unfold addrs_of. apply elem_of_list_fmap. by exists n.
Qed.

(** the combined invariant of a DB state *)
Definition db_ctx_inv (d : db) : Prop := view_wf (d_view d) /\ hosts_keyed (d_hosts d) /\ synced (d_view d) (d_hosts d).

Lemma report_result_fields d r view' kill' :
  d_view (report_result d r view' kill') = view' /\
  d_hosts (report_result d r view' kill') = sync_shard_info (host_update (d_hosts d) r (d_tick d)) view'.
Proof.
  unfold report_result, on_updated_shard_info, pickup. cbn.
  repeat match goal with |- context [if ?b then _ else _] => destruct b end;
  repeat match goal with |- context [match ?x with Some _ => _ | None => _ end] => destruct x end; split; reflexivity.
Qed.

Lemma step_ctx_inv P d c d' : next P d c = Some d' -> db_ctx_inv d -> db_ctx_inv d'.
Proof.
  intros Hn (Hv & Hk & Hs). destruct (next_cases P d c d' Hn) as [[_ ->]|[_ H]]; [done|].
  destruct c as [|kv|t sd|r|qs|].
  - subst. unfold tick_result, db_ctx_inv. destruct (_ && _); cbn; done.
  - destruct H as (v & H). apply kv_update_frame in H. destruct H as (_ & _ & _ & _ & Ev & _ & Eh & _).
    unfold db_ctx_inv. rewrite Ev, Eh. done.
  - destruct H as (v & H). apply try_create_shard_spec in H as (_ & _ & _ & [(_ & _ & ->)|[(_ & _ & _ & ->)|(_ & _ & _ & ->)]]); done.
  - destruct H as (view' & kill' & Hvu & ->). destruct (report_result_fields d (stamp d r) view' kill') as [Ev Eh].
    unfold db_ctx_inv. rewrite Ev, Eh.
    assert (hosts_keyed (host_update (d_hosts d) (stamp d r) (d_tick d))) as Hk' by (by apply host_update_keyed).
    split; [eapply view_update_wf; eauto|]. split; [by apply sync_shard_info_keyed|by apply sync_shard_info_synced].
  - destruct H as (v & H).
    destruct (requests_cases P d qs) as [[_ E]|[_ [(_ & _ & E)|[(_ & _ & E)|(_ & E)]]]]; rewrite E in H; try done; by injection H as <- _.
  - done.
Qed.

Lemma init_ctx_inv : db_ctx_inv db_init.
Proof.
  split; [apply map_Forall_empty|]. split; [apply map_Forall_empty|].
  intros s c n h Hv. cbn in Hv. by rewrite lookup_empty in Hv.
Qed.

Lemma run_ctx_inv P cs d : run P cs = Live d -> db_ctx_inv d.
Proof.
  unfold run. intros Hrun.
  pose proof (run_live_ind P (λ a b, db_ctx_inv a -> db_ctx_inv b)) as Hind.
  eapply Hind; [| | |exact Hrun|exact init_ctx_inv].
  - auto.
  - auto.
  - intros a c b Hs. exact (step_ctx_inv P a c b Hs).
Qed.

(** in the vocabulary of the scheduler theorems *)
Lemma run_ctx_wf P cs d : run P cs = Live d -> ctx_wf (ctx_of_db d).
Proof. intros H. apply run_ctx_inv in H as (Hv & Hk & _). split; done. Qed.

Lemma run_hosts_synced P cs d : run P cs = Live d -> hosts_synced (ctx_of_db d).
Proof. intros H. apply run_ctx_inv in H as (_ & _ & Hs). exact Hs. Qed.

(* closed over the DB: in every reachable DB state, whatever batch the scheduler may compute from it, the target of an
   ADD is not the NodeHost of any member of the shard's view *)
Lemma reachable_add_no_colocation P cs d b q c n :
  run P cs = Live d -> allowed P (ctx_of_db d) (OBatch b) = true -> q ∈ b -> is_add q = true ->
  d_view d !! q_shard q = Some c -> n ∈ mvals (s_reps c) -> q_addrs q ≠ [r_addr n].
Proof.
  intros Hrun. apply (sched_add_no_colocation P (ctx_of_db d) b q c n); [by eapply run_ctx_wf|by eapply run_hosts_synced].
Qed.
