(** DBPlogProofs: the persisted-log set of a NodeHost record as a function of the report HISTORY (C12):
    in every reachable DB state it is the list of the last effective report of that address that
    INCLUDED its persisted-log list (PlogInfoIncluded) - a shorter or an empty included list replaces the
    older one, a report that does not include the list leaves it alone, nothing else touches it.
    Model: theories/DB.v ([host_update] = multiNodeHost.update / syncNodeHostSpec / toNodeHostSpec).
    Vocabulary ([stamped], [from_cmd], [run_host_spec]) from DBTimeProofs.v. *)
From stdpp Require Import gmap list numbers.
From Drummer.Model Require Import DB DBClassesRun.
From Drummer.Proofs Require Import DBProofs DBTimeProofs.
Local Open Scope N_scope.

(* report of address a that includes its persisted-log list *)
Definition incl_from (a : N) (c : cmd) : bool :=
  match c with CReport r0 => bool_decide (rp_addr r0 = a) && rp_plog_incl r0 | _ => false end.
Definition plog_of_cmd (c : cmd) : list (N * N) :=
  match c with CReport r0 => rp_plog r0 | _ => [] end.
(* the list carried by the last effective report of a that included one; [] if there is none *)
Definition last_plog (P : params) (st : rstate) (cs : list cmd) (a : N) : list (N * N) :=
  from_option (λ tc : N * cmd, plog_of_cmd tc.2) []
    (list.last (filter (λ tc : N * cmd, incl_from a tc.2 = true) (stamped P st cs))).

Lemma incl_from_from a c : incl_from a c = true -> from_cmd a c = true.
Proof. destruct c; try done. cbn [incl_from from_cmd]. by intros [? _]%andb_true_iff. Qed.

Lemma last_plog_snoc P st cs c d0 a :
  run_from P st cs = Live d0 ->
  last_plog P st (cs ++ [c]) a = if negb (d_failed d0) && incl_from a c then plog_of_cmd c else last_plog P st cs a.
Proof.
  intros Hrun. unfold last_plog. rewrite stamped_snoc, Hrun, list.filter_app.
  destruct (d_failed d0); cbn [negb andb]; [by rewrite filter_nil, app_nil_r|].
  rewrite filter_cons, filter_nil. cbn [snd]. destruct (incl_from a c).
  - rewrite decide_True by done. rewrite last_snoc. done.
  - rewrite decide_False by done. by rewrite app_nil_r.
Qed.

Lemma last_plog_none P st cs a :
  (forall tc, tc ∈ stamped P st cs -> from_cmd a tc.2 = false) -> last_plog P st cs a = [].
Proof.
  intros Hall. unfold last_plog.
  assert (filter (λ tc : N * cmd, incl_from a tc.2 = true) (stamped P st cs) = []) as ->; [|done].
  induction (stamped P st cs) as [|tc l IH]; [done|].
  rewrite filter_cons. destruct (decide (incl_from a tc.2 = true)) as [Hi|_].
  - apply incl_from_from in Hi. rewrite Hall in Hi; [done|apply elem_of_list_here].
  - apply IH. intros tc' Htc'. apply Hall. by apply elem_of_list_further.
Qed.

(** hosts: the reporting address gets the included list (or keeps what it had), nobody else changes *)
Lemma host_update_plog hosts r t a h' :
  host_update hosts r t !! a = Some h' ->
  if decide (rp_addr r = a)
  then h_plog h' = (if rp_plog_incl r then rp_plog r else from_option h_plog [] (hosts !! a))
  else hosts !! a = Some h'.
Proof.
  unfold host_update. destruct (decide (rp_addr r = a)) as [<-|Hne].
  - destruct (hosts !! rp_addr r); rewrite lookup_insert; intros [= <-]; done.
  - destruct (hosts !! rp_addr r); rewrite lookup_insert_ne by done; done.
Qed.

Lemma sync_shard_info_plog hosts view a :
  h_plog <$> sync_shard_info hosts view !! a = h_plog <$> hosts !! a.
Proof. unfold sync_shard_info. rewrite lookup_fmap. destruct (hosts !! a); done. Qed.

Lemma report_hosts_plog d r view' kill' a :
  h_plog <$> d_hosts (report_result d r view' kill') !! a =
  if decide (rp_addr r = a)
  then Some (if rp_plog_incl r then rp_plog r else from_option h_plog [] (d_hosts d !! a))
  else h_plog <$> d_hosts d !! a.
Proof.
  destruct (report_result_fields d r view' kill') as (_ & _ & _ & -> & _).
  rewrite sync_shard_info_plog.
  destruct (host_update (d_hosts d) r (d_tick d) !! a) as [h'|] eqn:E.
  - apply host_update_plog in E. cbn [fmap option_fmap option_map]. destruct (decide (rp_addr r = a)); [by rewrite E|by rewrite E].
  - destruct (decide (rp_addr r = a)) as [Heq|Hne].
    + exfalso. assert (is_Some (host_update (d_hosts d) r (d_tick d) !! a)) as [? ?] by (apply host_update_is_Some; by left). congruence.
    + destruct (d_hosts d !! a) eqn:E2; [|done]. exfalso.
      assert (is_Some (host_update (d_hosts d) r (d_tick d) !! a)) as [? ?] by (apply host_update_is_Some; right; by eexists). congruence.
Qed.

(* one step seen from one address *)
Lemma step_host_plog P d c d' a :
  next P d c = Some d' ->
  h_plog <$> d_hosts d' !! a =
  if negb (d_failed d) && from_cmd a c
  then Some (if incl_from a c then plog_of_cmd c else from_option h_plog [] (d_hosts d !! a))
  else h_plog <$> d_hosts d !! a.
Proof.
  intros Hn. destruct (is_report c) eqn:Hrep.
  2:{ destruct (step_nonreport P d c d' Hn Hrep) as (_ & -> & _).
      destruct c; try done; cbn [from_cmd]; by rewrite andb_false_r. }
  destruct c as [| | |r0| |]; try done. clear Hrep.
  apply next_cases in Hn as [[Hf ->]|[Hf (view' & kill' & Hvu & ->)]]; [by rewrite Hf|].
  rewrite report_hosts_plog, Hf. cbn [negb andb from_cmd incl_from plog_of_cmd].
  change (rp_addr (stamp d r0)) with (rp_addr r0). change (rp_plog_incl (stamp d r0)) with (rp_plog_incl r0).
  change (rp_plog (stamp d r0)) with (rp_plog r0).
  destruct (decide (rp_addr r0 = a)) as [Heq|Hne].
  - rewrite bool_decide_eq_true_2 by done. cbn [andb]. done.
  - by rewrite bool_decide_eq_false_2.
Qed.

(** the closed form over runs *)
Lemma run_host_plog P cs : forall d a h,
  run P cs = Live d -> d_hosts d !! a = Some h -> h_plog h = last_plog P (Live db_init) cs a.
Proof.
  induction cs as [|c cs IH] using rev_ind; intros d a h Hrun Hh.
  { cbn in Hrun. injection Hrun as <-. unfold db_init in Hh. cbn [d_hosts] in Hh. by rewrite lookup_empty in Hh. }
  rewrite run_snoc in Hrun. destruct (run P cs) as [d0|] eqn:E0; [|done].
  rewrite rstep_live in Hrun. destruct (next P d0 c) as [d1|] eqn:En; [|done]. injection Hrun as ->.
  pose proof (step_host_plog P d0 c d a En) as Hst. rewrite Hh in Hst. cbn [fmap option_fmap option_map] in Hst.
  rewrite (last_plog_snoc P _ _ c d0 a E0).
  destruct (negb (d_failed d0) && from_cmd a c) eqn:Eb.
  - apply andb_true_iff in Eb as [Eb1 Eb2]. rewrite Eb1. cbn [andb]. injection Hst as ->.
    destruct (incl_from a c); [done|].
    destruct (d_hosts d0 !! a) as [h0|] eqn:E1; cbn [from_option].
    + by apply (IH d0 a h0).
    + symmetry. apply last_plog_none. intros tc Htc.
      destruct (from_cmd a tc.2) eqn:Ef; [|done]. exfalso.
      destruct (run_host_spec P cs d0 a E0) as [Hsome _].
      assert (is_Some (d_hosts d0 !! a)) as [? ?] by (apply Hsome; by exists tc). congruence.
  - assert (negb (d_failed d0) && incl_from a c = false) as ->.
    { destruct (negb (d_failed d0)); [|done]. cbn [andb] in *. destruct (incl_from a c) eqn:Ei; [|done].
      apply incl_from_from in Ei. congruence. }
    destruct (d_hosts d0 !! a) as [h0|] eqn:E1; [|done]. injection Hst as Hst. rewrite Hst. by apply (IH d0 a h0).
Qed.

(** scheduler side: a restore request of ANY batch the scheduler may return for the context of a reachable DB state
    names a (shard, replica) of the most recent included list of the NodeHost it is sent to *)
From Drummer.Model Require Import Sched.
From Drummer.Proofs Require Import SchedProofs DBHostsProofs.

Lemma restore_log_in_latest_list P cs d b q :
  run P cs = Live d -> allowed P (ctx_of_db d) (OBatch b) = true -> q ∈ b -> is_restore q = true ->
  (q_shard q, q_inst q) ∈ last_plog P (Live db_init) cs (q_raft q).
Proof.
  intros Hrun Hal Hq Hr.
  destruct (sched_restore_target P (ctx_of_db d) b q (run_ctx_wf P cs d Hrun) Hal Hq Hr) as (c & n & h & _ & _ & _ & Hraft & Hh & _ & Hin).
  cbn [ctx_of_db c_hosts] in Hh. rewrite Hraft. by rewrite <- (run_host_plog P cs d _ h Hrun Hh).
Qed.
