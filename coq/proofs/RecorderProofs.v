(** Proofs about the recorder small-step system (C07): every reachable state has a well-formed
    observation sequence (per process: invoke, rpc start, rpc return, completion; nothing after a
    failure; written values strictly increase) and a well-formed history. *)
From Coq Require Import ZArith Sorted.
From Drummer.Model Require Import Base Jepsen Recorder.
From Coq Require Import ZifyN ZifyNat ZifyBool.
Open Scope N_scope.

(** * running the monitors over a list that grows at its end *)

Lemma mon_run_snoc : forall l m o,
  mon_run m (l ++ [o]) = match mon_run m l with Some m' => mon_step m' o | None => None end.
Proof.
  induction l as [|a l IH]; intros m o; cbn [app mon_run].
  - destruct (mon_step m o); reflexivity.
  - destruct (mon_step m a) as [m1|]; [apply IH|reflexivity].
Qed.

Lemma emon_run_snoc : forall l m e,
  emon_run m (l ++ [e]) = match emon_run m l with Some m' => emon_step m' e | None => None end.
Proof.
  induction l as [|a l IH]; intros m e; cbn [app emon_run].
  - destruct (emon_step m e); reflexivity.
  - destruct (emon_step m a) as [m1|]; [apply IH|reflexivity].
Qed.

Lemma events_of_snoc : forall l o,
  events_of (l ++ [o]) = events_of l ++ match o with OEv e => [e] | _ => [] end.
Proof.
  induction l as [|a l IH]; intros o; cbn [app events_of].
  - destruct o; reflexivity.
  - destruct a; rewrite IH; reflexivity.
Qed.

Lemma event_eqb_refl : forall e, event_eqb e e = true.
Proof.
  intros [t r i v]. unfold event_eqb. cbn [e_type e_res e_id e_val].
  rewrite !N.eqb_refl. destruct t, r; reflexivity.
Qed.

(** * the invariant *)

Inductive stage := StPicked | StRecorded | StBusy.

(** what the scheduling goroutine is doing with process [p] right now *)
Definition sched_for (sc : spc) (p : N) : option (stage * op) :=
  match sc with
  | SIdle => None
  | SPicked q o => if q =? p then Some (StPicked, o) else None
  | SRecorded q o => if q =? p then Some (StRecorded, o) else None
  | SBusy q o => if q =? p then Some (StBusy, o) else None
  end.

Definition fin (x : proc) (ms : mstate) (es : estate) : Prop :=
  (stopped x = false /\ ms = MReady /\ es = EReady) \/ (stopped x = true /\ ms = MDead /\ es = EDead).

(** flags and program counter of one process vs. the state of its two monitors *)
Definition pinv (so : option (stage * op)) (val lastw : N) (x : proc) (ms : mstate) (es : estate) : Prop :=
  match so with
  | Some (StPicked, o) =>
    pc x = CNone /\ stopped x = false /\ idle x = true /\ ms = MReady /\ es = EReady /\
    match o with OpWrite v => lastw < v /\ v < val | OpRead => True end
  | Some (StRecorded, o) =>
    pc x = CNone /\ stopped x = false /\ idle x = true /\ ms = MInvoked o /\ es = EPending o
  | Some (StBusy, o) =>
    pc x = CNone /\ stopped x = false /\ idle x = false /\ ms = MInvoked o /\ es = EPending o
  | None =>
    match pc x with
    | CNone => idle x = true /\ fin x ms es
    | CSpawned o => idle x = false /\ stopped x = false /\ ms = MInvoked o /\ es = EPending o
    | CInRpc o => idle x = false /\ stopped x = false /\ ms = MStarted o /\ es = EPending o
    | CReturned o r => idle x = false /\ stopped x = false /\ ms = MReturned o r /\ es = EPending o
    | CStopSet o => idle x = false /\ stopped x = true /\ ms = MReturned o RErr /\ es = EPending o
    | CRecorded => idle x = false /\ fin x ms es
    end
  end.

Record Inv (s : state) (m : mon) (em : emon) : Prop := mkInv {
  inv_mon : mon_run mon_init (rev (robs s)) = Some m;
  inv_emon : emon_run emon_init (rev (revents s)) = Some em;
  inv_evs : events_of (rev (robs s)) = rev (revents s);
  inv_lastw : em_lastw em = m_lastw m;
  inv_value : m_lastw m < value s;
  inv_procs : forall p, pinv (sched_for (sched s) p) (value s) (m_lastw m) (procs s p) (m_of m p) (em_of em p)
}.

Lemma inv_init : forall n, Inv (init n) mon_init emon_init.
Proof.
  intros n. constructor; try reflexivity.
  intros p. cbn. split; [reflexivity|]. left. repeat split; reflexivity.
Qed.

Lemma eqb_other : forall p q : N, q <> p -> (p =? q) = false.
Proof. intros p q H. apply N.eqb_neq. intro E. apply H. symmetry. exact E. Qed.

Lemma upd_same : forall f p x, upd f p x p = x.
Proof. intros f p x. unfold upd. rewrite N.eqb_refl. reflexivity. Qed.
Lemma upd_other : forall f p x q, q <> p -> upd f p x q = f q.
Proof. intros f p x q H. unfold upd. apply N.eqb_neq in H. rewrite H. reflexivity. Qed.
Lemma mupd_same : forall f p x, mupd f p x p = x.
Proof. intros f p x. unfold mupd. rewrite N.eqb_refl. reflexivity. Qed.
Lemma mupd_other : forall f p x q, q <> p -> mupd f p x q = f q.
Proof. intros f p x q H. unfold mupd. apply N.eqb_neq in H. rewrite H. reflexivity. Qed.
Lemma eupd_same : forall f p x, eupd f p x p = x.
Proof. intros f p x. unfold eupd. rewrite N.eqb_refl. reflexivity. Qed.
Lemma eupd_other : forall f p x q, q <> p -> eupd f p x q = f q.
Proof. intros f p x q H. unfold eupd. apply N.eqb_neq in H. rewrite H. reflexivity. Qed.

(** the part of [pinv] for a process the scheduling goroutine is not working on does not mention
    the counters *)
Lemma pinv_none_irrel : forall v l v' l' x ms es, pinv None v l x ms es -> pinv None v' l' x ms es.
Proof. intros v l v' l' x ms es H. exact H. Qed.

(** if the scheduling goroutine works on [p], [p] has no client goroutine *)
Lemma pinv_some_pc : forall st o v l x ms es, pinv (Some (st, o)) v l x ms es -> pc x = CNone.
Proof. intros st o v l x ms es H. destruct st; cbn [pinv] in H; destruct H as [H _]; exact H. Qed.

Lemma sched_for_pc : forall s m em p, Inv s m em -> pc (procs s p) <> CNone -> sched_for (sched s) p = None.
Proof.
  intros s m em p HI Hpc. pose proof (inv_procs s m em HI p) as Hp.
  destruct (sched_for (sched s) p) as [[st o]|]; [|reflexivity].
  exfalso. apply Hpc. exact (pinv_some_pc _ _ _ _ _ _ _ Hp).
Qed.

Ltac inv_fields HI :=
  pose proof (inv_mon _ _ _ HI) as Hmon; pose proof (inv_emon _ _ _ HI) as Hemon;
  pose proof (inv_evs _ _ _ HI) as Hevs; pose proof (inv_lastw _ _ _ HI) as Hlw;
  pose proof (inv_value _ _ _ HI) as Hval.

Ltac st_simpl :=
  cbn [record observe set_procs set_sched set_value robs revents procs sched value nprocs
       idle stopped pc m_of m_lastw em_of em_lastw].

(** ** scheduling goroutine *)

Lemma step_pick : forall s m em p w s', Inv s m em -> step s (LPick p w) = Some s' -> Inv s' m em.
Proof.
  intros s m em p w s' HI Hs. inv_fields HI. cbn [step] in Hs.
  destruct (sched s) eqn:Hsc; try discriminate Hs.
  pose proof (inv_procs _ _ _ HI p) as Hp. rewrite Hsc in Hp. cbn [sched_for] in Hp.
  destruct ((p <? nprocs s) && idle (procs s p) && negb (stopped (procs s p))) eqn:Hc; [|discriminate Hs].
  assert (Hidle : idle (procs s p) = true) by lia.
  assert (Hstop : stopped (procs s p) = false) by lia.
  assert (Hpc : pc (procs s p) = CNone /\ m_of m p = MReady /\ em_of em p = EReady).
  { cbn [pinv] in Hp. destruct (pc (procs s p)); destruct Hp as [Hi Hr]; try congruence.
    destruct Hr as [[_ [H1 H2]]|[H0 _]]; [auto|congruence]. }
  destruct Hpc as [Hpc [Hm He]].
  assert (Hother : forall o q, q <> p ->
            pinv (sched_for (SPicked p o) q) (value s) (m_lastw m) (procs s q) (m_of m q) (em_of em q)).
  { intros o q Hq. cbn [sched_for]. rewrite (eqb_other p q Hq).
    pose proof (inv_procs _ _ _ HI q) as Hq'. rewrite Hsc in Hq'. exact Hq'. }
  destruct w; injection Hs as Hs; subst s'.
  - constructor; st_simpl; try assumption; [lia|].
    intros q. destruct (N.eq_dec q p) as [->|Hq].
    + cbn [sched_for]. rewrite N.eqb_refl. cbn [pinv]. repeat split; try assumption; lia.
    + specialize (Hother (OpWrite (value s)) q Hq). cbn [sched_for] in *. rewrite (eqb_other p q Hq) in *. exact Hother.
  - constructor; st_simpl; try assumption.
    intros q. destruct (N.eq_dec q p) as [->|Hq].
    + cbn [sched_for]. rewrite N.eqb_refl. cbn [pinv]. repeat split; assumption.
    + exact (Hother OpRead q Hq).
Qed.

Lemma step_recinvoke : forall s m em s', Inv s m em -> step s LRecInvoke = Some s' -> exists m' em', Inv s' m' em'.
Proof.
  intros s m em s' HI Hs. inv_fields HI. cbn [step] in Hs.
  destruct (sched s) as [|p o|p o|p o] eqn:Hsc; try discriminate Hs.
  injection Hs as Hs; subst s'.
  pose proof (inv_procs _ _ _ HI p) as Hp. rewrite Hsc in Hp. cbn [sched_for] in Hp. rewrite N.eqb_refl in Hp.
  cbn [pinv] in Hp. destruct Hp as [Hpc [Hst [Hid [Hm [He Ho]]]]].
  assert (Hother : forall m' em' v' q, q <> p -> m_of m' q = m_of m q -> em_of em' q = em_of em q ->
            pinv (sched_for (SRecorded p o) q) v' (m_lastw m') (procs s q) (m_of m' q) (em_of em' q)).
  { intros m' em' v' q Hq E1 E2. cbn [sched_for]. rewrite (eqb_other p q Hq), E1, E2.
    pose proof (inv_procs _ _ _ HI q) as Hq'. rewrite Hsc in Hq'. cbn [sched_for] in Hq'.
    rewrite (eqb_other p q Hq) in Hq'. exact Hq'. }
  destruct o as [|v].
  - exists (mkMon (mupd (m_of m) p (MInvoked OpRead)) (m_lastw m)),
           (mkEMon (eupd (em_of em) p (EPending OpRead)) (em_lastw em)).
    constructor; st_simpl.
    + cbn [rev]. rewrite mon_run_snoc, Hmon. cbn [mon_step invoke_event e_id e_res e_type]. rewrite Hm. reflexivity.
    + cbn [rev]. rewrite emon_run_snoc, Hemon. unfold emon_step. cbn [invoke_event e_id e_res e_type]. rewrite He. reflexivity.
    + cbn [rev]. rewrite events_of_snoc, Hevs. reflexivity.
    + exact Hlw.
    + exact Hval.
    + intros q. destruct (N.eq_dec q p) as [->|Hq].
      * cbn [sched_for]. rewrite N.eqb_refl, mupd_same, eupd_same. cbn [pinv]. repeat split; assumption.
      * apply (Hother (mkMon (mupd (m_of m) p (MInvoked OpRead)) (m_lastw m))
                      (mkEMon (eupd (em_of em) p (EPending OpRead)) (em_lastw em)) (value s) q Hq); st_simpl.
        -- apply mupd_other; exact Hq.
        -- apply eupd_other; exact Hq.
  - destruct Ho as [Ho1 Ho2].
    exists (mkMon (mupd (m_of m) p (MInvoked (OpWrite v))) v),
           (mkEMon (eupd (em_of em) p (EPending (OpWrite v))) v).
    constructor; st_simpl.
    + cbn [rev]. rewrite mon_run_snoc, Hmon. cbn [mon_step invoke_event e_id e_res e_type e_val]. rewrite Hm.
      replace (m_lastw m <? v) with true by lia. reflexivity.
    + cbn [rev]. rewrite emon_run_snoc, Hemon. unfold emon_step. cbn [invoke_event e_id e_res e_type e_val]. rewrite He.
      replace (em_lastw em <? v) with true by lia. reflexivity.
    + cbn [rev]. rewrite events_of_snoc, Hevs. reflexivity.
    + reflexivity.
    + exact Ho2.
    + intros q. destruct (N.eq_dec q p) as [->|Hq].
      * cbn [sched_for]. rewrite N.eqb_refl, mupd_same, eupd_same. cbn [pinv]. repeat split; assumption.
      * apply (Hother (mkMon (mupd (m_of m) p (MInvoked (OpWrite v))) v)
                      (mkEMon (eupd (em_of em) p (EPending (OpWrite v))) v) (value s) q Hq); st_simpl.
        -- apply mupd_other; exact Hq.
        -- apply eupd_other; exact Hq.
Qed.

Lemma step_setbusy : forall s m em s', Inv s m em -> step s LSetBusy = Some s' -> Inv s' m em.
Proof.
  intros s m em s' HI Hs. inv_fields HI. cbn [step] in Hs.
  destruct (sched s) as [|p o|p o|p o] eqn:Hsc; try discriminate Hs.
  injection Hs as Hs; subst s'.
  pose proof (inv_procs _ _ _ HI p) as Hp. rewrite Hsc in Hp. cbn [sched_for] in Hp. rewrite N.eqb_refl in Hp.
  cbn [pinv] in Hp. destruct Hp as [Hpc [Hst [Hid [Hm He]]]].
  constructor; st_simpl; try assumption.
  intros q. destruct (N.eq_dec q p) as [->|Hq].
  - cbn [sched_for]. rewrite N.eqb_refl, upd_same. cbn [pinv idle stopped pc]. repeat split; assumption.
  - cbn [sched_for]. rewrite (eqb_other p q Hq), (upd_other _ _ _ _ Hq).
    pose proof (inv_procs _ _ _ HI q) as Hq'. rewrite Hsc in Hq'. cbn [sched_for] in Hq'.
    rewrite (eqb_other p q Hq) in Hq'. exact Hq'.
Qed.

Lemma step_spawn : forall s m em s', Inv s m em -> step s LSpawn = Some s' -> Inv s' m em.
Proof.
  intros s m em s' HI Hs. inv_fields HI. cbn [step] in Hs.
  destruct (sched s) as [|p o|p o|p o] eqn:Hsc; try discriminate Hs.
  pose proof (inv_procs _ _ _ HI p) as Hp. rewrite Hsc in Hp. cbn [sched_for] in Hp. rewrite N.eqb_refl in Hp.
  cbn [pinv] in Hp. destruct Hp as [Hpc [Hst [Hid [Hm He]]]].
  rewrite Hpc in Hs. injection Hs as Hs; subst s'.
  constructor; st_simpl; try assumption.
  intros q. cbn [sched_for]. destruct (N.eq_dec q p) as [->|Hq].
  - rewrite upd_same. cbn [pinv idle stopped pc]. repeat split; assumption.
  - rewrite (upd_other _ _ _ _ Hq).
    pose proof (inv_procs _ _ _ HI q) as Hq'. rewrite Hsc in Hq'. cbn [sched_for] in Hq'.
    rewrite (eqb_other p q Hq) in Hq'. exact Hq'.
Qed.

(** ** client goroutines *)

(** a step of the client goroutine of [p] that leaves scheduler, history and counters alone and
    moves the monitors of [p] only *)
Lemma client_frame : forall s m em p x' ms' es' robs' revents' m' em',
  Inv s m em ->
  pc (procs s p) <> CNone ->
  (forall q, m_of m' q = mupd (m_of m) p ms' q) -> (forall q, em_of em' q = eupd (em_of em) p es' q) ->
  m_lastw m' = m_lastw m -> em_lastw em' = em_lastw em ->
  pinv None (value s) (m_lastw m) x' ms' es' ->
  mon_run mon_init (rev robs') = Some m' ->
  emon_run emon_init (rev revents') = Some em' ->
  events_of (rev robs') = rev revents' ->
  Inv (mkState (nprocs s) (upd (procs s) p x') (sched s) (value s) revents' robs') m' em'.
Proof.
  intros s m em p x' ms' es' robs' revents' m' em' HI Hpc Em Ee El Eel Hp' Hmon' Hemon' Hevs'.
  inv_fields HI.
  constructor; st_simpl; try assumption.
  - rewrite Eel, El. exact Hlw.
  - rewrite El. exact Hval.
  - intros q. rewrite Em, Ee, El. destruct (N.eq_dec q p) as [->|Hq].
    + rewrite (sched_for_pc s m em p HI Hpc), upd_same, mupd_same, eupd_same. exact Hp'.
    + rewrite (upd_other _ _ _ _ Hq), (mupd_other _ _ _ _ Hq), (eupd_other _ _ _ _ Hq).
      exact (inv_procs _ _ _ HI q).
Qed.

(** updating a point with the value it already has *)
Lemma eupd_id : forall f p x q, f p = x -> f q = eupd f p x q.
Proof. intros f p x q H. unfold eupd. destruct (N.eqb_spec q p) as [->|_]; [exact H|reflexivity]. Qed.

Lemma step_client : forall s m em l s', Inv s m em ->
  match l with LRpcStart _ | LRpcReturn _ _ | LSetStopped _ | LRecDone _ | LSetIdle _ => True | _ => False end ->
  step s l = Some s' -> exists m' em', Inv s' m' em'.
Proof.
  intros s m em l s' HI Hl Hs. inv_fields HI.
  destruct l as [p w| | | |p|p r|p|p|p]; try contradiction; cbn [step] in Hs;
    pose proof (inv_procs _ _ _ HI p) as Hp;
    destruct (pc (procs s p)) as [|o|o|o r'|o|] eqn:Hpc; try discriminate Hs;
    (assert (Hne : pc (procs s p) <> CNone) by (rewrite Hpc; discriminate));
    rewrite (sched_for_pc s m em p HI Hne) in Hp; cbn [pinv] in Hp; rewrite Hpc in Hp.
  - (* rpc start *)
    destruct Hp as [Hid [Hst [Hm He]]]. injection Hs as Hs; subst s'.
    exists (mkMon (mupd (m_of m) p (MStarted o)) (m_lastw m)), em.
    unfold observe, set_procs. st_simpl.
    apply (client_frame s m em p _ (MStarted o) (EPending o)); try assumption; try reflexivity.
    + intros q. apply eupd_id. exact He.
    + cbn [pinv pc idle stopped]. repeat split; assumption.
    + cbn [rev]. rewrite mon_run_snoc, Hmon. cbn [mon_step]. rewrite Hm. reflexivity.
    + cbn [rev]. rewrite events_of_snoc, app_nil_r. exact Hevs.
  - (* rpc return *)
    destruct Hp as [Hid [Hst [Hm He]]]. injection Hs as Hs; subst s'.
    exists (mkMon (mupd (m_of m) p (MReturned o r)) (m_lastw m)), em.
    unfold observe, set_procs. st_simpl.
    apply (client_frame s m em p _ (MReturned o r) (EPending o)); try assumption; try reflexivity.
    + intros q. apply eupd_id. exact He.
    + cbn [pinv pc idle stopped]. repeat split; assumption.
    + cbn [rev]. rewrite mon_run_snoc, Hmon. cbn [mon_step]. rewrite Hm. reflexivity.
    + cbn [rev]. rewrite events_of_snoc, app_nil_r. exact Hevs.
  - (* set stopped *)
    destruct Hp as [Hid [Hst [Hm He]]]. destruct r' as [v|]; [discriminate Hs|]. injection Hs as Hs; subst s'.
    exists m, em. unfold set_procs. st_simpl.
    assert (Hmm : forall q, m_of m q = mupd (m_of m) p (MReturned o RErr) q).
    { intros q. unfold mupd. destruct (N.eqb_spec q p) as [->|_]; [exact Hm|reflexivity]. }
    apply (client_frame s m em p _ (MReturned o RErr) (EPending o)); try assumption; try reflexivity.
    + intros q. apply eupd_id. exact He.
    + cbn [pinv pc idle stopped]. repeat split; assumption.
  - (* record done, after a successful rpc *)
    destruct Hp as [Hid [Hst [Hm He]]]. destruct r' as [v|]; [|discriminate Hs]. injection Hs as Hs; subst s'.
    exists (mkMon (mupd (m_of m) p MReady) (m_lastw m)), (mkEMon (eupd (em_of em) p EReady) (em_lastw em)).
    unfold record, set_procs. st_simpl.
    apply (client_frame s m em p _ MReady EReady); try assumption; try reflexivity.
    + cbn [pinv pc idle stopped]. split; [assumption|]. left. repeat split; assumption.
    + cbn [rev]. rewrite mon_run_snoc, Hmon. cbn [mon_step].
      assert (Eid : e_id (done_event p o (ROk v)) = p) by (destruct o; reflexivity).
      assert (Eres : e_res (done_event p o (ROk v)) = RCompleted) by (destruct o; reflexivity).
      rewrite Eid, Eres, Hm, event_eqb_refl. reflexivity.
    + cbn [rev]. rewrite emon_run_snoc, Hemon. unfold emon_step.
      assert (Eid : e_id (done_event p o (ROk v)) = p) by (destruct o; reflexivity).
      assert (Eres : e_res (done_event p o (ROk v)) = RCompleted) by (destruct o; reflexivity).
      rewrite Eid, Eres, He. destruct o as [|w]; cbn [done_event e_type e_val]; [reflexivity|].
      rewrite N.eqb_refl. reflexivity.
    + cbn [rev]. rewrite events_of_snoc, Hevs. reflexivity.
  - (* record done, after a failure *)
    destruct Hp as [Hid [Hst [Hm He]]]. injection Hs as Hs; subst s'.
    exists (mkMon (mupd (m_of m) p MDead) (m_lastw m)), (mkEMon (eupd (em_of em) p EDead) (em_lastw em)).
    unfold record, set_procs. st_simpl.
    apply (client_frame s m em p _ MDead EDead); try assumption; try reflexivity.
    + cbn [pinv pc idle stopped]. split; [assumption|]. right. repeat split; assumption.
    + cbn [rev]. rewrite mon_run_snoc, Hmon. cbn [mon_step].
      assert (Eid : e_id (done_event p o RErr) = p) by (destruct o; reflexivity).
      assert (Eres : e_res (done_event p o RErr) = RFailed) by (destruct o; reflexivity).
      rewrite Eid, Eres, Hm, event_eqb_refl. reflexivity.
    + cbn [rev]. rewrite emon_run_snoc, Hemon. unfold emon_step.
      assert (Eid : e_id (done_event p o RErr) = p) by (destruct o; reflexivity).
      assert (Eres : e_res (done_event p o RErr) = RFailed) by (destruct o; reflexivity).
      rewrite Eid, Eres, He, event_eqb_refl. reflexivity.
    + cbn [rev]. rewrite events_of_snoc, Hevs. reflexivity.
  - (* set idle *)
    destruct Hp as [Hid Hfin]. injection Hs as Hs; subst s'.
    exists m, em. unfold set_procs. st_simpl.
    assert (Hmm : forall q, m_of m q = mupd (m_of m) p (m_of m p) q).
    { intros q. unfold mupd. destruct (N.eqb_spec q p) as [->|_]; reflexivity. }
    apply (client_frame s m em p _ (m_of m p) (em_of em p)); try assumption; try reflexivity.
    + intros q. apply eupd_id. reflexivity.
    + cbn [pinv pc idle stopped]. split; [reflexivity|]. exact Hfin.
Qed.

Lemma step_inv : forall s m em l s', Inv s m em -> step s l = Some s' -> exists m' em', Inv s' m' em'.
Proof.
  intros s m em l s' HI Hs. destruct l.
  - exists m, em. exact (step_pick _ _ _ _ _ _ HI Hs).
  - exact (step_recinvoke _ _ _ _ HI Hs).
  - exists m, em. exact (step_setbusy _ _ _ _ HI Hs).
  - exists m, em. exact (step_spawn _ _ _ _ HI Hs).
  - refine (step_client s m em _ s' HI _ Hs); exact I.
  - refine (step_client s m em _ s' HI _ Hs); exact I.
  - refine (step_client s m em _ s' HI _ Hs); exact I.
  - refine (step_client s m em _ s' HI _ Hs); exact I.
  - refine (step_client s m em _ s' HI _ Hs); exact I.
Qed.

Lemma run_inv : forall ls s m em s', Inv s m em -> run s ls = Some s' -> exists m' em', Inv s' m' em'.
Proof.
  induction ls as [|l ls IH]; intros s m em s' HI Hr; cbn [run] in Hr.
  - injection Hr as Hr; subst s'. exists m, em. exact HI.
  - destruct (step s l) as [s1|] eqn:Hs; [|discriminate Hr].
    destruct (step_inv _ _ _ _ _ HI Hs) as [m1 [em1 HI1]]. exact (IH _ _ _ _ HI1 Hr).
Qed.

Theorem reachable_inv : forall n s, reachable n s -> exists m em, Inv s m em.
Proof. intros n s [ls Hr]. exact (run_inv ls _ _ _ _ (inv_init n) Hr). Qed.

(** every interleaving: the observation sequence and the history are well formed, and the history
    is the sequence of the recorded events *)
Theorem wellformed : forall n ls s, run (init n) ls = Some s ->
  obs_ok (observations s) = true /\ wf_events (events s) = true /\ events_of (observations s) = events s.
Proof.
  intros n ls s Hr. destruct (run_inv ls _ _ _ _ (inv_init n) Hr) as [m [em HI]].
  unfold obs_ok, wf_events, observations, events.
  rewrite (inv_mon _ _ _ HI), (inv_emon _ _ _ HI). repeat split. exact (inv_evs _ _ _ HI).
Qed.

(** * what a well-formed history means, declaratively *)

Lemma emon_run_app : forall a b m,
  emon_run m (a ++ b) = match emon_run m a with Some m' => emon_run m' b | None => None end.
Proof.
  induction a as [|e a IH]; intros b m; cbn [app emon_run]; [reflexivity|].
  destruct (emon_step m e) as [m1|]; [apply IH|reflexivity].
Qed.

Definition is_winvoke (e : event) : bool := etype_eqb (e_type e) TWrite && eresult_eqb (e_res e) RInvoked.
Definition pend_n (x : estate) : nat := match x with EPending _ => 1%nat | _ => 0%nat end.

(** one step of the history monitor, case by case *)
Lemma emon_step_cases : forall m e m', emon_step m e = Some m' ->
  let p := e_id e in
  (forall q, q <> p -> em_of m' q = em_of m q) /\
  (if is_winvoke e then em_lastw m < e_val e /\ em_lastw m' = e_val e else em_lastw m' = em_lastw m) /\
  match e_res e with
  | RInvoked => em_of m p = EReady /\ exists o, em_of m' p = EPending o
  | RCompleted => (exists o, em_of m p = EPending o) /\ em_of m' p = EReady
  | RFailed => (exists o, em_of m p = EPending o) /\ em_of m' p = EDead
  end.
Proof.
  intros m [t r i v] m' H. cbn [e_id]. unfold emon_step in H. unfold is_winvoke.
  cbn [e_type e_res e_id e_val] in *.
  destruct r; destruct (em_of m i) as [|o|] eqn:Hi; try discriminate H.
  - destruct t.
    + injection H as H; subst m'. cbn [em_of em_lastw etype_eqb eresult_eqb andb].
      split; [intros q Hq; apply eupd_other; exact Hq|]. split; [reflexivity|].
      split; [reflexivity|]. exists OpRead. apply eupd_same.
    + destruct (em_lastw m <? v) eqn:Hv; [|discriminate H]. injection H as H; subst m'.
      cbn [em_of em_lastw etype_eqb eresult_eqb andb].
      split; [intros q Hq; apply eupd_other; exact Hq|]. split; [split; [lia|reflexivity]|].
      split; [reflexivity|]. exists (OpWrite v). apply eupd_same.
  - destruct o as [|w]; destruct t; try discriminate H.
    + injection H as H; subst m'. cbn [em_of em_lastw etype_eqb eresult_eqb andb].
      split; [intros q Hq; apply eupd_other; exact Hq|]. split; [reflexivity|].
      split; [exists OpRead; reflexivity|apply eupd_same].
    + destruct (v =? w); [|discriminate H]. injection H as H; subst m'.
      cbn [em_of em_lastw etype_eqb eresult_eqb andb].
      split; [intros q Hq; apply eupd_other; exact Hq|]. split; [reflexivity|].
      split; [exists (OpWrite w); reflexivity|apply eupd_same].
  - destruct (event_eqb _ _); [|discriminate H]. injection H as H; subst m'.
    cbn [em_of em_lastw]. split; [intros q Hq; apply eupd_other; exact Hq|].
    split; [destruct t; reflexivity|]. split; [exists o; reflexivity|apply eupd_same].
Qed.

Lemma written_cons : forall e es, written (e :: es) = if is_winvoke e then e_val e :: written es else written es.
Proof. intros e es. unfold written, is_winvoke. cbn [filter]. destruct (_ && _); reflexivity. Qed.

(** written values strictly increase *)
Lemma emon_run_written : forall es m m', emon_run m es = Some m' ->
  StronglySorted N.lt (written es) /\ Forall (fun v => em_lastw m < v) (written es).
Proof.
  induction es as [|e es IH]; intros m m' H; cbn [emon_run] in H.
  - split; constructor.
  - destruct (emon_step m e) as [m1|] eqn:Hs; [|discriminate H].
    destruct (IH _ _ H) as [IH1 IH2]. destruct (emon_step_cases _ _ _ Hs) as [_ [Hl _]].
    rewrite written_cons. destruct (is_winvoke e).
    + destruct Hl as [Hl1 Hl2]. rewrite Hl2 in IH2. split.
      * constructor; [exact IH1|exact IH2].
      * constructor; [exact Hl1|]. eapply Forall_impl; [|exact IH2]. cbv beta. intros a Ha. lia.
    + rewrite Hl in IH2. split; assumption.
Qed.

Lemma wf_written_sorted : forall es, wf_events es = true -> StronglySorted N.lt (written es).
Proof.
  intros es H. unfold wf_events in H. destruct (emon_run emon_init es) as [m|] eqn:E; [|discriminate H].
  exact (proj1 (emon_run_written _ _ _ E)).
Qed.

Lemma sorted_nodup : forall l, StronglySorted N.lt l -> NoDup l.
Proof.
  intros l H. induction H as [|a l Hs IH Hf]; constructor; [|exact IH].
  intro Hin. rewrite Forall_forall in Hf. specialize (Hf a Hin). lia.
Qed.

Lemma wf_written_unique : forall es, wf_events es = true -> NoDup (written es).
Proof. intros es H. apply sorted_nodup, wf_written_sorted, H. Qed.

(** a dead process records nothing *)
Lemma emon_run_dead : forall es m m' p, emon_run m es = Some m' -> em_of m p = EDead ->
  Forall (fun e => e_id e <> p) es.
Proof.
  induction es as [|e es IH]; intros m m' p H Hd; cbn [emon_run] in H; [constructor|].
  destruct (emon_step m e) as [m1|] eqn:Hs; [|discriminate H].
  destruct (emon_step_cases _ _ _ Hs) as [Ho [_ Hc]].
  assert (Hne : e_id e <> p).
  { intro E. rewrite E in Hc. rewrite Hd in Hc.
    destruct (e_res e); [destruct Hc as [Hc _]; discriminate Hc
                        |destruct Hc as [[o Hc] _]; discriminate Hc
                        |destruct Hc as [[o Hc] _]; discriminate Hc]. }
  constructor; [exact Hne|]. apply (IH m1 m' p H). rewrite Ho; [exact Hd|]. intro E. apply Hne. symmetry. exact E.
Qed.

Lemma wf_nothing_after_failure : forall es es1 e es2, wf_events es = true ->
  es = es1 ++ e :: es2 -> e_res e = RFailed -> Forall (fun e' => e_id e' <> e_id e) es2.
Proof.
  intros es es1 e es2 H E Hf. subst es. unfold wf_events in H.
  rewrite emon_run_app in H. destruct (emon_run emon_init es1) as [m|]; [|discriminate H].
  cbn [emon_run] in H. destruct (emon_step m e) as [m1|] eqn:Hs; [|discriminate H].
  destruct (emon_run m1 es2) as [m2|] eqn:H2; [|discriminate H].
  destruct (emon_step_cases _ _ _ Hs) as [_ [_ Hc]]. rewrite Hf in Hc. destruct Hc as [_ Hd].
  exact (emon_run_dead _ _ _ _ H2 Hd).
Qed.

(** at most one outstanding operation: in every prefix, a process has as many invocations as
    completions/failures, or exactly one more *)
Definition n_invoked (p : N) (es : list event) : nat :=
  length (filter (fun e => (e_id e =? p) && eresult_eqb (e_res e) RInvoked) es).
Definition n_done (p : N) (es : list event) : nat :=
  length (filter (fun e => (e_id e =? p) && negb (eresult_eqb (e_res e) RInvoked)) es).

Lemma emon_run_outstanding : forall es m m' p, emon_run m es = Some m' ->
  (n_invoked p es + pend_n (em_of m p) = n_done p es + pend_n (em_of m' p))%nat.
Proof.
  induction es as [|e es IH]; intros m m' p H; cbn [emon_run] in H.
  - injection H as H; subst m'. reflexivity.
  - destruct (emon_step m e) as [m1|] eqn:Hs; [|discriminate H].
    specialize (IH _ _ p H). destruct (emon_step_cases _ _ _ Hs) as [Ho [_ Hc]].
    unfold n_invoked, n_done in *. cbn [filter].
    destruct (N.eqb_spec (e_id e) p) as [E|E].
    + rewrite E in Hc. cbn [andb].
      destruct (e_res e); cbn [eresult_eqb negb length].
      * destruct Hc as [Hc1 [o Hc2]]. rewrite Hc1. rewrite Hc2 in IH. cbn [pend_n] in *. lia.
      * destruct Hc as [[o Hc1] Hc2]. rewrite Hc1. rewrite Hc2 in IH. cbn [pend_n] in *. lia.
      * destruct Hc as [[o Hc1] Hc2]. rewrite Hc1. rewrite Hc2 in IH. cbn [pend_n] in *. lia.
    + cbn [andb]. rewrite (Ho p) in IH; [exact IH|]. intro E'. apply E. symmetry. exact E'.
Qed.

Lemma wf_one_outstanding : forall es es1 es2 p, wf_events es = true -> es = es1 ++ es2 ->
  (n_done p es1 <= n_invoked p es1 <= n_done p es1 + 1)%nat.
Proof.
  intros es es1 es2 p H E. subst es. unfold wf_events in H. rewrite emon_run_app in H.
  destruct (emon_run emon_init es1) as [m|] eqn:H1; [|discriminate H].
  pose proof (emon_run_outstanding _ _ _ p H1) as Ho. cbn [emon_init em_of pend_n] in Ho.
  destruct (em_of m p); cbn [pend_n] in Ho; lia.
Qed.
