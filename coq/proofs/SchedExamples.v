(** SchedExamples: closed contexts and batches used by the non-vacuity Examples and the
    refutation witness of props/C12.v, props/C02.v; every fact here is by computation. *)
From stdpp Require Import gmap list numbers.
From Drummer.Model Require Import DB Sched SchedRun.
From Drummer.Proofs Require Import SchedProofs.
Local Open Scope N_scope.

Definition P0 : params := mkParams 60 5 24.

(** witness of the known finding C12-restore-below-quorum: shard 1, 4 members: 1 healthy
    (member 1), 2 failed (2 on a live host with a persisted log for exactly (1,2); 3 on a
    stale host), 1 waiting to start (4).  quorum 3, one restore request, 1 + 1 < 3. *)
Definition Wctx : sctx := CTX 100 [mkSD 1 [1;2;3] 7]
  [SH 1 5 [REP 1 1 11 100 10; REP 1 2 12 10 10; REP 1 3 13 10 10; REP 1 4 14 0 90]]
  [HOST 11 1 100 [] [1]; HOST 12 1 100 [(1,2)] [1]; HOST 13 1 10 [] [1]; HOST 14 1 100 [] [1]; HOST 15 1 100 [] []]
  [mkKill 1 9 15].
Definition Wq : request := REQ 0 1 [1;2;3;4] 0 [1;2;3;4] [11;12;13;14] 2 12 false true 7.
Definition Wb : list request := [Wq; REQ 3 1 [9] 0 [] [] 0 15 false false 0].
Definition Wc : shard := SH 1 5 [REP 1 1 11 100 10; REP 1 2 12 10 10; REP 1 3 13 10 10; REP 1 4 14 0 90].

Lemma W_wf : ctx_wf Wctx.
Proof. apply (bool_decide_unpack _). vm_compute. exact I. Qed.
Lemma W_allowed : allowed P0 Wctx (OBatch Wb) = true.
Proof. vm_compute. reflexivity. Qed.
Lemma W_view : c_view Wctx !! q_shard Wq = Some Wc.
Proof. vm_compute. reflexivity. Qed.
Lemma W_unavailable : shard_available P0 Wc (c_tick Wctx) = false.
Proof. vm_compute. reflexivity. Qed.
Lemma W_below_quorum :
  ¬ (quorum_of (size (s_reps Wc)) ≤ length (ok_replicas P0 Wc (c_tick Wctx)) + restores_for (q_shard Wq) Wb)%nat.
Proof. vm_compute. lia. Qed.
Lemma W_waiting : waiting_replicas P0 Wc (c_tick Wctx) ≠ [].
Proof. vm_compute. discriminate. Qed.

(** an unavailable shard restored at quorum: 3 members, 1 healthy, 2 failed with logs on
    live hosts (member 3's host reported exactly ttl ago: still available) *)
Definition Rctx : sctx := CTX 100 [mkSD 1 [1;2;3] 7]
  [SH 1 5 [REP 1 1 11 100 10; REP 1 2 12 10 10; REP 1 3 13 0 0]]
  [HOST 11 1 100 [] [1]; HOST 12 1 100 [(1,2)] [1]; HOST 13 2 40 [(2,3);(1,3)] [1]; HOST 15 1 100 [] []]
  [].
Definition Rc : shard := SH 1 5 [REP 1 1 11 100 10; REP 1 2 12 10 10; REP 1 3 13 0 0].
Definition Rq2 : request := REQ 0 1 [3;1;2] 0 [3;1;2] [13;11;12] 2 12 false true 7.
Definition Rq3 : request := REQ 0 1 [1;2;3] 0 [1;2;3] [11;12;13] 3 13 false true 7.
Definition Rb : list request := [Rq3; Rq2].
Lemma R_wf : ctx_wf Rctx.
Proof. apply (bool_decide_unpack _). vm_compute. exact I. Qed.
Lemma R_allowed : allowed P0 Rctx (OBatch Rb) = true.
Proof. vm_compute. reflexivity. Qed.
Lemma R_view : c_view Rctx !! 1 = Some Rc.
Proof. vm_compute. reflexivity. Qed.
Lemma R_unavailable : shard_available P0 Rc (c_tick Rctx) = false.
Proof. vm_compute. reflexivity. Qed.
Lemma R_no_waiting : waiting_replicas P0 Rc (c_tick Rctx) = [].
Proof. vm_compute. reflexivity. Qed.

(** ADD: 3 members, 2 healthy, member 3 failed; its NodeHost a13 reported at the current
    tick (it is alive) but holds no persisted log for (1,3): the member is replaced.
    Target: a15 (same region, live, hosts nothing); a14 hosts shard 1 already; a16 is in
    another region; a17 reported exactly ttl ago (not live for placement). *)
Definition Actx : sctx := CTX 100 [mkSD 1 [1;2;3] 7]
  [SH 1 5 [REP 1 1 11 100 10; REP 1 2 12 40 10; REP 1 3 13 10 10]]
  [HOST 11 1 100 [] [1]; HOST 12 1 100 [] [1]; HOST 13 1 100 [(1,4)] [1]; HOST 14 1 100 [] [1];
   HOST 15 1 100 [] []; HOST 16 2 100 [] []; HOST 17 1 40 [] []]
  [mkKill 1 9 15; mkKill 2 8 11].
Definition Ac : shard := SH 1 5 [REP 1 1 11 100 10; REP 1 2 12 40 10; REP 1 3 13 10 10].
Definition Aq : request := REQ 2 1 [77] 5 [] [15] 0 12 false false 0.
Definition Ab : list request := [Aq; REQ 3 1 [9] 0 [] [] 0 15 false false 0; REQ 3 2 [8] 0 [] [] 0 11 false false 0].
Lemma A_wf : ctx_wf Actx.
Proof. apply (bool_decide_unpack _). vm_compute. exact I. Qed.
Lemma A_allowed : allowed P0 Actx (OBatch Ab) = true.
Proof. vm_compute. reflexivity. Qed.
Lemma A_view : c_view Actx !! 1 = Some Ac.
Proof. vm_compute. reflexivity. Qed.
Lemma A_fresh : fresh_id Actx Aq.
Proof.
  intros c Hc. change (q_shard Aq) with 1 in Hc. rewrite A_view in Hc. injection Hc as <-.
  constructor; [|constructor]. vm_compute. reflexivity.
Qed.
Lemma A_synced : hosts_synced Actx.
Proof.
  intros s c n h Hs Hn Hh.
  destruct (decide (s = 1)) as [-> | Hne].
  - rewrite A_view in Hs. injection Hs as <-.
    apply elem_of_mvals in Hn as [k Hk].
    assert (k = 1 ∨ k = 2 ∨ k = 3) as Hks.
    { destruct (decide (k = 1)); [tauto|]. destruct (decide (k = 2)); [tauto|]. destruct (decide (k = 3)); [tauto|].
      exfalso. unfold Ac, SH in Hk. cbn [s_reps] in Hk.
      rewrite !fmap_cons, fmap_nil in Hk. cbn [list_to_map foldr] in Hk. cbn [r_id REP] in Hk.
      rewrite !lookup_insert_ne in Hk by done. by rewrite lookup_empty in Hk. }
    destruct Hks as [-> | [-> | ->] ]; vm_compute in Hk; injection Hk as <-; vm_compute in Hh; injection Hh as <-;
      vm_compute; reflexivity.
  - exfalso. unfold Actx, CTX in Hs. cbn [c_view] in Hs.
    rewrite !fmap_cons, fmap_nil in Hs. cbn [list_to_map foldr] in Hs.
    change (s_id (SH 1 5 _)) with 1 in Hs.
    rewrite lookup_insert_ne in Hs by done. by rewrite lookup_empty in Hs.
Qed.
(* the failed member's NodeHost is alive (it reported at the current tick) *)
Lemma A_failed_member_on_reporting_host :
  ∃ n h, s_reps Ac !! 3 = Some n ∧ replica_failed P0 n (c_tick Actx) = true ∧
         c_hosts Actx !! r_addr n = Some h ∧ h_tick h = c_tick Actx.
Proof. eexists _, _. vm_compute. repeat split; reflexivity. Qed.

(** DELETE: defined size 3, 4 members (one surplus): 3 healthy, member 4 failed *)
Definition Dctx : sctx := CTX 100 [mkSD 1 [1;2;3] 7]
  [SH 1 6 [REP 1 1 11 100 10; REP 1 2 12 100 10; REP 1 3 13 100 10; REP 1 4 14 10 10]]
  [HOST 11 1 100 [] [1]; HOST 12 1 100 [] [1]; HOST 13 1 100 [] [1]; HOST 14 1 10 [(1,4)] [1]; HOST 15 1 100 [] []]
  [].
Definition Dq : request := REQ 1 1 [4] 6 [] [] 0 13 false false 0.
Definition Db : list request := [Dq].
Lemma D_wf : ctx_wf Dctx.
Proof. apply (bool_decide_unpack _). vm_compute. exact I. Qed.
Lemma D_allowed : allowed P0 Dctx (OBatch Db) = true.
Proof. vm_compute. reflexivity. Qed.

(** two shards: shard 1 is restored, shard 2 gets a join-CREATE for its waiting member *)
Definition Mctx : sctx := CTX 100 [mkSD 1 [1;2;3] 7; mkSD 2 [1;2;3] 8]
  [SH 1 5 [REP 1 1 11 100 10; REP 1 2 12 100 10; REP 1 3 13 10 10];
   SH 2 9 [REP 2 21 11 100 10; REP 2 22 12 100 10; REP 2 23 15 0 95]]
  [HOST 11 1 100 [] [1;2]; HOST 12 1 100 [] [1;2]; HOST 13 1 100 [(1,3)] [1]; HOST 15 1 100 [] [2]]
  [].
Definition Mb : list request :=
  [REQ 0 1 [1;2;3] 0 [1;2;3] [11;12;13] 3 13 false true 7;
   REQ 0 2 [21;22;23] 0 [21;22;23] [11;12;15] 23 15 true false 8].
Lemma M_wf : ctx_wf Mctx.
Proof. apply (bool_decide_unpack _). vm_compute. exact I. Qed.
Lemma M_allowed : allowed P0 Mctx (OBatch Mb) = true.
Proof. vm_compute. reflexivity. Qed.

(** the full quorum statement of C12 and its refutation by the witness *)
Lemma W_refutes : ∃ P C b q c,
  ctx_wf C ∧ allowed P C (OBatch b) = true ∧ q ∈ b ∧ is_restore q = true ∧
  c_view C !! q_shard q = Some c ∧ shard_available P c (c_tick C) = false ∧
  waiting_replicas P c (c_tick C) ≠ [] ∧
  ¬ (quorum_of (size (s_reps c)) ≤ length (ok_replicas P c (c_tick C)) + restores_for (q_shard q) b)%nat.
Proof.
  exists P0, Wctx, Wb, Wq, Wc.
  exact (conj W_wf (conj W_allowed (conj (elem_of_list_here _ _) (conj eq_refl
        (conj W_view (conj W_unavailable (conj W_waiting W_below_quorum))))))).
Qed.

Lemma W_not_full :
  ¬ (∀ P C b q c,
      ctx_wf C → allowed P C (OBatch b) = true → q ∈ b → is_restore q = true →
      c_view C !! q_shard q = Some c →
      shard_available P c (c_tick C) = false →
      (quorum_of (size (s_reps c)) ≤ length (ok_replicas P c (c_tick C)) + restores_for (q_shard q) b)%nat).
Proof.
  intros H. exact (W_below_quorum (H P0 Wctx Wb Wq Wc W_wf W_allowed (elem_of_list_here _ _) eq_refl W_view W_unavailable)).
Qed.

Lemma R_nonvacuous :
  ctx_wf Rctx ∧ allowed P0 Rctx (OBatch Rb) = true ∧ Rq2 ∈ Rb ∧ is_restore Rq2 = true ∧
  c_view Rctx !! q_shard Rq2 = Some Rc ∧ shard_available P0 Rc (c_tick Rctx) = false ∧
  waiting_replicas P0 Rc (c_tick Rctx) = [].
Proof.
  exact (conj R_wf (conj R_allowed (conj (elem_of_list_further _ _ _ (elem_of_list_here _ _))
        (conj eq_refl (conj R_view (conj R_unavailable R_no_waiting)))))).
Qed.

Lemma A_nonvacuous :
  ctx_wf Actx ∧ hosts_synced Actx ∧ allowed P0 Actx (OBatch Ab) = true ∧ Aq ∈ Ab ∧ is_add Aq = true ∧
  is_change Aq = true ∧ fresh_id Actx Aq.
Proof.
  exact (conj A_wf (conj A_synced (conj A_allowed (conj (elem_of_list_here _ _) (conj eq_refl (conj eq_refl A_fresh)))))).
Qed.
Lemma D_nonvacuous :
  ctx_wf Dctx ∧ allowed P0 Dctx (OBatch Db) = true ∧ Dq ∈ Db ∧ is_delete Dq = true ∧ is_change Dq = true.
Proof. exact (conj D_wf (conj D_allowed (conj (elem_of_list_here _ _) (conj eq_refl eq_refl)))). Qed.

(* reading note of C02: "NodeHost silent" is the replica class, not the host record: the
   failed member 3 of [Actx] lives on a NodeHost that reported at the current tick, and the
   scheduler legitimately replaces it (no persisted log to restore from) *)
Lemma A_reading_note :
  allowed P0 Actx (OBatch Ab) = true ∧ Aq ∈ Ab ∧ is_add Aq = true ∧
  ∃ n h, s_reps Ac !! 3 = Some n ∧ replica_failed P0 n (c_tick Actx) = true ∧
         failed_replicas P0 Ac (c_tick Actx) = [n] ∧
         c_hosts Actx !! r_addr n = Some h ∧ h_tick h = c_tick Actx.
Proof.
  split; [exact A_allowed|]. split; [apply elem_of_list_here|]. split; [reflexivity|].
  eexists _, _. vm_compute. repeat split; reflexivity.
Qed.

(* collision of the drawn id with a member id: the model (like the code) lets the request
   through; this is what the [fresh_id] hypothesis excludes *)
Lemma A_collision_allowed :
  allowed P0 Actx (OBatch (REQ 2 1 [2] 5 [] [15] 0 12 false false 0 :: tail Ab)) = true.
Proof. vm_compute. reflexivity. Qed.
(* id 0 is stopped by validateNodeHostRequest: the round panics *)
Lemma A_zero_id_crashes :
  allowed P0 Actx (OBatch (REQ 2 1 [0] 5 [] [15] 0 12 false false 0 :: tail Ab)) = false ∧
  allowed P0 Actx OCrash = true.
Proof. vm_compute. split; reflexivity. Qed.
(* wrong fence, failed recipient, stale / hosting / other-region target are all rejected *)
Lemma A_rejects :
  allowed P0 Actx (OBatch (REQ 2 1 [77] 4 [] [15] 0 12 false false 0 :: tail Ab)) = false ∧
  allowed P0 Actx (OBatch (REQ 2 1 [77] 5 [] [15] 0 13 false false 0 :: tail Ab)) = false ∧
  allowed P0 Actx (OBatch (REQ 2 1 [77] 5 [] [17] 0 12 false false 0 :: tail Ab)) = false ∧
  allowed P0 Actx (OBatch (REQ 2 1 [77] 5 [] [14] 0 12 false false 0 :: tail Ab)) = false ∧
  allowed P0 Actx (OBatch (REQ 2 1 [77] 5 [] [16] 0 12 false false 0 :: tail Ab)) = false ∧
  allowed P0 Actx (OBatch (tail Ab)) = false ∧
  allowed P0 Actx (OBatch [Aq]) = false.
Proof. vm_compute. repeat split; reflexivity. Qed.

(** two rounds for one shard: round 1 restores member 3 with members {1,2,3}; before round 2
    member 1 was replaced by member 4 (version 5 -> 7).  The outcome of a round is judged by
    THAT round's context only: a restore request carrying round 1's membership is not an
    allowed outcome of round 2 (a scheduler object that remembers member lists across rounds
    leaves the allowed set). *)
Definition S1ctx : sctx := CTX 1000 [mkSD 1 [1;2;3] 7]
  [SH 1 5 [REP 1 1 11 1000 10; REP 1 2 12 1000 10; REP 1 3 13 935 10]]
  [HOST 11 1 1000 [] [1]; HOST 12 1 1000 [] [1]; HOST 13 1 1000 [(1,3)] [1]; HOST 14 1 1000 [] []] [].
Definition S2ctx : sctx := CTX 1010 [mkSD 1 [1;2;3] 7]
  [SH 1 7 [REP 1 4 14 1010 10; REP 1 2 12 1010 10; REP 1 3 13 935 10]]
  [HOST 14 1 1010 [] [1]; HOST 12 1 1010 [] [1]; HOST 13 1 1010 [(1,3)] [1]] [].
Definition S1b : list request := [REQ 0 1 [1;2;3] 0 [1;2;3] [11;12;13] 3 13 false true 7].
Definition S2b : list request := [REQ 0 1 [2;3;4] 0 [2;3;4] [12;13;14] 3 13 false true 7].
Lemma S_rounds :
  allowed P0 S1ctx (OBatch S1b) = true ∧ allowed P0 S2ctx (OBatch S2b) = true ∧
  allowed P0 S2ctx (OBatch S1b) = false.
Proof. vm_compute. repeat split; reflexivity. Qed.
(* the persisted log must name exactly the member: ids that only agree modulo 100000 / 2^32 do not count *)
Definition Bctx : sctx := CTX 1000 [mkSD 100 [1;2;3] 7]
  [SH 100 5 [REP 100 1 11 1000 10; REP 100 2 12 1000 10; REP 100 7300003 13 935 10]]
  [HOST 11 1 1000 [(100,1)] [100]; HOST 12 1 1000 [(100,2)] [100]; HOST 13 1 1000 [(100,3); (100100,7300003)] [100];
   HOST 15 1 1000 [] []] [].
Lemma B_big_ids :
  allowed P0 Bctx (OBatch [REQ 0 100 [1;2;7300003] 0 [1;2;7300003] [11;12;13] 7300003 13 false true 7]) = false ∧
  allowed P0 Bctx (OBatch [REQ 2 100 [77] 5 [] [15] 0 11 false false 0]) = true.
Proof. vm_compute. split; reflexivity. Qed.
