(** SchedProofs: lemmas about the scheduler model [Sched.v]; the property theorems of
    C12, C02 and the scheduler half of C11 are stated in props/ and proved here. *)
From stdpp Require Import gmap list numbers sorting.
From Coq Require Import ZifyN ZifyNat ZifyBool Lia.
From Drummer.Model Require Import DB Sched.
Local Open Scope N_scope.

(** * generic helpers *)
Lemma elem_of_mvals {A} (m : gmap N A) (x : A) : x ∈ mvals m ↔ ∃ k, m !! k = Some x.
Proof.
  unfold mvals. rewrite elem_of_list_fmap. split.
  - intros [[k y] [Hx Hin]]. simpl in Hx. subst y. exists k. by apply elem_of_map_to_list in Hin.
  - intros [k Hk]. exists (k, x). split; [done|]. by apply elem_of_map_to_list.
Qed.

Lemma length_mvals {A} (m : gmap N A) : length (mvals m) = size m.
Proof. unfold mvals. rewrite fmap_length. reflexivity. Qed.

(** * the three classes partition the members (C05_partition, list form) *)
Lemma class_exclusive P n now :
  (replica_failed P n now = true ∧ replica_ok P n now = false ∧ replica_waiting P n now = false) ∨
  (replica_failed P n now = false ∧ replica_ok P n now = true ∧ replica_waiting P n now = false) ∨
  (replica_failed P n now = false ∧ replica_ok P n now = false ∧ replica_waiting P n now = true).
Proof.
  unfold replica_ok, replica_waiting.
  destruct (replica_failed P n now); destruct (r_tick n =? 0); simpl; tauto.
Qed.

Lemma class_partition P now (l : list replica) :
  (length (filter (λ n, replica_failed P n now = true) l) +
   length (filter (λ n, replica_ok P n now = true) l) +
   length (filter (λ n, replica_waiting P n now = true) l) = length l)%nat.
Proof.
  induction l as [|n l IH]; [done|].
  rewrite !filter_cons.
  destruct (class_exclusive P n now) as [(Hf & Ho & Hw)|[(Hf & Ho & Hw)|(Hf & Ho & Hw)]];
    rewrite Hf, Ho, Hw; simpl; lia.
Qed.

Section Facts.
Context (P : params) (C : sctx).

Lemma sr_partition c : (n_failed P C c + n_ok P C c + n_wait P C c = size (s_reps c))%nat.
Proof.
  unfold n_failed, n_ok, n_wait, sr_failed, sr_ok, sr_wait, failed_replicas, ok_replicas, waiting_replicas.
  rewrite class_partition. apply length_mvals.
Qed.

Lemma sr_quorum_eq c : sr_quorum P C c = quorum_of (size (s_reps c)).
Proof. unfold sr_quorum, quorum_of. by rewrite sr_partition. Qed.

Lemma sr_available_eq c : sr_available P C c = shard_available P c (c_tick C).
Proof. unfold sr_available, shard_available. rewrite sr_quorum_eq. reflexivity. Qed.

Lemma elem_sr_failed c n : n ∈ sr_failed P C c ↔ n ∈ mvals (s_reps c) ∧ replica_failed P n (c_tick C) = true.
Proof. unfold sr_failed, failed_replicas. rewrite elem_of_list_filter. tauto. Qed.
Lemma elem_sr_ok c n : n ∈ sr_ok P C c ↔ n ∈ mvals (s_reps c) ∧ replica_ok P n (c_tick C) = true.
Proof. unfold sr_ok, ok_replicas. rewrite elem_of_list_filter. tauto. Qed.
Lemma elem_sr_wait c n : n ∈ sr_wait P C c ↔ n ∈ mvals (s_reps c) ∧ replica_waiting P n (c_tick C) = true.
Proof. unfold sr_wait, waiting_replicas. rewrite elem_of_list_filter. tauto. Qed.

Lemma elem_restorable c n :
  n ∈ restorable P C c ↔ n ∈ sr_failed P C c ∧ restorable_rep P C n = true.
Proof. unfold restorable. rewrite elem_of_list_filter. tauto. Qed.

Lemma restore_set_sub c n : n ∈ restore_set P C c → n ∈ restorable P C c.
Proof.
  unfold restore_set. destruct (need_restore P C c); [|done].
  case_bool_decide; [done|]. by intros ?%elem_of_nil.
Qed.

Lemma restorable_rep_inv n :
  restorable_rep P C n = true →
  ∃ h, c_hosts C !! r_addr n = Some h ∧ c_tick C - h_tick h ≤ p_ttl P ∧ (r_shard n, r_id n) ∈ h_plog h.
Proof.
  unfold restorable_rep. destruct (c_hosts C !! r_addr n) as [h|]; [|done].
  intros [Ha Hl]%andb_true_iff. exists h. split; [done|].
  unfold host_available, entity_failed in Ha. unfold host_has_log in Hl.
  apply bool_decide_eq_true in Hl. split; [|done]. unfold now in Ha. lia.
Qed.

(** wf: view entries and members are found at their ids *)
Lemma entries_lookup c : c ∈ entries C → ∃ k, c_view C !! k = Some c.
Proof. unfold entries. by rewrite elem_of_mvals. Qed.

Lemma wf_entry c : ctx_wf C → c ∈ entries C → c_view C !! s_id c = Some c ∧ shard_wf (s_id c) c.
Proof.
  intros [Hv _] [k Hk]%entries_lookup. pose proof (Hv k c Hk) as Hwf.
  destruct Hwf as [Hid Hr]. subst k. split; [done|]. by split.
Qed.

Lemma wf_member c n : ctx_wf C → c ∈ entries C → n ∈ mvals (s_reps c) →
  s_reps c !! r_id n = Some n ∧ r_shard n = s_id c.
Proof.
  intros Hwf Hc [j Hj]%elem_of_mvals.
  destruct (wf_entry c Hwf Hc) as [_ [_ Hr]]. destruct (Hr j n Hj) as [Hid Hs]. by subst j.
Qed.

Lemma wf_host h : ctx_wf C → h ∈ host_list C → c_hosts C !! h_addr h = Some h.
Proof.
  intros [_ Hh] [a Ha]%elem_of_mvals. by rewrite (Hh a h Ha).
Qed.

Lemma wf_members_of c : ctx_wf C → c ∈ entries C →
  members_of c = (λ kv, (kv.1, r_addr kv.2)) <$> map_to_list (s_reps c).
Proof.
  intros Hwf Hc. unfold members_of, mvals. rewrite <- list_fmap_compose.
  apply list_fmap_ext. intros i [j n] Hin%elem_of_list_lookup_2%elem_of_map_to_list. simpl.
  destruct (wf_entry c Hwf Hc) as [_ [_ Hr]]. destruct (Hr j n Hin) as [Hid _]. by rewrite Hid.
Qed.
End Facts.

(** * inversion of the decision procedure *)
Section Inv.
Context (P : params) (C : sctx).

Lemma is_kill_kill_req k : is_kill (kill_req k) = true.
Proof. done. Qed.

(* what [allowed (OBatch b)] says, as propositions *)
Lemma allowed_batch_inv b :
  allowed P C (OBatch b) = true →
  ∃ pre, b = pre ++ kills C ∧
         Forall (λ q, is_kill q = false) pre ∧
         Forall (λ q, q_shard q ∈ (s_id <$> entries C)) pre ∧
         (∀ c, c ∈ entries C → group_allowed P C c (group_of c pre) = true) ∧
         Forall (λ q, valid_req q = true) b.
Proof.
  cbn [allowed]. intros [Hpre Hval]%andb_true_iff.
  unfold pre_allowed in Hpre.
  set (npre := (length b - length (kills C))%nat) in Hpre.
  rewrite !andb_true_iff in Hpre.
  destruct Hpre as [[[[[Hdrop Hnk] Hsh] _] _] Hgrp].
  exists (take npre b). split; [|split; [|split; [|split]]].
  - apply bool_decide_eq_true in Hdrop. rewrite <- Hdrop. by rewrite take_drop.
  - apply Forall_forall. intros q Hq. rewrite forallb_forall in Hnk.
    apply elem_of_list_In in Hq. specialize (Hnk q Hq). by destruct (is_kill q).
  - by apply bool_decide_eq_true in Hsh.
  - intros c Hc. rewrite forallb_forall in Hgrp. apply Hgrp. by apply elem_of_list_In.
  - apply Forall_forall. intros q Hq. rewrite forallb_forall in Hval. apply Hval. by apply elem_of_list_In.
Qed.

(* a non-KILL request of an allowed batch belongs to the group of a view entry *)
Lemma batch_request_cases b q :
  allowed P C (OBatch b) = true → q ∈ b →
  (q ∈ kills C) ∨
  (is_kill q = false ∧ ∃ c qs, c ∈ entries C ∧ s_id c = q_shard q ∧ q ∈ qs ∧
                              group_allowed P C c qs = true ∧
                              (∀ q', q' ∈ qs → q' ∈ b ∧ q_shard q' = s_id c)).
Proof.
  intros (pre & Hb & Hnk & Hsh & Hgrp & _)%allowed_batch_inv Hq.
  subst b. apply elem_of_app in Hq as [Hq|Hq]; [right|by left].
  rewrite Forall_forall in Hnk, Hsh.
  split; [by apply Hnk|].
  pose proof (Hsh q Hq) as Hin. apply elem_of_list_fmap in Hin as (c & Hid & Hc).
  exists c, (group_of c pre). split; [done|]. split; [done|]. split.
  - unfold group_of. apply elem_of_list_filter. by split.
  - split; [by apply Hgrp|]. intros q' Hq'. unfold group_of in Hq'.
    apply elem_of_list_filter in Hq' as [? ?]. split; [|done]. apply elem_of_app. by left.
Qed.

Lemma group_allowed_inv c qs :
  group_allowed P C c qs = true →
  (has_restore P C c = true ∧ ∃ sd, c_defs C !! s_id c = Some sd ∧ restore_group_ok P C c (sd_app sd) qs = true)
  ∨ (has_restore P C c = false ∧
     ((repair_action P C c = ANone ∧ qs = []) ∨
      (repair_action P C c = ADelete ∧ ∃ q, qs = [q] ∧ delete_req_ok P C c q = true) ∨
      (∃ sd, repair_action P C c = ACreate sd ∧ ∃ q, qs = [q] ∧ join_req_ok P C c (sd_app sd) q = true) ∨
      (repair_action P C c = AAdd ∧ ∃ q, qs = [q] ∧ add_req_ok P C c q = true))).
Proof.
  unfold group_allowed. destruct (has_restore P C c).
  - destruct (c_defs C !! s_id c) as [sd|]; [|done]. intros H. left. split; [done|]. by exists sd.
  - intros H. right. split; [done|].
    destruct (repair_action P C c) as [| |sd| |].
    + left. split; [done|]. by apply bool_decide_eq_true in H.
    + right; left. split; [done|]. destruct qs as [|q [|q2 qs]]; try done. by exists q.
    + right; right; left. exists sd. split; [done|]. destruct qs as [|q [|q2 qs]]; try done. by exists q.
    + right; right; right. split; [done|]. destruct qs as [|q [|q2 qs]]; try done. by exists q.
    + done.
Qed.

Lemma repair_action_delete c :
  repair_action P C c = ADelete →
  is_restored P C c = false ∧ ∃ sd, c_defs C !! s_id c = Some sd ∧ delete_required P C c (length (sd_members sd)) = true.
Proof.
  unfold repair_action. destruct (in_repair P C c); simpl; [|done].
  destruct (is_restored P C c); [done|].
  destruct (c_defs C !! s_id c) as [sd|]; [|done].
  destruct (delete_required P C c (length (sd_members sd))) eqn:Hd.
  - intros _. split; [done|]. by exists sd.
  - destruct (create_required P C c); [done|]. by destruct (add_required P C c).
Qed.

Lemma repair_action_create c sd :
  repair_action P C c = ACreate sd →
  is_restored P C c = false ∧ c_defs C !! s_id c = Some sd ∧
  delete_required P C c (length (sd_members sd)) = false ∧ create_required P C c = true.
Proof.
  unfold repair_action. destruct (in_repair P C c); simpl; [|done].
  destruct (is_restored P C c); [done|].
  destruct (c_defs C !! s_id c) as [sd'|]; [|done].
  destruct (delete_required P C c (length (sd_members sd'))) eqn:Hd; [done|].
  destruct (create_required P C c) eqn:Hc.
  - intros [= <-]. done.
  - by destruct (add_required P C c).
Qed.

Lemma repair_action_add c :
  repair_action P C c = AAdd →
  is_restored P C c = false ∧ ∃ sd, c_defs C !! s_id c = Some sd ∧
  delete_required P C c (length (sd_members sd)) = false ∧ create_required P C c = false ∧
  add_required P C c = true.
Proof.
  unfold repair_action. destruct (in_repair P C c); simpl; [|done].
  destruct (is_restored P C c); [done|].
  destruct (c_defs C !! s_id c) as [sd|]; [|done].
  destruct (delete_required P C c (length (sd_members sd))) eqn:Hd; [done|].
  destruct (create_required P C c) eqn:Hc; [done|].
  destruct (add_required P C c) eqn:Ha; [|done].
  intros _. split; [done|]. by exists sd.
Qed.

(* shapes *)
Lemma restore_group_inv c app qs q :
  restore_group_ok P C c app qs = true → q ∈ qs →
  create_shape c false true app q ∧ ∃ n, n ∈ restore_set P C c ∧ q_inst q = r_id n ∧ q_raft q = r_addr n.
Proof.
  unfold restore_group_ok. intros [Hperm Hall]%bool_decide_eq_true Hq.
  rewrite Forall_forall in Hall. split; [by apply Hall|].
  assert ((q_inst q, q_raft q) ∈ (λ n, (r_id n, r_addr n)) <$> restore_set P C c) as Hin.
  { rewrite <- Hperm. apply elem_of_list_fmap. by exists q. }
  apply elem_of_list_fmap in Hin as (n & Heq & Hn). exists n. split; [done|].
  by injection Heq.
Qed.

Lemma restore_group_length c app qs :
  restore_group_ok P C c app qs = true → length qs = length (restore_set P C c).
Proof.
  unfold restore_group_ok. intros [Hperm _]%bool_decide_eq_true.
  apply Permutation_length in Hperm. by rewrite !fmap_length in Hperm.
Qed.

Lemma has_restore_false c : has_restore P C c = false → restore_set P C c = [].
Proof. unfold has_restore. by destruct (restore_set P C c). Qed.
Lemma has_restore_true c : has_restore P C c = true → restore_set P C c ≠ [].
Proof. unfold has_restore. by destruct (restore_set P C c). Qed.

(* an entry with restore requests makes its id "restored" *)
Lemma has_restore_restored c : c ∈ entries C → has_restore P C c = true → is_restored P C c = true.
Proof.
  intros Hc Hr. unfold is_restored. apply existsb_exists. exists (s_id c). split; [|apply N.eqb_refl].
  apply elem_of_list_In. unfold restored_ids.
  apply elem_of_list_fmap. exists c. split; [done|]. apply elem_of_list_filter. by split.
Qed.
End Inv.

(** * where the requests of an allowed batch come from *)
Lemma filter_length_mono {A} (F G : A → Prop) `{∀ x, Decision (F x)} `{∀ x, Decision (G x)} (l : list A) :
  (∀ x, x ∈ l → G x → F x) → (length (filter G l) ≤ length (filter F l))%nat.
Proof.
  induction l as [|x l IH]; intros HGF; [done|].
  rewrite !filter_cons.
  assert (length (filter G l) ≤ length (filter F l))%nat as IH'.
  { apply IH. intros y Hy. apply HGF. by right. }
  destruct (decide (G x)) as [Hg|Hg].
  - rewrite decide_True by (apply HGF; [by left|done]). simpl. lia.
  - destruct (decide (F x)); simpl; lia.
Qed.

Section Origin.
Context (P : params) (C : sctx).

Lemma kills_are_kill q : q ∈ kills C → is_kill q = true.
Proof. unfold kills. intros (k & -> & _)%elem_of_list_fmap. done. Qed.

Lemma create_shape_kind c j r app q : create_shape c j r app q → is_create q = true ∧ q_join q = j ∧ q_restore q = r.
Proof. intros (? & _ & _ & _ & _ & _ & ? & ? & _). done. Qed.

(* the group a non-KILL request belongs to, with the split of the batch *)
Lemma batch_group b q :
  allowed P C (OBatch b) = true → q ∈ b → is_kill q = false →
  ∃ pre c, b = pre ++ kills C ∧ c ∈ entries C ∧ s_id c = q_shard q ∧ q ∈ group_of c pre ∧
           group_allowed P C c (group_of c pre) = true.
Proof.
  intros (pre & Hb & Hnk & Hsh & Hgrp & _)%allowed_batch_inv Hq Hk.
  subst b. apply elem_of_app in Hq as [Hq|Hq].
  2:{ apply kills_are_kill in Hq. congruence. }
  rewrite Forall_forall in Hsh.
  pose proof (Hsh q Hq) as Hin. apply elem_of_list_fmap in Hin as (c & Hid & Hc).
  exists pre, c. split; [done|]. split; [done|]. split; [done|]. split.
  - unfold group_of. apply elem_of_list_filter. by split.
  - by apply Hgrp.
Qed.

Lemma restore_origin b q :
  allowed P C (OBatch b) = true → q ∈ b → is_restore q = true →
  ∃ pre c sd, b = pre ++ kills C ∧ c ∈ entries C ∧ s_id c = q_shard q ∧ q ∈ group_of c pre ∧
              has_restore P C c = true ∧ c_defs C !! s_id c = Some sd ∧
              restore_group_ok P C c (sd_app sd) (group_of c pre) = true.
Proof.
  intros Hal Hq Hr. unfold is_restore in Hr. apply andb_true_iff in Hr as [Hcr Hrs].
  assert (is_kill q = false) as Hk by (unfold is_create in Hcr; unfold is_kill; by destruct (q_type q)).
  destruct (batch_group b q Hal Hq Hk) as (pre & c & Hb & Hc & Hid & Hin & Hg).
  exists pre, c.
  apply group_allowed_inv in Hg as [(Hh & sd & Hsd & Hok)|(Hh & Hcases)].
  { exists sd. done. }
  exfalso.
  destruct Hcases as [[_ Hnil]|[(_ & q0 & Hq0 & Hd)|[(sd & _ & q0 & Hq0 & Hj)|(_ & q0 & Hq0 & Ha)]]].
  - rewrite Hnil in Hin. by apply elem_of_nil in Hin.
  - rewrite Hq0 in Hin. apply elem_of_list_singleton in Hin. subst q0.
    apply bool_decide_eq_true in Hd. destruct Hd as (Hd & _).
    unfold is_delete in Hd. unfold is_create in Hcr. by destruct (q_type q).
  - rewrite Hq0 in Hin. apply elem_of_list_singleton in Hin. subst q0.
    apply bool_decide_eq_true in Hj. destruct Hj as (Hs & _).
    apply create_shape_kind in Hs as (_ & _ & Hrs'). congruence.
  - rewrite Hq0 in Hin. apply elem_of_list_singleton in Hin. subst q0.
    apply bool_decide_eq_true in Ha. destruct Ha as (Ha & _).
    unfold is_add in Ha. unfold is_create in Hcr. by destruct (q_type q).
Qed.

Lemma delete_origin b q :
  allowed P C (OBatch b) = true → q ∈ b → is_delete q = true →
  ∃ pre c, b = pre ++ kills C ∧ c ∈ entries C ∧ s_id c = q_shard q ∧ group_of c pre = [q] ∧
           has_restore P C c = false ∧ repair_action P C c = ADelete ∧ delete_req_ok P C c q = true.
Proof.
  intros Hal Hq Hd.
  assert (is_kill q = false) as Hk by (unfold is_delete in Hd; unfold is_kill; by destruct (q_type q)).
  destruct (batch_group b q Hal Hq Hk) as (pre & c & Hb & Hc & Hid & Hin & Hg).
  exists pre, c.
  apply group_allowed_inv in Hg as [(Hh & sd & Hsd & Hok)|(Hh & Hcases)].
  { exfalso. destruct (restore_group_inv P C c _ _ q Hok Hin) as [Hs _].
    apply create_shape_kind in Hs as (Hcr & _ & _).
    unfold is_delete in Hd. unfold is_create in Hcr. by destruct (q_type q). }
  destruct Hcases as [[_ Hnil]|[(Hact & q0 & Hq0 & Hdel)|[(sd & _ & q0 & Hq0 & Hj)|(_ & q0 & Hq0 & Ha)]]].
  - exfalso. rewrite Hnil in Hin. by apply elem_of_nil in Hin.
  - rewrite Hq0 in Hin. apply elem_of_list_singleton in Hin. subst q0. done.
  - exfalso. rewrite Hq0 in Hin. apply elem_of_list_singleton in Hin. subst q0.
    apply bool_decide_eq_true in Hj. destruct Hj as (Hs & _).
    apply create_shape_kind in Hs as (Hcr & _ & _).
    unfold is_delete in Hd. unfold is_create in Hcr. by destruct (q_type q).
  - exfalso. rewrite Hq0 in Hin. apply elem_of_list_singleton in Hin. subst q0.
    apply bool_decide_eq_true in Ha. destruct Ha as (Ha & _).
    unfold is_add in Ha. unfold is_delete in Hd. by destruct (q_type q).
Qed.

Lemma add_origin b q :
  allowed P C (OBatch b) = true → q ∈ b → is_add q = true →
  ∃ pre c, b = pre ++ kills C ∧ c ∈ entries C ∧ s_id c = q_shard q ∧ group_of c pre = [q] ∧
           has_restore P C c = false ∧ repair_action P C c = AAdd ∧ add_req_ok P C c q = true.
Proof.
  intros Hal Hq Hd.
  assert (is_kill q = false) as Hk by (unfold is_add in Hd; unfold is_kill; by destruct (q_type q)).
  destruct (batch_group b q Hal Hq Hk) as (pre & c & Hb & Hc & Hid & Hin & Hg).
  exists pre, c.
  apply group_allowed_inv in Hg as [(Hh & sd & Hsd & Hok)|(Hh & Hcases)].
  { exfalso. destruct (restore_group_inv P C c _ _ q Hok Hin) as [Hs _].
    apply create_shape_kind in Hs as (Hcr & _ & _).
    unfold is_add in Hd. unfold is_create in Hcr. by destruct (q_type q). }
  destruct Hcases as [[_ Hnil]|[(Hact & q0 & Hq0 & Hdel)|[(sd & _ & q0 & Hq0 & Hj)|(Hact & q0 & Hq0 & Ha)]]].
  - exfalso. rewrite Hnil in Hin. by apply elem_of_nil in Hin.
  - exfalso. rewrite Hq0 in Hin. apply elem_of_list_singleton in Hin. subst q0.
    apply bool_decide_eq_true in Hdel. destruct Hdel as (Hdel & _).
    unfold is_add in Hd. unfold is_delete in Hdel. by destruct (q_type q).
  - exfalso. rewrite Hq0 in Hin. apply elem_of_list_singleton in Hin. subst q0.
    apply bool_decide_eq_true in Hj. destruct Hj as (Hs & _).
    apply create_shape_kind in Hs as (Hcr & _ & _).
    unfold is_add in Hd. unfold is_create in Hcr. by destruct (q_type q).
  - rewrite Hq0 in Hin. apply elem_of_list_singleton in Hin. subst q0. done.
Qed.

(* every request of a group with restore requests is a restore request *)
Lemma restore_group_all c app qs q :
  restore_group_ok P C c app qs = true → q ∈ qs → is_restore q = true ∧ q_join q = false.
Proof.
  intros Hok Hq. destruct (restore_group_inv P C c _ _ q Hok Hq) as [Hs _].
  apply create_shape_kind in Hs as (Hcr & Hj & Hr). unfold is_restore. by rewrite Hcr, Hr.
Qed.
End Origin.

(** * C12 *)
Section C12.
Context (P : params) (C : sctx).

(* number of restore requests for shard [s] in a batch *)
Definition restores_for (s : N) (b : list request) : nat :=
  length (filter (λ q, is_restore q = true ∧ q_shard q = s) b).

Lemma sched_restore_target b q :
  ctx_wf C → allowed P C (OBatch b) = true → q ∈ b → is_restore q = true →
  ∃ c n h, c_view C !! q_shard q = Some c ∧ s_reps c !! q_inst q = Some n ∧
           replica_failed P n (c_tick C) = true ∧ q_raft q = r_addr n ∧
           c_hosts C !! r_addr n = Some h ∧ c_tick C - h_tick h ≤ p_ttl P ∧
           (q_shard q, q_inst q) ∈ h_plog h.
Proof.
  intros Hwf Hal Hq Hr.
  destruct (restore_origin P C b q Hal Hq Hr) as (pre & c & sd & Hb & Hc & Hid & Hin & Hh & Hsd & Hok).
  destruct (restore_group_inv P C c _ _ q Hok Hin) as (_ & n & Hn & Hinst & Hraft).
  apply restore_set_sub, elem_restorable in Hn as [Hnf Hrep].
  apply elem_sr_failed in Hnf as [Hmem Hfail].
  destruct (wf_entry C c Hwf Hc) as [Hview _].
  destruct (wf_member C c n Hwf Hc Hmem) as [Hlook Hsh].
  destruct (restorable_rep_inv P C n Hrep) as (h & Hh1 & Hh2 & Hh3).
  exists c, n, h. rewrite <- Hid, Hinst. rewrite Hsh in Hh3. done.
Qed.

Lemma sched_restore_flags b q :
  ctx_wf C → allowed P C (OBatch b) = true → q ∈ b → is_restore q = true →
  q_restore q = true ∧ q_join q = false ∧
  ∃ c, c_view C !! q_shard q = Some c ∧ q_members q = q_rids q ∧
       length (q_rids q) = length (q_addrs q) ∧
       zip (q_rids q) (q_addrs q) ≡ₚ (λ kv, (kv.1, r_addr kv.2)) <$> map_to_list (s_reps c).
Proof.
  intros Hwf Hal Hq Hr.
  destruct (restore_origin P C b q Hal Hq Hr) as (pre & c & sd & Hb & Hc & Hid & Hin & Hh & Hsd & Hok).
  destruct (restore_group_inv P C c _ _ q Hok Hin) as (Hs & _).
  destruct Hs as (_ & _ & Hm & _ & Hlen & Hperm & Hj & Hrs & _).
  split; [done|]. split; [done|].
  destruct (wf_entry C c Hwf Hc) as [Hview _].
  exists c. rewrite <- Hid. split; [done|]. split; [done|]. split; [done|].
  by rewrite <- (wf_members_of C c Hwf Hc).
Qed.

(* no wf needed: a shard with a restore request gets no ADD, no DELETE, no join/bootstrap CREATE *)
Lemma sched_restore_exclusive b q q' :
  allowed P C (OBatch b) = true → q ∈ b → is_restore q = true →
  q' ∈ b → q_shard q' = q_shard q → is_kill q' = false →
  is_restore q' = true ∧ q_join q' = false ∧ is_change q' = false.
Proof.
  intros Hal Hq Hr Hq' Hsh Hk'.
  destruct (restore_origin P C b q Hal Hq Hr) as (pre & c & sd & Hb & Hc & Hid & Hin & Hh & Hsd & Hok).
  assert (q' ∈ group_of c pre) as Hin'.
  { rewrite Hb in Hq'. apply elem_of_app in Hq' as [Hq'|Hq'].
    - unfold group_of. apply elem_of_list_filter. split; [congruence|done].
    - apply kills_are_kill in Hq'. congruence. }
  destruct (restore_group_all P C c _ _ q' Hok Hin') as [Hr' Hj']. split; [done|]. split; [done|].
  unfold is_restore, is_create in Hr'. unfold is_change, is_add, is_delete. by destruct (q_type q').
Qed.

Lemma group_restores_le b pre c app :
  b = pre ++ kills C → restore_group_ok P C c app (group_of c pre) = true →
  (length (restore_set P C c) ≤ restores_for (s_id c) b)%nat.
Proof.
  intros Hb Hok. rewrite <- (restore_group_length P C c _ _ Hok).
  unfold restores_for. rewrite Hb, filter_app, app_length.
  unfold group_of.
  assert (length (filter (λ q, q_shard q = s_id c) pre) ≤
          length (filter (λ q, is_restore q = true ∧ q_shard q = s_id c) pre))%nat; [|lia].
  apply filter_length_mono. intros x Hx Hs. split; [|done].
  eapply (restore_group_all P C c app (group_of c pre) x Hok).
  unfold group_of. apply elem_of_list_filter. done.
Qed.

(* every CREATE of a maintenance round is a restore (restart from existing data) or a join of a
   member that is waiting to start; never a bootstrap (join = restore = false) *)
Lemma sched_create_kinds b q :
  ctx_wf C → allowed P C (OBatch b) = true → q ∈ b → is_create q = true →
  (q_restore q = true ∧ q_join q = false) ∨
  (q_restore q = false ∧ q_join q = true ∧
   ∃ c n, c_view C !! q_shard q = Some c ∧ s_reps c !! q_inst q = Some n ∧
          replica_waiting P n (c_tick C) = true ∧ q_raft q = r_addr n).
Proof.
  intros Hwf Hal Hq Hcr.
  assert (is_kill q = false) as Hk by (unfold is_create in Hcr; unfold is_kill; by destruct (q_type q)).
  destruct (batch_group P C b q Hal Hq Hk) as (pre & c & Hb & Hc & Hid & Hin & Hg).
  apply group_allowed_inv in Hg as [(Hh & sd & Hsd & Hok)|(Hh & Hcases)].
  { left. destruct (restore_group_inv P C c _ _ q Hok Hin) as [Hs _].
    apply create_shape_kind in Hs as (_ & ? & ?). done. }
  destruct Hcases as [[_ Hnil]|[(_ & q0 & Hq0 & Hd)|[(sd & _ & q0 & Hq0 & Hj)|(_ & q0 & Hq0 & Ha)]]].
  - exfalso. rewrite Hnil in Hin. by apply elem_of_nil in Hin.
  - exfalso. rewrite Hq0 in Hin. apply elem_of_list_singleton in Hin. subst q0.
    apply bool_decide_eq_true in Hd. destruct Hd as (Hd & _).
    unfold is_delete in Hd. unfold is_create in Hcr. by destruct (q_type q).
  - right. rewrite Hq0 in Hin. apply elem_of_list_singleton in Hin. subst q0.
    apply bool_decide_eq_true in Hj. destruct Hj as (Hs & Hex).
    apply create_shape_kind in Hs as (_ & Hj & Hr). split; [done|]. split; [done|].
    apply Exists_exists in Hex as (n & Hn & Hinst & Hraft).
    apply elem_sr_wait in Hn as [Hmem Hw].
    destruct (wf_entry C c Hwf Hc) as [Hview _]. destruct (wf_member C c n Hwf Hc Hmem) as [Hlook _].
    exists c, n. rewrite <- Hid, Hinst. done.
  - exfalso. rewrite Hq0 in Hin. apply elem_of_list_singleton in Hin. subst q0.
    apply bool_decide_eq_true in Ha. destruct Ha as (Ha & _).
    unfold is_add in Ha. unfold is_create in Hcr. by destruct (q_type q).
Qed.

(* the quorum rule of restoreUnavailableShards *)
Lemma sched_restore_quorum_partial b q c :
  ctx_wf C → allowed P C (OBatch b) = true → q ∈ b → is_restore q = true →
  c_view C !! q_shard q = Some c →
  shard_available P c (c_tick C) = false →
  waiting_replicas P c (c_tick C) = [] →
  (quorum_of (size (s_reps c)) ≤ length (ok_replicas P c (c_tick C)) + restores_for (q_shard q) b)%nat.
Proof.
  intros Hwf Hal Hq Hr Hview Hav Hw.
  destruct (restore_origin P C b q Hal Hq Hr) as (pre & c' & sd & Hb & Hc & Hid & Hin & Hh & Hsd & Hok).
  destruct (wf_entry C c' Hwf Hc) as [Hview' _]. rewrite Hid, Hview in Hview'.
  injection Hview' as <-.
  pose proof (group_restores_le b pre c _ Hb Hok) as Hle. rewrite Hid in Hle.
  apply has_restore_true in Hh.
  assert (need_restore P C c = true) as Hneed.
  { unfold need_restore. rewrite sr_available_eq, Hav. unfold n_wait, sr_wait, now. rewrite Hw. done. }
  unfold restore_set in Hh, Hle. rewrite Hneed in Hh, Hle.
  case_bool_decide as Hquo; [|done].
  rewrite sr_quorum_eq in Hquo. unfold n_ok, sr_ok, now in Hquo. lia.
Qed.
End C12.

(** * C02 *)
Section C02.
Context (P : params) (C : sctx).

(* the explicit hypothesis on the random source: the drawn replica id is not a member *)
Definition fresh_id (q : request) : Prop :=
  ∀ c, c_view C !! q_shard q = Some c → Forall (λ id, s_reps c !! id = None) (q_members q).

Lemma delete_required_inv c sz :
  delete_required P C c sz = true →
  shard_available P c (c_tick C) = true ∧ (sz < n_failed P C c + n_ok P C c)%nat.
Proof.
  unfold delete_required. rewrite !andb_true_iff, sr_available_eq.
  intros [[Ha _] Hsz]. apply bool_decide_eq_true in Hsz. done.
Qed.

Lemma add_required_inv c :
  add_required P C c = true →
  shard_available P c (c_tick C) = true ∧ waiting_replicas P c (c_tick C) = [] ∧ (0 < n_failed P C c)%nat.
Proof.
  unfold add_required. rewrite !andb_true_iff, sr_available_eq.
  intros [[Hf Hw] Ha]. apply bool_decide_eq_true in Hf, Hw.
  split; [done|]. split; [|done]. unfold n_wait, sr_wait, now in Hw. by apply nil_length_inv.
Qed.

Lemma sched_delete_justified b q :
  ctx_wf C → allowed P C (OBatch b) = true → q ∈ b → is_delete q = true →
  ∃ c id n, c_view C !! q_shard q = Some c ∧ q_members q = [id] ∧ s_reps c !! id = Some n ∧
            replica_failed P n (c_tick C) = true ∧ shard_available P c (c_tick C) = true.
Proof.
  intros Hwf Hal Hq Hd.
  destruct (delete_origin P C b q Hal Hq Hd) as (pre & c & Hb & Hc & Hid & Hgrp & Hh & Hact & Hok).
  apply bool_decide_eq_true in Hok. destruct Hok as (_ & _ & _ & Hex & _).
  apply Exists_exists in Hex as (n & Hn & Hmem).
  apply elem_sr_failed in Hn as [Hin Hfail].
  destruct (wf_entry C c Hwf Hc) as [Hview _].
  destruct (wf_member C c n Hwf Hc Hin) as [Hlook _].
  apply repair_action_delete in Hact as (_ & sd & _ & Hreq).
  apply delete_required_inv in Hreq as [Hav _].
  exists c, (r_id n), n. rewrite <- Hid. done.
Qed.

Lemma candidates_inv n h :
  h ∈ candidates P C n →
  h ∈ host_list C ∧ c_tick C - h_tick h < p_ttl P ∧ r_shard n ∉ h_shards h.
Proof.
  intros Hin.
  assert (h ∈ cand_any P C (r_shard n)) as Hany.
  { unfold candidates in Hin. destruct (cand_region P C (r_shard n) (region_of C (r_addr n))) as [|h0 l] eqn:Hreg; [done|].
    rewrite <- Hreg in Hin. unfold cand_region in Hin. by apply elem_of_list_filter in Hin as [_ ?]. }
  unfold cand_any in Hany. apply elem_of_list_filter in Hany as [[Hlive Hnh] Hl].
  split; [done|]. unfold host_live, now in Hlive. unfold not_hosting in Hnh.
  apply bool_decide_eq_true in Hnh. split; [lia|done].
Qed.

Lemma valid_add_id q id : valid_req q = true → is_add q = true → q_members q = [id] → id ≠ 0.
Proof.
  unfold valid_req, is_add. intros Hv Ha Hm. destruct (q_type q); try done.
  rewrite Hm in Hv. rewrite !andb_true_iff in Hv. destruct Hv as [_ [Hid _]]. lia.
Qed.

Lemma sched_add_justified b q :
  ctx_wf C → allowed P C (OBatch b) = true → q ∈ b → is_add q = true →
  ∃ c h id, c_view C !! q_shard q = Some c ∧
            shard_available P c (c_tick C) = true ∧
            waiting_replicas P c (c_tick C) = [] ∧
            failed_replicas P c (c_tick C) ≠ [] ∧
            q_members q = [id] ∧ id ≠ 0 ∧ (fresh_id q → s_reps c !! id = None) ∧
            q_addrs q = [h_addr h] ∧ c_hosts C !! h_addr h = Some h ∧
            c_tick C - h_tick h < p_ttl P ∧ q_shard q ∉ h_shards h.
Proof.
  intros Hwf Hal Hq Ha.
  destruct (add_origin P C b q Hal Hq Ha) as (pre & c & Hb & Hc & Hid & Hgrp & Hh & Hact & Hok).
  apply bool_decide_eq_true in Hok. destruct Hok as (_ & _ & _ & Hlen & _ & Hex & _).
  apply Exists_exists in Hex as (n & Hn & Hex). apply Exists_exists in Hex as (h & Hcand & Haddr).
  apply elem_sr_failed in Hn as [Hin Hfail].
  destruct (wf_entry C c Hwf Hc) as [Hview _].
  destruct (wf_member C c n Hwf Hc Hin) as [_ Hsh].
  apply candidates_inv in Hcand as (Hhl & Hlive & Hnh).
  apply repair_action_add in Hact as (_ & sd & _ & _ & _ & Hreq).
  apply add_required_inv in Hreq as (Hav & Hw & Hnf).
  destruct (q_members q) as [|id [|id2 ms]] eqn:Hm; try done.
  exists c, h, id. rewrite <- Hid. split; [done|]. split; [done|]. split; [done|]. split.
  { unfold n_failed, sr_failed, now in Hnf. intros Hnil. rewrite Hnil in Hnf. simpl in Hnf. lia. }
  split; [done|]. split.
  { apply (valid_add_id q); [|done|done].
    apply allowed_batch_inv in Hal as (_ & _ & _ & _ & _ & Hval). rewrite Forall_forall in Hval. by apply Hval. }
  split.
  { intros Hfresh. specialize (Hfresh c). rewrite <- Hid, Hm in Hfresh. specialize (Hfresh Hview).
    apply Forall_inv in Hfresh. exact Hfresh. }
  split; [done|]. split; [by apply wf_host|]. split; [done|]. by rewrite Hsh in Hnh.
Qed.

(* with the DB's syncShardInfo invariant the target is not the host of any member *)
Definition hosts_synced : Prop :=
  ∀ s c n h, c_view C !! s = Some c → n ∈ mvals (s_reps c) → c_hosts C !! r_addr n = Some h → s ∈ h_shards h.

Lemma sched_add_no_colocation b q c n :
  ctx_wf C → hosts_synced → allowed P C (OBatch b) = true → q ∈ b → is_add q = true →
  c_view C !! q_shard q = Some c → n ∈ mvals (s_reps c) → q_addrs q ≠ [r_addr n].
Proof.
  intros Hwf Hsync Hal Hq Ha Hview Hn Heq.
  destruct (sched_add_justified b q Hwf Hal Hq Ha) as (c' & h & id & Hview' & _ & _ & _ & _ & _ & _ & Haddr & Hh & _ & Hnh).
  rewrite Hview in Hview'. injection Hview' as <-.
  rewrite Heq in Haddr. injection Haddr as Haddr. rewrite <- Haddr in Hh.
  apply Hnh. by apply (Hsync _ c n h).
Qed.

Lemma sched_fenced b q :
  ctx_wf C → allowed P C (OBatch b) = true → q ∈ b → is_change q = true →
  ∃ c id m, c_view C !! q_shard q = Some c ∧ q_ccid q = s_cci c ∧
            s_reps c !! id = Some m ∧ replica_ok P m (c_tick C) = true ∧ q_raft q = r_addr m.
Proof.
  intros Hwf Hal Hq Hch. unfold is_change in Hch. apply orb_true_iff in Hch as [Ha|Hd].
  - destruct (add_origin P C b q Hal Hq Ha) as (pre & c & Hb & Hc & Hid & Hgrp & Hh & Hact & Hok).
    apply bool_decide_eq_true in Hok. destruct Hok as (_ & _ & Hcc & _ & Hex & _).
    apply Exists_exists in Hex as (m & Hm & Hraft). apply elem_sr_ok in Hm as [Hin Hok].
    destruct (wf_entry C c Hwf Hc) as [Hview _]. destruct (wf_member C c m Hwf Hc Hin) as [Hlook _].
    exists c, (r_id m), m. rewrite <- Hid. done.
  - destruct (delete_origin P C b q Hal Hq Hd) as (pre & c & Hb & Hc & Hid & Hgrp & Hh & Hact & Hok).
    apply bool_decide_eq_true in Hok. destruct Hok as (_ & _ & Hcc & _ & Hex & _).
    apply Exists_exists in Hex as (m & Hm & Hraft). apply elem_sr_ok in Hm as [Hin Hok].
    destruct (wf_entry C c Hwf Hc) as [Hview _]. destruct (wf_member C c m Hwf Hc Hin) as [Hlook _].
    exists c, (r_id m), m. rewrite <- Hid. done.
Qed.

(* number of membership changes for shard [s] in a batch *)
Definition changes_for (s : N) (b : list request) : nat :=
  length (filter (λ q, is_change q = true ∧ q_shard q = s) b).

Lemma filter_none {A} (F : A → Prop) `{∀ x, Decision (F x)} (l : list A) :
  (∀ x, x ∈ l → ¬ F x) → filter F l = [].
Proof.
  induction l as [|x l IH]; intros Hn; [done|].
  rewrite filter_cons, decide_False by (apply Hn; by left). apply IH. intros y Hy. apply Hn. by right.
Qed.

Lemma kill_not_change q : is_kill q = true → is_change q = false.
Proof. unfold is_kill, is_change, is_add, is_delete. by destruct (q_type q). Qed.
Lemma restore_not_change q : is_restore q = true → is_change q = false.
Proof. unfold is_restore, is_create, is_change, is_add, is_delete. by destruct (q_type q). Qed.

Lemma sched_one_change b s : allowed P C (OBatch b) = true → (changes_for s b ≤ 1)%nat.
Proof.
  intros (pre & Hb & Hnk & Hsh & Hgrp & _)%allowed_batch_inv.
  unfold changes_for. rewrite Hb, filter_app, app_length.
  rewrite (filter_none _ (kills C)).
  2:{ intros x Hx%kills_are_kill%kill_not_change [Hch _]. congruence. }
  simpl. rewrite Nat.add_0_r.
  destruct (decide (s ∈ s_id <$> entries C)) as [Hin|Hnin].
  - apply elem_of_list_fmap in Hin as (c & -> & Hc).
    rewrite <- (list_filter_filter (λ q, is_change q = true) (λ q, q_shard q = s_id c) pre).
    fold (group_of c pre). specialize (Hgrp c Hc).
    apply group_allowed_inv in Hgrp as [(_ & sd & _ & Hok)|(_ & Hcases)].
    + rewrite filter_none; [simpl; lia|]. intros x Hx Hch.
      destruct (restore_group_all P C c _ _ x Hok Hx) as [Hr%restore_not_change _]. congruence.
    + etrans; [apply filter_length|].
      destruct Hcases as [[_ ->]|[(_ & q0 & -> & _)|[(sd & _ & q0 & -> & _)|(_ & q0 & -> & _)]]]; simpl; lia.
  - rewrite filter_none; [simpl; lia|]. intros x Hx [_ Hs]. rewrite Forall_forall in Hsh.
    apply Hnin. rewrite <- Hs. by apply Hsh.
Qed.

Lemma sched_no_change_restored b q :
  allowed P C (OBatch b) = true → q ∈ b → is_restore q = true → changes_for (q_shard q) b = 0%nat.
Proof.
  intros Hal Hq Hr. unfold changes_for. rewrite filter_none; [done|].
  intros x Hx [Hch Hs]. destruct (is_kill x) eqn:Hk.
  - apply kill_not_change in Hk. congruence.
  - destruct (sched_restore_exclusive P C b q x Hal Hq Hr Hx Hs Hk) as (_ & _ & Hn). congruence.
Qed.

(* DELETE is tested first: an ADD is issued only when the view is not larger than the defined size *)
Lemma sched_add_size b q :
  ctx_wf C → allowed P C (OBatch b) = true → q ∈ b → is_add q = true →
  ∃ c sd, c_view C !! q_shard q = Some c ∧ c_defs C !! q_shard q = Some sd ∧
          (length (failed_replicas P c (c_tick C)) + length (ok_replicas P c (c_tick C)) ≤ length (sd_members sd))%nat ∧
          (size (s_reps c) ≤ length (sd_members sd))%nat.
Proof.
  intros Hwf Hal Hq Ha.
  destruct (add_origin P C b q Hal Hq Ha) as (pre & c & Hb & Hc & Hid & Hgrp & Hh & Hact & Hok).
  destruct (wf_entry C c Hwf Hc) as [Hview _].
  apply repair_action_add in Hact as (_ & sd & Hsd & Hdel & _ & Hadd).
  exists c, sd. rewrite <- Hid. split; [done|]. split; [done|].
  pose proof (sr_partition P C c) as Hpart.
  unfold add_required in Hadd. rewrite !andb_true_iff in Hadd. destruct Hadd as [[Hf Hw] Hav].
  apply bool_decide_eq_true in Hf, Hw.
  unfold delete_required in Hdel. rewrite Hav in Hdel. rewrite (bool_decide_eq_true_2 _ Hf) in Hdel.
  simpl in Hdel. apply bool_decide_eq_false in Hdel.
  unfold n_failed, n_ok, n_wait, sr_failed, sr_ok, sr_wait, now in *. lia.
Qed.

Lemma sched_delete_size b q :
  ctx_wf C → allowed P C (OBatch b) = true → q ∈ b → is_delete q = true →
  ∃ c sd, c_view C !! q_shard q = Some c ∧ c_defs C !! q_shard q = Some sd ∧
          (length (sd_members sd) < length (failed_replicas P c (c_tick C)) + length (ok_replicas P c (c_tick C)))%nat.
Proof.
  intros Hwf Hal Hq Hd.
  destruct (delete_origin P C b q Hal Hq Hd) as (pre & c & Hb & Hc & Hid & Hgrp & Hh & Hact & Hok).
  destruct (wf_entry C c Hwf Hc) as [Hview _].
  apply repair_action_delete in Hact as (_ & sd & Hsd & Hreq).
  apply delete_required_inv in Hreq as [_ Hsz].
  exists c, sd. rewrite <- Hid. split; [done|]. split; [done|].
  unfold n_failed, n_ok, sr_failed, sr_ok, now in Hsz. lia.
Qed.
End C02.

(** * C11, scheduler half: the KILL requests are exactly the replicated kill list *)
Section C11.
Context (P : params) (C : sctx).

Lemma sched_kills_exact b :
  allowed P C (OBatch b) = true →
  ∃ pre, b = pre ++ (kill_req <$> c_kill C) ∧ Forall (λ q, is_kill q = false) pre.
Proof.
  intros (pre & Hb & Hnk & _)%allowed_batch_inv. exists pre. done.
Qed.

Lemma sched_kills_filter b :
  allowed P C (OBatch b) = true → filter (λ q, is_kill q = true) b = kill_req <$> c_kill C.
Proof.
  intros (pre & -> & Hnk)%sched_kills_exact. rewrite filter_app.
  rewrite filter_none.
  2:{ rewrite Forall_forall in Hnk. intros x Hx Hk. specialize (Hnk x Hx). congruence. }
  simpl. induction (c_kill C) as [|k l IH]; [done|].
  rewrite fmap_cons, filter_cons, decide_True by done. by rewrite IH.
Qed.
End C11.

(** * completeness direction (used by the closed loop): what an allowed batch MUST contain *)
Section Complete.
Context (P : params) (C : sctx).

Lemma group_in_batch b c :
  allowed P C (OBatch b) = true → c ∈ entries C →
  ∃ pre, b = pre ++ kills C ∧ group_allowed P C c (group_of c pre) = true ∧
         ∀ q, q ∈ group_of c pre → q ∈ b ∧ q_shard q = s_id c ∧ is_kill q = false.
Proof.
  intros (pre & Hb & Hnk & _ & Hgrp & _)%allowed_batch_inv Hc.
  exists pre. split; [done|]. split; [by apply Hgrp|].
  intros q Hq. unfold group_of in Hq. apply elem_of_list_filter in Hq as [Hs Hq].
  rewrite Forall_forall in Hnk. split; [|split; [done|by apply Hnk]].
  rewrite Hb. apply elem_of_app. by left.
Qed.

(* every member of the restore set gets its restore request *)
Lemma sched_restore_complete b c n :
  allowed P C (OBatch b) = true → c ∈ entries C → n ∈ restore_set P C c →
  ∃ q, q ∈ b ∧ is_restore q = true ∧ q_shard q = s_id c ∧ q_inst q = r_id n ∧ q_raft q = r_addr n.
Proof.
  intros Hal Hc Hn.
  destruct (group_in_batch b c Hal Hc) as (pre & Hb & Hg & Hin).
  assert (has_restore P C c = true) as Hh.
  { unfold has_restore. destruct (restore_set P C c); [by apply elem_of_nil in Hn|done]. }
  apply group_allowed_inv in Hg as [(_ & sd & _ & Hok)|(Hh' & _)]; [|congruence].
  pose proof Hok as Hok'. unfold restore_group_ok in Hok'. apply bool_decide_eq_true in Hok' as [Hperm _].
  assert ((r_id n, r_addr n) ∈ (λ q, (q_inst q, q_raft q)) <$> group_of c pre) as Hex.
  { rewrite Hperm. apply elem_of_list_fmap. by exists n. }
  apply elem_of_list_fmap in Hex as (q & Heq & Hq). injection Heq as Hi Hr.
  destruct (Hin q Hq) as (Hqb & Hs & _).
  destruct (restore_group_all P C c _ _ q Hok Hq) as [Hres _].
  exists q. done.
Qed.

(* a shard that is not restored and whose repair branch is DELETE / join-CREATE / ADD gets that request *)
Lemma sched_delete_complete b c :
  allowed P C (OBatch b) = true → c ∈ entries C → has_restore P C c = false → repair_action P C c = ADelete →
  ∃ q, q ∈ b ∧ q_shard q = s_id c ∧ delete_req_ok P C c q = true.
Proof.
  intros Hal Hc Hh Hact. destruct (group_in_batch b c Hal Hc) as (pre & Hb & Hg & Hin).
  apply group_allowed_inv in Hg as [(Hh' & _)|(_ & Hcases)]; [congruence|].
  destruct Hcases as [[Ha _]|[(_ & q & Hq & Hok)|[(sd & Ha & _)|(Ha & _)]]]; try congruence.
  exists q. destruct (Hin q) as (? & ? & _); [rewrite Hq; apply elem_of_list_here|]. done.
Qed.

Lemma sched_join_complete b c sd :
  allowed P C (OBatch b) = true → c ∈ entries C → has_restore P C c = false → repair_action P C c = ACreate sd →
  ∃ q, q ∈ b ∧ q_shard q = s_id c ∧ join_req_ok P C c (sd_app sd) q = true.
Proof.
  intros Hal Hc Hh Hact. destruct (group_in_batch b c Hal Hc) as (pre & Hb & Hg & Hin).
  apply group_allowed_inv in Hg as [(Hh' & _)|(_ & Hcases)]; [congruence|].
  destruct Hcases as [[Ha _]|[(Ha & _)|[(sd' & Ha & q & Hq & Hok)|(Ha & _)]]]; try congruence.
  rewrite Hact in Ha. injection Ha as <-.
  exists q. destruct (Hin q) as (? & ? & _); [rewrite Hq; apply elem_of_list_here|]. done.
Qed.

Lemma sched_add_complete b c :
  allowed P C (OBatch b) = true → c ∈ entries C → has_restore P C c = false → repair_action P C c = AAdd →
  ∃ q, q ∈ b ∧ q_shard q = s_id c ∧ add_req_ok P C c q = true.
Proof.
  intros Hal Hc Hh Hact. destruct (group_in_batch b c Hal Hc) as (pre & Hb & Hg & Hin).
  apply group_allowed_inv in Hg as [(Hh' & _)|(_ & Hcases)]; [congruence|].
  destruct Hcases as [[Ha _]|[(Ha & _)|[(sd' & Ha & _)|(_ & q & Hq & Hok)]]]; try congruence.
  exists q. destruct (Hin q) as (? & ? & _); [rewrite Hq; apply elem_of_list_here|]. done.
Qed.

(* a shard with nothing to do gets no request (other than KILLs of stray replicas) *)
Lemma sched_quiet b c q :
  allowed P C (OBatch b) = true → c ∈ entries C → has_restore P C c = false → repair_action P C c = ANone →
  q ∈ b → q_shard q = s_id c → is_kill q = true.
Proof.
  intros Hal Hc Hh Hact Hq Hs. destruct (is_kill q) eqn:Hk; [done|]. exfalso.
  destruct (group_in_batch b c Hal Hc) as (pre & Hb & Hg & Hin).
  apply group_allowed_inv in Hg as [(Hh' & _)|(_ & Hcases)]; [congruence|].
  destruct Hcases as [[_ Hnil]|[(Ha & _)|[(sd' & Ha & _)|(Ha & _)]]]; try congruence.
  rewrite Hb in Hq. apply elem_of_app in Hq as [Hq|Hq].
  - assert (q ∈ group_of c pre) as Hq' by (unfold group_of; apply elem_of_list_filter; done).
    rewrite Hnil in Hq'. by apply elem_of_nil in Hq'.
  - apply kills_are_kill in Hq. congruence.
Qed.

(* when the round is dropped / panics *)
Lemma sched_error_inv : allowed P C OError = true → ∃ c, c ∈ entries C ∧ err_entry P C c = true.
Proof.
  cbn [allowed]. intros [_ Hex]%andb_true_iff. apply existsb_exists in Hex as (c & Hc%elem_of_list_In & He). by exists c.
Qed.
End Complete.

(** * decidability of [ctx_wf] (for closed examples) *)
Global Instance shard_wf_dec k c : Decision (shard_wf k c).
Proof. unfold shard_wf. apply _. Defined.
Global Instance ctx_wf_dec C : Decision (ctx_wf C).
Proof. unfold ctx_wf. apply _. Defined.
