(** Proofs behind C05 (failure detection): logical time, no-underflow invariant,
    the replica classes as a partition, their closed form in terms of the report
    history, availability = strict majority, host eligibility.
    Model: theories/DB.v.  Generic run lemmas: DBProofs.v. *)
From stdpp Require Import gmap list numbers.
From Coq Require Import ZifyN ZifyNat ZifyBool Lia.
From Drummer.Model Require Import DB DBClassesRun.
From Drummer.Proofs Require Import DBProofs.
Local Open Scope N_scope.
Arguments kv_update : simpl never.

(** * 0. Frame facts *)
Lemma report_result_fields d r view' kill' :
  let d' := report_result d r view' kill' in
  d_tick d' = d_tick d /\ d_failed d' = d_failed d /\ d_view d' = view' /\
  d_hosts d' = sync_shard_info (host_update (d_hosts d) r (d_tick d)) view' /\
  d_info d' = <[rp_addr r := r]> (d_info d).
Proof.
  unfold report_result, on_updated_shard_info, pickup. cbn.
  repeat (match goal with |- context [if ?b then _ else _] => destruct b end ||
          match goal with |- context [match ?x with Some _ => _ | None => _ end] => destruct x end);
    cbn; repeat split; reflexivity.
Qed.

(* a command other than an effective report leaves view, hosts and stored reports alone *)
Definition is_tick (c : cmd) : bool := match c with CTick => true | _ => false end.
Definition is_report (c : cmd) : bool := match c with CReport _ => true | _ => false end.

Lemma step_nonreport P d c d' :
  next P d c = Some d' -> is_report c = false ->
  d_view d' = d_view d /\ d_hosts d' = d_hosts d /\ d_info d' = d_info d.
Proof.
  intros Hn Hr. apply next_cases in Hn as [[_ ->]|[Hf Hc]]; [done|].
  destruct c as [|kv|t sd|r|qs|]; try done.
  - subst d'. unfold tick_result. destruct (_ && _); done.
  - destruct Hc as [v Hc]. apply kv_update_frame in Hc. tauto.
  - destruct Hc as [v Hc].
    apply try_create_shard_spec in Hc as (_ & _ & _ & [(_ & _ & ->)|[(_ & _ & _ & ->)|(_ & _ & _ & ->)]]); done.
  - destruct Hc as [v Hc].
    destruct (requests_cases P d qs) as [[_ E]|[_ [(_ & _ & E)|[(_ & _ & E)|(_ & E)]]]]; rewrite E in Hc; try done;
      injection Hc as <- _; done.
Qed.

(** * 1. Logical time *)
Lemma step_time P d c d' :
  next P d c = Some d' ->
  d_tick d' = if is_tick c && negb (d_failed d) then d_tick d + p_step P else d_tick d.
Proof.
  intros Hn. apply next_cases in Hn as [[Hf ->]|[Hf Hc]]; [rewrite Hf, andb_false_r; done|].
  rewrite Hf. destruct c as [|kv|t sd|r|qs|]; cbn [is_tick negb andb]; try done.
  - subst d'. unfold tick_result. destruct (_ && _); done.
  - destruct Hc as [v Hc]. apply kv_update_frame in Hc. tauto.
  - destruct Hc as [v Hc].
    apply try_create_shard_spec in Hc as (_ & _ & _ & [(_ & _ & ->)|[(_ & _ & _ & ->)|(_ & _ & _ & ->)]]); done.
  - destruct Hc as (view' & kill' & _ & ->). apply report_result_fields.
  - destruct Hc as [v Hc].
    destruct (requests_cases P d qs) as [[_ E]|[_ [(_ & _ & E)|[(_ & _ & E)|(_ & E)]]]]; rewrite E in Hc; try done;
      injection Hc as <- _; done.
Qed.

(* the statement of C05_time for one step, in words: only a TICK changes the time, by exactly one step *)
Lemma step_time_cases P d c d' :
  next P d c = Some d' ->
  (c = CTick /\ d_failed d = false /\ d_tick d' = d_tick d + p_step P) \/
  ((c <> CTick \/ d_failed d = true) /\ d_tick d' = d_tick d).
Proof.
  intros Hn. pose proof (step_time P d c d' Hn) as Ht.
  destruct c; cbn [is_tick andb] in Ht; try (right; split; [left; discriminate|exact Ht]).
  destruct (d_failed d) eqn:Hf; cbn [negb] in Ht.
  - right. split; [by right|exact Ht].
  - left. done.
Qed.

Lemma step_time_mono P d c d' : next P d c = Some d' -> d_tick d <= d_tick d'.
Proof. intros Hn. rewrite (step_time P d c d' Hn). destruct (_ && _); lia. Qed.

Lemma run_time_mono P cs d d' : run_from P (Live d) cs = Live d' -> d_tick d <= d_tick d'.
Proof.
  apply (run_live_ind P (λ a b, d_tick a <= d_tick b)).
  - intros; lia.
  - intros a b c Hab Hbc; lia.
  - intros a c b. apply step_time_mono.
Qed.

(* the failed latch: nothing changes any more *)
Lemma run_from_failed P cs d : d_failed d = true -> run_from P (Live d) cs = Live d.
Proof.
  intros Hf. induction cs as [|c cs IH]; [done|].
  rewrite run_from_cons. unfold rstep. rewrite (step_failed P d c Hf). exact IH.
Qed.

Lemma step_failed_mono P d c d' : next P d c = Some d' -> d_failed d = true -> d_failed d' = true.
Proof. intros Hn Hf. unfold next in Hn. rewrite (step_failed P d c Hf) in Hn. by injection Hn as <-. Qed.

Definition count_ticks (cs : list cmd) : nat := length (filter (λ c, is_tick c = true) cs).

Lemma count_ticks_cons c cs : count_ticks (c :: cs) = ((if is_tick c then 1 else 0) + count_ticks cs)%nat.
Proof. unfold count_ticks. rewrite filter_cons. destruct c; cbn; try done. Qed.

Lemma run_from_time_closed P cs d d' :
  run_from P (Live d) cs = Live d' ->
  d_tick d' <= d_tick d + p_step P * N.of_nat (count_ticks cs) /\
  (d_failed d' = false -> d_tick d' = d_tick d + p_step P * N.of_nat (count_ticks cs)).
Proof.
  revert d. induction cs as [|c cs IH]; intros d Hrun.
  - cbn in Hrun. injection Hrun as <-. unfold count_ticks. cbn. split; [lia|intros _; lia].
  - rewrite run_from_cons, rstep_live in Hrun.
    destruct (next P d c) as [d1|] eqn:E; [|rewrite run_from_dead in Hrun; discriminate].
    destruct (IH d1 Hrun) as [IH1 IH2]. rewrite count_ticks_cons.
    pose proof (step_time P d c d1 E) as Ht.
    destruct (d_failed d) eqn:Hf.
    + (* latched: d1 = d and the run stays there *)
      assert (d_failed d1 = true) as Hf1 by (eapply step_failed_mono; eauto).
      rewrite (run_from_failed P cs d1 Hf1) in Hrun. injection Hrun as <-.
      cbn [negb] in Ht. rewrite andb_false_r in Ht. split; [lia|]. intros Hc. congruence.
    + cbn [negb] in Ht. rewrite andb_true_r in Ht. destruct (is_tick c); cbn beta iota in *; (split; [lia|intros Hc; specialize (IH2 Hc); lia]).
Qed.

Lemma run_time_closed P cs d :
  run P cs = Live d ->
  d_tick d <= p_step P * N.of_nat (count_ticks cs) /\
  (d_failed d = false -> d_tick d = p_step P * N.of_nat (count_ticks cs)).
Proof. intros Hrun. apply run_from_time_closed in Hrun. cbn in Hrun. lia. Qed.

(** * 3. The classes are a partition (pure: any replica record, any time) *)
Lemma class_partition P n now :
  (replica_ok P n now = true /\ replica_failed P n now = false /\ replica_waiting P n now = false) \/
  (replica_ok P n now = false /\ replica_failed P n now = true /\ replica_waiting P n now = false) \/
  (replica_ok P n now = false /\ replica_failed P n now = false /\ replica_waiting P n now = true).
Proof.
  unfold replica_ok, replica_waiting. destruct (replica_failed P n now), (r_tick n =? 0); cbn; tauto.
Qed.

(* the classes in terms of the two stored times only *)
Lemma class_of_times P n now :
  (replica_ok P n now = true <-> 0 < r_tick n /\ now - r_tick n <= p_ttl P) /\
  (replica_failed P n now = true <-> (0 < r_tick n /\ p_ttl P < now - r_tick n) \/ (r_tick n = 0 /\ r_first n = 0)) /\
  (replica_waiting P n now = true <-> r_tick n = 0 /\ 0 < r_first n).
Proof.
  unfold replica_ok, replica_waiting, replica_failed, entity_failed.
  destruct (r_tick n =? 0) eqn:E1; [apply N.eqb_eq in E1|apply N.eqb_neq in E1].
  - destruct (r_first n =? 0) eqn:E2; [apply N.eqb_eq in E2|apply N.eqb_neq in E2]; cbn; repeat split; try intros; try lia.
  - destruct (p_ttl P <? now - r_tick n) eqn:E3; [apply N.ltb_lt in E3|apply N.ltb_ge in E3]; cbn; repeat split; try intros; try lia.
Qed.

Lemma filter3_perm {A} (f g h : A -> bool) (l : list A) :
  (forall x, (f x = true /\ g x = false /\ h x = false) \/ (f x = false /\ g x = true /\ h x = false) \/
             (f x = false /\ g x = false /\ h x = true)) ->
  l ≡ₚ filter (λ x, f x = true) l ++ filter (λ x, g x = true) l ++ filter (λ x, h x = true) l.
Proof.
  intros H. induction l as [|x l IH]; [done|].
  rewrite !filter_cons.
  destruct (H x) as [(-> & -> & ->)|[(-> & -> & ->)|(-> & -> & ->)]];
    repeat (destruct (decide _) as [?|?]; try done); cbn.
  - by constructor.
  - rewrite IH at 1. by rewrite Permutation_middle.
  - etrans; [apply Permutation_skip, IH|]. rewrite !app_assoc. apply Permutation_middle.
Qed.

Lemma classes_perm P c now :
  mvals (s_reps c) ≡ₚ ok_replicas P c now ++ failed_replicas P c now ++ waiting_replicas P c now.
Proof.
  unfold ok_replicas, failed_replicas, waiting_replicas.
  apply (filter3_perm (λ n, replica_ok P n now) (λ n, replica_failed P n now) (λ n, replica_waiting P n now)).
  intros n. apply class_partition.
Qed.

Lemma mvals_length {A} (m : gmap N A) : length (mvals m) = size m.
Proof. unfold mvals. rewrite fmap_length. reflexivity. Qed.

Lemma classes_length P c now :
  (length (ok_replicas P c now) + length (failed_replicas P c now) + length (waiting_replicas P c now))%nat = size (s_reps c).
Proof.
  rewrite <- mvals_length. rewrite (Permutation_length (classes_perm P c now)). rewrite !app_length. lia.
Qed.

(** * 5. Availability = strict majority of healthy members *)
Lemma quorum_majority (n k : nat) : (quorum_of n ≤ k ↔ n < 2 * k)%nat.
Proof.
  unfold quorum_of. pose proof (Nat.div_mod n 2 ltac:(lia)) as Hd.
  pose proof (Nat.mod_upper_bound n 2 ltac:(lia)) as Hm. lia.
Qed.

Lemma shard_available_iff P c now :
  shard_available P c now = true <-> (size (s_reps c) < 2 * length (ok_replicas P c now))%nat.
Proof.
  unfold shard_available. rewrite bool_decide_eq_true. apply quorum_majority.
Qed.

Lemma to_shard_state_available P d sid c :
  d_view d !! sid = Some c ->
  exists st, to_shard_state P d sid = Some st /\ ss_id st = s_id c /\
    (ss_unavailable st = false <-> (size (s_reps c) < 2 * length (ok_replicas P c (d_tick d)))%nat) /\
    ss_unavailable st = negb (shard_available P c (d_tick d)).
Proof.
  intros Hv. unfold to_shard_state. rewrite Hv. eexists. split; [reflexivity|]. cbn [ss_id ss_unavailable].
  split; [done|]. split; [|done].
  rewrite <- shard_available_iff. destruct (shard_available P c (d_tick d)); cbn; split; congruence.
Qed.

Lemma to_shard_state_none P d sid : d_view d !! sid = None -> to_shard_state P d sid = None.
Proof. intros Hv. unfold to_shard_state. by rewrite Hv. Qed.

(* healthy members in terms of the stored times *)
Lemma ok_replicas_spec P c now n :
  n ∈ ok_replicas P c now <-> n ∈ mvals (s_reps c) /\ 0 < r_tick n /\ now - r_tick n <= p_ttl P.
Proof.
  unfold ok_replicas. rewrite elem_of_list_filter. rewrite (proj1 (class_of_times P n now)). tauto.
Qed.

(** * 6. Host eligibility *)
(* [host_live] (filter.go liveFilter with gap = nodeHostTTL: currentTick - Tick < gap) is defined in
   theories/DBClassesRun.v, where the correspondence check evaluates it *)

Lemma host_available_iff P h now : host_available P h now = true <-> now - h_tick h <= p_ttl P.
Proof.
  unfold host_available, entity_failed.
  destruct (p_ttl P <? now - h_tick h) eqn:E; [apply N.ltb_lt in E|apply N.ltb_ge in E]; cbn; split; try intros; try lia; done.
Qed.

Lemma host_live_iff P h now : host_live P h now = true <-> now - h_tick h < p_ttl P.
Proof. unfold host_live. apply N.ltb_lt. Qed.

Lemma host_eligibility P h now :
  (host_available P h now = true <-> now - h_tick h <= p_ttl P) /\
  (host_live P h now = true <-> now - h_tick h < p_ttl P) /\
  (p_ttl P < now - h_tick h -> host_live P h now = false /\ host_available P h now = false) /\
  (now - h_tick h < p_ttl P -> host_live P h now = true /\ host_available P h now = true) /\
  (host_live P h now = true -> host_available P h now = true).
Proof.
  pose proof (host_available_iff P h now) as Ha. pose proof (host_live_iff P h now) as Hl.
  split; [exact Ha|]. split; [exact Hl|].
  destruct (host_available P h now), (host_live P h now); repeat split; try intros; try done; try lia.
  all: try (exfalso; lia).
Qed.

(** * 2. What one report does to the two stored times of one member *)
Definition rec_of (view : gmap N shard) (s n : N) : option replica := view !! s ≫= λ c, s_reps c !! n.
Definition tm (r : replica) : N * N := (r_first r, r_tick r).
Definition times_of (view : gmap N shard) (s n : N) : option (N * N) := tm <$> rec_of view s n.
Definition retick (t : N) (p : N * N) : N * N := (p.1, t).

(* the entry names replica n of shard s (whatever its flags, whoever sends it) *)
Definition entry_names (s n : N) (ci : shard_info) : bool := (si_shard ci =? s) && (si_replica ci =? n).
(* the entry can change the membership of shard s: complete and not pending *)
Definition complete_for (s : N) (ci : shard_info) : bool := (si_shard ci =? s) && negb (si_pending ci) && negb (si_incomplete ci).
Definition n_complete (s : N) (cis : list shard_info) : nat := length (filter (λ ci, complete_for s ci = true) cis).
Definition report_names (s n : N) (r : report) : bool := existsb (entry_names s n) (rp_infos r).

Lemma rec_of_Some view s n r :
  rec_of view s n = Some r <-> exists c, view !! s = Some c /\ s_reps c !! n = Some r.
Proof.
  unfold rec_of. destruct (view !! s) as [c|]; cbn.
  - split; [intros H; by exists c|intros (c' & [= <-] & H); done].
  - split; [done|intros (c' & [=] & _)].
Qed.

Lemma rec_of_insert view s' c' s n :
  rec_of (<[s' := c']> view) s n = if decide (s' = s) then s_reps c' !! n else rec_of view s n.
Proof.
  unfold rec_of. destruct (decide (s' = s)) as [->|Hne]; [by rewrite lookup_insert|by rewrite lookup_insert_ne].
Qed.

Lemma new_reps_lookup sid t (m : gmap N N) n r :
  map_imap (λ nid a, Some (new_replica sid nid a t)) m !! n = Some r -> tm r = (t, 0).
Proof. rewrite map_lookup_imap. destruct (m !! n) as [a|]; cbn; [intros [= <-]; done|done]. Qed.

Lemma get_shard_times ci t n r : s_reps (get_shard ci t) !! n = Some r -> tm r = (t, 0).
Proof.
  unfold get_shard. cbn [s_reps].
  set (reps := map_imap _ (si_members ci)).
  destruct (reps !! si_replica ci) as [m|] eqn:Em; [|apply new_reps_lookup].
  destruct (decide (si_replica ci = n)) as [<-|Hne].
  - rewrite lookup_insert. intros [= <-]. apply new_reps_lookup in Em. exact Em.
  - rewrite lookup_insert_ne by done. apply new_reps_lookup.
Qed.

(* syncShard on one member id: kept untouched, dropped, or freshly announced *)
Lemma sync_shard_times c ci t c' b n :
  sync_shard c ci t = Some (c', b) ->
  match s_reps c !! n, s_reps c' !! n with
  | _, None => True
  | Some r, Some r' => r' = r
  | None, Some r' => tm r' = (t, 0)
  end.
Proof.
  unfold sync_shard. cbv zeta.
  destruct (si_cci ci <? s_cci c).
  { intros [= <- <-]. destruct (s_reps c !! n); done. }
  destruct (_ && _); [done|].
  destruct (negb _); [done|].
  destruct (bool_decide (NoDup _)); [|done].
  intros [= <- <-]. cbn [s_reps].
  destruct (s_reps c !! n) as [r|] eqn:E1.
  - match goal with |- match ?x with Some _ => _ | None => _ end => destruct x as [r'|] eqn:E2 end; [|done].
    apply lookup_union_Some_raw in E2 as [E2|[_ E2]].
    + apply map_filter_lookup_Some in E2 as [E2 _]. congruence.
    + rewrite map_lookup_imap in E2. rewrite E1 in E2. destruct (si_members ci !! n); done.
  - match goal with |- match ?x with Some _ => _ | None => _ end => destruct x as [r'|] eqn:E2 end; [|done].
    apply lookup_union_Some_raw in E2 as [E2|[_ E2]].
    + apply map_filter_lookup_Some in E2 as [E2 _]. congruence.
    + rewrite map_lookup_imap in E2. rewrite E1 in E2. destruct (si_members ci !! n); cbn in E2; [|done].
      injection E2 as <-. done.
Qed.

Lemma update_entry_times t v k ci v' k' s n :
  update_entry t (v, k) ci = Some (v', k') ->
  (complete_for s ci = false -> rec_of v' s n = rec_of v s n) /\
  match rec_of v s n, rec_of v' s n with
  | _, None => True
  | Some r, Some r' => r' = r
  | None, Some r' => tm r' = (t, 0)
  end.
Proof.
  assert (Hsame : v' = v -> (complete_for s ci = false -> rec_of v' s n = rec_of v s n) /\
     match rec_of v s n, rec_of v' s n with | _, None => True | Some r, Some r' => r' = r | None, Some r' => tm r' = (t, 0) end).
  { intros ->. split; [done|]. destruct (rec_of v s n); done. }
  assert (Hpartial : match v !! si_shard ci with
    | Some ec => if negb (bool_decide (size (s_reps ec) = 0%nat)) && (0 <? s_cci ec) && kill_required ec ci
                 then Some (v, k ++ [ci]) else Some (v, k)
    | None => Some (v, k) end = Some (v', k') -> v' = v).
  { destruct (v !! si_shard ci) as [ec|]; [destruct (_ && _)|]; by intros [= <- _]. }
  unfold update_entry. cbv zeta.
  destruct (si_pending ci) eqn:Ep; [intros H; apply Hsame, Hpartial, H|].
  destruct (si_incomplete ci) eqn:Ei; cbn [negb]; [intros H; apply Hsame, Hpartial, H|].
  clear Hsame Hpartial.
  destruct (v !! si_shard ci) as [ec|] eqn:Ev.
  - destruct (sync_shard ec ci t) as [[ec' rej]|] eqn:Es; [|done].
    intros H. assert (v' = <[si_shard ci := ec']> v) as -> by (destruct (_ && _); by injection H as <- _). clear H.
    rewrite rec_of_insert. destruct (decide (si_shard ci = s)) as [Heq|Hne].
    + split.
      * unfold complete_for. rewrite Ep, Ei. apply N.eqb_eq in Heq. rewrite Heq. done.
      * assert (rec_of v s n = s_reps ec !! n) as -> by (unfold rec_of; rewrite <- Heq, Ev; done).
        eapply sync_shard_times; exact Es.
    + split; [done|]. destruct (rec_of v s n); done.
  - intros [= <- <-]. rewrite rec_of_insert. destruct (decide (si_shard ci = s)) as [Heq|Hne].
    + split.
      * unfold complete_for. rewrite Ep, Ei. apply N.eqb_eq in Heq. rewrite Heq. done.
      * assert (rec_of v s n = None) as -> by (unfold rec_of; rewrite <- Heq, Ev; done).
        destruct (s_reps (get_shard ci t) !! n) as [r'|] eqn:E; [|done]. eapply get_shard_times; exact E.
    + split; [done|]. destruct (rec_of v s n); done.
Qed.

Lemma n_complete_cons s ci cis :
  n_complete s (ci :: cis) = ((if complete_for s ci then 1 else 0) + n_complete s cis)%nat.
Proof.
  unfold n_complete. rewrite filter_cons. destruct (complete_for s ci); [rewrite decide_True by done|rewrite decide_False by done]; done.
Qed.

(* all entries of one report: a member that was there before is either kept with its times,
   or re-announced, which needs at least two membership-changing entries for the shard *)
Lemma update_entries_times t cis : forall v k v' k' s n,
  update_entries t (v, k) cis = Some (v', k') ->
  match rec_of v s n, rec_of v' s n with
  | _, None => True
  | Some r, Some r' => r' = r \/ (tm r' = (t, 0) /\ (2 <= n_complete s cis)%nat)
  | None, Some r' => tm r' = (t, 0) /\ (1 <= n_complete s cis)%nat
  end.
Proof.
  induction cis as [|ci cis IH]; intros v k v' k' s n H.
  - cbn in H. injection H as <- <-. destruct (rec_of v s n); auto.
  - cbn [update_entries] in H. destruct (update_entry t (v, k) ci) as [[v1 k1]|] eqn:E1; [|done].
    specialize (IH v1 k1 v' k' s n H). apply (update_entry_times t v k ci v1 k1 s n) in E1 as [Hfr Hm].
    rewrite n_complete_cons. destruct (complete_for s ci).
    + clear Hfr. destruct (rec_of v s n) as [r|], (rec_of v1 s n) as [r1|], (rec_of v' s n) as [r'|]; try done.
      * subst r1. destruct IH as [->|[Ht Hc]]; [by left|right; split; [done|lia]].
      * right. destruct IH as [Ht Hc]. split; [done|lia].
      * destruct IH as [->|[Ht Hc]]; (split; [done|lia]).
      * destruct IH as [Ht Hc]. split; [done|lia].
    + rewrite <- (Hfr eq_refl). exact IH.
Qed.

Lemma touch_times t v ci s n :
  times_of (touch_replica t v ci) s n = if entry_names s n ci then retick t <$> times_of v s n else times_of v s n.
Proof.
  unfold touch_replica, entry_names, times_of.
  destruct (si_shard ci =? s) eqn:Es; [apply N.eqb_eq in Es|apply N.eqb_neq in Es]; cbn [andb].
  - destruct (v !! si_shard ci) as [ec|] eqn:Ev.
    + assert (rec_of v s n = s_reps ec !! n) as Hr by (unfold rec_of; rewrite <- Es, Ev; done).
      destruct (s_reps ec !! si_replica ci) as [m|] eqn:Em.
      * rewrite rec_of_insert, decide_True by done. cbn [s_reps]. rewrite Hr.
        destruct (si_replica ci =? n) eqn:En; [apply N.eqb_eq in En|apply N.eqb_neq in En].
        -- rewrite <- En, lookup_insert, Em. reflexivity.
        -- by rewrite lookup_insert_ne.
      * destruct (si_replica ci =? n) eqn:En; [apply N.eqb_eq in En|done].
        rewrite Hr, <- En, Em. reflexivity.
    + assert (rec_of v s n = None) as -> by (unfold rec_of; rewrite <- Es, Ev; done).
      destruct (si_replica ci =? n); reflexivity.
  - destruct (v !! si_shard ci) as [ec|] eqn:Ev; [|done].
    destruct (s_reps ec !! si_replica ci) as [m|]; [|done].
    rewrite rec_of_insert, decide_False by done. done.
Qed.

Lemma update_node_tick_times t cis : forall v s n,
  times_of (update_node_tick t v cis) s n =
  if existsb (entry_names s n) cis then retick t <$> times_of v s n else times_of v s n.
Proof.
  unfold update_node_tick. induction cis as [|ci cis IH]; intros v s n; [done|].
  cbn [foldl existsb]. rewrite IH, touch_times.
  destruct (entry_names s n ci), (existsb (entry_names s n) cis); cbn [orb]; try done.
  destruct (times_of v s n); done.
Qed.

Lemma leader_entry_times v ci s n : times_of (leader_entry v ci) s n = times_of v s n.
Proof.
  unfold leader_entry. destruct (v !! si_shard ci) as [c|] eqn:Ev; [|done].
  destruct (si_cci ci <? s_cci c); [done|].
  destruct (s_reps c !! si_replica ci) as [m|] eqn:Em; [|done].
  assert (Hr : forall reps', (forall k, tm <$> reps' !! k = tm <$> s_reps c !! k) ->
     times_of (<[si_shard ci := mkShard (s_id c) (s_cci c) reps']> v) s n = times_of v s n).
  { intros reps' Hk. unfold times_of. rewrite rec_of_insert. destruct (decide (si_shard ci = s)) as [Heq|Hne]; [|done].
    cbn [s_reps]. rewrite Hk. unfold rec_of. rewrite <- Heq, Ev. done. }
  destruct (negb (si_leader ci) && r_leader m).
  { apply Hr. intros k. destruct (decide (si_replica ci = k)) as [<-|Hne]; [by rewrite lookup_insert, Em|by rewrite lookup_insert_ne]. }
  destruct (si_leader ci && negb (r_leader m)); [|done].
  apply Hr. intros k. destruct (decide (si_replica ci = k)) as [<-|Hne].
  - by rewrite lookup_insert, Em.
  - rewrite lookup_insert_ne by done. rewrite lookup_fmap. destruct (s_reps c !! k); done.
Qed.

Lemma sync_leader_info_times cis : forall v s n, times_of (sync_leader_info v cis) s n = times_of v s n.
Proof.
  unfold sync_leader_info. induction cis as [|ci cis IH]; intros v s n; [done|].
  cbn [foldl]. rewrite IH. apply leader_entry_times.
Qed.

(* the whole view update of one report stamped t, seen from one member id *)
Lemma view_update_times v kill r t v' kill' s n :
  view_update v kill r t = Some (v', kill') ->
  match times_of v s n, times_of v' s n with
  | _, None => True
  | Some p, Some p' =>
      p' = (if report_names s n r then retick t p else p) \/
      (p' = (t, if report_names s n r then t else 0) /\ (2 <= n_complete s (rp_infos r))%nat)
  | None, Some p' => p' = (t, if report_names s n r then t else 0) /\ (1 <= n_complete s (rp_infos r))%nat
  end.
Proof.
  unfold view_update. destruct (update_entries t (v, []) (rp_infos r)) as [[v1 tokill]|] eqn:E; [|done].
  intros [= <- _]. rewrite sync_leader_info_times, update_node_tick_times. fold (report_names s n r).
  pose proof (update_entries_times t (rp_infos r) v [] v1 tokill s n E) as H.
  unfold times_of.
  destruct (rec_of v s n) as [r0|], (rec_of v1 s n) as [r1|], (report_names s n r);
    cbn [fmap option_fmap option_map]; try done.
  - destruct H as [->|[Ht Hc]]; [by left|]. right. split; [|done]. unfold retick. rewrite Ht. done.
  - destruct H as [->|[Ht Hc]]; [by left|]. right. split; [|done]. done.
  - destruct H as [Ht Hc]. split; [|done]. unfold retick. rewrite Ht. done.
Qed.

(** hosts: the reporting address gets the stamp, nobody else changes *)
Lemma host_update_tick hosts r t a h' :
  host_update hosts r t !! a = Some h' ->
  if decide (rp_addr r = a) then h_tick h' = t else hosts !! a = Some h'.
Proof.
  unfold host_update. destruct (decide (rp_addr r = a)) as [<-|Hne].
  - destruct (hosts !! rp_addr r); rewrite lookup_insert; intros [= <-]; done.
  - destruct (hosts !! rp_addr r); rewrite lookup_insert_ne by done; done.
Qed.

Lemma host_update_is_Some hosts r t a :
  is_Some (host_update hosts r t !! a) <-> rp_addr r = a \/ is_Some (hosts !! a).
Proof.
  unfold host_update. destruct (decide (rp_addr r = a)) as [<-|Hne].
  - destruct (hosts !! rp_addr r) eqn:E; rewrite lookup_insert; split; eauto.
  - destruct (hosts !! rp_addr r); (rewrite lookup_insert_ne by done; split; [eauto|intros [?|?]; done]).
Qed.

Lemma sync_shard_info_tick hosts view a :
  h_tick <$> sync_shard_info hosts view !! a = h_tick <$> hosts !! a.
Proof. unfold sync_shard_info. rewrite lookup_fmap. destruct (hosts !! a); done. Qed.

(* one effective report, hosts side *)
Lemma report_hosts_tick d r view' kill' a :
  h_tick <$> d_hosts (report_result d r view' kill') !! a =
  if decide (rp_addr r = a) then Some (d_tick d) else h_tick <$> d_hosts d !! a.
Proof.
  destruct (report_result_fields d r view' kill') as (_ & _ & _ & -> & _).
  rewrite sync_shard_info_tick.
  destruct (host_update (d_hosts d) r (d_tick d) !! a) as [h'|] eqn:E.
  - apply host_update_tick in E. cbn [fmap option_fmap option_map]. destruct (decide (rp_addr r = a)); [by rewrite E|by rewrite E].
  - destruct (decide (rp_addr r = a)) as [Heq|Hne].
    + exfalso. assert (is_Some (host_update (d_hosts d) r (d_tick d) !! a)) as [? ?] by (apply host_update_is_Some; by left). congruence.
    + destruct (d_hosts d !! a) eqn:E2; [|done]. exfalso.
      assert (is_Some (host_update (d_hosts d) r (d_tick d) !! a)) as [? ?] by (apply host_update_is_Some; right; by eexists). congruence.
Qed.

(** * 2b. No underflow: every stored time is at most the DB time *)
Definition time_ok (d : db) : Prop :=
  (forall s c n r, d_view d !! s = Some c -> s_reps c !! n = Some r -> r_tick r <= d_tick d /\ r_first r <= d_tick d) /\
  (forall a h, d_hosts d !! a = Some h -> h_tick h <= d_tick d) /\
  (forall a r, d_info d !! a = Some r -> rp_last_tick r <= d_tick d).

Lemma time_ok_init : time_ok db_init.
Proof.
  unfold time_ok, db_init. cbn [d_view d_hosts d_info]. split; [|split].
  - intros s c n r H. by rewrite lookup_empty in H.
  - intros a h H. by rewrite lookup_empty in H.
  - intros a r H. by rewrite lookup_empty in H.
Qed.

Lemma step_time_ok P d c d' : next P d c = Some d' -> time_ok d -> time_ok d'.
Proof.
  intros Hn (Hv & Hh & Hi). pose proof (step_time_mono P d c d' Hn) as Hmono. unfold time_ok.
  destruct (is_report c) eqn:Hr.
  2:{ destruct (step_nonreport P d c d' Hn Hr) as (-> & -> & ->).
      repeat split; intros.
      - destruct (Hv _ _ _ _ H H0). lia.
      - destruct (Hv _ _ _ _ H H0). lia.
      - specialize (Hh _ _ H). lia.
      - specialize (Hi _ _ H). lia. }
  destruct c as [| | |r0| |]; try done. clear Hr.
  apply next_cases in Hn as [[_ ->]|[Hf (view' & kill' & Hvu & ->)]]; [done|].
  destruct (report_result_fields d (stamp d r0) view' kill') as (Et & _ & Ev & _ & Ei).
  split; [|split].
  - intros s c n r Hs Hn. rewrite Ev in Hs. rewrite Et.
    assert (rec_of view' s n = Some r) as Hrec by (apply rec_of_Some; eauto).
    pose proof (view_update_times _ _ _ _ _ _ s n Hvu) as H. unfold times_of in H. rewrite Hrec in H.
    cbn [fmap option_fmap option_map] in H.
    destruct (rec_of (d_view d) s n) as [r1|] eqn:E1; cbn [fmap option_fmap option_map] in H.
    + apply rec_of_Some in E1 as (c1 & Hc1 & Hn1). destruct (Hv _ _ _ _ Hc1 Hn1) as [H1 H2].
      unfold tm, retick in H. destruct (report_names s n (stamp d r0));
        destruct H as [H|[H _]]; injection H as -> ->; cbn [fst snd]; lia.
    + unfold tm in H. destruct (report_names s n (stamp d r0)); destruct H as [H _]; injection H as -> ->; lia.
  - intros a h Ha. rewrite Et.
    pose proof (report_hosts_tick d (stamp d r0) view' kill' a) as H. rewrite Ha in H. cbn [fmap option_fmap option_map] in H.
    destruct (decide _); [injection H as ->; lia|].
    destruct (d_hosts d !! a) as [h0|] eqn:E0; [|done]. injection H as ->. apply (Hh _ _ E0).
  - intros a r Ha. rewrite Et. rewrite Ei in Ha.
    destruct (decide (rp_addr (stamp d r0) = a)) as [Heq|Hne].
    + rewrite Heq, lookup_insert in Ha. injection Ha as <-. cbn. lia.
    + rewrite lookup_insert_ne in Ha by done. apply (Hi _ _ Ha).
Qed.

Lemma run_from_time_ok P cs d d' : run_from P (Live d) cs = Live d' -> time_ok d -> time_ok d'.
Proof.
  apply (run_live_ind P (λ a b, time_ok a -> time_ok b)); auto.
  intros a c b. apply step_time_ok.
Qed.

Lemma run_time_ok P cs d : run P cs = Live d -> time_ok d.
Proof. intros Hrun. eapply run_from_time_ok; [exact Hrun|apply time_ok_init]. Qed.

(* consequence: the truncated subtraction of the model is the exact one *)
Lemma no_truncation P cs d :
  run P cs = Live d ->
  (forall s c n r, d_view d !! s = Some c -> s_reps c !! n = Some r ->
     r_tick r + (d_tick d - r_tick r) = d_tick d /\ r_first r + (d_tick d - r_first r) = d_tick d) /\
  (forall a h, d_hosts d !! a = Some h -> h_tick h + (d_tick d - h_tick h) = d_tick d).
Proof.
  intros Hrun. destruct (run_time_ok P cs d Hrun) as (Hv & Hh & _). split.
  - intros s c n r Hs Hn. destruct (Hv _ _ _ _ Hs Hn). lia.
  - intros a h Ha. specialize (Hh _ _ Ha). lia.
Qed.

(** * 4. Closed form over runs: the stored times as a function of the report history *)

(* the commands of a run that were applied to a live, not fail-stopped state, each with
   the DB time at which it was applied (for a report: the stamp it received) *)
Fixpoint stamped (P : params) (st : rstate) (cs : list cmd) : list (N * cmd) :=
  match cs with
  | [] => []
  | c :: cs' =>
    match st with
    | Live d => (if d_failed d then [] else [(d_tick d, c)]) ++ stamped P (rstep P st c).1 cs'
    | Dead => []
    end
  end.

Definition names_cmd (s n : N) (c : cmd) : bool :=
  match c with CReport r0 => report_names s n r0 | _ => false end.
Definition from_cmd (a : N) (c : cmd) : bool :=
  match c with CReport r0 => bool_decide (rp_addr r0 = a) | _ => false end.

(* time of the last effective command satisfying f, 0 if there is none *)
Definition last_time (f : cmd -> bool) (P : params) (st : rstate) (cs : list cmd) : N :=
  from_option fst 0 (list.last (filter (λ tc : N * cmd, f tc.2 = true) (stamped P st cs))).
(* DB time of the last report processed that lists (shard s, replica n) *)
Definition last_report_time (P : params) (st : rstate) (cs : list cmd) (s n : N) : N := last_time (names_cmd s n) P st cs.
(* DB time of the last report processed that was sent by address a *)
Definition last_host_time (P : params) (st : rstate) (cs : list cmd) (a : N) : N := last_time (from_cmd a) P st cs.

Lemma stamped_dead P cs : stamped P Dead cs = [].
Proof. destruct cs; done. Qed.

Lemma stamped_snoc P cs : forall st c,
  stamped P st (cs ++ [c]) =
  stamped P st cs ++ match run_from P st cs with Live d => if d_failed d then [] else [(d_tick d, c)] | Dead => [] end.
Proof.
  induction cs as [|c0 cs IH]; intros st c.
  - cbn. destruct st as [d|]; [by rewrite app_nil_r|done].
  - destruct st as [d|].
    + cbn [app stamped]. rewrite IH, app_assoc, run_from_cons. done.
    + cbn [app stamped]. rewrite run_from_dead. done.
Qed.

Lemma last_time_snoc f P st cs c d0 :
  run_from P st cs = Live d0 ->
  last_time f P st (cs ++ [c]) = if negb (d_failed d0) && f c then d_tick d0 else last_time f P st cs.
Proof.
  intros Hrun. unfold last_time. rewrite stamped_snoc, Hrun, list.filter_app.
  destruct (d_failed d0); cbn [negb andb]; [by rewrite filter_nil, app_nil_r|].
  rewrite filter_cons, filter_nil. cbn [snd]. destruct (f c).
  - rewrite decide_True by done. rewrite last_snoc. done.
  - rewrite decide_False by done. by rewrite app_nil_r.
Qed.

Lemma last_time_single f P d c :
  last_time f P (Live d) [c] = if negb (d_failed d) && f c then d_tick d else 0.
Proof.
  change [c] with ([] ++ [c]). rewrite (last_time_snoc f P (Live d) [] c d eq_refl). destruct (_ && _); done.
Qed.

Definition rec_at (st : rstate) (s n : N) : option replica :=
  match st with Live d => rec_of (d_view d) s n | Dead => None end.
(* the report carries at least two entries able to change the membership of shard s *)
Definition multi_entry (r0 : report) (s : N) : Prop := (2 <= n_complete s (rp_infos r0))%nat.

Lemma run_snoc P cs c : run P (cs ++ [c]) = (rstep P (run P cs) c).1.
Proof. unfold run. rewrite run_from_app. reflexivity. Qed.

(* one step seen from one member id *)
Lemma step_times P d c d' s n r' :
  next P d c = Some d' -> rec_of (d_view d') s n = Some r' ->
  (exists r, rec_of (d_view d) s n = Some r /\ r_first r' = r_first r /\
             r_tick r' = if negb (d_failed d) && names_cmd s n c then d_tick d else r_tick r) \/
  (exists r0, c = CReport r0 /\ d_failed d = false /\ (rec_of (d_view d) s n = None \/ multi_entry r0 s) /\
              r_first r' = d_tick d /\ r_tick r' = if names_cmd s n c then d_tick d else 0).
Proof.
  intros Hn Hr'. destruct (is_report c) eqn:Hrep.
  2:{ destruct (step_nonreport P d c d' Hn Hrep) as (Ev & _ & _). rewrite Ev in Hr'.
      left. exists r'. split; [done|]. split; [done|].
      destruct c; try done; cbn [names_cmd]; by rewrite andb_false_r. }
  destruct c as [| | |r0| |]; try done. clear Hrep.
  apply next_cases in Hn as [[Hf ->]|[Hf (view' & kill' & Hvu & ->)]].
  { left. exists r'. rewrite Hf. done. }
  destruct (report_result_fields d (stamp d r0) view' kill') as (_ & _ & Ev & _). rewrite Ev in Hr'.
  pose proof (view_update_times _ _ _ _ _ _ s n Hvu) as H. unfold times_of in H. rewrite Hr' in H.
  change (report_names s n (stamp d r0)) with (report_names s n r0) in H.
  change (rp_infos (stamp d r0)) with (rp_infos r0) in H.
  rewrite Hf. cbn [negb andb names_cmd].
  destruct (rec_of (d_view d) s n) as [r|] eqn:E; cbn [fmap option_fmap option_map] in H.
  - destruct H as [H|[H Hc]].
    + left. exists r. split; [done|]. unfold tm, retick in H. destruct (report_names s n r0); injection H as -> ->; done.
    + right. exists r0. split; [done|]. split; [done|]. split; [by right|]. unfold tm in H. injection H as -> ->. done.
  - destruct H as [H Hc]. right. exists r0. split; [done|]. split; [done|]. split; [by left|].
    unfold tm in H. injection H as -> ->. done.
Qed.

Lemma run_class_spec P cs : forall d s n r,
  run P cs = Live d -> rec_of (d_view d) s n = Some r ->
  exists cs0 rb cs1 db,
    cs = cs0 ++ CReport rb :: cs1 /\ run P cs0 = Live db /\ d_failed db = false /\
    (rec_of (d_view db) s n = None \/ multi_entry rb s) /\
    (forall a b, cs1 = a ++ b -> is_Some (rec_at (run P (cs0 ++ CReport rb :: a)) s n)) /\
    r_first r = d_tick db /\
    r_tick r = last_report_time P (Live db) (CReport rb :: cs1) s n.
Proof.
  induction cs as [|c cs IH] using rev_ind; intros d s n r Hrun Hrec.
  { cbn in Hrun. injection Hrun as <-. unfold rec_of, db_init in Hrec. cbn in Hrec. by rewrite lookup_empty in Hrec. }
  rewrite run_snoc in Hrun. destruct (run P cs) as [d0|] eqn:E0; [|done].
  rewrite rstep_live in Hrun. destruct (next P d0 c) as [d1|] eqn:En; [|done]. injection Hrun as ->.
  destruct (step_times P d0 c d s n r En Hrec) as [(r0 & Hr0 & Hfirst & Htick)|(r0 & -> & Hf & Hbirth & Hfirst & Htick)].
  - (* kept: extend the decomposition of the prefix *)
    destruct (IH d0 s n r0 eq_refl Hr0) as (cs0 & rb & cs1 & db & Hcs & Hrun0 & Hf0 & Hb & Hmem & Hfi & Hti).
    exists cs0, rb, (cs1 ++ [c]), db.
    assert (Hsuffix : run_from P (Live db) (CReport rb :: cs1) = Live d0).
    { rewrite <- Hrun0. unfold run in *. rewrite <- run_from_app, <- Hcs. exact E0. }
    split; [rewrite Hcs, <- app_assoc; done|]. split; [done|]. split; [done|]. split; [done|]. split; [|split].
    + intros a b Hab. destruct b as [|x b _] using rev_ind.
      * rewrite app_nil_r in Hab. subst a.
        replace (cs0 ++ CReport rb :: cs1 ++ [c]) with (cs ++ [c]) by (rewrite Hcs, <- app_assoc; done).
        rewrite run_snoc, E0, rstep_live, En. cbn [rec_at]. rewrite Hrec. by eexists.
      * rewrite app_assoc in Hab. apply app_inj_tail in Hab as [Hab _]. apply (Hmem a b Hab).
    + congruence.
    + unfold last_report_time. rewrite app_comm_cons. rewrite (last_time_snoc _ P _ _ c d0 Hsuffix).
      rewrite Htick. destruct (_ && _); [done|exact Hti].
  - (* announced by this very report *)
    exists cs, r0, [], d0. split; [done|]. split; [done|]. split; [done|]. split; [done|]. split; [|split].
    + intros a b Hab. symmetry in Hab. apply app_eq_nil in Hab as [-> _].
      rewrite run_snoc, E0, rstep_live, En. cbn [rec_at]. rewrite Hrec. by eexists.
    + done.
    + unfold last_report_time. rewrite last_time_single, Hf. cbn [negb andb]. exact Htick.
Qed.

(** hosts: a spec exists exactly for the addresses that reported, and carries the time of the last report *)
Lemma step_host_tick P d c d' a :
  next P d c = Some d' ->
  h_tick <$> d_hosts d' !! a = if negb (d_failed d) && from_cmd a c then Some (d_tick d) else h_tick <$> d_hosts d !! a.
Proof.
  intros Hn. destruct (is_report c) eqn:Hrep.
  2:{ destruct (step_nonreport P d c d' Hn Hrep) as (_ & -> & _).
      destruct c; try done; cbn [from_cmd]; by rewrite andb_false_r. }
  destruct c as [| | |r0| |]; try done. clear Hrep.
  apply next_cases in Hn as [[Hf ->]|[Hf (view' & kill' & Hvu & ->)]]; [by rewrite Hf|].
  rewrite report_hosts_tick, Hf. cbn [negb andb from_cmd]. change (rp_addr (stamp d r0)) with (rp_addr r0).
  destruct (decide (rp_addr r0 = a)) as [Heq|Hne]; [by rewrite bool_decide_eq_true_2|by rewrite bool_decide_eq_false_2].
Qed.

Lemma run_host_spec P cs : forall d a,
  run P cs = Live d ->
  (is_Some (d_hosts d !! a) <-> exists tc, tc ∈ stamped P (Live db_init) cs /\ from_cmd a tc.2 = true) /\
  (forall h, d_hosts d !! a = Some h -> h_tick h = last_host_time P (Live db_init) cs a).
Proof.
  induction cs as [|c cs IH] using rev_ind; intros d a Hrun.
  { cbn in Hrun. injection Hrun as <-. unfold db_init. cbn [d_hosts stamped]. split.
    - rewrite lookup_empty. split; [by intros [? ?]|]. intros (tc & Htc & _). by apply elem_of_nil in Htc.
    - intros h Hh. by rewrite lookup_empty in Hh. }
  rewrite run_snoc in Hrun. destruct (run P cs) as [d0|] eqn:E0; [|done].
  rewrite rstep_live in Hrun. destruct (next P d0 c) as [d1|] eqn:En; [|done]. injection Hrun as ->.
  destruct (IH d0 a eq_refl) as [IH1 IH2]. pose proof (step_host_tick P d0 c d a En) as Hst.
  unfold last_host_time. rewrite (last_time_snoc _ P _ _ c d0 E0). rewrite stamped_snoc. fold (run P cs). rewrite E0.
  destruct (negb (d_failed d0) && from_cmd a c) eqn:Eb.
  - apply andb_true_iff in Eb as [Eb1 Eb2]. apply negb_true_iff in Eb1. rewrite Eb1. split.
    + split; [|intros _; destruct (d_hosts d !! a); [by eexists|done]].
      intros _. exists (d_tick d0, c). split; [|done]. apply elem_of_app. right. by apply elem_of_list_singleton.
    + intros h Hh. rewrite Hh in Hst. by injection Hst as ->.
  - split.
    + assert (is_Some (d_hosts d !! a) <-> is_Some (d_hosts d0 !! a)) as ->.
      { destruct (d_hosts d !! a), (d_hosts d0 !! a); try done; split; intros [? ?]; done || by eexists. }
      rewrite IH1. split; intros (tc & Htc & Hfc); exists tc; (split; [|done]).
      * apply elem_of_app. by left.
      * apply elem_of_app in Htc as [Htc|Htc]; [done|]. exfalso.
        destruct (d_failed d0); [by apply elem_of_nil in Htc|]. apply elem_of_list_singleton in Htc. subst tc.
        cbn [snd negb andb] in *. congruence.
    + intros h Hh. rewrite Hh in Hst. destruct (d_hosts d0 !! a) as [h0|] eqn:E1; [|done].
      injection Hst as ->. by apply IH2.
Qed.

(** * 4b. The statement of C05_class_spec *)
Lemma class_spec P cs d s c n r :
  run P cs = Live d -> d_view d !! s = Some c -> s_reps c !! n = Some r ->
  exists cs0 rb cs1 db,
    (* the history splits at the report rb that announced the member ... *)
    cs = cs0 ++ CReport rb :: cs1 /\ run P cs0 = Live db /\ d_failed db = false /\
    (rec_of (d_view db) s n = None \/ multi_entry rb s) /\
    (* ... which has been a member after every command since *)
    (forall a b, cs1 = a ++ b -> is_Some (rec_at (run P (cs0 ++ CReport rb :: a)) s n)) /\
    let f := d_tick db in
    let t := last_report_time P (Live db) (CReport rb :: cs1) s n in
    let now := d_tick d in
    r_first r = f /\ r_tick r = t /\ f <= now /\ t <= now /\
    (replica_ok P r now = true <-> 0 < t /\ now - t <= p_ttl P) /\
    (replica_failed P r now = true <-> (0 < t /\ p_ttl P < now - t) \/ (t = 0 /\ f = 0)) /\
    (replica_waiting P r now = true <-> t = 0 /\ 0 < f).
Proof.
  intros Hrun Hs Hn.
  assert (rec_of (d_view d) s n = Some r) as Hrec by (apply rec_of_Some; eauto).
  destruct (run_class_spec P cs d s n r Hrun Hrec) as (cs0 & rb & cs1 & db & Hcs & Hrun0 & Hf0 & Hb & Hmem & Hfi & Hti).
  exists cs0, rb, cs1, db. do 5 (split; [done|]). cbv zeta.
  destruct (run_time_ok P cs d Hrun) as (Hv & _ & _). destruct (Hv s c n r Hs Hn) as [Hle1 Hle2].
  rewrite <- Hfi, <- Hti. do 2 (split; [done|]). do 2 (split; [lia|]).
  apply class_of_times.
Qed.

(* the sender address plays no role in what a report does to the view (hence to the times) *)
Lemma view_update_sender_irrelevant v kill kill2 r r2 t :
  rp_infos r = rp_infos r2 ->
  fst <$> view_update v kill r t = fst <$> view_update v kill2 r2 t.
Proof.
  intros H. unfold view_update. rewrite H. destruct (update_entries t (v, []) (rp_infos r2)) as [[v1 tokill]|]; done.
Qed.

(** observers for the non-vacuity examples *)
Definition class_table (P : params) (st : rstate) (s : N)
  : option (N * list (N * N * N * (bool * bool * bool)) * bool) :=
  match st with
  | Live d =>
    match d_view d !! s with
    | Some c =>
      Some (d_tick d,
            (λ kv, (kv.1, r_first kv.2, r_tick kv.2,
                    (replica_ok P kv.2 (d_tick d), replica_failed P kv.2 (d_tick d), replica_waiting P kv.2 (d_tick d))))
              <$> map_to_list (s_reps c),
            shard_available P c (d_tick d))
    | None => None
    end
  | Dead => None
  end.
Definition unavailable_of (P : params) (st : rstate) (s : N) : option bool :=
  match st with Live d => ss_unavailable <$> to_shard_state P d s | Dead => None end.
Definition host_table (P : params) (st : rstate) : list (N * N * bool * bool) :=
  match st with
  | Live d => (λ kv, (kv.1, h_tick kv.2, host_available P kv.2 (d_tick d), host_live P kv.2 (d_tick d))) <$> map_to_list (d_hosts d)
  | Dead => []
  end.
