(** Proofs about calls cut short by a fault (theories/ServiceFault.v). *)
From stdpp Require Import gmap list numbers.
From Drummer.Model Require Import DB DBRun Service ServiceRun ServiceFault.
From Drummer.Proofs Require Import DBProofs ServiceProofs.
Local Open Scope N_scope.

(** * A failed call contributes all of its commands to the replicated log, or none *)
Lemma resolve_step_log P s c a : resolve_step P s c a = run_from P s (failed_cmds c a).
Proof.
  destruct a; cbn [resolve_step failed_cmds].
  - apply svc_step_state.
  - reflexivity.
Qed.

Lemma resolve_step_cases P s c a : resolve_step P s c a = s \/ resolve_step P s c a = (svc_step P s c).1.
Proof. destruct a; [right|left]; reflexivity. Qed.

(** a failed query leaves nothing behind, whichever way it is resolved *)
Lemma failed_query_invisible P s c a : is_query c = true -> resolve_step P s c a = s.
Proof. intros Hq. destruct a; cbn [resolve_step]; [apply query_no_effect; exact Hq|reflexivity]. Qed.

(** a refused (malformed) call leaves nothing behind either *)
Lemma failed_refused_invisible P s c a : call_cmds c = [] -> resolve_step P s c a = s.
Proof. intros Hc. rewrite resolve_step_log. destruct a; cbn [failed_cmds]; [rewrite Hc|]; reflexivity. Qed.

(** * No configuration call, failed or not, resolved either way, makes the DB fail-stop *)
Lemma failed_config_alive P d c a :
  is_config c = true -> exists d', resolve_step P (Live d) c a = Live d' /\ d_failed d' = d_failed d.
Proof.
  intros Hc. destruct a; cbn [resolve_step svc_step].
  - apply config_call_alive. exact Hc.
  - exists d. split; reflexivity.
Qed.

(** histories of configuration calls, each completed or failed (resolved either way) *)
Inductive fcall := FCDone (c : call) | FCFailed (c : call) (applied : bool).
Definition fcall_call (x : fcall) : call := match x with FCDone c | FCFailed c _ => c end.
Definition fcall_step (P : params) (s : rstate) (x : fcall) : rstate :=
  match x with
  | FCDone c => (svc_step P s c).1
  | FCFailed c a => resolve_step P s c a
  end.
Definition fcall_cmds (x : fcall) : list cmd :=
  match x with FCDone c => call_cmds c | FCFailed c a => failed_cmds c a end.

Lemma fcall_step_log P s x : fcall_step P s x = run_from P s (fcall_cmds x).
Proof. destruct x as [c|c a]; cbn [fcall_step fcall_cmds]; [apply svc_step_state|apply resolve_step_log]. Qed.

Lemma fcall_run_log P xs : forall s, foldl (fcall_step P) s xs = run_from P s (concat (fcall_cmds <$> xs)).
Proof.
  induction xs as [|x xs IH]; intros s; cbn [foldl fmap list_fmap concat]; [reflexivity|].
  rewrite IH, fcall_step_log. unfold run_from. rewrite foldl_app. reflexivity.
Qed.

Lemma failed_history_alive P xs : forall d,
  d_failed d = false -> Forall (λ x, is_config (fcall_call x) = true) xs ->
  exists d', foldl (fcall_step P) (Live d) xs = Live d' /\ d_failed d' = false.
Proof.
  induction xs as [|x xs IH]; intros d Hf Hall; cbn [foldl].
  - exists d. split; [reflexivity|exact Hf].
  - inversion Hall as [|? ? Hx Hxs]; subst.
    assert (exists d1, fcall_step P (Live d) x = Live d1 /\ d_failed d1 = false) as (d1 & -> & Hf1).
    { destruct x as [c|c a]; cbn [fcall_step fcall_call] in *.
      - destruct (config_call_alive P d c Hx) as (d1 & H1 & H2). exists d1. split; [exact H1|congruence].
      - destruct (failed_config_alive P d c a Hx) as (d1 & H1 & H2). exists d1. split; [exact H1|congruence]. }
    apply IH; assumption.
Qed.

(** * The set-valued trace checker accepts exactly the traces that have a resolution *)
Lemma keep_sitem_spec P it s s' : keep_sitem P it s = Some s' <-> check_sitem P s it = (s', true).
Proof.
  unfold keep_sitem. destruct (check_sitem P s it) as [s1 b]. destruct b; split; intros H; try discriminate.
  - injection H as ->. reflexivity.
  - injection H as ->. reflexivity.
Qed.

Lemma nonempty_spec {A} (l : list A) : nonempty l = true <-> l <> [].
Proof. destruct l; cbn; split; intros H; try discriminate; try reflexivity. exfalso. apply H. reflexivity. Qed.

Lemma nonempty_elem {A} (l : list A) : l <> [] <-> exists x, x ∈ l.
Proof.
  destruct l as [|x l]; split.
  - intros H. exfalso. apply H. reflexivity.
  - intros (x & Hx). inversion Hx.
  - intros _. exists x. left.
  - intros _. discriminate.
Qed.

Lemma elem_nonempty {A} (x : A) (l : list A) : x ∈ l -> l <> [].
Proof. intros Hx ->. inversion Hx. Qed.

Lemma all_true_cons b l : all_true (b :: l) = b && all_true l.
Proof. reflexivity. Qed.

Lemma nd_exact_from P its : forall ss,
  (exists s res, s ∈ ss /\ check_resolved P s its res = true) <->
  (ss <> [] /\ all_true (check_ftrace_from P ss its) = true).
Proof.
  induction its as [|it its IH]; intros ss.
  - cbn [check_resolved check_ftrace_from]. split.
    + intros (s & _ & Hs & _). split; [|reflexivity]. exact (elem_nonempty _ _ Hs).
    + intros (Hne & _). apply nonempty_elem in Hne as (s & Hs). exists s, []. split; [exact Hs|reflexivity].
  - cbn [check_ftrace_from]. rewrite all_true_cons.
    rewrite andb_true_iff, nonempty_spec, <- (IH (nd_step P ss it)).
    destruct it as [sit|c]; cbn [nd_step check_resolved].
    + split.
      * intros (s & res & Hs & Hc).
        destruct (check_sitem P s sit) as [s' b] eqn:Hck. apply andb_true_iff in Hc as (Hb & Hc). subst b.
        assert (s' ∈ omap (keep_sitem P sit) ss) as Hin.
        { apply elem_of_list_omap. exists s. split; [exact Hs|]. apply keep_sitem_spec. exact Hck. }
        split; [exact (elem_nonempty _ _ Hs)|].
        exists s', res. split; [exact Hin|exact Hc].
      * intros (_ & s' & res & Hin & Hc).
        apply elem_of_list_omap in Hin as (s & Hs & Hk). apply keep_sitem_spec in Hk.
        exists s, res. split; [exact Hs|]. rewrite Hk. cbn. exact Hc.
    + split.
      * intros (s & res & Hs & Hc). destruct res as [|a res]; [discriminate|].
        assert (resolve_step P s c a ∈ ss ++ ((λ s, (svc_step P s c).1) <$> ss)) as Hin.
        { apply elem_of_app. destruct a; cbn [resolve_step]; [right|left; exact Hs].
          apply elem_of_list_fmap. exists s. split; [reflexivity|exact Hs]. }
        split; [exact (elem_nonempty _ _ Hs)|].
        exists (resolve_step P s c a), res. split; [exact Hin|exact Hc].
      * intros (_ & s' & res & Hin & Hc).
        apply elem_of_app in Hin as [Hin|Hin].
        -- exists s', (false :: res). split; [exact Hin|]. cbn [resolve_step]. exact Hc.
        -- apply elem_of_list_fmap in Hin as (s & -> & Hs).
           exists s, (true :: res). split; [exact Hs|]. cbn [resolve_step]. exact Hc.
Qed.

Lemma nd_exact P its :
  all_true (check_ftrace P its) = true <-> exists res, check_resolved P (Live db_init) its res = true.
Proof.
  unfold check_ftrace. split.
  - intros H. destruct (proj2 (nd_exact_from P its [Live db_init])) as (s & res & Hs & Hc).
    + split; [discriminate|exact H].
    + apply elem_of_list_singleton in Hs as ->. exists res. exact Hc.
  - intros (res & Hc). apply (proj1 (nd_exact_from P its [Live db_init])).
    exists (Live db_init), res. split; [apply elem_of_list_singleton; reflexivity|exact Hc].
Qed.

(** without failed calls the set-valued checker is the plain one *)
Lemma check_resolved_plain P its : forall s res,
  check_resolved P s (FItem <$> its) res = forallb id (check_strace_from P s its).
Proof.
  induction its as [|it its IH]; intros s res; cbn [fmap list_fmap check_resolved check_strace_from forallb]; [reflexivity|].
  destruct (check_sitem P s it) as [s' b]. rewrite IH. destruct b; reflexivity.
Qed.
