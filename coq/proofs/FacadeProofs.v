(** FacadeProofs: proofs about the facade model (theories/Facade.v), property C19. *)
From stdpp Require Import gmap.
From Coq Require Import ZifyN ZifyNat ZifyBool.
From Drummer.Model Require Import Base Facade.

(** * hosting configuration *)

Lemma hosted_type_in : forall h s t, hosted_type h s = Some t -> In (s, t) h.
Proof.
  induction h as [|[s' t'] h IH]; intros s t H; cbn [hosted_type] in H.
  - discriminate.
  - destruct (N.eqb_spec s' s) as [E|NE].
    + injection H as ->. subst s'. now left.
    + right. now apply IH.
Qed.

Lemma hosted_type_none : forall h s, hosted_type h s = None <-> ~ In s (map fst h).
Proof.
  induction h as [|[s' t'] h IH]; intros s; cbn [hosted_type map fst In].
  - split; [intros _ []|reflexivity].
  - destruct (N.eqb_spec s' s) as [E|NE].
    + split; [discriminate|]. intros H. exfalso. apply H. now left.
    + rewrite IH. split.
      * intros H [E|HI]; [now apply NE|now apply H].
      * intros H HI. apply H. now right.
Qed.

Lemma in_hosted_type : forall h s t,
  List.NoDup (map fst h) -> In (s, t) h -> hosted_type h s = Some t.
Proof.
  induction h as [|[s' t'] h IH]; intros s t ND HI; cbn [hosted_type].
  - destruct HI.
  - cbn [map fst] in ND. apply List.NoDup_cons_iff in ND as [NI ND].
    destruct HI as [E|HI].
    + injection E as -> ->. now rewrite N.eqb_refl.
    + destruct (N.eqb_spec s' s) as [E|NE].
      * exfalso. subst s'. apply NI. apply in_map_iff. now exists (s, t).
      * now apply IH.
Qed.

Lemma hosted_type_app : forall h1 h2 s,
  hosted_type (h1 ++ h2) s =
  match hosted_type h1 s with Some t => Some t | None => hosted_type h2 s end.
Proof.
  induction h1 as [|[s' t'] h1 IH]; intros h2 s; cbn [hosted_type app].
  - reflexivity.
  - destruct (s' =? s); [reflexivity|apply IH].
Qed.

Lemma nodup_snoc : forall (l : list N) x, List.NoDup l -> ~ In x l -> List.NoDup (l ++ [x]).
Proof.
  induction l as [|y l IH]; intros x ND NI; cbn [app].
  - constructor; [intros []|constructor].
  - apply List.NoDup_cons_iff in ND as [NY ND]. constructor.
    + intros HI. apply in_app_or in HI as [HI|[E|[]]]; [now apply NY|].
      subst y. apply NI. now left.
    + apply IH; [exact ND|]. intros HI. apply NI. now right.
Qed.

Lemma start_nodup : forall h s t, List.NoDup (map fst h) -> List.NoDup (map fst (start h s t)).
Proof.
  intros h s t ND. unfold start. destruct (hosted_type h s) eqn:E.
  - exact ND.
  - rewrite map_app. cbn [map fst]. apply hosted_type_none in E. now apply nodup_snoc.
Qed.

(** starting a shard never changes the type of a shard that is already running *)
Lemma start_mono : forall h s t s' t',
  hosted_type h s' = Some t' -> hosted_type (start h s t) s' = Some t'.
Proof.
  intros h s t s' t' H. unfold start. destruct (hosted_type h s); [exact H|].
  rewrite hosted_type_app. now rewrite H.
Qed.

Lemma start_fresh : forall h s t,
  hosted_type h s = None -> hosted_type (start h s t) s = Some t.
Proof.
  intros h s t H. unfold start. rewrite H. rewrite hosted_type_app, H.
  cbn [hosted_type]. now rewrite N.eqb_refl.
Qed.

(** stopping a shard: it is gone, every other shard keeps its type, ids stay unique *)
Lemma hosted_type_stop_same : forall h s, hosted_type (stop h s) s = None.
Proof.
  unfold stop. induction h as [|[s' t'] h IH]; intros s; cbn [List.filter fst].
  - reflexivity.
  - destruct (N.eqb_spec s' s) as [E|NE]; cbn [negb].
    + apply IH.
    + cbn [hosted_type]. destruct (N.eqb_spec s' s) as [E|_]; [contradiction|]. apply IH.
Qed.

Lemma hosted_type_stop_other : forall h s s',
  s' <> s -> hosted_type (stop h s) s' = hosted_type h s'.
Proof.
  unfold stop. induction h as [|[s0 t0] h IH]; intros s s' NE; cbn [List.filter fst].
  - reflexivity.
  - destruct (N.eqb_spec s0 s) as [E|NE0]; cbn [negb hosted_type].
    + subst s0. destruct (N.eqb_spec s s') as [E|_]; [congruence|]. now apply IH.
    + destruct (s0 =? s'); [reflexivity|]. now apply IH.
Qed.

Lemma stop_incl : forall h s x, In x (map fst (stop h s)) -> In x (map fst h).
Proof.
  unfold stop. intros h s x HI. apply in_map_iff in HI as [ci [E HI]].
  apply List.filter_In in HI as [HI _]. apply in_map_iff. now exists ci.
Qed.

Lemma stop_nodup : forall h s, List.NoDup (map fst h) -> List.NoDup (map fst (stop h s)).
Proof.
  induction h as [|[s' t'] h IH]; intros s ND.
  - exact ND.
  - cbn [map fst] in ND. apply List.NoDup_cons_iff in ND as [NI ND].
    unfold stop. cbn [List.filter fst]. destruct (negb (s' =? s)).
    + cbn [map fst]. constructor; [|now apply IH].
      intros HI. apply NI. exact (stop_incl h s s' HI).
    + now apply IH.
Qed.

(** the type a shard is looked up with does not depend on the order of the list *)
Lemma hosted_type_perm : forall h1 h2 s,
  List.NoDup (map fst h1) -> Permutation h1 h2 -> hosted_type h1 s = hosted_type h2 s.
Proof.
  intros h1 h2 s ND P.
  assert (ND2 : List.NoDup (map fst h2)).
  { apply (Permutation.Permutation_NoDup (l := map fst h1)); [|exact ND].
    now apply Permutation.Permutation_map. }
  destruct (hosted_type h1 s) as [t|] eqn:E1.
  - symmetry. apply in_hosted_type; [exact ND2|].
    apply (Permutation_in (l := h1)); [exact P|]. now apply hosted_type_in.
  - destruct (hosted_type h2 s) as [t|] eqn:E2; [|reflexivity].
    exfalso. apply hosted_type_in in E2. apply hosted_type_none in E1. apply E1.
    apply in_map_iff. exists (s, t). split; [reflexivity|].
    apply (Permutation_in (l := h2)); [now symmetry|exact E2].
Qed.

(** * the lookup loop of supportRegularSession *)

Definition mentions (s : N) (il : hosting) : bool := existsb (fun ci => fst ci =? s) il.

(** the loop returns the value of the entries naming [s] (all alike when ids are unique), or what
    it started with when there is none *)
Lemma lookup_fold : forall s il acc v0,
  (forall t, In (s, t) il -> negb (is_ondisk t) = v0) ->
  fold_left (lookup_step s) il acc = if mentions s il then Some v0 else acc.
Proof.
  intros s il. unfold mentions. induction il as [|[s' t'] il IH]; intros acc v0 Hall; cbn [fold_left existsb].
  - reflexivity.
  - unfold lookup_step at 2. cbn [fst snd].
    destruct (N.eqb_spec s' s) as [E|NE]; cbn [orb].
    + subst s'. rewrite (IH _ v0).
      * rewrite (Hall t') by now left. now destruct (existsb _ il).
      * intros t Ht. apply Hall. now right.
    + apply IH. intros t Ht. apply Hall. now right.
Qed.

Lemma mentions_true : forall s il t, In (s, t) il -> mentions s il = true.
Proof.
  intros s il t HI. unfold mentions. apply existsb_exists. exists (s, t).
  split; [exact HI|]. cbn [fst]. apply N.eqb_refl.
Qed.

Lemma mentions_false : forall s il, ~ In s (map fst il) -> mentions s il = false.
Proof.
  intros s il NI. unfold mentions. destruct (existsb _ il) eqn:E; [|reflexivity].
  exfalso. apply existsb_exists in E as [[s' t'] [HI HE]]. cbn [fst] in HE.
  apply N.eqb_eq in HE. subst s'. apply NI. apply in_map_iff. now exists (s, t').
Qed.

(** the answer of supportRegularSession against any info list that is a permutation of a
    hosting configuration with unique shard ids *)
Lemma support_regular_spec : forall h il s,
  List.NoDup (map fst h) -> Permutation il h ->
  support_regular il s = option_map (fun t => negb (is_ondisk t)) (hosted_type h s).
Proof.
  intros h il s ND P. unfold support_regular.
  assert (Hil : forall t, In (s, t) il -> hosted_type h s = Some t).
  { intros t Ht. apply in_hosted_type; [exact ND|].
    apply (Permutation_in (l := il)); [exact P|exact Ht]. }
  destruct (hosted_type h s) as [t0|] eqn:EH; cbn [option_map].
  - rewrite (lookup_fold s il _ (negb (is_ondisk t0))).
    + rewrite (mentions_true s il t0); [reflexivity|].
      apply (Permutation_in (l := h)); [now symmetry|]. now apply hosted_type_in.
    + intros t Ht. apply Hil in Ht. now injection Ht as ->.
  - rewrite (lookup_fold s il _ true).
    + rewrite mentions_false; [reflexivity|].
      intros HI. apply hosted_type_none in EH. apply EH.
      apply in_map_iff in HI as [[s' t'] [E HI]]. cbn [fst] in E. subst s'.
      apply in_map_iff. exists (s, t'). split; [reflexivity|].
      apply (Permutation_in (l := il)); [exact P|exact HI].
    + intros t Ht. apply Hil in Ht. discriminate.
Qed.

(** * the invariant: shard ids are unique, whatever is started, stopped and started again *)

Lemma query_state : forall st il s, snd (query st il s) = st.
Proof. reflexivity. Qed.

Lemma reachable_ok : forall st, reachable st -> List.NoDup (map fst (hosted st)).
Proof.
  intros st R. induction R as [|st s t R IH|st s R IH|st il s R IH P].
  - constructor.
  - cbn [start_shard hosted]. now apply start_nodup.
  - cbn [stop_shard hosted]. now apply stop_nodup.
  - exact IH.
Qed.

(** * C19_kind *)

Lemma qres_of_spec : forall h s,
  qres_of (option_map (fun t => negb (is_ondisk t)) (hosted_type h s)) = spec_answer h s.
Proof.
  intros h s. unfold spec_answer. destruct (hosted_type h s) as [t|]; cbn [option_map qres_of].
  - unfold kind_of_type. now destruct t.
  - reflexivity.
Qed.

Lemma query_spec : forall st il s,
  List.NoDup (map fst (hosted st)) -> Permutation il (hosted st) ->
  fst (query st il s) = spec_answer (hosted st) s.
Proof.
  intros st il s ND P. unfold query. cbn [fst].
  rewrite (support_regular_spec (hosted st) il s ND P). apply qres_of_spec.
Qed.

Theorem kind_reachable : forall st, reachable st ->
  forall il s, Permutation il (hosted st) ->
    fst (query st il s) = spec_answer (hosted st) s.
Proof. intros st R il s P. apply query_spec; [now apply reachable_ok|exact P]. Qed.

Theorem kind_hosted : forall st, reachable st ->
  forall il s t, Permutation il (hosted st) -> hosted_type (hosted st) s = Some t ->
    (fst (query st il s) = QKind Tracked <-> t <> OnDisk) /\
    (fst (query st il s) = QKind NoOp <-> t = OnDisk).
Proof.
  intros st R il s t P H. rewrite (kind_reachable st R il s P). unfold spec_answer. rewrite H.
  unfold kind_of_type. destruct t; cbn [is_ondisk]; repeat split; congruence.
Qed.

Theorem kind_not_hosted : forall st, reachable st ->
  forall il s, Permutation il (hosted st) -> hosted_type (hosted st) s = None ->
    fst (query st il s) = QErr.
Proof.
  intros st R il s P H. rewrite (kind_reachable st R il s P). unfold spec_answer. now rewrite H.
Qed.

Theorem kind_full : forall st, reachable st ->
  forall il s, Permutation il (hosted st) ->
    match hosted_type (hosted st) s with
    | Some t => (fst (query st il s) = QKind Tracked <-> t <> OnDisk) /\
                (fst (query st il s) = QKind NoOp <-> t = OnDisk)
    | None => fst (query st il s) = QErr
    end.
Proof.
  intros st R il s P. destruct (hosted_type (hosted st) s) as [t|] eqn:E.
  - exact (kind_hosted st R il s t P E).
  - exact (kind_not_hosted st R il s P E).
Qed.

(** readiness is irrelevant: whatever Pending flags the NodeHost reports (shards started a moment
    ago, joining replicas that have applied nothing yet), every listed shard gets the kind of its
    type, and only a shard id that is not listed gets the error *)
Theorem kind_readiness : forall st, reachable st ->
  forall (il : list shard_info) s, Permutation (map fst il) (hosted st) ->
    qres_of (support_regular_info il s) = spec_answer (hosted st) s.
Proof.
  intros st R il s P. unfold support_regular_info.
  exact (kind_reachable st R (map fst il) s P).
Qed.

(** a stopped shard id is answered with an error until it is started again, and then with the
    kind of the NEW type, whatever it ran as before and whatever was asked before *)
Theorem kind_after_stop : forall st, reachable st -> forall s il,
  Permutation il (hosted (stop_shard st s)) -> fst (query (stop_shard st s) il s) = QErr.
Proof.
  intros st R s il P. apply (kind_not_hosted _ (R_stop st s R) il s P).
  cbn [stop_shard hosted]. apply hosted_type_stop_same.
Qed.

Theorem kind_after_rehost : forall st, reachable st -> forall s t il,
  Permutation il (hosted (start_shard (stop_shard st s) s t)) ->
  fst (query (start_shard (stop_shard st s) s t) il s) = QKind (kind_of_type t).
Proof.
  intros st R s t il P.
  rewrite (kind_reachable _ (R_start _ s t (R_stop st s R)) il s P).
  unfold spec_answer. cbn [start_shard stop_shard hosted].
  rewrite start_fresh; [reflexivity|apply hosted_type_stop_same].
Qed.

(** the deterministic, executable run agrees with the specification on every event list,
    stops and re-hosts included *)
Lemma run_from_spec : forall evs st,
  List.NoDup (map fst (hosted st)) -> fst (run_from st evs) = spec_run (hosted st) evs.
Proof.
  induction evs as [|e evs IH]; intros st ND; cbn [run_from spec_run].
  - reflexivity.
  - destruct e as [s t|s|s]; cbn [step].
    + specialize (IH (start_shard st s t) (start_nodup _ s t ND)).
      destruct (run_from (start_shard st s t) evs) as [os st'']. cbn [fst app] in *.
      exact IH.
    + pose proof (query_spec st (hosted st) s ND (Permutation_refl _)) as Q.
      unfold query in *. cbn [fst] in Q.
      specialize (IH st ND).
      destruct (run_from st evs) as [os st'']. cbn [fst app] in *.
      rewrite Q, IH. reflexivity.
    + specialize (IH (stop_shard st s) (stop_nodup _ s ND)).
      destruct (run_from (stop_shard st s) evs) as [os st'']. cbn [fst app] in *.
      exact IH.
Qed.

Theorem run_spec : forall evs, run evs = spec_run [] evs.
Proof. intros evs. unfold run. apply (run_from_spec evs finit). constructor. Qed.

(** the state reached by the deterministic run is reachable *)
Lemma run_from_reachable : forall evs st, reachable st -> reachable (snd (run_from st evs)).
Proof.
  induction evs as [|e evs IH]; intros st R; cbn [run_from].
  - exact R.
  - destruct e as [s t|s|s]; cbn [step].
    + specialize (IH _ (R_start st s t R)).
      now destruct (run_from (start_shard st s t) evs).
    + unfold query. specialize (IH _ R). now destruct (run_from st evs).
    + specialize (IH _ (R_stop st s R)).
      now destruct (run_from (stop_shard st s) evs).
Qed.

(** start order, earlier incarnations and everything else the NodeHost runs are irrelevant: two
    facade objects, on NodeHosts whose hosting configurations give shard [s] the same type (or
    both do not run it), answer alike *)
Theorem kind_order_independent : forall st1 st2, reachable st1 -> reachable st2 ->
  forall il1 il2 s, Permutation il1 (hosted st1) -> Permutation il2 (hosted st2) ->
    hosted_type (hosted st1) s = hosted_type (hosted st2) s ->
    fst (query st1 il1 s) = fst (query st2 il2 s).
Proof.
  intros st1 st2 R1 R2 il1 il2 s P1 P2 H.
  rewrite (kind_reachable st1 R1 il1 s P1), (kind_reachable st2 R2 il2 s P2).
  unfold spec_answer. now rewrite H.
Qed.

(** in particular for two start orders of the same set of shards *)
Theorem kind_start_order : forall st1 st2, reachable st1 -> reachable st2 ->
  Permutation (hosted st1) (hosted st2) ->
  forall il1 il2 s, Permutation il1 (hosted st1) -> Permutation il2 (hosted st2) ->
    fst (query st1 il1 s) = fst (query st2 il2 s).
Proof.
  intros st1 st2 R1 R2 P il1 il2 s P1 P2.
  apply kind_order_independent; try assumption.
  apply hosted_type_perm; [|exact P]. exact (reachable_ok st1 R1).
Qed.

Theorem kind_order_full : forall st1 st2, reachable st1 -> reachable st2 ->
  forall il1 il2 s, Permutation il1 (hosted st1) -> Permutation il2 (hosted st2) ->
    (hosted_type (hosted st1) s = hosted_type (hosted st2) s \/ Permutation (hosted st1) (hosted st2)) ->
    fst (query st1 il1 s) = fst (query st2 il2 s).
Proof.
  intros st1 st2 R1 R2 il1 il2 s P1 P2 [H|H].
  - now apply kind_order_independent.
  - now apply kind_start_order.
Qed.

(** * session conversions *)

Theorem roundtrip_pb : forall p, to_pb (to_nh p) = p.
Proof. now intros [a b c d]. Qed.

Theorem roundtrip_nh : forall s, to_nh (to_pb s) = s.
Proof. now intros [a b c d]. Qed.

Theorem conv_fields_nh : forall p, ns_fields (to_nh p) = ps_fields p.
Proof. now intros [a b c d]. Qed.

Theorem conv_fields_pb : forall s, ps_fields (to_pb s) = ns_fields s.
Proof. now intros [a b c d]. Qed.

Theorem update_pb_is_to_pb : forall dst src, update_pb dst src = to_pb src.
Proof. now intros [a b c d] [a' b' c' d']. Qed.

Theorem noop_preserved : forall s, is_noop (to_nh (to_pb s)) = is_noop s.
Proof. intros s. now rewrite roundtrip_nh. Qed.

(** * the code table *)

Definition table_codes : list code := [InvalidArgument; Unavailable; NotFound; Canceled; DeadlineExceeded; Unknown].

Theorem codes_total : forall e,
  In (grpc_code e) table_codes /\ grpc_code e <> OK /\
  0 < code_num (grpc_code e) <= 16.
Proof.
  intros e. destruct e; cbn [grpc_code table_codes In code_num]; repeat split;
    try discriminate; try lia; tauto.
Qed.

Theorem codes_table :
  grpc_code EInvalidSession = InvalidArgument /\
  grpc_code EPayloadTooBig = InvalidArgument /\
  grpc_code ETimeoutTooSmall = InvalidArgument /\
  grpc_code ESystemBusy = Unavailable /\
  grpc_code EClosed = Unavailable /\
  grpc_code EShardClosed = Unavailable /\
  grpc_code EShardNotFound = NotFound /\
  grpc_code ECtxCanceled = Canceled /\
  grpc_code ECanceled = Canceled /\
  grpc_code ECtxDeadlineExceeded = DeadlineExceeded /\
  grpc_code ETimeout = DeadlineExceeded /\
  (forall n, grpc_code (EOther n) = Unknown).
Proof. repeat split. Qed.

Theorem grpc_error_nil : forall oe, grpc_error oe = None <-> oe = None.
Proof. intros [e|]; cbn [grpc_error option_map]; split; congruence. Qed.

Theorem code_num_inj : forall c1 c2, code_num c1 = code_num c2 -> c1 = c2.
Proof. intros c1 c2; destruct c1, c2; cbn [code_num]; intros H; try reflexivity; discriminate. Qed.

(** * transparency of Propose / Read / GetSession / CloseSession *)

Section Transparent.
  Context {W : Type}.
  Variable local_propose : W -> nh_session -> list N -> lres (N * nh_session) * W.
  Variable local_read : W -> N -> list N -> lres (list N) * W.
  Variable local_get_session : W -> N -> lres nh_session * W.
  Variable local_noop_session : N -> nh_session.
  Variable local_close_session : W -> nh_session -> option err * W.

  (** the session the local call is made with has exactly the field values of the request *)
  Lemma propose_session_fields : forall req,
    ns_fields (to_nh (pr_session req)) = ps_fields (pr_session req).
  Proof. intros req. apply conv_fields_nh. Qed.

  Theorem propose_transparent : forall w req,
    let l := local_propose w (to_nh (pr_session req)) (pr_data req) in
    let f := facade_propose local_propose w req in
    (* same effect *)
    snd f = snd l /\
    (* same result: value and session on success, the table's code on failure *)
    (forall v cs', fst l = LOk (v, cs') ->
       fst (fst f) = FOk (mkResp v []) /\ snd (fst f) = to_pb cs') /\
    (forall e, fst l = LErr e ->
       fst (fst f) = FErr (grpc_code e) /\ snd (fst f) = pr_session req).
  Proof.
    intros w req. cbn zeta. unfold facade_propose.
    destruct (local_propose w (to_nh (pr_session req)) (pr_data req)) as [[[v cs']|e] w'];
      cbn [fst snd].
    - split; [reflexivity|]. split.
      + intros v1 cs1 H. injection H as <- <-. split; [reflexivity|apply update_pb_is_to_pb].
      + intros e1 H. discriminate H.
    - split; [reflexivity|]. split.
      + intros v1 cs1 H. discriminate H.
      + intros e1 H. injection H as <-. split; reflexivity.
  Qed.

  Theorem read_transparent : forall w req,
    let l := local_read w (rd_shard req) (rd_data req) in
    let f := facade_read local_read w req in
    snd f = snd l /\
    (forall d, fst l = LOk d -> fst f = FOk (mkResp 0 d)) /\
    (forall e, fst l = LErr e -> fst f = FErr (grpc_code e)).
  Proof.
    intros w req. cbn zeta. unfold facade_read.
    destruct (local_read w (rd_shard req) (rd_data req)) as [[d|e] w']; cbn [fst snd].
    - split; [reflexivity|]. split.
      + intros d1 H. injection H as <-. reflexivity.
      + intros e1 H. discriminate H.
    - split; [reflexivity|]. split.
      + intros d1 H. discriminate H.
      + intros e1 H. injection H as <-. reflexivity.
  Qed.

  (** a facade call never reports success when the local call failed, nor the other way round *)
  Theorem propose_ok_iff : forall w req,
    (exists r, fst (fst (facade_propose local_propose w req)) = FOk r) <->
    (exists x, fst (local_propose w (to_nh (pr_session req)) (pr_data req)) = LOk x).
  Proof.
    intros w req. unfold facade_propose.
    destruct (local_propose w (to_nh (pr_session req)) (pr_data req)) as [[[v cs']|e] w'];
      cbn [fst snd]; split; intros [x H]; try discriminate; eauto.
  Qed.

  (** GetSession: the session comes from the local call of the right kind, converted to wire
      form without loss, and the local registration call is made only for a tracked kind *)
  Theorem get_session_transparent : forall st il w s,
    reachable st -> Permutation il (hosted st) ->
    let f := facade_get_session local_get_session local_noop_session st il w s in
    match hosted_type (hosted st) s with
    | None => fst (fst f) = FErr Unknown /\ snd f = w
    | Some OnDisk =>
        fst (fst f) = FOk (to_pb (local_noop_session s)) /\ snd f = w
    | Some _ =>
        snd f = snd (local_get_session w s) /\
        match fst (local_get_session w s) with
        | LOk cs => fst (fst f) = FOk (to_pb cs)
        | LErr e => fst (fst f) = FErr (grpc_code e)
        end
    end.
  Proof.
    intros st il w s R P. cbn zeta. unfold facade_get_session.
    rewrite (support_regular_spec (hosted st) il s (reachable_ok st R) P).
    destruct (hosted_type (hosted st) s) as [[| |]|]; cbn [option_map is_ondisk negb fst snd].
    - destruct (local_get_session w s) as [[cs|e] w']; cbn [fst snd]; now split.
    - destruct (local_get_session w s) as [[cs|e] w']; cbn [fst snd]; now split.
    - now split.
    - now split.
  Qed.

  Theorem close_session_transparent : forall w p,
    let f := facade_close_session local_close_session w p in
    if is_noop (to_nh p) then f = (FOk true, w)
    else snd f = snd (local_close_session w (to_nh p)) /\
         match fst (local_close_session w (to_nh p)) with
         | None => fst f = FOk true
         | Some e => fst f = FErr (grpc_code e)
         end.
  Proof.
    intros w p. cbn zeta. unfold facade_close_session.
    destruct (is_noop (to_nh p)); [reflexivity|].
    destruct (local_close_session w (to_nh p)) as [[e|] w']; cbn [fst snd]; now split.
  Qed.
End Transparent.

(** the two statements as they appear in props/C19.v *)
Theorem transparent_full : forall (W : Type)
    (local_propose : W -> nh_session -> list N -> lres (N * nh_session) * W)
    (local_read : W -> N -> list N -> lres (list N) * W),
  (forall w req,
     let l := local_propose w (to_nh (pr_session req)) (pr_data req) in
     let f := facade_propose local_propose w req in
     ns_fields (to_nh (pr_session req)) = ps_fields (pr_session req) /\
     snd f = snd l /\
     (forall v cs', fst l = LOk (v, cs') ->
        fst (fst f) = FOk (mkResp v []) /\ snd (fst f) = to_pb cs') /\
     (forall e, fst l = LErr e ->
        fst (fst f) = FErr (grpc_code e) /\ snd (fst f) = pr_session req)) /\
  (forall w req,
     let l := local_read w (rd_shard req) (rd_data req) in
     let f := facade_read local_read w req in
     snd f = snd l /\
     (forall d, fst l = LOk d -> fst f = FOk (mkResp 0 d)) /\
     (forall e, fst l = LErr e -> fst f = FErr (grpc_code e))).
Proof.
  intros W lp lr. split.
  - intros w req. cbn zeta. split; [apply conv_fields_nh|]. exact (propose_transparent lp w req).
  - exact (read_transparent lr).
Qed.

Theorem transparent_sessions_full : forall (W : Type)
    (local_get_session : W -> N -> lres nh_session * W)
    (local_noop_session : N -> nh_session)
    (local_close_session : W -> nh_session -> option err * W),
  (forall st il w s, reachable st -> Permutation il (hosted st) ->
     let f := facade_get_session local_get_session local_noop_session st il w s in
     match hosted_type (hosted st) s with
     | None => fst (fst f) = FErr Unknown /\ snd f = w
     | Some OnDisk => fst (fst f) = FOk (to_pb (local_noop_session s)) /\ snd f = w
     | Some _ =>
         snd f = snd (local_get_session w s) /\
         match fst (local_get_session w s) with
         | LOk cs => fst (fst f) = FOk (to_pb cs)
         | LErr e => fst (fst f) = FErr (grpc_code e)
         end
     end) /\
  (forall w p,
     let f := facade_close_session local_close_session w p in
     if is_noop (to_nh p) then f = (FOk true, w)
     else snd f = snd (local_close_session w (to_nh p)) /\
          match fst (local_close_session w (to_nh p)) with
          | None => fst f = FOk true
          | Some e => fst f = FErr (grpc_code e)
          end).
Proof.
  intros W lg ln lc. split.
  - exact (get_session_transparent lg ln).
  - exact (close_session_transparent lc).
Qed.
