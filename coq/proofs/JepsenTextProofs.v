(** Proofs about the text form of a Jepsen log (C07 part 4): the lines [read_lines] (the ReadLine
    loop of parseJepsenLog) gets out of a text are the lines of the text whatever the line
    terminators are and whether or not the last line is terminated; blank lines do not matter;
    hence the round trip and the acceptance theorem hold for every text form of the saved log. *)
From Coq Require Import String Ascii ZArith Permutation.
From Drummer.Model Require Import Base Register WGL Jepsen JepsenText Recorder RecorderAtomic.
From Drummer.Proofs Require Import JepsenProofs RecorderProofs AtomicProofs.
From Coq Require Import ZifyN ZifyNat ZifyBool.
Open Scope N_scope.

(** * lines *)

Definition nolf (l : list N) : Prop := forallb (fun c => negb (c =? 10)) l = true.

Lemma plain_nolf : forall l, plain_line l = true -> nolf l.
Proof.
  intros l H. unfold nolf. apply (forallb_impl _ plain_byte); [|exact H].
  intros c Hc. unfold plain_byte in Hc. lia.
Qed.

Lemma nolf_cons : forall c l, nolf (c :: l) -> (c =? 10) = false /\ nolf l.
Proof.
  intros c l H. unfold nolf in *. cbn [forallb] in H. apply andb_true_iff in H. destruct H as [H1 H2].
  split; [lia|exact H2].
Qed.

Lemma nolf_snoc_cr : forall l, nolf l -> nolf (l ++ [13]).
Proof. intros l H. unfold nolf in *. rewrite forallb_app, H. reflexivity. Qed.

Lemma split_raw_nolf : forall l rest, nolf l ->
  split_raw (l ++ 10 :: rest) = (l ++ [10]) :: split_raw rest.
Proof.
  induction l as [|x l IH]; intros rest Hl.
  - reflexivity.
  - apply nolf_cons in Hl. destruct Hl as [Hx Hl].
    change ((x :: l) ++ 10 :: rest) with (x :: (l ++ 10 :: rest)). cbn [split_raw].
    rewrite Hx, (IH rest Hl). reflexivity.
Qed.

Lemma split_raw_last : forall l, nolf l -> l <> [] -> split_raw l = [l].
Proof.
  induction l as [|x l IH]; intros Hl Hne.
  - contradiction.
  - apply nolf_cons in Hl. destruct Hl as [Hx Hl]. cbn [split_raw]. rewrite Hx.
    destruct l as [|y l'].
    + reflexivity.
    + rewrite (IH Hl); [reflexivity|discriminate].
Qed.

Lemma chomp_crlf : forall l, chomp ((l ++ [13]) ++ [10]) = l.
Proof.
  intros l. unfold chomp. rewrite !rev_app_distr. cbn [rev app].
  change (10 =? 10) with true. change (13 =? 13) with true. cbv iota. apply rev_involutive.
Qed.

Lemma chomp_last : forall l, nolf l -> chomp l = l.
Proof.
  intros l Hl. unfold chomp. destruct (rev l) as [|c r] eqn:Hr; [reflexivity|].
  assert (Hc : (c =? 10) = false).
  { assert (Hin : In c l) by (apply in_rev; rewrite Hr; left; reflexivity).
    unfold nolf in Hl. rewrite forallb_forall in Hl. specialize (Hl c Hin). lia. }
  rewrite Hc. reflexivity.
Qed.

Lemma render_cons : forall x rest, render (x :: rest) = fst x ++ eol_bytes (snd x) ++ render rest.
Proof. intros x rest. unfold render. cbn [flat_map]. unfold render_line. rewrite <- app_assoc. reflexivity. Qed.

(** the ReadLine loop returns the lines of the text, whatever the terminators *)
Theorem read_lines_render : forall ls, text_ok ls = true -> read_lines (render ls) = map fst ls.
Proof.
  induction ls as [|[l e] rest IH]; intros H.
  - reflexivity.
  - cbn [text_ok fst snd] in H. apply andb_true_iff in H. destruct H as [H H3].
    apply andb_true_iff in H. destruct H as [H1 H2].
    rewrite render_cons. cbn [fst snd map]. specialize (IH H2). unfold read_lines in *.
    destruct e; cbn [eol_bytes].
    + (* "\n" *)
      change ([10] ++ render rest) with (10 :: render rest).
      rewrite (split_raw_nolf l _ (plain_nolf l H1)). cbn [map].
      rewrite (chomp_line l H1), IH. reflexivity.
    + (* "\r\n" *)
      change (l ++ [13; 10] ++ render rest) with (l ++ [13] ++ 10 :: render rest).
      rewrite app_assoc.
      rewrite (split_raw_nolf (l ++ [13]) _ (nolf_snoc_cr l (plain_nolf l H1))). cbn [map].
      rewrite chomp_crlf, IH. reflexivity.
    + (* no terminator: the last line *)
      apply andb_true_iff in H3. destruct H3 as [Hne Hrest].
      destruct rest as [|y rest']; [|discriminate Hrest].
      cbn [render flat_map app map]. rewrite app_nil_r.
      assert (Hl : l <> []) by (intros ->; discriminate Hne).
      rewrite (split_raw_last l (plain_nolf l H1) Hl). cbn [map].
      rewrite (chomp_last l (plain_nolf l H1)). reflexivity.
Qed.

(** * blank lines *)

Lemma blank_nomatch : forall l, is_blank l = true -> parse_line l = LNoMatch.
Proof.
  intros [|c l] H; unfold parse_line; cbn [starts_nonblank].
  - reflexivity.
  - unfold is_blank in H. cbn [forallb] in H. apply andb_true_iff in H. destruct H as [Hc _].
    rewrite Hc. reflexivity.
Qed.

Lemma fold_pstep_blank : forall ls s,
  fold_left pstep (map parse_line ls) s =
  fold_left pstep (map parse_line (filter (fun l => negb (is_blank l)) ls)) s.
Proof.
  induction ls as [|l ls IH]; intros s.
  - reflexivity.
  - cbn [filter map fold_left]. destruct (is_blank l) eqn:Hb; cbn [negb].
    + rewrite (blank_nomatch l Hb). cbn [pstep]. apply IH.
    + cbn [map fold_left]. apply IH.
Qed.

(** the parser's final state is a function of the non-blank lines *)
Theorem parse_state_render : forall ls, text_ok ls = true -> parse_state (render ls) = parse_lines (payload ls).
Proof.
  intros ls H. unfold parse_state, parse_lines, payload. rewrite (read_lines_render ls H).
  apply fold_pstep_blank.
Qed.

Theorem text_form_irrelevant : forall ls ls', text_ok ls = true -> text_ok ls' = true -> payload ls = payload ls' ->
  parse_log (render ls) = parse_log (render ls') /\
  (forall h, parse_allowed (render ls) h <-> parse_allowed (render ls') h).
Proof.
  intros ls ls' H H' Hp.
  assert (E : parse_state (render ls) = parse_state (render ls')).
  { rewrite (parse_state_render ls H), (parse_state_render ls' H'), Hp. reflexivity. }
  unfold parse_log, parse_allowed, parse_main, parse_open. rewrite E. split; [reflexivity|]. intros h. reflexivity.
Qed.

(** * the saved log as a text *)

Lemma render_saved : forall es, render (saved_text es) = format_log es.
Proof.
  intros es. unfold render, saved_text, format_log, format_log_with.
  induction es as [|e es IH]; [reflexivity|].
  cbn [map flat_map]. rewrite IH. reflexivity.
Qed.

Lemma text_ok_saved : forall es, text_ok (saved_text es) = true.
Proof.
  induction es as [|e es IH]; [reflexivity|].
  unfold saved_text in *. cbn [map text_ok fst snd]. rewrite IH.
  change (plain_line (format_line e)) with (forallb plainb (format_line_gen 3 true e)).
  rewrite (format_line_plain 3 true e). reflexivity.
Qed.

Lemma format_line_not_blank : forall e, is_blank (format_line e) = false.
Proof.
  intros e. unfold is_blank, format_line, format_line_gen. rewrite forallb_app.
  assert (Hp : forallb is_space line_prefix = false) by (vm_compute; reflexivity).
  rewrite Hp. reflexivity.
Qed.

Lemma payload_saved : forall es, payload (saved_text es) = map format_line es.
Proof.
  intros es. unfold payload, saved_text. rewrite map_map. cbn [fst].
  induction es as [|e es IH]; [reflexivity|].
  cbn [map filter]. rewrite (format_line_not_blank e). cbn [negb]. rewrite IH. reflexivity.
Qed.

(** the round trip for EVERY text form of the saved log *)
Theorem roundtrip_text : forall es ls, Forall (fun e => printable e = true) es ->
  text_ok ls = true -> payload ls = map format_line es ->
  parse_log (render ls) = expected_log es /\
  (forall h, parse_allowed (render ls) h <-> history_allowed es h).
Proof.
  intros es ls Hes Hok Hp.
  destruct (text_form_irrelevant ls (saved_text es) Hok (text_ok_saved es)) as [E1 E2].
  { rewrite payload_saved. exact Hp. }
  rewrite render_saved in E1, E2. destruct (roundtrip es Hes) as [R1 R2].
  split; [rewrite E1; exact R1|]. intros h. rewrite (E2 h). apply R2.
Qed.

(** a run against the atomic register is accepted whatever text form its log is handed over in *)
Theorem atomic_run_accepted_text : forall n lbls a tl, arun (ainit n) lbls = Some a ->
  n <= max_int + 1 -> value (a_s a) <= max_int + 1 ->
  text_ok tl = true -> payload tl = map format_line (events (a_s a)) ->
  forall h, parse_allowed (render tl) h -> wf h /\ linearizable h /\ check h = true.
Proof.
  intros n lbls a tl Hr Hn Hv Hok Hp h Hh.
  destruct (text_form_irrelevant tl (saved_text (events (a_s a))) Hok (text_ok_saved _)) as [_ E2].
  { rewrite payload_saved. exact Hp. }
  rewrite render_saved in E2. apply (atomic_run_accepted n lbls a Hr Hn Hv h). apply E2. exact Hh.
Qed.
