(** FleetMendAProofs: the stages "ADD applied / DELETE applied, Drummer's view behind" of the membership-change pipeline.

    [MendA]: as FleetMendProofs.Mend (joiners, strays, kill list, restore requests for removed members included),
    except that in some shards a membership change has just been applied: the current membership is (v+1, M') with
    M' = M + x (ADD) or M' = M - x (DELETE), Drummer's view still shows (v, M), every member of M has reported, an
    added replica x runs nowhere (a removed one may still run: it is a stray), and some running replica (the one
    that proposed the change, Fleet.learn_local) knows v+1.

    Proved, for EVERY outcome the scheduler model allows, all shards at once:
      [menda_reports]  the report phase of a healthy round brings every such shard to the stage "view current,
                       joiner waiting" resp. "view current, removed replica a stray": the state after it is in Mend;
      [menda_round]    one healthy round from MendA ends in Mend (the scheduler can only answer with a batch of
                       restore / join-CREATE / KILL requests);
      [menda_heal]     after 1 + detect_rounds + 4 healthy rounds the fleet is healed;
      [mend_menda]     Mend ⊆ MendA. *)
From stdpp Require Import gmap list numbers sorting.
From Coq Require Import ZifyN ZifyNat ZifyBool Lia.
From Drummer.Model Require Import DB Sched Fleet FleetRun MailboxSpec FleetRounds.
From Drummer.Proofs Require Import DBProofs DBViewProofs DBTimeProofs SchedProofs SchedTotal MailboxProofs FleetProofs FleetLiveProofs FleetHealProofs FleetMendProofs.
Local Open Scope N_scope.
Notation hist_of := Fleet.hist_of.

(* the history of the shard ends with an ADD of x that the view c does not show yet *)
Definition behind (h : list hentry) (c : shard) (v : N) (M M' : gmap N N) (x : N) (rest : list hentry) : Prop :=
  h = (v + 1, M') :: (v, M) :: rest ∧ s_cci c = v ∧
  ((M !! x = None ∧ ∃ t, M' = <[x := t]> M) ∨ (is_Some (M !! x) ∧ M' = delete x M)).

Lemma behind_other h c v M M' x rest rid : behind h c v M M' x rest → rid ≠ x → M' !! rid = M !! rid.
Proof.
  intros (_ & _ & [[_ [t ->]]|[_ ->]]) Hne; [by rewrite lookup_insert_ne|by rewrite lookup_delete_ne].
Qed.

Record MendA (st : fstate) : Prop := mkMendA {
  ma_inv : LoopInv st;
  ma_timeok : time_ok (f_db st);
  ma_time : 0 < d_tick (f_db st);
  ma_defined : ∀ s sd, d_shards (f_db st) !! s = Some sd → is_Some (f_hist st !! s) ∧ sd_members sd ≠ [] ∧ sd_app sd ≠ 0;
  ma_viewdef : ∀ s, is_Some (d_view (f_db st) !! s) → is_Some (d_shards (f_db st) !! s) ∧ is_Some (f_hist st !! s);
  ma_hosts : ∀ a fh, f_hosts st !! a = Some fh → fh_up fh = true ∧ fh_out fh = None;
  ma_kill : ∀ k, k ∈ d_kill (f_db st) → k_shard k ≠ 0 ∧ k_replica k ≠ 0 ∧ k_addr k ≠ 0;
  ma_boxes : ∀ a q, boxed_at st a q → mharmless (f_hist st) a q;
  ma_members : ∀ s h, f_hist st !! s = Some h →
    ∃ c, d_view (f_db st) !! s = Some c ∧ (s_cci c = cur_version h ∨ ∃ v M M' x rest, behind h c v M M' x rest) ∧
         ∀ rid a, cur_members h !! rid = Some a →
           rid ≠ 0 ∧ a ≠ 0 ∧ ∃ fh, f_hosts st !! a = Some fh ∧ (stamped (f_db st) s rid → is_Some (fh_reps fh !! (s, rid)));
  ma_behind : ∀ s h c v M M' x rest, f_hist st !! s = Some h → d_view (f_db st) !! s = Some c → behind h c v M M' x rest →
    (∀ rid n, s_reps c !! rid = Some n → r_tick n ≠ 0) ∧
    (M !! x = None → ∀ a fh lr, f_hosts st !! a = Some fh → fh_reps fh !! (s, x) = Some lr → lr_running lr = false) ∧
    (∃ a fh rid lr, f_hosts st !! a = Some fh ∧ fh_reps fh !! (s, rid) = Some lr ∧ lr_running lr = true ∧ lr_ver lr = v + 1);
  ma_waiting : ∀ s c rid n, d_view (f_db st) !! s = Some c → s_reps c !! rid = Some n → r_tick n = 0 → r_first n ≠ 0;
  ma_onejoin : ∀ s c r1 r2 n1 n2, d_view (f_db st) !! s = Some c → s_reps c !! r1 = Some n1 → s_reps c !! r2 = Some n2 →
    r_tick n1 = 0 → r_tick n2 = 0 → r1 = r2;
  ma_home : ∀ a fh s rid lr h a', f_hosts st !! a = Some fh → fh_reps fh !! (s, rid) = Some lr →
    f_hist st !! s = Some h → cur_members h !! rid = Some a' → a' = a;
  ma_nostray : ∀ a fh s rid lr, f_hosts st !! a = Some fh → fh_reps fh !! (s, rid) = Some lr → lr_running lr = true →
    (∃ h, f_hist st !! s = Some h ∧ is_Some (cur_members h !! rid)) ∨ stray_ok (f_hist st) a s rid lr }.

Theorem mend_menda st : Mend st → MendA st.
Proof.
  intros HM. split; try apply HM.
  - intros s h Hh. destruct (md_members _ HM s h Hh) as (c & Hc & Hcc & Hmem). exists c. split; [done|]. split; [by left|done].
  - intros s h c v M M' x rest Hh Hc (Hhh & Hv & Hkind). exfalso.
    destruct (md_members _ HM s h Hh) as (c' & Hc' & Hcc & _). assert (c' = c) as -> by congruence.
    rewrite Hhh in Hcc. cbn in Hcc. lia.
Qed.

(* all shards current: MendA is Mend *)
Lemma menda_mend st :
  MendA st → (∀ s h c, f_hist st !! s = Some h → d_view (f_db st) !! s = Some c → s_cci c = cur_version h) → Mend st.
Proof.
  intros HA Hcur. split; try apply HA.
  intros s h Hh. destruct (ma_members _ HA s h Hh) as (c & Hc & _ & Hmem). exists c. split; [done|]. split; [by apply (Hcur s)|done].
Qed.

(* at most one replica of a shard runs on a NodeHost *)
Lemma menda_one_running st a fh s r1 r2 l1 l2 :
  MendA st → f_hosts st !! a = Some fh → fh_reps fh !! (s, r1) = Some l1 → fh_reps fh !! (s, r2) = Some l2 →
  lr_running l1 = true → lr_running l2 = true →
  (∀ h, f_hist st !! s = Some h → cur_version h ≤ lr_ver l1 ∧ cur_version h ≤ lr_ver l2) → r1 = r2.
Proof.
  intros HA Ha H1 H2 R1 R2 Hvers. pose proof (ma_inv _ HA) as HI.
  destruct (ma_nostray _ HA a fh s r1 l1 Ha H1 R1) as [(h & Hh & [a1 Hm1])|(h & Hh & _ & Hlt & _)]; [|destruct (Hvers h Hh); lia].
  destruct (ma_nostray _ HA a fh s r2 l2 Ha H2 R2) as [(h' & Hh' & [a2 Hm2])|(h' & Hh' & _ & Hlt & _)]; [|destruct (Hvers h' Hh'); lia].
  assert (h' = h) as -> by congruence.
  pose proof (ma_home _ HA a fh s r1 l1 h a1 Ha H1 Hh Hm1) as ->. pose proof (ma_home _ HA a fh s r2 l2 h a2 Ha H2 Hh Hm2) as ->.
  destruct (cur_entry_at _ _ _ HI Hh) as [_ Hcurin].
  destruct (hist_wf_mem_ok _ _ (li_hist _ _ _ _ _ HI _ _ Hh) _ Hcurin) as [_ Hinj]. cbn [snd] in Hinj. eauto.
Qed.

Section MendA.
Variable P : params.

(* the entries of a report: which are complete *)
Lemma menda_info_complete st a fh plog ci :
  MendA st → f_hosts st !! a = Some fh → ci ∈ rp_infos (host_report (f_db st) (f_hist st) a fh plog) → complete ci = true →
  ∃ rid lr h c v M M' x rest, fh_reps fh !! (si_shard ci, rid) = Some lr ∧ lr_running lr = true ∧ si_replica ci = rid ∧
    f_hist st !! si_shard ci = Some h ∧ d_view (f_db st) !! si_shard ci = Some c ∧ behind h c v M M' x rest ∧
    lr_ver lr = v + 1 ∧ si_cci ci = v + 1.
Proof.
  intros HA Ha Hci Hcomp. unfold host_report in Hci. cbn [rp_infos] in Hci.
  apply elem_of_list_fmap in Hci as ([[s rid] lr] & -> & Hin). apply elem_of_list_filter in Hin as [Hrun Hin].
  apply sorted_reps_elem in Hin. cbn in Hrun, Hin.
  assert (∃ h, f_hist st !! s = Some h) as [h Hh].
  { destruct (ma_nostray _ HA _ _ _ _ _ Ha Hin Hrun) as [(h & Hh & _)|(h & Hh & _)]; by exists h. }
  destruct (ma_members _ HA _ _ Hh) as (c & Hc & Hcase & _).
  pose proof (rep_ver_le st a fh s rid lr h (ma_inv _ HA) Ha Hin Hh) as Hle.
  unfold rep_info, complete in Hcomp |- *. cbn [fst snd] in Hcomp |- *. destruct (lr_ver lr =? 0) eqn:Ez; [done|].
  cbn [si_shard si_replica si_cci]. unfold view_vers in Hcomp. rewrite lookup_fmap, Hc in Hcomp. cbn in Hcomp.
  destruct (lr_ver lr <=? s_cci c) eqn:Ele; [done|]. apply N.leb_gt in Ele.
  destruct Hcase as [Hcc|(v & M & M' & x & rest & Hb)]; [lia|].
  exists rid, lr, h, c, v, M, M', x, rest. pose proof Hb as (Hhh & Hv & _). rewrite Hhh in Hle. cbn in Hle.
  repeat (split; [done|]). split; lia.
Qed.

Lemma menda_n_complete st a fh plog s :
  MendA st → f_hosts st !! a = Some fh → (n_complete s (rp_infos (host_report (f_db st) (f_hist st) a fh plog)) ≤ 1)%nat.
Proof.
  intros HA Ha. unfold n_complete.
  set (l := filter (λ ci, complete_for s ci = true) (rp_infos (host_report (f_db st) (f_hist st) a fh plog))).
  destruct l as [|c1 [|c2 l']] eqn:El; cbn [length]; [lia|lia|]. exfalso.
  assert (Hnd : NoDup l).
  { unfold l. apply NoDup_filter. unfold host_report. cbn [rp_infos]. apply NoDup_fmap_2_strong.
    - intros [k1 l1] [k2 l2] H1 H2 Heq. apply elem_of_list_filter in H1 as [_ H1]. apply elem_of_list_filter in H2 as [_ H2].
      apply sorted_reps_elem in H1, H2. cbn in H1, H2.
      assert (k1 = k2) as ->.
      { destruct k1 as [s1 r1], k2 as [s2 r2]. unfold rep_info in Heq. cbn [fst snd] in Heq.
        destruct (lr_ver l1 =? 0), (lr_ver l2 =? 0); by injection Heq as -> ->. }
      congruence.
    - apply NoDup_filter. unfold sorted_reps. rewrite merge_sort_Permutation. apply NoDup_map_to_list. }
  assert (Hall : ∀ ci, ci ∈ l → ∃ rid lr, fh_reps fh !! (s, rid) = Some lr ∧ lr_running lr = true ∧
            ci = rep_info (view_vers (f_db st)) (f_hist st) (s, rid) lr ∧
            ∀ h, f_hist st !! s = Some h → cur_version h ≤ lr_ver lr).
  { intros ci Hci. unfold l in Hci. apply elem_of_list_filter in Hci as [Hcf Hci].
    unfold complete_for in Hcf. apply andb_true_iff in Hcf as [Hcf Hcomp]. apply andb_true_iff in Hcf as [Hs Hpend]. apply N.eqb_eq in Hs.
    assert (Hcomp' : complete ci = true) by (unfold complete; by rewrite Hpend, Hcomp).
    destruct (menda_info_complete st a fh plog ci HA Ha Hci Hcomp') as (rid0 & lr0 & h0 & c0 & v0 & M0 & M0' & x0 & rest0 & Hk0 & Hr0 & Hrid0 & Hh0 & _ & Hb0 & Hv0 & _).
    unfold host_report in Hci. cbn [rp_infos] in Hci.
    apply elem_of_list_fmap in Hci as ([[s0 rid] lr] & -> & Hin). apply elem_of_list_filter in Hin as [Hrun Hin].
    apply sorted_reps_elem in Hin. cbn in Hrun, Hin.
    assert (s0 = s) as -> by (unfold rep_info in Hs; cbn [fst snd] in Hs; by destruct (lr_ver lr =? 0)).
    assert (Hsi : si_shard (rep_info (view_vers (f_db st)) (f_hist st) (s, rid) lr) = s) by (unfold rep_info; by destruct (lr_ver lr =? 0)).
    assert (Hri : si_replica (rep_info (view_vers (f_db st)) (f_hist st) (s, rid) lr) = rid) by (unfold rep_info; by destruct (lr_ver lr =? 0)).
    cbn [fst snd] in Hk0, Hrid0, Hh0. rewrite Hsi in Hk0, Hh0. rewrite Hri in Hrid0. subst rid0.
    assert (lr0 = lr) as -> by congruence.
    exists rid, lr. split; [done|]. split; [done|]. split; [done|]. intros h Hh. assert (h = h0) as -> by congruence.
    destruct Hb0 as (-> & _). cbn. lia. }
  destruct (Hall c1) as (r1 & l1 & K1 & R1 & E1 & V1); [rewrite El; left|].
  destruct (Hall c2) as (r2 & l2 & K2 & R2 & E2 & V2); [rewrite El; right; left|].
  assert (r1 = r2) as -> by (apply (menda_one_running st a fh s r1 r2 l1 l2 HA Ha K1 K2 R1 R2); intros h Hh; split; [by apply V1|by apply V2]).
  assert (l2 = l1) as -> by congruence.
  rewrite El in Hnd. apply NoDup_cons in Hnd as [Hnotin _]. apply Hnotin. rewrite E1, E2. left.
Qed.

(** * one host reports *)
Lemma menda_report st a fh plog :
  MendA st → f_hosts st !! a = Some fh →
  ∃ st', steps P st [ESnap a plog; EDeliver a false] = Some st' ∧ MendA st' ∧
    f_hist st' = f_hist st ∧ f_seen st' = f_seen st ∧
    d_tick (f_db st') = d_tick (f_db st) ∧ d_shards (f_db st') = d_shards (f_db st) ∧
    d_requests (f_db st') = delete a (d_requests (f_db st)) ∧
    f_hosts st' = <[a := mkFHost true (fh_region fh) (fh_reps fh) (fh_queue fh ++ default [] (d_requests (f_db st) !! a)) None]> (f_hosts st) ∧
    (∀ s h c, f_hist st !! s = Some h → d_view (f_db st) !! s = Some c →
       ∃ c', d_view (f_db st') !! s = Some c' ∧ (s_cci c' = s_cci c ∨ s_cci c' = cur_version h) ∧
             (s_cci c = cur_version h → s_cci c' = cur_version h) ∧
             ((∃ rid lr, fh_reps fh !! (s, rid) = Some lr ∧ lr_running lr = true ∧ lr_ver lr = cur_version h) → s_cci c' = cur_version h)) ∧
    (∀ s rid, stamped (f_db st') s rid → stamped (f_db st) s rid ∨ runs_on fh s rid = true) ∧
    (∃ h, d_hosts (f_db st') !! a = Some h ∧ h_tick h = d_tick (f_db st) ∧
          (plog = true → ∀ k, is_Some (fh_reps fh !! k) → k ∈ h_plog h)) ∧
    (∀ a' h, a' ≠ a → d_hosts (f_db st) !! a' = Some h →
       ∃ h', d_hosts (f_db st') !! a' = Some h' ∧ h_tick h' = h_tick h ∧ h_plog h' = h_plog h).
Proof.
  intros HC Ha. destruct (ma_hosts _ HC _ _ Ha) as (Hup & Hout).
  pose proof (ma_inv _ HC) as HI.
  set (r := host_report (f_db st) (f_hist st) a fh plog).
  set (fh1 := mkFHost true (fh_region fh) (fh_reps fh) (fh_queue fh) (Some r)).
  set (st1 := set_host st a fh1).
  assert (E1 : fstep P st (ESnap a plog) = FOk st1) by (cbn [fstep]; by rewrite Ha, Hup).
  pose proof (step_inv P st (ESnap a plog) st1 HI I E1) as HI1.
  assert (Ha1 : f_hosts st1 !! a = Some fh1) by (unfold st1, set_host; cbn; by rewrite lookup_insert).
  pose proof (step_deliver_no_panic P st1 a false HI1) as Hnp.
  cbn [fstep] in Hnp. rewrite Ha1 in Hnp. cbn [fh_up fh1 fh_out] in Hnp.
  destruct (db_step P (f_db st1) (CReport r)) as [d' v0| |] eqn:Es; try done. clear Hnp.
  set (fh2 := mkFHost true (fh_region fh1) (fh_reps fh1) (fh_queue fh1 ++ lookup_requests d' a) None).
  set (st2 := mkF d' (<[a := fh2]> (f_hosts st1)) (f_hist st1) (f_seen st1)).
  assert (E2 : fstep P st1 (EDeliver a false) = FOk st2).
  { cbn [fstep]. rewrite Ha1. cbn [fh_up fh1 fh_out]. by rewrite Es. }
  pose proof (step_inv P st1 (EDeliver a false) st2 HI1 I E2) as HI2.
  change (f_db st1) with (f_db st) in Es.
  assert (Hn : next P (f_db st) (CReport r) = Some d') by (unfold next; by rewrite Es).
  pose proof Hn as Hn'. apply next_cases in Hn' as [[Hf' _]|[_ (view' & kill' & Hvu & Ed')]];
    [rewrite (li_failed _ _ _ _ _ HI) in Hf'; done|].
  pose proof (li_deadline _ _ _ _ _ HI) as Hdl.
  destruct (report_result_all (f_db st) (stamp (f_db st) r) view' kill' Hdl) as (F1 & F2 & F3 & F4 & F5 & F6 & F7 & F8).
  destruct (report_result_mail (f_db st) (stamp (f_db st) r) view' kill' Hdl) as [Hreply Hreqs].
  rewrite <- Ed' in F1, F2, F3, F4, F5, F6, F7, F8, Hreply, Hreqs.
  change (rp_addr (stamp (f_db st) r)) with a in Hreply, Hreqs.
  assert (Htick : d_tick d' = d_tick (f_db st)).
  { rewrite Ed'. by destruct (DBTimeProofs.report_result_fields (f_db st) (stamp (f_db st) r) view' kill') as (Et & _). }
  assert (Hhosts2 : <[a := fh2]> (f_hosts st1) =
            <[a := mkFHost true (fh_region fh) (fh_reps fh) (fh_queue fh ++ default [] (d_requests (f_db st) !! a)) None]> (f_hosts st)).
  { unfold st1, set_host. cbn [f_hosts]. rewrite insert_insert. unfold fh2, fh1. cbn. by rewrite Hreply. }
  assert (Hst2 : st2 = mkF d' (<[a := mkFHost true (fh_region fh) (fh_reps fh) (fh_queue fh ++ default [] (d_requests (f_db st) !! a)) None]> (f_hosts st))
                        (f_hist st) (f_seen st)).
  { unfold st2. rewrite Hhosts2. done. }
  pose proof (step_ver_mono P (f_db st) _ d' Hn) as Hmono. apply ver_mono_view_le in Hmono as Hvle.
  assert (Hview2 : view_inv (Hf (f_hist st)) (d_view d')) by (apply (li_view _ _ _ _ _ HI2)).
  (* versions *)
  assert (Hvers : ∀ s h c, f_hist st !! s = Some h → d_view (f_db st) !! s = Some c →
            ∃ c', d_view d' !! s = Some c' ∧ s_cci c ≤ s_cci c' ∧ s_cci c' ≤ cur_version h ∧
                  entry_at h (s_cci c') = Some (r_addr <$> s_reps c')).
  { intros s h c Hh Hc. destruct (Hvle _ _ Hc) as (c' & Hc' & Hle). exists c'. split; [done|]. split; [done|].
    destruct (Hview2 s c' Hc') as (_ & HH & _). unfold Hf, hist_of in HH. rewrite Hh in HH. cbn in HH. split; [|done].
    apply (hist_wf_le _ _ (li_hist _ _ _ _ _ HI _ _ Hh) _ (entry_at_Some _ _ _ HH)). }
  assert (Hviewdom : ∀ s c', d_view d' !! s = Some c' → is_Some (d_view (f_db st) !! s)).
  { intros s c' Hc'. destruct (d_view (f_db st) !! s) as [c|] eqn:Ec; [by eexists|]. exfalso.
    (* a view appears only for a complete entry *)
    pose proof (view_update_grows _ _ _ _ _ _ s Hvu) as Hg. unfold ver in Hg. rewrite Ec in Hg. rewrite F4 in Hc'.
    rewrite Hc' in Hg. cbn in Hg. destruct Hg as [[?|Hin] _]; [done|].
    unfold entry_versions in Hin. apply elem_of_list_bind in Hin as (ci & Hin & Hci). cbn [stamp rp_infos] in Hci.
    destruct (decide _) as [[Hs Hcomp]|]; [|by apply elem_of_nil in Hin].
    destruct (menda_info_complete st a fh plog ci HC Ha Hci Hcomp) as (_ & _ & _ & c0 & _ & _ & _ & _ & _ & _ & _ & _ & _ & Hc0 & _).
    rewrite Hs in Hc0. congruence. }
  (* times *)
  assert (Hticks : ∀ s rid n', rec_of (d_view d') s rid = Some n' →
            (∃ n, rec_of (d_view (f_db st)) s rid = Some n ∧ r_first n' = r_first n ∧
                  r_tick n' = if runs_on fh s rid then d_tick (f_db st) else r_tick n) ∨
            (rec_of (d_view (f_db st)) s rid = None ∧ r_first n' = d_tick (f_db st) ∧
             r_tick n' = if runs_on fh s rid then d_tick (f_db st) else 0)).
  { intros s rid n' Hrec.
    destruct (step_times P (f_db st) (CReport r) d' s rid n' Hn Hrec) as [(n0 & Hn0 & Hfi & Htk)|(r0 & Er0 & _ & Hor & Hfi & Htk)].
    - left. exists n0. split; [done|]. split; [done|]. rewrite (li_failed _ _ _ _ _ HI) in Htk. cbn [negb andb names_cmd] in Htk.
      unfold r in Htk. rewrite (report_names_runs st a fh plog s rid Ha) in Htk. done.
    - injection Er0 as <-. destruct Hor as [Hnone|Hmulti].
      + right. split; [done|]. split; [done|]. cbn [names_cmd] in Htk. unfold r in Htk.
        rewrite (report_names_runs st a fh plog s rid Ha) in Htk. done.
      + exfalso. unfold multi_entry in Hmulti. pose proof (menda_n_complete st a fh plog s HC Ha). fold r in H. lia. }
  assert (Hstamped : ∀ s rid, stamped d' s rid → stamped (f_db st) s rid ∨ runs_on fh s rid = true).
  { intros s rid (n' & Hrec' & Hnz). destruct (Hticks s rid n' Hrec') as [(n & Hrec & _ & Htk)|(_ & _ & Htk)].
    - destruct (runs_on fh s rid); [by right|]. left. exists n. split; [done|]. congruence.
    - destruct (runs_on fh s rid); [by right|]. congruence. }
  (* the report is consistent with the history *)
  assert (Hrok : Forall (DBViewProofs.entry_ok (Hf (f_hist st))) (rp_infos (stamp (f_db st) r))).
  { cbn [stamp rp_infos]. eapply Forall_impl; [eapply (host_report_ok _ _ _ _ _ a fh plog HI Ha)|]. by intros ci [He _]. }
  (* the kill list: only replicas of removed members are added *)
  assert (Hkill' : ∀ k, k ∈ kill' → k_shard k ≠ 0 ∧ k_replica k ≠ 0 ∧ k_addr k ≠ 0).
  { unfold view_update in Hvu.
    destruct (update_entries (d_tick (f_db st)) (d_view (f_db st), []) (rp_infos (stamp (f_db st) r))) as [[view1 tokill]|] eqn:Eu; [|done].
    injection Hvu as _ <-. intros k Hk. apply elem_of_app in Hk as [Hk|Hk].
    { apply elem_of_list_filter in Hk as [_ Hk]. by apply (ma_kill _ HC). }
    apply elem_of_list_fmap in Hk as (ci & -> & Hci). cbn [k_shard k_replica k_addr stamp rp_addr].
    destruct (update_entries_tokill (Hf (f_hist st)) _ _ _ _ _ _ (li_view _ _ _ _ _ HI) Hrok Eu ci Hci)
      as [Hnil|(Hin & vm & ec & Hvi & Hvm & Hl & Hkr)]; [by apply elem_of_nil in Hnil|].
    cbn [stamp rp_infos] in Hin. unfold r, host_report in Hin. cbn [rp_infos] in Hin.
    apply elem_of_list_fmap in Hin as ([[s rid] lr] & -> & Hin). apply elem_of_list_filter in Hin as [Hrun Hin].
    apply sorted_reps_elem in Hin. cbn in Hrun, Hin. cbn [fst snd] in Hl, Hkr.
    assert (Hs : si_shard (rep_info (view_vers (f_db st)) (f_hist st) (s, rid) lr) = s) by (unfold rep_info; by destruct (lr_ver lr =? 0)).
    assert (Hr : si_replica (rep_info (view_vers (f_db st)) (f_hist st) (s, rid) lr) = rid) by (unfold rep_info; by destruct (lr_ver lr =? 0)).
    cbn [fst snd]. rewrite Hs, Hr.
    destruct (ma_nostray _ HC _ _ _ _ _ Ha Hin Hrun) as [(h & Hh & [am Hm])|(h & Hh & _ & _ & _ & ? & ? & ?)]; [exfalso|done].
    destruct (ma_members _ HC _ _ Hh) as (c & Hc & Hcase & _).
    rewrite Hs in Hl. destruct (Hvi _ _ Hl) as (_ & HH & _). unfold Hf, hist_of in HH. rewrite Hh in HH. cbn in HH.
    pose proof (li_hist _ _ _ _ _ HI _ _ Hh) as Hw.
    pose proof (hist_wf_le _ _ Hw _ (entry_at_Some _ _ _ HH)) as Hle. cbn [fst] in Hle.
    assert (Hge : s_cci c ≤ s_cci ec).
    { destruct (Hvm s (s_cci c)) as (v' & Hv' & Hvle'); [unfold ver; by rewrite Hc|].
      unfold ver in Hv'. rewrite Hl in Hv'. cbn in Hv'. injection Hv' as <-. lia. }
    (* rid is a member of the entry ec shows *)
    assert (Hmem : is_Some ((r_addr <$> s_reps ec) !! rid)).
    { destruct Hcase as [Hcc|(v & M & M' & x & rest & Hb)].
      - assert (Heq : s_cci ec = cur_version h) by lia. destruct (cur_entry_at _ _ _ HI Hh) as [Hcur _].
        rewrite Heq, Hcur in HH. injection HH as HH. rewrite <- HH. by eexists.
      - destruct (ma_behind _ HC s h c v M M' x rest Hh Hc Hb) as (_ & Hxrun & _).
        assert (Hnx : rid ≠ x).
        { intros ->. destruct Hb as (Hhh0 & _ & [[HMx _]|[_ HM']]).
          - rewrite (Hxrun HMx a fh lr Ha Hin) in Hrun; done.
          - rewrite Hhh0 in Hm. cbn in Hm. rewrite HM', lookup_delete in Hm. done. }
        pose proof (behind_other _ _ _ _ _ _ _ rid Hb Hnx) as Hsame. destruct Hb as (Hhh & Hv & _).
        rewrite Hhh in Hm, HH, Hle. cbn in Hm, HH, Hle.
        destruct (s_cci ec =? v + 1) eqn:Ev1.
        + destruct (v + 1 =? s_cci ec) eqn:Ev1'; [|apply N.eqb_eq in Ev1; apply N.eqb_neq in Ev1'; lia].
          injection HH as HH. rewrite <- HH. by eexists.
        + apply N.eqb_neq in Ev1. assert (s_cci ec = v) as Hev by lia.
          assert ((v + 1 =? s_cci ec) = false) as Ev2 by (apply N.eqb_neq; lia). rewrite Ev2 in HH.
          rewrite Hev, N.eqb_refl in HH. injection HH as HH. rewrite <- HH, <- Hsame. by eexists. }
    rewrite lookup_fmap in Hmem. apply fmap_is_Some in Hmem as [n0 Hn0].
    unfold kill_required in Hkr. rewrite Hr, Hn0 in Hkr. by destruct (s_cci ec <=? _). }
  exists st2. split.
  { cbn [steps]. rewrite E1, E2. done. }
  assert (Hrepsame : ∀ a0 fh0, f_hosts st2 !! a0 = Some fh0 → ∃ fh', f_hosts st !! a0 = Some fh' ∧ fh_reps fh0 = fh_reps fh' ∧ fh_up fh0 = true ∧ fh_out fh0 = None).
  { intros a0 fh0. rewrite Hst2. cbn [f_hosts]. destruct (decide (a0 = a)) as [->|Hne].
    - rewrite lookup_insert. intros [= <-]. exists fh. done.
    - rewrite lookup_insert_ne by done. intros H0. exists fh0. split; [done|]. split; [done|]. by apply (ma_hosts _ HC a0). }
  (* the versions after the report *)
  assert (Hcase' : ∀ s h c, f_hist st !! s = Some h → d_view (f_db st) !! s = Some c →
            ∃ c', d_view d' !! s = Some c' ∧ (s_cci c' = s_cci c ∨ s_cci c' = cur_version h) ∧
                  (s_cci c = cur_version h → s_cci c' = cur_version h) ∧
                  ((∃ rid lr, fh_reps fh !! (s, rid) = Some lr ∧ lr_running lr = true ∧ lr_ver lr = cur_version h) → s_cci c' = cur_version h)).
  { intros s h c Hh Hc. destruct (Hvers s h c Hh Hc) as (c' & Hc' & Hlo & Hhi & _). exists c'. split; [done|].
    destruct (ma_members _ HC s h Hh) as (c0 & Hc0 & Hcase & _). assert (c0 = c) as -> by congruence.
    destruct Hcase as [Hcc|(v & M & M' & x & rest & Hhh & Hv & Hkind)].
    - split; [left; lia|]. split; [intros _; lia|intros _; lia].
    - assert (Hcv : cur_version h = v + 1) by (rewrite Hhh; done).
      split; [lia|]. split; [lia|]. intros (rid & lr & Hk & Hrun & Hver).
      (* the complete entry of that replica *)
      pose proof (view_update_grows _ _ _ _ _ _ s Hvu) as Hg. unfold ver in Hg. rewrite F4 in Hc'. rewrite Hc, Hc' in Hg. cbn in Hg.
      destruct Hg as (_ & _ & Hmax). assert (Hin : v + 1 ∈ entry_versions s (rp_infos (stamp (f_db st) r))); [|specialize (Hmax _ Hin); lia].
      unfold entry_versions. apply elem_of_list_bind. exists (rep_info (view_vers (f_db st)) (f_hist st) (s, rid) lr). split.
      + unfold rep_info. cbn [fst snd]. assert ((lr_ver lr =? 0) = false) as -> by (apply N.eqb_neq; lia).
        unfold view_vers. rewrite lookup_fmap, Hc. cbn. assert ((lr_ver lr <=? s_cci c) = false) as -> by (apply N.leb_gt; lia).
        rewrite decide_True by done. cbn. rewrite Hver, Hcv. left.
      + cbn [stamp rp_infos]. unfold r, host_report. cbn [rp_infos]. apply elem_of_list_fmap. exists ((s, rid), lr). split; [done|].
        apply elem_of_list_filter. split; [done|]. unfold sorted_reps. rewrite merge_sort_Permutation. by apply elem_of_map_to_list. }
  split.
  { (* MendA *)
    split.
    - exact HI2.
    - eapply fstep_time_ok; [exact E2|]. eapply fstep_time_ok; [exact E1|]. apply (ma_timeok _ HC).
    - cbn [st2 f_db]. rewrite Htick. apply (ma_time _ HC).
    - cbn [st2 f_db f_hist]. rewrite F3. apply (ma_defined _ HC).
    - cbn [st2 f_db f_hist]. rewrite F3. intros s [c' Hc']. apply (ma_viewdef _ HC). by apply (Hviewdom s c').
    - intros a0 fh0 H0. destruct (Hrepsame a0 fh0 H0) as (_ & _ & _ & ? & ?). done.
    - cbn [st2 f_db]. rewrite F5. exact Hkill'.
    - intros b q Hq. rewrite Hst2 in Hq. apply (ma_boxes _ HC). unfold boxed_at in Hq |- *. cbn [f_db f_hosts] in Hq.
      destruct Hq as [(qs & Hl & Hin)|[(qs & Hl & Hin)|(fhb & Hb & Hin)]].
      + left. exists qs. split; [by apply F7|done].
      + destruct (F8 _ _ Hl) as [Ho|Ho]; [right; left|left]; eauto.
      + destruct (decide (b = a)) as [->|Hne].
        * rewrite lookup_insert in Hb. injection Hb as <-. cbn [fh_queue] in Hin. apply elem_of_app in Hin as [Hin|Hin].
          -- right; right. eauto.
          -- destruct (d_requests (f_db st) !! a) as [qs|] eqn:Eq; [|by apply elem_of_nil in Hin]. left. eauto.
        * rewrite lookup_insert_ne in Hb by done. right; right. eauto.
    - (* members *)
      cbn [st2 f_db f_hist]. intros s h Hh. destruct (ma_members _ HC s h Hh) as (c & Hc & Hcase & Hmem).
      destruct (Hcase' s h c Hh Hc) as (c' & Hc' & Hor & Hkeep & _). exists c'. split; [done|]. split.
      { destruct Hor as [Heq|Hcur]; [|by left]. destruct Hcase as [Hcc|(v & M & M' & x & rest & Hhh & Hv & Hkind)]; [left; congruence|].
        right. exists v, M, M', x, rest. split; [done|]. split; [congruence|done]. }
      intros rid a0 Hm. destruct (Hmem rid a0 Hm) as (Hr0 & Ha0 & fh0 & Hfh0 & Hdata). split; [done|]. split; [done|].
      assert (Hdata' : stamped d' s rid → is_Some (fh_reps fh0 !! (s, rid))).
      { intros Hst. destruct (Hstamped s rid Hst) as [Hold|Erun]; [by apply Hdata|].
        unfold runs_on in Erun. destruct (fh_reps fh !! (s, rid)) as [lr|] eqn:Ek; [|done].
        assert (a0 = a) as -> by (by apply (ma_home _ HC a fh s rid lr h a0)). assert (fh0 = fh) as -> by congruence. by eexists. }
      rewrite Hst2. cbn [f_hosts]. destruct (decide (a0 = a)) as [->|Hne].
      + rewrite lookup_insert. assert (fh0 = fh) as -> by congruence. eexists. split; [done|]. exact Hdata'.
      + rewrite lookup_insert_ne by done. eauto.
    - (* still behind: nothing happened to the shard *)
      cbn [st2 f_db f_hist]. intros s h c' v M M' x rest Hh Hc' (Hhh & Hv & Hkind).
      destruct (Hviewdom s c' Hc') as [c Hc]. destruct (Hvers s h c Hh Hc) as (c2 & Hc2 & Hlo & _). assert (c2 = c') as -> by congruence.
      destruct (ma_members _ HC s h Hh) as (c0 & Hc0 & Hcase & _). assert (c0 = c) as -> by congruence.
      assert (Hbc : behind h c v M M' x rest).
      { destruct Hcase as [Hcc|(v1 & M1 & M1' & x1 & rest1 & Hhh1 & Hv1 & Hkind1)].
        - rewrite Hhh in Hcc. cbn in Hcc. lia.
        - rewrite Hhh in Hhh1. injection Hhh1 as Hv2 _ _ _. assert (v1 = v) as -> by lia. split; [done|]. split; [done|done]. }
      destruct (ma_behind _ HC s h c v M M' x rest Hh Hc Hbc) as (Hst & Hxrun & Hknow). split; [|split].
      + intros rid n' Hn'. assert (Hrec' : rec_of (d_view d') s rid = Some n') by (apply rec_of_Some; eauto).
        destruct (Hticks s rid n' Hrec') as [(n & Hrec & _ & Htk)|(Hnone & _ & _)].
        * rewrite Htk. destruct (runs_on fh s rid); [pose proof (ma_time _ HC); lia|].
          apply rec_of_Some in Hrec as (c1 & Hc1 & Hn1). assert (c1 = c) as -> by congruence. by apply (Hst rid n).
        * (* a record that was not there: the view would have moved *)
          exfalso. destruct (Hview2 s c' Hc') as (_ & HH' & _). destruct (li_view _ _ _ _ _ HI s c Hc) as (_ & HH & _).
          rewrite Hv in HH'. destruct Hbc as (_ & Hvc & _). rewrite Hvc in HH. rewrite HH in HH'. injection HH' as HH'.
          assert (is_Some ((r_addr <$> s_reps c) !! rid)) as Hs by (rewrite HH', lookup_fmap, Hn'; by eexists).
          rewrite lookup_fmap in Hs. apply fmap_is_Some in Hs as [n0 Hn0].
          assert (rec_of (d_view (f_db st)) s rid = Some n0) by (apply rec_of_Some; eauto). congruence.
      + intros HMx a0 fh0 lr H0 Hk. destruct (Hrepsame a0 fh0 H0) as (fh' & Hfh' & Hreps & _). rewrite Hreps in Hk. by apply (Hxrun HMx a0 fh').
      + destruct Hknow as (a0 & fh0 & rid & lr & H0 & Hk & Hrun & Hver). exists a0. rewrite Hst2. cbn [f_hosts].
        destruct (decide (a0 = a)) as [->|Hne].
        * rewrite lookup_insert. assert (fh0 = fh) as -> by congruence. eexists _, rid, lr. split; [done|]. done.
        * rewrite lookup_insert_ne by done. eauto 10.
    - (* waiting records have a first-observed time *)
      cbn [st2 f_db]. intros s c' rid n' Hc' Hn' Hz. assert (Hrec : rec_of (d_view d') s rid = Some n') by (apply rec_of_Some; eauto).
      destruct (Hticks s rid n' Hrec) as [(n0 & Hn0 & Hfi & Htk)|(_ & Hfi & _)].
      + rewrite Hfi. rewrite Htk in Hz. destruct (runs_on fh s rid); [pose proof (ma_time _ HC); lia|].
        apply rec_of_Some in Hn0 as (c0 & Hc0 & Hn0). by apply (ma_waiting _ HC s c0 rid n0).
      + rewrite Hfi. pose proof (ma_time _ HC). lia.
    - (* at most one waiting record per shard *)
      cbn [st2 f_db]. intros s c' r1 r2 n1 n2 Hc' H1 H2 Hz1 Hz2.
      assert (Hrec1 : rec_of (d_view d') s r1 = Some n1) by (apply rec_of_Some; eauto).
      assert (Hrec2 : rec_of (d_view d') s r2 = Some n2) by (apply rec_of_Some; eauto).
      pose proof (ma_time _ HC) as Hpos.
      destruct (Hviewdom s c' Hc') as [c Hc]. destruct (ma_viewdef _ HC s) as [_ [h Hh]]; [by eexists|].
      destruct (ma_members _ HC s h Hh) as (c0 & Hc0 & Hcase & _). assert (c0 = c) as -> by congruence.
      (* an old waiting record, or a new one *)
      assert (Hold : ∀ rid n', rec_of (d_view d') s rid = Some n' → r_tick n' = 0 →
                (∃ n, s_reps c !! rid = Some n ∧ r_tick n = 0) ∨ s_reps c !! rid = None).
      { intros rid n' Hrec' Hz'. destruct (Hticks s rid n' Hrec') as [(n & Hrec & _ & Htk)|(Hnone & _ & _)].
        - left. apply rec_of_Some in Hrec as (c1 & Hc1 & Hn1). assert (c1 = c) as -> by congruence. exists n. split; [done|].
          rewrite Htk in Hz'. destruct (runs_on fh s rid); lia.
        - right. destruct (s_reps c !! rid) as [n0|] eqn:E0; [|done]. assert (rec_of (d_view (f_db st)) s rid = Some n0) by (apply rec_of_Some; eauto). congruence. }
      destruct Hcase as [Hcc|(v & M & M' & x & rest & Hb)].
      + (* current before: no new record *)
        destruct (Hcase' s h c Hh Hc) as (c2 & Hc2 & _ & Hkeep & _). assert (c2 = c') as -> by congruence.
        specialize (Hkeep Hcc). destruct (Hview2 s c' Hc') as (_ & HH' & _). destruct (li_view _ _ _ _ _ HI s c Hc) as (_ & HH & _).
        rewrite Hkeep in HH'. rewrite Hcc in HH. rewrite HH in HH'. injection HH' as HH'.
        assert (Hin : ∀ rid n', s_reps c' !! rid = Some n' → is_Some (s_reps c !! rid)).
        { intros rid n' Hn'. rewrite <- (fmap_is_Some r_addr), <- lookup_fmap, HH', lookup_fmap, Hn'. by eexists. }
        destruct (Hold r1 n1 Hrec1 Hz1) as [(m1 & Hm1 & Hzm1)|Hn1]; [|destruct (Hin r1 n1 H1); congruence].
        destruct (Hold r2 n2 Hrec2 Hz2) as [(m2 & Hm2 & Hzm2)|Hn2]; [|destruct (Hin r2 n2 H2); congruence].
        by apply (ma_onejoin _ HC s c r1 r2 m1 m2).
      + (* behind before: every old record has reported; a waiting record is the new member x *)
        destruct (ma_behind _ HC s h c v M M' x rest Hh Hc Hb) as (Hst & _ & _).
        assert (Hisx : ∀ rid n', s_reps c' !! rid = Some n' → rec_of (d_view d') s rid = Some n' → r_tick n' = 0 → rid = x).
        { intros rid n' Hn' Hrec' Hz'. destruct (Hold rid n' Hrec' Hz') as [(n & Hnn & Hzn)|Hnone]; [by destruct (Hst rid n Hnn)|].
          destruct (decide (rid = x)) as [?|Hnx]; [done|]. exfalso.
          pose proof (behind_other _ _ _ _ _ _ _ rid Hb Hnx) as Hsame. destruct Hb as (Hhh & Hv & _).
          destruct (Hview2 s c' Hc') as (_ & HH' & _). destruct (li_view _ _ _ _ _ HI s c Hc) as (_ & HH & _).
          unfold Hf, hist_of in HH, HH'. rewrite Hh in HH, HH'. cbn in HH, HH'. rewrite Hhh in HH, HH'. rewrite Hv in HH. cbn in HH, HH'.
          assert ((v + 1 =? v) = false) as Hne by (apply N.eqb_neq; lia). rewrite Hne, N.eqb_refl in HH. injection HH as HH.
          assert (HMr : M !! rid = None) by (rewrite HH, lookup_fmap, Hnone; done).
          destruct (v + 1 =? s_cci c') eqn:Ev1.
          - injection HH' as HH'. assert (Hl : M' !! rid = Some (r_addr n')) by (rewrite HH', lookup_fmap, Hn'; done). congruence.
          - destruct (v =? s_cci c') eqn:Ev2.
            2:{ destruct (Hvers s h c Hh Hc) as (c3 & Hc3 & Hlo3 & Hhi3 & _). assert (c3 = c') as -> by congruence.
                rewrite Hhh in Hhi3. cbn in Hhi3. apply N.eqb_neq in Ev1, Ev2. lia. }
            injection HH' as HH'.
            assert (Hl : M !! rid = Some (r_addr n')) by (rewrite HH', lookup_fmap, Hn'; done). congruence. }
        rewrite (Hisx r1 n1 H1 Hrec1 Hz1), (Hisx r2 n2 H2 Hrec2 Hz2). done.
    - intros a0 fh0 s rid lr h a' H0 Hk. destruct (Hrepsame a0 fh0 H0) as (fh' & Hfh' & Hreps & _). rewrite Hreps in Hk.
      cbn [st2 f_hist]. by apply (ma_home _ HC a0 fh' s rid lr h a').
    - intros a0 fh0 s rid lr H0 Hk. destruct (Hrepsame a0 fh0 H0) as (fh' & Hfh' & Hreps & _). rewrite Hreps in Hk.
      cbn [st2 f_hist]. by apply (ma_nostray _ HC a0 fh' s rid lr). }
  split; [done|]. split; [done|]. split; [exact Htick|]. split; [exact F3|]. split; [exact Hreqs|].
  split; [by rewrite Hst2|]. split; [exact Hcase'|]. split; [exact Hstamped|].
  cbn [st2 f_db]. rewrite F6. unfold sync_shard_info. split.
  - rewrite lookup_fmap. unfold host_update. cbn [rp_addr stamp r host_report rp_region rp_plog_incl rp_plog].
    destruct (d_hosts (f_db st) !! a) as [h0|]; rewrite lookup_insert; cbn; (eexists; split; [done|]); cbn [h_tick h_plog];
      (split; [done|]); intros -> k [lr Hk]; apply elem_of_list_fmap; exists (k, lr); (split; [done|]);
      unfold sorted_reps; rewrite merge_sort_Permutation; by apply elem_of_map_to_list.
  - intros a' h Hne Hh. rewrite lookup_fmap. unfold host_update. cbn [rp_addr stamp r host_report].
    destruct (d_hosts (f_db st) !! a) as [h0|]; rewrite lookup_insert_ne by done; rewrite Hh; cbn; (eexists; split; [done|]); done.
Qed.

(** * all hosts report *)
Lemma menda_reports (plogs : N → bool) (l : list N) : ∀ st,
  MendA st → NoDup l → (∀ a, a ∈ l → is_Some (f_hosts st !! a)) →
  ∃ st', steps P st (l ≫= λ a, [ESnap a (plogs a); EDeliver a false]) = Some st' ∧ MendA st' ∧
    f_hist st' = f_hist st ∧ f_seen st' = f_seen st ∧
    d_tick (f_db st') = d_tick (f_db st) ∧ d_shards (f_db st') = d_shards (f_db st) ∧
    (∀ a fh, a ∈ l → f_hosts st !! a = Some fh → ∃ fh', f_hosts st' !! a = Some fh' ∧ fh_reps fh' = fh_reps fh) ∧
    (∀ a, a ∉ l → f_hosts st' !! a = f_hosts st !! a) ∧
    (∀ s h c, f_hist st !! s = Some h → d_view (f_db st) !! s = Some c →
       ∃ c', d_view (f_db st') !! s = Some c' ∧ (s_cci c' = s_cci c ∨ s_cci c' = cur_version h) ∧
             (s_cci c = cur_version h → s_cci c' = cur_version h) ∧
             ((∃ a fh rid lr, a ∈ l ∧ f_hosts st !! a = Some fh ∧ fh_reps fh !! (s, rid) = Some lr ∧ lr_running lr = true ∧
                              lr_ver lr = cur_version h) → s_cci c' = cur_version h)) ∧
    (∀ s rid, stamped (f_db st') s rid →
       stamped (f_db st) s rid ∨ ∃ a fh, a ∈ l ∧ f_hosts st !! a = Some fh ∧ runs_on fh s rid = true) ∧
    (∀ a fh, a ∈ l → f_hosts st !! a = Some fh →
       ∃ h, d_hosts (f_db st') !! a = Some h ∧ h_tick h = d_tick (f_db st) ∧
            (plogs a = true → ∀ k, is_Some (fh_reps fh !! k) → k ∈ h_plog h)) ∧
    (∀ a h, a ∉ l → d_hosts (f_db st) !! a = Some h →
       ∃ h', d_hosts (f_db st') !! a = Some h' ∧ h_tick h' = h_tick h ∧ h_plog h' = h_plog h).
Proof.
  induction l as [|a l IH]; intros st HC Hnd Hl.
  { exists st. cbn. split; [done|]. split; [done|]. repeat (split; [done|]).
    split; [intros a fh Hin; by apply elem_of_nil in Hin|]. split; [done|].
    split. { intros s h c Hh Hc. exists c. split; [done|]. split; [by left|]. split; [done|].
             intros (a & fh & rid & lr & Hin & _). by apply elem_of_nil in Hin. }
    split; [intros s rid Hs; by left|].
    split; [intros a fh Hin; by apply elem_of_nil in Hin|]. intros a h _ Hh. by exists h. }
  apply NoDup_cons in Hnd as [Hnotin Hnd].
  destruct (Hl a) as [fh Ha]; [left|].
  destruct (menda_report st a fh (plogs a) HC Ha) as (st1 & E1 & HC1 & Hhi1 & Hse1 & Ht1 & Hsh1 & Hrq1 & Hho1 & Hv1 & Hst1 & Hsp1 & Hot1).
  destruct (IH st1 HC1 Hnd) as (st2 & E2 & HC2 & Hhi2 & Hse2 & Ht2 & Hsh2 & Hh1 & Hh2 & Hv2 & Hst2 & Hsp2 & Hot2).
  { intros a' Hin. rewrite Hho1. destruct (decide (a' = a)) as [->|Hne]; [by rewrite lookup_insert|].
    rewrite lookup_insert_ne by done. apply Hl. by right. }
  assert (Hreps1 : ∀ a' fh', f_hosts st !! a' = Some fh' → ∃ fh1, f_hosts st1 !! a' = Some fh1 ∧ fh_reps fh1 = fh_reps fh').
  { intros a' fh' Hfh'. rewrite Hho1. destruct (decide (a' = a)) as [->|Hne].
    - rewrite lookup_insert. assert (fh' = fh) as -> by congruence. by eexists.
    - rewrite lookup_insert_ne by done. by exists fh'. }
  exists st2. split.
  { rewrite bind_cons, steps_app, E1. exact E2. }
  split; [done|]. split; [congruence|]. split; [congruence|]. split; [congruence|]. split; [congruence|].
  split.
  { intros a' fh' Hin Hfh'. destruct (Hreps1 a' fh' Hfh') as (fh1 & Hfh1 & Hr1). apply elem_of_cons in Hin as [->|Hin].
    - rewrite Hh2 by done. exists fh1. done.
    - destruct (Hh1 a' fh1 Hin Hfh1) as (fh2 & Hfh2 & Hr2). exists fh2. split; [done|]. congruence. }
  split. { intros a' Hnin. apply not_elem_of_cons in Hnin as [Hne Hnin]. rewrite Hh2 by done. rewrite Hho1. by rewrite lookup_insert_ne. }
  split.
  { intros s h c Hh Hc. destruct (Hv1 s h c Hh Hc) as (c1 & Hc1 & Hor1 & Hk1 & Hkn1).
    destruct (Hv2 s h c1) as (c2 & Hc2 & Hor2 & Hk2 & Hkn2); [by rewrite Hhi1|done|].
    exists c2. split; [done|]. split; [|split].
    - destruct Hor2 as [Heq|Hcur]; [|by right]. rewrite Heq. exact Hor1.
    - intros Hcc. apply Hk2. by apply Hk1.
    - intros (a' & fh' & rid & lr & Hin & Hfh' & Hk & Hrun & Hver). apply elem_of_cons in Hin as [->|Hin].
      + assert (fh' = fh) as -> by congruence. apply Hk2. apply Hkn1. eauto.
      + destruct (Hreps1 a' fh' Hfh') as (fh1 & Hfh1 & Hr1). apply Hkn2. exists a', fh1, rid, lr. rewrite Hr1. done. }
  split.
  { intros s rid Hs2. destruct (Hst2 s rid Hs2) as [Hs1|(a' & fh1 & Hin & Hfh1 & Hrun)].
    - destruct (Hst1 s rid Hs1) as [?|Hrun]; [by left|]. right. exists a, fh. split; [left|done].
    - right. assert (a' ≠ a) as Hne by (intros ->; done). rewrite Hho1, lookup_insert_ne in Hfh1 by done.
      exists a', fh1. split; [by right|done]. }
  split.
  { intros a' fh' Hin Hfh'. apply elem_of_cons in Hin as [->|Hin].
    - assert (fh' = fh) as -> by congruence. destruct Hsp1 as (h1 & Hh1' & Htk & Hpl).
      destruct (Hot2 a h1 Hnotin Hh1') as (h2 & Hh2' & Htk' & Hpl'). exists h2. split; [done|]. split; [congruence|]. rewrite Hpl'. done.
    - destruct (Hreps1 a' fh' Hfh') as (fh1 & Hfh1 & Hr).
      destruct (Hsp2 a' fh1 Hin Hfh1) as (h2 & Hh2' & Htk' & Hpl'). exists h2. split; [done|]. split; [congruence|]. by rewrite <- Hr. }
  intros a' h Hnin Hh. apply not_elem_of_cons in Hnin as [Hne Hnin].
  destruct (Hot1 a' h Hne Hh) as (h1 & Hh1' & Htk & Hpl). destruct (Hot2 a' h1 Hnin Hh1') as (h2 & Hh2' & Htk' & Hpl').
  exists h2. split; [done|]. split; congruence.
Qed.

(** * the rest of the round, from a Mend state in which every NodeHost has just reported *)
Lemma mend_tail st1 t nticks o st' :
  Mend st1 → d_tick (f_db st1) = t → N.of_nat nticks * p_step P ≤ p_ttl P →
  (∀ s h rid a, f_hist st1 !! s = Some h → cur_members h !! rid = Some a → stamped (f_db st1) s rid →
     ∃ hh fh, d_hosts (f_db st1) !! a = Some hh ∧ h_tick hh = t ∧ (s, rid) ∈ h_plog hh ∧ f_hosts st1 !! a = Some fh) →
  match steps P st1 ((λ a, EExec a true) <$> host_addrs st1) with
  | Some st2 =>
    match steps P st2 (catch_up_events st2) with
    | Some st3 =>
      match steps P st3 (replicate nticks ETick) with
      | Some st4 => match fstep P st4 (ESchedule o) with FOk st5 => Some st5 | _ => None end
      | None => None
      end
    | None => None
    end
  | None => None
  end = Some st' →
  ∃ b, o = OBatch b ∧ add_ids b = [] ∧ Mend st' ∧ f_hist st' = f_hist st1.
Proof.
  intros HC1 Ht1 Httl Hrep.
  destruct (mend_execs P (host_addrs st1) st1 HC1 (host_addrs_nodup st1)) as
    (st2 & E2 & HC2 & Hd2 & Hhi2 & Hse2 & Hq2 & _ & Hsd2 & Hmono2 & Heff2 & Hjoin2).
  { intros a. apply host_addrs_elem. }
  rewrite E2.
  destruct (mend_learns P (catch_up_events st2) st2 HC2 (catch_up_members st2)) as (st3 & E3 & HC3 & Hd3 & Hhi3 & Hse3 & Hsr3).
  rewrite E3.
  destruct (mend_ticks P nticks st3 HC3) as (st4 & E4 & HC4 & Hd4 & Hho4 & Hhi4 & Hse4). rewrite E4.
  destruct (fstep P st4 (ESchedule o)) as [st5| |] eqn:E5; try done. intros [= <-].
  assert (Hdb4 : d_view (f_db st4) = d_view (f_db st1) ∧ d_hosts (f_db st4) = d_hosts (f_db st1) ∧
                 d_tick (f_db st4) = t + N.of_nat nticks * p_step P).
  { rewrite Hd4, Hd3, Hd2. cbn [set_tick d_view d_hosts d_tick]. rewrite Ht1. done. }
  destruct Hdb4 as (Ev4 & Eh4 & Et4).
  assert (Hfr : mfresh P st4 t).
  { split; [rewrite Et4; lia|]. intros s h0 rid a Hh0 Hm Hst.
    assert (Hh1 : f_hist st1 !! s = Some h0) by congruence.
    assert (Hst1 : stamped (f_db st1) s rid) by (unfold stamped in *; by rewrite <- Ev4).
    destruct (Hrep s h0 rid a Hh1 Hm Hst1) as (hh & fh & Hhh & Htk & Hpl & _). exists hh. by rewrite Eh4. }
  destruct (mend_schedule P st4 t o st5 HC4 Hfr E5) as (b & -> & HC5 & Hho5 & Hhi5 & Hd5 & Hgood & _).
  exists b. split; [done|]. split.
  { unfold add_ids. assert (filter (λ q, is_add q = true) b = []) as ->; [|done].
    apply elem_of_nil_inv. intros q Hq. apply elem_of_list_filter in Hq as [Hadd Hq]. unfold is_add in Hadd.
    destruct (Hgood q Hq) as [(Hres & _)|[(Hcr & _)|(Hk & _)]].
    - unfold is_restore, is_create in Hres. by destruct (q_type q).
    - unfold is_create in Hcr. by destruct (q_type q).
    - unfold is_kill in Hk. by destruct (q_type q). }
  split; [done|]. congruence.
Qed.

(** * one healthy round from MendA ends in Mend *)
Theorem menda_round st st' plogs nticks o :
  MendA st → (∀ a, plogs a = true) → N.of_nat nticks * p_step P ≤ p_ttl P →
  healthy_round P plogs nticks o st = Some st' →
  ∃ b, o = OBatch b ∧ add_ids b = [] ∧ Mend st' ∧ f_hist st' = f_hist st.
Proof.
  intros HA Hpl Httl. unfold healthy_round. set (t := d_tick (f_db st)).
  destruct (menda_reports plogs (host_addrs st) st HA (host_addrs_nodup st)) as
    (st1 & E1 & HA1 & Hhi1 & Hse1 & Ht1 & Hsh1 & Hho1 & Hho1' & Hv1 & Hst1 & Hsp1 & _).
  { intros a. apply host_addrs_elem. }
  rewrite E1.
  (* every shard is current after the reports *)
  assert (HM1 : Mend st1).
  { apply menda_mend; [done|]. intros s h c1 Hh1 Hc1. rewrite Hhi1 in Hh1.
    destruct (ma_members _ HA s h Hh1) as (c & Hc & Hcase & _).
    destruct (Hv1 s h c Hh1 Hc) as (c' & Hc' & _ & Hkeep & Hknow). assert (c' = c1) as -> by congruence.
    destruct Hcase as [Hcc|(v & M & M' & x & rest & Hb)]; [by apply Hkeep|].
    destruct (ma_behind _ HA s h c v M M' x rest Hh1 Hc Hb) as (_ & _ & a0 & fh0 & rid & lr & Hfh0 & Hk & Hrun & Hver).
    apply Hknow. exists a0, fh0, rid, lr. split; [apply host_addrs_elem; by eexists|]. destruct Hb as (Hhh & _). rewrite Hhh. cbn. done. }
  intros Htail. destruct (mend_tail st1 t nticks o st' HM1 Ht1 Httl) as (b & Ho & Hadd & HM' & Hhi'); [|exact Htail|].
  - intros s h rid a Hh Hm Hst. rewrite Hhi1 in Hh.
    destruct (ma_members _ HA s h Hh) as (c & Hc & _ & Hmem). destruct (Hmem rid a Hm) as (_ & _ & fh & Hfh & Hdata).
    assert (Hk : is_Some (fh_reps fh !! (s, rid))).
    { destruct (Hst1 s rid Hst) as [Hold|(a' & fh' & _ & Hfh' & Hrun)]; [by apply Hdata|].
      unfold runs_on in Hrun. destruct (fh_reps fh' !! (s, rid)) as [lr|] eqn:Ek; [|done].
      assert (a = a') as <- by (by apply (ma_home _ HA a' fh' s rid lr h a)). assert (fh' = fh) as -> by congruence. by eexists. }
    destruct (Hsp1 a fh) as (hh & Hhh & Htk & Hplog); [apply host_addrs_elem; by eexists|done|].
    destruct (Hho1 a fh) as (fh1 & Hfh1 & _); [apply host_addrs_elem; by eexists|done|].
    exists hh, fh1. split; [done|]. split; [done|]. split; [|done]. by apply Hplog; [apply Hpl|].
  - exists b. split; [done|]. split; [done|]. split; [done|]. congruence.
Qed.

(** * healing *)
Theorem menda_heal os st st' plogs nticks :
  MendA st → (∀ a, plogs a = true) → N.of_nat nticks * p_step P ≤ p_ttl P → (0 < nticks)%nat → 0 < p_step P →
  (detect_rounds P nticks + 5 ≤ length os)%nat →
  healthy_rounds P plogs nticks os st = Some st' →
  Mend st' ∧ healed P st' = true.
Proof.
  intros HA Hpl Httl Hnt Hstep Hlen Hr. destruct os as [|o os]; [cbn in Hlen; lia|].
  cbn [healthy_rounds] in Hr. destruct (healthy_round P plogs nticks o st) as [st1|] eqn:E1; [|done].
  destruct (menda_round st st1 plogs nticks o HA Hpl Httl E1) as (b & _ & _ & HM1 & _).
  apply (mend_heal_ge P plogs nticks Hpl Httl os st1 st' HM1 Hnt Hstep); [cbn [length] in Hlen; lia|done].
Qed.
(** * a rank over the pipeline stages: view behind > everything Mend's rank can be *)
Definition view_current (st : fstate) : bool :=
  forallb (λ kv : N * list hentry, match d_view (f_db st) !! kv.1 with Some c => s_cci c =? cur_version kv.2 | None => true end)
          (map_to_list (f_hist st)).

Definition menda_rank (st : fstate) : nat :=
  if view_current st then mend_rank P st else S ((3 + N.to_nat (p_ttl P + 1)) * length (members_list st)).

Lemma mend_view_current st : Mend st → view_current st = true.
Proof.
  intros HM. unfold view_current. apply forallb_forall. intros [s h] Hin. apply elem_of_list_In, elem_of_map_to_list in Hin. cbn [fst snd].
  destruct (md_members _ HM s h Hin) as (c & -> & Hcc & _). by apply N.eqb_eq.
Qed.

Lemma view_current_mend st : MendA st → view_current st = true → Mend st.
Proof.
  intros HA Hv. apply menda_mend; [done|]. intros s h c Hh Hc.
  pose proof (forallb_map_to_list _ _ Hv s h Hh) as Hx. cbn [fst snd] in Hx. rewrite Hc in Hx. by apply N.eqb_eq.
Qed.

Lemma mend_rank_bound st : (mend_rank P st ≤ (3 + N.to_nat (p_ttl P + 1)) * length (members_list st))%nat.
Proof.
  unfold mend_rank. induction (members_list st) as [|m l IH]; cbn [sum_list_with length]; [lia|].
  assert (mrank_member P st m ≤ 3 + N.to_nat (p_ttl P + 1))%nat; [|lia].
  destruct m as [[s rid] a]. unfold mrank_member.
  repeat match goal with |- context [if ?b then _ else _] => destruct b end; lia.
Qed.

Theorem menda_progress st st' plogs nticks o :
  MendA st → (∀ a, plogs a = true) → (0 < nticks)%nat → 0 < p_step P → N.of_nat nticks * p_step P ≤ p_ttl P →
  healed P st = false → healthy_round P plogs nticks o st = Some st' →
  (menda_rank st' < menda_rank st)%nat.
Proof.
  intros HA Hpl Hnt Hstep Httl Hnh Hround.
  destruct (menda_round st st' plogs nticks o HA Hpl Httl Hround) as (b & _ & _ & HM' & Hhi).
  unfold menda_rank. rewrite (mend_view_current st' HM'). destruct (view_current st) eqn:Ev.
  - apply (mend_progress P st st' plogs nticks o); try done. by apply view_current_mend.
  - pose proof (mend_rank_bound st') as Hb. assert (members_list st' = members_list st) as Heq by (unfold members_list; by rewrite Hhi).
    rewrite Heq in Hb. lia.
Qed.
End MendA.

(** * the decidable parts of [MendA] and [Mend] (FleetRounds.menda_restb, mend_restb) are sound *)
Lemma stampedb_spec d s rid : stamped d s rid → stampedb d s rid = true.
Proof.
  intros (n & Hrec & Hnz). apply rec_of_Some in Hrec as (c & Hc & Hn). unfold stampedb. rewrite Hc, Hn. by apply negb_true_iff, N.eqb_neq.
Qed.

Lemma okreqb_sound st a q : okreqb st a q = true → mharmless (f_hist st) a q.
Proof.
  assert (Hcur : ∀ s rid b, cur_members (hist_of (f_hist st) s) !! rid = Some b → ∃ h, f_hist st !! s = Some h ∧ cur_members h !! rid = Some b).
  { intros s rid b. unfold hist_of. destruct (f_hist st !! s) as [h|]; cbn [default from_option id cur_members]; [by exists h|].
    by rewrite lookup_empty. }
  unfold okreqb. cbn zeta. intros H. apply orb_true_iff in H as [H|H]; [apply orb_true_iff in H as [H|H]; [apply orb_true_iff in H as [H|H]; [apply orb_true_iff in H as [H|H]|]|]|].
  - left. left. apply andb_true_iff in H as [Hx H3]. apply andb_true_iff in Hx as [H1 H2].
    apply negb_true_iff in H2. apply is_member_true in H3 as [b H3]. destruct (Hcur _ _ _ H3) as (h & Hh & Hm).
    split; [done|]. split; [done|]. by exists h, b.
  - left. right; left. apply andb_true_iff in H as [Hx H4]. apply andb_true_iff in Hx as [Hx H3]. apply andb_true_iff in Hx as [H1 H2].
    apply negb_true_iff, N.eqb_neq in H2. apply negb_true_iff, bool_decide_eq_false in H3.
    split; [done|]. split; [done|]. split; [done|]. intros Hadd. rewrite Hadd in H4. cbn in H4. by apply negb_true_iff, bool_decide_eq_false in H4.
  - left. right; right. apply andb_true_iff in H as [H1 H2]. split; [done|].
    destruct (q_members q) as [|y [|? ?]]; try done. exists y. split; [done|]. intros h Hh.
    unfold hist_of in H2. rewrite Hh in H2. cbn [default from_option id] in H2. by apply negb_true_iff in H2.
  - right; left. apply andb_true_iff in H as [Hx H4]. apply andb_true_iff in Hx as [Hx H3]. apply andb_true_iff in Hx as [H1 H2].
    apply negb_true_iff in H3. apply bool_decide_eq_true in H4. destruct (Hcur _ _ _ H4) as (h & Hh & Hm).
    split; [done|]. split; [done|]. split; [done|]. by exists h.
  - right; right. apply andb_true_iff in H as [H S8]. apply andb_true_iff in H as [H S7]. apply andb_true_iff in H as [H S6].
    apply andb_true_iff in H as [H S5]. apply andb_true_iff in H as [H S4]. apply andb_true_iff in H as [H S3]. apply andb_true_iff in H as [S1 S2].
    apply negb_true_iff in S2. apply bool_decide_eq_true in S3 as [h Hh]. unfold hist_of in S4, S5. rewrite Hh in S4, S5. cbn [default from_option id] in S4, S5.
    apply negb_true_iff, is_member_false in S4. apply negb_true_iff, N.eqb_neq in S6, S7, S8.
    split; [done|]. split; [done|]. exists h. split; [done|]. split; [done|]. split; [|done].
    intros r' Hr'. pose proof (forallb_map_to_list _ _ S5 r' a Hr') as Hz. cbn [snd] in Hz. by rewrite N.eqb_refl in Hz.
Qed.

Lemma mend_gen_restb_sound b st : LoopInv st → mend_gen_restb b st = true → MendA st.
Proof.
  intros HI H. unfold mend_gen_restb in H. cbn zeta in H.
  apply andb_true_iff in H as [H Hhome]. apply andb_true_iff in H as [H Hwait]. apply andb_true_iff in H as [H Hmem].
  apply andb_true_iff in H as [H Hbq]. apply andb_true_iff in H as [H Hbo]. apply andb_true_iff in H as [H Hbr].
  apply andb_true_iff in H as [H Hkill]. apply andb_true_iff in H as [H Hhosts].
  apply andb_true_iff in H as [H Hviewdef]. apply andb_true_iff in H as [H Hdef]. apply andb_true_iff in H as [Htok Htime].
  apply N.ltb_lt in Htime.
  assert (Hcur : ∀ s rid a, cur_members (hist_of (f_hist st) s) !! rid = Some a → ∃ h, f_hist st !! s = Some h ∧ cur_members h !! rid = Some a).
  { intros s rid a. unfold hist_of. destruct (f_hist st !! s) as [h|]; cbn [default from_option id cur_members]; [by exists h|].
    by rewrite lookup_empty. }
  split.
  - exact HI.
  - by apply time_okb_sound.
  - exact Htime.
  - intros s sd Hs. pose proof (forallb_map_to_list _ _ Hdef s sd Hs) as Hx. cbn [fst snd] in Hx.
    apply andb_true_iff in Hx as [Hx H3]. apply andb_true_iff in Hx as [H1 H2].
    apply bool_decide_eq_true in H1. apply negb_true_iff, bool_decide_eq_false in H2. apply negb_true_iff, N.eqb_neq in H3. done.
  - intros s [c Hc]. pose proof (forallb_map_to_list _ _ Hviewdef s c Hc) as Hx. cbn [fst snd] in Hx.
    apply andb_true_iff in Hx as [H1 H2]. apply bool_decide_eq_true in H1, H2. done.
  - intros a fh Ha. pose proof (forallb_map_to_list _ _ Hhosts a fh Ha) as Hx. cbn [fst snd] in Hx.
    apply andb_true_iff in Hx as [H1 H2]. apply bool_decide_eq_true in H2. done.
  - intros k Hk. rewrite forallb_forall in Hkill. apply elem_of_list_In in Hk. specialize (Hkill k Hk).
    apply andb_true_iff in Hkill as [Hx K3]. apply andb_true_iff in Hx as [K1 K2]. apply negb_true_iff, N.eqb_neq in K1, K2, K3. done.
  - intros a q [(qs & Hl & Hin)|[(qs & Hl & Hin)|(fh & Hl & Hin)]]; apply okreqb_sound.
    + pose proof (forallb_map_to_list _ _ Hbr a qs Hl) as Hx. cbn [fst snd] in Hx. rewrite forallb_forall in Hx. apply Hx. by apply elem_of_list_In.
    + pose proof (forallb_map_to_list _ _ Hbo a qs Hl) as Hx. cbn [fst snd] in Hx. rewrite forallb_forall in Hx. apply Hx. by apply elem_of_list_In.
    + pose proof (forallb_map_to_list _ _ Hbq a fh Hl) as Hx. cbn [fst snd] in Hx. rewrite forallb_forall in Hx. apply Hx. by apply elem_of_list_In.
  - (* members *)
    intros s h Hh. pose proof (forallb_map_to_list _ _ Hmem s h Hh) as Hx. cbn [fst snd] in Hx.
    destruct (d_view (f_db st) !! s) as [c|] eqn:Hc; [|done]. apply andb_true_iff in Hx as [Hx1 Hx2].
    exists c. split; [done|]. split.
    + apply orb_true_iff in Hx1 as [Hx1|Hx1]; [left; by apply N.eqb_eq|right]. apply andb_true_iff in Hx1 as [_ Hx1].
      unfold behindb in Hx1. destruct h as [|[v1 M1] [|[v M] rest]]; try done. cbn [fst snd] in Hx1.
      apply andb_true_iff in Hx1 as [Hx1 Hkn]. apply andb_true_iff in Hx1 as [Hx1 Hstm]. apply andb_true_iff in Hx1 as [Hx1 Hex].
      apply andb_true_iff in Hx1 as [Ha1 Ha2]. apply N.eqb_eq in Ha1, Ha2.
      apply orb_true_iff in Hex as [Hex|Hex].
      * apply existsb_exists in Hex as ([x t] & _ & Hxt). cbn [fst snd] in Hxt. apply andb_true_iff in Hxt as [Hxt Hrunx].
        apply andb_true_iff in Hxt as [Hnm Hbd]. apply negb_true_iff, is_member_false in Hnm. apply bool_decide_eq_true in Hbd.
        exists v, M, M1, x, rest. split; [by rewrite Ha1|]. split; [done|]. left. split; [done|]. by exists t.
      * apply existsb_exists in Hex as ([x t] & Hin & Hxt). apply elem_of_list_In, elem_of_map_to_list in Hin. cbn [fst snd] in Hxt.
        apply bool_decide_eq_true in Hxt.
        exists v, M, M1, x, rest. split; [by rewrite Ha1|]. split; [done|]. right. split; [by eexists|done].
    + intros rid a Hm. unfold members_okb in Hx2. pose proof (forallb_map_to_list _ _ Hx2 rid a Hm) as Hy. cbn [fst snd] in Hy.
      apply andb_true_iff in Hy as [Hy H3]. apply andb_true_iff in Hy as [H1 H2].
      apply negb_true_iff, N.eqb_neq in H1, H2. split; [done|]. split; [done|].
      destruct (f_hosts st !! a) as [fh|]; [|done]. exists fh. split; [done|]. intros Hst. rewrite (stampedb_spec _ _ _ Hst) in H3.
      cbn in H3. by apply bool_decide_eq_true in H3.
  - (* behind *)
    intros s h c v M M' x rest Hh Hc (Hhh & Hv & Hkind). pose proof (forallb_map_to_list _ _ Hmem s h Hh) as Hy. cbn [fst snd] in Hy.
    rewrite Hc in Hy. apply andb_true_iff in Hy as [Hy1 _]. apply orb_true_iff in Hy1 as [Hy1|Hy1].
    { apply N.eqb_eq in Hy1. rewrite Hhh in Hy1. cbn in Hy1. clear -Hy1 Hv. lia. }
    apply andb_true_iff in Hy1 as [_ Hy1]. unfold behindb in Hy1. rewrite Hhh in Hy1. cbn [fst snd] in Hy1.
    apply andb_true_iff in Hy1 as [Hy1 Hkn]. apply andb_true_iff in Hy1 as [Hy1 Hstm]. apply andb_true_iff in Hy1 as [Hy1 Hex].
    assert (Hrunx : M !! x = None → runs_nowhere st s x = true).
    { intros HMx. apply orb_true_iff in Hex as [Hex|Hex].
      - apply existsb_exists in Hex as ([x' t'] & _ & Hxt). cbn [fst snd] in Hxt. apply andb_true_iff in Hxt as [Hxt Hrunx].
        apply andb_true_iff in Hxt as [Hnm Hbd]. apply negb_true_iff, is_member_false in Hnm. apply bool_decide_eq_true in Hbd.
        assert (x' = x) as ->; [|done]. destruct (decide (x' = x)) as [?|Hne]; [done|]. exfalso.
        assert (Hl : M' !! x' = Some t') by (rewrite Hbd; by rewrite lookup_insert).
        destruct Hkind as [[_ [t ->]]|[_ ->]]; [rewrite lookup_insert_ne in Hl by done|rewrite lookup_delete_ne in Hl by done]; congruence.
      - exfalso. apply existsb_exists in Hex as ([x' t'] & Hin & Hxt). apply elem_of_list_In, elem_of_map_to_list in Hin. cbn [fst snd] in Hxt.
        apply bool_decide_eq_true in Hxt. assert (Hne : x' ≠ x) by (intros ->; congruence).
        assert (Hl : M' !! x' = None) by (rewrite Hxt; by rewrite lookup_delete).
        destruct Hkind as [[_ [t ->]]|[[? HMx'] _]]; [rewrite lookup_insert_ne in Hl by done|]; congruence. }
    split; [|split].
    + intros rid n Hn. pose proof (forallb_map_to_list _ _ Hstm rid n Hn) as Hz. cbn in Hz. by apply negb_true_iff, N.eqb_neq in Hz.
    + intros HMx a fh lr Ha Hk. specialize (Hrunx HMx). unfold runs_nowhere in Hrunx. pose proof (forallb_map_to_list _ _ Hrunx a fh Ha) as Hz. cbn [snd] in Hz. rewrite Hk in Hz. by apply negb_true_iff in Hz.
    + apply existsb_exists in Hkn as ([a fh] & Ha & Hz). apply elem_of_list_In, elem_of_map_to_list in Ha. cbn [snd] in Hz.
      apply existsb_exists in Hz as ([[s0 rid] lr] & Hk & Hw). apply elem_of_list_In, elem_of_map_to_list in Hk. cbn [fst snd] in Hw.
      apply andb_true_iff in Hw as [Hw W3]. apply andb_true_iff in Hw as [W1 W2]. apply N.eqb_eq in W1, W3. subst s0.
      exists a, fh, rid, lr. done.
  - (* waiting *)
    intros s c rid n Hc Hn Hz. pose proof (forallb_map_to_list _ _ Hwait s c Hc) as Hx. cbn [snd] in Hx.
    apply andb_true_iff in Hx as [Hx _]. pose proof (forallb_map_to_list _ _ Hx rid n Hn) as Hy. cbn [snd] in Hy.
    rewrite Hz in Hy. cbn in Hy. by apply negb_true_iff, N.eqb_neq in Hy.
  - (* one joiner *)
    intros s c r1 r2 n1 n2 Hc H1 H2 Hz1 Hz2. pose proof (forallb_map_to_list _ _ Hwait s c Hc) as Hx. cbn [snd] in Hx.
    apply andb_true_iff in Hx as [_ Hx]. apply bool_decide_eq_true in Hx.
    destruct (decide (r1 = r2)) as [?|Hne]; [done|]. exfalso.
    set (l := filter (λ rn : N * replica, r_tick rn.2 = 0) (map_to_list (s_reps c))) in *.
    assert (Hi1 : (r1, n1) ∈ l) by (apply elem_of_list_filter; split; [done|by apply elem_of_map_to_list]).
    assert (Hi2 : (r2, n2) ∈ l) by (apply elem_of_list_filter; split; [done|by apply elem_of_map_to_list]).
    clearbody l. clear -Hx Hi1 Hi2 Hne. destruct l as [|e1 [|e2 l']]; [by apply elem_of_nil in Hi1| |cbn [length] in Hx; lia].
    apply elem_of_list_singleton in Hi1, Hi2. congruence.
  - intros a fh s rid lr h a' Ha Hk Hh Hm. pose proof (forallb_map_to_list _ _ Hhome a fh Ha) as Hx. cbn [fst snd] in Hx.
    pose proof (forallb_map_to_list _ _ Hx (s, rid) lr Hk) as Hy. cbn [fst snd] in Hy.
    unfold hist_of in Hy. rewrite Hh in Hy. cbn [default from_option id] in Hy. rewrite Hm in Hy. by apply N.eqb_eq in Hy.
  - intros a fh s rid lr Ha Hk Hrun. pose proof (forallb_map_to_list _ _ Hhome a fh Ha) as Hx. cbn [fst snd] in Hx.
    pose proof (forallb_map_to_list _ _ Hx (s, rid) lr Hk) as Hy. cbn [fst snd] in Hy.
    destruct (cur_members (hist_of (f_hist st) s) !! rid) as [a'|] eqn:Em.
    { destruct (Hcur _ _ _ Em) as (h & Hh & Hm). left. exists h. split; [done|]. by eexists. }
    right. rewrite Hrun in Hy. cbn [negb orb] in Hy. unfold strayokb in Hy. cbn zeta in Hy.
    apply andb_true_iff in Hy as [Hy S6]. apply andb_true_iff in Hy as [Hy S5]. apply andb_true_iff in Hy as [Hy S4].
    apply andb_true_iff in Hy as [Hy S3]. apply andb_true_iff in Hy as [S1 S2].
    apply bool_decide_eq_true in S1 as [h Hh]. unfold hist_of in Em, S2, S3. rewrite Hh in Em, S2, S3. cbn [default from_option id] in Em, S2, S3.
    apply N.ltb_lt in S2. apply negb_true_iff, N.eqb_neq in S4, S5, S6.
    exists h. split; [done|]. split; [done|]. split; [done|]. split; [|done].
    intros r' Hr'. pose proof (forallb_map_to_list _ _ S3 r' a Hr') as Hz. cbn [snd] in Hz. by rewrite N.eqb_refl in Hz.
Qed.

Theorem menda_restb_sound st : LoopInv st → menda_restb st = true → MendA st.
Proof. apply mend_gen_restb_sound. Qed.

Theorem mend_restb_sound st : LoopInv st → mend_restb st = true → Mend st.
Proof.
  intros HI H. apply menda_mend; [by apply (mend_gen_restb_sound false)|].
  intros s h c Hh Hc. unfold mend_restb, mend_gen_restb in H. cbn zeta in H.
  apply andb_true_iff in H as [H _]. apply andb_true_iff in H as [H _]. apply andb_true_iff in H as [_ Hmem].
  pose proof (forallb_map_to_list _ _ Hmem s h Hh) as Hx. cbn [fst snd] in Hx. rewrite Hc in Hx.
  apply andb_true_iff in Hx as [Hx _]. cbn in Hx. rewrite orb_false_r in Hx. by apply N.eqb_eq.
Qed.

(** * the invariant on computed runs (for the non-vacuity examples of props/C01.v) *)
Definition fresh_okb (st : fstate) (ev : event) : bool :=
  match ev with
  | ESchedule (OBatch b) => bool_decide (NoDup (add_ids b)) && forallb (λ x, bool_decide (x ∉ f_seen st)) (add_ids b)
  | _ => true
  end.

Lemma fresh_okb_sound st ev : fresh_okb st ev = true → fresh_ok st ev.
Proof.
  destruct ev as [| | |o| | | |]; try done. destruct o as [b| |]; try done. cbn [fresh_okb fresh_ok].
  intros H. apply andb_true_iff in H as [H1 H2]. apply bool_decide_eq_true in H1. split; [done|].
  intros x Hx. rewrite forallb_forall in H2. apply elem_of_list_In in Hx. specialize (H2 x Hx). by apply bool_decide_eq_true in H2.
Qed.

Fixpoint fresh_runb (P : params) (st : fstate) (evs : list event) : bool :=
  match evs with
  | [] => true
  | ev :: evs' =>
    fresh_okb st ev &&
    match fstep P st ev with
    | FOk st' => fresh_runb P st' evs'
    | FDisabled => fresh_runb P st evs'
    | FPanic => true
    end
  end.

Lemma fresh_runb_sound P evs : ∀ st, fresh_runb P st evs = true → fresh_run P st evs.
Proof.
  induction evs as [|ev evs IH]; intros st H; cbn [fresh_run]; [done|].
  cbn [fresh_runb] in H. apply andb_true_iff in H as [H1 H2]. split; [by apply fresh_okb_sound|].
  destruct (fstep P st ev); [by apply IH|by apply IH|done].
Qed.

(* the events of a logged trace after the launch phase *)
Definition ev_of (e : tev) : option event :=
  match e with
  | TTick _ => Some ETick
  | TSnap h plog _ => Some (ESnap h plog)
  | TDeliver h lost _ _ => Some (EDeliver h lost)
  | TSched o _ => Some (ESchedule o)
  | TExec h ccok _ => Some (EExec h ccok)
  | TCrash h => Some (ECrash h)
  | TRestart h => Some (ERestart h)
  | TLearn h s r v => Some (ELearn h s r v)
  | _ => None
  end.

Lemma steps_inv P evs st st' : LoopInv st → forallb not_schedule evs = true → steps P st evs = Some st' → LoopInv st'.
Proof.
  intros HI Hns E. destruct (run_inv P evs st HI (fresh_run_faults P evs st Hns)) as (st'' & E' & HI'). congruence.
Qed.

Lemma healthy_round_inv P plogs nticks o st st' :
  LoopInv st → (∀ st4, pre_schedule P plogs nticks st = Some st4 → fresh_ok st4 (ESchedule o)) →
  healthy_round P plogs nticks o st = Some st' → LoopInv st'.
Proof.
  unfold healthy_round, pre_schedule. intros HI Hf.
  destruct (steps P st _) as [st1|] eqn:E1; [|done].
  destruct (steps P st1 _) as [st2|] eqn:E2; [|done].
  destruct (steps P st2 (catch_up_events st2)) as [st3|] eqn:E3; [|done].
  destruct (steps P st3 (replicate nticks ETick)) as [st4|] eqn:E4; [|done].
  destruct (fstep P st4 (ESchedule o)) as [st5| |] eqn:E5; try done. intros [= <-].
  assert (HI1 : LoopInv st1).
  { eapply steps_inv; [exact HI| |exact E1]. apply forallb_forall. intros ev Hev. apply elem_of_list_In in Hev.
    apply elem_of_list_bind in Hev as (a & Hev & _). apply elem_of_cons in Hev as [->|Hev]; [done|]. by apply elem_of_list_singleton in Hev as ->. }
  assert (HI2 : LoopInv st2).
  { eapply steps_inv; [exact HI1| |exact E2]. apply forallb_forall. intros ev Hev. apply elem_of_list_In in Hev.
    by apply elem_of_list_fmap in Hev as (a & -> & _). }
  assert (HI3 : LoopInv st3).
  { eapply steps_inv; [exact HI2| |exact E3]. apply forallb_forall. intros ev Hev. apply elem_of_list_In in Hev.
    by apply catch_up_members in Hev as (a & s & r & v & -> & _). }
  assert (HI4 : LoopInv st4).
  { eapply steps_inv; [exact HI3| |exact E4]. apply forallb_forall. intros ev Hev. apply elem_of_list_In in Hev.
    by apply elem_of_replicate in Hev as [-> _]. }
  apply (step_inv P st4 (ESchedule o) st5 HI4); [|done]. by apply Hf.
Qed.

Fixpoint canon_freshb (P : params) (plogs : N → bool) (nticks : nat) (idf : nat → N → N) (n : nat) (st : fstate) : bool :=
  match n with
  | O => true
  | S n' =>
    match pre_schedule P plogs nticks st, canon_round P plogs nticks (idf n') st with
    | Some st4, Some (o, st1) => fresh_okb st4 (ESchedule o) && canon_freshb P plogs nticks idf n' st1
    | _, _ => true
    end
  end.

Lemma canon_run_inv P plogs nticks idf n : ∀ st os st',
  LoopInv st → canon_freshb P plogs nticks idf n st = true → canon_run P plogs nticks idf n st = Some (os, st') → LoopInv st'.
Proof.
  induction n as [|n IH]; intros st os st' HI Hf Hr; cbn [canon_run] in Hr; [by injection Hr as _ <-|].
  cbn [canon_freshb] in Hf.
  destruct (canon_round P plogs nticks (idf n) st) as [[o st1]|] eqn:Ec; [|done].
  destruct (canon_run P plogs nticks idf n st1) as [[os1 st2]|] eqn:Er; [|done]. injection Hr as _ <-.
  unfold canon_round in Ec. destruct (pre_schedule P plogs nticks st) as [st4|] eqn:Ep; [|done].
  destruct (healthy_round P plogs nticks _ st) as [stx|] eqn:Eh; [|done]. injection Ec as Ho Hs. subst o stx.
  apply andb_true_iff in Hf as [Hf1 Hf2].
  apply (IH st1 os1 st2); [|done|done].
  eapply healthy_round_inv; [exact HI| |exact Eh]. intros st4' Hst4. rewrite Ep in Hst4. injection Hst4 as <-. by apply fresh_okb_sound.
Qed.
