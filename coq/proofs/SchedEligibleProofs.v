(** SchedEligibleProofs: the POSITIVE half of NodeHost eligibility (C05, "a NodeHost that reported more
    recently than the timeout is eligible"), on the scheduler model [Sched.v]:
    a maintenance round fails with errNotEnoughNodeHost only if some shard that needs a replacement member
    has NO NodeHost that reported more recently than the timeout and hosts no replica of it; and in a round
    that does not fail, every shard that needs a replacement member gets its ADD, onto such a NodeHost.
    [allowed P C o] is a function of the CURRENT context only: what an earlier round saw (the scheduler
    object is long-lived) must not matter.  The last two lemmas state the same against the report HISTORY
    of a reachable DB state ([last_host_time], DBTimeProofs.v). *)
From stdpp Require Import gmap list numbers sorting.
From Coq Require Import ZifyN ZifyNat ZifyBool Lia.
From Drummer.Model Require Import DB Sched.
From Drummer.Proofs Require Import DBProofs SchedProofs DBTimeProofs DBHostsProofs.
Local Open Scope N_scope.

Section Eligible.
Context (P : params) (C : sctx).

(* known, reported more recently than the timeout, hosts no replica of shard s *)
Definition eligible (s : N) (h : hostspec) : Prop :=
  h ∈ host_list C ∧ c_tick C - h_tick h < p_ttl P ∧ s ∉ h_shards h.

Lemma eligible_cand_any s h : eligible s h → h ∈ cand_any P C s.
Proof.
  intros (Hl & Ht & Hs). unfold cand_any. apply elem_of_list_filter. split; [|done]. split.
  - unfold Sched.host_live, now. apply N.ltb_lt. exact Ht.
  - unfold not_hosting. by apply bool_decide_eq_true.
Qed.

Lemma eligible_candidates n h : eligible (r_shard n) h → candidates P C n ≠ [].
Proof.
  intros He%eligible_cand_any. unfold candidates.
  destruct (cand_region P C (r_shard n) (region_of C (r_addr n))) as [|h0 l] eqn:E; [|done].
  intros Hnil. rewrite Hnil in He. by apply elem_of_nil in He.
Qed.

Lemma err_entry_add c : err_entry P C c = true → repair_action P C c = AAdd.
Proof. unfold err_entry. by destruct (repair_action P C c). Qed.

Lemma err_entry_not_eligible c h : ctx_wf C → c ∈ entries C → err_entry P C c = true → ¬ eligible (s_id c) h.
Proof.
  intros Hwf Hc He Hel. unfold err_entry in He. destruct (repair_action P C c); try done.
  apply existsb_exists in He as (n & Hn%elem_of_list_In & Hnil). apply bool_decide_eq_true in Hnil.
  apply elem_sr_failed in Hn as [Hm _].
  destruct (wf_member C c n Hwf Hc Hm) as [_ Hs]. rewrite <- Hs in Hel.
  by apply (eligible_candidates n h).
Qed.

Lemma no_error_when_eligible :
  ctx_wf C →
  (∀ c, c ∈ entries C → repair_action P C c = AAdd → ∃ h, eligible (s_id c) h) →
  allowed P C OError = false.
Proof.
  intros Hwf Hall. destruct (allowed P C OError) eqn:E; [|done]. exfalso.
  apply sched_error_inv in E as (c & Hc & He).
  destruct (Hall c Hc (err_entry_add c He)) as [h Hh].
  by apply (err_entry_not_eligible c h Hwf Hc He).
Qed.

Lemma error_names_starved_shard :
  ctx_wf C → allowed P C OError = true →
  ∃ c, c ∈ entries C ∧ repair_action P C c = AAdd ∧ ∀ h, ¬ eligible (s_id c) h.
Proof.
  intros Hwf (c & Hc & He)%sched_error_inv. exists c. split; [done|]. split; [by apply err_entry_add|].
  intros h. by apply err_entry_not_eligible.
Qed.

Lemma error_names_starved_shard_hosts :
  ctx_wf C → allowed P C OError = true →
  ∃ c, c ∈ entries C ∧ repair_action P C c = AAdd ∧
       ∀ h, h ∈ host_list C → c_tick C - h_tick h < p_ttl P → s_id c ∈ h_shards h.
Proof.
  intros Hwf Hal. destruct (error_names_starved_shard Hwf Hal) as (c & Hc & Ha & Hno).
  exists c. split; [done|]. split; [done|]. intros h Hl Ht.
  destruct (decide (s_id c ∈ h_shards h)) as [Hin|Hnin]; [done|]. exfalso. by apply (Hno h).
Qed.

Lemma due_is_placed b c :
  ctx_wf C → allowed P C (OBatch b) = true → c ∈ entries C → repair_action P C c = AAdd →
  ∃ q h, q ∈ b ∧ is_add q = true ∧ q_shard q = s_id c ∧ q_addrs q = [h_addr h] ∧ eligible (s_id c) h.
Proof.
  intros Hwf Hal Hc Hact.
  assert (has_restore P C c = false) as Hh.
  { destruct (has_restore P C c) eqn:E; [|done]. apply (has_restore_restored P C c Hc) in E.
    apply repair_action_add in Hact as [Hr _]. congruence. }
  destruct (sched_add_complete P C b c Hal Hc Hh Hact) as (q & Hq & Hs & Hok).
  unfold add_req_ok in Hok. apply bool_decide_eq_true in Hok as (Ha & _ & _ & _ & _ & Hex & _).
  apply Exists_exists in Hex as (n & Hn & Hex). apply Exists_exists in Hex as (h & Hhc & Haddr).
  apply elem_sr_failed in Hn as [Hm _]. destruct (wf_member C c n Hwf Hc Hm) as [_ Hsh].
  apply candidates_inv in Hhc as (Hl & Ht & Hns). rewrite Hsh in Hns.
  exists q, h. done.
Qed.
End Eligible.

(** against the report history: in a reachable DB state the time a NodeHost is judged by is the DB time of
    the last effective report that address sent *)
Lemma recent_reporter_eligible P cs d a h s :
  run P cs = Live d → d_hosts d !! a = Some h →
  d_tick d - last_host_time P (Live db_init) cs a < p_ttl P → s ∉ h_shards h →
  eligible P (ctx_of_db d) s h.
Proof.
  intros Hrun Hh Ht Hs. destruct (run_host_spec P cs d a Hrun) as [_ Htick].
  split; [|split; [|done]].
  - unfold host_list, ctx_of_db. cbn [c_hosts]. apply elem_of_mvals. by exists a.
  - cbn [ctx_of_db c_tick]. by rewrite (Htick h Hh).
Qed.

Lemma reachable_no_error_when_recent P cs d :
  run P cs = Live d →
  (∀ c, c ∈ entries (ctx_of_db d) → repair_action P (ctx_of_db d) c = AAdd →
        ∃ a h, d_hosts d !! a = Some h ∧ d_tick d - last_host_time P (Live db_init) cs a < p_ttl P ∧ s_id c ∉ h_shards h) →
  allowed P (ctx_of_db d) OError = false.
Proof.
  intros Hrun Hall. apply no_error_when_eligible; [by apply (run_ctx_wf P cs)|].
  intros c Hc Ha. destruct (Hall c Hc Ha) as (a & h & Hh & Ht & Hs). exists h.
  by apply (recent_reporter_eligible P cs d a h).
Qed.
