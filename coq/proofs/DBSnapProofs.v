(** C03: snapshot equivalence and fail-stop determinism of the DB model. *)
From stdpp Require Import gmap list numbers.
From Drummer.Model Require Import DB DBRun DBSnap.
From Drummer.Proofs Require Import DBProofs.
Local Open Scope N_scope.

Lemma recover_snapshot d0 d s : d_failed d0 = false -> snapshot d = Some s -> recover d0 s = Some d.
Proof.
  unfold snapshot, recover. intros H0. destruct (d_failed d) eqn:Hf; [done|]. intros [= <-]. rewrite H0.
  destruct d. cbn in *. subst. reflexivity.
Qed.

Lemma snapshot_failed d : snapshot d = None <-> d_failed d = true.
Proof. unfold snapshot. destruct (d_failed d); split; done. Qed.

Lemma recover_failed d0 s : recover d0 s = None <-> d_failed d0 = true.
Proof. unfold recover. destruct (d_failed d0); split; done. Qed.

(* every snapshot field is taken from the snapshot, nothing of the receiver survives *)
Lemma recover_independent d0 d0' s : d_failed d0 = false -> d_failed d0' = false -> recover d0 s = recover d0' s.
Proof. unfold recover. intros -> ->. reflexivity. Qed.

Lemma observe_app P s os1 os2 : observe P s (os1 ++ os2) = observe P s os1 ++ observe P (final P s os1) os2.
Proof.
  revert s. induction os1 as [|o os1 IH]; intros s; [done|].
  cbn [app observe]. unfold final. cbn [foldl]. destruct (ostep P s o) as [s' b] eqn:E. cbn. f_equal. apply IH.
Qed.

Lemma final_app P s os1 os2 : final P s (os1 ++ os2) = final P (final P s os1) os2.
Proof. apply foldl_app. Qed.

(* a replica restored (into ANY live receiver) from a snapshot taken after the prefix behaves, from then on,
   exactly like the replica the snapshot was taken from *)
Lemma snapshot_bisim P d0 os1 os2 d s d1 :
  final P (Live db_init) os1 = Live d -> snapshot d = Some s -> recover d0 s = Some d1 ->
  observe P (Live d1) os2 = observe P (final P (Live db_init) os1) os2 /\
  final P (Live d1) os2 = final P (Live db_init) (os1 ++ os2).
Proof.
  intros Hf Hs Hr. assert (d_failed d0 = false) as H0.
  { destruct (d_failed d0) eqn:E; [|done]. apply (recover_failed d0 s) in E. congruence. }
  rewrite (recover_snapshot d0 d s H0 Hs) in Hr. injection Hr as <-. rewrite Hf, final_app, Hf. done.
Qed.

(* queries never change the state of a live replica, except the one malformed query (empty key) that kills it *)
Lemma query_pure P d q : (ostep P (Live d) (OpQuery q)).1 = Live d \/ (ostep P (Live d) (OpQuery q)).1 = Dead.
Proof. unfold ostep. destruct (db_query P d q); auto. Qed.

Lemma query_dead_iff P d q : (ostep P (Live d) (OpQuery q)).1 = Dead <-> d_failed d = false /\ q = QKV 0.
Proof.
  unfold ostep, db_query. destruct (d_failed d) eqn:Hf.
  - split; [done|]. intros [? _]. done.
  - destruct q as [|k|?|?|ids|?|?]; cbn; try (split; [done|intros [_ ?]; done]).
    + destruct (k =? 0) eqn:E.
      * apply N.eqb_eq in E. subst. done.
      * apply N.eqb_neq in E. split; [done|]. intros [_ [= ?]]. done.
    + destruct (lookup_states P d ids) as [[|? ?]|]; split; try done; intros [_ ?]; done.
Qed.

(* fail-stop is absorbing: the process that died stays dead, the failed latch stays set *)
Lemma dead_absorbing P os : final P Dead os = Dead /\ Forall (λ b, b = OPanic) (observe P Dead os).
Proof.
  induction os as [|o os [IH1 IH2]]; [split; [done|constructor]|].
  split; [exact IH1|]. cbn. constructor; [done|exact IH2].
Qed.

Lemma failed_absorbing P d os :
  d_failed d = true -> final P (Live d) os = Live d /\ Forall (λ b, b = OPanic) (observe P (Live d) os).
Proof.
  intros Hf. induction os as [|o os [IH1 IH2]]; [split; [done|constructor]|].
  assert (ostep P (Live d) o = (Live d, OPanic)) as E.
  { destruct o as [c|q]; cbn.
    - unfold rstep. rewrite (step_failed P d c Hf). reflexivity.
    - unfold db_query. rewrite Hf. reflexivity. }
  split.
  - unfold final. cbn [foldl]. rewrite E. exact IH1.
  - cbn [observe]. rewrite E. constructor; [done|exact IH2].
Qed.

(* the hash pre-image determines the state: replicas with the same pre-image ARE the same state *)
Lemma canon_inj d1 d2 : canon d1 = canon d2 -> d1 = d2.
Proof.
  destruct d1, d2. unfold canon. cbn. intros H.
  injection H as -> -> -> Hs Hk Hv -> Hh Hi Hr Ho.
  f_equal; apply map_to_list_inj; by (rewrite Hs || rewrite Hk || rewrite Hv || rewrite Hh || rewrite Hi || rewrite Hr || rewrite Ho).
Qed.

Lemma canon_snapshot d1 d2 s1 s2 : snapshot d1 = Some s1 -> snapshot d2 = Some s2 -> canon d1 = canon d2 -> s1 = s2.
Proof. intros H1 H2 Hc. apply canon_inj in Hc. subst. congruence. Qed.

Lemma canon_behaviour P d1 d2 os : canon d1 = canon d2 ->
  observe P (Live d1) os = observe P (Live d2) os /\ final P (Live d1) os = final P (Live d2) os.
Proof. intros Hc. apply canon_inj in Hc. by subst. Qed.
