(** LaunchProofs: proofs about the launch planning model (theories/Launch.v), property C08. *)
From stdpp Require Import gmap.
From Coq Require Import ZifyN ZifyNat ZifyBool Lia.
From Drummer.Model Require Import Base DB Launch LaunchRun.
Local Open Scope N_scope.

(** * Machine arithmetic *)

Lemma two63_lt_two64 : two63 < two64.
Proof. reflexivity. Qed.

Lemma two64_pos : 0 < two64.
Proof. reflexivity. Qed.

Lemma usub64_small a b : b <= a -> a < two64 -> usub64 a b = a - b.
Proof.
  intros Hba Ha. unfold usub64.
  pose proof two64_pos as Hp.
  rewrite (N.mod_small a two64) by lia.
  rewrite (N.mod_small b two64) by lia.
  replace (a + two64 - b) with (a - b + 1 * two64) by lia.
  rewrite N.mod_add by lia.
  apply N.mod_small. lia.
Qed.

Lemma to_int_small c : c < two63 -> to_int c = Z.of_N c.
Proof.
  intros Hc. unfold to_int. cbv zeta.
  pose proof two63_lt_two64 as H.
  rewrite (N.mod_small c two64) by lia.
  destruct (c <? two63) eqn:E; [reflexivity | lia].
Qed.

(** * Lists *)

Lemma nlen_app {A} (l k : list A) : nlen (l ++ k) = nlen l + nlen k.
Proof. unfold nlen. rewrite app_length. lia. Qed.

Lemma nlen_nil {A} : nlen (@nil A) = 0.
Proof. reflexivity. Qed.

Lemma nlen_cons {A} (x : A) l : nlen (x :: l) = nlen l + 1.
Proof. unfold nlen. cbn [length]. lia. Qed.

Lemma get_app_len {A} (pre : list A) x suf : get (pre ++ x :: suf) (nlen pre) = Some x.
Proof.
  unfold get, nlen. rewrite Nat2N.id.
  rewrite nth_error_app2 by lia. rewrite Nat.sub_diag. reflexivity.
Qed.

Lemma get_app_len_none {A} (pre : list A) : get pre (nlen pre) = None.
Proof. unfold get, nlen. rewrite Nat2N.id. apply nth_error_None. lia. Qed.

Lemma get_lt {A} (l : list A) i x : get l i = Some x -> i < nlen l.
Proof.
  unfold get, nlen. intros H.
  assert (N.to_nat i < length l)%nat by (apply nth_error_Some; congruence). lia.
Qed.

Lemma get_some {A} (l : list A) i : i < nlen l -> exists x, get l i = Some x.
Proof.
  unfold get, nlen. intros H.
  destruct (nth_error l (N.to_nat i)) eqn:E; [eauto|].
  apply nth_error_None in E. lia.
Qed.

Lemma get_In {A} (l : list A) i x : get l i = Some x -> In x l.
Proof. unfold get. apply nth_error_In. Qed.

Lemma get_nat {A} (l : list A) (n : nat) : get l (N.of_nat n) = nth_error l n.
Proof. unfold get. rewrite Nat2N.id. reflexivity. Qed.

Lemma memN_In x l : memN x l = true <-> In x l.
Proof.
  unfold memN. rewrite existsb_exists. split.
  - intros (y & Hy & E). apply N.eqb_eq in E. subst. exact Hy.
  - intros H. exists x. split; [exact H | apply N.eqb_refl].
Qed.

Lemma memN_not_In x l : memN x l = false <-> ~ In x l.
Proof.
  rewrite <- memN_In. destruct (memN x l); split; intros H; congruence.
Qed.

Lemma NoDup_snoc {A} (l : list A) x : NoDup l -> ~ In x l -> NoDup (l ++ [x]).
Proof.
  intros Hl Hx. induction Hl as [|y l Hy Hl IH]; cbn.
  - constructor; [intros [] | constructor].
  - constructor.
    + rewrite in_app_iff. intros [H | [H | []]]; [exact (Hy H)|].
      subst. apply Hx. left. reflexivity.
    + apply IH. intros H. apply Hx. right. exact H.
Qed.

Lemma filter_filter {A} (f g : A -> bool) l :
  List.filter f (List.filter g l) = List.filter (fun x => g x && f x) l.
Proof.
  induction l as [|x l IH]; cbn; [reflexivity|].
  destruct (g x); cbn; [destruct (f x); cbn|]; rewrite IH; reflexivity.
Qed.

Lemma filter_app' {A} (f : A -> bool) l k : List.filter f (l ++ k) = List.filter f l ++ List.filter f k.
Proof. induction l as [|x l IH]; cbn; [reflexivity|]. destruct (f x); cbn; rewrite IH; reflexivity. Qed.

Lemma filter_all {A} (f : A -> bool) l : Forall (fun x => f x = true) l -> List.filter f l = l.
Proof. induction 1 as [|x l Hx _ IH]; cbn; [reflexivity|]. rewrite Hx, IH. reflexivity. Qed.

Lemma filter_none {A} (f : A -> bool) l : Forall (fun x => f x = false) l -> List.filter f l = [].
Proof. induction 1 as [|x l Hx _ IH]; cbn; [reflexivity|]. rewrite Hx, IH. reflexivity. Qed.

Lemma NoDup_map_filter {A B} (g : A -> B) (f : A -> bool) l :
  NoDup (map g l) -> NoDup (map g (List.filter f l)).
Proof.
  induction l as [|x l IH]; cbn; intros H; [constructor|].
  inversion H as [|? ? Hx Hl]; subst.
  destruct (f x); cbn; [constructor|]; auto.
  intros Hin. apply Hx. apply in_map_iff in Hin as (y & Ey & Hy).
  apply filter_In in Hy as [Hy _]. apply in_map_iff. eauto.
Qed.

Lemma NoDup_map_inj_on {A B} (g : A -> B) l x y :
  NoDup (map g l) -> In x l -> In y l -> g x = g y -> x = y.
Proof.
  induction l as [|z l IH]; cbn; intros Hnd Hx Hy E; [contradiction|].
  inversion Hnd as [|? ? Hz Hl]; subst.
  destruct Hx as [-> | Hx], Hy as [-> | Hy]; auto.
  - exfalso. apply Hz. rewrite E. apply in_map. exact Hy.
  - exfalso. apply Hz. rewrite <- E. apply in_map. exact Hx.
Qed.

(** * check_counts: the guard "counts add up exactly to the shard size" *)

Lemma sumN_app l k : sumN (l ++ k) = sumN l + sumN k.
Proof. unfold sumN. induction l as [|x l IH]; cbn [fold_right app]; [reflexivity|]. rewrite IH. lia. Qed.

Lemma check_counts_char cs : forall rem, rem < two64 ->
  check_counts rem cs = if sumN cs <=? rem then Some (rem - sumN cs) else None.
Proof.
  induction cs as [|c cs IH]; intros rem Hrem; cbn [check_counts sumN fold_right].
  - replace (0 <=? rem) with true by lia. f_equal. lia.
  - fold (sumN cs). destruct (rem <? c) eqn:E.
    + replace (c + sumN cs <=? rem) with false by lia. reflexivity.
    + rewrite usub64_small by lia. rewrite IH by lia.
      destruct (sumN cs <=? rem - c) eqn:E2.
      * replace (c + sumN cs <=? rem) with true by lia. f_equal. lia.
      * replace (c + sumN cs <=? rem) with false by lia. reflexivity.
Qed.

Lemma check_counts_zero cs n : n < two64 ->
  (check_counts n cs = Some 0 <-> sumN cs = n).
Proof.
  intros Hn. rewrite check_counts_char by exact Hn.
  destruct (sumN cs <=? n) eqn:E; split; intros H; try congruence; try lia.
  - injection H as H. lia.
  - f_equal. lia.
Qed.

Lemma sumN_le_all cs : Forall (fun c => c <= sumN cs) cs.
Proof.
  induction cs as [|c cs IH]; constructor; cbn [sumN fold_right]; fold (sumN cs); [lia|].
  eapply Forall_impl; [|exact IH]. cbv beta. intros a Ha. lia.
Qed.

(** * has_dup *)

Lemma has_dup_false l : forall seen,
  has_dup seen l = false <-> NoDup l /\ (forall x, In x l -> ~ In x seen).
Proof.
  induction l as [|x l IH]; intros seen; cbn [has_dup].
  - split; [intros _; split; [constructor | intros ? []] | reflexivity].
  - destruct (memN x seen) eqn:E.
    + apply memN_In in E. split; [discriminate|]. intros [_ H]. exfalso. apply (H x); [left; reflexivity | exact E].
    + apply memN_not_In in E. rewrite IH. split.
      * intros [Hnd Hd]. split.
        -- constructor; [|exact Hnd]. intros Hx. apply (Hd x Hx). left. reflexivity.
        -- intros y [<- | Hy]; [exact E|]. intros Hs. apply (Hd y Hy). right. exact Hs.
      * intros [Hnd Hd]. inversion Hnd as [|? ? Hx Hl]; subst. split; [exact Hl|].
        intros y Hy [<- | Hs]; [exact (Hx Hy)|]. apply (Hd y); [right; exact Hy | exact Hs].
Qed.

Lemma has_dup_NoDup l : has_dup [] l = false <-> NoDup l.
Proof.
  rewrite has_dup_false. split; [intros [H _]; exact H | intros H; split; [exact H | intros ? _ []]].
Qed.

(** * pick_loop: the rejection sampling loop *)

Definition sel_ok (n : N) (selected : list N) : Prop :=
  NoDup selected /\ Forall (fun i => i < n) selected.

Lemma pick_loop_eq n count selected ds :
  pick_loop n count selected ds =
  if (Z.of_nat (length selected) =? count)%Z then PDone selected ds
  else match ds with
       | [] => POut
       | d :: ds' =>
           if n =? 0 then PCrash
           else if memN (d mod n) selected then pick_loop n count selected ds'
                else pick_loop n count (selected ++ [d mod n]) ds'
       end.
Proof. destruct ds; reflexivity. Qed.

Lemma pick_done ds : forall n count selected sl rest,
  pick_loop n count selected ds = PDone sl rest ->
  sel_ok n selected ->
  sel_ok n sl /\ Z.of_nat (length sl) = count /\ exists used, ds = used ++ rest.
Proof.
  induction ds as [|d ds IH]; intros n count selected sl rest H Hok; rewrite pick_loop_eq in H.
  - destruct (Z.of_nat (length selected) =? count)%Z eqn:E; [|discriminate].
    injection H as <- <-. split; [exact Hok|]. split; [lia|]. exists []. reflexivity.
  - destruct (Z.of_nat (length selected) =? count)%Z eqn:E.
    + injection H as <- <-. split; [exact Hok|]. split; [lia|]. exists []. reflexivity.
    + destruct (n =? 0) eqn:En; [discriminate|].
      destruct (memN (d mod n) selected) eqn:Em.
      * destruct (IH _ _ _ _ _ H Hok) as (H1 & H2 & used & ->).
        split; [exact H1|]. split; [exact H2|]. exists (d :: used). reflexivity.
      * assert (Hok' : sel_ok n (selected ++ [d mod n])).
        { destruct Hok as [Hnd Hlt]. split.
          - apply NoDup_snoc; [exact Hnd|]. apply memN_not_In. exact Em.
          - apply Forall_app. split; [exact Hlt|]. constructor; [|constructor].
            apply N.mod_lt. lia. }
        destruct (IH _ _ _ _ _ H Hok') as (H1 & H2 & used & ->).
        split; [exact H1|]. split; [exact H2|]. exists (d :: used). reflexivity.
Qed.

Lemma pick_no_crash ds : forall n count selected,
  n <> 0 \/ Z.of_nat (length selected) = count ->
  pick_loop n count selected ds <> PCrash.
Proof.
  induction ds as [|d ds IH]; intros n count selected Hc; rewrite pick_loop_eq.
  - destruct (Z.of_nat (length selected) =? count)%Z; discriminate.
  - destruct (Z.of_nat (length selected) =? count)%Z eqn:E; [discriminate|].
    assert (Hn : n <> 0) by (destruct Hc as [Hc | Hc]; [exact Hc | lia]).
    destruct (n =? 0) eqn:En; [lia|].
    destruct (memN (d mod n) selected); apply IH; left; exact Hn.
Qed.

(** * gather *)

Lemma gather_some fl sl : Forall (fun i => i < nlen fl) sl -> exists hs, gather fl sl = Some hs.
Proof.
  induction 1 as [|i sl Hi _ (hs & IH)]; cbn [gather]; [eauto|].
  destruct (get_some fl i Hi) as (h & ->). rewrite IH. eauto.
Qed.

Lemma gather_spec fl sl : forall hs, gather fl sl = Some hs -> Forall2 (fun i h => get fl i = Some h) sl hs.
Proof.
  induction sl as [|i sl IH]; cbn [gather]; intros hs H.
  - injection H as <-. constructor.
  - destruct (get fl i) as [h|] eqn:E; [|discriminate].
    destruct (gather fl sl) as [hs'|]; [|discriminate].
    injection H as <-. constructor; [exact E | apply IH; reflexivity].
Qed.

Lemma gather_facts fl sl hs :
  Forall2 (fun i h => get fl i = Some h) sl hs ->
  length hs = length sl /\ Forall (fun h => In h fl) hs /\
  (NoDup sl -> NoDup (map h_addr fl) -> NoDup (map h_addr hs)).
Proof.
  induction 1 as [|i h sl hs Hi HF (IHl & IHin & IHnd)].
  - split; [reflexivity|]. split; [constructor|]. intros _ _. constructor.
  - split; [cbn; lia|]. split; [constructor; [eapply get_In; exact Hi | exact IHin]|].
    intros Hnd Hfl. inversion Hnd as [|? ? Hni Hnd']; subst. cbn [map]. constructor; [|auto].
    intros Hin. apply in_map_iff in Hin as (h' & Ea & Hh').
    (* h' is at some index i' of sl *)
    assert (Hex : exists i', In i' sl /\ get fl i' = Some h').
    { clear - HF Hh'. induction HF as [|j g sl hs Hj _ IH]; [contradiction|].
      destruct Hh' as [<- | Hh']; [exists j; split; [left; reflexivity | exact Hj]|].
      destruct (IH Hh') as (i' & H1 & H2). exists i'. split; [right; exact H1 | exact H2]. }
    destruct Hex as (i' & Hi' & Hg').
    apply Hni. replace i with i'; [exact Hi'|].
    unfold get in Hi, Hg'.
    assert (E : N.to_nat i' = N.to_nat i).
    { apply (proj1 (NoDup_nth_error (map h_addr fl)) Hfl).
      - rewrite map_length. apply nth_error_Some. congruence.
      - rewrite !nth_error_map, Hi, Hg'. cbn. congruence. }
    lia.
Qed.

(** * filters *)

Lemma drummer_region_filter_eq ttl tick sid reg l :
  drummer_region_filter ttl tick sid reg l = List.filter (suitableb ttl tick sid reg) l.
Proof.
  unfold drummer_region_filter, region_filter, basic_filter, live_filter.
  rewrite !filter_filter. apply filter_ext. intros h. unfold suitableb. rewrite andb_assoc. reflexivity.
Qed.

Lemma suitableb_spec ttl tick sid reg h :
  suitableb ttl tick sid reg h = true <-> suitable ttl tick sid reg h.
Proof.
  unfold suitableb, suitable, host_live, is_live, hosts_shard.
  rewrite !andb_true_iff, negb_true_iff, bool_decide_eq_false, N.ltb_lt, N.eqb_eq.
  split; [intros [[H1 H2] H3] | intros (H1 & H2 & H3)]; repeat split; auto.
Qed.

Lemma is_live_spec ttl tick h : is_live ttl tick h = true <-> host_live ttl tick h.
Proof. unfold is_live, host_live. apply N.ltb_lt. Qed.

Lemma n_suitable_eq ttl tick sid reg fleet :
  n_suitable ttl tick sid reg fleet = nlen (drummer_region_filter ttl tick sid reg fleet).
Proof. unfold n_suitable. rewrite drummer_region_filter_eq. reflexivity. Qed.

Lemma in_region_filter ttl tick sid reg fleet h :
  In h (drummer_region_filter ttl tick sid reg fleet) <-> In h fleet /\ suitable ttl tick sid reg h.
Proof. rewrite drummer_region_filter_eq, filter_In, suitableb_spec. reflexivity. Qed.

(** * find_suitable *)

(** what one region contributes: nothing when the region is short of suitable hosts, otherwise
    exactly [c] distinct suitable hosts *)
Definition region_block (ttl tick : N) (fleet : list hostspec) (sid : N) (p : N * N) (hs : list hostspec) : Prop :=
  (n_suitable ttl tick sid (fst p) fleet < snd p /\ hs = []) \/
  (snd p <= n_suitable ttl tick sid (fst p) fleet /\ nlen hs = snd p /\
   Forall (fun h => In h fleet /\ suitable ttl tick sid (fst p) h) hs /\
   (NoDup (map h_addr fleet) -> NoDup (map h_addr hs))).

Lemma find_suitable_spec ttl tick sid reg fleet c ds :
  match find_suitable ttl tick sid reg fleet (Z.of_N c) ds with
  | FCrash => False
  | FOut => True
  | FDone hs rest => region_block ttl tick fleet sid (reg, c) hs /\ exists used, ds = used ++ rest
  end.
Proof.
  unfold find_suitable. cbv zeta.
  set (fl := drummer_region_filter ttl tick sid reg fleet).
  assert (Hn : n_suitable ttl tick sid reg fleet = nlen fl) by apply n_suitable_eq.
  destruct (Z.of_nat (length fl) <? Z.of_N c)%Z eqn:E.
  - split; [|exists []; reflexivity]. left. cbn [fst snd]. rewrite Hn. unfold nlen. split; [lia | reflexivity].
  - assert (Hle : c <= nlen fl) by (unfold nlen; lia).
    destruct (pick_loop (nlen fl) (Z.of_N c) [] ds) as [sl rest| |] eqn:Ep; [| |exact I].
    + assert (Hok0 : sel_ok (nlen fl) []) by (split; constructor).
      destruct (pick_done _ _ _ _ _ _ Ep Hok0) as ((Hnd & Hlt) & Hlen & Hused).
      destruct (gather_some fl sl Hlt) as (hs & Eg). rewrite Eg.
      split; [|exact Hused]. right. cbn [fst snd].
      destruct (gather_facts _ _ _ (gather_spec _ _ _ Eg)) as (Hl & Hin & Hndh).
      split; [rewrite Hn; exact Hle|]. split; [unfold nlen; lia|]. split.
      * eapply Forall_impl; [|exact Hin]. cbv beta. intros h Hh. apply in_region_filter. exact Hh.
      * intros Hf. apply Hndh; [exact Hnd|]. subst fl. rewrite drummer_region_filter_eq.
        apply NoDup_map_filter. exact Hf.
    + exfalso. eapply pick_no_crash; [|exact Ep].
      destruct (N.eq_dec (nlen fl) 0) as [E0|E0]; [right; cbn; lia | left; exact E0].
Qed.

(** * select_regions: the loop over the regions of the specification *)

Lemma select_regions_spec ttl tick fleet sid regs : forall pre cs selected ds,
  length regs = length cs -> Forall (fun c => c < two63) cs ->
  match select_regions ttl tick fleet sid (pre ++ cs) (nlen pre) regs selected ds with
  | SCrash => False
  | SOut => True
  | SDone sl rest =>
      (exists blocks, sl = selected ++ concat blocks /\
                      Forall2 (region_block ttl tick fleet sid) (combine regs cs) blocks) /\
      exists used, ds = used ++ rest
  end.
Proof.
  induction regs as [|reg regs IH]; intros pre cs selected ds Hlen Hcs; cbn [select_regions].
  - split; [|exists []; reflexivity]. exists []. cbn. rewrite app_nil_r. split; [reflexivity | constructor].
  - destruct cs as [|c cs]; [discriminate|]. rewrite get_app_len.
    inversion Hcs as [|? ? Hc Hcs']; subst.
    rewrite to_int_small by exact Hc.
    pose proof (find_suitable_spec ttl tick sid reg fleet c ds) as Hf.
    destruct (find_suitable ttl tick sid reg fleet (Z.of_N c) ds) as [hs rest| |]; [|exact Hf|exact I].
    destruct Hf as (Hb & used & ->).
    assert (Hlen' : length regs = length cs) by (cbn in Hlen; lia).
    specialize (IH (pre ++ [c]) cs (selected ++ hs) rest Hlen' Hcs').
    rewrite <- app_assoc in IH. cbn [app] in IH. rewrite nlen_app in IH. change (nlen [c]) with 1 in IH.
    destruct (select_regions ttl tick fleet sid (pre ++ c :: cs) (nlen pre + 1) regs (selected ++ hs) rest)
      as [sl rest'| |]; [|exact IH|exact I].
    destruct IH as ((blocks & -> & HF) & used' & ->).
    split; [|exists (used ++ used'); rewrite app_assoc; reflexivity].
    exists (hs :: blocks). cbn [concat combine]. rewrite app_assoc. split; [reflexivity|].
    constructor; [exact Hb | exact HF].
Qed.

(** a region that contributed its full count *)
Definition full_block (ttl tick : N) (fleet : list hostspec) (sid : N) (p : N * N) (hs : list hostspec) : Prop :=
  snd p <= n_suitable ttl tick sid (fst p) fleet /\ nlen hs = snd p /\
  Forall (fun h => In h fleet /\ suitable ttl tick sid (fst p) h) hs /\
  (NoDup (map h_addr fleet) -> NoDup (map h_addr hs)).

Lemma blocks_len ttl tick fleet sid ps blocks :
  Forall2 (region_block ttl tick fleet sid) ps blocks ->
  nlen (concat blocks) <= sumN (map snd ps).
Proof.
  induction 1 as [|p hs ps blocks Hp _ IH]; cbn [concat map sumN fold_right]; [unfold nlen; cbn; lia|].
  fold (sumN (map snd ps)). rewrite nlen_app.
  destruct Hp as [[_ ->] | (_ & Hl & _)]; [rewrite nlen_nil|]; lia.
Qed.

Lemma blocks_full ttl tick fleet sid ps blocks :
  Forall2 (region_block ttl tick fleet sid) ps blocks ->
  sumN (map snd ps) <= nlen (concat blocks) ->
  Forall2 (full_block ttl tick fleet sid) ps blocks.
Proof.
  induction 1 as [|p hs ps blocks Hp HF IH]; cbn [concat map sumN fold_right]; [constructor|].
  fold (sumN (map snd ps)). rewrite nlen_app. intros Hle.
  pose proof (blocks_len _ _ _ _ _ _ HF) as Hb.
  destruct Hp as [[Hlt ->] | Hfull].
  - rewrite nlen_nil in Hle. exfalso. lia.
  - constructor; [exact Hfull|]. apply IH. destruct Hfull as (_ & Hl & _). lia.
Qed.

Lemma blocks_lacking ttl tick fleet sid ps blocks :
  Forall2 (region_block ttl tick fleet sid) ps blocks ->
  nlen (concat blocks) < sumN (map snd ps) ->
  exists n p, nth_error ps n = Some p /\ n_suitable ttl tick sid (fst p) fleet < snd p.
Proof.
  induction 1 as [|p hs ps blocks Hp HF IH]; cbn [concat map sumN fold_right].
  - unfold nlen. cbn. lia.
  - fold (sumN (map snd ps)). rewrite nlen_app. intros Hlt.
    destruct Hp as [[Hl ->] | (_ & Hl & _)].
    + exists 0%nat, p. split; [reflexivity | exact Hl].
    + destruct IH as (n & q & Hn & Hq); [lia|]. exists (S n), q. split; [exact Hn | exact Hq].
Qed.

Lemma nth_error_combine {A B} (l : list A) (k : list B) n a b :
  nth_error (combine l k) n = Some (a, b) <-> nth_error l n = Some a /\ nth_error k n = Some b.
Proof.
  revert k n. induction l as [|x l IH]; intros k n.
  - cbn. destruct n; cbn; split; [discriminate | intros [H _]; discriminate | discriminate | intros [H _]; discriminate].
  - destruct k as [|y k].
    + cbn. destruct n; cbn; split; try discriminate; intros [_ H]; discriminate.
    + destruct n; cbn.
      * split; [intros H; injection H as <- <-; auto | intros [H1 H2]; congruence].
      * apply IH.
Qed.

Lemma Forall2_nth_l {A B} (P : A -> B -> Prop) l k n a :
  Forall2 P l k -> nth_error l n = Some a -> exists b, nth_error k n = Some b /\ P a b.
Proof.
  intros H. revert n. induction H as [|x y l k Hxy _ IH]; intros n Hn.
  - destruct n; discriminate.
  - destruct n; cbn in Hn |- *.
    + injection Hn as <-. eauto.
    + apply IH. exact Hn.
Qed.

(** * the per-shard tail of getLaunchRequests *)

Lemma addr_list_spec ms : forall pre suf, (length ms <= length suf)%nat ->
  addr_list (pre ++ suf) (nlen pre) ms = Some (map h_addr (firstn (length ms) suf)).
Proof.
  induction ms as [|m ms IH]; intros pre suf Hl; cbn [addr_list length firstn map]; [reflexivity|].
  destruct suf as [|h suf]; [cbn in Hl; lia|]. rewrite get_app_len.
  specialize (IH (pre ++ [h]) suf). rewrite <- app_assoc in IH. cbn [app] in IH.
  rewrite nlen_app in IH. change (nlen [h]) with 1 in IH.
  rewrite IH by (cbn in Hl; lia). reflexivity.
Qed.

Definition launch_req (sd : shard_def) (rids addrs : list N) (t : hostspec) (m : N) : request :=
  mkReq RCreate (sd_id sd) rids 0 rids addrs m (h_addr t) false false (sd_app sd).

Lemma shard_requests_inv sd rids addrs ts : forall pre suf l,
  sd_members sd = pre ++ suf ->
  shard_requests sd rids addrs (nlen pre) ts = Some l ->
  (length ts <= length suf)%nat /\
  l = map (fun tm => launch_req sd rids addrs (fst tm) (snd tm)) (combine ts suf).
Proof.
  induction ts as [|t ts IH]; intros pre suf l Hm H; cbn [shard_requests] in H.
  - injection H as <-. split; [cbn; lia | reflexivity].
  - rewrite Hm in H. destruct suf as [|m suf].
    + rewrite app_nil_r, get_app_len_none in H. discriminate.
    + rewrite get_app_len in H.
      destruct (shard_requests sd rids addrs (nlen pre + 1) ts) as [l'|] eqn:E; [|discriminate].
      injection H as <-.
      specialize (IH (pre ++ [m]) suf l'). rewrite <- app_assoc in IH. cbn [app] in IH.
      rewrite nlen_app in IH. change (nlen [m]) with 1 in IH.
      destruct (IH Hm E) as [Hl ->]. split; [cbn; lia | reflexivity].
Qed.

Lemma shard_requests_some sd rids addrs ts : forall pre suf,
  sd_members sd = pre ++ suf -> (length ts <= length suf)%nat ->
  exists l, shard_requests sd rids addrs (nlen pre) ts = Some l.
Proof.
  induction ts as [|t ts IH]; intros pre suf Hm Hl; cbn [shard_requests]; [eauto|].
  destruct suf as [|m suf]; [cbn in Hl; lia|].
  rewrite Hm, get_app_len.
  specialize (IH (pre ++ [m]) suf). rewrite <- app_assoc in IH. cbn [app] in IH.
  rewrite nlen_app in IH. change (nlen [m]) with 1 in IH.
  destruct (IH Hm) as (l & ->); [cbn in Hl; lia|]. eauto.
Qed.

Inductive step := StOk (qs : list request) (rest : list N) | StRefused | StCrash | StOut.

Definition shard_step (ttl tick : N) (fleet : list hostspec) (r : regions) (sd : shard_def) (ds : list N) : step :=
  match check_counts (nlen (sd_members sd)) (rg_count r) with
  | None => StRefused
  | Some remaining =>
      if negb (remaining =? 0) then StRefused
      else
        match select_regions ttl tick fleet (sd_id sd) (rg_count r) 0 (rg_region r) [] ds with
        | SCrash => StCrash
        | SOut => StOut
        | SDone selected ds' =>
            if nlen selected <? nlen (sd_members sd) then StRefused
            else
              match addr_list selected 0 (sd_members sd) with
              | None => StCrash
              | Some addrs =>
                  match shard_requests sd (sd_members sd) addrs 0 selected with
                  | None => StCrash
                  | Some qs => StOk qs ds'
                  end
              end
        end
  end.

Lemma launch_shards_step ttl tick fleet r sd rest result ds :
  launch_shards ttl tick fleet r (sd :: rest) result ds =
  match shard_step ttl tick fleet r sd ds with
  | StOk qs ds' => launch_shards ttl tick fleet r rest (result ++ qs) ds'
  | StRefused => Refused
  | StCrash => Crash
  | StOut => OutOfDraws
  end.
Proof.
  cbn [launch_shards]. unfold shard_step.
  destruct (check_counts (nlen (sd_members sd)) (rg_count r)) as [rem|]; [|reflexivity].
  destruct (negb (rem =? 0)); [reflexivity|].
  destruct (select_regions ttl tick fleet (sd_id sd) (rg_count r) 0 (rg_region r) [] ds) as [sl ds'| |];
    [|reflexivity|reflexivity].
  destruct (nlen sl <? nlen (sd_members sd)); [reflexivity|].
  destruct (addr_list sl 0 (sd_members sd)) as [addrs|]; [|reflexivity].
  destruct (shard_requests sd (sd_members sd) addrs 0 sl); reflexivity.
Qed.

(** the hosts [hs] chosen for shard [sd] (member k on host k) and the requests built from them *)
Definition placed (ttl tick : N) (fleet : list hostspec) (r : regions) (sd : shard_def)
           (hs : list hostspec) (qs : list request) : Prop :=
  length hs = length (sd_members sd) /\
  qs = map (fun tm => launch_req sd (sd_members sd) (map h_addr hs) (fst tm) (snd tm))
           (combine hs (sd_members sd)) /\
  exists blocks, hs = concat blocks /\
                 Forall2 (full_block ttl tick fleet (sd_id sd)) (combine (rg_region r) (rg_count r)) blocks.

Lemma shard_step_spec ttl tick fleet r sd ds :
  nlen (sd_members sd) < two63 -> length (rg_region r) = length (rg_count r) ->
  match shard_step ttl tick fleet r sd ds with
  | StCrash => False
  | StOut => True
  | StRefused => unplaceable ttl tick fleet r sd
  | StOk qs ds' =>
      sumN (rg_count r) = nlen (sd_members sd) /\
      (exists hs, placed ttl tick fleet r sd hs qs) /\
      exists used, ds = used ++ ds'
  end.
Proof.
  intros Hsz Hlen. unfold shard_step.
  pose proof two63_lt_two64 as H6364.
  rewrite check_counts_char by lia.
  destruct (sumN (rg_count r) <=? nlen (sd_members sd)) eqn:Esum; [|left; lia].
  destruct (negb (nlen (sd_members sd) - sumN (rg_count r) =? 0)) eqn:Erem; [left; lia|].
  assert (Hsum : sumN (rg_count r) = nlen (sd_members sd)) by lia.
  assert (Hcs : Forall (fun c => c < two63) (rg_count r)).
  { eapply Forall_impl; [|apply sumN_le_all]. cbv beta. intros c Hc. lia. }
  pose proof (select_regions_spec ttl tick fleet (sd_id sd) (rg_region r) [] (rg_count r) [] ds Hlen Hcs) as Hs.
  cbn [app] in Hs. change (nlen []) with 0 in Hs.
  destruct (select_regions ttl tick fleet (sd_id sd) (rg_count r) 0 (rg_region r) [] ds) as [sl ds'| |];
    [|exact Hs|exact I].
  destruct Hs as ((blocks & -> & HF) & Hused).
  assert (Hmap : map snd (combine (rg_region r) (rg_count r)) = rg_count r).
  { clear - Hlen. revert Hlen. generalize (rg_count r). induction (rg_region r) as [|x l IH]; intros [|c cs] H; try discriminate; [reflexivity|].
    cbn. f_equal. apply IH. cbn in H. lia. }
  pose proof (blocks_len _ _ _ _ _ _ HF) as Hble. rewrite Hmap in Hble.
  destruct (nlen (concat blocks) <? nlen (sd_members sd)) eqn:Elt.
  - (* some region is short of hosts *)
    right. destruct (blocks_lacking _ _ _ _ _ _ HF) as (n & [reg cnt] & Hn & Hlack); [rewrite Hmap; lia|].
    apply nth_error_combine in Hn as [Hn1 Hn2].
    exists (N.of_nat n), reg, cnt. rewrite !get_nat. auto.
  - assert (HFull : Forall2 (full_block ttl tick fleet (sd_id sd)) (combine (rg_region r) (rg_count r)) blocks).
    { apply blocks_full; [exact HF|]. rewrite Hmap. lia. }
    assert (Hleq : length (concat blocks) = length (sd_members sd)) by (unfold nlen in *; lia).
    pose proof (addr_list_spec (sd_members sd) [] (concat blocks)) as Ha.
    cbn [app] in Ha. change (nlen []) with 0 in Ha. rewrite Ha by lia. clear Ha.
    rewrite <- Hleq, firstn_all.
    destruct (shard_requests_some sd (sd_members sd) (map h_addr (concat blocks)) (concat blocks) [] (sd_members sd) eq_refl) as (qs & Eq); [lia|].
    change (nlen []) with 0 in Eq. rewrite Eq.
    destruct (shard_requests_inv sd _ _ _ [] _ _ eq_refl Eq) as [_ ->].
    split; [exact Hsum|]. split; [|exact Hused].
    exists (concat blocks). split; [exact Hleq|]. split; [reflexivity|].
    exists blocks. split; [reflexivity | exact HFull].
Qed.

(** * No crash *)

Lemma launch_shards_no_crash ttl tick fleet r shards : forall result ds,
  go_sized shards -> length (rg_region r) = length (rg_count r) ->
  launch_shards ttl tick fleet r shards result ds <> Crash.
Proof.
  induction shards as [|sd shards IH]; intros result ds Hgs Hlen; [cbn; discriminate|].
  rewrite launch_shards_step. inversion Hgs as [|? ? Hsd Hgs']; subst.
  pose proof (shard_step_spec ttl tick fleet r sd ds Hsd Hlen) as Hs.
  destruct (shard_step ttl tick fleet r sd ds) as [qs ds'| | |];
    [apply IH; assumption | discriminate | contradiction | discriminate].
Qed.

Lemma launch_unfold ttl tick fleet shards r ds :
  launch ttl tick fleet shards (Some r) ds =
  if negb (nlen (rg_region r) =? nlen (rg_count r)) then Refused
  else if has_dup [] (rg_region r) then Refused
       else launch_shards ttl tick fleet r shards [] ds.
Proof. reflexivity. Qed.

Lemma launch_nil ttl tick fleet shards ds : launch ttl tick fleet shards None ds = Refused.
Proof. reflexivity. Qed.

Theorem launch_no_crash : forall ttl tick fleet shards regs ds,
  go_sized shards -> launch ttl tick fleet shards regs ds <> Crash.
Proof.
  intros ttl tick fleet shards [r|] ds Hgs; [|rewrite launch_nil; discriminate].
  rewrite launch_unfold.
  destruct (negb (nlen (rg_region r) =? nlen (rg_count r))) eqn:E; [discriminate|].
  destruct (has_dup [] (rg_region r)); [discriminate|].
  apply launch_shards_no_crash; [exact Hgs|]. unfold nlen in E. lia.
Qed.

(** * All or nothing (no hypothesis at all) *)

Lemma map_snd_combine {A B} (l : list A) (k : list B) : length l = length k -> map snd (combine l k) = k.
Proof.
  revert k. induction l as [|x l IH]; intros [|y k] H; try discriminate; [reflexivity|].
  cbn. f_equal. apply IH. cbn in H. lia.
Qed.

Lemma map_fst_combine {A B} (l : list A) (k : list B) : length l = length k -> map fst (combine l k) = l.
Proof.
  revert k. induction l as [|x l IH]; intros [|y k] H; try discriminate; [reflexivity|].
  cbn. f_equal. apply IH. cbn in H. lia.
Qed.

Definition req_key (q : request) : N * N := (q_shard q, q_inst q).
Definition shard_keys (sd : shard_def) : list (N * N) := map (fun m => (sd_id sd, m)) (sd_members sd).

Lemma shard_step_complete ttl tick fleet r sd ds qs ds' :
  shard_step ttl tick fleet r sd ds = StOk qs ds' -> map req_key qs = shard_keys sd.
Proof.
  unfold shard_step.
  destruct (check_counts (nlen (sd_members sd)) (rg_count r)) as [rem|]; [|discriminate].
  destruct (negb (rem =? 0)); [discriminate|].
  destruct (select_regions ttl tick fleet (sd_id sd) (rg_count r) 0 (rg_region r) [] ds) as [sl rest| |];
    [|discriminate|discriminate].
  destruct (nlen sl <? nlen (sd_members sd)) eqn:Elt; [discriminate|].
  destruct (addr_list sl 0 (sd_members sd)) as [addrs|]; [|discriminate].
  destruct (shard_requests sd (sd_members sd) addrs 0 sl) as [l|] eqn:Eq; [|discriminate].
  intros H. injection H as <- <-.
  destruct (shard_requests_inv sd _ _ _ [] _ _ eq_refl Eq) as [Hle ->].
  assert (Hl : length sl = length (sd_members sd)) by (unfold nlen in Elt; lia).
  rewrite map_map. unfold shard_keys. rewrite <- (map_snd_combine sl (sd_members sd) Hl) at 2.
  rewrite map_map. reflexivity.
Qed.

Lemma launch_shards_complete ttl tick fleet r shards : forall result ds qs,
  launch_shards ttl tick fleet r shards result ds = Plan qs ->
  map req_key qs = map req_key result ++ flat_map shard_keys shards.
Proof.
  induction shards as [|sd shards IH]; intros result ds qs H.
  - cbn in H. injection H as <-. cbn. rewrite app_nil_r. reflexivity.
  - rewrite launch_shards_step in H.
    destruct (shard_step ttl tick fleet r sd ds) as [qsd ds'| | |] eqn:Es; try discriminate.
    rewrite (IH _ _ _ H), map_app, <- app_assoc. cbn [flat_map].
    rewrite (shard_step_complete _ _ _ _ _ _ _ _ Es). reflexivity.
Qed.

Theorem launch_all_or_nothing : forall ttl tick fleet shards regs ds qs,
  launch ttl tick fleet shards regs ds = Plan qs ->
  map (fun q => (q_shard q, q_inst q)) qs =
  flat_map (fun sd => map (fun m => (sd_id sd, m)) (sd_members sd)) shards.
Proof.
  intros ttl tick fleet shards [r|] ds qs H; [|rewrite launch_nil in H; discriminate].
  rewrite launch_unfold in H.
  destruct (negb (nlen (rg_region r) =? nlen (rg_count r))); [discriminate|].
  destruct (has_dup [] (rg_region r)); [discriminate|].
  apply launch_shards_complete in H. exact H.
Qed.

(** a plan exists only for a specification that is present *)
Theorem launch_plan_needs_regions : forall ttl tick fleet shards regs ds qs,
  launch ttl tick fleet shards regs ds = Plan qs -> exists r, regs = Some r.
Proof.
  intros ttl tick fleet shards [r|] ds qs H; [eauto | rewrite launch_nil in H; discriminate].
Qed.

(** * Validity of a plan *)

Lemma NoDup_app_intro {A} (l k : list A) :
  NoDup l -> NoDup k -> (forall x, In x l -> ~ In x k) -> NoDup (l ++ k).
Proof.
  intros Hl Hk Hd. induction Hl as [|x l Hx Hl IH]; cbn; [exact Hk|].
  constructor.
  - rewrite in_app_iff. intros [H | H]; [exact (Hx H) | exact (Hd x (or_introl eq_refl) H)].
  - apply IH. intros y Hy. apply Hd. right. exact Hy.
Qed.

Lemma full_blocks_hosts ttl tick fleet sid ps blocks :
  Forall2 (full_block ttl tick fleet sid) ps blocks ->
  Forall (fun h => In h fleet /\ host_live ttl tick h /\ sid ∉ h_shards h /\ In (h_region h) (map fst ps))
         (concat blocks).
Proof.
  induction 1 as [|p hs ps blocks Hp _ IH]; cbn [concat map]; [constructor|].
  apply Forall_app. split.
  - destruct Hp as (_ & _ & Hf & _). eapply Forall_impl; [|exact Hf]. cbv beta.
    intros h (Hin & Hl & Hs & Hr). repeat split; auto. left. symmetry. exact Hr.
  - eapply Forall_impl; [|exact IH]. cbv beta. intros h (Hin & Hl & Hs & Hr). repeat split; auto. right. exact Hr.
Qed.

Lemma full_blocks_nodup ttl tick fleet sid ps blocks :
  NoDup (map h_addr fleet) -> NoDup (map fst ps) ->
  Forall2 (full_block ttl tick fleet sid) ps blocks ->
  NoDup (map h_addr (concat blocks)).
Proof.
  intros Hfl Hnd HF. induction HF as [|p hs ps blocks Hp HF IH]; cbn [concat map]; [constructor|].
  cbn [map] in Hnd. inversion Hnd as [|? ? Hp0 Hnd']; subst.
  rewrite map_app. apply NoDup_app_intro.
  - destruct Hp as (_ & _ & _ & H). exact (H Hfl).
  - exact (IH Hnd').
  - intros a Ha Hb.
    apply in_map_iff in Ha as (h0 & E0 & Hh0). apply in_map_iff in Hb as (h1 & E1 & Hh1).
    destruct Hp as (_ & _ & Hf & _).
    rewrite Forall_forall in Hf. destruct (Hf h0 Hh0) as (Hin0 & _ & _ & Hr0).
    pose proof (full_blocks_hosts _ _ _ _ _ _ HF) as Hrest. rewrite Forall_forall in Hrest.
    destruct (Hrest h1 Hh1) as (Hin1 & _ & _ & Hr1).
    assert (h0 = h1) by (eapply NoDup_map_inj_on; [exact Hfl | exact Hin0 | exact Hin1 | congruence]).
    subst h1. apply Hp0. rewrite <- Hr0. exact Hr1.
Qed.

Lemma full_blocks_quota ttl tick fleet sid ps blocks :
  NoDup (map fst ps) ->
  Forall2 (full_block ttl tick fleet sid) ps blocks ->
  forall n p, nth_error ps n = Some p ->
              nlen (List.filter (fun h => fst p =? h_region h) (concat blocks)) = snd p.
Proof.
  intros Hnd HF. induction HF as [|p0 hs ps blocks Hp HF IH]; intros n p Hn; [destruct n; discriminate|].
  cbn [map] in Hnd. inversion Hnd as [|? ? Hp0 Hnd']; subst.
  cbn [concat]. rewrite filter_app', nlen_app.
  pose proof (full_blocks_hosts _ _ _ _ _ _ HF) as Hrest.
  destruct Hp as (_ & Hlen & Hf & _).
  destruct n as [|n]; cbn in Hn.
  - injection Hn as <-.
    rewrite filter_all.
    2:{ eapply Forall_impl; [|exact Hf]. cbv beta. intros h (_ & _ & _ & Hr). apply N.eqb_eq. symmetry. exact Hr. }
    rewrite filter_none; [rewrite nlen_nil; lia|].
    eapply Forall_impl; [|exact Hrest]. cbv beta. intros h (_ & _ & _ & Hr).
    apply N.eqb_neq. intros E. apply Hp0. rewrite E. exact Hr.
  - rewrite filter_none.
    2:{ eapply Forall_impl; [|exact Hf]. cbv beta. intros h (_ & _ & _ & Hr).
        apply N.eqb_neq. intros E. apply Hp0. rewrite <- Hr, <- E.
        apply in_map. eapply nth_error_In. exact Hn. }
    rewrite nlen_nil, (IH Hnd' n p Hn). lia.
Qed.

Lemma placed_block_ok ttl tick fleet r sd hs qs :
  wf_shard sd -> wf_fleet fleet ->
  length (rg_region r) = length (rg_count r) -> NoDup (rg_region r) ->
  placed ttl tick fleet r sd hs qs ->
  shard_block_ok ttl tick fleet r sd qs.
Proof.
  intros (Hne & Hmnd & Hm0 & Happ) (Hfnd & Hf0) Hlen Hrnd (Hl & -> & blocks & Hhs & HF).
  set (ps := combine (rg_region r) (rg_count r)) in *.
  assert (Hfst : map fst ps = rg_region r) by (apply map_fst_combine; exact Hlen).
  pose proof (full_blocks_hosts _ _ _ _ _ _ HF) as Hhosts. rewrite <- Hhs in Hhosts.
  assert (Hraft : map q_raft (map (fun tm => launch_req sd (sd_members sd) (map h_addr hs) (fst tm) (snd tm))
                                   (combine hs (sd_members sd))) = map h_addr hs).
  { rewrite map_map. transitivity (map h_addr (map fst (combine hs (sd_members sd)))).
    - rewrite map_map. apply map_ext. intros tm. reflexivity.
    - rewrite map_fst_combine by exact Hl. reflexivity. }
  exists hs. rewrite Hraft. split; [reflexivity|]. split.
  { rewrite map_map. transitivity (map snd (combine hs (sd_members sd))).
    - apply map_ext. intros tm. reflexivity.
    - apply map_snd_combine. exact Hl. }
  split.
  { rewrite Hhs. eapply full_blocks_nodup; [exact Hfnd | rewrite Hfst; exact Hrnd | exact HF]. }
  split.
  { eapply Forall_impl; [|exact Hhosts]. cbv beta. intros h (H1 & H2 & H3 & _). auto. }
  split.
  { split.
    - intros i reg cnt Hi Hc. rewrite Hhs.
      assert (Hn : nth_error ps (N.to_nat i) = Some (reg, cnt)) by (apply nth_error_combine; split; assumption).
      apply (full_blocks_quota _ _ _ _ _ _ ltac:(rewrite Hfst; exact Hrnd) HF _ _ Hn).
    - eapply Forall_impl; [|exact Hhosts]. cbv beta. intros h (_ & _ & _ & H). rewrite <- Hfst. exact H. }
  apply Forall_forall. intros q Hq. apply in_map_iff in Hq as ([t m] & <- & Htm). cbn [fst snd].
  pose proof (in_combine_l _ _ _ _ Htm) as Ht. pose proof (in_combine_r _ _ _ _ Htm) as Hm.
  unfold launch_req. cbn [q_type q_shard q_ccid q_members q_rids q_addrs q_join q_restore q_app].
  repeat (split; [reflexivity|]).
  unfold validate_request. cbn [q_type q_rids q_addrs q_raft q_inst q_app].
  assert (Haddr : forall h, In h hs -> nonzero (h_addr h) = true).
  { intros h Hh. rewrite Forall_forall in Hhosts, Hf0. destruct (Hhosts h Hh) as (Hin & _).
    unfold nonzero. apply negb_true_iff, N.eqb_neq. apply Hf0. exact Hin. }
  assert (Hmem : forall x, In x (sd_members sd) -> nonzero x = true).
  { intros x Hx. unfold nonzero. apply negb_true_iff, N.eqb_neq. intros ->. exact (Hm0 Hx). }
  rewrite !andb_true_iff. repeat split.
  - apply N.eqb_eq. unfold nlen. rewrite map_length. lia.
  - apply forallb_forall. exact Hmem.
  - apply forallb_forall. intros a Ha. apply in_map_iff in Ha as (h & <- & Hh). apply Haddr. exact Hh.
  - apply Haddr. exact Ht.
  - apply Hmem. exact Hm.
  - unfold nonzero. apply negb_true_iff, N.eqb_neq. exact Happ.
  - unfold nonzero, nlen. apply negb_true_iff, N.eqb_neq. destruct (sd_members sd); [congruence | cbn; lia].
Qed.

Lemma launch_shards_valid ttl tick fleet r shards : forall result ds qs,
  go_sized shards -> Forall wf_shard shards -> wf_fleet fleet ->
  length (rg_region r) = length (rg_count r) -> NoDup (rg_region r) ->
  launch_shards ttl tick fleet r shards result ds = Plan qs ->
  exists blocks, qs = result ++ concat blocks /\
                 Forall2 (shard_block_ok ttl tick fleet r) shards blocks.
Proof.
  induction shards as [|sd shards IH]; intros result ds qs Hgs Hwf Hfl Hlen Hnd H.
  - cbn in H. injection H as <-. exists []. cbn. rewrite app_nil_r. split; [reflexivity | constructor].
  - rewrite launch_shards_step in H.
    inversion Hgs as [|? ? Hsd Hgs']; subst. inversion Hwf as [|? ? Hwsd Hwf']; subst.
    pose proof (shard_step_spec ttl tick fleet r sd ds Hsd Hlen) as Hs.
    destruct (shard_step ttl tick fleet r sd ds) as [qsd ds'| | |]; try discriminate.
    destruct Hs as (_ & (hs & Hpl) & _).
    destruct (IH _ _ _ Hgs' Hwf' Hfl Hlen Hnd H) as (blocks & -> & HF).
    exists (qsd :: blocks). cbn [concat]. rewrite app_assoc. split; [reflexivity|].
    constructor; [|exact HF]. eapply placed_block_ok; eassumption.
Qed.

Theorem launch_valid : forall ttl tick fleet shards r ds qs,
  go_sized shards -> Forall wf_shard shards -> wf_fleet fleet ->
  launch ttl tick fleet shards (Some r) ds = Plan qs ->
  exists blocks, qs = concat blocks /\ Forall2 (shard_block_ok ttl tick fleet r) shards blocks.
Proof.
  intros ttl tick fleet shards r ds qs Hgs Hwf Hfl H. rewrite launch_unfold in H.
  destruct (negb (nlen (rg_region r) =? nlen (rg_count r))) eqn:E; [discriminate|].
  destruct (has_dup [] (rg_region r)) eqn:Ed; [discriminate|].
  apply has_dup_NoDup in Ed.
  assert (Hlen : length (rg_region r) = length (rg_count r)) by (unfold nlen in E; lia).
  destruct (launch_shards_valid _ _ _ _ _ _ _ _ Hgs Hwf Hfl Hlen Ed H) as (blocks & -> & HF).
  exists blocks. split; [reflexivity | exact HF].
Qed.

(** * Refused exactly when it has to be *)

Lemma placed_not_unplaceable ttl tick fleet r sd hs qs :
  sumN (rg_count r) = nlen (sd_members sd) ->
  placed ttl tick fleet r sd hs qs -> ~ unplaceable ttl tick fleet r sd.
Proof.
  intros Hsum (_ & _ & blocks & _ & HF) [Hne | (i & reg & cnt & Hi & Hc & Hlt)]; [exact (Hne Hsum)|].
  assert (Hn : nth_error (combine (rg_region r) (rg_count r)) (N.to_nat i) = Some (reg, cnt))
    by (apply nth_error_combine; split; assumption).
  destruct (Forall2_nth_l _ _ _ _ _ HF Hn) as (b & _ & Hle & _). cbn [fst snd] in Hle. lia.
Qed.

Lemma launch_shards_refused ttl tick fleet r shards : forall result ds,
  go_sized shards -> length (rg_region r) = length (rg_count r) ->
  launch_shards ttl tick fleet r shards result ds = Refused ->
  exists sd, In sd shards /\ unplaceable ttl tick fleet r sd.
Proof.
  induction shards as [|sd shards IH]; intros result ds Hgs Hlen H; [discriminate|].
  rewrite launch_shards_step in H. inversion Hgs as [|? ? Hsd Hgs']; subst.
  pose proof (shard_step_spec ttl tick fleet r sd ds Hsd Hlen) as Hs.
  destruct (shard_step ttl tick fleet r sd ds) as [qsd ds'| | |]; try discriminate.
  - destruct (IH _ _ Hgs' Hlen H) as (sd' & Hin & Hu). exists sd'. split; [right; exact Hin | exact Hu].
  - exists sd. split; [left; reflexivity | exact Hs].
Qed.

Lemma launch_shards_plan_placeable ttl tick fleet r shards : forall result ds qs,
  go_sized shards -> length (rg_region r) = length (rg_count r) ->
  launch_shards ttl tick fleet r shards result ds = Plan qs ->
  forall sd, In sd shards -> ~ unplaceable ttl tick fleet r sd.
Proof.
  induction shards as [|sd shards IH]; intros result ds qs Hgs Hlen H sd' Hin; [contradiction|].
  rewrite launch_shards_step in H. inversion Hgs as [|? ? Hsd Hgs']; subst.
  pose proof (shard_step_spec ttl tick fleet r sd ds Hsd Hlen) as Hs.
  destruct (shard_step ttl tick fleet r sd ds) as [qsd ds'| | |]; try discriminate.
  destruct Hs as (Hsum & (hs & Hpl) & _).
  destruct Hin as [<- | Hin].
  - eapply placed_not_unplaceable; eassumption.
  - eapply IH; eassumption.
Qed.

Theorem launch_refuse_iff : forall ttl tick fleet shards regs ds,
  go_sized shards ->
  launch ttl tick fleet shards regs ds <> OutOfDraws ->
  (launch ttl tick fleet shards regs ds = Refused <-> must_refuse ttl tick fleet shards regs).
Proof.
  intros ttl tick fleet shards [r|] ds Hgs Hout.
  2:{ rewrite launch_nil. split; [intros _; left; exact I | reflexivity]. }
  rewrite launch_unfold in Hout |- *.
  destruct (negb (nlen (rg_region r) =? nlen (rg_count r))) eqn:E.
  { split; [|reflexivity]. intros _. left. cbn. left. unfold nlen in E. lia. }
  assert (Hlen : length (rg_region r) = length (rg_count r)) by (unfold nlen in E; lia).
  destruct (has_dup [] (rg_region r)) eqn:Ed.
  { split; [|reflexivity]. intros _. left. cbn. right. intros Hnd. apply has_dup_NoDup in Hnd. congruence. }
  apply has_dup_NoDup in Ed.
  split.
  - intros H. right. destruct (launch_shards_refused _ _ _ _ _ _ _ Hgs Hlen H) as (sd & Hin & Hu).
    exists r, sd. auto.
  - intros [Hbad | (r' & sd & Er & Hin & Hu)].
    + cbn in Hbad. destruct Hbad as [Hbad | Hbad]; [exfalso; exact (Hbad Hlen) | exfalso; exact (Hbad Ed)].
    + injection Er as <-.
      destruct (launch_shards ttl tick fleet r shards [] ds) as [qs| | |] eqn:El.
      * exfalso. exact (launch_shards_plan_placeable _ _ _ _ _ _ _ _ Hgs Hlen El sd Hin Hu).
      * reflexivity.
      * exfalso. exact (launch_shards_no_crash _ _ _ _ _ _ _ Hgs Hlen El).
      * exfalso. exact (Hout eq_refl).
Qed.

(** * The draw list: [OutOfDraws] is only ever "the script was too short" *)

Definition ext_pick (e : list N) (p : pick) : pick :=
  match p with PDone sl rest => PDone sl (rest ++ e) | x => x end.
Definition ext_found (e : list N) (p : found) : found :=
  match p with FDone hs rest => FDone hs (rest ++ e) | x => x end.
Definition ext_sel (e : list N) (p : sel) : sel :=
  match p with SDone hs rest => SDone hs (rest ++ e) | x => x end.
Definition ext_step (e : list N) (p : step) : step :=
  match p with StOk qs rest => StOk qs (rest ++ e) | x => x end.

Lemma pick_extend e ds : forall n count selected,
  pick_loop n count selected ds <> POut ->
  pick_loop n count selected (ds ++ e) = ext_pick e (pick_loop n count selected ds).
Proof.
  induction ds as [|d ds IH]; intros n count selected H.
  - rewrite (pick_loop_eq n count selected []) in H |- *. cbn [app].
    rewrite (pick_loop_eq n count selected e).
    destruct (Z.of_nat (length selected) =? count)%Z; [reflexivity | congruence].
  - cbn [app]. rewrite (pick_loop_eq n count selected (d :: ds)) in H |- *.
    rewrite (pick_loop_eq n count selected (d :: ds ++ e)).
    destruct (Z.of_nat (length selected) =? count)%Z; [reflexivity|].
    destruct (n =? 0); [reflexivity|].
    destruct (memN (d mod n) selected); apply IH; exact H.
Qed.

Lemma find_extend e ttl tick sid reg fleet count ds :
  find_suitable ttl tick sid reg fleet count ds <> FOut ->
  find_suitable ttl tick sid reg fleet count (ds ++ e) =
  ext_found e (find_suitable ttl tick sid reg fleet count ds).
Proof.
  unfold find_suitable. cbv zeta.
  set (fl := drummer_region_filter ttl tick sid reg fleet).
  destruct (Z.of_nat (length fl) <? count)%Z; [reflexivity|].
  intros H.
  assert (Hp : pick_loop (nlen fl) count [] ds <> POut).
  { intros E. rewrite E in H. congruence. }
  rewrite (pick_extend e ds _ _ _ Hp).
  destruct (pick_loop (nlen fl) count [] ds) as [sl rest| |]; cbn [ext_pick]; [|reflexivity|congruence].
  destruct (gather fl sl); reflexivity.
Qed.

Lemma select_extend e ttl tick fleet sid counts regs : forall idx selected ds,
  select_regions ttl tick fleet sid counts idx regs selected ds <> SOut ->
  select_regions ttl tick fleet sid counts idx regs selected (ds ++ e) =
  ext_sel e (select_regions ttl tick fleet sid counts idx regs selected ds).
Proof.
  induction regs as [|reg regs IH]; intros idx selected ds H; cbn [select_regions] in H |- *; [reflexivity|].
  destruct (get counts idx) as [c|]; [|reflexivity].
  assert (Hf : find_suitable ttl tick sid reg fleet (to_int c) ds <> FOut).
  { intros E. rewrite E in H. congruence. }
  rewrite (find_extend e _ _ _ _ _ _ _ Hf).
  destruct (find_suitable ttl tick sid reg fleet (to_int c) ds) as [hs rest| |]; cbn [ext_found];
    [|reflexivity|congruence].
  apply IH. exact H.
Qed.

Lemma step_extend e ttl tick fleet r sd ds :
  shard_step ttl tick fleet r sd ds <> StOut ->
  shard_step ttl tick fleet r sd (ds ++ e) = ext_step e (shard_step ttl tick fleet r sd ds).
Proof.
  unfold shard_step.
  destruct (check_counts (nlen (sd_members sd)) (rg_count r)) as [rem|]; [|reflexivity].
  destruct (negb (rem =? 0)); [reflexivity|].
  intros H.
  assert (Hs : select_regions ttl tick fleet (sd_id sd) (rg_count r) 0 (rg_region r) [] ds <> SOut).
  { intros E. rewrite E in H. congruence. }
  rewrite (select_extend e _ _ _ _ _ _ _ _ _ Hs).
  destruct (select_regions ttl tick fleet (sd_id sd) (rg_count r) 0 (rg_region r) [] ds) as [sl rest| |];
    cbn [ext_sel]; [|reflexivity|congruence].
  destruct (nlen sl <? nlen (sd_members sd)); [reflexivity|].
  destruct (addr_list sl 0 (sd_members sd)) as [addrs|]; [|reflexivity].
  destruct (shard_requests sd (sd_members sd) addrs 0 sl); reflexivity.
Qed.

Lemma launch_shards_extend e ttl tick fleet r shards : forall result ds,
  launch_shards ttl tick fleet r shards result ds <> OutOfDraws ->
  launch_shards ttl tick fleet r shards result (ds ++ e) = launch_shards ttl tick fleet r shards result ds.
Proof.
  induction shards as [|sd shards IH]; intros result ds H; [reflexivity|].
  rewrite launch_shards_step in H.
  rewrite (launch_shards_step _ _ _ _ _ _ _ (ds ++ e)), (launch_shards_step _ _ _ _ _ _ _ ds).
  assert (Hs : shard_step ttl tick fleet r sd ds <> StOut).
  { intros E. rewrite E in H. congruence. }
  rewrite (step_extend e _ _ _ _ _ _ Hs).
  destruct (shard_step ttl tick fleet r sd ds) as [qs rest| | |]; cbn [ext_step]; try reflexivity.
  apply IH. exact H.
Qed.

(** more draws never change an outcome that was reached *)
Theorem launch_extend : forall ttl tick fleet shards regs ds e,
  launch ttl tick fleet shards regs ds <> OutOfDraws ->
  launch ttl tick fleet shards regs (ds ++ e) = launch ttl tick fleet shards regs ds.
Proof.
  intros ttl tick fleet shards [r|] ds e H; [|reflexivity].
  rewrite launch_unfold in H.
  rewrite (launch_unfold _ _ _ _ _ (ds ++ e)), (launch_unfold _ _ _ _ _ ds).
  destruct (negb (nlen (rg_region r) =? nlen (rg_count r))); [reflexivity|].
  destruct (has_dup [] (rg_region r)); [reflexivity|].
  apply launch_shards_extend. exact H.
Qed.

(** the selection is set-valued: every ordered choice of [count] distinct candidates is what the loop
    returns for some values of the random source (the indices themselves) *)
Lemma pick_any suf : forall n pre,
  sel_ok n (pre ++ suf) ->
  pick_loop n (Z.of_nat (length (pre ++ suf))) pre suf = PDone (pre ++ suf) [].
Proof.
  induction suf as [|x suf IH]; intros n pre Hok; rewrite pick_loop_eq.
  - rewrite app_nil_r. rewrite Z.eqb_refl. reflexivity.
  - replace (Z.of_nat (length pre) =? Z.of_nat (length (pre ++ x :: suf)))%Z with false
      by (rewrite app_length; cbn [length]; lia).
    destruct Hok as [Hnd Hlt].
    assert (Hx : x < n).
    { rewrite Forall_forall in Hlt. apply Hlt. apply in_or_app. right. left. reflexivity. }
    replace (n =? 0) with false by lia.
    rewrite (N.mod_small x n Hx).
    assert (Hnin : ~ In x pre).
    { apply NoDup_remove_2 in Hnd. intros Hin. apply Hnd. apply in_or_app. left. exact Hin. }
    apply memN_not_In in Hnin. rewrite Hnin.
    specialize (IH n (pre ++ [x])). rewrite <- app_assoc in IH. cbn [app] in IH.
    apply IH. split; assumption.
Qed.

Theorem pick_any_selection : forall n sl,
  NoDup sl -> Forall (fun i => i < n) sl ->
  pick_loop n (Z.of_nat (length sl)) [] sl = PDone sl [].
Proof. intros n sl Hnd Hlt. apply (pick_any sl n []). split; assumption. Qed.

(** pigeonhole: a residue that was not chosen yet *)
Lemma fresh_index n selected :
  sel_ok n selected -> (length selected < N.to_nat n)%nat -> exists x, x < n /\ ~ In x selected.
Proof.
  intros [Hnd Hlt] Hl.
  set (l := map N.of_nat (seq 0 (N.to_nat n))).
  destruct (Forall_Exists_dec (fun x => In x selected) (fun x => in_dec N.eq_dec x selected) l) as [Hall | Hex].
  - exfalso.
    assert (Hndl : NoDup l).
    { subst l. apply FinFun.Injective_map_NoDup; [|apply seq_NoDup]. intros a b. lia. }
    assert (Hincl : incl l selected) by (intros x Hx; rewrite Forall_forall in Hall; exact (Hall x Hx)).
    pose proof (NoDup_incl_length Hndl Hincl) as Hle.
    subst l. rewrite map_length, seq_length in Hle. lia.
  - apply Exists_exists in Hex as (x & Hx & Hnin). exists x. split; [|exact Hnin].
    subst l. apply in_map_iff in Hx as (k & <- & Hk). apply in_seq in Hk. lia.
Qed.

Lemma pick_finish_nil n count : forall (k : nat) selected,
  sel_ok n selected -> (count <= Z.of_N n)%Z ->
  (count - Z.of_nat (length selected))%Z = Z.of_nat k ->
  exists e, pick_loop n count selected e <> POut.
Proof.
  induction k as [|k IH]; intros selected Hok Hc Hk.
  - exists []. rewrite pick_loop_eq. replace (Z.of_nat (length selected) =? count)%Z with true by lia. discriminate.
  - destruct (fresh_index n selected Hok) as (x & Hx & Hnin); [lia|].
    assert (Hok' : sel_ok n (selected ++ [x])).
    { destruct Hok as [Hnd Hlt]. split; [apply NoDup_snoc; assumption|].
      apply Forall_app. split; [exact Hlt | constructor; [exact Hx | constructor]]. }
    destruct (IH (selected ++ [x]) Hok' Hc) as (e & He); [rewrite app_length; cbn; lia|].
    exists (x :: e). rewrite pick_loop_eq.
    replace (Z.of_nat (length selected) =? count)%Z with false by lia.
    replace (n =? 0) with false by lia.
    rewrite (N.mod_small x n Hx).
    apply memN_not_In in Hnin. rewrite Hnin. exact He.
Qed.

Lemma pick_finish ds : forall n count selected,
  sel_ok n selected -> (Z.of_nat (length selected) <= count <= Z.of_N n)%Z ->
  exists e, pick_loop n count selected (ds ++ e) <> POut.
Proof.
  induction ds as [|d ds IH]; intros n count selected Hok Hc.
  - cbn [app]. apply (pick_finish_nil n count (Z.to_nat (count - Z.of_nat (length selected))) selected Hok); lia.
  - destruct (Z.of_nat (length selected) =? count)%Z eqn:E.
    + exists []. rewrite pick_loop_eq, E. discriminate.
    + assert (Hn : n <> 0) by lia.
      destruct (memN (d mod n) selected) eqn:Em.
      * destruct (IH n count selected Hok Hc) as (e & He). exists e.
        cbn [app]. rewrite pick_loop_eq, E. replace (n =? 0) with false by lia. rewrite Em. exact He.
      * assert (Hok' : sel_ok n (selected ++ [d mod n])).
        { destruct Hok as [Hnd Hlt]. split; [apply NoDup_snoc; [exact Hnd | apply memN_not_In; exact Em]|].
          apply Forall_app. split; [exact Hlt | constructor; [apply N.mod_lt; exact Hn | constructor]]. }
        destruct (IH n count (selected ++ [d mod n]) Hok') as (e & He); [rewrite app_length; cbn; lia|].
        exists e. cbn [app]. rewrite pick_loop_eq, E. replace (n =? 0) with false by lia. rewrite Em. exact He.
Qed.

Lemma find_finish ttl tick sid reg fleet c ds :
  exists e, find_suitable ttl tick sid reg fleet (Z.of_N c) (ds ++ e) <> FOut.
Proof.
  unfold find_suitable. cbv zeta.
  set (fl := drummer_region_filter ttl tick sid reg fleet).
  destruct (Z.of_nat (length fl) <? Z.of_N c)%Z eqn:E; [exists []; discriminate|].
  destruct (pick_finish ds (nlen fl) (Z.of_N c) []) as (e & He);
    [split; constructor | unfold nlen; cbn; lia|].
  exists e.
  destruct (pick_loop (nlen fl) (Z.of_N c) [] (ds ++ e)) as [sl rest| |]; [|discriminate|congruence].
  destruct (gather fl sl); discriminate.
Qed.

Lemma select_finish ttl tick fleet sid regs : forall pre cs selected ds,
  length regs = length cs -> Forall (fun c => c < two63) cs ->
  exists e, select_regions ttl tick fleet sid (pre ++ cs) (nlen pre) regs selected (ds ++ e) <> SOut.
Proof.
  induction regs as [|reg regs IH]; intros pre cs selected ds Hlen Hcs.
  - exists []. cbn. discriminate.
  - destruct cs as [|c cs]; [discriminate|]. inversion Hcs as [|? ? Hc Hcs']; subst.
    destruct (find_finish ttl tick sid reg fleet c ds) as (e1 & He1).
    destruct (find_suitable ttl tick sid reg fleet (Z.of_N c) (ds ++ e1)) as [hs rest| |] eqn:Ef; [| |congruence].
    + assert (Hlen' : length regs = length cs) by (cbn in Hlen; lia).
      destruct (IH (pre ++ [c]) cs (selected ++ hs) rest Hlen' Hcs') as (e2 & He2).
      rewrite <- app_assoc in He2. cbn [app] in He2. rewrite nlen_app in He2. change (nlen [c]) with 1 in He2.
      exists (e1 ++ e2). cbn [select_regions]. rewrite get_app_len, to_int_small by exact Hc.
      rewrite app_assoc, (find_extend e2) by (rewrite Ef; discriminate). rewrite Ef. cbn [ext_found]. exact He2.
    + exists e1. cbn [select_regions]. rewrite get_app_len, to_int_small by exact Hc. rewrite Ef. discriminate.
Qed.

Lemma step_finish ttl tick fleet r sd ds :
  nlen (sd_members sd) < two63 -> length (rg_region r) = length (rg_count r) ->
  exists e, shard_step ttl tick fleet r sd (ds ++ e) <> StOut.
Proof.
  intros Hsz Hlen. unfold shard_step.
  pose proof two63_lt_two64 as H6364.
  rewrite check_counts_char by lia.
  destruct (sumN (rg_count r) <=? nlen (sd_members sd)) eqn:Esum; [|exists []; discriminate].
  destruct (negb (nlen (sd_members sd) - sumN (rg_count r) =? 0)) eqn:Erem; [exists []; discriminate|].
  assert (Hcs : Forall (fun c => c < two63) (rg_count r)).
  { eapply Forall_impl; [|apply sumN_le_all]. cbv beta. intros c Hc. lia. }
  destruct (select_finish ttl tick fleet (sd_id sd) (rg_region r) [] (rg_count r) [] ds Hlen Hcs) as (e & He).
  cbn [app] in He. change (nlen []) with 0 in He.
  exists e.
  destruct (select_regions ttl tick fleet (sd_id sd) (rg_count r) 0 (rg_region r) [] (ds ++ e)) as [sl rest| |];
    [|discriminate|congruence].
  destruct (nlen sl <? nlen (sd_members sd)); [discriminate|].
  destruct (addr_list sl 0 (sd_members sd)) as [addrs|]; [|discriminate].
  destruct (shard_requests sd (sd_members sd) addrs 0 sl); discriminate.
Qed.

Lemma launch_shards_finish ttl tick fleet r shards : forall result ds,
  go_sized shards -> length (rg_region r) = length (rg_count r) ->
  exists e, launch_shards ttl tick fleet r shards result (ds ++ e) <> OutOfDraws.
Proof.
  induction shards as [|sd shards IH]; intros result ds Hgs Hlen.
  - exists []. cbn. discriminate.
  - inversion Hgs as [|? ? Hsd Hgs']; subst.
    destruct (step_finish ttl tick fleet r sd ds Hsd Hlen) as (e1 & He1).
    destruct (shard_step ttl tick fleet r sd (ds ++ e1)) as [qs rest| | |] eqn:Es; [| | |congruence].
    + destruct (IH (result ++ qs) rest Hgs' Hlen) as (e2 & He2).
      exists (e1 ++ e2). rewrite launch_shards_step, app_assoc, (step_extend e2) by (rewrite Es; discriminate).
      rewrite Es. cbn [ext_step]. exact He2.
    + exists e1. rewrite launch_shards_step, Es. discriminate.
    + exists e1. rewrite launch_shards_step, Es. discriminate.
Qed.

(** every draw list can be continued so that the launch reaches a plan or a refusal: the sampling loop is
    never stuck (its termination under a fair source is not modelled) *)
Theorem launch_can_finish : forall ttl tick fleet shards regs ds,
  go_sized shards -> exists e, launch ttl tick fleet shards regs (ds ++ e) <> OutOfDraws.
Proof.
  intros ttl tick fleet shards [r|] ds Hgs; [|exists []; rewrite launch_nil; discriminate].
  destruct (negb (nlen (rg_region r) =? nlen (rg_count r))) eqn:E.
  { exists []. rewrite launch_unfold, E. discriminate. }
  destruct (has_dup [] (rg_region r)) eqn:Ed.
  { exists []. rewrite launch_unfold, E, Ed. discriminate. }
  destruct (launch_shards_finish ttl tick fleet r shards [] ds Hgs) as (e & He); [unfold nlen in E; lia|].
  exists e. rewrite launch_unfold, E, Ed. exact He.
Qed.

(** plan exactly when nothing forces a refusal *)
Theorem launch_plan_iff : forall ttl tick fleet shards regs ds,
  go_sized shards ->
  launch ttl tick fleet shards regs ds <> OutOfDraws ->
  ((exists qs, launch ttl tick fleet shards regs ds = Plan qs) <-> ~ must_refuse ttl tick fleet shards regs).
Proof.
  intros ttl tick fleet shards regs ds Hgs Hout.
  pose proof (launch_refuse_iff ttl tick fleet shards regs ds Hgs Hout) as Hiff.
  pose proof (launch_no_crash ttl tick fleet shards regs ds Hgs) as Hnc.
  destruct (launch ttl tick fleet shards regs ds) as [qs| | |] eqn:El.
  - split; [|eauto]. intros _ Hm. apply Hiff in Hm. discriminate.
  - split; [intros (qs & H); discriminate|]. intros Hn. exfalso. apply Hn. apply Hiff. reflexivity.
  - congruence.
  - congruence.
Qed.

(** * What "live" means *)

Theorem host_live_past : forall ttl tick h,
  h_tick h <= tick -> tick < two64 -> (host_live ttl tick h <-> tick - h_tick h < ttl).
Proof.
  intros ttl tick h Hle Ht. unfold host_live. rewrite usub64_small by assumption. reflexivity.
Qed.

(** a host whose last report carries a tick AFTER the scheduler's tick is not live (the unsigned
    subtraction wraps) unless ttl is astronomically large *)
Theorem host_live_future : forall ttl tick h,
  tick < h_tick h -> h_tick h < two64 -> ttl <= two63 -> h_tick h - tick <= two63 ->
  ~ host_live ttl tick h.
Proof.
  intros ttl tick h Hlt Hh Httl Hd. unfold host_live, usub64.
  pose proof two64_pos as Hp.
  assert (H2 : two64 = 2 * two63) by reflexivity.
  rewrite (N.mod_small tick two64) by lia.
  rewrite (N.mod_small (h_tick h) two64) by lia.
  rewrite (N.mod_small (tick + two64 - h_tick h) two64) by lia.
  lia.
Qed.

(** * The executable "allowed outcome" test of LaunchRun.v is the specification *)

Lemma nl_eqb_eq a : forall b, nl_eqb a b = true -> a = b.
Proof.
  unfold nl_eqb. induction a as [|x a IH]; intros [|y b] H; cbn in H; try discriminate; [reflexivity|].
  apply andb_true_iff in H as [H1 H2]. apply N.eqb_eq in H1. subst. f_equal. apply IH. exact H2.
Qed.

Lemma nodupb_NoDup l : nodupb l = true -> NoDup l.
Proof.
  induction l as [|x l IH]; cbn [nodupb]; intros H; [constructor|].
  apply andb_true_iff in H as [H1 H2]. constructor; [|apply IH; exact H2].
  apply negb_true_iff in H1. apply memN_not_In. exact H1.
Qed.

Lemma lookup_hosts_spec fleet addrs : forall hs,
  lookup_hosts fleet addrs = Some hs -> map h_addr hs = addrs /\ Forall (fun h => In h fleet) hs.
Proof.
  induction addrs as [|a addrs IH]; cbn [lookup_hosts]; intros hs H.
  - injection H as <-. split; [reflexivity | constructor].
  - destruct (List.find (fun h => h_addr h =? a) fleet) as [h|] eqn:Ef; [|discriminate].
    destruct (lookup_hosts fleet addrs) as [hs'|]; [|discriminate].
    injection H as <-. destruct (IH hs' eq_refl) as [H1 H2].
    apply find_some in Ef as [Hin Ea]. apply N.eqb_eq in Ea.
    split; [cbn; congruence | constructor; assumption].
Qed.

Lemma unplaceableb_spec ttl tick fleet r sd :
  unplaceableb ttl tick fleet r sd = true <-> unplaceable ttl tick fleet r sd.
Proof.
  unfold unplaceableb, unplaceable. rewrite orb_true_iff, negb_true_iff, N.eqb_neq, existsb_exists.
  split; (intros [H | H]; [left; exact H | right]).
  - destruct H as ([reg cnt] & Hin & Hlt). cbn [fst snd] in Hlt.
    apply In_nth_error in Hin as (n & Hn). apply nth_error_combine in Hn as [H1 H2].
    exists (N.of_nat n), reg, cnt. rewrite !get_nat. repeat split; [exact H1 | exact H2 | lia].
  - destruct H as (i & reg & cnt & H1 & H2 & Hlt). exists (reg, cnt). split; [|cbn [fst snd]; lia].
    eapply nth_error_In. apply nth_error_combine. split; [exact H1 | exact H2].
Qed.

Theorem must_refuseb_spec : forall ttl tick fleet shards regs,
  must_refuseb ttl tick fleet shards regs = true <-> must_refuse ttl tick fleet shards regs.
Proof.
  intros ttl tick fleet shards [r|]; unfold must_refuseb, must_refuse; cbn [bad_spec].
  2:{ split; [intros _; left; exact I | reflexivity]. }
  rewrite !orb_true_iff, negb_true_iff, N.eqb_neq, existsb_exists. split.
  - intros [[H | H] | (sd & Hin & Hu)].
    + left. left. unfold nlen in H. lia.
    + left. right. intros Hnd. apply has_dup_NoDup in Hnd. congruence.
    + right. exists r, sd. split; [reflexivity|]. split; [exact Hin|]. apply unplaceableb_spec. exact Hu.
  - intros [[H | H] | (r' & sd & Er & Hin & Hu)].
    + left. left. unfold nlen. lia.
    + left. right. destruct (has_dup [] (rg_region r)) eqn:E; [reflexivity|].
      exfalso. apply H. apply has_dup_NoDup. exact E.
    + injection Er as <-. right. exists sd. split; [exact Hin|]. apply unplaceableb_spec. exact Hu.
Qed.

Lemma block_okb_sound ttl tick fleet r sd qs :
  block_okb ttl tick fleet r sd qs = true -> shard_block_ok ttl tick fleet r sd qs.
Proof.
  unfold block_okb, block_coreb. cbv zeta. intros H. apply andb_true_iff in H as [H Hval].
  destruct (lookup_hosts fleet (map q_raft qs)) as [hs|] eqn:El; [|discriminate].
  destruct (lookup_hosts_spec _ _ _ El) as [Hmap Hin].
  rewrite !andb_true_iff in H. destruct H as ((((H1 & H2) & H3) & H4) & H5).
  exists hs. split; [exact Hmap|]. split; [apply nl_eqb_eq; exact H1|]. split; [apply nodupb_NoDup; exact H2|].
  split.
  { rewrite forallb_forall in H3. rewrite Forall_forall in Hin |- *. intros h Hh.
    specialize (H3 h Hh). apply andb_true_iff in H3 as [Hl Hs].
    split; [exact (Hin h Hh)|]. split; [apply is_live_spec; exact Hl|].
    apply negb_true_iff in Hs. unfold hosts_shard in Hs. apply bool_decide_eq_false in Hs. exact Hs. }
  split.
  { unfold quota_okb in H4. apply andb_true_iff in H4 as [Hq Hr]. split.
    - intros i reg cnt Hi Hc. rewrite forallb_forall in Hq.
      assert (Hp : In (reg, cnt) (combine (rg_region r) (rg_count r))).
      { eapply nth_error_In. apply nth_error_combine. split; [exact Hi | exact Hc]. }
      specialize (Hq _ Hp). cbn [fst snd] in Hq. apply N.eqb_eq in Hq. exact Hq.
    - rewrite forallb_forall in Hr. apply Forall_forall. intros h Hh. apply memN_In. exact (Hr h Hh). }
  rewrite forallb_forall in H5, Hval. apply Forall_forall. intros q Hq.
  specialize (H5 q Hq). specialize (Hval q Hq). unfold req_coreb in H5.
  rewrite !andb_true_iff in H5.
  destruct H5 as ((((((((Ht & Hs) & Hc) & Hm) & Hr) & Ha) & Hj) & Hre) & Hap).
  apply N.eqb_eq in Hs, Hc, Hap. apply nl_eqb_eq in Hm, Hr, Ha. apply negb_true_iff in Hj, Hre.
  repeat split; try assumption.
  destruct (q_type q); cbn in Ht; congruence.
Qed.

(** an observed plan that passes the strict executable test satisfies the conclusion of C08_valid *)
Theorem blocks_okb_sound : forall ttl tick fleet r shards qs,
  blocks_okb true ttl tick fleet r shards qs = true ->
  exists blocks, qs = concat blocks /\ Forall2 (shard_block_ok ttl tick fleet r) shards blocks.
Proof.
  intros ttl tick fleet r shards. induction shards as [|sd shards IH]; intros qs H; cbn [blocks_okb] in H.
  - destruct qs; [|discriminate]. exists []. split; [reflexivity | constructor].
  - rewrite !andb_true_iff in H. destruct H as ((Hc & Hv) & Hrest). cbn [orb negb] in Hv.
    destruct (IH _ Hrest) as (blocks & Eb & HF).
    exists (firstn (length (sd_members sd)) qs :: blocks). split.
    + cbn [concat]. rewrite <- Eb. symmetry. apply firstn_skipn.
    + constructor; [|exact HF]. apply block_okb_sound. unfold block_okb. rewrite Hc. exact Hv.
Qed.

(** * validateRegions: what SetRegions accepts never trips the specification-wide guards of launch *)

Theorem validate_regions_ok : forall regs,
  validate_regions regs = true ->
  exists r, regs = Some r /\ rg_region r <> [] /\ length (rg_region r) = length (rg_count r) /\
            NoDup (rg_region r) /\ ~ In 0 (rg_region r).
Proof.
  intros [r|] H; [|discriminate]. cbn [validate_regions] in H.
  rewrite !andb_true_iff in H. destruct H as (((Hne & Hlen) & Hnz) & Hnd).
  exists r. split; [reflexivity|].
  apply negb_true_iff, N.eqb_neq in Hne. apply N.eqb_eq in Hlen.
  apply negb_true_iff, has_dup_NoDup in Hnd.
  split; [intros E; rewrite E in Hne; apply Hne; reflexivity|].
  split; [unfold nlen in Hlen; lia|]. split; [exact Hnd|].
  intros Hin. rewrite forallb_forall in Hnz. specialize (Hnz 0 Hin). discriminate.
Qed.

Theorem validated_refuse_iff : forall ttl tick fleet shards r ds,
  validate_regions (Some r) = true -> go_sized shards ->
  launch ttl tick fleet shards (Some r) ds <> OutOfDraws ->
  (launch ttl tick fleet shards (Some r) ds = Refused <->
   exists sd, In sd shards /\ unplaceable ttl tick fleet r sd).
Proof.
  intros ttl tick fleet shards r ds Hv Hgs Hout.
  destruct (validate_regions_ok _ Hv) as (r' & Er & _ & Hlen & Hnd & _). injection Er as <-.
  rewrite (launch_refuse_iff _ _ _ _ _ _ Hgs Hout). unfold must_refuse. cbn [bad_spec]. split.
  - intros [[H | H] | (r' & sd & Er & Hin & Hu)]; [exfalso; exact (H Hlen) | exfalso; exact (H Hnd)|].
    injection Er as <-. exists sd. auto.
  - intros (sd & Hin & Hu). right. exists r, sd. auto.
Qed.
