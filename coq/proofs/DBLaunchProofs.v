(** Proofs for C09 — launch accepted once; a missed launch deadline fail-stops.
    Everything is about [db_step] / [run_from] / [db_query] of theories/DB.v, DBRun.v,
    for ALL parameters, states, commands and command lists (no bound). *)
From Coq Require Import ZifyN ZifyNat ZifyBool Lia.
From stdpp Require Import gmap list numbers.
From Drummer.Model Require Import DB DBRun.
From Drummer.Proofs Require Import DBProofs.
Local Open Scope N_scope.
Arguments kv_update : simpl never.

(** * Vocabulary *)
(* a batch whose requests are all launch requests (at least one) *)
Definition pure_launch (qs : list request) : Prop := is_launch_batch qs /\ ~ mixed_batch qs.

(* the REQUESTS command [qs] applied in run state [s] returns a non-zero count *)
Definition accepted (P : params) (s : rstate) (qs : list request) : Prop :=
  exists v, (rstep P s (CRequests qs)).2 = Some v /\ v <> 0.

(* a deadline is only ever pending together with the launched flag *)
Definition launch_inv (d : db) : Prop := d_deadline d <> 0 -> is_Some (d_kv d !! key_launched).

(* a replica that has not fail-stopped has not lived past a pending deadline *)
Definition deadline_respected (d : db) : Prop :=
  d_failed d = false -> d_deadline d <> 0 -> d_tick d <= d_deadline d.

(* the result values of a command list (None = panic / process gone) *)
Fixpoint results_from (P : params) (s : rstate) (cs : list cmd) : list (option N) :=
  match cs with
  | [] => []
  | c :: cs' => (rstep P s c).2 :: results_from P (rstep P s c).1 cs'
  end.

(* mailboxes never hold launch requests together with other kinds *)
Definition unmixed (l : list request) : Prop :=
  Forall (λ q, is_launch_req q = true) l \/ Forall (λ q, is_launch_req q = false) l.
Definition mailboxes_unmixed (d : db) : Prop :=
  (forall a l, d_requests d !! a = Some l -> unmixed l) /\
  (forall a l, d_outgoing d !! a = Some l -> unmixed l).

(** * Small facts *)
Lemma is_launched_true d : is_launched d = true <-> is_Some (d_kv d !! key_launched).
Proof. unfold is_launched. apply bool_decide_eq_true. Qed.

Lemma is_launched_false d : is_launched d = false <-> d_kv d !! key_launched = None.
Proof.
  unfold is_launched. rewrite bool_decide_eq_false. split.
  - intros H. destruct (d_kv d !! key_launched) eqn:E; [exfalso; apply H; by eexists|done].
  - intros -> [x Hx]. discriminate.
Qed.

Lemma all_launched_spec d :
  all_launched d = true <->
  forall sid sd, d_shards d !! sid = Some sd ->
    exists c, d_view d !! sid = Some c /\ forall rid n, s_reps c !! rid = Some n -> 0 < r_tick n.
Proof.
  unfold all_launched. rewrite bool_decide_eq_true. unfold map_Forall. split.
  - intros H sid sd Hs. specialize (H sid sd Hs).
    destruct (d_view d !! sid) as [c|]; cbn in H; [|discriminate].
    exists c. split; [done|]. unfold shard_launched in H. apply bool_decide_eq_true in H. exact H.
  - intros H sid sd Hs. destruct (H sid sd Hs) as (c & -> & Hc). cbn.
    unfold shard_launched. apply bool_decide_eq_true. exact Hc.
Qed.

Lemma next_failed P d c : d_failed d = true -> next P d c = Some d.
Proof. intros H. unfold next. rewrite (step_failed P d c H). reflexivity. Qed.

Lemma run_failed P cs d : d_failed d = true -> run_from P (Live d) cs = Live d.
Proof.
  intros H. induction cs as [|c cs IH]; [done|].
  rewrite run_from_cons, rstep_live, (next_failed P d c H). exact IH.
Qed.

Lemma run_live_split P cs1 cs2 d d' :
  run_from P (Live d) (cs1 ++ cs2) = Live d' ->
  exists dm, run_from P (Live d) cs1 = Live dm /\ run_from P (Live dm) cs2 = Live d'.
Proof.
  rewrite run_from_app. destruct (run_from P (Live d) cs1) as [dm|] eqn:E.
  - intros H. by exists dm.
  - rewrite run_from_dead. discriminate.
Qed.

Lemma run_live_cons P c cs d d' :
  run_from P (Live d) (c :: cs) = Live d' ->
  exists dm, next P d c = Some dm /\ run_from P (Live dm) cs = Live d'.
Proof.
  rewrite run_from_cons, rstep_live. destruct (next P d c) as [dm|].
  - intros H. by exists dm.
  - rewrite run_from_dead. discriminate.
Qed.

(** * on_updated_shard_info / pickup frames *)
Lemma pickup_frame d a :
  d_tick (pickup d a) = d_tick d /\ d_deadline (pickup d a) = d_deadline d /\ d_failed (pickup d a) = d_failed d /\
  d_shards (pickup d a) = d_shards d /\ d_kv (pickup d a) = d_kv d /\ d_view (pickup d a) = d_view d.
Proof. unfold pickup. destruct (d_requests d !! a); repeat split; reflexivity. Qed.

Lemma on_updated_spec x :
  d_deadline (on_updated_shard_info x) = (if (0 <? d_deadline x) && all_launched x then 0 else d_deadline x) /\
  d_tick (on_updated_shard_info x) = d_tick x /\ d_failed (on_updated_shard_info x) = d_failed x /\
  d_shards (on_updated_shard_info x) = d_shards x /\ d_kv (on_updated_shard_info x) = d_kv x /\
  d_view (on_updated_shard_info x) = d_view x /\ d_requests (on_updated_shard_info x) = d_requests x /\
  d_outgoing (on_updated_shard_info x) = d_outgoing x.
Proof. unfold on_updated_shard_info. destruct ((0 <? d_deadline x) && all_launched x); repeat split; reflexivity. Qed.

Lemma all_launched_ext a b : d_shards a = d_shards b -> d_view a = d_view b -> all_launched a = all_launched b.
Proof. intros H1 H2. unfold all_launched. rewrite H1, H2. reflexivity. Qed.

Lemma report_result_frame d r view' kill' :
  let d' := report_result d r view' kill' in
  d_tick d' = d_tick d /\ d_failed d' = d_failed d /\ d_shards d' = d_shards d /\ d_kv d' = d_kv d /\
  d_view d' = view' /\
  d_deadline d' = (if (0 <? d_deadline d) && all_launched d' then 0 else d_deadline d).
Proof.
  unfold report_result.
  set (d3 := set_hosts _ _). set (x := pickup d3 (rp_addr r)). cbn zeta.
  destruct (on_updated_spec x) as (Hd & Ht & Hf & Hs & Hk & Hv & _).
  destruct (pickup_frame d3 (rp_addr r)) as (Pt & Pd & Pf & Ps & Pk & Pv). fold x in Pt, Pd, Pf, Ps, Pk, Pv.
  rewrite Ht, Hf, Hs, Hk, Hv, Hd, Pt, Pd, Pf, Ps, Pk, Pv.
  rewrite (all_launched_ext (on_updated_shard_info x) x Hs Hv).
  repeat split; reflexivity.
Qed.

(** * One step: what happens to logical time, the deadline, the latch and the flag *)
Lemma launch_result_fields P d qs :
  d_tick (launch_result P d qs) = d_tick d /\ d_failed (launch_result P d qs) = d_failed d /\
  d_deadline (launch_result P d qs) = d_tick d + p_ldt P * p_step P /\
  d_kv (launch_result P d qs) = <[key_launched := launched_rec]> (d_kv d) /\
  d_shards (launch_result P d qs) = d_shards d /\ d_view (launch_result P d qs) = d_view d.
Proof. repeat split; reflexivity. Qed.

Lemma step_tdf P d c d' :
  next P d c = Some d' -> d_failed d = false ->
  match c with
  | CTick => d' = tick_result P d
  | CReport r =>
      d_tick d' = d_tick d /\ d_failed d' = false /\ d_kv d' = d_kv d /\ d_shards d' = d_shards d /\
      d_deadline d' = (if (0 <? d_deadline d) && all_launched d' then 0 else d_deadline d)
  | CRequests qs =>
      d_tick d' = d_tick d /\ d_failed d' = false /\
      ((pure_launch qs /\ d_kv d !! key_launched = None /\ d' = launch_result P d qs) \/
       (d_deadline d' = d_deadline d /\ d_kv d' = d_kv d /\ ~ mixed_batch qs /\ (is_launch_batch qs -> d' = d)))
  | _ => d_tick d' = d_tick d /\ d_failed d' = false /\ d_deadline d' = d_deadline d
  end.
Proof.
  intros Hn Hf. apply next_cases in Hn as [[Hf' _]|[_ Hc]]; [congruence|].
  destruct c as [|kv|t sd|r|qs|].
  - exact Hc.
  - destruct Hc as [v Hc]. apply kv_update_frame in Hc as (Ht & Hd & Hfl & _). rewrite Ht, Hd, Hfl. done.
  - destruct Hc as [v Hc].
    apply try_create_shard_spec in Hc as (_ & _ & _ & [(_ & _ & ->)|[(_ & _ & _ & ->)|(_ & _ & _ & ->)]]); done.
  - destruct Hc as (view' & kill' & _ & ->).
    destruct (report_result_frame d (stamp d r) view' kill') as (Ht & Hfl & Hs & Hk & _ & Hd).
    rewrite Ht, Hfl, Hs, Hk. repeat split; first [done|exact Hd].
  - destruct Hc as [v Hc].
    destruct (requests_cases P d qs) as [[_ E]|[Hnm [(Hl & _ & E)|[(Hl & Hnone & E)|(Hnl & E)]]]];
      rewrite E in Hc; try discriminate; injection Hc as <- _.
    + repeat split; try done. right. repeat split; done.
    + repeat split; try done. left. repeat split; done.
    + repeat split; try done. right. repeat split; first [done|intros; contradiction].
  - done.
Qed.

Lemma tick_result_fields P d :
  d_tick (tick_result P d) = d_tick d + p_step P /\ d_deadline (tick_result P d) = d_deadline d /\
  d_kv (tick_result P d) = d_kv d /\ d_shards (tick_result P d) = d_shards d /\ d_view (tick_result P d) = d_view d /\
  d_failed (tick_result P d) = (d_failed d || ((0 <? d_deadline d) && (d_deadline d <? d_tick d + p_step P))).
Proof.
  unfold tick_result. cbn [set_tick d_tick d_deadline].
  destruct ((0 <? d_deadline d) && (d_deadline d <? d_tick d + p_step P)); cbn;
    repeat split; try reflexivity. by rewrite orb_true_r. by rewrite orb_false_r.
Qed.

(** * C09_no_mix *)
Lemma no_mix_step P d qs :
  mixed_batch qs -> db_step P d (CRequests qs) = if d_failed d then SPanic d else SDead.
Proof.
  intros Hm. unfold db_step. destruct (d_failed d); [reflexivity|].
  destruct (requests_cases P d qs) as [[_ E]|[Hnm _]]; [exact E|contradiction].
Qed.

Lemma no_mix_run P d0 cs1 qs cs2 d' :
  mixed_batch qs -> run_from P (Live d0) (cs1 ++ CRequests qs :: cs2) = Live d' ->
  run_from P (Live d0) cs1 = Live d' /\ d_failed d' = true.
Proof.
  intros Hm Hrun. apply run_live_split in Hrun as (d & H1 & H2).
  apply run_live_cons in H2 as (dm & Hn & H2).
  unfold next in Hn. rewrite (no_mix_step P d qs Hm) in Hn.
  destruct (d_failed d) eqn:Hf; [|discriminate]. injection Hn as <-.
  rewrite (run_failed P cs2 d Hf) in H2. injection H2 as <-. done.
Qed.

(* the stored side: filters of an unmixed batch are unmixed *)
Lemma filter_length_all {A} (Q : A -> Prop) `{!forall x, Decision (Q x)} (l : list A) :
  length (filter Q l) = length l -> Forall Q l.
Proof.
  induction l as [|x l IH]; [constructor|]. rewrite filter_cons. destruct (decide (Q x)) as [Hq|Hq]; cbn.
  - intros [= Hlen]. constructor; auto.
  - intros Hlen. pose proof (filter_length Q l) as Hle. lia.
Qed.

Lemma filter_length_none {A} (Q : A -> Prop) `{!forall x, Decision (Q x)} (l : list A) :
  length (filter Q l) = 0%nat -> Forall (λ x, ~ Q x) l.
Proof.
  induction l as [|x l IH]; [constructor|]. rewrite filter_cons. destruct (decide (Q x)) as [Hq|Hq]; cbn.
  - discriminate.
  - intros Hlen. constructor; auto.
Qed.

Lemma not_mixed_unmixed qs : ~ mixed_batch qs -> unmixed qs.
Proof.
  unfold mixed_batch, launch_count, unmixed. intros H.
  destruct (decide (0 < length (filter (λ q, is_launch_req q = true) qs))%nat) as [Hpos|Hz].
  - left. apply (filter_length_all (λ q, is_launch_req q = true)). destruct (decide (length (filter (λ q, is_launch_req q = true) qs) = length qs)); [done|].
    exfalso. apply H. split; done.
  - right. assert (Hz' : length (filter (λ q, is_launch_req q = true) qs) = 0%nat) by lia.
    apply (filter_length_none (λ q, is_launch_req q = true)) in Hz'. eapply List.Forall_impl; [|exact Hz']. cbn. intros q Hq.
    destruct (is_launch_req q); [exfalso; by apply Hq|done].
Qed.

Lemma Forall_filter_keep {A} (Q R : A -> Prop) `{!forall x, Decision (R x)} (l : list A) :
  Forall Q l -> Forall Q (filter R l).
Proof.
  induction 1 as [|x l Hx Hl IH]; [constructor|]. rewrite filter_cons. destruct (decide (R x)); [constructor|]; done.
Qed.

Lemma unmixed_filter (R : request -> Prop) `{!forall x, Decision (R x)} qs : unmixed qs -> unmixed (filter R qs).
Proof. intros [Hu|Hu]; [left|right]; by apply Forall_filter_keep. Qed.

Lemma put_requests_lookup_gen (qs : list request) (addrs : list N) (m : gmap N (list request)) a l :
  foldl (λ m a, <[a := filter (λ q, q_raft q = a) qs]> m) m addrs !! a = Some l ->
  m !! a = Some l \/ l = filter (λ q, q_raft q = a) qs.
Proof.
  revert m. induction addrs as [|b addrs IH]; intros m; cbn; [by left|].
  intros H. apply IH in H as [H|H]; [|by right].
  destruct (decide (b = a)) as [->|Hne].
  - rewrite lookup_insert in H. injection H as <-. by right.
  - rewrite lookup_insert_ne in H by done. by left.
Qed.

Lemma put_requests_lookup m qs a l :
  put_requests m qs !! a = Some l -> m !! a = Some l \/ l = filter (λ q, q_raft q = a) qs.
Proof. unfold put_requests. apply put_requests_lookup_gen. Qed.

Lemma put_requests_unmixed m qs :
  ~ mixed_batch qs -> (forall a l, m !! a = Some l -> unmixed l) ->
  forall a l, put_requests m qs !! a = Some l -> unmixed l.
Proof.
  intros Hnm Hm a l H. apply put_requests_lookup in H as [H| ->]; [by eapply Hm|].
  apply unmixed_filter. by apply not_mixed_unmixed.
Qed.

Lemma pickup_unmixed x a : mailboxes_unmixed x -> mailboxes_unmixed (pickup x a).
Proof.
  intros [Hr Ho]. unfold pickup. destruct (d_requests x !! a) as [qs0|] eqn:E0; [|by split].
  split; intros b l Hb; cbn [set_outgoing set_requests d_requests d_outgoing] in Hb.
  - apply lookup_delete_Some in Hb as [_ Hb]. eauto.
  - apply lookup_insert_Some in Hb as [[_ <-]|[_ Hb]]; eauto.
Qed.

Lemma on_updated_unmixed x : mailboxes_unmixed x -> mailboxes_unmixed (on_updated_shard_info x).
Proof.
  intros [Hr Ho]. destruct (on_updated_spec x) as (_ & _ & _ & _ & _ & _ & E1 & E2).
  split; intros b l; rewrite ?E1, ?E2; eauto.
Qed.

Lemma step_unmixed P d c d' : next P d c = Some d' -> mailboxes_unmixed d -> mailboxes_unmixed d'.
Proof.
  intros Hn [Hr Ho]. apply next_cases in Hn as [[_ ->]|[Hf Hc]]; [done|].
  destruct c as [|kv|t sd|r|qs|].
  - subst d'. unfold tick_result. destruct (_ && _); split; assumption.
  - destruct Hc as [v Hc]. apply kv_update_frame in Hc as (_ & _ & _ & _ & _ & _ & _ & _ & E1 & E2).
    split; intros a l; rewrite ?E1, ?E2; eauto.
  - destruct Hc as [v Hc].
    apply try_create_shard_spec in Hc as (_ & _ & _ & [(_ & _ & ->)|[(_ & _ & _ & ->)|(_ & _ & _ & ->)]]); split; assumption.
  - destruct Hc as (view' & kill' & _ & ->). unfold report_result.
    set (d3 := set_hosts _ _).
    assert (H3 : mailboxes_unmixed d3).
    { split; intros b l Hb.
      - change (d_requests d3) with (d_requests d) in Hb. eauto.
      - change (d_outgoing d3) with (delete (rp_addr (stamp d r)) (d_outgoing d)) in Hb.
        apply lookup_delete_Some in Hb as [_ Hb]. eauto. }
    apply on_updated_unmixed, pickup_unmixed, H3.
  - destruct Hc as [v Hc].
    destruct (requests_cases P d qs) as [[_ E]|[Hnm [(Hl & _ & E)|[(Hl & Hnone & E)|(Hnl & E)]]]];
      rewrite E in Hc; try discriminate; injection Hc as <- _.
    + split; assumption.
    + split; [|exact Ho]. apply (put_requests_unmixed _ _ Hnm Hr).
    + split; [|exact Ho]. apply (put_requests_unmixed _ _ Hnm Hr).
  - done.
Qed.

Lemma init_unmixed : mailboxes_unmixed db_init.
Proof. split; intros a l H; cbn in H; rewrite lookup_empty in H; discriminate. Qed.

Lemma run_unmixed P cs d d' : run_from P (Live d) cs = Live d' -> mailboxes_unmixed d -> mailboxes_unmixed d'.
Proof.
  intros Hrun. apply (run_live_ind P (λ a b, mailboxes_unmixed a -> mailboxes_unmixed b)) with (cs := cs); auto.
  intros a c b Hs. apply (step_unmixed P a c b Hs).
Qed.

Lemma reachable_unmixed P cs d : run P cs = Live d -> mailboxes_unmixed d.
Proof. intros H. eapply run_unmixed; [exact H|apply init_unmixed]. Qed.

(** * C09_deadline_set *)
Lemma accept_launch P d qs :
  d_failed d = false -> pure_launch qs -> d_kv d !! key_launched = None ->
  db_step P d (CRequests qs) = SOk (launch_result P d qs) (N.of_nat (length qs)) /\ (0 < length qs)%nat.
Proof.
  intros Hf [Hl Hnm] Hnone. unfold db_step. rewrite Hf. split.
  - destruct (requests_cases P d qs) as [[Hm _]|[_ [(_ & Hld & _)|[(_ & _ & E)|(Hnl & _)]]]]; try contradiction; [|exact E].
    apply is_launched_true in Hld. rewrite Hnone in Hld. by destruct Hld.
  - unfold is_launch_batch, launch_count in Hl. pose proof (filter_length (λ q, is_launch_req q = true) qs). lia.
Qed.

Lemma deadline_set P d qs d' v :
  db_step P d (CRequests qs) = SOk d' v -> is_launch_batch qs -> v <> 0 ->
  d_failed d = false /\ ~ mixed_batch qs /\ d_kv d !! key_launched = None /\
  v = N.of_nat (length qs) /\ d' = launch_result P d qs /\
  d_deadline d' = d_tick d + p_ldt P * p_step P /\ d_tick d' = d_tick d /\
  d_kv d' = <[key_launched := launched_rec]> (d_kv d) /\
  d_kv d' !! key_launched = Some launched_rec /\ kv_fin launched_rec = true /\ kv_val launched_rec = val_true.
Proof.
  intros Hs Hl Hv. unfold db_step in Hs. destruct (d_failed d) eqn:Hf; [discriminate|].
  destruct (requests_cases P d qs) as [[_ E]|[Hnm [(_ & _ & E)|[(_ & Hnone & E)|(Hnl & _)]]]];
    try contradiction; rewrite E in Hs; try discriminate; injection Hs as <- <-; [done|].
  repeat split; try done. cbn. apply lookup_insert.
Qed.

(** * C09_once *)
Lemma accepted_inv P s qs :
  is_launch_batch qs -> accepted P s qs ->
  exists d, s = Live d /\ d_failed d = false /\ d_kv d !! key_launched = None /\ ~ mixed_batch qs /\
            rstep P s (CRequests qs) = (Live (launch_result P d qs), Some (N.of_nat (length qs))).
Proof.
  intros Hl (v & Hr & Hv). destruct s as [d|]; [|discriminate]. exists d. split; [done|].
  unfold rstep in *. destruct (db_step P d (CRequests qs)) as [d' v'|d'|] eqn:E; cbn in Hr; try discriminate.
  injection Hr as ->. destruct (deadline_set P d qs d' v E Hl Hv) as (Hf & Hnm & Hnone & -> & -> & _).
  repeat split; done.
Qed.

(* a launch batch applied when the flag is present: never accepted, nothing changes *)
Lemma launch_again P s qs :
  (forall d, s = Live d -> is_Some (d_kv d !! key_launched)) -> is_launch_batch qs ->
  ((rstep P s (CRequests qs)).2 = Some 0 \/ (rstep P s (CRequests qs)).2 = None) /\
  (~ mixed_batch qs -> (rstep P s (CRequests qs)).1 = s) /\
  (forall d, s = Live d -> d_failed d = false -> ~ mixed_batch qs -> rstep P s (CRequests qs) = (s, Some 0)).
Proof.
  intros Hflag Hl. destruct s as [d|]; [|cbn; repeat split; auto; intros; discriminate].
  specialize (Hflag d eq_refl). unfold rstep, db_step. destruct (d_failed d) eqn:Hf.
  - cbn. split; [by right|]. split; [done|]. intros d1 [= <-] Hf'. congruence.
  - destruct (requests_cases P d qs) as [[Hm E]|[Hnm [(_ & _ & E)|[(_ & Hnone & _)|(Hnl & _)]]]]; try contradiction.
    + rewrite E. cbn. split; [by right|]. split; [intros Hnm; contradiction|intros d1 _ _ Hnm; contradiction].
    + rewrite E. cbn. split; [by left|]. split; [done|]. intros d1 _ _ _. reflexivity.
    + rewrite Hnone in Hflag. by destruct Hflag.
Qed.

Lemma once P d0 cs1 qs cs2 :
  is_launch_batch qs -> accepted P (run_from P (Live d0) cs1) qs ->
  (* it was applied while the flag was absent, and it wrote the flag *)
  (exists d, run_from P (Live d0) cs1 = Live d /\ d_failed d = false /\ d_kv d !! key_launched = None /\
             pure_launch qs /\
             rstep P (Live d) (CRequests qs) = (Live (launch_result P d qs), Some (N.of_nat (length qs))) /\
             d_kv (launch_result P d qs) !! key_launched = Some launched_rec) /\
  (* it is the first batch containing a launch request *)
  (forall pre qs' post, cs1 = pre ++ CRequests qs' :: post -> ~ is_launch_batch qs') /\
  (* every later launch batch returns 0 (or panics, if the replica has fail-stopped) and changes nothing *)
  (forall mid qs' post, cs2 = mid ++ CRequests qs' :: post -> is_launch_batch qs' ->
     let s := run_from P (Live d0) (cs1 ++ CRequests qs :: mid) in
     ~ accepted P s qs' /\
     ((rstep P s (CRequests qs')).2 = Some 0 \/ (rstep P s (CRequests qs')).2 = None) /\
     (~ mixed_batch qs' -> (rstep P s (CRequests qs')).1 = s) /\
     (forall d, s = Live d -> d_failed d = false -> ~ mixed_batch qs' -> rstep P s (CRequests qs') = (s, Some 0))).
Proof.
  intros Hl Hacc. destruct (accepted_inv P _ qs Hl Hacc) as (d & Hrun & Hf & Hnone & Hnm & Hstep).
  rewrite Hrun in Hstep.
  split; [|split].
  - exists d. split; [exact Hrun|]. split; [exact Hf|]. split; [exact Hnone|]. split; [by split|].
    split; [exact Hstep|]. cbn. apply lookup_insert.
  - intros pre qs' post -> Hl'.
    apply run_live_split in Hrun as (dp & Hp & Hrest). apply run_live_cons in Hrest as (dq & Hn & Hpost).
    assert (Hq : is_Some (d_kv dq !! key_launched) \/ d_failed dq = true).
    { unfold next, db_step in Hn. destruct (d_failed dp) eqn:Hfp; [injection Hn as <-; by right|].
      destruct (requests_cases P dp qs') as [[_ E]|[_ [(_ & Hld & E)|[(_ & _ & E)|(Hnl & _)]]]]; try contradiction;
        rewrite E in Hn; try discriminate; injection Hn as <-; left.
      - by apply is_launched_true.
      - cbn. rewrite lookup_insert. by eexists. }
    destruct Hq as [Hq|Hq].
    + pose proof (run_present P post dq d key_launched Hpost Hq) as Hd. rewrite Hnone in Hd. by destruct Hd.
    + rewrite (run_failed P post dq Hq) in Hpost. injection Hpost as <-. congruence.
  - intros mid qs' post -> Hl'. cbn zeta.
    set (s := run_from P (Live d0) (cs1 ++ CRequests qs :: mid)).
    assert (Hflag : forall d2, s = Live d2 -> is_Some (d_kv d2 !! key_launched)).
    { intros d2 Hs. unfold s in Hs. rewrite run_from_app, Hrun, run_from_cons, Hstep in Hs. cbn [fst] in Hs.
      eapply run_present; [exact Hs|]. cbn. rewrite lookup_insert. by eexists. }
    destruct (launch_again P s qs' Hflag Hl') as (H1 & H2 & H3).
    split; [|split; [exact H1|split; [exact H2|exact H3]]].
    intros (v & Hv & Hv0). destruct H1 as [H1|H1]; rewrite H1 in Hv; [injection Hv as <-; done|discriminate].
Qed.

Lemma at_most_one P d0 cs1 q1 cs2 q2 :
  is_launch_batch q1 -> is_launch_batch q2 ->
  accepted P (run_from P (Live d0) cs1) q1 ->
  ~ accepted P (run_from P (Live d0) (cs1 ++ CRequests q1 :: cs2)) q2.
Proof.
  intros H1 H2 Hacc. destruct (once P d0 cs1 q1 (cs2 ++ CRequests q2 :: []) H1 Hacc) as (_ & _ & H).
  destruct (H cs2 q2 [] eq_refl H2) as (Hn & _). exact Hn.
Qed.

(** * launch_inv: a deadline is only ever set together with writing the flag *)
Lemma step_launch_inv P d c d' : next P d c = Some d' -> launch_inv d -> launch_inv d'.
Proof.
  intros Hn Hinv. destruct (d_failed d) eqn:Hf.
  { rewrite (next_failed P d c Hf) in Hn. by injection Hn as <-. }
  pose proof (step_tdf P d c d' Hn Hf) as Hc. unfold launch_inv in *.
  destruct c as [|kv|t sd|r|qs|].
  - subst d'. destruct (tick_result_fields P d) as (_ & -> & -> & _). exact Hinv.
  - destruct Hc as (_ & _ & ->). intros H. eapply step_present; [exact Hn|auto].
  - destruct Hc as (_ & _ & ->). intros H. eapply step_present; [exact Hn|auto].
  - destruct Hc as (_ & _ & -> & _ & ->). destruct (_ && _); [done|exact Hinv].
  - destruct Hc as (_ & _ & [(_ & _ & ->)|(-> & -> & _)]); [|exact Hinv].
    intros _. cbn. rewrite lookup_insert. by eexists.
  - destruct Hc as (_ & _ & ->). intros H. eapply step_present; [exact Hn|auto].
Qed.

Lemma init_launch_inv : launch_inv db_init.
Proof. intros H. by destruct H. Qed.

Lemma run_launch_inv P cs d d' : run_from P (Live d) cs = Live d' -> launch_inv d -> launch_inv d'.
Proof.
  intros Hrun. apply (run_live_ind P (λ a b, launch_inv a -> launch_inv b)) with (cs := cs); auto.
  intros a c b Hs. apply (step_launch_inv P a c b Hs).
Qed.

Lemma reachable_launch_inv P cs d : run P cs = Live d -> launch_inv d.
Proof. intros H. eapply run_launch_inv; [exact H|apply init_launch_inv]. Qed.

(** * C09_cleared_iff *)
Lemma cleared_iff P d r d' :
  d_failed d = false -> next P d (CReport r) = Some d' ->
  (d_deadline d' = 0 <-> d_deadline d = 0 \/ all_launched d' = true) /\
  (d_deadline d' <> 0 -> d_deadline d' = d_deadline d) /\
  d_shards d' = d_shards d /\ d_tick d' = d_tick d /\ d_failed d' = false.
Proof.
  intros Hf Hn. destruct (step_tdf P d (CReport r) d' Hn Hf) as (Ht & Hf' & _ & Hs & Hd).
  repeat split; try done.
  - rewrite Hd. destruct (0 <? d_deadline d) eqn:E; cbn.
    + destruct (all_launched d'); [by right|]. intros ->. by left.
    + intros _. left. lia.
  - rewrite Hd. intros [H|H]; [rewrite H; cbn; reflexivity|]. rewrite H, andb_true_r.
    destruct (0 <? d_deadline d) eqn:E; [done|lia].
  - rewrite Hd. destruct (_ && _); [done|]. done.
Qed.

(* nothing but a report can clear a pending deadline *)
Lemma only_reports_clear P d c d' :
  next P d c = Some d' -> launch_inv d -> (forall r, c <> CReport r) ->
  d_deadline d <> 0 -> d_deadline d' = d_deadline d.
Proof.
  intros Hn Hinv Hnr Hd. destruct (d_failed d) eqn:Hf.
  { rewrite (next_failed P d c Hf) in Hn. by injection Hn as <-. }
  pose proof (step_tdf P d c d' Hn Hf) as Hc.
  destruct c as [|kv|t sd|r|qs|].
  - subst d'. apply (tick_result_fields P d).
  - apply Hc.
  - apply Hc.
  - by destruct (Hnr r).
  - destruct Hc as (_ & _ & [(_ & Hnone & _)|(-> & _)]); [|done].
    apply Hinv in Hd. rewrite Hnone in Hd. by destruct Hd.
  - apply Hc.
Qed.

(* the deadline changes in one step only in two ways *)
Lemma deadline_changes P d c d' :
  next P d c = Some d' ->
  d_deadline d' = d_deadline d \/
  (exists r, c = CReport r /\ d_failed d = false /\ d_deadline d <> 0 /\ all_launched d' = true /\ d_deadline d' = 0) \/
  (exists qs, c = CRequests qs /\ d_failed d = false /\ pure_launch qs /\ d_kv d !! key_launched = None /\
              d' = launch_result P d qs).
Proof.
  intros Hn. destruct (d_failed d) eqn:Hf.
  { rewrite (next_failed P d c Hf) in Hn. injection Hn as <-. by left. }
  pose proof (step_tdf P d c d' Hn Hf) as Hc.
  destruct c as [|kv|t sd|r|qs|].
  - subst d'. left. apply (tick_result_fields P d).
  - left. apply Hc.
  - left. apply Hc.
  - destruct Hc as (_ & _ & _ & _ & Hd). rewrite Hd.
    destruct (0 <? d_deadline d) eqn:E; cbn; [|by left].
    destruct (all_launched d') eqn:Ea; [|by left]. right; left. exists r. repeat split; try done. lia.
  - destruct Hc as (_ & _ & [(Hp & Hnone & ->)|(-> & _)]); [|by left]. right; right. exists qs. done.
  - left. apply Hc.
Qed.

(** * C09_cancel_for_good *)
Lemma step_cancelled P d c d' :
  next P d c = Some d' -> is_Some (d_kv d !! key_launched) /\ d_deadline d = 0 ->
  (is_Some (d_kv d' !! key_launched) /\ d_deadline d' = 0) /\ d_failed d' = d_failed d.
Proof.
  intros Hn [Hflag Hd]. split; [split|].
  - eapply step_present; eauto.
  - apply deadline_changes in Hn as [->|[(r & _ & _ & Hnz & _)|(qs & _ & _ & _ & Hnone & _)]]; [done|done|].
    rewrite Hnone in Hflag. by destruct Hflag.
  - destruct (d_failed d) eqn:Hf.
    { rewrite (next_failed P d c Hf) in Hn. by injection Hn as <-. }
    pose proof (step_tdf P d c d' Hn Hf) as Hc.
    destruct c as [|kv|t sd|r|qs|]; try apply Hc.
    subst d'. destruct (tick_result_fields P d) as (_ & _ & _ & _ & _ & ->). rewrite Hf, Hd. reflexivity.
Qed.

Lemma cancel_for_good P cs d d' :
  is_Some (d_kv d !! key_launched) -> d_deadline d = 0 -> run_from P (Live d) cs = Live d' ->
  is_Some (d_kv d' !! key_launched) /\ d_deadline d' = 0 /\ d_failed d' = d_failed d /\
  (d_failed d = false -> forall c d'', db_step P d' c <> SPanic d'').
Proof.
  intros Hflag Hd Hrun.
  assert (H : (is_Some (d_kv d' !! key_launched) /\ d_deadline d' = 0) /\ d_failed d' = d_failed d).
  { revert Hflag Hd.
    apply (run_live_ind P (λ a b, is_Some (d_kv a !! key_launched) -> d_deadline a = 0 ->
             (is_Some (d_kv b !! key_launched) /\ d_deadline b = 0) /\ d_failed b = d_failed a)) with (cs := cs); auto.
    - intros a b c Hab Hbc Ha1 Ha2. destruct (Hab Ha1 Ha2) as [[Hb1 Hb2] Hb3].
      destruct (Hbc Hb1 Hb2) as [Hc1 Hc3]. split; [done|congruence].
    - intros a c b Hs Ha1 Ha2. apply (step_cancelled P a c b Hs). done. }
  destruct H as [[H1 H2] H3]. repeat split; try done.
  intros Hf c d'' Hs.
  assert (Hn : next P d' c = Some d'') by (unfold next; rewrite Hs; reflexivity).
  destruct (step_cancelled P d' c d'' Hn (conj H1 H2)) as [_ Hf''].
  unfold db_step in Hs. rewrite H3, Hf in Hs.
  destruct c as [|kv|t sd|r|qs|].
  - unfold apply_tick in Hs. cbn [set_tick d_deadline d_tick] in Hs. rewrite H2 in Hs. cbn in Hs. discriminate.
  - destruct (kv_update d' kv) as [[? ?]|]; discriminate.
  - destruct (try_create_shard d' t sd) as [[? ?]|]; discriminate.
  - unfold apply_report in Hs. destruct (view_update _ _ _ _) as [[? ?]|]; discriminate.
  - destruct (requests_cases P d' qs) as [[_ E]|[_ [(_ & _ & E)|[(_ & _ & E)|(_ & E)]]]]; rewrite E in Hs; discriminate.
  - discriminate.
Qed.

(* from the initial state: after an accepted launch batch, once the deadline reads 0 it is 0 for good *)
Lemma cancel_for_good_run P d0 cs1 qs cs2 cs3 d d' :
  is_launch_batch qs -> accepted P (run_from P (Live d0) cs1) qs ->
  run_from P (Live d0) (cs1 ++ CRequests qs :: cs2) = Live d -> d_deadline d = 0 ->
  run_from P (Live d) cs3 = Live d' ->
  d_deadline d' = 0 /\ d_failed d' = d_failed d /\ (d_failed d = false -> forall c d'', db_step P d' c <> SPanic d'').
Proof.
  intros Hl Hacc Hrun Hd Hrun3.
  destruct (accepted_inv P _ qs Hl Hacc) as (da & Hrun1 & _ & _ & _ & Hstep).
  rewrite Hrun1 in Hstep.
  rewrite run_from_app, Hrun1, run_from_cons, Hstep in Hrun. cbn [fst] in Hrun.
  assert (Hflag : is_Some (d_kv d !! key_launched)).
  { eapply run_present; [exact Hrun|]. cbn. rewrite lookup_insert. by eexists. }
  destruct (cancel_for_good P cs3 d d' Hflag Hd Hrun3) as (_ & H2 & H3 & H4). done.
Qed.

(** * C09_failstop *)
Lemma tick_exact P d :
  d_failed d = false ->
  db_step P d CTick =
    if (0 <? d_deadline d) && (d_deadline d <? d_tick d + p_step P)
    then SPanic (set_failed (set_tick d (d_tick d + p_step P)) true)
    else SOk (set_tick d (d_tick d + p_step P)) (d_tick d + p_step P).
Proof. intros Hf. unfold db_step. rewrite Hf. reflexivity. Qed.

Lemma tick_failstop P d :
  d_failed d = false ->
  (0 < d_deadline d -> d_deadline d < d_tick d + p_step P ->
     exists d', db_step P d CTick = SPanic d' /\ d_failed d' = true /\ d_tick d' = d_tick d + p_step P /\
                d_deadline d' = d_deadline d) /\
  (d_deadline d = 0 \/ d_tick d + p_step P <= d_deadline d ->
     db_step P d CTick = SOk (set_tick d (d_tick d + p_step P)) (d_tick d + p_step P)).
Proof.
  intros Hf. rewrite (tick_exact P d Hf). split.
  - intros H1 H2. assert (E : (0 <? d_deadline d) && (d_deadline d <? d_tick d + p_step P) = true) by lia.
    rewrite E. eexists. split; [reflexivity|]. done.
  - intros H. assert (E : (0 <? d_deadline d) && (d_deadline d <? d_tick d + p_step P) = false) by lia.
    rewrite E. reflexivity.
Qed.

(* the latch is only ever set by a tick that passes a pending deadline *)
Lemma failed_only_by_tick P d c d' :
  next P d c = Some d' -> d_failed d = false -> d_failed d' = true ->
  c = CTick /\ 0 < d_deadline d /\ d_deadline d < d_tick d + p_step P /\ db_step P d c = SPanic d'.
Proof.
  intros Hn Hf Hf'. pose proof (step_tdf P d c d' Hn Hf) as Hc.
  destruct c as [|kv|t sd|r|qs|]; try (destruct Hc as (_ & Hx & _); congruence).
  split; [done|]. subst d'. destruct (tick_result_fields P d) as (_ & _ & _ & _ & _ & E).
  rewrite Hf' in E. rewrite Hf in E. cbn in E. symmetry in E.
  split; [lia|]. split; [lia|]. rewrite (tick_exact P d Hf), E. unfold tick_result. cbn [set_tick d_deadline d_tick]. rewrite E. reflexivity.
Qed.

Lemma failed_forever P d :
  d_failed d = true ->
  (forall c, db_step P d c = SPanic d) /\
  (forall c, rstep P (Live d) c = (Live d, None)) /\
  (forall cs, run_from P (Live d) cs = Live d) /\
  (forall cs, results_from P (Live d) cs = replicate (length cs) None) /\
  (forall q, db_query P d q = QPanic).
Proof.
  intros Hf. split; [|split; [|split; [|split]]].
  - intros c. by apply step_failed.
  - intros c. unfold rstep. by rewrite (step_failed P d c Hf).
  - intros cs. by apply run_failed.
  - intros cs. induction cs as [|c cs IH]; [done|]. cbn [results_from length replicate].
    unfold rstep at 1 2. rewrite (step_failed P d c Hf). cbn [fst snd]. by rewrite IH.
  - intros q. unfold db_query. by rewrite Hf.
Qed.

Lemma step_deadline_respected P d c d' : next P d c = Some d' -> deadline_respected d -> deadline_respected d'.
Proof.
  intros Hn Hinv. destruct (d_failed d) eqn:Hf.
  { rewrite (next_failed P d c Hf) in Hn. by injection Hn as <-. }
  pose proof (step_tdf P d c d' Hn Hf) as Hc. unfold deadline_respected in *.
  destruct c as [|kv|t sd|r|qs|].
  - subst d'. destruct (tick_result_fields P d) as (-> & -> & _ & _ & _ & ->). rewrite Hf. cbn [orb]. intros H1 H2. lia.
  - destruct Hc as (-> & _ & ->). auto.
  - destruct Hc as (-> & _ & ->). auto.
  - destruct Hc as (-> & _ & _ & _ & ->). destruct (_ && _); [done|auto].
  - destruct Hc as (Ht & _ & [(_ & _ & ->)|(-> & _)]); [|rewrite Ht; auto].
    intros _ _. cbn. lia.
  - destruct Hc as (-> & _ & ->). auto.
Qed.

Lemma init_deadline_respected : deadline_respected db_init.
Proof. intros _ H. by destruct H. Qed.

Lemma run_deadline_respected P cs d d' : run_from P (Live d) cs = Live d' -> deadline_respected d -> deadline_respected d'.
Proof.
  intros Hrun. apply (run_live_ind P (λ a b, deadline_respected a -> deadline_respected b)) with (cs := cs); auto.
  intros a c b Hs. apply (step_deadline_respected P a c b Hs).
Qed.

(* every reachable replica: fail-stopped, or no deadline pending, or the deadline not yet passed *)
Lemma no_survivor P cs d :
  run P cs = Live d -> d_failed d = true \/ d_deadline d = 0 \/ d_tick d <= d_deadline d.
Proof.
  intros H. pose proof (run_deadline_respected P cs db_init d H init_deadline_respected) as Hr.
  destruct (d_failed d) eqn:Hf; [by left|right]. destruct (decide (d_deadline d = 0)); [by left|right]. by apply Hr.
Qed.

(* the property sentence in one statement: a reachable replica whose deadline is still pending when a
   tick would take logical time past it has not been past it before, fail-stops on that tick, and
   from then on refuses every update and every query *)
Lemma failstop P cs d :
  run P cs = Live d -> d_failed d = false -> d_deadline d <> 0 -> d_deadline d < d_tick d + p_step P ->
  d_tick d <= d_deadline d /\
  exists d', db_step P d CTick = SPanic d' /\ d_failed d' = true /\
    (forall c, rstep P (Live d') c = (Live d', None)) /\
    (forall cs', run_from P (Live d') cs' = Live d' /\ results_from P (Live d') cs' = replicate (length cs') None) /\
    (forall q, db_query P d' q = QPanic).
Proof.
  intros Hrun Hf Hd Hlt. split.
  - destruct (no_survivor P cs d Hrun) as [Hx|[Hx|Hx]]; [congruence|contradiction|exact Hx].
  - destruct (tick_failstop P d Hf) as [H1 _].
    assert (Hpos : 0 < d_deadline d) by lia.
    destruct (H1 Hpos Hlt) as (d' & Hs & Hf' & _).
    exists d'. destruct (failed_forever P d' Hf') as (_ & A & B & C & D).
    split; [exact Hs|]. split; [exact Hf'|]. split; [exact A|]. split; [|exact D].
    intros cs'. split; [apply B|apply C].
Qed.

(** * C09_snapshot: what happens after a prefix is a function of the db record reached *)
Lemma results_from_app P s cs1 cs2 :
  results_from P s (cs1 ++ cs2) = results_from P s cs1 ++ results_from P (run_from P s cs1) cs2.
Proof.
  revert s. induction cs1 as [|c cs1 IH]; intros s; [done|].
  cbn [app results_from]. rewrite IH, run_from_cons. reflexivity.
Qed.

Lemma snapshot_suffix P d0 cs1 cs2 :
  run_from P (Live d0) (cs1 ++ cs2) = run_from P (run_from P (Live d0) cs1) cs2 /\
  results_from P (Live d0) (cs1 ++ cs2) =
    results_from P (Live d0) cs1 ++ results_from P (run_from P (Live d0) cs1) cs2.
Proof. split; [apply run_from_app|apply results_from_app]. Qed.
